import SaModel.Lemmas.C18ReadPlain
/-
C18, reader half: path assembly of the reader tree, and `deserialize_any`: every annotated error names a reader of
the subtree.
-/
namespace SaModel.Props.C18
open SaModel SaModel.Read

/-! ### path assembly -/

mutual
/-- positions of the reader tree of a view, as lists of child names (`ChildName` everywhere; map children below the
entries name; the dictionary reader has no child readers), with the `data_type` labels of the readers -/
def segsArr : Arr → List (List String × String)
  | .struct _ _ fs => ([], "Struct(..)") :: segsArrF fs
  | .list large _ _ fm el => ([], if large then "LargeList(..)" else "List(..)") :: under [rchildName fm.name] (segsArr el)
  | .fixedSizeList _ _ _ fm el => ([], "FixedSizeList(..)") :: under [rchildName fm.name] (segsArr el)
  | .map _ _ mm ks vs =>
    ([], "Map(..)") :: (under [rchildName mm.entriesName, rchildName mm.keys.name] (segsArr ks)
      ++ under [rchildName mm.entriesName, rchildName mm.values.name] (segsArr vs))
  | .union _ _ fs => ([], "Union(..)") :: segsArrU fs
  | a => [([], rlabel a)]
def segsArrF : ArrFields → List (List String × String)
  | .nil => []
  | .cons fm a rest => under [rchildName fm.name] (segsArr a) ++ segsArrF rest
def segsArrU : ArrUFields → List (List String × String)
  | .nil => []
  | .cons _ fm a rest => under [rchildName fm.name] (segsArr a) ++ segsArrU rest
end

mutual
theorem rpositions_eq : ∀ (a : Arr) (p : String), rpositions p a = positionsAt p (segsArr a)
  | .struct _ _ fs, p => by
    simp only [rpositions, segsArr, positionsAt_cons, rpositionsF_eq fs p]; simp [render, rlabel]
  | .list large _ _ fm el, p => by
    simp only [rpositions, segsArr, positionsAt_cons, positionsAt_under, rpositions_eq el]
    simp [render, rlabel, rchild]
  | .fixedSizeList _ _ _ fm el, p => by
    simp only [rpositions, segsArr, positionsAt_cons, positionsAt_under, rpositions_eq el]
    simp [render, rlabel, rchild]
  | .map _ _ mm ks vs, p => by
    simp only [rpositions, segsArr, positionsAt_cons, positionsAt_append, positionsAt_under, rpositions_eq ks, rpositions_eq vs]
    simp [render, rlabel, rmapChild]
  | .union _ _ fs, p => by
    simp only [rpositions, segsArr, positionsAt_cons, rpositionsU_eq fs p]; simp [render, rlabel]
  | .null _, p | .boolean _ _ _, p | .prim _ _ _, p | .time _ _ _ _, p | .timestamp _ _ _ _, p | .decimal128 _ _ _ _, p
  | .bytes _ _ _ _, p | .bytesView _ _ _ _, p | .fixedSizeBinary _ _ _, p | .dictionary _ _, p => by
    simp [rpositions, segsArr, positionsAt, render]
theorem rpositionsF_eq : ∀ (fs : ArrFields) (p : String), rpositionsF p fs = positionsAt p (segsArrF fs)
  | .nil, p => by simp [rpositionsF, segsArrF, positionsAt]
  | .cons fm a rest, p => by
    simp only [rpositionsF, segsArrF, positionsAt_append, positionsAt_under, rpositions_eq a, rpositionsF_eq rest p]
    simp [render, rchild]
theorem rpositionsU_eq : ∀ (fs : ArrUFields) (p : String), rpositionsU p fs = positionsAt p (segsArrU fs)
  | .nil, p => by simp [rpositionsU, segsArrU, positionsAt]
  | .cons _ fm a rest, p => by
    simp only [rpositionsU, segsArrU, positionsAt_append, positionsAt_under, rpositions_eq a, rpositionsU_eq rest p]
    simp [render, rchild]
end

theorem rann_eq (p : String) (a : Arr) : rann p a = posAnn (p, rlabel a) := rfl

theorem self_mem_rpositions (p : String) (a : Arr) : (p, rlabel a) ∈ rpositions p a := by
  cases a <;> simp [rpositions]

/-! ### children are part of the subtree -/

theorem fields_sub (p : String) : ∀ (fs : ArrFields) (fm : FieldMeta) (child : Arr), (fm, child) ∈ fs.toList →
    ∀ q ∈ rpositions (rchild p fm.name) child, q ∈ rpositionsF p fs
  | .nil, _, _, h => by simp [ArrFields.toList] at h
  | .cons fm' a rest, fm, child, h => by
    intro q hq
    simp only [ArrFields.toList, List.mem_cons, Prod.mk.injEq] at h
    simp only [rpositionsF, List.mem_append]
    rcases h with ⟨rfl, rfl⟩ | h
    · exact .inl hq
    · exact .inr (fields_sub p rest fm child h q hq)

theorem ufields_sub (p : String) : ∀ (fs : ArrUFields) (k : Nat) (fm : FieldMeta) (child : Arr),
    ArrUFields.nth fs k = some (fm, child) → ∀ q ∈ rpositions (rchild p fm.name) child, q ∈ rpositionsU p fs
  | .nil, _, _, _, h => by simp [ArrUFields.nth] at h
  | .cons _ fm' a rest, 0, fm, child, h => by
    simp only [ArrUFields.nth, Option.some.injEq, Prod.mk.injEq] at h
    obtain ⟨rfl, rfl⟩ := h
    intro q hq; simp only [rpositionsU, List.mem_append]; exact .inl hq
  | .cons _ fm' a rest, k + 1, fm, child, h => by
    simp only [ArrUFields.nth] at h
    intro q hq; simp only [rpositionsU, List.mem_append]; exact .inr (ufields_sub p rest k fm child h q hq)

/-! ### loops -/

theorem readRange_within {α} {S : List Pos} {f : Nat → R α} (hf : ∀ j, Within S (f j)) :
    ∀ (n s : Nat), Within S (readRange f s n)
  | 0, s => by unfold readRange; exact Within.of_ok _
  | n + 1, s => by
    unfold readRange
    exact Within.bind (hf s) fun _ _ => Within.bind (readRange_within hf n (s + 1)) fun _ _ => Within.of_ok _

theorem mapM_within {α β} {S : List Pos} {f : α → R β} : ∀ (l : List α), (∀ x ∈ l, Within S (f x)) → Within S (l.mapM f)
  | [], _ => by simp only [List.mapM_nil]; exact Within.of_ok _
  | x :: xs, h => by
    simp only [List.mapM_cons]
    exact Within.bind (h x (by simp)) fun _ _ =>
      Within.bind (mapM_within xs fun y hy => h y (by simp [hy])) fun _ _ => Within.of_ok _

theorem foldlM_within {α σ} {S : List Pos} {f : σ → α → R σ} : ∀ (l : List α) (init : σ),
    (∀ s, ∀ x ∈ l, Within S (f s x)) → Within S (l.foldlM f init)
  | [], init, _ => by simp only [List.foldlM_nil]; exact Within.of_ok _
  | x :: xs, init, h => by
    simp only [List.foldlM_cons]
    exact Within.bind (h init x (by simp)) fun s' _ => foldlM_within xs s' fun s y hy => h s y (by simp [hy])

theorem anyAt_within {S : List Pos} (fx : Fixes) (a : Arr) {f : Nat → R DVal} (hf : ∀ i, Within S (f i)) (idx : Nat) :
    Within S (anyAt fx a f idx) := by
  unfold anyAt
  exact Within.bind (NoCtx.within _) fun v _ => by
    split
    · exact hf idx
    · exact Within.of_ok _

/-! ### `deserialize_any` -/

theorem leaf_within (fx : Fixes) (a : Arr) (p : String) (idx : Nat)
    (hleaf : match a with | .struct _ _ _ | .list _ _ _ _ _ | .fixedSizeList _ _ _ _ _ | .map _ _ _ _ _ | .union _ _ _ => False | _ => True) :
    Within (rpositions p a) (ctx (posAnn (p, rlabel a)) (readAny fx a idx)) := by
  have := readAny_leaf_noctx fx a idx hleaf
  exact Within.ctx _ (self_mem_rpositions _ _) (NoCtx.within _)

mutual
theorem readAnyA_within (fx : Fixes) : ∀ (a : Arr) (p : String) (idx : Nat), Within (rpositions p a) (readAnyA fx p a idx)
  | .struct len v fs, p, idx => by
    unfold readAnyA
    rw [rann_eq]
    refine Within.ctx _ (self_mem_rpositions _ _) (anyAt_within fx _ (fun i => ?_) idx)
    split
    · exact NoCtx.within _
    · refine Within.bind (Within.mono ?_ (readAnyFieldsA_within fx fs p i)) fun _ _ => Within.of_ok _
      intro q hq; simp only [rpositions, List.mem_cons]; exact .inr hq
  | .list large v offs fm el, p, idx => by
    unfold readAnyA
    rw [rann_eq]
    refine Within.ctx _ (self_mem_rpositions _ _) (anyAt_within fx _ (fun i => ?_) idx)
    refine Within.bind (NoCtx.within _) fun se _ => ?_
    refine Within.bind (readRange_within (fun j => Within.mono ?_ (readAnyA_within fx el (rchild p fm.name) j)) _ _)
      fun _ _ => Within.of_ok _
    intro q hq; simp only [rpositions, List.mem_cons]; exact .inr hq
  | .fixedSizeList len v n fm el, p, idx => by
    unfold readAnyA
    rw [rann_eq]
    refine Within.ctx _ (self_mem_rpositions _ _) (anyAt_within fx _ (fun i => ?_) idx)
    refine Within.bind (NoCtx.within _) fun se _ => ?_
    refine Within.bind (readRange_within (fun j => Within.mono ?_ (readAnyA_within fx el (rchild p fm.name) j)) _ _)
      fun _ _ => Within.of_ok _
    intro q hq; simp only [rpositions, List.mem_cons]; exact .inr hq
  | .map v offs mm ks vs, p, idx => by
    unfold readAnyA
    rw [rann_eq]
    refine Within.ctx _ (self_mem_rpositions _ _) (anyAt_within fx _ (fun i => ?_) idx)
    refine Within.bind (NoCtx.within _) fun se _ => ?_
    refine Within.bind (readRange_within (fun j => ?_) _ _) fun _ _ => Within.of_ok _
    refine Within.bind (Within.mono ?_ (readAnyA_within fx ks _ j)) fun _ _ =>
      Within.bind (Within.mono ?_ (readAnyA_within fx vs _ j)) fun _ _ => Within.of_ok _
    · intro q hq; simp only [rpositions, List.mem_cons, List.mem_append]; exact .inr (.inl hq)
    · intro q hq; simp only [rpositions, List.mem_cons, List.mem_append]; exact .inr (.inr hq)
  | .union types offs fs, p, idx => by
    unfold readAnyA
    rw [rann_eq]
    refine Within.ctx _ (self_mem_rpositions _ _) (anyAt_within fx _ (fun i => ?_) idx)
    refine Within.bind (NoCtx.within _) fun ko _ => Within.mono ?_ (readAnyVariantA_within fx fs p ko.1 ko.2)
    intro q hq; simp only [rpositions, List.mem_cons]; exact .inr hq
  | .null _, p, idx | .boolean _ _ _, p, idx | .prim _ _ _, p, idx | .time _ _ _ _, p, idx | .timestamp _ _ _ _, p, idx
  | .decimal128 _ _ _ _, p, idx | .bytes _ _ _ _, p, idx | .bytesView _ _ _ _, p, idx | .fixedSizeBinary _ _ _, p, idx
  | .dictionary _ _, p, idx => by
    unfold readAnyA
    rw [rann_eq]
    exact leaf_within fx _ p idx trivial
theorem readAnyFieldsA_within (fx : Fixes) : ∀ (fs : ArrFields) (p : String) (idx : Nat),
    Within (rpositionsF p fs) (readAnyFieldsA fx p fs idx)
  | .nil, p, idx => by unfold readAnyFieldsA; exact Within.of_ok _
  | .cons fm a rest, p, idx => by
    unfold readAnyFieldsA
    refine Within.bind (Within.mono ?_ (readAnyA_within fx a _ idx)) fun _ _ =>
      Within.bind (Within.mono ?_ (readAnyFieldsA_within fx rest p idx)) fun _ _ => Within.of_ok _
    · intro q hq; simp only [rpositionsF, List.mem_append]; exact .inl hq
    · intro q hq; simp only [rpositionsF, List.mem_append]; exact .inr hq
theorem readAnyVariantA_within (fx : Fixes) : ∀ (fs : ArrUFields) (p : String) (k off : Nat),
    Within (rpositionsU p fs) (readAnyVariantA fx p fs k off)
  | .nil, p, k, off => by unfold readAnyVariantA; exact NoCtx.within _
  | .cons _ fm a rest, p, 0, off => by
    unfold readAnyVariantA
    refine Within.bind (Within.mono ?_ (readAnyA_within fx a _ off)) fun _ _ => Within.of_ok _
    intro q hq; simp only [rpositionsU, List.mem_append]; exact .inl hq
  | .cons _ fm a rest, p, k + 1, off => by
    unfold readAnyVariantA
    refine Within.mono ?_ (readAnyVariantA_within fx rest p k off)
    intro q hq; simp only [rpositionsU, List.mem_append]; exact .inr hq
end

/-- `deserialize_any` never returns a plain error: the trait default wraps everything in `.ctx(self)` -/
theorem readAnyA_not_plain (fx : Fixes) (p : String) (a : Arr) (idx : Nat) (msg : String) :
    readAnyA fx p a idx ≠ .error (.err msg) := by
  cases a <;> (unfold readAnyA; rw [rann_eq]; exact ctx_never_plain _ _ _)

end SaModel.Props.C18
