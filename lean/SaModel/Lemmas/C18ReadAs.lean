import SaModel.Lemmas.C18ReadAny
/-
C18, reader half: the typed reads.  Every annotated error names a reader of the subtree (with or without the two
`fix:` commits); with them, no error is left without annotation.
-/
namespace SaModel.Props.C18
open SaModel SaModel.Read

/-- the subtree a variant payload is read from -/
def srcPositions : Option (String × Arr × Nat) → List Pos
  | some (cp, child, _) => rpositions cp child
  | none => []

theorem Within.ctxIf {α} {S : List Pos} {r : R α} (b : Bool) (q : Pos) (hq : q ∈ S) (h : Within S r) :
    Within S (ctxIf b (posAnn q) r) := by
  unfold SaModel.Read.ctxIf; split
  · exact Within.ctx q hq h
  · exact h

theorem tail_sub {q0 : Pos} {l : List Pos} : ∀ q ∈ l, q ∈ q0 :: l := fun _ h => List.mem_cons_of_mem _ h

theorem tupleVisitA_within (fx : Fixes) (p : String) (rf : ArrFields → R (List DVal)) (a : Arr) (idx : Nat)
    (h : ∀ len v fs, a = .struct len v fs → Within (rpositionsF p fs) (rf fs)) :
    Within (rpositions p a) (tupleVisitA fx p rf a idx) := by
  unfold tupleVisitA
  rw [rann_eq]
  refine Within.ctx _ (self_mem_rpositions _ _) ?_
  unfold tupleVisit
  split
  · rename_i len v fs
    refine Within.bind (NoCtx.within _) fun _ _ => Within.bind (Within.mono ?_ (h len v fs rfl)) fun _ _ => Within.of_ok _
    simp only [rpositions]; exact tail_sub
  · exact NoCtx.within _

theorem structVisitA_within (fx : Fixes) (p : String) (rf : Slots → FieldMeta → Arr → R (Option (Nat × DVal))) (tfs : TFields)
    (a : Arr) (idx : Nat)
    (h : ∀ slots fm child, Within (rpositions (rchild p fm.name) child) (rf slots fm child)) :
    Within (rpositions p a) (structVisitA fx p rf tfs a idx) := by
  unfold structVisitA
  rw [rann_eq]
  refine Within.ctx _ (self_mem_rpositions _ _) ?_
  split
  · rename_i len v fs
    refine Within.bind (NoCtx.within _) fun _ _ => Within.bind ?_ fun _ _ => Within.bind (NoCtx.within _) fun _ _ => Within.of_ok _
    refine foldlM_within _ _ fun slots x hx => ?_
    obtain ⟨fm, child⟩ := x
    have hsub : ∀ q ∈ rpositions (rchild p fm.name) child, q ∈ rpositions p (.struct len v fs) := by
      intro q hq; simp only [rpositions]; exact tail_sub _ (fields_sub p fs fm child hx q hq)
    refine Within.bind (Within.mono hsub (h slots fm child)) fun r _ => ?_
    split
    · exact Within.of_ok _
    · exact Within.bind (Within.mono hsub (readAnyA_within fx child _ idx)) fun _ _ => Within.of_ok _
  · exact NoCtx.within _

theorem scalar_within (fx : Fixes) (p : String) (t : Target) (m : Method) (a : Arr) (idx : Nat) :
    Within (rpositions p a) (ctx (rann p a) (do accept t (← scalar fx m a idx))) := by
  rw [rann_eq]; exact Within.ctx _ (self_mem_rpositions _ _) (NoCtx.within _)

mutual
theorem readAsA_within (af : AnnFixes) (fx : Fixes) : ∀ (t : Target) (p : String) (a : Arr) (idx : Nat),
    Within (rpositions p a) (readAsA af fx p t a idx)
  | .any, p, a, idx => by unfold readAsA; exact readAnyA_within fx a p idx
  | .ignored, p, a, idx => by
    unfold readAsA; exact Within.bind (readAnyA_within fx a p idx) fun _ _ => Within.of_ok _
  | .unit, p, a, idx => by unfold readAsA; exact scalar_within _ _ _ _ _ _
  | .unitStruct, p, a, idx => by unfold readAsA; exact scalar_within _ _ _ _ _ _
  | .bool, p, a, idx => by unfold readAsA; exact scalar_within _ _ _ _ _ _
  | .int ty, p, a, idx => by unfold readAsA; exact scalar_within _ _ _ _ _ _
  | .f32, p, a, idx => by unfold readAsA; exact scalar_within _ _ _ _ _ _
  | .f64, p, a, idx => by unfold readAsA; exact scalar_within _ _ _ _ _ _
  | .char, p, a, idx => by unfold readAsA; exact scalar_within _ _ _ _ _ _
  | .string, p, a, idx => by unfold readAsA; exact scalar_within _ _ _ _ _ _
  | .str, p, a, idx => by unfold readAsA; exact scalar_within _ _ _ _ _ _
  | .bytes, p, a, idx => by
    unfold readAsA; rw [rann_eq]
    refine Within.ctx _ (self_mem_rpositions _ _) ?_
    split <;> exact NoCtx.within _
  | .byteBuf, p, a, idx => by
    unfold readAsA; rw [rann_eq]
    refine Within.ctx _ (self_mem_rpositions _ _) ?_
    split
    · rename_i large v offs fm el
      refine Within.bind (NoCtx.within _) fun se _ => Within.bind (readRange_within (fun j => ?_) _ _) fun _ _ => Within.of_ok _
      rw [rann_eq]
      refine Within.ctx _ ?_ (NoCtx.within _)
      simp only [rpositions]; exact tail_sub _ (self_mem_rpositions _ _)
    · exact NoCtx.within _
  | .option t, p, a, idx => by
    unfold readAsA; rw [rann_eq]
    refine Within.ctx _ (self_mem_rpositions _ _) (Within.bind (NoCtx.within _) fun b _ => ?_)
    split
    · exact Within.bind (readAsA_within af fx t p a idx) fun _ _ => Within.of_ok _
    · exact Within.of_ok _
  | .newtype t, p, a, idx => by unfold readAsA; exact readAsA_within af fx t p a idx
  | .seq t, p, a, idx => by
    unfold readAsA
    split
    · rename_i large v offs fm el
      rw [rann_eq]
      refine Within.ctx _ (self_mem_rpositions _ _) (Within.bind (NoCtx.within _) fun se _ =>
        Within.bind (readRange_within (fun j => Within.mono ?_ (readAsA_within af fx t _ el j)) _ _) fun _ _ => Within.of_ok _)
      simp only [rpositions]; exact tail_sub
    · rename_i len v n fm el
      rw [rann_eq]
      refine Within.ctxIf _ _ (self_mem_rpositions _ _) (Within.bind (NoCtx.within _) fun se _ =>
        Within.bind (readRange_within (fun j => Within.mono ?_ (readAsA_within af fx t _ el j)) _ _) fun _ _ => Within.of_ok _)
      simp only [rpositions]; exact tail_sub
    · rw [rann_eq]
      refine Within.ctx _ (self_mem_rpositions _ _) ?_
      split
      · rename_i rb hrb
        have := binaryElems_noctx fx a idx rb hrb
        exact NoCtx.within _
      · exact NoCtx.within _
  | .tuple ts, p, a, idx => by
    unfold readAsA
    exact tupleVisitA_within fx p _ a idx fun len v fs _ => readTupleFieldsA_within af fx ts p fs idx
  | .tupleStruct ts, p, a, idx => by
    unfold readAsA
    exact tupleVisitA_within fx p _ a idx fun len v fs _ => readTupleFieldsA_within af fx ts p fs idx
  | .map k v, p, a, idx => by
    unfold readAsA; rw [rann_eq]
    refine Within.ctx _ (self_mem_rpositions _ _) ?_
    split
    · rename_i len vv fs
      refine Within.bind (NoCtx.within _) fun _ _ => Within.bind (mapM_within _ fun x hx => ?_) fun _ _ => Within.of_ok _
      obtain ⟨fm, child⟩ := x
      refine Within.bind (NoCtx.within _) fun _ _ =>
        Within.bind (Within.mono ?_ (readAsA_within af fx v (rchild p fm.name) child idx)) fun _ _ => Within.of_ok _
      intro q hq; simp only [rpositions]; exact tail_sub _ (fields_sub p fs fm child hx q hq)
    · rename_i vv offs mm ks vs
      refine Within.bind (NoCtx.within _) fun se _ => Within.bind (readRange_within (fun j => ?_) _ _) fun _ _ => Within.of_ok _
      refine Within.bind (Within.mono ?_ (readAsA_within af fx k _ ks j)) fun _ _ =>
        Within.bind (Within.mono ?_ (readAsA_within af fx v _ vs j)) fun _ _ => Within.of_ok _
      · intro q hq; simp only [rpositions, List.mem_cons, List.mem_append]; exact .inr (.inl hq)
      · intro q hq; simp only [rpositions, List.mem_cons, List.mem_append]; exact .inr (.inr hq)
    · exact NoCtx.within _
  | .struct tfs, p, a, idx => by
    unfold readAsA
    exact structVisitA_within fx p _ tfs a idx fun slots fm child => readFieldAsA_within af fx tfs 0 slots fm.name _ child idx
  | .enum byIndex vs, p, a, idx => by
    unfold readAsA
    split
    · rename_i types offs fs
      rw [rann_eq]
      refine Within.ctxIf _ _ (self_mem_rpositions _ _) (Within.bind (NoCtx.within _) fun ko _ => ?_)
      obtain ⟨k, off⟩ := ko
      dsimp only
      split
      · exact NoCtx.within _
      · rename_i fm child hn
        refine Within.mono ?_ (readVariantAsA_within af fx vs _ fm.name (some (rchild p fm.name, child, off)))
        intro q hq; simp only [rpositions]; exact tail_sub _ (ufields_sub p fs k fm child hn q hq)
    · rw [rann_eq]
      refine Within.ctx _ (self_mem_rpositions _ _) ?_
      split
      · rename_i rs hrs
        have := stringElem_noctx fx a idx rs hrs
        refine Within.bind (NoCtx.within _) fun s _ => ?_
        split
        · exact NoCtx.within _
        · exact Within.mono (by intro q hq; cases hq) (readVariantAsBytesA_within af fx vs s)
      · exact NoCtx.within _
theorem readTupleFieldsA_within (af : AnnFixes) (fx : Fixes) : ∀ (ts : Targets) (p : String) (fs : ArrFields) (idx : Nat),
    Within (rpositionsF p fs) (readTupleFieldsA af fx p ts fs idx)
  | .nil, p, fs, idx => by unfold readTupleFieldsA; exact Within.of_ok _
  | .cons t rest, p, .nil, idx => by unfold readTupleFieldsA; exact NoCtx.within _
  | .cons t rest, p, .cons fm a frest, idx => by
    unfold readTupleFieldsA
    refine Within.bind (Within.mono ?_ (readAsA_within af fx t _ a idx)) fun _ _ =>
      Within.bind (Within.mono ?_ (readTupleFieldsA_within af fx rest p frest idx)) fun _ _ => Within.of_ok _
    · intro q hq; simp only [rpositionsF, List.mem_append]; exact .inl hq
    · intro q hq; simp only [rpositionsF, List.mem_append]; exact .inr hq
theorem readFieldAsA_within (af : AnnFixes) (fx : Fixes) : ∀ (tfs : TFields) (pos : Nat) (slots : Slots) (name cp : String)
    (child : Arr) (idx : Nat), Within (rpositions cp child) (readFieldAsA af fx tfs pos slots name cp child idx)
  | .nil, _, _, _, _, _, _ => by unfold readFieldAsA; exact Within.of_ok _
  | .cons n t rest, pos, slots, name, cp, child, idx => by
    unfold readFieldAsA
    split
    · split
      · exact NoCtx.within _
      · exact Within.bind (readAsA_within af fx t cp child idx) fun _ _ => Within.of_ok _
    · exact readFieldAsA_within af fx rest (pos + 1) slots name cp child idx
theorem readVariantAsA_within (af : AnnFixes) (fx : Fixes) : ∀ (vs : TVariants) (sel : Option Nat) (name : String)
    (src : Option (String × Arr × Nat)), Within (srcPositions src) (readVariantAsA af fx vs sel name src)
  | .nil, _, _, _ => by unfold readVariantAsA; exact NoCtx.within _
  | .cons n k rest, sel, name, src => by
    unfold readVariantAsA
    refine Within.ite _ ?_ ?_
    · exact Within.bind (readKindA_within af fx k src) fun _ _ => Within.of_ok _
    · exact readVariantAsA_within af fx rest _ name src
theorem readVariantAsBytesA_within (af : AnnFixes) (fx : Fixes) : ∀ (vs : TVariants) (s : Bytes),
    Within [] (readVariantAsBytesA af fx vs s)
  | .nil, _ => by unfold readVariantAsBytesA; exact NoCtx.within _
  | .cons n k rest, s => by
    unfold readVariantAsBytesA
    split
    · exact Within.bind (readKindA_within af fx k none) fun _ _ => Within.of_ok _
    · exact readVariantAsBytesA_within af fx rest s
theorem readKindA_within (af : AnnFixes) (fx : Fixes) : ∀ (k : VKind) (src : Option (String × Arr × Nat)),
    Within (srcPositions src) (readKindA af fx k src)
  | .unit, some (cp, child, off) => by
    unfold readKindA; exact scalar_within _ _ _ _ _ _
  | .unit, none => by unfold readKindA; exact Within.of_ok _
  | .newtype t, some (cp, child, off) => by unfold readKindA; exact readAsA_within af fx t cp child off
  | .tuple ts, some (cp, child, off) => by
    unfold readKindA
    exact tupleVisitA_within fx cp _ child off fun len v fs _ => readTupleFieldsA_within af fx ts cp fs off
  | .struct tfs, some (cp, child, off) => by
    unfold readKindA
    exact structVisitA_within fx cp _ tfs child off fun slots fm c => readFieldAsA_within af fx tfs 0 slots fm.name _ c off
  | .newtype _, none => by unfold readKindA; exact NoCtx.within _
  | .tuple _, none => by unfold readKindA; exact NoCtx.within _
  | .struct _, none => by unfold readKindA; exact NoCtx.within _
end

/-! ### with the two fixes no typed read returns a plain error -/

theorem bind_not_plain {α β} (r : R α) (f : α → R β) (hr : ∀ msg, r ≠ .error (.err msg))
    (hf : ∀ v msg, f v ≠ .error (.err msg)) (msg : String) : (r >>= f) ≠ .error (.err msg) := by
  cases r with
  | ok v => exact hf v msg
  | error e => intro h; exact hr msg (by simpa [Bind.bind, Except.bind] using h)

theorem readAsA_not_plain (fx : Fixes) : ∀ (t : Target) (p : String) (a : Arr) (idx : Nat) (msg : String),
    readAsA AnnFixes.all fx p t a idx ≠ .error (.err msg)
  | .any, p, a, idx, msg => by unfold readAsA; exact readAnyA_not_plain fx p a idx msg
  | .ignored, p, a, idx, msg => by
    unfold readAsA
    exact bind_not_plain _ _ (readAnyA_not_plain fx p a idx) (fun _ _ h => by cases h) msg
  | .unit, p, a, idx, msg | .unitStruct, p, a, idx, msg | .bool, p, a, idx, msg | .int _, p, a, idx, msg
  | .f32, p, a, idx, msg | .f64, p, a, idx, msg | .char, p, a, idx, msg | .string, p, a, idx, msg | .str, p, a, idx, msg
  | .bytes, p, a, idx, msg | .byteBuf, p, a, idx, msg | .option _, p, a, idx, msg | .map _ _, p, a, idx, msg => by
    unfold readAsA; rw [rann_eq]; exact ctx_never_plain _ _ _
  | .newtype t, p, a, idx, msg => by unfold readAsA; exact readAsA_not_plain fx t p a idx msg
  | .seq t, p, a, idx, msg => by
    unfold readAsA
    split <;> (rw [rann_eq]; first | exact ctx_never_plain _ _ _ | (simp only [AnnFixes.all, SaModel.Read.ctxIf, if_true]; exact ctx_never_plain _ _ _))
  | .tuple _, p, a, idx, msg | .tupleStruct _, p, a, idx, msg => by
    unfold readAsA tupleVisitA; rw [rann_eq]; exact ctx_never_plain _ _ _
  | .struct _, p, a, idx, msg => by
    unfold readAsA structVisitA; rw [rann_eq]; exact ctx_never_plain _ _ _
  | .enum _ _, p, a, idx, msg => by
    unfold readAsA
    split <;> (rw [rann_eq]; first | exact ctx_never_plain _ _ _ | (simp only [AnnFixes.all, SaModel.Read.ctxIf, if_true]; exact ctx_never_plain _ _ _))

end SaModel.Props.C18
