import SaModel.Lemmas.C18ReadPlain
/-
C18, reader half: the un-annotated reader model (`Reader.readAny`, `Reader.readAs`: the subject of C02 / C12 / C17) never
returns an annotated error — it has no `.ctx(..)`.  Hence `eraseAnn` is the identity on it.
-/
namespace SaModel.Props.C18
open SaModel SaModel.Read

instance readRange_noctx {α} (f : Nat → R α) [h : ∀ j, NoCtx (f j)] : ∀ (n s : Nat), NoCtx (readRange f s n)
  | 0, s => by unfold readRange; infer_instance
  | n + 1, s => by
    have := fun s => readRange_noctx f n s
    unfold readRange; noctx

instance foldlM_noctx {α σ} (f : σ → α → R σ) [h : ∀ s x, NoCtx (f s x)] : ∀ (l : List α) (init : σ), NoCtx (l.foldlM f init)
  | [], init => by simp only [List.foldlM_nil]; infer_instance
  | x :: xs, init => by
    have := fun s => foldlM_noctx f xs s
    simp only [List.foldlM_cons]; infer_instance

instance anyAt_noctx (fx : Fixes) (a : Arr) (f : Nat → R DVal) [h : ∀ i, NoCtx (f i)] (idx : Nat) : NoCtx (anyAt fx a f idx) := by
  unfold anyAt; noctx

mutual
theorem readAnySome_noctx (fx : Fixes) : ∀ (a : Arr) (idx : Nat), NoCtx (readAnySome fx a idx)
  | .struct len v fs, idx => by
    have := readAnyFields_noctx fx fs
    unfold readAnySome; noctx
  | .list large v offs fm el, idx => by
    have := readAnySome_noctx fx el
    unfold readAnySome; noctx
  | .fixedSizeList len v n fm el, idx => by
    have := readAnySome_noctx fx el
    unfold readAnySome; noctx
  | .map v offs mm ks vs, idx => by
    have := readAnySome_noctx fx ks
    have := readAnySome_noctx fx vs
    unfold readAnySome; noctx
  | .union types offs fs, idx => by
    have := readAnyVariant_noctx fx fs
    unfold readAnySome; noctx
  | .null _, idx | .boolean _ _ _, idx | .prim _ _ _, idx | .time _ _ _ _, idx | .timestamp _ _ _ _, idx
  | .decimal128 _ _ _ _, idx | .bytes _ _ _ _, idx | .bytesView _ _ _ _, idx | .fixedSizeBinary _ _ _, idx
  | .dictionary _ _, idx => by
    unfold readAnySome; noctx
theorem readAnyFields_noctx (fx : Fixes) : ∀ (fs : ArrFields) (idx : Nat), NoCtx (readAnyFields fx fs idx)
  | .nil, idx => by unfold readAnyFields; infer_instance
  | .cons fm a rest, idx => by
    have := readAnySome_noctx fx a
    have := readAnyFields_noctx fx rest
    unfold readAnyFields; noctx
theorem readAnyVariant_noctx (fx : Fixes) : ∀ (fs : ArrUFields) (k off : Nat), NoCtx (readAnyVariant fx fs k off)
  | .nil, k, off => by unfold readAnyVariant; infer_instance
  | .cons _ fm a rest, 0, off => by
    have := readAnySome_noctx fx a
    unfold readAnyVariant; noctx
  | .cons _ fm a rest, k + 1, off => by
    unfold readAnyVariant; exact readAnyVariant_noctx fx rest k off
end

instance readAny_noctx (fx : Fixes) (a : Arr) (idx : Nat) : NoCtx (readAny fx a idx) := by
  have := readAnySome_noctx fx a
  unfold readAny; infer_instance

instance tupleVisit_noctx (fx : Fixes) (rf : ArrFields → R (List DVal)) [h : ∀ fs, NoCtx (rf fs)] (a : Arr) (idx : Nat) :
    NoCtx (tupleVisit fx rf a idx) := by
  unfold tupleVisit; noctx

instance structVisit_noctx (fx : Fixes) (rf : Slots → String → Arr → R (Option (Nat × DVal))) [h : ∀ s n c, NoCtx (rf s n c)]
    (tfs : TFields) (a : Arr) (idx : Nat) : NoCtx (structVisit fx rf tfs a idx) := by
  unfold structVisit
  split
  · refine @NoCtx.bind _ _ _ _ inferInstance fun _ => ?_
    refine @NoCtx.bind _ _ _ _ ?_ fun _ => ?_
    · refine @foldlM_noctx _ _ _ (fun s x => ?_) _ _
      noctx
    · noctx
  · infer_instance

mutual
theorem readAs_noctx (fx : Fixes) : ∀ (t : Target) (a : Arr) (idx : Nat), NoCtx (readAs fx t a idx)
  | .any, a, idx => by unfold readAs; infer_instance
  | .ignored, a, idx => by unfold readAs; noctx
  | .unit, a, idx | .unitStruct, a, idx | .bool, a, idx | .int _, a, idx | .f32, a, idx | .f64, a, idx | .char, a, idx
  | .string, a, idx | .str, a, idx | .bytes, a, idx | .byteBuf, a, idx => by unfold readAs; noctx
  | .option t, a, idx => by
    have := readAs_noctx fx t
    unfold readAs; noctx
  | .newtype t, a, idx => by unfold readAs; exact readAs_noctx fx t a idx
  | .seq t, a, idx => by
    have := readAs_noctx fx t
    unfold readAs
    split
    · noctx
    · noctx
    · split
      · rename_i rb hrb
        have := binaryElems_noctx fx a idx rb hrb
        noctx
      · infer_instance
  | .tuple ts, a, idx => by
    have := readTupleFields_noctx fx ts
    unfold readAs; infer_instance
  | .tupleStruct ts, a, idx => by
    have := readTupleFields_noctx fx ts
    unfold readAs; infer_instance
  | .map k v, a, idx => by
    have := readAs_noctx fx k
    have := readAs_noctx fx v
    unfold readAs; noctx
  | .struct tfs, a, idx => by
    have := readFieldAs_noctx fx tfs
    unfold readAs; infer_instance
  | .enum byIndex vs, a, idx => by
    have := readVariantAs_noctx fx vs
    have := readVariantAsBytes_noctx fx vs
    unfold readAs
    split
    · noctx
    · split
      · rename_i rs hrs
        have := stringElem_noctx fx a idx rs hrs
        noctx
      · infer_instance
theorem readTupleFields_noctx (fx : Fixes) : ∀ (ts : Targets) (fs : ArrFields) (idx : Nat), NoCtx (readTupleFields fx ts fs idx)
  | .nil, fs, idx => by unfold readTupleFields; infer_instance
  | .cons t rest, .nil, idx => by unfold readTupleFields; infer_instance
  | .cons t rest, .cons fm a frest, idx => by
    have := readAs_noctx fx t
    have := readTupleFields_noctx fx rest
    unfold readTupleFields; noctx
theorem readFieldAs_noctx (fx : Fixes) : ∀ (tfs : TFields) (pos : Nat) (slots : Slots) (name : String) (child : Arr) (idx : Nat),
    NoCtx (readFieldAs fx tfs pos slots name child idx)
  | .nil, _, _, _, _, _ => by unfold readFieldAs; infer_instance
  | .cons n t rest, pos, slots, name, child, idx => by
    have := readAs_noctx fx t
    have := readFieldAs_noctx fx rest
    unfold readFieldAs; noctx
theorem readVariantAs_noctx (fx : Fixes) : ∀ (vs : TVariants) (sel : Option Nat) (name : String) (src : Option (Arr × Nat)),
    NoCtx (readVariantAs fx vs sel name src)
  | .nil, _, _, _ => by unfold readVariantAs; infer_instance
  | .cons n k rest, sel, name, src => by
    have := readKind_noctx fx k
    have := readVariantAs_noctx fx rest
    unfold readVariantAs; noctx
theorem readVariantAsBytes_noctx (fx : Fixes) : ∀ (vs : TVariants) (s : Bytes), NoCtx (readVariantAsBytes fx vs s)
  | .nil, _ => by unfold readVariantAsBytes; infer_instance
  | .cons n k rest, s => by
    have := readKind_noctx fx k
    have := readVariantAsBytes_noctx fx rest
    unfold readVariantAsBytes; noctx
theorem readKind_noctx (fx : Fixes) : ∀ (k : VKind) (src : Option (Arr × Nat)), NoCtx (readKind fx k src)
  | .unit, some (child, off) => by unfold readKind; noctx
  | .unit, none => by unfold readKind; infer_instance
  | .newtype t, some (child, off) => by unfold readKind; exact readAs_noctx fx t child off
  | .tuple ts, some (child, off) => by
    have := readTupleFields_noctx fx ts
    unfold readKind; infer_instance
  | .struct tfs, some (child, off) => by
    have := readFieldAs_noctx fx tfs
    unfold readKind; infer_instance
  | .newtype _, none => by unfold readKind; infer_instance
  | .tuple _, none => by unfold readKind; infer_instance
  | .struct _, none => by unfold readKind; infer_instance
end

instance readAs_noctx' (fx : Fixes) (t : Target) (a : Arr) (idx : Nat) : NoCtx (readAs fx t a idx) := readAs_noctx fx t a idx

end SaModel.Props.C18
