import SaModel.Lemmas.C18Within
import SaModel.Read.Annot
/-
C18, reader half: the parts of the reader model that never call `.ctx(..)` return no annotated error.
-/
namespace SaModel.Props.C18
open SaModel SaModel.Read

instance (fx : Fixes) (b : Bits) (idx : Nat) : NoCtx (getBitBuffer fx b idx) := by unfold getBitBuffer; noctx
instance (fx : Fixes) (v : Option Bits) (idx : Nat) : NoCtx (validityIsSet fx v idx) := by unfold validityIsSet; noctx
instance (x : Int) : NoCtx (tryIntoUsize x) := by unfold tryIntoUsize; noctx
instance {α} (x : R (Option α)) [NoCtx x] : NoCtx (getRequired x) := by unfold getRequired; noctx
instance {α} (x : R (Option α)) [NoCtx x] : NoCtx (optIsSome x) := by unfold optIsSome; noctx
instance (fx : Fixes) (v : Option Bits) (vals : List Int) (idx : Nat) : NoCtx (primGet fx v vals idx) := by
  unfold primGet; noctx
instance (fx : Fixes) (len : Nat) (v : Option Bits) (vals : Bits) (idx : Nat) : NoCtx (boolGet fx len v vals idx) := by
  unfold boolGet; noctx
instance (fx : Fixes) (v : Option Bits) (offs : List Int) (data : Bytes) (idx : Nat) : NoCtx (bytesGet fx v offs data idx) := by
  unfold bytesGet; noctx
instance (buffers : List Bytes) (desc : Nat) : NoCtx (viewBytes buffers desc) := by unfold viewBytes; noctx
instance (fx : Fixes) (v : Option Bits) (views : List Nat) (buffers : List Bytes) (idx : Nat) :
    NoCtx (viewGet fx v views buffers idx) := by unfold viewGet; noctx
instance (x : R (Option Bytes)) [NoCtx x] : NoCtx (asStr x) := by unfold asStr; noctx
instance (fx : Fixes) (n : Int) (data : Bytes) : NoCtx (fsbNew fx n data) := by unfold fsbNew; noctx
instance (fx : Fixes) (n len : Nat) (v : Option Bits) (data : Bytes) (idx : Nat) : NoCtx (fsbGet fx n len v data idx) := by
  unfold fsbGet; noctx
instance (fx : Fixes) (offs : List Int) (idx : Nat) : NoCtx (listRange fx offs idx) := by unfold listRange; noctx
instance (fx : Fixes) (len : Nat) (n : Int) (idx : Nat) : NoCtx (fslRange fx len n idx) := by unfold fslRange; noctx
instance (fx : Fixes) (ty : BytesTy) (v : Option Bits) (offs : List Int) (data : Bytes) (idx : Nat) :
    NoCtx (bytesColGet fx ty v offs data idx) := by unfold bytesColGet; noctx
instance (fx : Fixes) (ty : ViewTy) (v : Option Bits) (views : List Nat) (buffers : List Bytes) (idx : Nat) :
    NoCtx (viewColGet fx ty v views buffers idx) := by unfold viewColGet; noctx
instance (fx : Fixes) (n : Int) (v : Option Bits) (data : Bytes) (idx : Nat) : NoCtx (fsbColGet fx n v data idx) := by
  unfold fsbColGet; noctx
instance (fx : Fixes) (len idx : Nat) : NoCtx (nullCheck fx len idx) := by unfold nullCheck; noctx
instance (fx : Fixes) (a : Arr) (idx : Nat) : NoCtx (isSome fx a idx) := by unfold isSome; noctx
instance (fx : Fixes) (ks vs : Arr) (idx : Nat) : NoCtx (dictGetStr fx ks vs idx) := by unfold dictGetStr; noctx
instance (fx : Fixes) (types : List Int) (offs : Option (List Int)) (n idx : Nat) : NoCtx (unionSelect fx types offs n idx) := by
  unfold unionSelect; noctx
instance {α} : NoCtx (notImpl : R α) := by unfold notImpl; noctx
instance {α} : NoCtx (rejected : R α) := by unfold rejected; noctx
instance (ty : IntTy) (x : Int) : NoCtx (intoInt ty x) := by unfold intoInt; noctx
instance (ty : PrimTy) (x : Int) : NoCtx (dateRepr ty x) := by
  unfold dateRepr Codec.dateToString; dsimp only; noctx
instance (u : SaModel.TimeUnit) (x : Int) : NoCtx (timeRepr u x) := by
  unfold timeRepr Codec.timeToString; noctx
instance (u : SaModel.TimeUnit) (tz : Option String) (x : Int) : NoCtx (timestampRepr u tz x) := by
  unfold timestampRepr Codec.timestampToString; noctx
instance (r : R Bytes) [NoCtx r] : NoCtx (ownedStr r) := by unfold ownedStr; noctx
instance (r : R Bytes) [NoCtx r] : NoCtx (ownedBytes r) := by unfold ownedBytes; noctx
instance (fx : Fixes) (fmt : Int → R DVal) [∀ x, NoCtx (fmt x)] (v : Option Bits) (vals : List Int) (idx : Nat) :
    NoCtx (codecRead fx fmt v vals idx) := by
  unfold codecRead; noctx
theorem noCtx_strVariant : ∀ (vs : TVariants) (s : Bytes), NoCtx (strVariant vs s)
  | .nil, _ => by unfold strVariant; infer_instance
  | .cons n k rest, s => by
    have := noCtx_strVariant rest s
    unfold strVariant; noctx
instance (vs : TVariants) (s : Bytes) : NoCtx (strVariant vs s) := noCtx_strVariant vs s
instance (fx : Fixes) (m : Method) (a : Arr) (idx : Nat) : NoCtx (scalar fx m a idx) := by unfold scalar; noctx
instance (t : Target) (d : DVal) : NoCtx (accept t d) := by unfold accept; noctx
instance (t : Target) (b : UInt8) : NoCtx (u8As t b) := by unfold u8As; noctx
instance (t : Target) (n : String) : NoCtx (strDeAs t n) := by unfold strDeAs; noctx
instance (fx : Fixes) (len idx : Nat) : NoCtx (structItem fx len idx) := by unfold structItem; noctx
instance (t : Target) (s : Option DVal) : NoCtx (slotOrMissing t s) := by unfold slotOrMissing; noctx

instance finishFields_noctx : ∀ (tfs : TFields) (pos : Nat) (slots : Slots), NoCtx (finishFields tfs pos slots)
  | .nil, _, _ => by unfold finishFields; noctx
  | .cons n t rest, pos, slots => by
    have := finishFields_noctx rest (pos + 1) slots
    unfold finishFields; noctx

theorem binaryElems_noctx (fx : Fixes) (a : Arr) (idx : Nat) (rb : R Bytes) (h : binaryElems fx a idx = some rb) : NoCtx rb := by
  unfold binaryElems at h
  split at h
  · split at h
    · cases h
    · cases h; infer_instance
  · split at h
    · cases h
    · cases h; infer_instance
  · cases h; infer_instance
  · cases h

theorem stringElem_noctx (fx : Fixes) (a : Arr) (idx : Nat) (rb : R Bytes) (h : stringElem fx a idx = some rb) : NoCtx rb := by
  unfold stringElem at h
  split at h
  · split at h
    · cases h; infer_instance
    · cases h
  · split at h
    · cases h; infer_instance
    · cases h
  · cases h; infer_instance
  · cases h

instance mapM_noctx {α β} (f : α → R β) [∀ x, NoCtx (f x)] : ∀ (l : List α), NoCtx (l.mapM f)
  | [] => by simp only [List.mapM_nil]; infer_instance
  | x :: xs => by
    have := mapM_noctx f xs
    simp only [List.mapM_cons]; infer_instance

/-- the un-annotated `deserialize_any` of a reader without child readers -/
theorem readAny_leaf_noctx (fx : Fixes) (a : Arr) (idx : Nat)
    (hleaf : match a with | .struct _ _ _ | .list _ _ _ _ _ | .fixedSizeList _ _ _ _ _ | .map _ _ _ _ _ | .union _ _ _ => False | _ => True) :
    NoCtx (readAny fx a idx) := by
  unfold readAny anyAt
  cases a <;> simp only at hleaf <;> (unfold readAnySome; noctx)

end SaModel.Props.C18
