import SaModel.Build.Builder
import SaModel.Data.Arr
/-
Representatives shared by the translation obligations (Props/C18Gen, C05Gen, C02Gen): one data type per
constructor of `DataType` that `build_builder` has an arm for, one array per constructor of `View` that
`ArrayDeserializer::new` has an arm for.  Plain data, no generated table is imported here.
-/
namespace SaModel.Lemmas.C18Reps
open SaModel SaModel.Build

def el : Field := .mk "element" .int8 false []

/-- one data type per constructor of `DataType` that `build_builder` has an arm for (with the metadata that select
each variant of the arm, in the order of the arm: `Null` builds `UnknownVariant` under that strategy, else `Null`) -/
def builderReps : List (String × List (DataType × Metadata)) := [
  ("Null", [(.null, [(STRATEGY_KEY, "UnknownVariant")]), (.null, [])]),
  ("Boolean", [(.boolean, [])]),
  ("Int8", [(.int8, [])]), ("Int16", [(.int16, [])]), ("Int32", [(.int32, [])]), ("Int64", [(.int64, [])]),
  ("UInt8", [(.uint8, [])]), ("UInt16", [(.uint16, [])]), ("UInt32", [(.uint32, [])]), ("UInt64", [(.uint64, [])]),
  ("Float16", [(.float16, [])]), ("Float32", [(.float32, [])]), ("Float64", [(.float64, [])]),
  ("Date32", [(.date32, [])]), ("Date64", [(.date64, [])]),
  ("Timestamp", [(.timestamp .millisecond none, [])]),
  ("Time32", [(.time32 .second, [])]), ("Time64", [(.time64 .nanosecond, [])]),
  ("Duration", [(.duration .microsecond, [])]),
  ("Decimal128", [(.decimal128 10 2, [])]),
  ("Utf8", [(.utf8, [])]), ("LargeUtf8", [(.largeUtf8, [])]), ("Utf8View", [(.utf8View, [])]),
  ("List", [(.list el, [])]), ("LargeList", [(.largeList el, [])]), ("FixedSizeList", [(.fixedSizeList el 3, [])]),
  ("Binary", [(.binary, [])]), ("LargeBinary", [(.largeBinary, [])]), ("BinaryView", [(.binaryView, [])]),
  ("FixedSizeBinary", [(.fixedSizeBinary 4, [])]),
  ("Map", [(.map (.mk "entries" (.struct (.cons (.mk "key" .utf8 false []) (.cons (.mk "value" .int8 true []) .nil))) false []) false, [])]),
  ("Struct", [(.struct (.cons (.mk "a" .int8 false []) .nil), [])]),
  ("Dictionary", [(.dictionary .uint32 .utf8, [])]),
  ("Union", [(.union (.cons 0 (.mk "A" .null true []) .nil) .dense, [])])]

def i8s : Arr := .prim .int8 none []

/-- one array per constructor of `View` that `ArrayDeserializer::new` has an arm for -/
def readerReps : List Arr := [
  .null 0, .boolean 0 none ⟨[], 0⟩,
  .prim .int8 none [], .prim .int16 none [], .prim .int32 none [], .prim .int64 none [],
  .prim .uint8 none [], .prim .uint16 none [], .prim .uint32 none [], .prim .uint64 none [],
  .prim .float16 none [], .prim .float32 none [], .prim .float64 none [],
  .decimal128 10 2 none [], .prim .date32 none [], .prim .date64 none [],
  .time .time32 .second none [], .time .time64 .nanosecond none [], .timestamp .millisecond none none [],
  .time .duration .microsecond none [],
  .bytes .utf8 none [0] [], .bytes .largeUtf8 none [0] [], .bytesView .utf8View none [] [],
  .bytes .binary none [0] [], .bytes .largeBinary none [0] [], .bytesView .binaryView none [] [],
  .fixedSizeBinary 4 none [],
  .list false none [0] ⟨"element", false, []⟩ i8s, .list true none [0] ⟨"element", false, []⟩ i8s,
  .fixedSizeList 0 none 3 ⟨"element", false, []⟩ i8s,
  .struct 0 none (.cons ⟨"a", false, []⟩ i8s .nil),
  .map none [0] ⟨"entries", false, ⟨"key", false, []⟩, ⟨"value", true, []⟩⟩ (.bytes .utf8 none [0] []) i8s,
  .union [] (some []) (.cons 0 ⟨"A", true, []⟩ (.null 0) .nil),
  .dictionary (.prim .uint32 none []) (.bytes .utf8 none [0] [])]

end SaModel.Lemmas.C18Reps
