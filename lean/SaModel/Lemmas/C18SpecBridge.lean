import SaModel.Spec.Blame
import SaModel.Lemmas.C01LeafBridge
/-
Bridges between the vocabulary of `Spec/Blame.lean` (which imports no `Build/*` module) and the builder model's helpers:
`Spec.segName` = `Build.childName`, `Spec.textOf` = `Build.scalarToString` (`textOf_eq`, Lemmas/C01LeafBridge.lean),
`Spec.keyOf` = `(Build.keyStr ·).toOption` (`keyOf_eq`).  The lemmas below restate the defining equations of the blame
functions in the builder model's vocabulary, so that the proofs of `Lemmas/C18Blame*.lean` (written against the
earlier form of the definitions) go through unchanged.
-/
namespace SaModel.Spec
open SaModel SaModel.Build

/-- the path segment of the specification is the builder model's `ChildName` -/
@[simp] theorem segName_eq (s : String) : segName s = childName s := rfl

/-- … and the reader model's (Read/Annot.lean keeps its own copy `rchildName`; `childName` is the common form) -/
theorem segName_def (s : String) : segName s = if s.isEmpty then "<empty>" else s := rfl

theorem blameScalarAt_old (ext : Ext) (path : String) (dt : DataType) (x : SVal) :
    blameScalarAt ext path dt x =
      (match dt with
       | .dictionary _ v =>
         match scalarToString ext x with
         | some _ => [blameDictStr (path ++ ".value") v]
         | none => [path]
       | _ => [path]) := by
  unfold blameScalarAt
  rw [textOf_eq]
  cases dt <;> rfl

theorem entryKeys_old : ∀ es : SEntries, entryKeys es =
    (match es with
     | .nil => []
     | .cons k _ rest => (match keyStr k with | .ok s => [s] | .error _ => []) ++ entryKeys rest)
  | .nil => by simp [entryKeys]
  | .cons k _ rest => by
    simp only [entryKeys, keyOf_eq]
    cases keyStr k <;> rfl

theorem opsKeys_old : ∀ ops : SMapOps, opsKeys ops =
    (match ops with
     | .key k (.value _ rest) => (match keyStr k with | .ok s => [s] | .error _ => []) ++ opsKeys rest
     | _ => [])
  | .key k (.value _ rest) => by
    simp only [opsKeys, keyOf_eq]
    cases keyStr k <;> rfl
  | .nil => by simp [opsKeys]
  | .value _ _ => by simp [opsKeys]
  | .key _ .nil => by simp [opsKeys]
  | .key _ (.key _ _) => by simp [opsKeys]

end SaModel.Spec
