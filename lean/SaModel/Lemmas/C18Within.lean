import SaModel.Lemmas.C18Paths
/-
C18: bookkeeping for "where may the annotation of an error come from".

`NoCtx r`     : `r` is not an annotated error (a success, a panic, or a plain `Err`) — what every function that
                never calls `.ctx(..)` returns.  A class, so that instance resolution walks `do` blocks.
`Within S r`  : if `r` is an annotated error, its annotation is `posAnn q` for a position `q ∈ S`.
-/
namespace SaModel.Props.C18
open SaModel

class NoCtx {α} (r : R α) : Prop where
  out : ∀ msg a, r ≠ .error (.errCtx msg a)

instance NoCtx.ok {α} (v : α) : NoCtx (.ok v : R α) := ⟨by intro _ _ h; cases h⟩
instance NoCtx.pure {α} (v : α) : NoCtx (pure v : R α) := ⟨by intro _ _ h; cases h⟩
instance NoCtx.fail {α} (m : String) : NoCtx (fail m : R α) := ⟨by intro _ _ h; cases h⟩
instance NoCtx.err {α} (m : String) : NoCtx (.error (.err m) : R α) := ⟨by intro _ _ h; cases h⟩
instance NoCtx.panic {α} (m : String) : NoCtx (panic m : R α) := ⟨by intro _ _ h; cases h⟩

instance NoCtx.bind {α β} (r : R α) (f : α → R β) [hr : NoCtx r] [hf : ∀ v, NoCtx (f v)] : NoCtx (r >>= f) := by
  constructor
  intro msg a h
  cases r with
  | ok v => exact (hf v).out msg a h
  | error e => exact hr.out msg a (by simpa [Bind.bind, Except.bind] using h)

instance NoCtx.ite {α} (c : Prop) [Decidable c] (x y : R α) [hx : NoCtx x] [hy : NoCtx y] : NoCtx (if c then x else y) := by
  split <;> assumption

instance NoCtx.map {α β} (g : α → β) (r : R α) [hr : NoCtx r] : NoCtx (g <$> r) := by
  constructor
  intro msg a h
  cases r with
  | ok v => cases h
  | error e => exact hr.out msg a (by simpa [Functor.map, Except.map] using h)

/-- tactic for one model function: unfold it first, then `noctx` -/
macro "noctx" : tactic =>
  `(tactic| repeat' (first | infer_instance | (refine @NoCtx.bind _ _ _ _ ?_ ?_) | (intro _) | split))

def Within {α} (S : List Pos) (r : R α) : Prop :=
  ∀ msg a, r = .error (.errCtx msg a) → ∃ q ∈ S, a = posAnn q

theorem NoCtx.within {α} {S : List Pos} (r : R α) [h : NoCtx r] : Within S r :=
  fun msg a e => absurd e (h.out msg a)

theorem Within.of_ok {α} {S : List Pos} (v : α) : Within S (.ok v : R α) := fun _ _ h => by cases h

theorem Within.mono {α} {S S' : List Pos} {r : R α} (hs : ∀ q ∈ S, q ∈ S') (h : Within S r) : Within S' r :=
  fun msg a e => let ⟨q, hq, ha⟩ := h msg a e; ⟨q, hs q hq, ha⟩

theorem Within.ctx {α} {S : List Pos} {r : R α} (q : Pos) (hq : q ∈ S) (h : Within S r) : Within S (ctx (posAnn q) r) := by
  intro msg a e
  cases r with
  | ok v => cases e
  | error f =>
    cases f with
    | err m => simp [SaModel.ctx, posAnn] at e; exact ⟨q, hq, by rw [← e.2]; rfl⟩
    | panic s => cases e
    | errCtx m a' => exact h msg a e

theorem Within.bind {α β} {S : List Pos} {r : R α} {f : α → R β} (hr : Within S r)
    (hf : ∀ v, r = .ok v → Within S (f v)) : Within S (r >>= f) := by
  intro msg a e
  cases r with
  | ok v => exact hf v rfl msg a e
  | error x => exact hr msg a (by simpa [Bind.bind, Except.bind] using e)

theorem Within.ite {α} {S : List Pos} (c : Prop) [Decidable c] {x y : R α} (hx : Within S x) (hy : Within S y) :
    Within S (if c then x else y) := by
  split <;> assumption

/-- the converse reading: an outcome that is never a plain error and whose annotations come from `S` -/
theorem ctx_never_plain {α} (q : Pos) (r : R α) (msg : String) : ctx (posAnn q) r ≠ .error (.err msg) := by
  cases r with
  | ok v => simp [SaModel.ctx]
  | error e => cases e <;> simp [SaModel.ctx, posAnn]

end SaModel.Props.C18
