import SaModel.Basic.Outcome
/-
Helper lemmas for Props/C19.lean: `List.mapM` in the outcome monad `R`, and a pointwise relation on two lists
(core Lean has no `List.Forall₂`).
-/
namespace SaModel.Lemmas.C19
open SaModel

/-- the two lists have the same length and are related element by element -/
inductive AllRel {α β} (r : α → β → Prop) : List α → List β → Prop
  | nil : AllRel r [] []
  | cons {a b l l'} : r a b → AllRel r l l' → AllRel r (a :: l) (b :: l')

theorem AllRel.length_eq {α β} {r : α → β → Prop} {l : List α} {l' : List β} (h : AllRel r l l') : l.length = l'.length := by
  induction h with
  | nil => rfl
  | cons _ _ ih => simp [ih]

theorem AllRel.refl_eq {α} (l : List α) : AllRel (fun a b => a = b) l l := by
  induction l with
  | nil => exact .nil
  | cons v vs ih => exact .cons rfl ih

theorem AllRel.eq_of_eq {α} {l l' : List α} (h : AllRel (fun a b => a = b) l l') : l = l' := by
  induction h with
  | nil => rfl
  | cons hab _ ih => rw [hab, ih]


theorem mapM_ok_length {α β} (f : α → R β) : ∀ (l : List α) (l' : List β), l.mapM f = .ok l' → l'.length = l.length
  | [], l', h => by
    simp only [List.mapM_nil, pure, Except.pure, Except.ok.injEq] at h
    subst h; rfl
  | a :: l, l', h => by
    rw [List.mapM_cons] at h
    cases ha : f a with
    | error e => rw [ha] at h; cases h
    | ok b =>
      cases hl : l.mapM f with
      | error e => rw [ha, hl] at h; cases h
      | ok bs =>
        rw [ha, hl] at h
        simp only [bind, Except.bind, pure, Except.pure, Except.ok.injEq] at h
        subst h
        simp [mapM_ok_length f l bs hl]

/-- a successful `mapM` relates the lists pointwise -/
theorem mapM_ok_forall₂ {α β} (f : α → R β) : ∀ (l : List α) (l' : List β), l.mapM f = .ok l' →
    AllRel (fun a b => f a = .ok b) l l'
  | [], l', h => by
    simp only [List.mapM_nil, pure, Except.pure, Except.ok.injEq] at h
    subst h; exact .nil
  | a :: l, l', h => by
    rw [List.mapM_cons] at h
    cases ha : f a with
    | error e => rw [ha] at h; cases h
    | ok b =>
      cases hl : l.mapM f with
      | error e => rw [ha, hl] at h; cases h
      | ok bs =>
        rw [ha, hl] at h
        simp only [bind, Except.bind, pure, Except.pure, Except.ok.injEq] at h
        subst h
        exact .cons ha (mapM_ok_forall₂ f l bs hl)

/-- … and conversely -/
theorem mapM_of_forall₂ {α β} (f : α → R β) (l : List α) (l' : List β)
    (h : AllRel (fun a b => f a = .ok b) l l') : l.mapM f = .ok l' := by
  induction h with
  | nil => simp [pure, Except.pure]
  | cons ha _ ih => rw [List.mapM_cons, ha, ih]; rfl

/-- a successful `mapM` whose results mean the same as the inputs (`g' (f a) = g a`) preserves the meaning -/
theorem allRel_map {α β γ} (f : α → R β) (g : α → γ) (g' : β → γ)
    (h : ∀ a b, f a = .ok b → g' b = g a) (l : List α) (l' : List β)
    (hr : AllRel (fun a b => f a = .ok b) l l') : l'.map g' = l.map g := by
  induction hr with
  | nil => rfl
  | cons hab _ ih => simp [h _ _ hab, ih]

theorem mapM_ok_map {α β γ} (f : α → R β) (g : α → γ) (g' : β → γ)
    (h : ∀ a b, f a = .ok b → g' b = g a) (l : List α) (l' : List β) (hl : l.mapM f = .ok l') :
    l'.map g' = l.map g :=
  allRel_map f g g' h l l' (mapM_ok_forall₂ f l l' hl)

/-- `mapM` fails iff one element fails, and then with the error of the first failing element -/
theorem mapM_error {α β} (f : α → R β) : ∀ (l : List α) (e : Fail), l.mapM f = .error e →
    ∃ a ∈ l, f a = .error e
  | [], e, h => by simp [pure, Except.pure] at h
  | a :: l, e, h => by
    rw [List.mapM_cons] at h
    cases ha : f a with
    | error e' =>
      rw [ha] at h
      simp only [bind, Except.bind, Except.error.injEq] at h
      subst h
      exact ⟨a, by simp, ha⟩
    | ok b =>
      cases hl : l.mapM f with
      | error e' =>
        rw [ha, hl] at h
        simp only [bind, Except.bind, Except.error.injEq] at h
        subst h
        obtain ⟨x, hx, hfx⟩ := mapM_error f l e' hl
        exact ⟨x, by simp [hx], hfx⟩
      | ok bs => rw [ha, hl] at h; cases h

theorem mapM_total {α β} (f : α → R β) : ∀ (l : List α), (∀ a ∈ l, ∃ b, f a = .ok b) → ∃ l', l.mapM f = .ok l'
  | [], _ => ⟨[], by simp [pure, Except.pure]⟩
  | a :: l, h => by
    obtain ⟨b, hb⟩ := h a (by simp)
    obtain ⟨bs, hbs⟩ := mapM_total f l (fun x hx => h x (by simp [hx]))
    exact ⟨b :: bs, by rw [List.mapM_cons, hb, hbs]; rfl⟩

theorem mapM_pure_id {α} : ∀ (l : List α), l.mapM (pure : α → R α) = .ok l
  | [] => by simp [pure, Except.pure]
  | a :: l => by rw [List.mapM_cons, mapM_pure_id l]; rfl

end SaModel.Lemmas.C19
