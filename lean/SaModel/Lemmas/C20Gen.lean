import SaModel.Ext.UtilsGen
/-
Soundness of the interpreters of `Ext/UtilsGen.lean` against the hand-written model `Ext/Utils.lean`, for ARBITRARY tables:
nothing here mentions the generated file, so the obligations in `Props/ConstGenExt.lean` are one `decide` (the criterion on
the table read from the source) plus an application of these lemmas.
-/
namespace SaModel.Lemmas.C20Gen
open SaModel SaModel.Ext

/-! ### `JsonString::fmt` -/

theorem escapeChar_high (c : Char) (h : 128 ≤ c.toNat) : escapeChar c = [c] := by
  have ne : ∀ d : Char, d.toNat < 128 → c ≠ d := by
    intro d hd hcd
    subst hcd
    omega
  unfold escapeChar
  rw [if_neg (ne _ (by decide)), if_neg (ne _ (by decide)), if_neg (ne _ (by decide)), if_neg (ne _ (by decide)),
    if_neg (ne _ (by decide)), if_neg (by omega)]

theorem escapeCharGen?_high (c : Char) (h : 128 ≤ c.toNat) :
    ∀ arms : List EscArm, arms.all EscArm.low = true → arms.contains .copy = true → escapeCharGen? arms c = some [c]
  | [], _, hc => by simp at hc
  | .copy :: _, _, _ => rfl
  | .lit a text :: rest, hl, hc => by
    simp only [List.all_cons, Bool.and_eq_true, EscArm.low, decide_eq_true_eq] at hl
    have hne : c ≠ a := by
      intro e
      subst e
      omega
    have hc' : rest.contains .copy = true := by
      simpa [List.contains_cons] using hc
    simp only [escapeCharGen?, if_neg hne]
    exact escapeCharGen?_high c h rest hl.2 hc'
  | .hexBelow bound pre zero width upper post :: rest, hl, hc => by
    simp only [List.all_cons, Bool.and_eq_true, EscArm.low, decide_eq_true_eq] at hl
    have hc' : rest.contains .copy = true := by
      simpa [List.contains_cons] using hc
    have hnb : ¬ c.toNat < bound := by omega
    simp only [escapeCharGen?, if_neg hnb]
    exact escapeCharGen?_high c h rest hl.2 hc'

/-- a table that passes the criterion writes, for every character, what the model writes -/
theorem armsOk_sound (arms : List EscArm) (h : armsOk arms = true) (c : Char) : escapeCharGen arms c = escapeChar c := by
  simp only [armsOk, Bool.and_eq_true] at h
  obtain ⟨⟨hl, hc⟩, ht⟩ := h
  unfold escapeCharGen
  by_cases hlow : c.toNat < 128
  · rw [List.all_eq_true] at ht
    have := ht c.toNat (List.mem_range.mpr hlow)
    rw [Char.ofNat_toNat] at this
    rw [beq_iff_eq] at this
    rw [this]
    rfl
  · rw [escapeCharGen?_high c (by omega) arms hl hc, escapeChar_high c (by omega)]
    rfl

theorem escapeGen_eq (arms : List EscArm) (h : armsOk arms = true) : ∀ s, escapeGen arms s = escape s
  | [] => rfl
  | c :: rest => by
    simp only [escapeGen, escape, armsOk_sound arms h c, escapeGen_eq arms h rest]

/-! ### `check_permutation`, `check_dim_names` -/

def forget {α} : R α → R α
  | .ok v => .ok v
  | .error (.err _) => .error (.err "")
  | .error (.errCtx _ _) => .error (.err "")
  | .error (.panic _) => .error (.panic "")

theorem cls_of_forget {α} {a b : R α} (h : forget a = forget b) : a.cls = b.cls := by
  cases a with
  | ok x => cases b with
    | ok y => rfl
    | error e => cases e <;> simp [forget] at h
  | error e => cases b with
    | ok y => cases e <;> simp [forget] at h
    | error e' => cases e <;> cases e' <;> simp [forget] at h <;> rfl

/-- `a <op> b` is "the slice does not have ndim entries" -/
def isLenCheck (a : PExpr) (op : Cmp) (b : PExpr) : Bool :=
  (a, op, b) == (.sliceLen, .ne, .ndim) || (a, op, b) == (.ndim, .ne, .sliceLen)

/-- an expression that is the length of the slice once the length check has passed -/
def isLen (e : PExpr) : Bool := e == .sliceLen || e == .ndim

/-- `l <op> r` is "the item is not an index of `seen`" (given `seen.len() = permutation.len()`) -/
def isRangeGuard (l : PExpr) (op : Cmp) (r : PExpr) : Bool :=
  (l, op, r) == (.item, .ge, .seenLen) || (l, op, r) == (.item, .ge, .sliceLen) ||
  (l, op, r) == (.seenLen, .le, .item) || (l, op, r) == (.sliceLen, .le, .item)

/-- the criterion on a translated body of `check_permutation` -/
def permBodyOk : List PStmt → Bool
  | [.failIf a op b, .letSeen false len, .forSlice [.failIf l gop r, .failIfSeen .item true, .setSeen .item true],
      .forSeen false, .retOk] => isLenCheck a op b && isLen len && isRangeGuard l gop r
  | _ => false

theorem lenCheck_eval {a op b} (h : isLenCheck a op b = true) (ndim n : Nat) (seen : List Bool) :
    op.eval (a.eval ndim n seen 0) (b.eval ndim n seen 0) = decide (n ≠ ndim) := by
  simp only [isLenCheck, Bool.or_eq_true, beq_iff_eq, Prod.mk.injEq] at h
  by_cases e : n = ndim
  · subst e
    rcases h with ⟨rfl, rfl, rfl⟩ | ⟨rfl, rfl, rfl⟩ <;> simp [PExpr.eval, Cmp.eval]
  · have e' : ¬ ndim = n := fun x => e x.symm
    rcases h with ⟨rfl, rfl, rfl⟩ | ⟨rfl, rfl, rfl⟩ <;> simp [PExpr.eval, Cmp.eval, e, e']

theorem rangeGuard_eval {l op r} (h : isRangeGuard l op r = true) (ndim n i : Nat) (seen : List Bool) (hs : seen.length = n) :
    op.eval (l.eval ndim n seen i) (r.eval ndim n seen i) = decide (i ≥ seen.length) := by
  simp only [isRangeGuard, Bool.or_eq_true, beq_iff_eq, Prod.mk.injEq] at h
  rcases h with ((⟨rfl, rfl, rfl⟩ | ⟨rfl, rfl, rfl⟩) | ⟨rfl, rfl, rfl⟩) | ⟨rfl, rfl, rfl⟩ <;> simp [PExpr.eval, Cmp.eval, hs] <;> rfl

theorem runFor_markSeen {l op r} (h : isRangeGuard l op r = true) (ndim n : Nat) : ∀ (perm : List Nat) (seen : List Bool),
    seen.length = n →
    forget (runFor ndim n [.failIf l op r, .failIfSeen .item true, .setSeen .item true] perm seen) = forget (markSeen seen perm)
  | [], seen, _ => rfl
  | i :: rest, seen, hs => by
    simp only [runFor, markSeen, runSteps, rangeGuard_eval h ndim n i seen hs]
    simp only [PExpr.eval]
    by_cases hi : i ≥ seen.length
    · simp [hi, forget, fail]
    · simp only [hi, decide_false, if_false]
      have hlt : i < seen.length := by omega
      rw [List.getElem?_eq_getElem hlt]
      cases hb : seen[i] with
      | true => simp [forget, fail]
      | false =>
        simp only [hlt, if_true]
        have := runFor_markSeen h ndim n rest (seen.set i true) (by simp [hs])
        simpa using this

theorem runSeen_checkAllSeen : ∀ seen : List Bool, forget (runSeen false seen) = forget (checkAllSeen seen)
  | [] => rfl
  | true :: rest => by simpa [runSeen, checkAllSeen] using runSeen_checkAllSeen rest
  | false :: rest => by simp [runSeen, checkAllSeen, forget, fail]

theorem forget_ok {α} {a : R α} {v : α} (h : forget a = .ok v) : a = .ok v := by
  cases a with
  | ok x => simpa [forget] using h
  | error e => cases e <;> simp [forget] at h

/-- a translated body that passes the criterion has, for all arguments, the outcome class of the model -/
theorem permBodyOk_sound (body : List PStmt) (h : permBodyOk body = true) (ndim : Nat) (p : List Nat) :
    (checkPermutationGen body ndim p).cls = (checkPermutation ndim p).cls := by
  apply cls_of_forget
  unfold permBodyOk at h
  split at h
  · rename_i a op b len l gop r
    simp only [Bool.and_eq_true] at h
    obtain ⟨⟨h1, h2⟩, h3⟩ := h
    simp only [checkPermutationGen, runStmts, lenCheck_eval h1, checkPermutation]
    by_cases hn : p.length ≠ ndim
    · simp [hn, forget, fail]
    · simp only [hn, decide_false, if_false, Bool.false_eq_true]
      have hlen : len.eval ndim p.length [] 0 = p.length := by
        simp only [isLen, Bool.or_eq_true, beq_iff_eq] at h2
        rcases h2 with rfl | rfl <;> simp [PExpr.eval]
        omega
      rw [hlen]
      have hf := runFor_markSeen h3 ndim p.length p (List.replicate p.length false) (by simp)
      cases hm : markSeen (List.replicate p.length false) p with
      | error e =>
        rw [hm] at hf
        cases hr : runFor ndim p.length [.failIf l gop r, .failIfSeen .item true, .setSeen .item true] p (List.replicate p.length false) with
        | ok s => rw [hr] at hf; cases e <;> simp [forget] at hf
        | error e' =>
          rw [hr] at hf
          show forget (Except.error e' : R Unit) = forget (Except.error e)
          cases e <;> cases e' <;> simp [forget] at hf ⊢
      | ok s =>
      rw [hm] at hf
      rw [forget_ok hf]
      show forget (match runSeen false s with | .error e => .error e | .ok () => .ok ()) = forget (checkAllSeen s)
      have := runSeen_checkAllSeen s
      cases hc : checkAllSeen s with
      | ok u =>
        rw [hc] at this
        cases hq : runSeen false s with
        | ok u' => rfl
        | error e' => rw [hq] at this; cases e' <;> simp [forget] at this
      | error e =>
        rw [hc] at this
        cases hq : runSeen false s with
        | ok u => rw [hq] at this; cases e <;> simp [forget] at this
        | error e' => rw [hq] at this; simpa using this
  · simp at h

/-- the criterion on a translated body of `check_dim_names` -/
def dimBodyOk : List PStmt → Bool
  | [.failIf a op b, .retOk] => isLenCheck a op b
  | _ => false

theorem dimBodyOk_sound (body : List PStmt) (h : dimBodyOk body = true) (ndim : Nat) (names : List Str) :
    (checkDimNamesGen body ndim names).cls = (checkDimNames ndim names).cls := by
  unfold dimBodyOk at h
  split at h
  · simp only [checkDimNamesGen, runStmts, lenCheck_eval h, checkDimNames, List.length_map]
    by_cases hn : names.length ≠ ndim
    · simp [hn, fail, R.cls]
    · simp [hn, R.cls]
  · simp at h

/-! ### `write_list` -/

/-- `idx <op> bound` is `idx == 0` (`some true`) / `idx != 0` (`some false`) for every `idx : usize` -/
def firstTest : Cmp → Nat → Option Bool
  | .eq, 0 => some true
  | .le, 0 => some true
  | .lt, 1 => some true
  | .ne, 0 => some false
  | .gt, 0 => some false
  | .ge, 1 => some false
  | _, _ => none

theorem firstTest_eval {op bound v} (h : firstTest op bound = some v) (idx : Nat) : op.eval idx bound = (v == (idx == 0)) := by
  unfold firstTest at h
  split at h <;> simp at h <;> subst h <;> cases idx <;> simp [Cmp.eval]

/-- the criterion on the translated pieces of `write_list`: brackets, the first item bare, every later one after a comma -/
def writeListOk (b : WriteListBody) : Bool :=
  b.opening == "[" && b.closing == "]" &&
    match firstTest b.op b.bound with
    | some true => b.thenFmt == ("", "") && b.elseFmt == (",", "")
    | some false => b.thenFmt == (",", "") && b.elseFmt == ("", "")
    | none => false

theorem writeItemsGen_eq (b : WriteListBody) (v : Bool) (ht : firstTest b.op b.bound = some v)
    (hf : (if v then b.thenFmt else b.elseFmt) = ("", "")) (hr : (if v then b.elseFmt else b.thenFmt) = (",", "")) :
    ∀ (items : List Str) (idx : Nat), writeItemsGen b idx items = writeItems (idx == 0) items
  | [], _ => by cases idx0 : (_ == 0) <;> rfl
  | x :: rest, idx => by
    have ih := writeItemsGen_eq b v ht hf hr rest (idx + 1)
    have h1 : ((idx + 1) == 0) = false := by simp
    rw [h1] at ih
    simp only [writeItemsGen, firstTest_eval ht idx, ih]
    cases idx with
    | zero =>
      cases v
      · simp only [Bool.false_eq_true, if_false] at hf
        simp [hf, writeItems]
      · simp only [if_true] at hf
        simp [hf, writeItems]
    | succ k =>
      cases v
      · simp only [Bool.false_eq_true, if_false] at hr
        simp [hr, writeItems]
      · simp only [if_true] at hr
        simp [hr, writeItems]

/-- translated pieces that pass the criterion write, for every item list, the text of the model -/
theorem writeListOk_sound (b : WriteListBody) (h : writeListOk b = true) (items : List Str) :
    writeListGen b items = writeList items := by
  simp only [writeListOk, Bool.and_eq_true, beq_iff_eq] at h
  obtain ⟨⟨ho, hc⟩, hm⟩ := h
  have ho' : b.opening.toList = ['['] := by rw [ho]; rfl
  have hc' : b.closing.toList = [']'] := by rw [hc]; rfl
  unfold writeListGen writeList
  rw [ho', hc']
  cases ht : firstTest b.op b.bound with
  | none => simp [ht] at hm
  | some v =>
    rw [ht] at hm
    cases v with
    | true =>
      simp only [Bool.and_eq_true, beq_iff_eq] at hm
      rw [writeItemsGen_eq b true ht (by simpa using hm.1) (by simpa using hm.2) items 0]
      rfl
    | false =>
      simp only [Bool.and_eq_true, beq_iff_eq] at hm
      rw [writeItemsGen_eq b false ht (by simpa using hm.2) (by simpa using hm.1) items 0]
      rfl

end SaModel.Lemmas.C20Gen
