import SaModel.Ext.Json
/-
Helper lemmas for C20: what the writers of `utils.rs` emit is read back by the JSON reader.
-/
namespace SaModel.Lemmas.C20
open SaModel SaModel.Ext SaModel.Ext.Json

/-! ### `Display for usize` -/

theorem showNatF_fuel : ∀ (f1 f2 n : Nat), n < f1 → n < f2 → showNatF f1 n = showNatF f2 n := by
  intro f1
  induction f1 with
  | zero => intro f2 n h; omega
  | succ a ih =>
    intro f2 n h1 h2
    cases f2 with
    | zero => omega
    | succ b =>
      simp only [showNatF]
      split
      · rfl
      · rw [ih b (n / 10) (by omega) (by omega)]

/-- the fuel-free equation of `showNat` -/
theorem showNat_eq (n : Nat) :
    showNat n = if n < 10 then [digitChar n] else showNat (n / 10) ++ [digitChar (n % 10)] := by
  unfold showNat
  rw [showNatF]
  split
  · rfl
  · rw [showNatF_fuel n (n / 10 + 1) (n / 10) (by omega) (by omega)]

theorem digitChar_facts : ∀ d, d < 10 → (digitChar d).isDigit = true ∧ digitVal (digitChar d) = d := by
  decide +kernel

theorem digitChar_nz : ∀ d, d < 10 → 0 < d → digitChar d ≠ '0' := by
  decide +kernel

theorem readDigits_showNat (n : Nat) :
    ∃ k, ∀ acc more, readDigits acc (showNat n ++ more) = readDigits (acc * 10 ^ k + n) more := by
  induction n using Nat.strongRecOn with
  | _ n ih =>
    rw [showNat_eq]
    split
    · rename_i h
      refine ⟨1, fun acc more => ?_⟩
      obtain ⟨h1, h2⟩ := digitChar_facts n h
      simp [readDigits, h1, h2]
    · rename_i h
      obtain ⟨k, hk⟩ := ih (n / 10) (by omega)
      refine ⟨k + 1, fun acc more => ?_⟩
      obtain ⟨h1, h2⟩ := digitChar_facts (n % 10) (by omega)
      rw [List.append_assoc, hk]
      simp only [List.singleton_append, readDigits, h1, if_true, h2]
      congr 1
      rw [Nat.pow_succ, ← Nat.mul_assoc]
      omega

theorem showNat_head (n : Nat) (hn : 0 < n) :
    ∃ c ds, showNat n = c :: ds ∧ c.isDigit = true ∧ c ≠ '0' := by
  induction n using Nat.strongRecOn with
  | _ n ih =>
    rw [showNat_eq]
    split
    · rename_i h
      exact ⟨digitChar n, [], rfl, (digitChar_facts n h).1, digitChar_nz n h hn⟩
    · rename_i h
      obtain ⟨c, ds, h1, h2, h3⟩ := ih (n / 10) (by omega) (by omega)
      exact ⟨c, ds ++ [digitChar (n % 10)], by rw [h1]; rfl, h2, h3⟩

/-- text that may follow a number: not a digit -/
def NoDigitHead : Str → Prop
  | [] => True
  | c :: _ => c.isDigit = false

theorem readDigits_stop (n : Nat) (more : Str) (h : NoDigitHead more) : readDigits n more = (n, more) := by
  cases more with
  | nil => rfl
  | cons c r =>
    have : c.isDigit = false := h
    simp [readDigits, this]

theorem isDigit_zero : '0'.isDigit = true := by decide
theorem isDigit_quote : '"'.isDigit = false := by decide
theorem isDigit_n : 'n'.isDigit = false := by decide
theorem isDigit_comma : ','.isDigit = false := by decide
theorem isDigit_rbracket : ']'.isDigit = false := by decide
theorem isDigit_rbrace : '}'.isDigit = false := by decide

theorem readScalar_showNat (n : Nat) (more : Str) (h : NoDigitHead more) :
    readScalar (showNat n ++ more) = some (.num n, more) := by
  by_cases hn : n = 0
  · subst hn
    have : showNat 0 = ['0'] := by rw [showNat_eq]; rfl
    rw [this]
    simp [readScalar, isDigit_zero]
  · obtain ⟨c, ds, h1, h2, h3⟩ := showNat_head n (by omega)
    obtain ⟨k, hk⟩ := readDigits_showNat n
    have hrd : readDigits 0 (c :: (ds ++ more)) = (n, more) := by
      have := hk 0 more
      rw [h1] at this
      simpa [readDigits_stop n more h] using this
    rw [h1]
    simp only [List.cons_append, readScalar, h2, if_true, h3, if_false, hrd]

/-! ### `JsonString` -/

theorem hex4_control : ∀ n, n < 32 →
    hex4 '0' '0' (hexDigit (n / 16)) (hexDigit (n % 16)) = some (Char.ofNat n) := by
  decide +kernel

theorem readStr_escapeChar (c : Char) (rest : Str) (r : Str × Str) (h : readStr rest = some r) :
    readStr (escapeChar c ++ rest) = some (c :: r.1, r.2) := by
  unfold escapeChar
  split
  · rename_i hc; subst hc
    rw [readStr.eq_def]
    simp [unescape, h]
  split
  · rename_i hc; subst hc
    rw [readStr.eq_def]
    simp [unescape, h]
  split
  · rename_i hc; subst hc
    rw [readStr.eq_def]
    simp [unescape, h]
  split
  · rename_i hc; subst hc
    rw [readStr.eq_def]
    simp [unescape, h]
  split
  · rename_i hc; subst hc
    rw [readStr.eq_def]
    simp [unescape, h]
  split
  · rename_i hc
    have := hex4_control c.toNat hc
    rw [Char.ofNat_toNat] at this
    rw [readStr.eq_def]
    simp [this, h]
  · rename_i h1 h2 _ _ _ h6
    rw [readStr.eq_def]
    simp [h1, h2, h6, h]

theorem readStr_escape (s rest : Str) : readStr (escape s ++ '"' :: rest) = some (s, rest) := by
  induction s with
  | nil => rw [readStr.eq_def]; simp [escape]
  | cons c s ih =>
    simp only [escape, List.append_assoc]
    exact readStr_escapeChar c _ _ ih

theorem readScalar_jsonString (s more : Str) :
    readScalar (jsonString s ++ more) = some (.str s, more) := by
  have : jsonString s ++ more = '"' :: (escape s ++ '"' :: more) := by simp [jsonString]
  rw [this]
  simp [readScalar, isDigit_quote, readStr_escape]

theorem readScalar_null (more : Str) : readScalar (['n', 'u', 'l', 'l'] ++ more) = some (.null, more) := by
  simp [readScalar, isDigit_n]

/-! ### `write_list` -/

/-- a rendering of one list element that the scalar reader takes back, whatever legal text follows -/
def ScalarRT (txt : Str) (v : JScalar) : Prop :=
  ∀ more, NoDigitHead more → readScalar (txt ++ more) = some (v, more)

theorem noDigitHead_items (l : List Str) (rest : Str) :
    NoDigitHead (writeItems false l ++ ']' :: rest) := by
  cases l with
  | nil => exact isDigit_rbracket
  | cons v l => exact isDigit_comma

theorem writeItems_length (l : List Str) : l.length ≤ (writeItems false l).length := by
  induction l with
  | nil => simp [writeItems]
  | cons v l ih => simp [writeItems]; omega

theorem readElems_writeItems {α} (render : α → Str) (sem : α → JScalar)
    (hrt : ∀ a, ScalarRT (render a) (sem a)) :
    ∀ (items : List α) (fuel : Nat) (rest : Str), items.length < fuel →
      readElems fuel (writeItems false (items.map render) ++ ']' :: rest) = some (items.map sem, rest) := by
  intro items
  induction items with
  | nil =>
    intro fuel rest hf
    cases fuel with
    | zero => omega
    | succ f => simp [writeItems, readElems]
  | cons a items ih =>
    intro fuel rest hf
    cases fuel with
    | zero => omega
    | succ f =>
      have h1 := hrt a _ (noDigitHead_items (items.map render) rest)
      have h2 := ih f rest (by simpa using hf)
      simp [writeItems, readElems, List.append_assoc, h1, h2]

theorem readScalar_rbracket (rest : Str) : readScalar (']' :: rest) = none := by
  simp [readScalar, isDigit_rbracket]

/-- `write_list` of scalar renderings reads back as the array of their values -/
theorem readValue_writeList {α} (render : α → Str) (sem : α → JScalar)
    (hrt : ∀ a, ScalarRT (render a) (sem a)) (items : List α) (rest : Str) :
    readValue (writeList (items.map render) ++ rest) = some (.arr (items.map sem), rest) := by
  cases items with
  | nil => simp [writeList, writeItems, readValue, readScalar_rbracket]
  | cons a items =>
    have h1 := hrt a _ (noDigitHead_items (items.map render) rest)
    have hlen := writeItems_length (items.map render)
    have h2 := readElems_writeItems render sem hrt items
      ((writeItems false (items.map render) ++ ']' :: rest).length + 1) rest
      (by simp at hlen ⊢; omega)
    simp only [List.map_cons, writeList, writeItems, List.cons_append, List.append_assoc,
      List.nil_append, readValue, if_true, h1]
    simp only [h2]

/-! ### objects -/

/-- one `"key":value` entry as written, with what it should read back as -/
structure Entry where
  key : Str
  keyText : Str
  valText : Str
  val : JVal

def Entry.text (e : Entry) : Str := '"' :: (e.keyText ++ '"' :: ':' :: e.valText)

def Entry.RT (e : Entry) : Prop :=
  (∀ rest, readStr (e.keyText ++ '"' :: rest) = some (e.key, rest)) ∧
    (∀ rest, readValue (e.valText ++ rest) = some (e.val, rest))

def writeMembers : Bool → List Entry → Str
  | _, [] => []
  | true, e :: rest => e.text ++ writeMembers false rest
  | false, e :: rest => ',' :: (e.text ++ writeMembers false rest)

theorem readMember_entry (e : Entry) (h : e.RT) (rest : Str) :
    readMember (e.text ++ rest) = some ((e.key, e.val), rest) := by
  have h1 := h.1 (':' :: (e.valText ++ rest))
  have h2 := h.2 rest
  simp [Entry.text, readMember, List.append_assoc, h1, h2]

theorem readMembers_write : ∀ (entries : List Entry) (fuel : Nat) (rest : Str),
    (∀ e ∈ entries, e.RT) → entries.length < fuel →
      readMembers fuel (writeMembers false entries ++ '}' :: rest) =
        some (entries.map fun e => (e.key, e.val), rest) := by
  intro entries
  induction entries with
  | nil =>
    intro fuel rest _ hf
    cases fuel with
    | zero => omega
    | succ f => simp [writeMembers, readMembers]
  | cons e entries ih =>
    intro fuel rest hrt hf
    cases fuel with
    | zero => omega
    | succ f =>
      have h1 := readMember_entry e (hrt e (by simp)) (writeMembers false entries ++ '}' :: rest)
      have h2 := ih f rest (fun e he => hrt e (List.mem_cons_of_mem _ he)) (by simpa using hf)
      simp [writeMembers, readMembers, List.append_assoc, h1, h2]

theorem writeMembers_length (l : List Entry) : l.length ≤ (writeMembers false l).length := by
  induction l with
  | nil => simp [writeMembers]
  | cons v l ih => simp [writeMembers]; omega

theorem readMember_rbrace (rest : Str) : readMember ('}' :: rest) = none := by
  simp [readMember]

/-- an object written entry by entry, comma separated, parses to exactly those entries -/
theorem jsonParse_object (entries : List Entry) (hrt : ∀ e ∈ entries, e.RT) :
    jsonParse ('{' :: (writeMembers true entries ++ ['}'])) =
      some (entries.map fun e => (e.key, e.val)) := by
  cases entries with
  | nil => simp [jsonParse, writeMembers, readObject, readMember_rbrace]
  | cons e entries =>
    have h1 := readMember_entry e (hrt e (by simp)) (writeMembers false entries ++ ['}'])
    have hlen := writeMembers_length entries
    have h2 := readMembers_write entries ((writeMembers false entries ++ ['}']).length + 1) []
      (fun e he => hrt e (List.mem_cons_of_mem _ he)) (by simp at hlen ⊢; omega)
    simp only [jsonParse, writeMembers, List.append_assoc, readObject, if_true, h1]
    simp only [h2, List.map_cons]

end SaModel.Lemmas.C20
