import SaModel.Ext.Utils
/-
Helper lemmas for C20: the two loops of `check_permutation`.
-/
namespace SaModel.Lemmas.C20
open SaModel SaModel.Ext

/-- what a successful first loop establishes -/
theorem markSeen_ok : ∀ (q : List Nat) (seen seen' : List Bool), markSeen seen q = .ok seen' →
    q.Nodup ∧ (∀ i ∈ q, i < seen.length ∧ seen[i]? = some false) ∧ seen'.length = seen.length ∧
      (∀ j, seen'[j]? = some true ↔ (seen[j]? = some true ∨ j ∈ q)) := by
  intro q
  induction q with
  | nil =>
    intro seen seen' h
    simp only [markSeen] at h
    cases h
    simp
  | cons i rest ih =>
    intro seen seen' h
    simp only [markSeen] at h
    split at h
    · cases h
    · rename_i hlt
      have hlt : i < seen.length := by omega
      split at h
      · cases h
      · cases h
      · rename_i hi
        obtain ⟨hnd, hall, hlen, hmark⟩ := ih _ _ h
        have hset : ∀ j, (seen.set i true)[j]? = if i = j then some true else seen[j]? := by
          intro j
          rw [List.getElem?_set]
          by_cases hij : i = j
          · simp [hij]; omega
          · simp [hij]
        refine ⟨?_, ?_, ?_, ?_⟩
        · refine List.nodup_cons.mpr ⟨?_, hnd⟩
          intro hmem
          have := (hall i hmem).2
          rw [hset] at this
          simp at this
        · intro k hk
          rcases List.mem_cons.mp hk with rfl | hk
          · exact ⟨hlt, hi⟩
          · have := hall k hk
            rw [hset, List.length_set] at this
            refine ⟨this.1, ?_⟩
            by_cases hik : i = k
            · simp [hik] at this
            · simpa [hik] using this.2
        · rw [hlen, List.length_set]
        · intro j
          rw [hmark j, hset]
          by_cases hij : i = j
          · subst hij; simp
          · simp only [hij, if_false, List.mem_cons]
            constructor
            · rintro (h1 | h1)
              · exact .inl h1
              · exact .inr (.inr h1)
            · rintro (h1 | h1 | h1)
              · exact .inl h1
              · exact absurd h1.symm hij
              · exact .inr h1

/-- the first loop succeeds on distinct, in-range, not yet seen indices -/
theorem markSeen_complete : ∀ (q : List Nat) (seen : List Bool), q.Nodup →
    (∀ i ∈ q, i < seen.length ∧ seen[i]? = some false) → ∃ seen', markSeen seen q = .ok seen' := by
  intro q
  induction q with
  | nil => intro seen _ _; exact ⟨seen, rfl⟩
  | cons i rest ih =>
    intro seen hnd hall
    obtain ⟨hi, hnd'⟩ := List.nodup_cons.mp hnd
    obtain ⟨hlt, hfalse⟩ := hall i (by simp)
    have hge : ¬ i ≥ seen.length := by omega
    simp only [markSeen, hge, if_false, hfalse]
    apply ih _ hnd'
    intro k hk
    obtain ⟨h1, h2⟩ := hall k (List.mem_cons_of_mem _ hk)
    refine ⟨by rw [List.length_set]; exact h1, ?_⟩
    rw [List.getElem?_set]
    have : i ≠ k := by intro h; subst h; exact hi hk
    simp [this, h2]

/-- the first loop never unwinds: the index is guarded by the range check -/
theorem markSeen_no_panic : ∀ (q : List Nat) (seen : List Bool) (site : String),
    markSeen seen q ≠ .error (.panic site) := by
  intro q
  induction q with
  | nil => intro seen site h; simp [markSeen] at h
  | cons i rest ih =>
    intro seen site h
    simp only [markSeen] at h
    split at h
    · simp [fail] at h
    · rename_i hlt
      split at h
      · rename_i hnone
        have : i < seen.length := by omega
        simp at hnone
        omega
      · simp [fail] at h
      · exact ih _ _ h

theorem checkAllSeen_ok (l : List Bool) : checkAllSeen l = .ok () ↔ ∀ j, j < l.length → l[j]? = some true := by
  induction l with
  | nil => simp [checkAllSeen]
  | cons b rest ih =>
    cases b with
    | true =>
      simp only [checkAllSeen, ih]
      constructor
      · intro h j hj
        cases j with
        | zero => simp
        | succ j => simpa using h j (by simpa using hj)
      · intro h j hj
        simpa using h (j + 1) (by simpa using hj)
    | false =>
      simp only [checkAllSeen, fail]
      constructor
      · intro h; cases h
      · intro h
        have := h 0 (by simp)
        simp at this

theorem checkAllSeen_no_panic (l : List Bool) (site : String) : checkAllSeen l ≠ .error (.panic site) := by
  induction l with
  | nil => simp [checkAllSeen]
  | cons b rest ih =>
    cases b with
    | true => simpa [checkAllSeen] using ih
    | false => simp [checkAllSeen, fail]

end SaModel.Lemmas.C20
