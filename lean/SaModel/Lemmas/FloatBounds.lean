import SaModel.Basic.Float
/-
The IEEE conversions of `Basic/Float.lean` return bit patterns of the target width:
  roundMag_le_inf : 1 ≤ f.eb → roundMag f m e ≤ f.inf          (rounding never goes past infinity)
  convert_lt / ofInt_lt : results < 2 ^ f.width
(used as `FloatOK` by the value-range invariant `LR`, Lemmas/C03LR.lean).
-/
namespace SaModel.Lemmas.FloatBounds
open SaModel.Float

theorem rshiftRne_le (m s : Nat) : rshiftRne m s ≤ m / 2 ^ s + 1 := by
  unfold rshiftRne
  split
  · rename_i h; subst h; simp
  · simp only []; split <;> omega

theorem expMax_eq (f : Fmt) (hf : 1 ≤ f.eb) : f.expMax = 2 * f.bias + 1 := by
  unfold Fmt.expMax Fmt.bias
  have e : 2 ^ f.eb = 2 * 2 ^ (f.eb - 1) := by
    have : f.eb = (f.eb - 1) + 1 := by omega
    rw [this, Nat.pow_succ]; simp [Nat.mul_comm]
  have hp : 0 < 2 ^ (f.eb - 1) := Nat.two_pow_pos _
  omega

theorem pow_le_inf (f : Fmt) (hf : 1 ≤ f.eb) : 2 ^ f.mb ≤ f.inf := by
  unfold Fmt.inf
  have := expMax_eq f hf
  exact Nat.le_mul_of_pos_left _ (by omega)

theorem roundMag_le_inf (f : Fmt) (hf : 1 ≤ f.eb) (m : Nat) (e : Int) : roundMag f m e ≤ f.inf := by
  unfold roundMag
  split
  · exact Nat.zero_le _
  · simp only []
    have hLm : m < 2 ^ (m.log2 + 1) := Nat.lt_log2_self
    generalize m.log2 = L at hLm ⊢
    have hinf := pow_le_inf f hf
    have hP : 0 < 2 ^ f.mb := Nat.two_pow_pos _
    split
    · -- subnormal range
      rename_i hE
      split
      · rename_i hk
        generalize hkn : (e - (1 - (f.bias : Int) - (f.mb : Int))).toNat = kn
        have hle : L + 1 + kn ≤ f.mb := by omega
        have h1 : m * 2 ^ kn < 2 ^ (L + 1) * 2 ^ kn := Nat.mul_lt_mul_of_pos_right hLm (Nat.two_pow_pos _)
        rw [← Nat.pow_add] at h1
        have h2 : 2 ^ (L + 1 + kn) ≤ 2 ^ f.mb := Nat.pow_le_pow_right (by omega) hle
        omega
      · rename_i hk
        generalize hs : (-(e - (1 - (f.bias : Int) - (f.mb : Int)))).toNat = s
        have h1 := rshiftRne_le m s
        have hle : L + 1 ≤ s + f.mb := by omega
        have h2 : 2 ^ (L + 1) ≤ 2 ^ (s + f.mb) := Nat.pow_le_pow_right (by omega) hle
        rw [Nat.pow_add 2 s f.mb] at h2
        have h3 : m / 2 ^ s < 2 ^ f.mb := Nat.div_lt_of_lt_mul (by omega)
        omega
    · -- normal range
      rename_i hE
      have h2P : 2 ^ (f.mb + 1) = 2 * 2 ^ f.mb := by rw [Nat.pow_succ]; omega
      have hq0 : (if (L : Int) - (f.mb : Int) ≤ 0 then m * 2 ^ (-((L : Int) - (f.mb : Int))).toNat
          else rshiftRne m ((L : Int) - (f.mb : Int)).toNat) ≤ 2 ^ (f.mb + 1) := by
        split
        · rename_i hsh
          generalize ht : (-((L : Int) - (f.mb : Int))).toNat = t
          have hle : L + 1 + t = f.mb + 1 := by omega
          have h1 : m * 2 ^ t < 2 ^ (L + 1) * 2 ^ t := Nat.mul_lt_mul_of_pos_right hLm (Nat.two_pow_pos _)
          rw [← Nat.pow_add, hle] at h1
          omega
        · rename_i hsh
          generalize hs : ((L : Int) - (f.mb : Int)).toNat = s
          have h1 := rshiftRne_le m s
          have hle : L + 1 = s + (f.mb + 1) := by omega
          rw [hle, Nat.pow_add 2 s (f.mb + 1)] at hLm
          have h3 : m / 2 ^ s < 2 ^ (f.mb + 1) := Nat.div_lt_of_lt_mul hLm
          omega
      generalize (if (L : Int) - (f.mb : Int) ≤ 0 then m * 2 ^ (-((L : Int) - (f.mb : Int))).toNat
          else rshiftRne m ((L : Int) - (f.mb : Int)).toNat) = q0 at hq0 ⊢
      have hmax := expMax_eq f hf
      have key : ∀ (q : Nat) (E : Int), q < 2 ^ (f.mb + 1) → ¬ E > (f.bias : Int) →
          (E + (f.bias : Int)).toNat * 2 ^ f.mb + (q - 2 ^ f.mb) ≤ f.inf := by
        intro q E hq hEb
        unfold Fmt.inf
        have ht : (E + (f.bias : Int)).toNat + 1 ≤ f.expMax := by omega
        have := Nat.mul_le_mul_right (2 ^ f.mb) ht
        rw [Nat.add_mul] at this
        omega
      by_cases hc : q0 ≥ 2 ^ (f.mb + 1)
      · simp only [hc, if_true]
        split
        · exact Nat.le_refl _
        · rename_i hEb
          exact key _ _ (by omega) hEb
      · simp only [hc, if_false]
        split
        · exact Nat.le_refl _
        · rename_i hEb
          exact key _ _ (by omega) hEb

theorem signBit_eq (f : Fmt) : f.signBit = 2 ^ f.eb * 2 ^ f.mb := by
  unfold Fmt.signBit; rw [Nat.pow_add]

theorem inf_lt_signBit (f : Fmt) (_hf : 1 ≤ f.eb) : f.inf < f.signBit := by
  rw [signBit_eq]
  unfold Fmt.inf Fmt.expMax
  have hp : 0 < 2 ^ f.eb := Nat.two_pow_pos _
  have hP : 0 < 2 ^ f.mb := Nat.two_pow_pos _
  have : 2 ^ f.eb - 1 + 1 = 2 ^ f.eb := by omega
  have h2 : (2 ^ f.eb - 1 + 1) * 2 ^ f.mb = 2 ^ f.eb * 2 ^ f.mb := by rw [this]
  rw [Nat.add_mul] at h2
  omega

theorem nan_lt_signBit (f : Fmt) (_hf : 1 ≤ f.eb) (hm : 1 ≤ f.mb) : f.nan < f.signBit := by
  rw [signBit_eq]
  unfold Fmt.nan Fmt.expMax
  have hp : 0 < 2 ^ f.eb := Nat.two_pow_pos _
  have hlt : 2 ^ (f.mb - 1) < 2 ^ f.mb := Nat.pow_lt_pow_right (by omega) (by omega)
  have : 2 ^ f.eb - 1 + 1 = 2 ^ f.eb := by omega
  have h2 : (2 ^ f.eb - 1 + 1) * 2 ^ f.mb = 2 ^ f.eb * 2 ^ f.mb := by rw [this]
  rw [Nat.add_mul] at h2
  omega

theorem width_eq (f : Fmt) : 2 ^ f.width = 2 * f.signBit := by
  unfold Fmt.width Fmt.signBit
  rw [show 1 + f.eb + f.mb = (f.eb + f.mb) + 1 by omega, Nat.pow_succ]; omega

theorem withSign_lt (f : Fmt) (neg : Bool) (mag : Nat) (h : mag < f.signBit) : withSign f neg mag < 2 ^ f.width := by
  rw [width_eq]
  unfold withSign
  split <;> omega

/-- float → float conversions return a pattern of the target width -/
theorem convert_lt (src dst : Fmt) (hf : 1 ≤ dst.eb) (hm : 1 ≤ dst.mb) (bits : Nat) :
    convert src dst bits < 2 ^ dst.width := by
  unfold convert
  split
  · have := nan_lt_signBit dst hf hm
    rw [width_eq]; omega
  · exact withSign_lt dst _ _ (inf_lt_signBit dst hf)
  · exact withSign_lt dst _ _ (Nat.lt_of_le_of_lt (roundMag_le_inf dst hf _ _) (inf_lt_signBit dst hf))

/-- integer → float conversions return a pattern of the target width -/
theorem ofInt_lt (dst : Fmt) (hf : 1 ≤ dst.eb) (v : Int) : ofInt dst v < 2 ^ dst.width := by
  unfold ofInt
  exact withSign_lt dst _ _ (Nat.lt_of_le_of_lt (roundMag_le_inf dst hf _ _) (inf_lt_signBit dst hf))

end SaModel.Lemmas.FloatBounds
