import SaModel.Read.Reader
/-
Helper lemmas for the reader theorems (C02, C12, C17): the "no panic" predicate and its closure properties,
and the primitives of the reader model under `Fixes.all`.
-/
namespace SaModel.Read
open SaModel

/-- the outcome is a value or an `Err`, never an unwind -/
def NoPanic {α} (x : R α) : Prop := ∀ s, x ≠ .error (.panic s)

theorem NoPanic.ok {α} (a : α) : NoPanic (Except.ok a : R α) := by intro s h; cases h
theorem NoPanic.pure {α} (a : α) : NoPanic (pure a : R α) := by intro s h; cases h
theorem NoPanic.fail {α} (m : String) : NoPanic (fail m : R α) := by intro s h; cases h
theorem NoPanic.err {α} (m : String) : NoPanic (Except.error (.err m) : R α) := by intro s h; cases h

theorem NoPanic.bind {α β} {x : R α} {f : α → R β} (hx : NoPanic x) (hf : ∀ a, NoPanic (f a)) :
    NoPanic (x >>= f) := by
  intro s h
  cases x with
  | ok a => exact hf a s h
  | error e =>
    cases e with
    | err m => cases h
    | errCtx m a => cases h
    | panic p => exact hx p rfl

theorem NoPanic.map {α β} {x : R α} {f : α → β} (hx : NoPanic x) : NoPanic (f <$> x) := by
  intro s h
  cases x with
  | ok a => cases h
  | error e =>
    cases e with
    | err m => cases h
    | errCtx m a => cases h
    | panic p => exact hx p rfl

theorem NoPanic.ite {α} {c : Prop} [Decidable c] {a b : R α} (ha : NoPanic a) (hb : NoPanic b) :
    NoPanic (if c then a else b) := by split <;> assumption

theorem NoPanic.notImpl {α} : NoPanic (notImpl : R α) := NoPanic.fail _
theorem NoPanic.rejected {α} : NoPanic (rejected : R α) := NoPanic.fail _

/-! ### primitives, with every fix applied -/

theorem getBitBuffer_all (b : Bits) (idx : Nat) : getBitBuffer Fixes.all b idx = Spec.getBit b idx := by
  simp only [getBitBuffer, Fixes.all, Spec.getBit, Bool.not_true, Bool.false_and, Bool.false_eq_true, if_false]
  cases b.data[(idx + b.offset) / 8]? <;> rfl

theorem validityIsSet_all (v : Option Bits) (idx : Nat) : validityIsSet Fixes.all v idx = Spec.isValid v idx := by
  cases v <;> simp [validityIsSet, Spec.isValid, getBitBuffer_all]

theorem noPanic_getBit (b : Bits) (idx : Nat) : NoPanic (Spec.getBit b idx) := by
  unfold Spec.getBit; split
  · exact NoPanic.fail _
  · exact NoPanic.ok _

theorem noPanic_getBitBuffer (b : Bits) (idx : Nat) : NoPanic (getBitBuffer Fixes.all b idx) := by
  rw [getBitBuffer_all]; exact noPanic_getBit b idx

theorem noPanic_validityIsSet (v : Option Bits) (idx : Nat) : NoPanic (validityIsSet Fixes.all v idx) := by
  cases v
  · exact NoPanic.ok _
  · exact noPanic_getBitBuffer _ _

theorem noPanic_tryIntoUsize (x : Int) : NoPanic (tryIntoUsize x) := by
  unfold tryIntoUsize; split
  · exact NoPanic.ok _
  · exact NoPanic.fail _

theorem noPanic_getRequired {α} {x : R (Option α)} (hx : NoPanic x) : NoPanic (getRequired x) := by
  unfold getRequired
  refine NoPanic.bind hx ?_
  intro a; cases a
  · exact NoPanic.fail _
  · exact NoPanic.pure _

theorem noPanic_optIsSome {α} {x : R (Option α)} (hx : NoPanic x) : NoPanic (optIsSome x) := by
  unfold optIsSome
  exact NoPanic.bind hx (fun _ => NoPanic.pure _)

theorem noPanic_primGet (v : Option Bits) (vals : List Int) (idx : Nat) : NoPanic (primGet Fixes.all v vals idx) := by
  unfold primGet; split
  · exact NoPanic.fail _
  · refine NoPanic.bind (noPanic_validityIsSet v idx) ?_
    intro b; cases b <;> exact NoPanic.pure _

theorem noPanic_boolGet (len : Nat) (v : Option Bits) (vals : Bits) (idx : Nat) :
    NoPanic (boolGet Fixes.all len v vals idx) := by
  unfold boolGet; split
  · exact NoPanic.fail _
  · refine NoPanic.bind (noPanic_validityIsSet v idx) ?_
    intro b; cases b
    · exact NoPanic.pure _
    · exact NoPanic.bind (noPanic_getBitBuffer _ _) (fun _ => NoPanic.pure _)

theorem noPanic_bytesGet (v : Option Bits) (offs : List Int) (data : Bytes) (idx : Nat) :
    NoPanic (bytesGet Fixes.all v offs data idx) := by
  unfold bytesGet
  simp only [Fixes.all, if_true]
  split
  · exact NoPanic.fail _
  · rename_i hlen
    refine NoPanic.bind (noPanic_validityIsSet v idx) ?_
    intro b; cases b
    · exact NoPanic.pure _
    · have h1 : idx < offs.length := by omega
      have h2 : idx + 1 < offs.length := by omega
      simp only [List.getElem?_eq_getElem h1, List.getElem?_eq_getElem h2, if_true]
      refine NoPanic.bind (noPanic_tryIntoUsize _) ?_
      intro s
      refine NoPanic.bind (noPanic_tryIntoUsize _) ?_
      intro e
      split
      · exact NoPanic.pure _
      · exact NoPanic.fail _

theorem noPanic_viewBytes (buffers : List Bytes) (desc : Nat) : NoPanic (viewBytes buffers desc) := by
  unfold viewBytes
  simp only
  split
  · exact NoPanic.ok _
  · split
    · exact NoPanic.fail _
    · split
      · exact NoPanic.ok _
      · exact NoPanic.fail _

theorem noPanic_viewGet (v : Option Bits) (views : List Nat) (buffers : List Bytes) (idx : Nat) :
    NoPanic (viewGet Fixes.all v views buffers idx) := by
  unfold viewGet; split
  · exact NoPanic.fail _
  · refine NoPanic.bind (noPanic_validityIsSet v idx) ?_
    intro b; cases b
    · exact NoPanic.pure _
    · exact NoPanic.bind (noPanic_viewBytes _ _) (fun _ => NoPanic.pure _)

theorem noPanic_asStr {x : R (Option Bytes)} (hx : NoPanic x) : NoPanic (asStr x) := by
  unfold asStr
  refine NoPanic.bind hx ?_
  intro a; cases a
  · exact NoPanic.pure _
  · simp only; split
    · exact NoPanic.pure _
    · exact NoPanic.fail _

theorem noPanic_fsbNew (n : Int) (data : Bytes) : NoPanic (fsbNew Fixes.all n data) := by
  unfold fsbNew
  simp only [Fixes.all, if_true]
  split
  · exact NoPanic.fail _
  · split
    · split
      · exact NoPanic.ok _
      · exact NoPanic.fail _
    · split
      · exact NoPanic.fail _
      · exact NoPanic.ok _

/-- what `fsbNew` returns: `len * n ≤ data.length` -/
theorem fsbNew_ok {n : Int} {data : Bytes} {n' len : Nat} (h : fsbNew Fixes.all n data = .ok (n', len)) :
    len * n' ≤ data.length := by
  unfold fsbNew at h
  simp only [Fixes.all, if_true] at h
  split at h
  · cases h
  · split at h
    · split at h
      · cases h; simp
      · cases h
    · split at h
      · cases h
      · cases h
        exact Nat.div_mul_le_self _ _

theorem noPanic_fsbGet {n len : Nat} (v : Option Bits) (data : Bytes) (idx : Nat) (hlen : len * n ≤ data.length) :
    NoPanic (fsbGet Fixes.all n len v data idx) := by
  unfold fsbGet; split
  · exact NoPanic.fail _
  · rename_i hidx
    refine NoPanic.bind (noPanic_validityIsSet v idx) ?_
    intro b; cases b
    · exact NoPanic.pure _
    · have : (idx + 1) * n ≤ data.length := by
        have : (idx + 1) * n ≤ len * n := Nat.mul_le_mul_right n (by omega)
        omega
      simp only [this, if_true]
      exact NoPanic.pure _

theorem noPanic_fsbColGet (n : Int) (v : Option Bits) (data : Bytes) (idx : Nat) :
    NoPanic (fsbColGet Fixes.all n v data idx) := by
  unfold fsbColGet
  intro s h
  cases hn : fsbNew Fixes.all n data with
  | error e =>
    rw [hn] at h
    cases e with
    | err m => cases h
    | errCtx m a => cases h
    | panic p => exact noPanic_fsbNew n data p hn
  | ok r =>
    obtain ⟨n', len⟩ := r
    rw [hn] at h
    exact noPanic_fsbGet v data idx (fsbNew_ok hn) s h

theorem noPanic_listRange (offs : List Int) (idx : Nat) : NoPanic (listRange Fixes.all offs idx) := by
  unfold listRange; split
  · exact NoPanic.fail _
  · have h1 : idx < offs.length := by omega
    have h2 : idx + 1 < offs.length := by omega
    simp only [List.getElem?_eq_getElem h1, List.getElem?_eq_getElem h2]
    refine NoPanic.bind (noPanic_tryIntoUsize _) ?_
    intro s
    refine NoPanic.bind (noPanic_tryIntoUsize _) ?_
    intro e
    split
    · exact NoPanic.fail _
    · exact NoPanic.pure _

theorem noPanic_fslRange (len : Nat) (n : Int) (idx : Nat) : NoPanic (fslRange Fixes.all len n idx) := by
  unfold fslRange; split
  · exact NoPanic.fail _
  · refine NoPanic.bind (noPanic_tryIntoUsize _) ?_
    intro m
    simp only [Fixes.all, if_true]
    split
    · exact NoPanic.fail _
    · exact NoPanic.pure _

theorem noPanic_readRange {α} (f : Nat → R α) (hf : ∀ j, NoPanic (f j)) : ∀ n s, NoPanic (readRange f s n)
  | 0, _ => NoPanic.ok _
  | n + 1, s => by
    unfold readRange
    refine NoPanic.bind (hf s) ?_
    intro x
    exact NoPanic.bind (noPanic_readRange f hf n (s + 1)) (fun _ => NoPanic.pure _)

theorem noPanic_strategyOk (m : Metadata) : NoPanic (strategyOk m) := by
  unfold strategyOk; split
  · exact NoPanic.ok _
  · split
    · exact NoPanic.ok _
    · exact NoPanic.fail _

theorem noPanic_nullCheck (len idx : Nat) : NoPanic (nullCheck Fixes.all len idx) := by
  unfold nullCheck; split
  · exact NoPanic.fail _
  · exact NoPanic.ok _

theorem noPanic_bytesColGet (ty : BytesTy) (v : Option Bits) (offs : List Int) (data : Bytes) (idx : Nat) :
    NoPanic (bytesColGet Fixes.all ty v offs data idx) := by
  unfold bytesColGet; split
  · exact noPanic_asStr (noPanic_bytesGet _ _ _ _)
  · exact noPanic_bytesGet _ _ _ _

theorem noPanic_viewColGet (ty : ViewTy) (v : Option Bits) (views : List Nat) (buffers : List Bytes) (idx : Nat) :
    NoPanic (viewColGet Fixes.all ty v views buffers idx) := by
  unfold viewColGet; split
  · exact noPanic_asStr (noPanic_viewGet _ _ _ _)
  · exact noPanic_viewGet _ _ _ _

theorem noPanic_dictGetStr (ks vs : Arr) (idx : Nat) : NoPanic (dictGetStr Fixes.all ks vs idx) := by
  unfold dictGetStr
  split
  · refine NoPanic.bind (noPanic_getRequired (noPanic_primGet _ _ _)) ?_
    intro k
    split
    · exact NoPanic.fail _
    · refine NoPanic.bind (noPanic_tryIntoUsize _) ?_
      intro key
      exact noPanic_getRequired (noPanic_asStr (noPanic_bytesGet _ _ _ _))
  · exact NoPanic.fail _

theorem noPanic_intoInt (ty : IntTy) (x : Int) : NoPanic (intoInt ty x) := by
  unfold intoInt; split
  · exact NoPanic.ok _
  · exact NoPanic.fail _

theorem noPanic_codecRead (fmt : Int → R DVal) (hf : ∀ x, NoPanic (fmt x)) (v : Option Bits) (vals : List Int) (idx : Nat) :
    NoPanic (codecRead Fixes.all fmt v vals idx) := by
  unfold codecRead
  exact NoPanic.bind (noPanic_getRequired (noPanic_primGet _ _ _)) hf

theorem noPanic_dateRepr (ty : PrimTy) (x : Int) : NoPanic (dateRepr ty x) := by
  unfold dateRepr Codec.dateToString
  refine NoPanic.bind ?_ (fun _ => NoPanic.pure _)
  dsimp only
  (repeat' split) <;> first | exact NoPanic.ok _ | exact NoPanic.fail _

theorem noPanic_timeRepr (u : SaModel.TimeUnit) (x : Int) : NoPanic (timeRepr u x) := by
  unfold timeRepr Codec.timeToString
  refine NoPanic.bind ?_ (fun _ => NoPanic.pure _)
  split
  · exact NoPanic.ok _
  · exact NoPanic.fail _

theorem noPanic_timestampRepr (u : SaModel.TimeUnit) (tz : Option String) (x : Int) : NoPanic (timestampRepr u tz x) := by
  unfold timestampRepr Codec.timestampToString
  refine NoPanic.bind ?_ (fun _ => NoPanic.pure _)
  split
  · exact NoPanic.ok _
  · exact NoPanic.fail _

theorem noPanic_ownedStr {r : R Bytes} (h : NoPanic r) : NoPanic (ownedStr r) := by
  unfold ownedStr; exact NoPanic.bind h (fun _ => NoPanic.pure _)

theorem noPanic_ownedBytes {r : R Bytes} (h : NoPanic r) : NoPanic (ownedBytes r) := by
  unfold ownedBytes; exact NoPanic.bind h (fun _ => NoPanic.pure _)

theorem noPanic_strVariant : ∀ (vs : TVariants) (s : Bytes), NoPanic (strVariant vs s)
  | .nil, _ => NoPanic.fail _
  | .cons n k rest, s => by
    unfold strVariant
    split
    · split
      · exact NoPanic.ok _
      · exact NoPanic.fail _
    · exact noPanic_strVariant rest s

/-- one step of the routine "no panic" argument: close a leaf with a primitive lemma, or peel a bind / a match -/
macro "np_step" : tactic => `(tactic| first
  | exact NoPanic.ok _ | exact NoPanic.pure _ | exact NoPanic.fail _ | exact NoPanic.notImpl | exact NoPanic.rejected
  | exact NoPanic.err _
  | exact noPanic_nullCheck _ _
  | exact noPanic_getRequired (noPanic_boolGet _ _ _ _)
  | exact noPanic_getRequired (noPanic_primGet _ _ _)
  | exact noPanic_getRequired (noPanic_bytesColGet _ _ _ _ _)
  | exact noPanic_getRequired (noPanic_viewColGet _ _ _ _ _)
  | exact noPanic_getRequired (noPanic_fsbColGet _ _ _ _)
  | exact noPanic_dictGetStr _ _ _
  | exact noPanic_intoInt _ _
  | (refine noPanic_codecRead _ (fun _ => ?_) _ _ _)
  | exact noPanic_ownedStr (noPanic_dateRepr _ _)
  | exact noPanic_ownedBytes (noPanic_dateRepr _ _)
  | exact noPanic_ownedStr (noPanic_timeRepr _ _)
  | exact noPanic_ownedBytes (noPanic_timeRepr _ _)
  | exact noPanic_ownedStr (noPanic_timestampRepr _ _ _)
  | exact noPanic_ownedBytes (noPanic_timestampRepr _ _ _)
  | exact noPanic_strVariant _ _
  | exact noPanic_listRange _ _
  | exact noPanic_fslRange _ _ _
  | exact noPanic_tryIntoUsize _
  | exact noPanic_strategyOk _
  | assumption
  | (refine NoPanic.bind ?_ (fun _ => ?_))
  | split)

macro "np" : tactic => `(tactic| repeat np_step)

theorem noPanic_scalar (m : Method) (a : Arr) (idx : Nat) : NoPanic (scalar Fixes.all m a idx) := by
  unfold scalar; with_reducible np

theorem noPanic_accept (t : Target) (d : DVal) : NoPanic (accept t d) := by
  unfold accept; np

theorem noPanic_u8As (t : Target) (b : UInt8) : NoPanic (u8As t b) := by
  unfold u8As; np

theorem noPanic_strDeAs (t : Target) (name : String) : NoPanic (strDeAs t name) := by
  unfold strDeAs; np

theorem noPanic_structItem (len idx : Nat) : NoPanic (structItem Fixes.all len idx) := by
  unfold structItem; np

theorem noPanic_finishFields : ∀ (tfs : TFields) (pos : Nat) (slots : Slots), NoPanic (finishFields tfs pos slots)
  | .nil, _, _ => by unfold finishFields; exact NoPanic.ok _
  | .cons n t rest, pos, slots => by
    unfold finishFields
    refine NoPanic.bind ?_ (fun _ => ?_)
    · unfold slotOrMissing; np
    · exact NoPanic.bind (noPanic_finishFields rest (pos + 1) slots) (fun _ => NoPanic.pure _)

theorem noPanic_binaryElems {a : Arr} {idx : Nat} {rb : R Bytes} (h : binaryElems Fixes.all a idx = some rb) : NoPanic rb := by
  cases a <;> simp only [binaryElems] at h
  all_goals first
    | (split at h <;> (cases h; try np))
    | (cases h; try np)

theorem noPanic_stringElem {a : Arr} {idx : Nat} {rs : R Bytes} (h : stringElem Fixes.all a idx = some rs) : NoPanic rs := by
  cases a <;> simp only [stringElem] at h
  all_goals first
    | (split at h <;> (cases h; try np))
    | (cases h; try np)

theorem noPanic_mapM {α β} (f : α → R β) (hf : ∀ a, NoPanic (f a)) : ∀ (l : List α), NoPanic (l.mapM f)
  | [] => by simp only [List.mapM_nil]; exact NoPanic.pure _
  | x :: xs => by
    simp only [List.mapM_cons]
    refine NoPanic.bind (hf x) (fun _ => ?_)
    exact NoPanic.bind (noPanic_mapM f hf xs) (fun _ => NoPanic.pure _)

theorem noPanic_foldlM {α β} (f : β → α → R β) (hf : ∀ b a, NoPanic (f b a)) : ∀ (l : List α) (init : β), NoPanic (l.foldlM f init)
  | [], _ => by simp only [List.foldlM_nil]; exact NoPanic.pure _
  | x :: xs, init => by
    simp only [List.foldlM_cons]
    exact NoPanic.bind (hf init x) (fun b => noPanic_foldlM f hf xs b)

end SaModel.Read
