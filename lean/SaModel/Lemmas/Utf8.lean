import SaModel.Build.Builder
import SaModel.Spec.WF
/-
Rust `&str` is valid UTF-8 by type; the model's counterpart: the bytes of a Lean `String` (`strBytes s`, what a string
builder appends) satisfy the specification's RFC 3629 recogniser `Spec.validUtf8`.

  validUtf8_strBytes : validUtf8 (strBytes s) = true

from core facts only: a `String` is a `ByteArray` that is the UTF-8 encoding of some `List Char`
(`ByteArray.IsValidUTF8`), `String.utf8EncodeChar` is given by div/mod arithmetic, and a `Char` is a scalar value
(`< 0xD800` or `0xDFFF < · < 0x110000`).
-/
namespace SaModel.Lemmas.Utf8
open SaModel SaModel.Build SaModel.Spec

/-! ### the recogniser on one encoded scalar value -/

theorem valid1 (b0 : UInt8) (rest : Bytes) (h : b0.toNat < 0x80) : validUtf8 (b0 :: rest) = validUtf8 rest := by
  rw [validUtf8.eq_def]
  simp only [h, if_true]

theorem valid2 (b0 b1 : UInt8) (rest : Bytes) (h0 : 0xC2 ≤ b0.toNat ∧ b0.toNat ≤ 0xDF)
    (h1 : 0x80 ≤ b1.toNat ∧ b1.toNat ≤ 0xBF) : validUtf8 (b0 :: b1 :: rest) = validUtf8 rest := by
  have n0 : ¬ b0.toNat < 0x80 := by omega
  simp only [validUtf8, n0, if_false, h0, and_self, if_true, h1, decide_true, Bool.true_and]

theorem valid3 (b0 b1 b2 : UInt8) (rest : Bytes) (h0 : 0xE0 ≤ b0.toNat ∧ b0.toNat ≤ 0xEF)
    (h1 : (if b0.toNat = 0xE0 then 0xA0 else 0x80) ≤ b1.toNat ∧ b1.toNat ≤ (if b0.toNat = 0xED then 0x9F else 0xBF))
    (h2 : 0x80 ≤ b2.toNat ∧ b2.toNat ≤ 0xBF) : validUtf8 (b0 :: b1 :: b2 :: rest) = validUtf8 rest := by
  have n0 : ¬ b0.toNat < 0x80 := by omega
  have n1 : ¬ (0xC2 ≤ b0.toNat ∧ b0.toNat ≤ 0xDF) := by omega
  simp only [validUtf8, n0, if_false, n1, h0, and_self, if_true, h1, h2, decide_true, Bool.true_and]

theorem valid4 (b0 b1 b2 b3 : UInt8) (rest : Bytes) (h0 : 0xF0 ≤ b0.toNat ∧ b0.toNat ≤ 0xF4)
    (h1 : (if b0.toNat = 0xF0 then 0x90 else 0x80) ≤ b1.toNat ∧ b1.toNat ≤ (if b0.toNat = 0xF4 then 0x8F else 0xBF))
    (h2 : 0x80 ≤ b2.toNat ∧ b2.toNat ≤ 0xBF) (h3 : 0x80 ≤ b3.toNat ∧ b3.toNat ≤ 0xBF) :
    validUtf8 (b0 :: b1 :: b2 :: b3 :: rest) = validUtf8 rest := by
  have n0 : ¬ b0.toNat < 0x80 := by omega
  have n1 : ¬ (0xC2 ≤ b0.toNat ∧ b0.toNat ≤ 0xDF) := by omega
  have n2 : ¬ (0xE0 ≤ b0.toNat ∧ b0.toNat ≤ 0xEF) := by omega
  simp only [validUtf8, n0, if_false, n1, n2, h0, and_self, if_true, h1, h2, h3, decide_true, Bool.true_and]

theorem toNat_ofNat_lt (x : Nat) (h : x < 256) : (UInt8.ofNat x).toNat = x := by
  simp only [UInt8.toNat_ofNat']; omega

/-- the encoding of one scalar value is accepted and consumed -/
theorem validUtf8_encodeChar_append (c : Char) (rest : Bytes) :
    validUtf8 (String.utf8EncodeChar c ++ rest) = validUtf8 rest := by
  have hv : c.val.toNat < 55296 ∨ 57343 < c.val.toNat ∧ c.val.toNat < 1114112 := c.valid
  unfold String.utf8EncodeChar
  generalize c.val.toNat = v at hv
  simp only []
  split
  · apply valid1
    rw [toNat_ofNat_lt _ (by omega)]; omega
  · split
    · apply valid2
      · rw [toNat_ofNat_lt _ (by omega)]; omega
      · rw [toNat_ofNat_lt _ (by omega)]; omega
    · split
      · apply valid3
        · rw [toNat_ofNat_lt _ (by omega)]; omega
        · rw [toNat_ofNat_lt (v / 4096 % 16 + 224) (by omega), toNat_ofNat_lt (v / 64 % 64 + 128) (by omega)]
          constructor
          · split <;> omega
          · split <;> omega
        · rw [toNat_ofNat_lt _ (by omega)]; omega
      · apply valid4
        · rw [toNat_ofNat_lt _ (by omega)]; omega
        · rw [toNat_ofNat_lt (v / 262144 % 8 + 240) (by omega), toNat_ofNat_lt (v / 4096 % 64 + 128) (by omega)]
          constructor
          · split <;> omega
          · split <;> omega
        · rw [toNat_ofNat_lt _ (by omega)]; omega
        · rw [toNat_ofNat_lt _ (by omega)]; omega

theorem validUtf8_flatMap (cs : List Char) : validUtf8 (cs.flatMap String.utf8EncodeChar) = true := by
  induction cs with
  | nil => rfl
  | cons c r ih => rw [List.flatMap_cons, validUtf8_encodeChar_append, ih]

/-! ### `ByteArray.toList` -/

theorem toList_loop (bs : ByteArray) : ∀ (n i : Nat) (r : List UInt8), bs.size - i = n →
    ByteArray.toList.loop bs i r = r.reverse ++ bs.data.toList.drop i := by
  intro n
  induction n with
  | zero =>
    intro i r h
    have hi : ¬ i < bs.size := by omega
    rw [ByteArray.toList.loop]
    simp only [hi, if_false]
    have : bs.data.toList.length ≤ i := by
      have : bs.data.toList.length = bs.size := by cases bs; rfl
      omega
    rw [List.drop_eq_nil_of_le this, List.append_nil]
  | succ n ih =>
    intro i r h
    have hi : i < bs.size := by omega
    rw [ByteArray.toList.loop]
    simp only [hi, if_true]
    rw [ih (i + 1) _ (by omega)]
    have hlen : i < bs.data.toList.length := by
      have : bs.data.toList.length = bs.size := by cases bs; rfl
      omega
    have hget : bs.get! i = bs.data.toList[i] := by
      have hsz : i < bs.data.size := by cases bs; exact hi
      cases bs with
      | mk data => simp only [ByteArray.get!]; rw [getElem!_pos data i hsz]; simp
    rw [List.drop_eq_getElem_cons hlen, hget]
    simp

theorem toList_eq (bs : ByteArray) : bs.toList = bs.data.toList := by
  rw [ByteArray.toList, toList_loop bs _ 0 [] rfl]
  simp

/-- **every string the builders receive is valid UTF-8** -/
theorem validUtf8_strBytes (s : String) : validUtf8 (strBytes s) = true := by
  obtain ⟨m, hm⟩ := s.isValidUTF8
  unfold strBytes String.toUTF8
  rw [toList_eq, hm, List.utf8Encode, List.toList_data_toByteArray]
  exact validUtf8_flatMap m

example : validUtf8 (strBytes "") = true := validUtf8_strBytes ""
example : validUtf8 [0xE2, 0x82, 0xAC] = true := by decide           -- "€"
example : validUtf8 [0xED, 0xA0, 0x80] = false := by decide          -- a surrogate
example : validUtf8 [0xC0, 0x80] = false := by decide                -- overlong

end SaModel.Lemmas.Utf8
