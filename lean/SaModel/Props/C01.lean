import SaModel.Build.Dec
import SaModel.Spec.Interp
/-
C01 — serialized arrays decode to exactly the input records.

Target (full strength, see DESIGN.md section 4 "Refinement theorem"):
  push_refines  : Shape b f → WFB b → push ext b x = ok b' →
                    Shape b' f ∧ WFB b' ∧ ∃ lv, dec b' = dec b ++ [lv] ∧ interp ext f x = ok lv
  finish_decode : WFB b → finish ext b = ok a → decodeAll a = (dec b).map ok
  C01_build_decode : toMarrow ext fields rows = ok arrs → arrs.length = fields.length ∧
                    ∀ j i, decode arrs[j] i = column j of interpRow ext fields rows[i]
This file holds the part that is proved so far; lemma files under SaModel/Lemmas/C01*.lean carry the
per-family step lemmas.  What is not yet proved is tracked in notes/C01.md.
-/
namespace SaModel.Props.C01
open SaModel SaModel.Build SaModel.Spec

/-- validity invariant of every builder that carries a bitmap: one bit per row -/
def VLen (v : Validity) (n : Nat) : Prop := ∀ bits, v = some bits → bits.length = n

theorem setBit_append (bits : List Bool) (value : Bool) : setBit bits bits.length value = bits ++ [value] := by
  unfold setBit
  have : ¬ bits.length < bits.length := by omega
  simp only [this, if_false]
  have : bits.length + 1 - bits.length = 1 := by omega
  rw [this]
  simp [List.replicate]

theorem maskNull_append (v : Validity) (xs : List LVal) (b : Bool) (x : LVal) (h : VLen v xs.length) :
    maskNull (v.map (· ++ [b])) (xs ++ [x]) = maskNull v xs ++ [match v with | none => x | some _ => if b then x else .null] := by
  cases v with
  | none => simp [maskNull]
  | some bits =>
    have hl : bits.length = xs.length := h bits rfl
    simp only [maskNull, Option.map_some]
    rw [List.zipWith_append hl]
    simp

/-- **Leaf step (scalar-like builders).** A successful scalar push into a well-formed leaf builder appends exactly
one row; the row holds the converted value (validity and value move in lock step). -/
theorem push_leaf_dec (ext : Ext) (p : String) (k : LeafKind) (v : Validity) (vals : List Int) (x : SVal) (b' : B)
    (hwf : VLen v vals.length) (h : pushScalar ext (.leaf p k v vals) x = .ok b') :
    ∃ val, convLeaf ext k x = .ok val ∧ dec b' = dec (.leaf p k v vals) ++ [leafVal k val] ∧
      ∃ v', b' = .leaf p k v' (vals ++ [val]) ∧ VLen v' (vals ++ [val]).length := by
  simp only [pushScalar, bind, Except.bind] at h
  cases hc : convLeaf ext k x with
  | error e => rw [hc] at h; cases h
  | ok val =>
    rw [hc] at h
    refine ⟨val, rfl, ?_⟩
    cases v with
    | none =>
      simp only [setValidity, if_true] at h
      cases h
      refine ⟨by simp [dec, maskNull], none, rfl, ?_⟩
      intro bits hb; cases hb
    | some bits =>
      simp only [setValidity] at h
      cases h
      have hl : bits.length = vals.length := hwf bits rfl
      rw [← hl, setBit_append]
      refine ⟨?_, some (bits ++ [true]), rfl, ?_⟩
      · simp only [dec, List.map_append, List.map_cons, List.map_nil]
        have := maskNull_append (some bits) (vals.map (leafVal k)) true (leafVal k val) (by
          intro b hb; cases hb; simpa using hl)
        simpa using this
      · intro b hb; cases hb; simp [hl]

/-- a null pushed into a nullable leaf appends exactly one null row -/
theorem pushNone_leaf_dec (p : String) (k : LeafKind) (bits : List Bool) (vals : List Int)
    (hwf : bits.length = vals.length) :
    ∃ b', pushNone (.leaf p k (some bits) vals) = .ok b' ∧ dec b' = dec (.leaf p k (some bits) vals) ++ [.null] := by
  refine ⟨.leaf p k (some (bits ++ [false])) (vals ++ [0]), ?_, ?_⟩
  · simp only [pushNone, setValidity, bind, Except.bind, ctx]
    rw [← hwf, setBit_append]
    rfl
  · simp only [dec, List.map_append, List.map_cons, List.map_nil]
    have := maskNull_append (some bits) (vals.map (leafVal k)) false (leafVal k 0) (by
      intro b hb; cases hb; simpa using hwf)
    simpa using this

/-! ### non-vacuity -/
example : ∃ b', pushScalar {} (.leaf "$.a" (.int .i32) (some [true]) [4]) (.int .i64 7) = .ok b' ∧
    dec b' = [.int 4, .int 7] := ⟨_, rfl, by decide⟩

end SaModel.Props.C01
