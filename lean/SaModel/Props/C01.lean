import SaModel.Props.C03
/-
C01 — serialized arrays decode to exactly the input records: the END-TO-END statement.

  C01_build_decode   toMarrow ext fields rows = ok arrs → one array per field, every array of `rows.length` slots, and
                     slot `i` of the arrays (read by the Arrow rules `Spec.decodeAll`) is, column by column, the
                     documented value `Spec.interpRow` of record `i`.

Composition of
  * the refinement theorems of Props/C01Refine.lean (same namespace `SaModel.Props.C01`): R1 `push_appends`,
    R2 `push_interp`, R3 `runRows_interp` — "the final builder state holds exactly `interpRow` of the records";
  * the physical layer of Props/C03.lean: `finish_decode` — "the finished arrays mean what the state holds".
Hypotheses and exclusions: see the theorem and notes/C01.md.
-/
namespace SaModel.Props.C01
open SaModel SaModel.Build SaModel.Spec

/-- **C01 for `to_marrow`** (physical and logical halves composed).  Whenever serializing `rows` against `fields`
succeeds, the returned arrays decode (Arrow reading rules, slot by slot, through the packed bitmaps, offsets, view
descriptors, dictionary keys, union type ids) to columns `cols` — one per field, named after it, of `rows.length` slots
each — and the documented value (`Spec.interpRow`: records matched by field name, numbers by value, variants by index …)
of the `i`-th input record is exactly the struct whose `j`-th field is slot `i` of column `j`.

Covers every data type `build_builder` accepts, at any nesting — including Utf8View / BinaryView and
`Dictionary(integer, Utf8 | LargeUtf8)` — and every presentation of a value.  Hypotheses, all explicit:
  `hschema`  no `FixedSizeBinary(0)` (known finding).  (Map entries with exactly two children and integer dictionary
             keys are not hypotheses: `build_builder` refuses everything else — repo fixes 095456f, 7359431.)
  `hcov`     `coveredF`: a dictionary with an integer key type has a Utf8 / LargeUtf8 VALUE type (`build_builder` accepts
             any value type, e.g. `Dictionary(Int8, Date32)`; R1 covers all of them, the content statement R2 those
             whose value builder refuses strings — `coveredW`, Lemmas/C01NewShape.lean —, the physical half needs the
             string builders: the placeholder value `into_array` appends)
  `hsafe`    `Safe` (schema: no dictionary with non-nullable keys below a nullable struct / fixed-size list, no
             dictionary-keyed dictionary — `dict_placeholder_unstable`).  `C01_build_decode'` (Props/C01Obs.lean) is this
             theorem WITHOUT `hsafe`
  `hraw`     `structStreamsAlternate`: every raw `serialize_key`/`serialize_value` call stream inside the records
             alternates key, value, key, value … (decidable; `= !Spec.containsMalformed`).  Map columns refuse all
             other streams (`map_refuses_non_alternating`); struct positions ACCEPT them and the documentation gives
             them no meaning, so the exclusion is needed there (`struct_stream_needed`; what is stored instead:
             `struct_raw_stored`)
  `hnar`     only when some record contains a raw stream at all: every struct level of the schema (the root included)
             has fewer than `usize::MAX` fields (`narrowRoot`; the struct builder's "unknown key" sentinel — true of
             every Rust `Vec`, not enforced by the model's unbounded lists)
(No size hypothesis: the view builders refuse lengths and buffer offsets beyond `i32::MAX`, so a descriptor never
truncates — `viewPushValue_ok`, `view_value_exact`, `WFB_small`.) -/
theorem C01_build_decode (ext : Ext) (fields : List Field) (rows : List SVal) (arrs : List Arr)
    (hschema : ∀ f ∈ fields, Lemmas.C03.SchemaOKF f)
    (hcov : fields.all Build.coveredF = true)
    (hsafe : ∀ root0, newRoot fields = .ok root0 → Safe root0)
    (hraw : ∀ x ∈ rows, Build.structStreamsAlternate x = true)
    (hnar : (∀ x ∈ rows, Build.noRaw x = true) ∨ Build.narrowRoot fields = true)
    (h : toMarrow ext fields rows = .ok arrs) :
    arrs.length = fields.length ∧
    ∃ cols : List (String × List LVal),
      arrs.map decodeAll = cols.map (fun c => c.2.map .ok) ∧
      cols.map (·.1) = fields.map (·.name) ∧
      (∀ c ∈ cols, c.2.length = rows.length) ∧
      ∀ (i : Nat) (hi : i < rows.length),
        interpRow ext fields rows[i] = .ok (.struct (LFields.ofList (cols.map fun c => (c.1, c.2.getD i .null)))) := by
  suffices hcols : ∃ cols : List (String × List LVal),
      arrs.map decodeAll = cols.map (fun c => c.2.map .ok) ∧
      cols.map (·.1) = fields.map (·.name) ∧
      (∀ c ∈ cols, c.2.length = rows.length) ∧
      ∀ (i : Nat) (hi : i < rows.length),
        interpRow ext fields rows[i] = .ok (.struct (LFields.ofList (cols.map fun c => (c.1, c.2.getD i .null)))) by
    obtain ⟨cols, h1, h2, h3, h4⟩ := hcols
    refine ⟨?_, cols, h1, h2, h3, h4⟩
    have e1 := congrArg List.length h1
    have e2 := congrArg List.length h2
    simp only [List.length_map] at e1 e2
    omega

  obtain ⟨root, hrun, rest, hba⟩ := Props.C03.toMarrow_split ext fields rows arrs h
  have h0 : ∃ root0, newRoot fields = .ok root0 := by
    simp only [runRows] at hrun
    cases hr : newRoot fields with
    | error e => rw [hr] at hrun; cases hrun
    | ok r0 => exact ⟨r0, rfl⟩
  obtain ⟨root0, h0⟩ := h0
  have hs0 := hsafe root0 h0
  obtain ⟨hw, _, _, _⟩ := runRows_rows ext fields rows root0 root h0 hs0 hrun
  obtain ⟨hall, hcols, p, fs, cached, next, seen, rfl, hdec⟩ :=
    runRows_interp ext fields rows root0 root hcov h0 hs0 hraw hnar hrun
  have hfacts := Props.C03.root_facts ext fields rows _ hschema (Build.push_takeRest ext) hw
    (Lemmas.C03.WFB_StrictDict _ hw) hrun
  simp only [buildArrays, bind, Except.bind] at hba
  cases hfin : finishFields ext fs with
  | error e => rw [hfin] at hba; cases hba
  | ok afs =>
    rw [hfin] at hba
    simp only [pure, Except.pure, Except.ok.injEq, Prod.mk.injEq] at hba
    obtain ⟨rfl, _⟩ := hba
    have hd := Lemmas.C03.finishFields_decode ext fs afs
      (Lemmas.C03.WFL_WFBs fs _ (Lemmas.C03.WFB_struct hw).2) (Lemmas.C03.Faithful_struct hfacts.2.1) hfin
    refine ⟨decCols fs, ?_, ?_, ?_, ?_⟩
    · rw [List.map_map]
      have := Props.C03.ArrFields_toList_decode afs
      have e : (decodeAll ∘ fun (x : FieldMeta × Arr) => x.snd) = fun ma => decodeAll ma.snd := rfl
      rw [e, this, hd, List.map_map]
      rfl
    · -- names: from `BuiltFor`
      have hb := hfacts.1
      simp only [Lemmas.C03.BuiltFor] at hb
      obtain ⟨fields', hfe, _, hbl⟩ := hb
      simp only [DataType.struct.injEq] at hfe
      subst hfe
      exact decCols_names fs _ hbl
    · intro c hc
      exact hcols c.2 (by simp only [decRoot, List.mem_map]; exact ⟨c, hc, rfl⟩)
    · intro i hi
      obtain ⟨hl, hg⟩ := Props.C03.All2_get hall
      have h1 : i < (dec (B.struct p rows.length none fs cached next seen)).length := by rw [hl]; exact hi
      have := hg i h1 hi
      rw [this]
      congr 1
      simp only [hdec, List.getElem_map, List.getElem_range, Build.rowAt]
where
  decCols_names : ∀ (fs : BL) (fl : List Field), Lemmas.C03.BuiltForL (Fields.ofList fl) fs →
      (decCols fs).map (·.1) = fl.map (·.name)
    | .nil, [], _ => rfl
    | .nil, _ :: _, h => by simp [Fields.ofList, Lemmas.C03.BuiltForL] at h
    | .cons _ _ _, [], h => by simp [Fields.ofList, Lemmas.C03.BuiltForL] at h
    | .cons b m r, f :: fr, h => by
      simp only [Fields.ofList, Lemmas.C03.BuiltForL] at h
      obtain ⟨rfl, _, hr⟩ := h
      simp only [decCols, List.map_cons, decCols_names r fr hr]
      cases f; rfl

/-! ### a worked instance: every hypothesis of `C01_build_decode` discharged on a real run

Schema `{v: Utf8View?, d: Dictionary(UInt8, Utf8)}`, two records: the first with a 28-byte string (stored out of line:
descriptor + buffer) and the dictionary value "x", the second without `v` (null) and the same dictionary value (the
key 0 is reused). -/

def exFields : List Field := [.mk "v" .utf8View true [], .mk "d" (.dictionary .uint8 .utf8) false []]
def exRows : List SVal :=
  [.record "R" (.cons "v" 0 (.str "a string of 27 bytes, extern") (.cons "d" 1 (.str "x") .nil)),
   .record "R" (.cons "d" 1 (.str "x") .nil)]
def exRoot : B :=
  .struct "$" 2 none
    (.cons (.bytesView "$.v" .utf8View (some [true, false]) [8391086131705282588, 0]
        [97, 32, 115, 116, 114, 105, 110, 103, 32, 111, 102, 32, 50, 55, 32, 98, 121, 116, 101, 115, 44, 32, 101, 120,
         116, 101, 114, 110]) ⟨"v", true, []⟩
      (.cons (.dictionary "$.d" (.leaf "$.d.key" (.int .u8) none [0, 0]) (.bytes "$.d.value" .utf8 none [0, 1] [120]) ["x"])
        ⟨"d", false, []⟩ .nil))
    [some ("v", 0), some ("d", 1)] 2 [false, true]

theorem exRun : runRows {} exFields exRows = .ok exRoot := by decide +kernel

/-- serialization succeeds … -/
theorem exOk : (toMarrow {} exFields exRows).isOk = true := by decide +kernel

/-- … and the theorem applies with every hypothesis discharged -/
example : ∀ arrs, toMarrow {} exFields exRows = .ok arrs → arrs.length = exFields.length ∧
    ∃ cols : List (String × List LVal), arrs.map decodeAll = cols.map (fun c => c.2.map .ok) ∧
      cols.map (·.1) = exFields.map (·.name) ∧ (∀ c ∈ cols, c.2.length = exRows.length) ∧
      ∀ (i : Nat) (hi : i < exRows.length), interpRow {} exFields exRows[i] =
        .ok (.struct (LFields.ofList (cols.map fun c => (c.1, c.2.getD i .null)))) := by
  intro arrs h
  refine C01_build_decode {} exFields exRows arrs ?_ (by decide) ?_ (by decide) (Or.inr (by decide +kernel)) h
  · simp [exFields, Lemmas.C03.SchemaOKF, Lemmas.C03.SchemaOK]
  · intro root0 h0
    rw [show newRoot exFields = .ok (.struct "$" 0 none
      (.cons (.bytesView "$.v" .utf8View (some []) [] []) ⟨"v", true, []⟩
        (.cons (.dictionary "$.d" (.leaf "$.d.key" (.int .u8) none []) (.bytes "$.d.value" .utf8 none [0] []) [])
          ⟨"d", false, []⟩ .nil)) [none, none] 0 [false, false]) from by decide] at h0
    cases h0
    simp [Safe, SafeL, B.isDict]

/-- what the two columns of the instance decode to: the long string and a null; "x" twice through the key 0 -/
example : decRoot exRoot =
    [[.str (strBytes "a string of 27 bytes, extern"), .null], [.str [120], .str [120]]] := by decide +kernel

end SaModel.Props.C01
