import SaModel.Lemmas.C01CompSmall
import SaModel.Props.C01Refine
/-
C01, completeness of the builders with respect to the documented mapping (the converse of R2 `push_interp`).

`push_complete`: whenever `Spec.interpDT` accepts a value at the builder's field, `push` succeeds — for EVERY builder
family (null, leaf kinds, bytes, views, fixed-size binary, list / large list, fixed-size list, map, struct under the
three record disciplines, dictionary, union) and all serde value kinds, at any nesting — under

* `NoCap ext b x` (`Lemmas/C01CompDefs.lean`): `vsize ext x ≤ room b`, the value fits into the head room of the
  builder, so that no CAPACITY check can refuse it (`increment_last` beyond `i32::MAX`, view buffers / lengths beyond
  `i32::MAX`, dictionary keys beyond the key type).  `small_NoCap` gives the closed form
  `room b = min (2^31 - 1 - used b) (keysRoom b)`;
* `total dt n md`: the explicit NON-capacity exclusion found by this proof (see `default_refused` below): a nullable
  struct / fixed-size list must have children that support `serialize_default`, and unions have ≤ 128 variants;
* the hypotheses of R2: `WFB`, `Safe`, `Shape`, `noRaw`.

Corollaries: `push_err_iff`, `push_err_sound` (the error-position refinement C18 needs: an error is never spurious),
`runRows_complete`, `toMarrow_complete_partial`.
-/
namespace SaModel.Props.C01
open SaModel SaModel.Build SaModel.Spec

/-- **Completeness of `push`**: a representable value that fits is accepted; the head room shrinks by at most its size -/
theorem push_complete (ext : Ext) (x : SVal) (b : B) (dt : DataType) (n : Bool) (md : Metadata) (lv : LVal)
    (hi : interpDT ext dt n md x = .ok lv) (hwf : WFB b) (hsafe : Safe b) (hshape : Shape b dt n md)
    (htot : total dt n md = true) (hraw : noRaw x = true) (hcap : NoCap ext b x) :
    ∃ b', push ext b x = .ok b' ∧ room b ≤ room b' + vsize ext x :=
  Build.push_complete ext x hraw b dt n md lv ⟨hwf, hsafe, hshape, htot⟩ hcap hi

/-- the capacity hypothesis in closed form: all offsets / view buffers plus the value stay within `i32::MAX`, and
every dictionary has enough free keys -/
theorem small_NoCap (ext : Ext) (b : B) (x : SVal) (h1 : used b + vsize ext x ≤ 2147483647)
    (h2 : vsize ext x ≤ keysRoom b) : NoCap ext b x := Build.small_NoCap ext b x h1 h2

/-- the error-position refinement (C18): under `NoCap`, an error of `push` is never spurious — the documented mapping
is undefined at the value too -/
theorem push_err_sound (ext : Ext) (x : SVal) (b : B) (dt : DataType) (n : Bool) (md : Metadata) (e : Fail)
    (h : push ext b x = .error e) (hwf : WFB b) (hsafe : Safe b) (hshape : Shape b dt n md)
    (htot : total dt n md = true) (hraw : noRaw x = true) (hcap : NoCap ext b x) :
    ∃ e', interpDT ext dt n md x = .error e' := by
  cases hi : interpDT ext dt n md x with
  | error e' => exact ⟨e', rfl⟩
  | ok lv =>
    obtain ⟨b', hb', _⟩ := push_complete ext x b dt n md lv hi hwf hsafe hshape htot hraw hcap
    rw [hb'] at h; cases h

/-- **error IFF not representable** (under the capacity and schema hypotheses) -/
theorem push_err_iff (ext : Ext) (x : SVal) (b : B) (dt : DataType) (n : Bool) (md : Metadata)
    (hwf : WFB b) (hsafe : Safe b) (hshape : Shape b dt n md) (htot : total dt n md = true) (hraw : noRaw x = true)
    (hcap : NoCap ext b x) :
    (∃ e, push ext b x = .error e) ↔ (∃ e, interpDT ext dt n md x = .error e) := by
  constructor
  · rintro ⟨e, he⟩
    exact push_err_sound ext x b dt n md e he hwf hsafe hshape htot hraw hcap
  · rintro ⟨e, he⟩
    cases hp : push ext b x with
    | error e' => exact ⟨e', rfl⟩
    | ok b' =>
      obtain ⟨_, _, _, lv, _, hlv⟩ := push_interp ext x b b' dt n md hraw hwf hsafe hshape hp
      rw [he] at hlv; cases hlv

/-- all rows representable + capacity ⇒ the fold over the rows succeeds -/
theorem foldl_push_complete (ext : Ext) (dt : DataType) (n : Bool) (md : Metadata) : ∀ (rows : List SVal) (root : B),
    WFB root → Safe root → Shape root dt n md → total dt n md = true →
    (∀ r ∈ rows, noRaw r = true ∧ ∃ lv, interpDT ext dt n md r = .ok lv) →
    (rows.map (vsize ext)).sum ≤ room root →
    ∃ root', rows.foldlM (push ext) root = .ok root' ∧ room root ≤ room root' + (rows.map (vsize ext)).sum
  | [], root, _, _, _, _, _, _ => ⟨root, rfl, by simp⟩
  | r :: rest, root, hwf, hsafe, hshape, htot, hrows, hcap => by
    obtain ⟨hraw, lv, hlv⟩ := hrows r (by simp)
    simp only [List.map_cons, List.sum_cons] at hcap ⊢
    obtain ⟨root1, h1, hroom1⟩ := push_complete ext r root dt n md lv hlv hwf hsafe hshape htot hraw
      (show vsize ext r ≤ room root by omega)
    obtain ⟨hw1, hs1, hsh1, _⟩ := push_interp ext r root root1 dt n md hraw hwf hsafe hshape h1
    obtain ⟨root', h2, hroom2⟩ := foldl_push_complete ext dt n md rest root1 hw1 hs1 hsh1 htot
      (fun r' hr' => hrows r' (by simp [hr'])) (by omega)
    refine ⟨root', ?_, by omega⟩
    rw [List.foldlM_cons, h1]
    exact h2

/-- **`runRows` is complete**: if every record is representable under the root schema and the records fit into the
fresh root's head room, all rows are accepted -/
theorem runRows_complete (ext : Ext) (fields : List Field) (rows : List SVal) (root0 : B)
    (hc : fields.all coveredF = true) (h0 : newRoot fields = .ok root0) (hsafe : Safe root0)
    (htot : totalFs (Fields.ofList fields) = true)
    (hrows : ∀ r ∈ rows, noRaw r = true ∧ ∃ lv, interpRow ext fields r = .ok lv)
    (hcap : (rows.map (vsize ext)).sum ≤ room root0) : ∃ root, runRows ext fields rows = .ok root := by
  obtain ⟨hw0, _, _⟩ := newRoot_fresh h0
  obtain ⟨root, h, _⟩ := foldl_push_complete ext (.struct (Fields.ofList fields)) false [] rows root0 hw0 hsafe
    (newRoot_shape hc h0) (by simp [total, htot]) hrows hcap
  exact ⟨root, by simp only [runRows, h0]; exact h⟩

/-- `toMarrow` under the same hypotheses: every row is accepted; what remains is `build_arrays`.
PARTIAL — missing: totality of `finish` (`into_array`) on well-formed states (it can still refuse: the `""` value a
non-nullable empty dictionary appends, union type ids beyond `i8`), so the conclusion stops at `buildArrays`. -/
theorem toMarrow_complete_partial (ext : Ext) (fields : List Field) (rows : List SVal) (root0 : B)
    (hc : fields.all coveredF = true) (h0 : newRoot fields = .ok root0) (hsafe : Safe root0)
    (htot : totalFs (Fields.ofList fields) = true)
    (hrows : ∀ r ∈ rows, noRaw r = true ∧ ∃ lv, interpRow ext fields r = .ok lv)
    (hcap : (rows.map (vsize ext)).sum ≤ room root0) :
    ∃ root, runRows ext fields rows = .ok root ∧
      toMarrow ext fields rows = (do let (arrs, _) ← buildArrays ext root; pure arrs) := by
  obtain ⟨root, h⟩ := runRows_complete ext fields rows root0 hc h0 hsafe htot hrows hcap
  refine ⟨root, h, ?_⟩
  simp only [runRows, h0] at h
  have h : rows.foldlM (push ext) root0 = .ok root := h
  simp only [toMarrow, h0, h, bind, Except.bind]

/-! ### non-vacuity -/

/-- the hypotheses of `push_complete` on the nested state of `Props/C01Refine` (nullable list of i32, one row) -/
example : interpDT {} (.list (.mk "element" .int32 false [])) true []
      (.seq (.cons (.int .i8 5) (.cons (.int .i64 6) .nil))) = .ok (.list (.cons (.int 5) (.cons (.int 6) .nil))) ∧
    total (.list (.mk "element" .int32 false [])) true [] = true ∧
    noRaw (.seq (.cons (.int .i8 5) (.cons (.int .i64 6) .nil))) = true ∧
    NoCap {} exList (.seq (.cons (.int .i8 5) (.cons (.int .i64 6) .nil))) :=
  ⟨by decide +kernel, by decide, by decide, by unfold NoCap; decide +kernel⟩

/-- the capacity hypothesis is sharp for dictionaries: `Dictionary(UInt8, Utf8)` with one value has 255 free keys -/
example : room exDict = 255 ∧ NoCap {} exDict (.str "y") ∧ used exDict = 1 ∧ keysRoom exDict = 255 :=
  ⟨by decide +kernel, by unfold NoCap; decide +kernel, by decide +kernel, by decide +kernel⟩

/-- … and a full `Dictionary(Int8, Utf8)` (128 values) has no room: the 129th distinct string is refused although the
mapping represents it — a capacity refusal, excluded by `NoCap` -/
example : keyRoom (.leaf "k" (.int .i8) none []) 128 = 0 := by decide

/-- `runRows_complete`: hypotheses on a two-column schema, rows in two presentations -/
example : [Field.mk "a" .int32 false [], Field.mk "b" .utf8 true []].all coveredF = true ∧
    totalFs (Fields.ofList [Field.mk "a" .int32 false [], Field.mk "b" .utf8 true []]) = true ∧
    (interpRow {} [.mk "a" .int32 false [], .mk "b" .utf8 true []]
      (.record "R" (.cons "b" 1 .none (.cons "a" 0 (.int .i32 2) .nil)))).isOk = true :=
  ⟨by decide, by decide, by decide +kernel⟩

/-! ### the non-capacity exclusion is needed (finding) -/

/-- `s: Struct{u: Null [UnknownVariant]}?` — what tracing yields for an optional struct around an enum position whose
variant was never seen (here directly; inside a union at variant 0 it is the same call) -/
def exUnkDT : DataType := .struct (.cons (.mk "u" .null true [(STRATEGY_KEY, "UnknownVariant")]) .nil)

def exUnk : B := .struct "$.s" 0 (some []) (.cons (.unknownVariant "$.s.u") ⟨"u", true, [(STRATEGY_KEY, "UnknownVariant")]⟩ .nil)
  [none] 0 [false]

/-- **Finding** (`default_refused`): the documented mapping sends `None` at a nullable struct to `null`, but the
builder refuses it when a child cannot take `serialize_default` (an `UnknownVariant` placeholder; likewise the first
variant of a union, or a union without variants): `StructBuilder::serialize_none` calls `serialize_default` on every
child, `UnknownVariantBuilder::serialize_default` fails.  Not a capacity condition: `total` is false exactly here. -/
theorem default_refused :
    newDT "$.s" exUnkDT true [] = .ok exUnk ∧ WFB exUnk ∧ Shape exUnk exUnkDT true [] ∧ NoCap {} exUnk .none ∧
    interpDT {} exUnkDT true [] .none = .ok .null ∧ (push {} exUnk .none).isOk = false ∧
    total exUnkDT true [] = false := by
  refine ⟨by decide +kernel, ?_, ?_, by unfold NoCap; decide +kernel, by decide +kernel, by decide +kernel, by decide +kernel⟩
  · simp only [exUnk, WFB, WFL]
    refine ⟨by intro bits hb; cases hb; rfl, ⟨trivial, rfl, trivial⟩, rfl, by decide, rfl, ?_⟩
    intro j key hj
    cases j with
    | zero => simp at hj
    | succ j => simp at hj
  · simp only [exUnk, exUnkDT, Shape]
    exact ⟨rfl, _, rfl, rfl, rfl, ⟨rfl, by decide⟩, trivial⟩

end SaModel.Props.C01
