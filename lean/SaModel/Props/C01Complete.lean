import SaModel.Lemmas.C01CompSmall
import SaModel.Lemmas.C03Total
import SaModel.Props.C01
/-
C01, completeness of the builders with respect to the documented mapping (the converse of R2 `push_interp`).

`push_complete`: whenever `Spec.interpDT` accepts a value at the builder's field, `push` succeeds — for EVERY builder
family (null, leaf kinds, bytes, views, fixed-size binary, list / large list, fixed-size list, map, struct under the
three record disciplines, dictionary, union) and all serde value kinds, at any nesting — under

* `NoCap ext b x` (`Lemmas/C01CompDefs.lean`): `vsize ext x ≤ room b`, the value fits into the head room of the
  builder, so that no CAPACITY check can refuse it (`increment_last` beyond `i32::MAX`, view buffers / lengths beyond
  `i32::MAX`, dictionary keys beyond the key type, and — repo fix 217d612 — the checked per-variant row counter
  `current_offset[v] + 1` of a union beyond `i32::MAX`).  `small_NoCap` gives the closed form
  `room b = min (2^31 - 1 - used b) (keysRoom b)`;
* `total dt n md`: the explicit NON-capacity exclusion found by this proof (see `default_refused` below): a nullable
  struct / fixed-size list must have children that support `serialize_default` (a union: SOME variant is not an
  `UnknownVariant` placeholder and the first such supports it — repo fix 837fa53, `default_first_real`; before the
  fix it had to be variant 0), and unions have ≤ 128 variants.  With repo fix 217d612 a default is one counted ROW of
  that variant, and a `None` of a `FixedSizeList(_, m)` (size 1) sends `m` of them: `serialize_default` is supported by
  a fixed-size list of size `m > 1` only when no union is reachable by defaults below it (`noDefUF`; see
  `default_fsl_union_refused`);
* the hypotheses of R2: `WFB`, `Safe`, `Shape`, `noRaw`.

Corollaries: `push_err_iff`, `push_err_sound` (the error-position refinement C18 needs: an error is never spurious),
`runRows_complete`, `finish_total`, `toMarrow_complete`, `toMarrow_complete_decode`.
-/
namespace SaModel.Props.C01
open SaModel SaModel.Build SaModel.Spec

/-- **Completeness of `push`**: a representable value that fits is accepted; the head room shrinks by at most its size -/
theorem push_complete (ext : Ext) (x : SVal) (b : B) (dt : DataType) (n : Bool) (md : Metadata) (lv : LVal)
    (hi : interpDT ext dt n md x = .ok lv) (hwf : WFB b) (hsafe : Safe b) (hshape : Shape b dt n md)
    (htot : total dt n md = true) (hraw : noRaw x = true) (hcap : NoCap ext b x) :
    ∃ b', push ext b x = .ok b' ∧ room b ≤ room b' + vsize ext x :=
  Build.push_complete ext x hraw b dt n md lv ⟨hwf, hsafe, hshape, htot⟩ hcap hi

/-- the capacity hypothesis in closed form: all offsets / view buffers plus the value stay within `i32::MAX`, and
every dictionary has enough free keys -/
theorem small_NoCap (ext : Ext) (b : B) (x : SVal) (h1 : used b + vsize ext x ≤ 2147483647)
    (h2 : vsize ext x ≤ keysRoom b) : NoCap ext b x := Build.small_NoCap ext b x h1 h2

/-- the error-position refinement (C18): under `NoCap`, an error of `push` is never spurious — the documented mapping
is undefined at the value too -/
theorem push_err_sound (ext : Ext) (x : SVal) (b : B) (dt : DataType) (n : Bool) (md : Metadata) (e : Fail)
    (h : push ext b x = .error e) (hwf : WFB b) (hsafe : Safe b) (hshape : Shape b dt n md)
    (htot : total dt n md = true) (hraw : noRaw x = true) (hcap : NoCap ext b x) :
    ∃ e', interpDT ext dt n md x = .error e' := by
  cases hi : interpDT ext dt n md x with
  | error e' => exact ⟨e', rfl⟩
  | ok lv =>
    obtain ⟨b', hb', _⟩ := push_complete ext x b dt n md lv hi hwf hsafe hshape htot hraw hcap
    rw [hb'] at h; cases h

/-- **error IFF not representable** (under the capacity and schema hypotheses) -/
theorem push_err_iff (ext : Ext) (x : SVal) (b : B) (dt : DataType) (n : Bool) (md : Metadata)
    (hwf : WFB b) (hsafe : Safe b) (hshape : Shape b dt n md) (htot : total dt n md = true) (hraw : noRaw x = true)
    (hcap : NoCap ext b x) :
    (∃ e, push ext b x = .error e) ↔ (∃ e, interpDT ext dt n md x = .error e) := by
  constructor
  · rintro ⟨e, he⟩
    exact push_err_sound ext x b dt n md e he hwf hsafe hshape htot hraw hcap
  · rintro ⟨e, he⟩
    cases hp : push ext b x with
    | error e' => exact ⟨e', rfl⟩
    | ok b' =>
      obtain ⟨_, _, _, lv, _, hlv⟩ := push_interp ext x b b' dt n md (noRaw_ssa x hraw) (Or.inl hraw) hwf hsafe hshape hp
      rw [he] at hlv; cases hlv

/-- all rows representable + capacity ⇒ the fold over the rows succeeds -/
theorem foldl_push_complete (ext : Ext) (dt : DataType) (n : Bool) (md : Metadata) : ∀ (rows : List SVal) (root : B),
    WFB root → Safe root → Shape root dt n md → total dt n md = true →
    (∀ r ∈ rows, noRaw r = true ∧ ∃ lv, interpDT ext dt n md r = .ok lv) →
    (rows.map (vsize ext)).sum ≤ room root →
    ∃ root', rows.foldlM (push ext) root = .ok root' ∧ room root ≤ room root' + (rows.map (vsize ext)).sum
  | [], root, _, _, _, _, _, _ => ⟨root, rfl, by simp⟩
  | r :: rest, root, hwf, hsafe, hshape, htot, hrows, hcap => by
    obtain ⟨hraw, lv, hlv⟩ := hrows r (by simp)
    simp only [List.map_cons, List.sum_cons] at hcap ⊢
    obtain ⟨root1, h1, hroom1⟩ := push_complete ext r root dt n md lv hlv hwf hsafe hshape htot hraw
      (show vsize ext r ≤ room root by omega)
    obtain ⟨hw1, hs1, hsh1, _⟩ := push_interp ext r root root1 dt n md (noRaw_ssa r hraw) (Or.inl hraw) hwf hsafe hshape h1
    obtain ⟨root', h2, hroom2⟩ := foldl_push_complete ext dt n md rest root1 hw1 hs1 hsh1 htot
      (fun r' hr' => hrows r' (by simp [hr'])) (by omega)
    refine ⟨root', ?_, by omega⟩
    rw [List.foldlM_cons, h1]
    exact h2

/-- **`runRows` is complete**: if every record is representable under the root schema and the records fit into the
fresh root's head room, all rows are accepted -/
theorem runRows_complete (ext : Ext) (fields : List Field) (rows : List SVal) (root0 : B)
    (hc : fields.all coveredF = true) (h0 : newRoot fields = .ok root0) (hsafe : Safe root0)
    (htot : totalFs (Fields.ofList fields) = true)
    (hrows : ∀ r ∈ rows, noRaw r = true ∧ ∃ lv, interpRow ext fields r = .ok lv)
    (hcap : (rows.map (vsize ext)).sum ≤ room root0) : ∃ root, runRows ext fields rows = .ok root := by
  obtain ⟨hw0, _, _⟩ := newRoot_fresh h0
  obtain ⟨root, h, _⟩ := foldl_push_complete ext (.struct (Fields.ofList fields)) false [] rows root0 hw0 hsafe
    (newRoot_shape hc h0) (by simp [total, htot]) hrows hcap
  exact ⟨root, by simp only [runRows, h0]; exact h⟩

/-- **`into_array` never fails on a well-formed state** (`Lemmas/C03Total.lean`): its only failure sites are checked
conversions — `n: usize → i32` of the fixed-size builders, the variant index `usize → i8` of a union, and the
placeholder value `""` a non-nullable dictionary appends when it holds keys but no value.  `FinB b` says that none of them
can fire: sizes ≤ `i32::MAX`, at most 128 variants, dictionary keys stored by an integer leaf builder (then the strict
key clause of `WFB` makes the placeholder branch unreachable).  `FinB` only depends on the shape (`FinB_takeRest`) and
holds of every builder `build_builder` creates for a well-typed data type (`FinB_of_builtFor`, `typedDT`). -/
theorem finish_total (ext : Ext) (b : B) (hw : WFB b) (hf : Lemmas.C03.FinB b) : ∃ a, finish ext b = .ok a :=
  Lemmas.C03.finish_total ext b hw hf

/-- the shape condition from the schema: every builder `build_builder` creates for a data type whose sizes are `i32`
values and whose union type ids are `i8` values (true of every marrow `DataType` by type) is `FinB` -/
theorem FinB_of_builtFor (b : B) (dt : DataType) (nl : Bool) (hb : Lemmas.C03.BuiltFor dt nl b)
    (ht : Lemmas.C03.typedDT dt = true) : Lemmas.C03.FinB b :=
  Lemmas.C03.FinB_of_builtFor b dt nl hb ht

/-- **`to_marrow` is complete**: if every record is representable under the root schema (`interpRow` is defined) and the
records fit into the fresh root's head room, `to_marrow` succeeds — every row is accepted (`runRows_complete`) and
`build_arrays` cannot fail (`finish_total`).  `htyped` is the typing invariant of `DataType` (sizes are `i32`, union
type ids `i8` values; the model's `DataType` carries unbounded integers). -/
theorem toMarrow_complete (ext : Ext) (fields : List Field) (rows : List SVal) (root0 : B)
    (hc : fields.all coveredF = true) (h0 : newRoot fields = .ok root0) (hsafe : Safe root0)
    (htot : totalFs (Fields.ofList fields) = true)
    (htyped : Lemmas.C03.typedFs (Fields.ofList fields) = true)
    (hrows : ∀ r ∈ rows, noRaw r = true ∧ ∃ lv, interpRow ext fields r = .ok lv)
    (hcap : (rows.map (vsize ext)).sum ≤ room root0) : ∃ arrs, toMarrow ext fields rows = .ok arrs := by
  obtain ⟨root, hrun⟩ := runRows_complete ext fields rows root0 hc h0 hsafe htot hrows hcap
  have hraw : ∀ x ∈ rows, noRaw x = true := fun x hx => (hrows x hx).1
  obtain ⟨hw, _, _, _⟩ := runRows_rows ext fields rows root0 root h0 hsafe hrun
  have hb := Lemmas.C03.runRows_builtFor ext fields rows root (Build.push_takeRest ext) hrun
  have hf := Lemmas.C03.FinB_of_builtFor root _ _ hb (by simpa [Lemmas.C03.typedDT] using htyped)
  obtain ⟨_, _, p, fs, cached, next, seen, hroot, _⟩ := runRows_interp ext fields rows root0 root hc h0 hsafe (fun x hx => noRaw_ssa x (hraw x hx)) (Or.inl hraw) hrun
  obtain ⟨⟨arrs, rest⟩, hba⟩ := Lemmas.C03.buildArrays_total ext root hw hf ⟨_, _, _, _, _, _, _, hroot⟩
  refine ⟨arrs, ?_⟩
  rw [Props.C03.toMarrow_eq, hrun]
  simp only [bind, Except.bind, hba, pure, Except.pure]

/-- … and then the arrays are what C01 says: they decode to exactly `interpRow` of the records (`C01_build_decode`) -/
theorem toMarrow_complete_decode (ext : Ext) (fields : List Field) (rows : List SVal) (root0 : B)
    (hschema : ∀ f ∈ fields, Lemmas.C03.SchemaOKF f)
    (hc : fields.all coveredF = true) (h0 : newRoot fields = .ok root0) (hsafe : Safe root0)
    (htot : totalFs (Fields.ofList fields) = true)
    (htyped : Lemmas.C03.typedFs (Fields.ofList fields) = true)
    (hrows : ∀ r ∈ rows, noRaw r = true ∧ ∃ lv, interpRow ext fields r = .ok lv)
    (hcap : (rows.map (vsize ext)).sum ≤ room root0) :
    ∃ arrs, toMarrow ext fields rows = .ok arrs ∧ arrs.length = fields.length ∧
      ∃ cols : List (String × List LVal),
        arrs.map decodeAll = cols.map (fun c => c.2.map .ok) ∧ cols.map (·.1) = fields.map (·.name) ∧
        (∀ c ∈ cols, c.2.length = rows.length) ∧
        ∀ (i : Nat) (hi : i < rows.length),
          interpRow ext fields rows[i] = .ok (.struct (LFields.ofList (cols.map fun c => (c.1, c.2.getD i .null)))) := by
  obtain ⟨arrs, h⟩ := toMarrow_complete ext fields rows root0 hc h0 hsafe htot htyped hrows hcap
  exact ⟨arrs, h, C01_build_decode ext fields rows arrs hschema hc
    (fun r hr => by rw [h0] at hr; cases hr; exact hsafe) (fun x hx => noRaw_ssa x (hrows x hx).1)
    (Or.inl fun x hx => (hrows x hx).1) h⟩

/-! ### non-vacuity -/

/-- the hypotheses of `push_complete` on the nested state of `Props/C01Refine` (nullable list of i32, one row) -/
example : interpDT {} (.list (.mk "element" .int32 false [])) true []
      (.seq (.cons (.int .i8 5) (.cons (.int .i64 6) .nil))) = .ok (.list (.cons (.int 5) (.cons (.int 6) .nil))) ∧
    total (.list (.mk "element" .int32 false [])) true [] = true ∧
    noRaw (.seq (.cons (.int .i8 5) (.cons (.int .i64 6) .nil))) = true ∧
    NoCap {} exList (.seq (.cons (.int .i8 5) (.cons (.int .i64 6) .nil))) :=
  ⟨by decide +kernel, by decide, by decide, by unfold NoCap; decide +kernel⟩

/-- the capacity hypothesis is sharp for dictionaries: `Dictionary(UInt8, Utf8)` with one value has 255 free keys -/
example : room exDict = 255 ∧ NoCap {} exDict (.str "y") ∧ used exDict = 1 ∧ keysRoom exDict = 255 :=
  ⟨by decide +kernel, by unfold NoCap; decide +kernel, by decide +kernel, by decide +kernel⟩

/-- … and a full `Dictionary(Int8, Utf8)` (128 values) has no room: the 129th distinct string is refused although the
mapping represents it — a capacity refusal, excluded by `NoCap` -/
example : keyRoom (.leaf "k" (.int .i8) none []) 128 = 0 := by decide

/-- `runRows_complete`: hypotheses on a two-column schema, rows in two presentations -/
example : [Field.mk "a" .int32 false [], Field.mk "b" .utf8 true []].all coveredF = true ∧
    totalFs (Fields.ofList [Field.mk "a" .int32 false [], Field.mk "b" .utf8 true []]) = true ∧
    (interpRow {} [.mk "a" .int32 false [], .mk "b" .utf8 true []]
      (.record "R" (.cons "b" 1 .none (.cons "a" 0 (.int .i32 2) .nil)))).isOk = true :=
  ⟨by decide, by decide, by decide +kernel⟩

theorem ok_of_isOk {α} {r : R α} (h : r.isOk = true) : ∃ v, r = .ok v := by
  cases r with
  | ok v => exact ⟨v, rfl⟩
  | error e => cases h

/-- `toMarrow_complete`: every hypothesis discharged on the two-column schema with two records in two presentations;
`to_marrow` succeeds by the theorem -/
example : ∃ arrs, toMarrow {} [Field.mk "a" .int32 false [], Field.mk "b" .utf8 true []]
    [.record "R" (.cons "b" 1 .none (.cons "a" 0 (.int .i32 2) .nil)),
     .map (.cons (.str "a") (.int .u8 7) (.cons (.str "b") (.str "x") .nil))] = .ok arrs :=
  toMarrow_complete {} _ _ _ (by decide) (show newRoot _ = .ok (.struct "$" 0 none
      (.cons (.leaf "$.a" (.int .i32) none []) ⟨"a", false, []⟩
        (.cons (.bytes "$.b" .utf8 (some []) [0] []) ⟨"b", true, []⟩ .nil)) [none, none] 0 [false, false]) from by decide)
    (by simp [Safe, SafeL]) (by decide) (by decide)
    (by
      intro r hr
      simp only [List.mem_cons, List.not_mem_nil, or_false] at hr
      rcases hr with rfl | rfl
      · exact ⟨by decide, ok_of_isOk (by decide +kernel)⟩
      · exact ⟨by decide, ok_of_isOk (by decide +kernel)⟩)
    (by decide +kernel)

/-- non-vacuity of `finish_total` beyond leaves: a non-nullable `Dictionary(UInt8, Utf8)` builder holding the keys
`[0, 0]` and one value is `WFB` and `FinB`; `into_array` takes the ordinary branch -/
example : Lemmas.C03.FinB exDict ∧ (finish {} exDict).isOk = true := ⟨by simp [exDict, Lemmas.C03.FinB, Lemmas.C03.isIntLeaf], by decide +kernel⟩

/-- `typedDT` is what excludes the model-only failure of `into_array`: a `FixedSizeBinary(2^31)` builder (no marrow
`DataType` has that size) is well formed, but `into_array` refuses the conversion to `i32` -/
example : WFB (.fixedSizeBinary "$.a" 2147483648 0 none [] 0) ∧
    (finish {} (.fixedSizeBinary "$.a" 2147483648 0 none [] 0)).isOk = false ∧
    Lemmas.C03.typedDT (.fixedSizeBinary 2147483648) = false :=
  ⟨by simp [WFB, VLen], by decide, by decide⟩

/-! ### the non-capacity exclusion is needed (finding) -/

/-- `s: Struct{u: Null [UnknownVariant]}?` — what tracing yields for an optional struct around an enum position whose
variant was never seen (here directly; inside a union at variant 0 it is the same call) -/
def exUnkDT : DataType := .struct (.cons (.mk "u" .null true [(STRATEGY_KEY, "UnknownVariant")]) .nil)

def exUnk : B := .struct "$.s" 0 (some []) (.cons (.unknownVariant "$.s.u") ⟨"u", true, [(STRATEGY_KEY, "UnknownVariant")]⟩ .nil)
  [none] 0 [false]

/-- **`total` is needed** (`default_refused`): the documented mapping sends `None` at a nullable struct to `null`, but
the builder refuses it when a child cannot take `serialize_default` (an `UnknownVariant` placeholder standing directly
below the struct, a union without variants or with placeholder variants only): `StructBuilder::serialize_none` calls
`serialize_default` on every child, `UnknownVariantBuilder::serialize_default` fails.  Not a capacity condition:
`total` is false exactly here.  Tracing never yields these schemas (placeholders are union children beside at
least one seen variant); the case tracing DOES yield — a union whose variant 0 is a placeholder — was the defect
`C06-unseen-first-variant-default`, repaired by repo fix 837fa53: see `default_first_real` /
`default_variant0_pinned` below. -/
theorem default_refused :
    newDT "$.s" exUnkDT true [] = .ok exUnk ∧ WFB exUnk ∧ Shape exUnk exUnkDT true [] ∧ NoCap {} exUnk .none ∧
    interpDT {} exUnkDT true [] .none = .ok .null ∧ (push {} exUnk .none).isOk = false ∧
    total exUnkDT true [] = false := by
  refine ⟨by decide +kernel, ?_, ?_, by unfold NoCap; decide +kernel, by decide +kernel, by decide +kernel, by decide +kernel⟩
  · simp only [exUnk, WFB, WFL]
    refine ⟨by intro bits hb; cases hb; rfl, ⟨trivial, rfl, trivial⟩, rfl, by decide, rfl, ?_⟩
    intro j key hj
    cases j with
    | zero => simp at hj
    | succ j => simp at hj
  · simp only [exUnk, exUnkDT, Shape]
    exact ⟨rfl, _, rfl, rfl, rfl, ⟨rfl, by decide⟩, trivial⟩

/-! ### the repaired defect `C06-unseen-first-variant-default` (repo fix 837fa53) -/

/-- `s: Struct{e: Union[0: A = Null [UnknownVariant], 1: B = Null]}?` — what tracing yields for an optional struct
around an enum position of which only the SECOND variant was seen
(`from_samples([Row{s: Some(S{e: E::B})}, Row{s: None}])`) -/
def exUnionDT : DataType := .struct (.cons (.mk "e" (.union
  (.cons 0 (.mk "A" .null true [(STRATEGY_KEY, "UnknownVariant")]) (.cons 1 (.mk "B" .null true []) .nil)) .dense) false []) .nil)

def exUnionFs : BL :=
  .cons (.unknownVariant "$.s.e.A") ⟨"A", true, [(STRATEGY_KEY, "UnknownVariant")]⟩ (.cons (.null "$.s.e.B" 0) ⟨"B", true, []⟩ .nil)

def exUnion : B := .struct "$.s" 0 (some []) (.cons (.union "$.s.e" exUnionFs [] [] [0, 0]) ⟨"e", false, []⟩ .nil) [none] 0 [false]

/-- **Repaired** (`UnionBuilder::serialize_default` uses the first variant that is not a placeholder): the schema is
inside `total`, and the `None` the documented mapping sends to `null` is accepted — the placeholder row of the
union goes to variant 1 (type id 1, dense offset 0). -/
theorem default_first_real :
    newDT "$.s" exUnionDT true [] = .ok exUnion ∧ total exUnionDT true [] = true ∧
    interpDT {} exUnionDT true [] .none = .ok .null ∧
    push {} exUnion .none = .ok (.struct "$.s" 1 (some [false]) (.cons (.union "$.s.e"
      (.cons (.unknownVariant "$.s.e.A") ⟨"A", true, [(STRATEGY_KEY, "UnknownVariant")]⟩ (.cons (.null "$.s.e.B" 1) ⟨"B", true, []⟩ .nil))
      [1] [0] [0, 1]) ⟨"e", false, []⟩ .nil) [none] 0 [false]) := by
  refine ⟨by decide +kernel, by decide +kernel, by decide +kernel, by decide +kernel⟩

/-- **Pinned** (the code before 837fa53 delegated to variant 0 whatever it was): on the same union the step into
variant 0 fails — `to_marrow` rejected a collection the schema was traced from — while the step into the variant the
repaired code chooses (`firstReal`) succeeds. -/
theorem default_variant0_pinned :
    (pushDefaultKAt exUnionFs 0 1).isOk = false ∧ firstReal exUnionFs = 1 ∧
    (pushDefaultKAt exUnionFs (firstReal exUnionFs) 1).isOk = true := by
  refine ⟨by decide +kernel, by decide +kernel, by decide +kernel⟩

/-! ### the exclusion added with the checked union row counters (repo fix 217d612) -/

/-- `l: FixedSizeList(Union[0: A = Null], 2)?` -/
def exFslUnionDT : DataType :=
  .fixedSizeList (.mk "element" (.union (.cons 0 (.mk "A" .null true []) .nil) .dense) false []) 2

/-- its builder after `2^30 - 1` lists (`2^31 - 2` rows of variant `A`): one more row fits, two do not -/
def exFslUnion : B := .fixedSizeList "$.l" ⟨"element", false, []⟩ 2 1073741823 (some []) 0
  (.union "$.l.element" (.cons (.null "$.l.element.A" 2147483646) ⟨"A", true, []⟩ .nil) [] [] [2147483646])

/-- **the `noDefUF` clause of `total` is needed**: the documented mapping sends `None` at this nullable fixed-size
list to `null`, `None` has size 1 and the head room is 1 (`NoCap` holds), but `FixedSizeListBuilder::serialize_none`
sends TWO defaults to the union below, each one row of variant `A`: the second is refused by the checked counter.
`total` is false here (validity bits elided: the state is not claimed reachable by evaluation, only by counting). -/
theorem default_fsl_union_refused :
    room exFslUnion = 1 ∧ NoCap {} exFslUnion .none ∧ interpDT {} exFslUnionDT true [] .none = .ok .null ∧
    (push {} exFslUnion .none).isOk = false ∧ (push {} exFslUnion .none).isPanic = false ∧
    total exFslUnionDT true [] = false := by
  refine ⟨by decide +kernel, by unfold NoCap; decide +kernel, by decide +kernel, by decide +kernel, by decide +kernel,
    by decide +kernel⟩

end SaModel.Props.C01
