import SaModel.Lemmas.C01ObsComp
import SaModel.Props.C01Complete
import SaModel.Props.C01Obs
import SaModel.Lemmas.C03ObsTotal
/-
C01, completeness of the builders with respect to the documented mapping (the converse of R2') WITHOUT the first clause
of `Safe`: the statements of Props/C01Complete.lean under the weak state invariant `WFH` and `NoDictKey` (which holds of
every builder `build_builder` constructs) instead of `WFB` and `Safe`.

  push_complete'        `interpDT … x = ok lv` + `NoCap` + `total` ⇒ `push` succeeds, the head room shrinks by ≤ `vsize`
  push_err_sound'       under `NoCap`, an error of `push` is never spurious
  push_err_iff'         error IFF not representable (⇐ through `push_interp'`)
  foldl_push_complete'  the fold over the rows succeeds
  runRows_complete'     `runRows_complete` without `hsafe`
  toMarrow_complete'    `toMarrow_complete` without `hsafe` (through `Lemmas.C03.toMarrow_totalH` / `finish_totalH`:
                        `into_array` on the weak invariant, Lemmas/C03ObsTotal.lean)
  toMarrow_complete_decode'   … and the arrays decode to `interpRow` of the records (`C01_build_decode'`)
The other hypotheses (`NoCap`, `total`, `Shape`, `noRaw`; at root level `coveredF`, `totalFs`, `typedFs`, the capacity bound)
are those of Props/C01Complete.lean.
-/
namespace SaModel.Props.C01
open SaModel SaModel.Build SaModel.Spec

/-- **Completeness of `push`, no `Safe` clause 1**: a representable value that fits is accepted; the head room shrinks
by at most its size -/
theorem push_complete' (ext : Ext) (x : SVal) (b : B) (dt : DataType) (n : Bool) (md : Metadata) (lv : LVal)
    (hi : interpDT ext dt n md x = .ok lv) (hwf : WFH b) (hnd : NoDictKey b) (hshape : Shape b dt n md)
    (htot : total dt n md = true) (hraw : noRaw x = true) (hcap : NoCap ext b x) :
    ∃ b', push ext b x = .ok b' ∧ room b ≤ room b' + vsize ext x :=
  Build.push_completeH ext x hraw b dt n md lv ⟨hwf, hnd, hshape, htot⟩ hcap hi

/-- the error-position refinement (C18): under `NoCap`, an error of `push` is never spurious — the documented mapping
is undefined at the value too -/
theorem push_err_sound' (ext : Ext) (x : SVal) (b : B) (dt : DataType) (n : Bool) (md : Metadata) (e : Fail)
    (h : push ext b x = .error e) (hwf : WFH b) (hnd : NoDictKey b) (hshape : Shape b dt n md)
    (htot : total dt n md = true) (hraw : noRaw x = true) (hcap : NoCap ext b x) :
    ∃ e', interpDT ext dt n md x = .error e' := by
  cases hi : interpDT ext dt n md x with
  | error e' => exact ⟨e', rfl⟩
  | ok lv =>
    obtain ⟨b', hb', _⟩ := push_complete' ext x b dt n md lv hi hwf hnd hshape htot hraw hcap
    rw [hb'] at h; cases h

/-- **error IFF not representable** (under the capacity and schema hypotheses) -/
theorem push_err_iff' (ext : Ext) (x : SVal) (b : B) (dt : DataType) (n : Bool) (md : Metadata)
    (hwf : WFH b) (hnd : NoDictKey b) (hshape : Shape b dt n md) (htot : total dt n md = true) (hraw : noRaw x = true)
    (hcap : NoCap ext b x) :
    (∃ e, push ext b x = .error e) ↔ (∃ e, interpDT ext dt n md x = .error e) := by
  constructor
  · rintro ⟨e, he⟩
    exact push_err_sound' ext x b dt n md e he hwf hnd hshape htot hraw hcap
  · rintro ⟨e, he⟩
    cases hp : push ext b x with
    | error e' => exact ⟨e', rfl⟩
    | ok b' =>
      obtain ⟨_, _, _, lv, _, hlv⟩ := push_interp' ext x b b' dt n md (noRaw_ssa x hraw) (Or.inl hraw) hwf hnd hshape hp
      rw [he] at hlv; cases hlv

/-- all rows representable + capacity ⇒ the fold over the rows succeeds -/
theorem foldl_push_complete' (ext : Ext) (dt : DataType) (n : Bool) (md : Metadata) : ∀ (rows : List SVal) (root : B),
    WFH root → NoDictKey root → Shape root dt n md → total dt n md = true →
    (∀ r ∈ rows, noRaw r = true ∧ ∃ lv, interpDT ext dt n md r = .ok lv) →
    (rows.map (vsize ext)).sum ≤ room root →
    ∃ root', rows.foldlM (push ext) root = .ok root' ∧ room root ≤ room root' + (rows.map (vsize ext)).sum
  | [], root, _, _, _, _, _, _ => ⟨root, rfl, by simp⟩
  | r :: rest, root, hwf, hnd, hshape, htot, hrows, hcap => by
    obtain ⟨hraw, lv, hlv⟩ := hrows r (by simp)
    simp only [List.map_cons, List.sum_cons] at hcap ⊢
    obtain ⟨root1, h1, hroom1⟩ := push_complete' ext r root dt n md lv hlv hwf hnd hshape htot hraw
      (show vsize ext r ≤ room root by omega)
    obtain ⟨hw1, hs1, hsh1, _⟩ := push_interp' ext r root root1 dt n md (noRaw_ssa r hraw) (Or.inl hraw) hwf hnd hshape h1
    obtain ⟨root', h2, hroom2⟩ := foldl_push_complete' ext dt n md rest root1 hw1 hs1 hsh1 htot
      (fun r' hr' => hrows r' (by simp [hr'])) (by omega)
    refine ⟨root', ?_, by omega⟩
    rw [List.foldlM_cons, h1]
    exact h2

/-- **`runRows` is complete, no `Safe`**: if every record is representable under the root schema and the records fit
into the fresh root's head room, all rows are accepted -/
theorem runRows_complete' (ext : Ext) (fields : List Field) (rows : List SVal) (root0 : B)
    (hc : fields.all coveredF = true) (h0 : newRoot fields = .ok root0)
    (htot : totalFs (Fields.ofList fields) = true)
    (hrows : ∀ r ∈ rows, noRaw r = true ∧ ∃ lv, interpRow ext fields r = .ok lv)
    (hcap : (rows.map (vsize ext)).sum ≤ room root0) : ∃ root, runRows ext fields rows = .ok root := by
  obtain ⟨hw0, _, _⟩ := newRoot_fresh h0
  obtain ⟨root, h, _⟩ := foldl_push_complete' ext (.struct (Fields.ofList fields)) false [] rows root0
    (Build.WFH_of_WFB _ hw0) (Build.newRoot_NoDictKey h0)
    (newRoot_shape hc h0) (by simp [total, htot]) hrows hcap
  exact ⟨root, by simp only [runRows, h0]; exact h⟩

/-! ### non-vacuity: the schema OUTSIDE `Safe` -/

/-- the fresh root of `exUnsafeFields` (literal form, cf. `exUnsafe_not_safe`) -/
def exUnsafeNewRoot : B :=
  .struct "$" 0 none
    (.cons (.struct "$.s" 0 (some [])
        (.cons (.dictionary "$.s.d" (.leaf "$.s.d.key" (.int .u8) none []) (.bytes "$.s.d.value" .utf8 none [0] []) [])
          ⟨"d", false, []⟩ .nil) [none] 0 [false]) ⟨"s", true, []⟩ .nil) [none] 0 [false]

theorem exUnsafeNewRoot_eq : newRoot exUnsafeFields = .ok exUnsafeNewRoot := by decide

/-- `runRows_complete'` with every hypothesis discharged on `exUnsafeFields` (a dictionary with non-nullable keys below a
nullable struct — `exUnsafe_not_safe`: `runRows_complete` does not apply) and the three records of `exUnsafeRows` -/
example : ∃ root, runRows {} exUnsafeFields exUnsafeRows = .ok root :=
  runRows_complete' {} exUnsafeFields exUnsafeRows exUnsafeNewRoot (by decide) exUnsafeNewRoot_eq (by decide)
    (by
      intro r hr
      simp only [exUnsafeRows, List.mem_cons, List.not_mem_nil, or_false] at hr
      rcases hr with rfl | rfl | rfl
      · exact ⟨by decide, ok_of_isOk (by decide +kernel)⟩
      · exact ⟨by decide, ok_of_isOk (by decide +kernel)⟩
      · exact ⟨by decide, ok_of_isOk (by decide +kernel)⟩)
    (by decide +kernel)

/-- the state after the first record `s = None`: the dictionary below the null holds the placeholder key 0 and no
value — a state satisfying `WFH` only -/
def exUnsafeAfter1 : B :=
  .struct "$" 1 none
    (.cons (.struct "$.s" 1 (some [false])
        (.cons (.dictionary "$.s.d" (.leaf "$.s.d.key" (.int .u8) none [0]) (.bytes "$.s.d.value" .utf8 none [0] []) [])
          ⟨"d", false, []⟩ .nil) [none] 0 [false]) ⟨"s", true, []⟩ .nil) [some ("s", 0)] 1 [true]

/-- … it violates the strict key clause of `WFB` -/
theorem exUnsafeAfter1_not_WFB : ¬ WFB exUnsafeAfter1 := by
  intro h
  simp only [exUnsafeAfter1, WFB, WFL] at h
  have := h.2.1.1.2.1.1.2.2.2.2.1 (.int 0) (by simp [dec, maskNull, leafVal]) 0 rfl
  simp at this

theorem exUnsafeAfter1_run : runRows {} exUnsafeFields (exUnsafeRows.take 1) = .ok exUnsafeAfter1 := by decide +kernel

/-- `push_complete'` on that state, every hypothesis discharged, for the record that brings the first real value -/
example : ∃ b', push {} exUnsafeAfter1
    (.record "R" (.cons "s" 0 (.some (.record "S" (.cons "d" 0 (.str "a") .nil))) .nil)) = .ok b' := by
  obtain ⟨hw, hn, _, _, ht, _⟩ := Build.runRows_rowsH {} exUnsafeFields (exUnsafeRows.take 1) _ _
    exUnsafeNewRoot_eq exUnsafeAfter1_run
  have hsh : Shape exUnsafeAfter1 (.struct (Fields.ofList exUnsafeFields)) false [] :=
    Shape.of_takeRest (ht.trans (newRoot_fresh exUnsafeNewRoot_eq).2.2.symm)
      (newRoot_shape (fields := exUnsafeFields) (by decide) exUnsafeNewRoot_eq)
  obtain ⟨b', h, _⟩ := push_complete' {} _ exUnsafeAfter1 _ _ _ _
    (show interpDT {} (.struct (Fields.ofList exUnsafeFields)) false []
      (.record "R" (.cons "s" 0 (.some (.record "S" (.cons "d" 0 (.str "a") .nil))) .nil)) =
        .ok (.struct (.cons "s" (.struct (.cons "d" (.str [97]) .nil)) .nil)) from by decide +kernel)
    hw hn hsh (by decide) (by decide) (by unfold NoCap; decide +kernel)
  exact ⟨b', h⟩

/-- **`to_marrow` is complete, no `Safe`**: if every record is representable under the root schema and the records fit
into the fresh root's head room, `to_marrow` succeeds — every row is accepted (`runRows_complete'`) and `build_arrays`
cannot fail (`Lemmas.C03.finish_totalH`: on the weak invariant the placeholder branch of `DictionaryUtf8Builder::into_array`
is LIVE — keys hidden below a null while the dictionary is empty — and `serialize_str("")` into the value builder succeeds
because `coveredF` makes it a Utf8 / LargeUtf8 builder; for a Binary value builder it would fail:
`Lemmas.C03.placeholder_binary_fails`). -/
theorem toMarrow_complete' (ext : Ext) (fields : List Field) (rows : List SVal) (root0 : B)
    (hc : fields.all coveredF = true) (h0 : newRoot fields = .ok root0)
    (htot : totalFs (Fields.ofList fields) = true)
    (htyped : Lemmas.C03.typedFs (Fields.ofList fields) = true)
    (hrows : ∀ r ∈ rows, noRaw r = true ∧ ∃ lv, interpRow ext fields r = .ok lv)
    (hcap : (rows.map (vsize ext)).sum ≤ room root0) : ∃ arrs, toMarrow ext fields rows = .ok arrs := by
  obtain ⟨root, hrun⟩ := runRows_complete' ext fields rows root0 hc h0 htot hrows hcap
  obtain ⟨hw, _⟩ := runRows_rows' ext fields rows root0 root h0 hrun
  exact Lemmas.C03.toMarrow_totalH ext fields rows root hc htyped hw hrun

/-- … and then the arrays are what C01 says (`C01_build_decode'`), no `Safe` -/
theorem toMarrow_complete_decode' (ext : Ext) (fields : List Field) (rows : List SVal) (root0 : B)
    (hschema : ∀ f ∈ fields, Lemmas.C03.SchemaOKF f)
    (hc : fields.all coveredF = true) (h0 : newRoot fields = .ok root0)
    (htot : totalFs (Fields.ofList fields) = true)
    (htyped : Lemmas.C03.typedFs (Fields.ofList fields) = true)
    (hrows : ∀ r ∈ rows, noRaw r = true ∧ ∃ lv, interpRow ext fields r = .ok lv)
    (hcap : (rows.map (vsize ext)).sum ≤ room root0) :
    ∃ arrs, toMarrow ext fields rows = .ok arrs ∧ arrs.length = fields.length ∧
      ∃ cols : List (String × List LVal),
        arrs.map decodeAll = cols.map (fun c => c.2.map .ok) ∧ cols.map (·.1) = fields.map (·.name) ∧
        (∀ c ∈ cols, c.2.length = rows.length) ∧
        ∀ (i : Nat) (hi : i < rows.length),
          interpRow ext fields rows[i] = .ok (.struct (LFields.ofList (cols.map fun c => (c.1, c.2.getD i .null)))) := by
  obtain ⟨arrs, h⟩ := toMarrow_complete' ext fields rows root0 hc h0 htot htyped hrows hcap
  exact ⟨arrs, h, C01_build_decode' ext fields rows arrs hschema hc (fun x hx => noRaw_ssa x (hrows x hx).1)
    (Or.inl fun x hx => (hrows x hx).1) h⟩

/-- non-vacuity: `toMarrow_complete'` on the schema OUTSIDE `Safe` with the three records `None, {d: "a"}, None` -/
example : ∃ arrs, toMarrow {} exUnsafeFields exUnsafeRows = .ok arrs := by
  refine toMarrow_complete' {} exUnsafeFields exUnsafeRows exUnsafeNewRoot (by decide) exUnsafeNewRoot_eq (by decide) (by decide) ?_
    (by decide +kernel)
  intro r hr
  simp only [exUnsafeRows, List.mem_cons, List.not_mem_nil, or_false] at hr
  rcases hr with rfl | rfl | rfl
  · exact ⟨by decide, ok_of_isOk (by decide +kernel)⟩
  · exact ⟨by decide, ok_of_isOk (by decide +kernel)⟩
  · exact ⟨by decide, ok_of_isOk (by decide +kernel)⟩

end SaModel.Props.C01
