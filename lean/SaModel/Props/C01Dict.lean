import SaModel.Props.C01Obs
import SaModel.Lemmas.C03ObsSoundW
/-
C01 / C03 — dictionary columns whose value type is not Utf8 / LargeUtf8 (wave 10, package `dict`).

Which `Dictionary(k, V)` does `build_builder` accept?  (`outer_sequence_builder.rs`, arm `T::Dictionary`: the key must be one
of the eight integer types; the key builder is `build_builder(key, nullable = field.nullable)`, the value builder is
`build_builder(V, nullable = false)` — ANY value type `build_builder` accepts is accepted.)  Machine-checked about the model
`newDT` (tied to that arm by the translator obligation of C01):

  newDT_dict_ok_iff          `newDT path (Dictionary(k, V)) n md = ok b` ⇔ `k` is an integer type, the key builder and the value
                             builder `newDT (path.value) V false []` are built, and `b` is the dictionary builder over them
  newDT_dict_accepts         an integer key type and an accepted value type ⇒ the dictionary is accepted
  newDT_refuses_dict_key     a non-integer key type ⇒ refused                            (the only refusal of the arm itself)
  newDT_refuses_dict_value   a value type `build_builder` refuses ⇒ the dictionary is refused (Interval, RunEndEncoded, sparse
                             unions, Time32(µs) …: `newDT_refuses_dict_interval`, `_runEndEncoded` are instances)

The accepted value types fall into three classes, by what the value builder does with `serialize_str`:

  (a) stores the string            Utf8, LargeUtf8 (`coveredF`), Utf8View
  (b) refuses it (`B.refusesStr`)  Null, Boolean, integers, floats, Binary, LargeBinary, BinaryView, FixedSizeBinary, lists,
                                   fixed-size lists, maps, structs, unions: every non-null push into the dictionary fails
                                   (`Build.dict_push_refused`), the specification is undefined (`Build.interpDictStr_refused`)
  (c) parses / forwards it         Date32, Date64, Time32, Time64, Timestamp, Duration, Decimal128, Dictionary

The decode statements were proved for Utf8 / LargeUtf8 only (`coveredF`).  Here:

  C01_build_decode''   `C01_build_decode'` with `coveredWF` for `coveredF`: classes (a) without Utf8View and (b), at any nesting
  C03_wfS_px, C03_wf_px  `C03_wfS'` / `C03_wf'` with `Safe ∨ coveredPF px` for `Safe ∨ coveredF` and, for `px = true`, `ExtNoEmpty ext`
  C03_wfS'', C03_wf''  the instance `px = false`: classes (a) INCLUDING Utf8View and (b); no hypothesis on the parsers
  C03_wf'''            the instance `px = true`: additionally class (c) WITHOUT the nested dictionary, for parsers that accept no
                       empty string (`ExtNoEmpty`; a theorem for the codec models: Props/C03Dict.lean `codecExt_noEmpty`, `C03_wf_codec''`)
  C01_build_decode'_of'', C03_wf'_of''   the former statements are the special cases (kept; every caller still works)

The step that needed `coveredF` was `Sound` of the final state (the placeholder key 0 of a dictionary with non-nullable keys
designates the dummy `""` that `into_array` appends — which needs a value builder that takes `""`).  For class (b) the
placeholder push FAILS, so a successful `to_marrow` never went through it (`Lemmas.C03.Sound_of_finishH`); for the parsed
kinds of class (c) it fails as well when the parsers refuse `""` (`Lemmas.C03.pushScalar_parsesStr_empty`).

Still open — see `notes/wave10-dict.md`: class (c) and Utf8View for C01 (the state fact "values decoded = index entries
interpreted at V" depends on `ext` and is not part of `WFB` / `WFH`); a nested dictionary as value type for C03 outside `Safe`
(the model's `finish` discards the rows the placeholder push appends to the inner dictionary: `appendEmptyStr` is the identity
on a dictionary array; the crate succeeds there).
-/
namespace SaModel.Props.C01
open SaModel SaModel.Build SaModel.Spec

/-! ## which dictionaries `build_builder` accepts -/

theorem newDT_intKey (path : String) (k : DataType) (n : Bool) (hk : isIntDT k = true) :
    ∃ kb, newDT path k n [] = .ok kb := by
  cases k <;> simp [isIntDT] at hk <;> exact ⟨_, by simp only [newDT]; rfl⟩

/-- `build_builder` on `Dictionary(k, V)`: exactly an integer key type and an accepted value type (built non-nullable,
without metadata, at `path.value`) -/
theorem newDT_dict_ok_iff (path : String) (k v : DataType) (n : Bool) (md : Metadata) (b : B) :
    newDT path (.dictionary k v) n md = .ok b ↔
      isIntDT k = true ∧ ∃ kb vb, newDT (path ++ ".key") k n [] = .ok kb ∧
        newDT (path ++ ".value") v false [] = .ok vb ∧ b = .dictionary path kb vb [] := by
  constructor
  · intro h
    simp only [newDT] at h
    split at h
    case isFalse => simp [ctx_ok, fail] at h
    rename_i hik
    obtain ⟨kb, h1, h⟩ := (bind_ok _ _ _).1 h
    obtain ⟨vb, h2, h⟩ := (bind_ok _ _ _).1 h
    cases h
    exact ⟨hik, kb, vb, h1, h2, rfl⟩
  · rintro ⟨hik, kb, vb, h1, h2, rfl⟩
    simp only [newDT, hik, if_true, h1, h2, bind, Except.bind, pure, Except.pure]

/-- an integer key type and an accepted value type: the dictionary is accepted, whatever the value type -/
theorem newDT_dict_accepts (path : String) (k v : DataType) (n : Bool) (md : Metadata) (vb : B)
    (hk : isIntDT k = true) (hv : newDT (path ++ ".value") v false [] = .ok vb) :
    ∃ kb, newDT path (.dictionary k v) n md = .ok (.dictionary path kb vb []) := by
  obtain ⟨kb, h1⟩ := newDT_intKey (path ++ ".key") k n hk
  exact ⟨kb, (newDT_dict_ok_iff path k v n md _).2 ⟨hk, kb, vb, h1, hv, rfl⟩⟩

/-- a key type that is not an integer type is refused -/
theorem newDT_refuses_dict_key (path : String) (k v : DataType) (n : Bool) (md : Metadata) (hk : isIntDT k = false) (b : B) :
    newDT path (.dictionary k v) n md ≠ .ok b := by
  intro h
  have := ((newDT_dict_ok_iff path k v n md b).1 h).1
  rw [hk] at this; cases this

/-- a value type `build_builder` refuses makes the dictionary refused -/
theorem newDT_refuses_dict_value (path : String) (k v : DataType) (n : Bool) (md : Metadata)
    (hv : ∀ vb, newDT (path ++ ".value") v false [] ≠ .ok vb) (b : B) :
    newDT path (.dictionary k v) n md ≠ .ok b := by
  intro h
  obtain ⟨_, kb, vb, _, h2, _⟩ := (newDT_dict_ok_iff path k v n md b).1 h
  exact hv vb h2

theorem newDT_refuses_dict_interval (path : String) (k : DataType) (u : IntervalUnit) (n : Bool) (md : Metadata) (b : B) :
    newDT path (.dictionary k (.interval u)) n md ≠ .ok b :=
  newDT_refuses_dict_value path k _ n md (fun vb => newDT_refusedHead (dt := .interval u) rfl _ _ _ vb) b

theorem newDT_refuses_dict_runEndEncoded (path : String) (k : DataType) (r w : Field) (n : Bool) (md : Metadata) (b : B) :
    newDT path (.dictionary k (.runEndEncoded r w)) n md ≠ .ok b :=
  newDT_refuses_dict_value path k _ n md (fun vb => newDT_refusedHead (dt := .runEndEncoded r w) rfl _ _ _ vb) b

/-- accepted, outside `coveredF`: one value type of each class — (a) Utf8View, (b) Int32 / Binary / a struct, (c) Date32 / a
nested dictionary -/
example : (newDT "$.d" (.dictionary .uint8 .utf8View) false []).isOk = true ∧
    (newDT "$.d" (.dictionary .int8 .int32) true []).isOk = true ∧
    (newDT "$.d" (.dictionary .uint32 .binary) false []).isOk = true ∧
    (newDT "$.d" (.dictionary .int16 (.struct (.cons (.mk "a" .utf8 true []) .nil))) false []).isOk = true ∧
    (newDT "$.d" (.dictionary .int64 .date32) false []).isOk = true ∧
    (newDT "$.d" (.dictionary .uint16 (.dictionary .int8 .utf8)) false []).isOk = true ∧
    (newDT "$.d" (.dictionary .utf8 .utf8) false []).isOk = false := by decide +kernel

/-! ## the schema predicates -/

/-- `coveredF ⊆ coveredWF ⊆ coveredPF` -/
theorem coveredPF_of_coveredF {px : Bool} {fields : List Field} (h : fields.all Build.coveredF = true) :
    fields.all (Lemmas.C03.coveredPF px) = true := Lemmas.C03.all_coveredPF_of_coveredF h

/-- what `coveredW` excludes at a dictionary: exactly an integer key with a class (c) value type or Utf8View -/
theorem coveredW_dict (k v : DataType) :
    coveredW (.dictionary k v) = (!isIntDT k || (!dictValOpen v && coveredW v)) := by simp only [coveredW]

/-- what `coveredP px` excludes at a dictionary: exactly an integer key with a nested Dictionary as value type or — for
`px = false` — a parsed value type (Date32, Date64, Time32, Time64, Timestamp, Duration, Decimal128) -/
theorem coveredP_dict (px : Bool) (k v : DataType) :
    Lemmas.C03.coveredP px (.dictionary k v) =
      (!isIntDT k || (!Lemmas.C03.dictValExcl px v && Lemmas.C03.coveredP px v)) := by
  simp only [Lemmas.C03.coveredP]

/-- `dictValExcl`, by cases -/
example : Lemmas.C03.dictValExcl false .date32 = true ∧ Lemmas.C03.dictValExcl true .date32 = false ∧
    Lemmas.C03.dictValExcl true (.dictionary .int8 .utf8) = true ∧ Lemmas.C03.dictValExcl false .utf8View = false ∧
    Lemmas.C03.dictValExcl false .int32 = false := by decide

/-! ## C01 -/

/-- **C01 for `to_marrow` on `coveredWF`.**  `C01_build_decode'` with the schema hypothesis `coveredF` (every integer-keyed
dictionary has Utf8 / LargeUtf8 values) weakened to `coveredWF`: a `Dictionary(integer, V)` column may also have a value type
`V` whose builder refuses strings — Null, Boolean, integers, floats, Binary, LargeBinary, BinaryView, FixedSizeBinary, lists,
maps, structs, unions — at any nesting, with nullable or non-nullable keys.  (Such a column only ever holds nulls, or sits in
a container without elements: every non-null push fails and the specification is undefined alike; with non-nullable keys
hidden below a null struct, `into_array` itself refuses — the statement is about successful runs.)  Still excluded: `V` ∈
{Utf8View, Date32, Date64, Time32, Time64, Timestamp, Duration, Decimal128, Dictionary}. -/
theorem C01_build_decode'' (ext : Ext) (fields : List Field) (rows : List SVal) (arrs : List Arr)
    (hschema : ∀ f ∈ fields, Lemmas.C03.SchemaOKF f)
    (hcov : fields.all Build.coveredWF = true)
    (hraw : ∀ x ∈ rows, Build.structStreamsAlternate x = true)
    (hnar : (∀ x ∈ rows, Build.noRaw x = true) ∨ Build.narrowRoot fields = true)
    (h : toMarrow ext fields rows = .ok arrs) :
    arrs.length = fields.length ∧
    ∃ cols : List (String × List LVal),
      arrs.map decodeAll = cols.map (fun c => c.2.map .ok) ∧
      cols.map (·.1) = fields.map (·.name) ∧
      (∀ c ∈ cols, c.2.length = rows.length) ∧
      ∀ (i : Nat) (hi : i < rows.length),
        interpRow ext fields rows[i] = .ok (.struct (LFields.ofList (cols.map fun c => (c.1, c.2.getD i .null)))) := by
  suffices hcols : ∃ cols : List (String × List LVal),
      arrs.map decodeAll = cols.map (fun c => c.2.map .ok) ∧
      cols.map (·.1) = fields.map (·.name) ∧
      (∀ c ∈ cols, c.2.length = rows.length) ∧
      ∀ (i : Nat) (hi : i < rows.length),
        interpRow ext fields rows[i] = .ok (.struct (LFields.ofList (cols.map fun c => (c.1, c.2.getD i .null)))) by
    obtain ⟨cols, h1, h2, h3, h4⟩ := hcols
    refine ⟨?_, cols, h1, h2, h3, h4⟩
    have e1 := congrArg List.length h1
    have e2 := congrArg List.length h2
    simp only [List.length_map] at e1 e2
    omega
  have hfacts : ∀ root, runRows ext fields rows = .ok root → ∃ root0, newRoot fields = .ok root0 ∧
      WFH root ∧ Det root := by
    intro root hrun
    have h0 : ∃ root0, newRoot fields = .ok root0 := by
      simp only [runRows] at hrun
      cases hr : newRoot fields with
      | error e => rw [hr] at hrun; cases hrun
      | ok r0 => exact ⟨r0, rfl⟩
    obtain ⟨root0, h0⟩ := h0
    obtain ⟨hw, hd, _⟩ := runRows_rows' ext fields rows root0 root h0 hrun
    exact ⟨root0, h0, hw, hd⟩
  have hrootdet : ∀ root, runRows ext fields rows = .ok root →
      ∀ c ∈ Lemmas.C03.decHRoot root, ∀ r ∈ c, r.isSome = true := by
    intro root hrun
    obtain ⟨root0, h0, hw, hd⟩ := hfacts root hrun
    obtain ⟨_, _, p, fs, cached, next, seen, rfl, _⟩ := runRows_interp' ext fields rows root0 root hcov h0 hraw hnar hrun
    intro c hc
    simp only [Lemmas.C03.decHRoot, List.mem_map] at hc
    obtain ⟨c', hc', rfl⟩ := hc
    exact det_root_cols hw hd c' hc'
  obtain ⟨root, hrun, hdec⟩ := Lemmas.C03.toMarrow_decode_of_WFHW (px := false) ext (fun hpx => by cases hpx)
    fields rows arrs hschema (Lemmas.C03.all_coveredPF_of_coveredWF hcov)
    (fun r hr => let ⟨_, _, hw, _⟩ := hfacts r hr; hw) hrootdet h
  obtain ⟨root0, h0, hw, hd⟩ := hfacts root hrun
  obtain ⟨hall, hcols, p, fs, cached, next, seen, rfl, hdecr⟩ :=
    runRows_interp' ext fields rows root0 root hcov h0 hraw hnar hrun
  refine ⟨decCols fs, ?_, ?_, ?_, ?_⟩
  · rw [hdec]
    simp only [decRoot, List.map_map]
    rfl
  · have hb := Lemmas.C03.runRows_builtFor ext fields rows _ (Build.push_takeRest ext) hrun
    simp only [Lemmas.C03.BuiltFor] at hb
    obtain ⟨fields', hfe, _, hbl⟩ := hb
    simp only [DataType.struct.injEq] at hfe
    subst hfe
    exact C01_build_decode.decCols_names fs _ hbl
  · intro c hc
    exact hcols c.2 (by simp only [decRoot, List.mem_map]; exact ⟨c, hc, rfl⟩)
  · intro i hi
    obtain ⟨hl, hg⟩ := Props.C03.All2_get hall
    have h1 : i < (dec (B.struct p rows.length none fs cached next seen)).length := by rw [hl]; exact hi
    have := hg i h1 hi
    rw [this]
    congr 1
    simp only [hdecr, List.getElem_map, List.getElem_range, Build.rowAt]

/-- the former statement is the special case `coveredF ⊆ coveredWF` -/
theorem C01_build_decode'_of'' (ext : Ext) (fields : List Field) (rows : List SVal) (arrs : List Arr)
    (hschema : ∀ f ∈ fields, Lemmas.C03.SchemaOKF f)
    (hcov : fields.all Build.coveredF = true)
    (hraw : ∀ x ∈ rows, Build.structStreamsAlternate x = true)
    (hnar : (∀ x ∈ rows, Build.noRaw x = true) ∨ Build.narrowRoot fields = true)
    (h : toMarrow ext fields rows = .ok arrs) :
    arrs.length = fields.length ∧
    ∃ cols : List (String × List LVal),
      arrs.map decodeAll = cols.map (fun c => c.2.map .ok) ∧
      cols.map (·.1) = fields.map (·.name) ∧
      (∀ c ∈ cols, c.2.length = rows.length) ∧
      ∀ (i : Nat) (hi : i < rows.length),
        interpRow ext fields rows[i] = .ok (.struct (LFields.ofList (cols.map fun c => (c.1, c.2.getD i .null)))) :=
  C01_build_decode'' ext fields rows arrs hschema (Build.all_coveredWF_of_coveredF hcov) hraw hnar h

/-! ### non-vacuity of `C01_build_decode''` outside `coveredF` -/

/-- `d: Dictionary(Int8, Int32)?` (nullable keys, a value builder that refuses strings) and
`l: List<Dictionary(UInt8, Binary)>` (NON-nullable keys: the lists stay empty) -/
def exDictRefusingFields : List Field :=
  [.mk "d" (.dictionary .int8 .int32) true [],
   .mk "l" (.list (.mk "element" (.dictionary .uint8 .binary) false [])) false []]
def exDictRefusingRows : List SVal :=
  [.record "R" (.cons "d" 0 .none (.cons "l" 0 (.seq .nil) .nil)),
   .record "R" (.cons "d" 0 .unit (.cons "l" 0 (.seq .nil) .nil))]

theorem exDictRefusing_ok : (toMarrow {} exDictRefusingFields exDictRefusingRows).isOk = true := by decide +kernel

example : exDictRefusingFields.all Build.coveredWF = true ∧ exDictRefusingFields.all Build.coveredF = false := by
  decide +kernel

/-- every hypothesis of `C01_build_decode''` discharged on a run that succeeds -/
example : ∀ arrs, toMarrow {} exDictRefusingFields exDictRefusingRows = .ok arrs →
    arrs.length = exDictRefusingFields.length ∧
    ∃ cols : List (String × List LVal), arrs.map decodeAll = cols.map (fun c => c.2.map .ok) ∧
      cols.map (·.1) = exDictRefusingFields.map (·.name) ∧ (∀ c ∈ cols, c.2.length = exDictRefusingRows.length) ∧
      ∀ (i : Nat) (hi : i < exDictRefusingRows.length), interpRow {} exDictRefusingFields exDictRefusingRows[i] =
        .ok (.struct (LFields.ofList (cols.map fun c => (c.1, c.2.getD i .null)))) := by
  intro arrs h
  refine C01_build_decode'' {} exDictRefusingFields exDictRefusingRows arrs ?_ (by decide +kernel) (by decide +kernel)
    (Or.inl (by decide +kernel)) h
  simp [exDictRefusingFields, Lemmas.C03.SchemaOKF, Lemmas.C03.SchemaOK, Lemmas.C03.SchemaOKFs]

/-- what the run holds: the dictionary column reads null, null; the list column two empty lists -/
example : (do let root ← runRows {} exDictRefusingFields exDictRefusingRows; pure (decRoot root) : R (List (List LVal))) =
    .ok [[.null, .null], [.list .nil, .list .nil]] := by decide +kernel

/-! ## C03 -/

/-- **C03 (structural half) on `Safe ∨ coveredPF px`.**  `C03_wfS'` with the second alternative `coveredF` weakened to
`coveredPF px`.  `px = false`: every integer-keyed dictionary has a value type whose builder stores strings (Utf8, LargeUtf8,
Utf8View) or refuses them (class (b) above); still excluded is a schema that is neither `Safe` nor `coveredPF false` — a
dictionary with NON-nullable keys below a nullable struct / fixed-size list whose value type is Date32, Date64, Time32,
Time64, Timestamp, Duration, Decimal128 or a Dictionary.  `px = true` (then `hne : ExtNoEmpty ext` is asked): the parsed value
types are admitted too, only the nested Dictionary stays excluded. -/
theorem C03_wfS_px (px : Bool) (ext : Ext) (hne : px = true → Lemmas.C03.ExtNoEmpty ext)
    (fields : List Field) (rows : List SVal) (arrs : List Arr)
    (hschema : ∀ f ∈ fields, Lemmas.C03.SchemaOKF f)
    (hsafe : (∀ root0, newRoot fields = .ok root0 → Safe root0) ∨ fields.all (Lemmas.C03.coveredPF px) = true)
    (hext : Lemmas.C03.ExtOK ext)
    (hrows : ∀ x ∈ rows, Lemmas.C03.SValOK x)
    (h : toMarrow ext fields rows = .ok arrs) :
    arrs.length = fields.length ∧
    ∀ (j : Nat) (f : Field) (a : Arr), fields[j]? = some f → arrs[j]? = some a →
      WFS f a = true ∧ (decodeAll a).length = rows.length := by
  rcases hsafe with hsafe | hcov
  · exact Props.C03.C03_wfS ext fields rows arrs hschema hsafe hext hrows h
  · have hwfh : ∀ root, runRows ext fields rows = .ok root → WFH root ∧ (dec root).length = rows.length := by
      intro root hrun
      have h0 : ∃ root0, newRoot fields = .ok root0 := by
        simp only [runRows] at hrun
        cases hr : newRoot fields with
        | error e => rw [hr] at hrun; cases hrun
        | ok r0 => exact ⟨r0, rfl⟩
      obtain ⟨root0, h0⟩ := h0
      obtain ⟨hw, _, hl, _⟩ := runRows_rows' ext fields rows root0 root h0 hrun
      exact ⟨hw, hl⟩
    obtain ⟨hlen, n, hall⟩ := Lemmas.C03.C03_wf_of_WFHW ext hne fields rows arrs hschema hcov hext hrows
      (fun r hr => (hwfh r hr).1) h
    refine ⟨hlen, ?_⟩
    intro j f a hfj haj
    obtain ⟨hwf, hn⟩ := hall j f a hfj haj
    refine ⟨hwf, ?_⟩
    obtain ⟨root, hrun, rest, hba⟩ := Props.C03.toMarrow_split ext fields rows arrs h
    have hw := (hwfh root hrun).1
    have hs := (Lemmas.C03.root_factsW ext hne fields rows root _ hschema hcov hw hrun hba).2.1
    cases root with
    | struct p len v fs cached next seen =>
      simp only [buildArrays, bind, Except.bind] at hba
      cases hf : finishFields ext fs with
      | error e => rw [hf] at hba; cases hba
      | ok afs =>
        rw [hf] at hba
        simp only [pure, Except.pure, Except.ok.injEq, Prod.mk.injEq] at hba
        obtain ⟨rfl, _⟩ := hba
        have hd := Lemmas.C03.finishFields_decodePH ext fs afs
          (Lemmas.C03.WFHL_WFHs fs len (Lemmas.C03.WFH_struct hw).2) (Lemmas.C03.Sound_struct hs) hf
        rw [List.getElem?_map] at haj
        cases hma : afs.toList[j]? with
        | none => rw [hma] at haj; cases haj
        | some ma =>
          rw [hma] at haj
          simp only [Option.map_some, Option.some.injEq] at haj
          subst haj
          have e := Props.C03.ArrFields_toList_decode afs
          have hj : (afs.toList.map (fun ma => decodeAll ma.2))[j]? = some (decodeAll ma.2) := by
            rw [List.getElem?_map, hma]; rfl
          rw [e, hd, List.map_map] at hj
          rw [List.getElem?_map] at hj
          cases hc : (Lemmas.C03.decPCols fs)[j]? with
          | none => rw [hc] at hj; cases hj
          | some c =>
            rw [hc] at hj
            simp only [Option.map_some, Function.comp, Option.some.injEq] at hj
            rw [← hj, List.length_map]
            have hcl := Lemmas.C03.decPCols_lenH fs len (Lemmas.C03.WFH_struct hw).2 c (List.mem_of_getElem? hc)
            rw [hcl]
            have hv : (dec (B.struct p len v fs cached next seen)).length = len := by
              simp only [dec]
              exact Lemmas.C03.maskNull_length v len _ (Lemmas.C03.WFH_struct hw).1 (by simp)
            have := (hwfh _ hrun).2
            omega
    | _ => simp [buildArrays, panic] at hba

/-- **C03, the headline (`Spec.WF` = `Spec.WFS` ∧ `Spec.typeOf a = f.dataType`) on `Safe ∨ coveredPF px`.**  `C03_wf'` with the
second alternative weakened as in `C03_wfS_px`; the other hypotheses unchanged (`hschema`: no `FixedSizeBinary(0)`; `hplain`:
no metadata on a Map's entries field; `hext`; `hrows`). -/
theorem C03_wf_px (px : Bool) (ext : Ext) (hne : px = true → Lemmas.C03.ExtNoEmpty ext)
    (fields : List Field) (rows : List SVal) (arrs : List Arr)
    (hschema : ∀ f ∈ fields, Lemmas.C03.SchemaOKF f)
    (hplain : ∀ f ∈ fields, Lemmas.C03.PlainF f)
    (hsafe : (∀ root0, newRoot fields = .ok root0 → Safe root0) ∨ fields.all (Lemmas.C03.coveredPF px) = true)
    (hext : Lemmas.C03.ExtOK ext)
    (hrows : ∀ x ∈ rows, Lemmas.C03.SValOK x)
    (h : toMarrow ext fields rows = .ok arrs) :
    arrs.length = fields.length ∧
    ∀ (j : Nat) (f : Field) (a : Arr), fields[j]? = some f → arrs[j]? = some a →
      WF f a = true ∧ (decodeAll a).length = rows.length := by
  obtain ⟨hlen, hall⟩ := C03_wfS_px px ext hne fields rows arrs hschema hsafe hext hrows h
  have h0 : ∃ root0, newRoot fields = .ok root0 := by
    simp only [toMarrow, bind, Except.bind] at h
    cases hr : newRoot fields with
    | error e => rw [hr] at h; cases h
    | ok r0 => exact ⟨r0, rfl⟩
  obtain ⟨root0, h0⟩ := h0
  have hstrict := Lemmas.C03.newRoot_strict fields root0 h0 hplain
  refine ⟨hlen, fun j f a hf ha => ?_⟩
  obtain ⟨hw, hn⟩ := hall j f a hf ha
  exact ⟨Lemmas.C03.WF_of_WFS f a hw (hstrict f (List.mem_of_getElem? hf)), hn⟩

/-- **`C03_wfS'` on `Safe ∨ coveredPF false`** (value types that store or refuse strings; no hypothesis on the parsers) -/
theorem C03_wfS'' (ext : Ext) (fields : List Field) (rows : List SVal) (arrs : List Arr)
    (hschema : ∀ f ∈ fields, Lemmas.C03.SchemaOKF f)
    (hsafe : (∀ root0, newRoot fields = .ok root0 → Safe root0) ∨ fields.all (Lemmas.C03.coveredPF false) = true)
    (hext : Lemmas.C03.ExtOK ext)
    (hrows : ∀ x ∈ rows, Lemmas.C03.SValOK x)
    (h : toMarrow ext fields rows = .ok arrs) :
    arrs.length = fields.length ∧
    ∀ (j : Nat) (f : Field) (a : Arr), fields[j]? = some f → arrs[j]? = some a →
      WFS f a = true ∧ (decodeAll a).length = rows.length :=
  C03_wfS_px false ext (fun hpx => by cases hpx) fields rows arrs hschema hsafe hext hrows h

/-- **`C03_wf'` on `Safe ∨ coveredPF false`** -/
theorem C03_wf'' (ext : Ext) (fields : List Field) (rows : List SVal) (arrs : List Arr)
    (hschema : ∀ f ∈ fields, Lemmas.C03.SchemaOKF f)
    (hplain : ∀ f ∈ fields, Lemmas.C03.PlainF f)
    (hsafe : (∀ root0, newRoot fields = .ok root0 → Safe root0) ∨ fields.all (Lemmas.C03.coveredPF false) = true)
    (hext : Lemmas.C03.ExtOK ext)
    (hrows : ∀ x ∈ rows, Lemmas.C03.SValOK x)
    (h : toMarrow ext fields rows = .ok arrs) :
    arrs.length = fields.length ∧
    ∀ (j : Nat) (f : Field) (a : Arr), fields[j]? = some f → arrs[j]? = some a →
      WF f a = true ∧ (decodeAll a).length = rows.length :=
  C03_wf_px false ext (fun hpx => by cases hpx) fields rows arrs hschema hplain hsafe hext hrows h

/-- **`C03_wf'` on `Safe ∨ coveredPF true`, for parsers that accept no empty string** (`ExtNoEmpty ext`: what chrono, the span
parser and the decimal parser do; a theorem for the codec models, `Props.C03.codecExt_noEmpty`).  Admitted in addition: the
PARSED value types Date32, Date64, Time32, Time64, Timestamp, Duration, Decimal128 — with non-nullable keys hidden below a null
the placeholder `serialize_str("")` of `into_array` fails on them, so no successful run took that branch.  Excluded by both
alternatives: only a NESTED dictionary as the value type of a dictionary with non-nullable keys below a nullable struct /
fixed-size list. -/
theorem C03_wf''' (ext : Ext) (hne : Lemmas.C03.ExtNoEmpty ext) (fields : List Field) (rows : List SVal) (arrs : List Arr)
    (hschema : ∀ f ∈ fields, Lemmas.C03.SchemaOKF f)
    (hplain : ∀ f ∈ fields, Lemmas.C03.PlainF f)
    (hsafe : (∀ root0, newRoot fields = .ok root0 → Safe root0) ∨ fields.all (Lemmas.C03.coveredPF true) = true)
    (hext : Lemmas.C03.ExtOK ext)
    (hrows : ∀ x ∈ rows, Lemmas.C03.SValOK x)
    (h : toMarrow ext fields rows = .ok arrs) :
    arrs.length = fields.length ∧
    ∀ (j : Nat) (f : Field) (a : Arr), fields[j]? = some f → arrs[j]? = some a →
      WF f a = true ∧ (decodeAll a).length = rows.length :=
  C03_wf_px true ext (fun _ => hne) fields rows arrs hschema hplain hsafe hext hrows h

/-- the former headline is the special case `coveredF ⊆ coveredPF` -/
theorem C03_wf'_of'' (ext : Ext) (fields : List Field) (rows : List SVal) (arrs : List Arr)
    (hschema : ∀ f ∈ fields, Lemmas.C03.SchemaOKF f)
    (hplain : ∀ f ∈ fields, Lemmas.C03.PlainF f)
    (hsafe : (∀ root0, newRoot fields = .ok root0 → Safe root0) ∨ fields.all Build.coveredF = true)
    (hext : Lemmas.C03.ExtOK ext)
    (hrows : ∀ x ∈ rows, Lemmas.C03.SValOK x)
    (h : toMarrow ext fields rows = .ok arrs) :
    arrs.length = fields.length ∧
    ∀ (j : Nat) (f : Field) (a : Arr), fields[j]? = some f → arrs[j]? = some a →
      WF f a = true ∧ (decodeAll a).length = rows.length :=
  C03_wf'' ext fields rows arrs hschema hplain (hsafe.imp id coveredPF_of_coveredF) hext hrows h

/-! ### non-vacuity of `C03_wf''` outside `Safe` AND outside `coveredF`

`{s: Struct{d: Dictionary(UInt8, Utf8View)}?}` — non-nullable keys below a nullable struct (outside `Safe`), a Utf8View value
type (outside `coveredF`, inside `coveredPF`).  Records `None`, `{d: "a"}`, `None`; and the single record `None`, where the
finished dictionary consists of the dummy value alone. -/

def exViewFields : List Field :=
  [.mk "s" (.struct (.cons (.mk "d" (.dictionary .uint8 .utf8View) false []) .nil)) true []]
def exViewRows : List SVal :=
  [.record "R" (.cons "s" 0 .none .nil),
   .record "R" (.cons "s" 0 (.some (.record "S" (.cons "d" 0 (.str "a") .nil))) .nil),
   .record "R" (.cons "s" 0 .none .nil)]

theorem exView_not_safe : ∀ root0, newRoot exViewFields = .ok root0 → ¬ Safe root0 := by
  intro root0 h0
  rw [show newRoot exViewFields = .ok (.struct "$" 0 none
    (.cons (.struct "$.s" 0 (some [])
        (.cons (.dictionary "$.s.d" (.leaf "$.s.d.key" (.int .u8) none []) (.bytesView "$.s.d.value" .utf8View none [] []) [])
          ⟨"d", false, []⟩ .nil) [none] 0 [false]) ⟨"s", true, []⟩ .nil) [none] 0 [false]) from by decide] at h0
  cases h0
  simp [Safe, SafeL, DefSafe, DefSafeL, B.isNullable]

theorem exView_ok : (toMarrow {} exViewFields exViewRows).isOk = true ∧
    (toMarrow {} exViewFields [.record "R" (.cons "s" 0 .none .nil)]).isOk = true := by decide +kernel

example : exViewFields.all (Lemmas.C03.coveredPF false) = true ∧ exViewFields.all Build.coveredF = false ∧
    exViewFields.all Build.coveredWF = false := by decide +kernel

theorem exExtOK : Lemmas.C03.ExtOK {} :=
  { date32 := (by intro s v h; cases h), date64 := (by intro s v h; cases h),
    time := (by intro u s v h; cases h), timestamp := (by intro u utc s v h; cases h),
    duration := (by intro u s v h; cases h) }

/-- every hypothesis of `C03_wf''` discharged, through the second alternative -/
example : ∀ arrs, toMarrow {} exViewFields exViewRows = .ok arrs → arrs.length = exViewFields.length ∧
    ∀ (j : Nat) (f : Field) (a : Arr), exViewFields[j]? = some f → arrs[j]? = some a →
      WF f a = true ∧ (decodeAll a).length = exViewRows.length := by
  intro arrs h
  refine C03_wf'' {} exViewFields exViewRows arrs ?_ ?_ (Or.inr (by decide +kernel)) exExtOK ?_ h
  · simp [exViewFields, Lemmas.C03.SchemaOKF, Lemmas.C03.SchemaOK, Lemmas.C03.SchemaOKFs]
  · simp [exViewFields, Lemmas.C03.PlainF, Lemmas.C03.PlainDT, Lemmas.C03.PlainFs]
  · intro x hx
    simp only [exViewRows, List.mem_cons, List.not_mem_nil, or_false] at hx
    rcases hx with rfl | rfl | rfl <;>
      simp [Lemmas.C03.SValOK, Lemmas.C03.SFieldsOK, Lemmas.C03.ScalarOK]

/-- … and on the refusing schema of `C01_build_decode''` (which is `Safe` as well: both alternatives hold there) -/
example : ∀ arrs, toMarrow {} exDictRefusingFields exDictRefusingRows = .ok arrs →
    arrs.length = exDictRefusingFields.length ∧
    ∀ (j : Nat) (f : Field) (a : Arr), exDictRefusingFields[j]? = some f → arrs[j]? = some a →
      WF f a = true ∧ (decodeAll a).length = exDictRefusingRows.length := by
  intro arrs h
  refine C03_wf'' {} exDictRefusingFields exDictRefusingRows arrs ?_ ?_ (Or.inr (by decide +kernel)) exExtOK ?_ h
  · simp [exDictRefusingFields, Lemmas.C03.SchemaOKF, Lemmas.C03.SchemaOK, Lemmas.C03.SchemaOKFs]
  · simp [exDictRefusingFields, Lemmas.C03.PlainF, Lemmas.C03.PlainDT, Lemmas.C03.PlainFs]
  · intro x hx
    simp only [exDictRefusingRows, List.mem_cons, List.not_mem_nil, or_false] at hx
    rcases hx with rfl | rfl <;>
      simp [Lemmas.C03.SValOK, Lemmas.C03.SFieldsOK, Lemmas.C03.SValsOK, Lemmas.C03.ScalarOK]

/-- the spurious refusal stays outside every statement: a class (b) dictionary with NON-nullable keys hidden below a null
struct is refused by `into_array` (model and crate: `corpus/build/hidden_rows.jsonl`, cases `corpus-c01e-placeholder-*`) -/
example : (toMarrow {} [.mk "s" (.struct (.cons (.mk "d" (.dictionary .uint32 .binary) false []) .nil)) true []]
    [.record "R" (.cons "s" 0 .none .nil)]).isErr = true := by decide +kernel

end SaModel.Props.C01
