import SaModel.Props.C01Dict
import SaModel.Props.C01CompleteObs
import SaModel.Lemmas.C03ObsTotalW
/-
C01 — completeness on `coveredWF` (wave 10, package `dict`): `runRows_complete'` / `toMarrow_complete'` /
`toMarrow_complete_decode'` with `coveredF` weakened.

  runRows_complete''            `coveredWF` for `coveredF` (the proof only needed `Shape`, which `coveredW` gives)
  toMarrow_complete''           `coveredWF` + `PlaceholderStr root0`: every dictionary with NON-nullable keys has a value builder
                                that stores strings (Utf8 / LargeUtf8 / Utf8View).  A dictionary with NULLABLE keys may have any
                                value type inside `coveredW` (e.g. `Dictionary(Int8, Int32)?`): its `into_array` never takes the
                                placeholder branch.  `PlaceholderStr` of the fresh root is a property of the schema (it is
                                invariant under `take`); it cannot be dropped: `Lemmas.C03.placeholder_binary_fails`, and on the
                                crate `to_marrow([s: Struct{d: Dictionary(UInt32, Binary)}?], [{s: None}])` is refused
  toMarrow_complete_decode''    … and then the arrays are what `C01_build_decode''` says
  toMarrow_complete_schema''    the same with `PlaceholderStr root0` replaced by the Boolean schema predicate
                                `fields.all placeholderStrF` (Lemmas/C03ObsTotalW.lean: an integer-keyed dictionary is nullable or has
                                a Utf8 / LargeUtf8 / Utf8View value type), and `newRoot fields = ok root0` only as the source of `room`
-/
namespace SaModel.Props.C01
open SaModel SaModel.Build SaModel.Spec

/-- **`runRows` is complete on `coveredWF`** -/
theorem runRows_complete'' (ext : Ext) (fields : List Field) (rows : List SVal) (root0 : B)
    (hc : fields.all coveredWF = true) (h0 : newRoot fields = .ok root0)
    (htot : totalFs (Fields.ofList fields) = true)
    (hrows : ∀ r ∈ rows, noRaw r = true ∧ ∃ lv, interpRow ext fields r = .ok lv)
    (hcap : (rows.map (vsize ext)).sum ≤ room root0) : ∃ root, runRows ext fields rows = .ok root := by
  obtain ⟨hw0, _, _⟩ := newRoot_fresh h0
  obtain ⟨root, h, _⟩ := foldl_push_complete' ext (.struct (Fields.ofList fields)) false [] rows root0
    (Build.WFH_of_WFB _ hw0) (Build.newRoot_NoDictKey h0)
    (newRoot_shapeW hc h0) (by simp [total, htot]) hrows hcap
  exact ⟨root, by simp only [runRows, h0]; exact h⟩

/-- **`to_marrow` is complete on `coveredWF`** when the placeholder branch of `into_array` can be served
(`PlaceholderStr root0`: a dictionary with non-nullable keys has a string-storing value builder) -/
theorem toMarrow_complete'' (ext : Ext) (fields : List Field) (rows : List SVal) (root0 : B)
    (hc : fields.all coveredWF = true) (h0 : newRoot fields = .ok root0)
    (hph : Lemmas.C03.PlaceholderStr root0)
    (htot : totalFs (Fields.ofList fields) = true)
    (htyped : Lemmas.C03.typedFs (Fields.ofList fields) = true)
    (hrows : ∀ r ∈ rows, noRaw r = true ∧ ∃ lv, interpRow ext fields r = .ok lv)
    (hcap : (rows.map (vsize ext)).sum ≤ room root0) : ∃ arrs, toMarrow ext fields rows = .ok arrs := by
  obtain ⟨root, hrun⟩ := runRows_complete'' ext fields rows root0 hc h0 htot hrows hcap
  obtain ⟨hw, _, _, ht, _⟩ := runRows_rows' ext fields rows root0 root h0 hrun
  have hb := Lemmas.C03.runRows_builtFor ext fields rows root (Build.push_takeRest ext) hrun
  have hf := Lemmas.C03.FinB_of_builtFor root _ _ hb (by simpa [Lemmas.C03.typedDT] using htyped)
  have hp : Lemmas.C03.PlaceholderStr root := by
    have e : takeRest root = takeRest root0 := by
      have h' := hrun
      simp only [runRows, h0, bind, Except.bind] at h'
      exact Lemmas.C03.foldlM_takeRest ext (Build.push_takeRest ext) rows root0 root h'
    exact Lemmas.C03.PlaceholderStr_of_takeRest_eq root0 root e hph
  obtain ⟨⟨arrs, rest⟩, hba⟩ := Lemmas.C03.buildArrays_totalH ext root hw hf hp
    (Lemmas.C03.BuiltFor_struct_root root _ _ hb)
  refine ⟨arrs, ?_⟩
  rw [Props.C03.toMarrow_eq, hrun]
  simp only [bind, Except.bind, hba, pure, Except.pure]

/-- … and then the arrays are what C01 says (`C01_build_decode''`) -/
theorem toMarrow_complete_decode'' (ext : Ext) (fields : List Field) (rows : List SVal) (root0 : B)
    (hschema : ∀ f ∈ fields, Lemmas.C03.SchemaOKF f)
    (hc : fields.all coveredWF = true) (h0 : newRoot fields = .ok root0)
    (hph : Lemmas.C03.PlaceholderStr root0)
    (htot : totalFs (Fields.ofList fields) = true)
    (htyped : Lemmas.C03.typedFs (Fields.ofList fields) = true)
    (hrows : ∀ r ∈ rows, noRaw r = true ∧ ∃ lv, interpRow ext fields r = .ok lv)
    (hcap : (rows.map (vsize ext)).sum ≤ room root0) :
    ∃ arrs, toMarrow ext fields rows = .ok arrs ∧ arrs.length = fields.length ∧
      ∃ cols : List (String × List LVal),
        arrs.map decodeAll = cols.map (fun c => c.2.map .ok) ∧ cols.map (·.1) = fields.map (·.name) ∧
        (∀ c ∈ cols, c.2.length = rows.length) ∧
        ∀ (i : Nat) (hi : i < rows.length),
          interpRow ext fields rows[i] = .ok (.struct (LFields.ofList (cols.map fun c => (c.1, c.2.getD i .null)))) := by
  obtain ⟨arrs, h⟩ := toMarrow_complete'' ext fields rows root0 hc h0 hph htot htyped hrows hcap
  exact ⟨arrs, h, C01_build_decode'' ext fields rows arrs hschema hc (fun x hx => noRaw_ssa x (hrows x hx).1)
    (Or.inl fun x hx => (hrows x hx).1) h⟩

/-- **`to_marrow` is complete on `coveredWF` ∧ `placeholderStrF`** — both decidable on the schema -/
theorem toMarrow_complete_schema'' (ext : Ext) (fields : List Field) (rows : List SVal) (root0 : B)
    (hschema : ∀ f ∈ fields, Lemmas.C03.SchemaOKF f)
    (hc : fields.all coveredWF = true) (hph : fields.all Lemmas.C03.placeholderStrF = true)
    (h0 : newRoot fields = .ok root0)
    (htot : totalFs (Fields.ofList fields) = true)
    (htyped : Lemmas.C03.typedFs (Fields.ofList fields) = true)
    (hrows : ∀ r ∈ rows, noRaw r = true ∧ ∃ lv, interpRow ext fields r = .ok lv)
    (hcap : (rows.map (vsize ext)).sum ≤ room root0) :
    ∃ arrs, toMarrow ext fields rows = .ok arrs ∧ arrs.length = fields.length ∧
      ∃ cols : List (String × List LVal),
        arrs.map decodeAll = cols.map (fun c => c.2.map .ok) ∧ cols.map (·.1) = fields.map (·.name) ∧
        (∀ c ∈ cols, c.2.length = rows.length) ∧
        ∀ (i : Nat) (hi : i < rows.length),
          interpRow ext fields rows[i] = .ok (.struct (LFields.ofList (cols.map fun c => (c.1, c.2.getD i .null)))) :=
  toMarrow_complete_decode'' ext fields rows root0 hschema hc h0 (Lemmas.C03.newRoot_PlaceholderStrW hph h0) htot htyped
    hrows hcap

/-- the former statement is the special case (`coveredF` gives both `coveredWF` and `PlaceholderStr`) -/
theorem toMarrow_complete'_of'' (ext : Ext) (fields : List Field) (rows : List SVal) (root0 : B)
    (hc : fields.all coveredF = true) (h0 : newRoot fields = .ok root0)
    (htot : totalFs (Fields.ofList fields) = true)
    (htyped : Lemmas.C03.typedFs (Fields.ofList fields) = true)
    (hrows : ∀ r ∈ rows, noRaw r = true ∧ ∃ lv, interpRow ext fields r = .ok lv)
    (hcap : (rows.map (vsize ext)).sum ≤ room root0) : ∃ arrs, toMarrow ext fields rows = .ok arrs :=
  toMarrow_complete'' ext fields rows root0 (Build.all_coveredWF_of_coveredF hc) h0
    (Lemmas.C03.newRoot_PlaceholderStr hc h0) htot htyped hrows hcap

/-! ### non-vacuity outside `coveredF`: `d: Dictionary(Int8, Int32)?` next to `l: List<Dictionary(UInt8, Utf8)>` -/

def exDictNullFields : List Field :=
  [.mk "d" (.dictionary .int8 .int32) true [],
   .mk "l" (.list (.mk "element" (.dictionary .uint8 .utf8) false [])) false []]
def exDictNullRows : List SVal :=
  [.record "R" (.cons "d" 0 .none (.cons "l" 0 (.seq (.cons (.str "a") (.cons (.str "b") (.cons (.str "a") .nil)))) .nil)),
   .record "R" (.cons "d" 0 .unit (.cons "l" 0 (.seq .nil) .nil))]

def exDictNullRoot : B :=
  .struct "$" 0 none
    (.cons (.dictionary "$.d" (.leaf "$.d.key" (.int .i8) (some []) []) (.leaf "$.d.value" (.int .i32) none []) [])
      ⟨"d", true, []⟩
    (.cons (.list "$.l" false ⟨"element", false, []⟩ none [0]
        (.dictionary "$.l.element" (.leaf "$.l.element.key" (.int .u8) none []) (.bytes "$.l.element.value" .utf8 none [0] []) []))
      ⟨"l", false, []⟩ .nil)) [none, none] 0 [false, false]

theorem exDictNullRoot_eq : newRoot exDictNullFields = .ok exDictNullRoot := by decide

/-- the schema predicate: true of the example (nullable refusing dictionary, non-nullable string dictionary), false of a
NON-nullable refusing dictionary, true again of a non-nullable Utf8View dictionary -/
example : exDictNullFields.all Lemmas.C03.placeholderStrF = true ∧
    Lemmas.C03.placeholderStrF (.mk "d" (.dictionary .int8 .int32) false []) = false ∧
    Lemmas.C03.placeholderStrF (.mk "d" (.dictionary .int8 .utf8View) false []) = true := by decide +kernel

/-- every hypothesis of `toMarrow_complete_schema''` discharged -/
example : ∃ arrs, toMarrow {} exDictNullFields exDictNullRows = .ok arrs ∧ arrs.length = exDictNullFields.length ∧
    ∃ cols : List (String × List LVal),
      arrs.map decodeAll = cols.map (fun c => c.2.map .ok) ∧ cols.map (·.1) = exDictNullFields.map (·.name) ∧
      (∀ c ∈ cols, c.2.length = exDictNullRows.length) ∧
      ∀ (i : Nat) (hi : i < exDictNullRows.length),
        interpRow {} exDictNullFields exDictNullRows[i] =
          .ok (.struct (LFields.ofList (cols.map fun c => (c.1, c.2.getD i .null)))) := by
  refine toMarrow_complete_schema'' {} exDictNullFields exDictNullRows exDictNullRoot ?_ (by decide +kernel)
    (by decide +kernel) exDictNullRoot_eq (by decide +kernel) (by decide +kernel) ?_ (by decide +kernel)
  · simp [exDictNullFields, Lemmas.C03.SchemaOKF, Lemmas.C03.SchemaOK, Lemmas.C03.SchemaOKFs]
  · intro r hr
    simp only [exDictNullRows, List.mem_cons, List.not_mem_nil, or_false] at hr
    rcases hr with rfl | rfl
    · exact ⟨by decide, ok_of_isOk (by decide +kernel)⟩
    · exact ⟨by decide, ok_of_isOk (by decide +kernel)⟩

example : exDictNullFields.all coveredWF = true ∧ exDictNullFields.all coveredF = false := by decide +kernel

/-- every hypothesis of `toMarrow_complete_decode''` discharged -/
example : ∃ arrs, toMarrow {} exDictNullFields exDictNullRows = .ok arrs ∧ arrs.length = exDictNullFields.length ∧
    ∃ cols : List (String × List LVal),
      arrs.map decodeAll = cols.map (fun c => c.2.map .ok) ∧ cols.map (·.1) = exDictNullFields.map (·.name) ∧
      (∀ c ∈ cols, c.2.length = exDictNullRows.length) ∧
      ∀ (i : Nat) (hi : i < exDictNullRows.length),
        interpRow {} exDictNullFields exDictNullRows[i] =
          .ok (.struct (LFields.ofList (cols.map fun c => (c.1, c.2.getD i .null)))) := by
  refine toMarrow_complete_decode'' {} exDictNullFields exDictNullRows exDictNullRoot ?_ (by decide +kernel)
    exDictNullRoot_eq ?_ (by decide +kernel) (by decide +kernel) ?_ (by decide +kernel)
  · simp [exDictNullFields, Lemmas.C03.SchemaOKF, Lemmas.C03.SchemaOK, Lemmas.C03.SchemaOKFs]
  · simp [exDictNullRoot, Lemmas.C03.PlaceholderStr, Lemmas.C03.PlaceholderStrL, Lemmas.C03.isStrB, isUtf8Ty,
      B.isNullable]
  · intro r hr
    simp only [exDictNullRows, List.mem_cons, List.not_mem_nil, or_false] at hr
    rcases hr with rfl | rfl
    · exact ⟨by decide, ok_of_isOk (by decide +kernel)⟩
    · exact ⟨by decide, ok_of_isOk (by decide +kernel)⟩

end SaModel.Props.C01
