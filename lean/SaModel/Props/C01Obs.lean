import SaModel.Lemmas.C01ObsR2
import SaModel.Lemmas.C01ObsRoot
import SaModel.Props.C01
import SaModel.Lemmas.C03TypeNew
/-
C01 / C03 — the "hidden rows" refinement: the refinement theorems and the end-to-end statements WITHOUT the first clause
of `Safe` ("no dictionary with non-nullable keys below a nullable struct / fixed-size list").

Why the statements about `dec` (Props/C01Refine.lean) need `Safe`: `dec b` reads every slot of a builder, also the slots hidden below a null ancestor.
A dictionary with NON-nullable keys whose parent row is null receives `serialize_default` and stores the placeholder key
0, which designates nothing while the dictionary is empty and the FIRST real value later: `dec` of that builder is not
append-only (`dict_placeholder_unstable`), although the slot is hidden and the property says such slots may hold anything.

The refinement below speaks about OBSERVABLE rows (vocabulary: Lemmas/C01ObsDefs.lean):
  `decH b : List (Option LVal)`   `dec b` with every row the state does not determine replaced by `none` (a dictionary
                                  row whose key designates no value; a container row that READS such a row — a row
                                  whose own validity bit is clear reads no child and is the determined `null`);
  `Refines new old`               same length, every determined row unchanged;
  `WFH`                           the state invariant `WFB` with the key clause weakened to what the builders maintain
                                  (in range, or the placeholder 0 of a non-nullable key builder);
  `NoDictKey`                     second clause of `Safe` (no dictionary-keyed dictionary): holds of every builder
                                  `build_builder` constructs (`newRoot_NoDictKey`), so it is no hypothesis at the top.

  R1'  push_refines        push ext b x = ok b' → WFH b → NoDictKey b → WFH b' ∧ ∃ lv, Refines (decH b') (decH b ++ [some lv])
       push_appends_det    … and if no row of b is undetermined (`Det b`: every strictly well-formed state, the root of
                           `to_marrow` after every record) then `dec b' = dec b ++ [lv]` and `Det b'`
  R2'  push_interp'        … and `interpDT ext dt n md x = ok lv` for the builder of a field of type dt
  R3'  runRows_interp'     `runRows_interp` without `hsafe` and with the weaker schema predicate `coveredWF` for `coveredF`
       runRows_rows'       `runRows_rows` without `hsafe` (no hypothesis on schema or records)
  C01_build_decode'        `C01_build_decode` without `hsafe`
  C03_wfS'                  `C03_wfS` with `hsafe` replaced by `Safe root0 ∨ coveredF` (see the theorem)
The `Safe`-carrying statements (Props/C01Refine.lean, Props/C01.lean, `C03_wfS` of Props/C03.lean) stand beside these;
under `WFB`/`Safe` they are special cases (`push_appends_of_refines`).
-/
namespace SaModel.Props.C01
open SaModel SaModel.Build SaModel.Spec

/-! ## R1' -/

/-- **R1' — no `Safe` clause 1.**  Every successful `push` (any serde value, ALL builder families, any nesting) keeps the
weak state invariant and appends exactly ONE DETERMINED observable row; every row that was determined is unchanged
(rows hidden below a null ancestor may change: they are `none` in `decH`). -/
theorem push_refines (ext : Ext) (x : SVal) (b b' : B) (hwf : WFH b) (hnd : NoDictKey b) (h : push ext b x = .ok b') :
    WFH b' ∧ NoDictKey b' ∧ ∃ lv, Refines (decH b') (decH b ++ [some lv]) := by
  obtain ⟨hw', lv, hd⟩ := Build.push_refines ext x b b' hwf hnd h
  exact ⟨hw', NoDictKey.of_takeRest (push_takeRest ext x b b' h) hnd, lv, hd⟩

/-- a null appends exactly the determined row `null` -/
theorem pushNone_refines (b b' : B) (hwf : WFH b) (hnd : NoDictKey b) (h : pushNone b = .ok b') :
    WFH b' ∧ Refines (decH b') (decH b ++ [some .null]) :=
  Build.pushNone_refines b b' hwf hnd h

/-- `k` placeholders (`serialize_default`, issued below a null ancestor): `k` more rows, what they read is left open,
every determined row is unchanged -/
theorem pushDefault_refines (b : B) (k : Nat) (b' : B) (hwf : WFH b) (hnd : NoDictKey b) (h : pushDefaultK b k = .ok b') :
    WFH b' ∧ Refines (decH b') (decH b ++ List.replicate k none) :=
  Build.pushDefaultK_refines b k b' hwf hnd h

/-- a determined observable row is the row `dec` reads (no hypothesis), and there are as many observable rows as rows -/
theorem decH_sound (b : B) : Refines ((dec b).map some) (decH b) := Build.decH_sound b
theorem decH_length (b : B) : (decH b).length = (dec b).length := Build.decH_length b

/-- under the strict invariant every row is determined, and the strict invariant implies the weak one: the statements of
this file contain the `Safe`-carrying ones -/
theorem decH_of_WFB (b : B) (h : WFB b) : decH b = (dec b).map some := Build.decH_of_WFB b h
theorem WFH_of_WFB (b : B) (h : WFB b) : WFH b := Build.WFH_of_WFB b h
theorem NoDictKey_of_Safe (b : B) (h : Safe b) : NoDictKey b := Build.NoDictKey_of_Safe b h

/-- **R1 for determined states, no `Safe` clause 1**: `Det b` (no row of `b` is undetermined — every strictly well-formed
state `Det_of_WFB`, and the root of `to_marrow` after every record) is kept by every push, and then the push appends
exactly one row to `dec`. -/
theorem push_appends_det (ext : Ext) (x : SVal) (b b' : B) (hw : WFH b) (hn : NoDictKey b) (hd : Det b)
    (h : push ext b x = .ok b') :
    WFH b' ∧ NoDictKey b' ∧ Det b' ∧ ∃ lv, dec b' = dec b ++ [lv] :=
  let ⟨a, b, c, lv, d, _⟩ := Build.push_appends_det ext x b b' hw hn hd h
  ⟨a, b, c, lv, d⟩

/-- the conclusion of R1 (`push_appends`) from R1', under the strict invariant `WFB` -/
theorem push_appends_of_refines (ext : Ext) (x : SVal) (b b' : B) (hwf : WFB b) (hnd : NoDictKey b)
    (h : push ext b x = .ok b') : ∃ lv, dec b' = dec b ++ [lv] :=
  let ⟨_, _, _, r⟩ := push_appends_det ext x b b' (Build.WFH_of_WFB b hwf) hnd (Det_of_WFB hwf) h
  r

/-- every builder `build_builder` constructs has integer-leaf dictionary keys: `NoDictKey` is no hypothesis at the top -/
theorem newRoot_NoDictKey (fields : List Field) (root0 : B) (h : newRoot fields = .ok root0) : NoDictKey root0 :=
  Build.newRoot_NoDictKey h

/-- **R3' (row count), no `Safe`** -/
theorem runRows_rows' (ext : Ext) (fields : List Field) (rows : List SVal) (root0 root : B)
    (h0 : newRoot fields = .ok root0) (h : runRows ext fields rows = .ok root) :
    WFH root ∧ Det root ∧ (dec root).length = rows.length ∧ takeRest root = root0 ∧
      ∀ col ∈ decRoot root, col.length = rows.length :=
  let ⟨a, _, c, d, e, f⟩ := Build.runRows_rowsH ext fields rows root0 root h0 h
  ⟨a, c, d, e, f⟩

/-! ### the counter-example `dict_placeholder_unstable` is inside R1' -/

/-- the state of `dict_placeholder_unstable`: a non-nullable-key dictionary holding one placeholder key and no value -/
def exPlaceholderDict : B :=
  .dictionary "$.s.d" (.leaf "$.s.d.key" (.int .u32) none [0]) (.bytes "$.s.d.value" .utf8 none [0] []) []

/-- it violates the strict invariant, satisfies the weak one, its single row is undetermined … -/
example : ¬ WFB exPlaceholderDict ∧ WFH exPlaceholderDict ∧ NoDictKey exPlaceholderDict ∧
    decH exPlaceholderDict = [none] := by
  refine ⟨?_, ?_, by simp [exPlaceholderDict, NoDictKey, B.isDict], by decide⟩
  · intro h
    simp only [exPlaceholderDict, WFB] at h
    have hm : LVal.int 0 ∈ dec (B.leaf "$.s.d.key" (.int .u32) none [0]) := by
      rw [show dec (B.leaf "$.s.d.key" (.int .u32) none [0]) = [.int 0] from by decide]; simp
    have := h.2.2.2.2.1 (.int 0) hm 0 rfl
    simp at this
  · simp only [exPlaceholderDict, WFH]
    refine ⟨VLen.none _, ⟨⟨rfl, rfl, by decide⟩, VLen.none _⟩, by decide, by decide, ?_, ⟨fun _ => by decide, fun _ => rfl⟩, by decide⟩
    intro k hk j hj
    have : dec (B.leaf "$.s.d.key" (.int .u32) none [0]) = [.int 0] := by decide
    rw [this] at hk
    simp at hk; subst hk; cases hj
    exact ⟨by omega, Or.inr ⟨rfl, rfl⟩⟩

/-- … and pushing the first real value (where `dec` jumps from `[null]` to `["a", "a"]`) is an instance of R1': the
undetermined row becomes "a", the new row is the determined "a" -/
example : ∃ b', push {} exPlaceholderDict (.str "a") = .ok b' ∧ decH b' = [some (.str [97]), some (.str [97])] ∧
    Refines (decH b') (decH exPlaceholderDict ++ [some (.str [97])]) := by
  refine ⟨.dictionary "$.s.d" (.leaf "$.s.d.key" (.int .u32) none [0, 0])
    (.bytes "$.s.d.value" .utf8 none [0, 1] [97]) ["a"], by decide +kernel, by decide +kernel, ?_⟩
  have e1 : decH (B.dictionary "$.s.d" (.leaf "$.s.d.key" (.int .u32) none [0, 0])
      (.bytes "$.s.d.value" .utf8 none [0, 1] [97]) ["a"]) = [some (.str [97]), some (.str [97])] := by decide +kernel
  have e2 : decH exPlaceholderDict = [none] := by decide
  rw [e1, e2]
  refine ⟨rfl, ?_⟩
  intro i x hx
  match i, hx with
  | 1, hx => simpa using hx

/-! ## R2' -/

/-- **R2' — no `Safe` clause 1.**  The determined row a successful push appends is the documented one: `Spec.interpDT`
at the field the builder was built for; hypotheses on the value as in `push_interp` (`hraw`, `hnar`). -/
theorem push_interp' (ext : Ext) (x : SVal) (b b' : B) (dt : DataType) (n : Bool) (md : Metadata)
    (hraw : structStreamsAlternate x = true) (hnar : noRaw x = true ∨ narrowDT dt = true)
    (hwf : WFH b) (hnd : NoDictKey b) (hshape : Shape b dt n md) (h : push ext b x = .ok b') :
    WFH b' ∧ NoDictKey b' ∧ Shape b' dt n md ∧
      ∃ lv, Refines (decH b') (decH b ++ [some lv]) ∧ interpDT ext dt n md x = .ok lv := by
  have ht := push_takeRest ext x b b' h
  obtain ⟨hw', hn', lv, hd⟩ := push_refines ext x b b' hwf hnd h
  refine ⟨hw', hn', Shape.of_takeRest ht hshape, lv, hd, ?_⟩
  rcases hnar with hno | hnar
  · exact Build.push_interpH ext false x b b' dt n md lv hno (fun hn => by cases hn) hwf hnd hshape h hd
      (Lemmas.C03.WFH_small b' hw')
  · exact Build.push_interpH ext true x b b' dt n md lv hraw (fun _ => hnar) hwf hnd hshape h hd
      (Lemmas.C03.WFH_small b' hw')

/-- R2' for determined states: the row appended to `dec` is the documented one -/
theorem push_interp_det (ext : Ext) (x : SVal) (b b' : B) (dt : DataType) (n : Bool) (md : Metadata)
    (hraw : structStreamsAlternate x = true) (hnar : noRaw x = true ∨ narrowDT dt = true)
    (hwf : WFH b) (hnd : NoDictKey b) (hdet : Det b) (hshape : Shape b dt n md) (h : push ext b x = .ok b') :
    WFH b' ∧ NoDictKey b' ∧ Det b' ∧ Shape b' dt n md ∧
      ∃ lv, dec b' = dec b ++ [lv] ∧ interpDT ext dt n md x = .ok lv := by
  obtain ⟨hw', hn', hd', lv, he, hr⟩ := Build.push_appends_det ext x b b' hwf hnd hdet h
  obtain ⟨_, _, hsh', lv', hr', hi⟩ := push_interp' ext x b b' dt n md hraw hnar hwf hnd hshape h
  have := Refines.snoc_inj hr hr'
  subst this
  exact ⟨hw', hn', hd', hsh', lv, he, hi⟩

theorem foldl_push_interp' (ext : Ext) (dt : DataType) (n : Bool) (md : Metadata) : ∀ (rows : List SVal) (b b' : B),
    (∀ x ∈ rows, structStreamsAlternate x = true) → ((∀ x ∈ rows, noRaw x = true) ∨ narrowDT dt = true) →
    WFH b → NoDictKey b → Det b → Shape b dt n md → rows.foldlM (push ext) b = .ok b' →
    ∃ ls, dec b' = dec b ++ ls ∧ All2 (fun lv x => interpDT ext dt n md x = .ok lv) ls rows
  | [], b, b', _, _, _, _, _, _, h => by
    simp [List.foldlM, pure, Except.pure] at h; subst h
    exact ⟨[], by simp, .nil⟩
  | x :: rest, b, b', hraw, hnar, hwf, hs, hdet, hsh, h => by
    simp only [List.foldlM] at h
    obtain ⟨b1, h1, h⟩ := (bind_ok _ _ _).1 h
    obtain ⟨hw1, hs1, hd1', hsh1, lv, hd1, hi⟩ := push_interp_det ext x b b1 dt n md (hraw x (by simp))
      (hnar.imp (fun hno => hno x (by simp)) id) hwf hs hdet hsh h1
    obtain ⟨ls, hd, hall⟩ := foldl_push_interp' ext dt n md rest b1 b' (fun y hy => hraw y (by simp [hy]))
      (hnar.imp (fun hno y hy => hno y (by simp [hy])) id) hw1 hs1 hd1' hsh1 h
    exact ⟨lv :: ls, by rw [hd, hd1]; simp, .cons hi hall⟩

/-- **R3' — `runRows_interp` without `Safe`.**  After all records have been pushed into a fresh root, the rows the root
holds are exactly the documented rows `interpRow` of the records, in order; the root is a struct of `rows.length` rows
without validity, and every column has length `rows.length`.  `coveredWF` (Lemmas/C01NewShape.lean) is true of everything
`build_builder` refuses and of everything it accepts EXCEPT `Dictionary(integer, V)` with `V` ∈ Utf8View, Date32, Date64,
Time32, Time64, Timestamp, Duration, Decimal128, Dictionary (value builders that accept strings without being Utf8 /
LargeUtf8 builders); a dictionary whose value builder refuses strings (`V` = Null, Boolean, an integer / float type, a
binary type, a list, map, struct or union) is INSIDE: every non-null push into it fails, as the specification demands. -/
theorem runRows_interp' (ext : Ext) (fields : List Field) (rows : List SVal) (root0 root : B)
    (hc : fields.all coveredWF = true) (h0 : newRoot fields = .ok root0)
    (hraw : ∀ x ∈ rows, structStreamsAlternate x = true)
    (hnar : (∀ x ∈ rows, noRaw x = true) ∨ narrowRoot fields = true) (h : runRows ext fields rows = .ok root) :
    All2 (fun lv x => interpRow ext fields x = .ok lv) (dec root) rows ∧
    (∀ col ∈ decRoot root, col.length = rows.length) ∧
    ∃ p fs cached next seen, root = .struct p rows.length none fs cached next seen ∧
      dec root = (List.range rows.length).map (rowAt (decCols fs)) := by
  have hrows := runRows_rows' ext fields rows root0 root h0 h
  have h' := h
  simp only [runRows, h0] at h'
  have h' : rows.foldlM (push ext) root0 = .ok root := h'
  obtain ⟨hw0, hd0, ht0⟩ := newRoot_fresh h0
  obtain ⟨ls, hd, hall⟩ := foldl_push_interp' ext _ _ _ rows root0 root hraw hnar (Build.WFH_of_WFB _ hw0)
    (Build.newRoot_NoDictKey h0) (Det_of_WFB hw0) (newRoot_shapeW hc h0) h'
  rw [hd0, List.nil_append] at hd
  refine ⟨by rw [hd]; exact hall, hrows.2.2.2.2, ?_⟩
  obtain ⟨p, bl, c, s, hr0⟩ := runRows_interp.newRoot_struct h0
  obtain ⟨p', len, fs, cached, next, seen, rfl⟩ := runRows_rows.struct_of_takeRest root (hrows.2.2.2.1.trans hr0)
  have hlen : len = rows.length := by
    have := hrows.2.2.1
    simpa [dec_struct, maskNull] using this
  subst hlen
  exact ⟨_, _, _, _, _, rfl, by rw [dec_struct]; rfl⟩

/-- non-vacuity of `runRows_interp'` OUTSIDE `covered`: `d: Dictionary(Int8, Int32)?` — the value builder refuses strings — is
inside `coveredWF`; a batch of nulls is accepted and the hypotheses of R3' hold; a string is refused by the builder and
undefined in the specification alike -/
def exRefusingFields : List Field := [.mk "d" (.dictionary .int8 .int32) true []]
def exRefusingRows : List SVal := [.record "R" (.cons "d" 0 .none .nil), .record "R" (.cons "d" 0 .unit .nil)]

example : exRefusingFields.all coveredWF = true ∧ exRefusingFields.all coveredF = false ∧
    (∀ x ∈ exRefusingRows, structStreamsAlternate x = true) ∧ (∀ x ∈ exRefusingRows, noRaw x = true) ∧
    (runRows {} exRefusingFields exRefusingRows).isOk = true ∧
    (exRefusingRows.map (interpRow {} exRefusingFields)).all (·.isOk) = true ∧
    (interpRow {} exRefusingFields (.record "R" (.cons "d" 0 (.str "5") .nil))).isErr = true ∧
    (toMarrow {} exRefusingFields [.record "R" (.cons "d" 0 (.str "5") .nil)]).isErr = true := by decide +kernel

/-! ## the end-to-end statements -/

/-- **C01 for `to_marrow` — `C01_build_decode` WITHOUT `hsafe`.**  Whenever serializing `rows` against `fields` succeeds,
the returned arrays decode (Arrow reading rules) to columns `cols` — one per field, named after it, of `rows.length` slots
each — and the documented value `Spec.interpRow` of the `i`-th input record is exactly the struct whose `j`-th field is
slot `i` of column `j`.  Every schema `build_builder` accepts with `coveredF`, INCLUDING dictionaries with non-nullable
keys below nullable structs / fixed-size lists (the slots hidden below a null hold the placeholder key 0, read through
the dummy value `into_array` appends — the reading rules never look at them).  Remaining hypotheses: `hschema`, `hcov`,
`hraw`, `hnar` exactly as in `C01_build_decode`. -/
theorem C01_build_decode' (ext : Ext) (fields : List Field) (rows : List SVal) (arrs : List Arr)
    (hschema : ∀ f ∈ fields, Lemmas.C03.SchemaOKF f)
    (hcov : fields.all Build.coveredF = true)
    (hraw : ∀ x ∈ rows, Build.structStreamsAlternate x = true)
    (hnar : (∀ x ∈ rows, Build.noRaw x = true) ∨ Build.narrowRoot fields = true)
    (h : toMarrow ext fields rows = .ok arrs) :
    arrs.length = fields.length ∧
    ∃ cols : List (String × List LVal),
      arrs.map decodeAll = cols.map (fun c => c.2.map .ok) ∧
      cols.map (·.1) = fields.map (·.name) ∧
      (∀ c ∈ cols, c.2.length = rows.length) ∧
      ∀ (i : Nat) (hi : i < rows.length),
        interpRow ext fields rows[i] = .ok (.struct (LFields.ofList (cols.map fun c => (c.1, c.2.getD i .null)))) := by
  suffices hcols : ∃ cols : List (String × List LVal),
      arrs.map decodeAll = cols.map (fun c => c.2.map .ok) ∧
      cols.map (·.1) = fields.map (·.name) ∧
      (∀ c ∈ cols, c.2.length = rows.length) ∧
      ∀ (i : Nat) (hi : i < rows.length),
        interpRow ext fields rows[i] = .ok (.struct (LFields.ofList (cols.map fun c => (c.1, c.2.getD i .null)))) by
    obtain ⟨cols, h1, h2, h3, h4⟩ := hcols
    refine ⟨?_, cols, h1, h2, h3, h4⟩
    have e1 := congrArg List.length h1
    have e2 := congrArg List.length h2
    simp only [List.length_map] at e1 e2
    omega
  -- the fresh root, and the facts about the final state
  have hfacts : ∀ root, runRows ext fields rows = .ok root → ∃ root0, newRoot fields = .ok root0 ∧
      WFH root ∧ Det root := by
    intro root hrun
    have h0 : ∃ root0, newRoot fields = .ok root0 := by
      simp only [runRows] at hrun
      cases hr : newRoot fields with
      | error e => rw [hr] at hrun; cases hrun
      | ok r0 => exact ⟨r0, rfl⟩
    obtain ⟨root0, h0⟩ := h0
    obtain ⟨hw, hd, _⟩ := runRows_rows' ext fields rows root0 root h0 hrun
    exact ⟨root0, h0, hw, hd⟩
  have hrootdet : ∀ root, runRows ext fields rows = .ok root →
      ∀ c ∈ Lemmas.C03.decHRoot root, ∀ r ∈ c, r.isSome = true := by
    intro root hrun
    obtain ⟨root0, h0, hw, hd⟩ := hfacts root hrun
    obtain ⟨_, _, p, fs, cached, next, seen, rfl, _⟩ := runRows_interp' ext fields rows root0 root (Build.all_coveredWF_of_coveredF hcov) h0 hraw hnar hrun
    intro c hc
    simp only [Lemmas.C03.decHRoot, List.mem_map] at hc
    obtain ⟨c', hc', rfl⟩ := hc
    exact det_root_cols hw hd c' hc'
  obtain ⟨root, hrun, hdec⟩ := Lemmas.C03.toMarrow_decode_of_WFH ext fields rows arrs hschema hcov
    (fun r hr => let ⟨_, _, hw, _⟩ := hfacts r hr; hw) hrootdet h
  obtain ⟨root0, h0, hw, hd⟩ := hfacts root hrun
  obtain ⟨hall, hcols, p, fs, cached, next, seen, rfl, hdecr⟩ :=
    runRows_interp' ext fields rows root0 root (Build.all_coveredWF_of_coveredF hcov) h0 hraw hnar hrun
  refine ⟨decCols fs, ?_, ?_, ?_, ?_⟩
  · rw [hdec]
    simp only [decRoot, List.map_map]
    rfl
  · have hb := Lemmas.C03.runRows_builtFor ext fields rows _ (Build.push_takeRest ext) hrun
    simp only [Lemmas.C03.BuiltFor] at hb
    obtain ⟨fields', hfe, _, hbl⟩ := hb
    simp only [DataType.struct.injEq] at hfe
    subst hfe
    exact C01_build_decode.decCols_names fs _ hbl
  · intro c hc
    exact hcols c.2 (by simp only [decRoot, List.mem_map]; exact ⟨c, hc, rfl⟩)
  · intro i hi
    obtain ⟨hl, hg⟩ := Props.C03.All2_get hall
    have h1 : i < (dec (B.struct p rows.length none fs cached next seen)).length := by rw [hl]; exact hi
    have := hg i h1 hi
    rw [this]
    congr 1
    simp only [hdecr, List.getElem_map, List.getElem_range, Build.rowAt]

/-- **C03 — `C03_wfS` with `hsafe` weakened.**  Every array `to_marrow` returns is a well-formed array of its field
(`Spec.WFS`), one array per field, every array of `rows.length` rows — for schemas that are `Safe` (the old theorem) OR
`coveredF` (every dictionary has integer keys and Utf8/LargeUtf8 values: then the placeholder keys hidden below a null
designate the dummy value `""` that `DictionaryUtf8Builder::into_array` appends, `finish` has that branch, and the
finished dictionary is well formed).  What is still excluded: a schema that is neither — a dictionary with
NON-nullable keys and a value type other than Utf8/LargeUtf8 below a nullable struct / fixed-size list. -/
theorem C03_wfS' (ext : Ext) (fields : List Field) (rows : List SVal) (arrs : List Arr)
    (hschema : ∀ f ∈ fields, Lemmas.C03.SchemaOKF f)
    (hsafe : (∀ root0, newRoot fields = .ok root0 → Safe root0) ∨ fields.all Build.coveredF = true)
    (hext : Lemmas.C03.ExtOK ext)
    (hrows : ∀ x ∈ rows, Lemmas.C03.SValOK x)
    (h : toMarrow ext fields rows = .ok arrs) :
    arrs.length = fields.length ∧
    ∀ (j : Nat) (f : Field) (a : Arr), fields[j]? = some f → arrs[j]? = some a →
      WFS f a = true ∧ (decodeAll a).length = rows.length := by
  rcases hsafe with hsafe | hcov
  · exact Props.C03.C03_wfS ext fields rows arrs hschema hsafe hext hrows h
  · have hwfh : ∀ root, runRows ext fields rows = .ok root → WFH root ∧ (dec root).length = rows.length := by
      intro root hrun
      have h0 : ∃ root0, newRoot fields = .ok root0 := by
        simp only [runRows] at hrun
        cases hr : newRoot fields with
        | error e => rw [hr] at hrun; cases hrun
        | ok r0 => exact ⟨r0, rfl⟩
      obtain ⟨root0, h0⟩ := h0
      obtain ⟨hw, _, hl, _⟩ := runRows_rows' ext fields rows root0 root h0 hrun
      exact ⟨hw, hl⟩
    obtain ⟨hlen, n, hall⟩ := Lemmas.C03.C03_wf_of_WFH ext fields rows arrs hschema hcov hext hrows
      (fun r hr => (hwfh r hr).1) h
    refine ⟨hlen, ?_⟩
    intro j f a hfj haj
    obtain ⟨hwf, hn⟩ := hall j f a hfj haj
    refine ⟨hwf, ?_⟩
    -- the common length is the number of rows: the arrays decode to the columns of the final state
    obtain ⟨root, hrun, rest, hba⟩ := Props.C03.toMarrow_split ext fields rows arrs h
    have hw := (hwfh root hrun).1
    have hs := (Lemmas.C03.root_factsH ext fields rows root hschema hw
      (Lemmas.C03.runRows_PlaceholderOK_of_covered ext fields rows root hcov hrun) hrun).2.1
    cases root with
    | struct p len v fs cached next seen =>
      simp only [buildArrays, bind, Except.bind] at hba
      cases hf : finishFields ext fs with
      | error e => rw [hf] at hba; cases hba
      | ok afs =>
        rw [hf] at hba
        simp only [pure, Except.pure, Except.ok.injEq, Prod.mk.injEq] at hba
        obtain ⟨rfl, _⟩ := hba
        have hd := Lemmas.C03.finishFields_decodePH ext fs afs
          (Lemmas.C03.WFHL_WFHs fs len (Lemmas.C03.WFH_struct hw).2) (Lemmas.C03.Sound_struct hs) hf
        rw [List.getElem?_map] at haj
        cases hma : afs.toList[j]? with
        | none => rw [hma] at haj; cases haj
        | some ma =>
          rw [hma] at haj
          simp only [Option.map_some, Option.some.injEq] at haj
          subst haj
          have e := Props.C03.ArrFields_toList_decode afs
          have hj : (afs.toList.map (fun ma => decodeAll ma.2))[j]? = some (decodeAll ma.2) := by
            rw [List.getElem?_map, hma]; rfl
          rw [e, hd, List.map_map] at hj
          rw [List.getElem?_map] at hj
          cases hc : (Lemmas.C03.decPCols fs)[j]? with
          | none => rw [hc] at hj; cases hj
          | some c =>
            rw [hc] at hj
            simp only [Option.map_some, Function.comp, Option.some.injEq] at hj
            rw [← hj, List.length_map]
            have hcl := Lemmas.C03.decPCols_lenH fs len (Lemmas.C03.WFH_struct hw).2 c (List.mem_of_getElem? hc)
            rw [hcl]
            have hv : (dec (B.struct p len v fs cached next seen)).length = len := by
              simp only [dec]
              exact Lemmas.C03.maskNull_length v len _ (Lemmas.C03.WFH_struct hw).1 (by simp)
            have := (hwfh _ hrun).2
            omega
    | _ => simp [buildArrays, panic] at hba

/-! ### a worked instance OUTSIDE `Safe`: every hypothesis of `C01_build_decode'` discharged on a real run

Schema `{s: Struct{d: Dictionary(UInt8, Utf8)}?}` — a dictionary with NON-nullable keys below a nullable struct, the
shape `Safe` excludes.  Three records: `s = None` (the dictionary receives the placeholder key 0 while it is empty),
`s = {d: "a"}` (the first real value: the hidden slot now designates "a"), `s = None` again. -/

def exUnsafeFields : List Field :=
  [.mk "s" (.struct (.cons (.mk "d" (.dictionary .uint8 .utf8) false []) .nil)) true []]
def exUnsafeRows : List SVal :=
  [.record "R" (.cons "s" 0 .none .nil),
   .record "R" (.cons "s" 0 (.some (.record "S" (.cons "d" 0 (.str "a") .nil))) .nil),
   .record "R" (.cons "s" 0 .none .nil)]

/-- the schema is outside `Safe` … -/
theorem exUnsafe_not_safe : ∀ root0, newRoot exUnsafeFields = .ok root0 → ¬ Safe root0 := by
  intro root0 h0
  rw [show newRoot exUnsafeFields = .ok (.struct "$" 0 none
    (.cons (.struct "$.s" 0 (some [])
        (.cons (.dictionary "$.s.d" (.leaf "$.s.d.key" (.int .u8) none []) (.bytes "$.s.d.value" .utf8 none [0] []) [])
          ⟨"d", false, []⟩ .nil) [none] 0 [false]) ⟨"s", true, []⟩ .nil) [none] 0 [false]) from by decide] at h0
  cases h0
  simp [Safe, SafeL, DefSafe, DefSafeL, B.isNullable]

/-- … serialization succeeds … -/
theorem exUnsafeOk : (toMarrow {} exUnsafeFields exUnsafeRows).isOk = true := by decide +kernel

/-- … and `C01_build_decode'` applies with every hypothesis discharged -/
example : ∀ arrs, toMarrow {} exUnsafeFields exUnsafeRows = .ok arrs → arrs.length = exUnsafeFields.length ∧
    ∃ cols : List (String × List LVal), arrs.map decodeAll = cols.map (fun c => c.2.map .ok) ∧
      cols.map (·.1) = exUnsafeFields.map (·.name) ∧ (∀ c ∈ cols, c.2.length = exUnsafeRows.length) ∧
      ∀ (i : Nat) (hi : i < exUnsafeRows.length), interpRow {} exUnsafeFields exUnsafeRows[i] =
        .ok (.struct (LFields.ofList (cols.map fun c => (c.1, c.2.getD i .null)))) := by
  intro arrs h
  refine C01_build_decode' {} exUnsafeFields exUnsafeRows arrs ?_ (by decide) (by decide) (Or.inl (by decide)) h
  simp [exUnsafeFields, Lemmas.C03.SchemaOKF, Lemmas.C03.SchemaOK, Lemmas.C03.SchemaOKFs]

/-- … as does `C03_wfS'` (through its second alternative) -/
example : ∀ arrs, toMarrow {} exUnsafeFields exUnsafeRows = .ok arrs → arrs.length = exUnsafeFields.length ∧
    ∀ (j : Nat) (f : Field) (a : Arr), exUnsafeFields[j]? = some f → arrs[j]? = some a →
      WFS f a = true ∧ (decodeAll a).length = exUnsafeRows.length := by
  intro arrs h
  refine C03_wfS' {} exUnsafeFields exUnsafeRows arrs ?_ (Or.inr (by decide)) ?_ ?_ h
  · simp [exUnsafeFields, Lemmas.C03.SchemaOKF, Lemmas.C03.SchemaOK, Lemmas.C03.SchemaOKFs]
  · exact { date32 := (by intro s v h; cases h), date64 := (by intro s v h; cases h),
            time := (by intro u s v h; cases h), timestamp := (by intro u utc s v h; cases h),
            duration := (by intro u s v h; cases h) }
  · intro x hx
    simp only [exUnsafeRows, List.mem_cons, List.not_mem_nil, or_false] at hx
    rcases hx with rfl | rfl | rfl <;>
      simp [Lemmas.C03.SValOK, Lemmas.C03.SFieldsOK, Lemmas.C03.ScalarOK]

/-- what the run really holds: the dictionary child reads "a" in all three slots (two of them hidden placeholders), the
struct column reads null, {d: "a"}, null -/
example : (do let root ← runRows {} exUnsafeFields exUnsafeRows; pure (decRoot root) : R (List (List LVal))) =
    .ok [[.null, .struct (.cons "d" (.str [97]) .nil), .null]] := by decide +kernel

/-! ### C03 with type equality (round c03f)

`Spec.WF f a = Spec.WFS f a ∧ Spec.typeOf a = f.dataType`: `typeOf` is marrow's `Array::data_type`, written over the
physical array alone.  `C03_wfS'` above is the structural half (`WFS`, the former `WF`, whose `.union` / `.map` arms do not
look at the union mode and at the nullability / metadata of the entries field).  The type half: `build_builder` refuses
sparse unions and nullable Map entries (repo fixes c63d82e, 25f1351 — `Lemmas.C03.newRoot_strict`), and for such a type a
structurally valid array has exactly that type (`Lemmas.C03.wf_typeOf`, arbitrary arrays). -/

/-- **C03, the headline (`Spec.WF` = `Spec.WFS` ∧ `Spec.typeOf a = f.dataType`).**  Every array `to_marrow` returns is a
structurally valid array WHOSE DATA TYPE EQUALS the data type of its field — child names, nullability, metadata, time units
and zones, precision / scale, sizes, union mode and type ids, the map's sorted flag and entries field, dictionary key / value
types — one array per field, every array of `rows.length` rows.  Hypotheses: those of `C03_wfS'` (`hschema`: no
`FixedSizeBinary(0)`, known finding C03-fixed-size-binary-0; `hsafe`: `Safe` of the fresh root OR `coveredF` of every field;
`hext`: `ExtOK`; `hrows`: `SValOK`) plus `hplain`, the exclusion of the KNOWN finding C03-map-entries-metadata (metadata on the
ENTRIES field of a Map is dropped: marrow's `MapMeta` has no room for it; witness `Props.C03.entries_metadata_not_WF` in
Props/C03Typed.lean). -/
theorem C03_wf' (ext : Ext) (fields : List Field) (rows : List SVal) (arrs : List Arr)
    (hschema : ∀ f ∈ fields, Lemmas.C03.SchemaOKF f)
    (hplain : ∀ f ∈ fields, Lemmas.C03.PlainF f)
    (hsafe : (∀ root0, newRoot fields = .ok root0 → Safe root0) ∨ fields.all Build.coveredF = true)
    (hext : Lemmas.C03.ExtOK ext)
    (hrows : ∀ x ∈ rows, Lemmas.C03.SValOK x)
    (h : toMarrow ext fields rows = .ok arrs) :
    arrs.length = fields.length ∧
    ∀ (j : Nat) (f : Field) (a : Arr), fields[j]? = some f → arrs[j]? = some a →
      WF f a = true ∧ (decodeAll a).length = rows.length := by
  obtain ⟨hlen, hall⟩ := C03_wfS' ext fields rows arrs hschema hsafe hext hrows h
  have h0 : ∃ root0, newRoot fields = .ok root0 := by
    simp only [toMarrow, bind, Except.bind] at h
    cases hr : newRoot fields with
    | error e => rw [hr] at h; cases h
    | ok r0 => exact ⟨r0, rfl⟩
  obtain ⟨root0, h0⟩ := h0
  have hstrict := Lemmas.C03.newRoot_strict fields root0 h0 hplain
  refine ⟨hlen, fun j f a hf ha => ?_⟩
  obtain ⟨hw, hn⟩ := hall j f a hf ha
  exact ⟨Lemmas.C03.WF_of_WFS f a hw (hstrict f (List.mem_of_getElem? hf)), hn⟩

/-- non-vacuity: the instance above (outside `Safe`), now with the type of every array -/
example : ∀ arrs, toMarrow {} exUnsafeFields exUnsafeRows = .ok arrs → arrs.length = exUnsafeFields.length ∧
    ∀ (j : Nat) (f : Field) (a : Arr), exUnsafeFields[j]? = some f → arrs[j]? = some a →
      WF f a = true ∧ (decodeAll a).length = exUnsafeRows.length := by
  intro arrs h
  refine C03_wf' {} exUnsafeFields exUnsafeRows arrs ?_ ?_ (Or.inr (by decide)) ?_ ?_ h
  · simp [exUnsafeFields, Lemmas.C03.SchemaOKF, Lemmas.C03.SchemaOK, Lemmas.C03.SchemaOKFs]
  · simp [exUnsafeFields, Lemmas.C03.PlainF, Lemmas.C03.PlainDT, Lemmas.C03.PlainFs]
  · exact { date32 := (by intro s v h; cases h), date64 := (by intro s v h; cases h),
            time := (by intro u s v h; cases h), timestamp := (by intro u utc s v h; cases h),
            duration := (by intro u s v h; cases h) }
  · intro x hx
    simp only [exUnsafeRows, List.mem_cons, List.not_mem_nil, or_false] at hx
    rcases hx with rfl | rfl | rfl <;>
      simp [Lemmas.C03.SValOK, Lemmas.C03.SFieldsOK, Lemmas.C03.ScalarOK]

end SaModel.Props.C01
