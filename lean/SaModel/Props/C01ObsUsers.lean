import SaModel.Props.C01Obs
import SaModel.Props.C05
import SaModel.Props.C11Arrays
import SaModel.Props.C03Traced
/-
The users of `C01_build_decode` / `C03_wf` / R2 / R3 restated WITHOUT the first clause of `Safe`, where dropping the
hypothesis is a pure replacement of the theorem they call (Props/C01Obs.lean: `C01_build_decode'`, `C03_wf'`,
`push_interp'`, `runRows_interp'`).  The old statements stay where they are; each theorem here keeps the name of the
old one with a prime, in the old one's namespace:

  C05 (umbrella)   C05_push_ok_exact', C05_interp_undefined_rejected', C05_new_interp_undefined_rejected',
                   C05_toMarrow_ok_exact', C05_toMarrow_undefined_rejected'
  C03 (instances)  C03_wf_codec', C03_wf_codec_typed', C03_wf_traced', C01_build_decode_codec'
  C10 (arrays)     C10_histories', C10_builds_wf'
  C11              presentation_independent', runRows_presentation_independent', C11_presentations',
                   C11_neighbours_undisturbed', C11_undefined_refused', C11_missing_or_duplicate_refused',
                   C11_histories_presentations', items_arrays'

Not pure replacements, ported separately: the state-level history theorems of Props/C10.lean (`batches'`,
`batches_interp'`: Props/C10Obs.lean, invariant `HoldsH`) and the completeness direction (`push_complete'` …
`toMarrow_complete_decode'`: Props/C01CompleteObs.lean, its own mutual recursion on the weak invariant).
-/

namespace SaModel.Props.C05
open SaModel SaModel.Build SaModel.Spec

/-- **ok ⇒ exact (one push), no `Safe` clause 1.**  `C05_push_ok_exact` for a determined state under the weak invariant
(`Det b`: every strictly well-formed state, the root of `to_marrow` after every record). -/
theorem C05_push_ok_exact' (ext : Ext) (x : SVal) (b b' : B) (dt : DataType) (n : Bool) (md : Metadata)
    (hraw : structStreamsAlternate x = true) (hnar : noRaw x = true ∨ narrowDT dt = true)
    (hwf : WFH b) (hnd : NoDictKey b) (hdet : Det b) (hshape : Shape b dt n md) (h : push ext b x = .ok b') :
    ∃ lv, interpDT ext dt n md x = .ok lv ∧ dec b' = dec b ++ [lv] := by
  obtain ⟨_, _, _, _, lv, hd, hi⟩ := Props.C01.push_interp_det ext x b b' dt n md hraw hnar hwf hnd hdet hshape h
  exact ⟨lv, hi, hd⟩

/-- the same for ANY state under the weak invariant, in terms of the observable rows: the documented value is defined and
is the one determined row the push appends -/
theorem C05_push_ok_exact_obs (ext : Ext) (x : SVal) (b b' : B) (dt : DataType) (n : Bool) (md : Metadata)
    (hraw : structStreamsAlternate x = true) (hnar : noRaw x = true ∨ narrowDT dt = true)
    (hwf : WFH b) (hnd : NoDictKey b) (hshape : Shape b dt n md) (h : push ext b x = .ok b') :
    ∃ lv, interpDT ext dt n md x = .ok lv ∧ Refines (decH b') (decH b ++ [some lv]) := by
  obtain ⟨_, _, _, lv, hd, hi⟩ := Props.C01.push_interp' ext x b b' dt n md hraw hnar hwf hnd hshape h
  exact ⟨lv, hi, hd⟩

/-- **undefined ⇒ rejected (one push), no `Safe` clause 1, no determinedness needed** -/
theorem C05_interp_undefined_rejected' (ext : Ext) (x : SVal) (b : B) (dt : DataType) (n : Bool) (md : Metadata)
    (hraw : structStreamsAlternate x = true) (hnar : noRaw x = true ∨ narrowDT dt = true)
    (hwf : WFH b) (hnd : NoDictKey b) (hshape : Shape b dt n md)
    (e : Fail) (hu : interpDT ext dt n md x = .error e) : ∀ b', push ext b x ≠ .ok b' := by
  intro b' h
  obtain ⟨lv, hi, _⟩ := C05_push_ok_exact_obs ext x b b' dt n md hraw hnar hwf hnd hshape h
  rw [hu] at hi
  cases hi

/-- the same for a freshly built builder: everything but `covered` comes from `build_builder` — no hypothesis on the
schema beside it -/
theorem C05_new_interp_undefined_rejected' (ext : Ext) (x : SVal) (path : String) (dt : DataType) (n : Bool)
    (md : Metadata) (b : B) (hc : covered dt = true) (hnew : newDT path dt n md = .ok b)
    (hraw : structStreamsAlternate x = true) (hnar : noRaw x = true ∨ narrowDT dt = true)
    (e : Fail) (hu : interpDT ext dt n md x = .error e) : ∀ b', push ext b x ≠ .ok b' :=
  C05_interp_undefined_rejected' ext x b dt n md hraw hnar
    (Build.WFH_of_WFB _ (Props.C01.newDT_fresh dt path n md b hnew).1)
    (Build.BuiltFor_NoDictKey b dt n (Props.C03.newB_builtFor path (.mk "" dt n md) b hnew))
    (Props.C01.newDT_shape dt path n md b hc hnew) e hu

/-- **ok ⇒ exact (`to_marrow`), no `Safe`** -/
theorem C05_toMarrow_ok_exact' (ext : Ext) (fields : List Field) (rows : List SVal) (arrs : List Arr)
    (hschema : ∀ f ∈ fields, Lemmas.C03.SchemaOKF f)
    (hcov : fields.all Build.coveredF = true)
    (hraw : ∀ x ∈ rows, Build.structStreamsAlternate x = true)
    (hnar : (∀ x ∈ rows, Build.noRaw x = true) ∨ Build.narrowRoot fields = true)
    (h : toMarrow ext fields rows = .ok arrs) :
    (∀ x ∈ rows, ∃ lv, interpRow ext fields x = .ok lv) ∧
    ∃ cols : List (String × List LVal),
      arrs.map decodeAll = cols.map (fun c => c.2.map .ok) ∧
      cols.map (·.1) = fields.map (·.name) ∧
      (∀ c ∈ cols, c.2.length = rows.length) ∧
      ∀ (i : Nat) (hi : i < rows.length),
        interpRow ext fields rows[i] = .ok (.struct (LFields.ofList (cols.map fun c => (c.1, c.2.getD i .null)))) := by
  obtain ⟨_, cols, h1, h2, h3, h4⟩ := Props.C01.C01_build_decode' ext fields rows arrs hschema hcov hraw hnar h
  refine ⟨?_, cols, h1, h2, h3, h4⟩
  intro x hx
  obtain ⟨i, hi, rfl⟩ := List.getElem_of_mem hx
  exact ⟨_, h4 i hi⟩

/-- **undefined ⇒ rejected (`to_marrow`), no `Safe`** -/
theorem C05_toMarrow_undefined_rejected' (ext : Ext) (fields : List Field) (rows : List SVal)
    (hcov : fields.all Build.coveredF = true)
    (hraw : ∀ x ∈ rows, Build.structStreamsAlternate x = true)
    (hnar : (∀ x ∈ rows, Build.noRaw x = true) ∨ Build.narrowRoot fields = true)
    (hu : ∃ (i : Nat) (hi : i < rows.length) (e : Fail), interpRow ext fields rows[i] = .error e) :
    ∀ arrs, toMarrow ext fields rows ≠ .ok arrs := by
  intro arrs h
  obtain ⟨i, hi, e, he⟩ := hu
  obtain ⟨root, hrun, _⟩ := Props.C03.toMarrow_split ext fields rows arrs h
  have h0 : ∃ root0, newRoot fields = .ok root0 := by
    simp only [runRows] at hrun
    cases hr : newRoot fields with
    | error e => rw [hr] at hrun; cases hrun
    | ok r0 => exact ⟨r0, rfl⟩
  obtain ⟨root0, h0⟩ := h0
  obtain ⟨hall, _⟩ := Props.C01.runRows_interp' ext fields rows root0 root hcov h0 hraw hnar hrun
  obtain ⟨hl, hg⟩ := Props.C03.All2_get hall
  have := hg i (by rw [hl]; exact hi) hi
  rw [he] at this
  cases this

/-- non-vacuity: a record without a documented value (a non-nullable dictionary field below the nullable struct is
given `None`) against the schema OUTSIDE `Safe` of Props/C01Obs.lean is refused -/
example : ∀ arrs, toMarrow {} Props.C01.exUnsafeFields
    [.record "R" (.cons "s" 0 (.some (.record "S" (.cons "d" 0 .none .nil))) .nil)] ≠ .ok arrs := by
  have hbad : ∃ e, interpRow {} Props.C01.exUnsafeFields
      (.record "R" (.cons "s" 0 (.some (.record "S" (.cons "d" 0 .none .nil))) .nil)) = .error e := by
    cases hi : interpRow {} Props.C01.exUnsafeFields
        (.record "R" (.cons "s" 0 (.some (.record "S" (.cons "d" 0 .none .nil))) .nil)) with
    | error e => exact ⟨e, rfl⟩
    | ok v =>
      have : (interpRow {} Props.C01.exUnsafeFields
        (.record "R" (.cons "s" 0 (.some (.record "S" (.cons "d" 0 .none .nil))) .nil))).isOk = false := by
        decide +kernel
      rw [hi] at this; cases this
  obtain ⟨e, he⟩ := hbad
  exact C05_toMarrow_undefined_rejected' {} _ _ (by decide) (by decide) (Or.inl (by decide)) ⟨0, by decide, e, he⟩

end SaModel.Props.C05

namespace SaModel.Props.C03
open SaModel SaModel.Build SaModel.Spec
open SaModel.Props.C16 (codecExt)

/-- `C03_wf_codec` with the hypothesis of `C03_wf'` (`Safe` OR `coveredF`) -/
theorem C03_wf_codec' (f32Str f64Str : Nat → String) (cast : Nat → Int → Bool → Nat → Option (Bool × Int))
    (fields : List Field) (rows : List SVal) (arrs : List Arr)
    (hschema : ∀ f ∈ fields, Lemmas.C03.SchemaOKF f)
    (hsafe : (∀ root0, newRoot fields = .ok root0 → Safe root0) ∨ fields.all Build.coveredF = true)
    (hrows : ∀ x ∈ rows, Lemmas.C03.SValOK x)
    (h : toMarrow (codecExt f32Str f64Str cast) fields rows = .ok arrs) :
    arrs.length = fields.length ∧
    ∀ (j : Nat) (f : Field) (a : Arr), fields[j]? = some f → arrs[j]? = some a →
      WF f a = true ∧ (decodeAll a).length = rows.length :=
  Props.C01.C03_wf' _ fields rows arrs hschema hsafe (codecExt_ok f32Str f64Str cast) hrows h

/-- **C03 as the correspondence driver instantiates it**, `Safe` OR `coveredF` -/
theorem C03_wf_codec_typed' (f32Str f64Str : Nat → String) (cast : Nat → Int → Bool → Nat → Option (Bool × Int))
    (fields : List Field) (rows : List SVal) (arrs : List Arr)
    (hschema : ∀ f ∈ fields, Lemmas.C03.SchemaOKF f)
    (hsafe : (∀ root0, newRoot fields = .ok root0 → Safe root0) ∨ fields.all Build.coveredF = true)
    (hrows : ∀ x ∈ rows, x.typed = true)
    (h : toMarrow (codecExt f32Str f64Str cast) fields rows = .ok arrs) :
    arrs.length = fields.length ∧
    ∀ (j : Nat) (f : Field) (a : Arr), fields[j]? = some f → arrs[j]? = some a →
      WF f a = true ∧ (decodeAll a).length = rows.length :=
  C03_wf_codec' f32Str f64Str cast fields rows arrs hschema hsafe (fun x hx => typed_SValOK x (hrows x hx)) h

/-- **C03 for a traced schema**, `Safe` OR `coveredF` (a traced schema with dictionary-encoded strings — a
`Dictionary(UInt32, LargeUtf8)` column with non-nullable keys below an `Option<struct>` — is outside `Safe`, inside
`coveredF`) -/
theorem C03_wf_traced' (c : Trace.Code) (O : Trace.Options) (ty : Trace.Ty)
    (f32Str f64Str : Nat → String) (cast : Nat → Int → Bool → Nat → Option (Bool × Int))
    (fields : List Field) (rows : List SVal) (arrs : List Arr)
    (ho : ∀ kv ∈ O.overwrites, Lemmas.C03.GoodF kv.2) (hft : Trace.fromType c O ty = .ok fields)
    (hsafe : (∀ root0, newRoot fields = .ok root0 → Safe root0) ∨ fields.all Build.coveredF = true)
    (hrows : ∀ x ∈ rows, x.typed = true)
    (h : toMarrow (codecExt f32Str f64Str cast) fields rows = .ok arrs) :
    arrs.length = fields.length ∧
    ∀ (j : Nat) (f : Field) (a : Arr), fields[j]? = some f → arrs[j]? = some a →
      WF f a = true ∧ (decodeAll a).length = rows.length :=
  C03_wf_codec_typed' f32Str f64Str cast fields rows arrs (fromType_good c O ty fields ho hft).1 hsafe hrows h

/-- **C01 with the codec models plugged in, no `Safe`** -/
theorem C01_build_decode_codec' (f32Str f64Str : Nat → String) (cast : Nat → Int → Bool → Nat → Option (Bool × Int))
    (fields : List Field) (rows : List SVal) (arrs : List Arr)
    (hschema : ∀ f ∈ fields, Lemmas.C03.SchemaOKF f)
    (hcov : fields.all Build.coveredF = true)
    (hraw : ∀ x ∈ rows, Build.noRaw x = true)
    (h : toMarrow (codecExt f32Str f64Str cast) fields rows = .ok arrs) :
    arrs.length = fields.length ∧
    ∃ cols : List (String × List LVal),
      arrs.map decodeAll = cols.map (fun c => c.2.map .ok) ∧
      cols.map (·.1) = fields.map (·.name) ∧
      (∀ c ∈ cols, c.2.length = rows.length) ∧
      ∀ (i : Nat) (hi : i < rows.length),
        interpRow (codecExt f32Str f64Str cast) fields rows[i] =
          .ok (.struct (LFields.ofList (cols.map fun c => (c.1, c.2.getD i .null)))) :=
  Props.C01.C01_build_decode' _ fields rows arrs hschema hcov (fun x hx => Build.noRaw_ssa x (hraw x hx)) (Or.inl hraw) h

/-- non-vacuity: the traced schema of `R { s: Option<S> }`, `S { d: String }` under dictionary encoding is the kind of
schema `Safe` excludes and `coveredF` admits -/
def exTracedFields : List Field :=
  [.mk "s" (.struct (.cons (.mk "d" (.dictionary .uint32 .largeUtf8) false []) .nil)) true []]

example : Trace.fromType .fixed { string_dictionary_encoding := true }
      (.struct "R" (.cons "s" (.option (.struct "S" (.cons "d" .string .nil))) .nil)) = .ok exTracedFields ∧
    exTracedFields.all Build.coveredF = true ∧ (∀ root0, newRoot exTracedFields = .ok root0 → ¬ Safe root0) := by
  refine ⟨by decide +kernel, by decide +kernel, ?_⟩
  intro root0 h0
  rw [show newRoot exTracedFields = .ok (.struct "$" 0 none
    (.cons (.struct "$.s" 0 (some [])
        (.cons (.dictionary "$.s.d" (.leaf "$.s.d.key" (.int .u32) none []) (.bytes "$.s.d.value" .largeUtf8 none [0] []) [])
          ⟨"d", false, []⟩ .nil) [none] 0 [false]) ⟨"s", true, []⟩ .nil) [none] 0 [false]) from by decide] at h0
  cases h0
  simp [Safe, SafeL, DefSafe, DefSafeL, B.isNullable]

end SaModel.Props.C03

namespace SaModel.Props.C10
open SaModel SaModel.Build SaModel.Spec

/-- **C10 (histories), no `Safe`**: `C10_histories` with the hypotheses of `C01_build_decode'` -/
theorem C10_histories' (ext : Ext) (fields : List Field) (r0 : B) (h0 : newRoot fields = .ok r0)
    (hschema : ∀ f ∈ fields, Lemmas.C03.SchemaOKF f)
    (hcov : fields.all Build.coveredF = true)
    (ops : List Op) (hraw : OpsOK (fun x => structStreamsAlternate x = true) ops)
    (hnar : OpsOK (fun x => noRaw x = true) ops ∨ narrowRoot fields = true)
    (outs : List (B × List Arr)) (fin : B) (h : run ext r0 ops = .ok (outs, fin)) :
    outs.length = builds ops ∧ (batchesFrom [] ops).length = builds ops ∧
    ∀ (k : Nat) (h1 : k < outs.length) (h2 : k < (batchesFrom [] ops).length),
      DecodesTo ext fields outs[k].2 (batchesFrom [] ops)[k] := by
  obtain ⟨hall, _⟩ := run_oneShot ext fields r0 h0 ops outs fin h
  obtain ⟨hl, hg⟩ := Props.C03.All2_get hall
  refine ⟨by rw [hl, batchesFrom_length], batchesFrom_length ops [], ?_⟩
  intro k h1 h2
  obtain ⟨_, hm⟩ := hg k h1 h2
  have hrows : ∀ x ∈ (batchesFrom [] ops)[k], structStreamsAlternate x = true :=
    mem_batchesFrom (fun x => structStreamsAlternate x = true) ops [] (by simp) hraw _ (List.getElem_mem h2)
  have hnar' : (∀ x ∈ (batchesFrom [] ops)[k], noRaw x = true) ∨ narrowRoot fields = true :=
    hnar.imp (fun hno => mem_batchesFrom (fun x => noRaw x = true) ops [] (by simp) hno _ (List.getElem_mem h2)) id
  exact C01.C01_build_decode' ext fields _ _ hschema hcov hrows hnar' hm

/-- **every build returns well-formed arrays of its batch's length**, `C10_builds_wf` with the hypothesis of `C03_wf'` -/
theorem C10_builds_wf' (ext : Ext) (fields : List Field) (r0 : B) (h0 : newRoot fields = .ok r0)
    (hschema : ∀ f ∈ fields, Lemmas.C03.SchemaOKF f)
    (hsafe : Safe r0 ∨ fields.all Build.coveredF = true) (hext : Lemmas.C03.ExtOK ext)
    (ops : List Op) (hrows : OpsOK Lemmas.C03.SValOK ops)
    (outs : List (B × List Arr)) (fin : B) (h : run ext r0 ops = .ok (outs, fin)) :
    ∀ (k : Nat) (h1 : k < outs.length) (h2 : k < (batchesFrom [] ops).length),
      outs[k].2.length = fields.length ∧
      ∀ (j : Nat) (f : Field) (a : Arr), fields[j]? = some f → outs[k].2[j]? = some a →
        WF f a = true ∧ (decodeAll a).length = (batchesFrom [] ops)[k].length := by
  obtain ⟨hall, _⟩ := run_oneShot ext fields r0 h0 ops outs fin h
  obtain ⟨_, hg⟩ := Props.C03.All2_get hall
  intro k h1 h2
  obtain ⟨_, hm⟩ := hg k h1 h2
  exact Props.C01.C03_wf' ext fields _ _ hschema
    (hsafe.imp (fun hs root0 hr => by rw [h0] at hr; cases hr; exact hs) id) hext
    (mem_batchesFrom Lemmas.C03.SValOK ops [] (by simp) hrows _ (List.getElem_mem h2)) hm

end SaModel.Props.C10

namespace SaModel.Props.C11
open SaModel SaModel.Build SaModel.Spec

/-- **Presentation independence, no `Safe` clause 1** (determined state under the weak invariant) -/
theorem presentation_independent' (ext : Ext) (x y : SVal) (b bx bY : B) (dt : DataType) (n : Bool) (md : Metadata)
    (hx : noRaw x = true) (hy : noRaw y = true) (hwf : WFH b) (hnd : NoDictKey b) (hdet : Det b)
    (hshape : Shape b dt n md) (hsame : interpDT ext dt n md x = interpDT ext dt n md y)
    (h1 : push ext b x = .ok bx) (h2 : push ext b y = .ok bY) : dec bx = dec bY := by
  obtain ⟨_, _, _, _, lv1, hd1, hi1⟩ :=
    C01.push_interp_det ext x b bx dt n md (noRaw_ssa x hx) (Or.inl hx) hwf hnd hdet hshape h1
  obtain ⟨_, _, _, _, lv2, hd2, hi2⟩ :=
    C01.push_interp_det ext y b bY dt n md (noRaw_ssa y hy) (Or.inl hy) hwf hnd hdet hshape h2
  rw [hsame, hi2] at hi1
  cases hi1
  rw [hd1, hd2]

/-- the same for whole batches through the front end, no `Safe` -/
theorem runRows_presentation_independent' (ext : Ext) (fields : List Field) (rows1 rows2 : List SVal) (root0 r1 r2 : B)
    (hc : fields.all coveredF = true) (h0 : newRoot fields = .ok root0)
    (hraw1 : ∀ x ∈ rows1, noRaw x = true) (hraw2 : ∀ x ∈ rows2, noRaw x = true)
    (hsame : rows1.map (interpRow ext fields) = rows2.map (interpRow ext fields))
    (h1 : runRows ext fields rows1 = .ok r1) (h2 : runRows ext fields rows2 = .ok r2) : dec r1 = dec r2 := by
  obtain ⟨a1, _, _⟩ := C01.runRows_interp' ext fields rows1 root0 r1 hc h0 (fun x hx => noRaw_ssa x (hraw1 x hx)) (Or.inl hraw1) h1
  obtain ⟨a2, _, _⟩ := C01.runRows_interp' ext fields rows2 root0 r2 hc h0 (fun x hx => noRaw_ssa x (hraw2 x hx)) (Or.inl hraw2) h2
  exact runRows_presentation_independent.go ext fields _ _ _ _ a1 a2 hsame

/-- **C11 (presentation independence of the arrays), no `Safe`** -/
theorem C11_presentations' (ext : Ext) (fields : List Field) (rows1 rows2 : List SVal) (arrs1 arrs2 : List Arr)
    (hschema : ∀ f ∈ fields, Lemmas.C03.SchemaOKF f)
    (hcov : fields.all Build.coveredF = true)
    (hraw1 : RawRows fields rows1) (hraw2 : RawRows fields rows2)
    (hsame : rows1.map (interpRow ext fields) = rows2.map (interpRow ext fields))
    (h1 : toMarrow ext fields rows1 = .ok arrs1) (h2 : toMarrow ext fields rows2 = .ok arrs2) :
    arrs1.map decodeAll = arrs2.map decodeAll :=
  DecodesTo_unique hsame (C01.C01_build_decode' ext fields rows1 arrs1 hschema hcov hraw1.1 hraw1.2 h1)
    (C01.C01_build_decode' ext fields rows2 arrs2 hschema hcov hraw2.1 hraw2.2 h2)

/-- **neighbours are not disturbed, no `Safe`** -/
theorem C11_neighbours_undisturbed' (ext : Ext) (fields : List Field) (rows1 rows2 : List SVal) (arrs1 arrs2 : List Arr)
    (hschema : ∀ f ∈ fields, Lemmas.C03.SchemaOKF f)
    (hcov : fields.all Build.coveredF = true)
    (hraw1 : RawRows fields rows1) (hraw2 : RawRows fields rows2)
    (h1 : toMarrow ext fields rows1 = .ok arrs1) (h2 : toMarrow ext fields rows2 = .ok arrs2)
    (i j : Nat) (hi : i < rows1.length) (hj : j < rows2.length)
    (hsame : interpRow ext fields rows1[i] = interpRow ext fields rows2[j]) :
    (arrs1.map decodeAll).map (·[i]?) = (arrs2.map decodeAll).map (·[j]?) := by
  obtain ⟨_, cols1, a1, _, l1, r1⟩ := C01.C01_build_decode' ext fields rows1 arrs1 hschema hcov hraw1.1 hraw1.2 h1
  obtain ⟨_, cols2, a2, _, l2, r2⟩ := C01.C01_build_decode' ext fields rows2 arrs2 hschema hcov hraw2.1 hraw2.2 h2
  rw [a1, a2, slot_of_cols _ i hi cols1 l1, slot_of_cols _ j hj cols2 l2]
  have e1 := r1 i hi
  rw [hsame, r2 j hj] at e1
  simp only [Except.ok.injEq, LVal.struct.injEq] at e1
  rw [LFields.ofList_inj e1]

/-- **no documented value ⇒ refused, no `Safe`** -/
theorem C11_undefined_refused' (ext : Ext) (fields : List Field) (rows : List SVal)
    (hschema : ∀ f ∈ fields, Lemmas.C03.SchemaOKF f)
    (hcov : fields.all Build.coveredF = true)
    (hraw : RawRows fields rows)
    (x : SVal) (hx : x ∈ rows) (e : Fail) (hbad : interpRow ext fields x = .error e) :
    ∀ arrs, toMarrow ext fields rows ≠ .ok arrs := by
  intro arrs h
  obtain ⟨_, cols, _, _, _, hr⟩ := C01.C01_build_decode' ext fields rows arrs hschema hcov hraw.1 hraw.2 h
  obtain ⟨i, hi, rfl⟩ := List.getElem_of_mem hx
  rw [hr i hi] at hbad
  cases hbad

/-- a record that leaves out a non-nullable column, or gives a column twice, is refused, no `Safe` -/
theorem C11_missing_or_duplicate_refused' (ext : Ext) (fields : List Field) (rows : List SVal)
    (hschema : ∀ f ∈ fields, Lemmas.C03.SchemaOKF f)
    (hcov : fields.all Build.coveredF = true)
    (hraw : RawRows fields rows)
    (nm : String) (fs : SFields) (hx : SVal.record nm fs ∈ rows) (f : Field) (hf : f ∈ fields)
    (hbad : (f.nullable = false ∧ SFields.count f.name fs = 0) ∨ 2 ≤ SFields.count f.name fs) :
    ∀ arrs, toMarrow ext fields rows ≠ .ok arrs := by
  have hf' : f ∈ (Fields.ofList fields).toList := by rw [Fields.toList_ofList]; exact hf
  have : ∃ e, interpRow ext fields (.record nm fs) = .error e := by
    rcases hbad with ⟨h1, h2⟩ | h
    · exact absent_required_is_error ext _ false [] nm fs f hf' h1 h2
    · exact duplicate_is_error ext _ false [] nm fs f hf' h
  obtain ⟨e, he⟩ := this
  exact C11_undefined_refused' ext fields rows hschema hcov hraw _ hx e he

/-- **C11 along histories, no `Safe`** -/
theorem C11_histories_presentations' (ext : Ext) (fields : List Field) (r0 : B) (h0 : newRoot fields = .ok r0)
    (hschema : ∀ f ∈ fields, Lemmas.C03.SchemaOKF f)
    (hcov : fields.all Build.coveredF = true)
    (ops ops' : List C10.Op) (hraw : C10.OpsOK (fun x => structStreamsAlternate x = true) ops)
    (hnar : C10.OpsOK (fun x => noRaw x = true) ops ∨ narrowRoot fields = true)
    (hraw' : C10.OpsOK (fun x => structStreamsAlternate x = true) ops')
    (hnar' : C10.OpsOK (fun x => noRaw x = true) ops' ∨ narrowRoot fields = true)
    (hsame : (C10.batchesFrom [] ops).map (·.map (interpRow ext fields)) =
      (C10.batchesFrom [] ops').map (·.map (interpRow ext fields)))
    (outs outs' : List (B × List Arr)) (fin fin' : B)
    (h : C10.run ext r0 ops = .ok (outs, fin)) (h' : C10.run ext r0 ops' = .ok (outs', fin')) :
    outs.map (·.2.map decodeAll) = outs'.map (·.2.map decodeAll) := by
  obtain ⟨l1, b1, d1⟩ := C10.C10_histories' ext fields r0 h0 hschema hcov ops hraw hnar outs fin h
  obtain ⟨l2, b2, d2⟩ := C10.C10_histories' ext fields r0 h0 hschema hcov ops' hraw' hnar' outs' fin' h'
  have hb : (C10.batchesFrom [] ops).length = (C10.batchesFrom [] ops').length := by
    simpa using congrArg List.length hsame
  apply List.ext_getElem (by simp only [List.length_map]; omega)
  intro k hk1 hk2
  simp only [List.length_map] at hk1 hk2
  simp only [List.getElem_map]
  have e := congrArg (fun l => l[k]?) hsame
  simp only [List.getElem?_map, List.getElem?_eq_getElem (show k < (C10.batchesFrom [] ops).length by omega),
    List.getElem?_eq_getElem (show k < (C10.batchesFrom [] ops').length by omega), Option.map_some,
    Option.some.injEq] at e
  exact DecodesTo_unique e (d1 k hk1 (by omega)) (d2 k hk2 (by omega))

/-- **`Items(vs)` behaves exactly like a batch of one-field records named `item`, no `Safe`** -/
theorem items_arrays' (ext : Ext) (fields : List Field) (al : Nat) (vs rows : List SVal) (arrs1 arrs2 : List Arr)
    (hschema : ∀ f ∈ fields, Lemmas.C03.SchemaOKF f)
    (hcov : fields.all Build.coveredF = true)
    (hraw1 : RawRows fields (vs.map (serItem al))) (hraw2 : RawRows fields rows)
    (hsame : (vs.map (serItem al)).map (interpRow ext fields) = rows.map (interpRow ext fields))
    (h1 : toMarrow ext fields (vs.map (serItem al)) = .ok arrs1) (h2 : toMarrow ext fields rows = .ok arrs2) :
    arrs1.map decodeAll = arrs2.map decodeAll :=
  C11_presentations' ext fields _ rows arrs1 arrs2 hschema hcov hraw1 hraw2 hsame h1 h2

/-- non-vacuity, on the schema OUTSIDE `Safe` of Props/C01Obs.lean: the same logical batch (null, {d: "a"}, null) as
structs and as maps / an absent nullable field -/
example : ∀ arrs1 arrs2, toMarrow {} C01.exUnsafeFields C01.exUnsafeRows = .ok arrs1 →
    toMarrow {} C01.exUnsafeFields
      [.map .nil, .map (.cons (.str "s") (.map (.cons (.str "d") (.str "a") .nil)) .nil), .record "Q" .nil] = .ok arrs2 →
    arrs1.map decodeAll = arrs2.map decodeAll := by
  intro arrs1 arrs2 h1 h2
  refine C11_presentations' {} _ _ _ arrs1 arrs2 ?_ (by decide) (RawRows.of_noRaw (by decide))
    (RawRows.of_noRaw (by decide)) (by decide +kernel) h1 h2
  simp [C01.exUnsafeFields, Lemmas.C03.SchemaOKF, Lemmas.C03.SchemaOK, Lemmas.C03.SchemaOKFs]

end SaModel.Props.C11
