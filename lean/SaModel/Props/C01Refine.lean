import SaModel.Lemmas.C01NewShape
import SaModel.Lemmas.C01RawNorm
/-
C01 — serialized arrays decode to exactly the input records.

The refinement ("work-horse") theorems about the builder model.  `dec b` are the logical rows a builder state
holds, `WFB` the state invariant between two pushes (Build/Inv.lean).

  R1  push_appends      every successful push keeps the state well formed and appends exactly ONE logical row
      pushNone_appends / pushDefault_appends / pushScalar_appends   the same for nulls, placeholders, scalar calls
      newDT_fresh / newRoot_fresh   a fresh builder is well formed and empty
      runRows_rows      folding R1 over the rows: the root holds exactly `rows.length` rows, all columns at that length
  R2  push_interp       the appended row is the documented one: `Spec.interpDT` of the value at the builder's field
      newDT_shape / newRoot_shape   `build_builder` establishes the `Shape` relation R2 is indexed by
  R3  runRows_interp    after all rows: the root's rows are `interpRow` of the records, all columns at `rows.length`
      (coverage of R2: every builder family `Shape` admits — view builders included; of the dictionaries those whose
      value builder is a Utf8 / LargeUtf8 builder or refuses strings — and every value whose raw key/value call streams
      alternate, `structStreamsAlternate`, with the sentinel bound `narrowDT` when a raw stream occurs.  R3 asks
      `coveredF` of the schema: dictionaries with integer keys have Utf8 / LargeUtf8 values; its `Safe`-free form
      `runRows_interp'` of Props/C01Obs.lean asks only `coveredWF` — notes/C01.md)
All theorems of this file carry `WFB` / `Safe`; their `Safe`-free forms on the weak invariant `WFH` / `NoDictKey` are the
primed theorems of Props/C01Obs.lean.
The end-to-end composition with the physical layer (`finish_decode`) is `C01_build_decode` in Props/C01.lean.

Proofs live in SaModel/Lemmas/C01*.lean (list lemmas, per-family step lemmas, the mutual recursion over the
serde value); this file states the property-level theorems and gives non-vacuity examples.
-/
namespace SaModel.Props.C01
open SaModel SaModel.Build SaModel.Spec

/-! ## R1 -/

/-- **R1.** Every successful `push` (any serde value, any builder family, any nesting) keeps the builder state
well formed and appends exactly one logical row.  `Safe b` is a property of the schema (no dictionary with
non-nullable keys below a nullable struct / fixed-size list — see `dict_placeholder_unstable` for why it is
needed).  No hypothesis on the value: raw key/value call streams (`SVal.mapRaw`) that do not alternate are REFUSED
by a Map builder (repo fix eafdf15; `map_refuses_non_alternating` below), a struct builder accepts them and stays well
formed. -/
theorem push_appends (ext : Ext) (x : SVal) (b b' : B) (hwf : WFB b) (hsafe : Safe b)
    (h : push ext b x = .ok b') : WFB b' ∧ Safe b' ∧ ∃ lv, dec b' = dec b ++ [lv] := by
  obtain ⟨a, d⟩ := Build.push_appends ext x b b' hwf hsafe h
  exact ⟨a, Safe.of_takeRest (push_takeRest ext x b b' h) hsafe, d⟩

/-- a null appends exactly the null row -/
theorem pushNone_appends (b b' : B) (hwf : WFB b) (hsafe : Safe b) (h : pushNone b = .ok b') :
    WFB b' ∧ Safe b' ∧ dec b' = dec b ++ [.null] := by
  obtain ⟨a, d⟩ := Build.pushNone_appends b b' hwf hsafe h
  exact ⟨a, Safe.of_takeRest (pushNone_takeRest b b' h) hsafe, d⟩

/-- `k` placeholders (children of a null struct / fixed-size list) append exactly `k` rows — null rows when the
builder is nullable -/
theorem pushDefault_appends (b : B) (k : Nat) (b' : B) (hwf : WFB b) (hsafe : DefSafe b)
    (h : pushDefaultK b k = .ok b') :
    WFB b' ∧ ∃ ls, ls.length = k ∧ dec b' = dec b ++ ls ∧ (b.isNullable = true → ls = List.replicate k .null) :=
  Build.pushDefaultK_appends b k b' hwf hsafe h

/-- the children of a null struct receive exactly one placeholder each -/
theorem pushDefault_children (fs : BL) (k : Nat) (fs' : BL) (len : Nat) (hwf : WFL fs len) (hsafe : DefSafeL fs)
    (h : pushDefaultKAll fs k = .ok fs') : WFL fs' (len + k) := by
  obtain ⟨adds, hext, hk⟩ := Build.pushDefaultKAll_appends fs k fs' len hwf hsafe h
  exact ExtL.wfl fs fs' adds len k hwf hext hk

/-- scalar calls (`serialize_bool` … `serialize_bytes`) -/
theorem pushScalar_appends (ext : Ext) (b : B) (x : SVal) (b' : B) (hwf : WFB b) (hsafe : Safe b)
    (h : pushScalar ext b x = .ok b') :
    WFB b' ∧ ∃ lv, dec b' = dec b ++ [lv] := by
  obtain ⟨a, lv, d, _⟩ := Build.pushScalar_appends ext b x b' hwf hsafe h
  exact ⟨a, lv, d⟩

/-- **Leaf step with content.** A successful scalar push into a leaf builder appends the converted value
(validity and value move in lock step). -/
theorem push_leaf_dec (ext : Ext) (p : String) (k : LeafKind) (v : Validity) (vals : List Int) (x : SVal) (b' : B)
    (hwf : VLen v vals.length) (h : pushScalar ext (.leaf p k v vals) x = .ok b') :
    ∃ val, convLeaf ext k x = .ok val ∧ dec b' = dec (.leaf p k v vals) ++ [leafVal k val] ∧
      ∃ v', b' = .leaf p k v' (vals ++ [val]) ∧ VLen v' (vals ++ [val]).length := by
  simp only [pushScalar] at h
  obtain ⟨val, hc, h2⟩ := (bind_ok _ _ _).1 h
  obtain ⟨v', h3, h4⟩ := (bind_ok _ _ _).1 h2
  cases h4
  obtain ⟨rfl, _⟩ := setValidity_ok hwf h3
  have hw : WFB (.leaf p k v vals) := by simpa [WFB] using hwf
  obtain ⟨g1, g2⟩ := leaf_step hw true val
  rw [rowOf_true] at g2
  exact ⟨val, hc, g2, _, rfl, by simpa [WFB] using g1⟩

/-- the list element loop raises the open (last) offset by the number of elements and appends that many rows to
the element builder -/
theorem pushElems_spec (ext : Ext) (xs : SVals) (large : Bool) (el : B) (base : List Int)
    (l : Int) (r : B × List Int) (hwf : WFB el) (hsafe : Safe el)
    (h : pushElems ext large el (base ++ [l]) xs = .ok r) :
    WFB r.1 ∧ ∃ ls, dec r.1 = dec el ++ ls ∧ r.2 = base ++ [l + (ls.length : Int)] :=
  Build.pushElems_appends ext xs large el base l r hwf hsafe h

/-- map entries keep keys and values in step -/
theorem pushMapEntries_spec (ext : Ext) (es : SEntries) (base : List Int) (l : Int)
    (ks vs : B) (r : List Int × B × B) (hk : WFB ks) (hv : WFB vs) (hsk : Safe ks) (hsv : Safe vs)
    (h : pushMapEntries ext (base ++ [l]) ks vs es = .ok r) :
    WFB r.2.1 ∧ WFB r.2.2 ∧ ∃ lk lw : List LVal, lw.length = lk.length ∧ dec r.2.1 = dec ks ++ lk ∧
      dec r.2.2 = dec vs ++ lw ∧ r.1 = base ++ [l + (lk.length : Int)] :=
  Build.pushMapEntries_appends ext es base l ks vs r hk hv hsk hsv h

/-- a raw `serialize_key` / `serialize_value` call stream into a Map builder (flag `key_pending` reset by
`serialize_map_start`): when it is ACCEPTED keys and values have stayed in step -/
theorem pushMapOps_spec (ext : Ext) (ops : SMapOps) (base : List Int) (l : Int)
    (ks vs : B) (r : List Int × B × B) (hk : WFB ks) (hv : WFB vs) (hsk : Safe ks) (hsv : Safe vs)
    (h : pushMapOps ext false (base ++ [l]) ks vs ops = .ok r) :
    WFB r.2.1 ∧ WFB r.2.2 ∧ ∃ lk lw : List LVal, lw.length = lk.length ∧ dec r.2.1 = dec ks ++ lk ∧
      dec r.2.2 = dec vs ++ lw ∧ r.1 = base ++ [l + (lk.length : Int)] :=
  Build.pushMapOps_appends ext ops base l ks vs r hk hv hsk hsv h

/-- what an accepted raw stream looks like, from either state of the flag: alternating, starting with a value
exactly if a key is pending -/
theorem pushMapOps_ok_alternating (ext : Ext) (ops : SMapOps) (pd : Bool) (offs : List Int) (ks vs : B)
    (r : List Int × B × B) (h : pushMapOps ext pd offs ks vs ops = .ok r) :
    if pd then ∃ x rest, ops = .value x rest ∧ isAlternating rest = true else isAlternating ops = true :=
  Build.pushMapOps_ok_alternating ext ops pd offs ks vs r h

/-- **A Map builder refuses every raw key/value call stream that does not alternate** (two keys in a row, a value
without a key, a trailing key — exactly the streams `Spec.interpDT` calls `malformed`), whatever the keys and values
are and whatever state the builder is in.  (Repo fix eafdf15 of finding C16-map-key-value-alternation: the code it
replaced accepted such a stream and left keys and values of the Map array at different lengths.) -/
theorem map_refuses_non_alternating (ext : Ext) (p : String) (mm : MapMeta) (v : Validity) (offs : List Int)
    (ks vs : B) (ops : SMapOps) (hmal : isAlternating ops = false) (b' : B) :
    push ext (.map p mm v offs ks vs) (.mapRaw ops) ≠ .ok b' := by
  intro h
  rw [push_map_raw_ok_alternating h] at hmal; cases hmal

/-- a fresh builder is well formed, empty, and what `take` leaves behind is the builder itself -/
theorem newDT_fresh (dt : DataType) (path : String) (nullable : Bool) (md : Metadata) (b : B)
    (h : newDT path dt nullable md = .ok b) : WFB b ∧ dec b = [] ∧ takeRest b = b :=
  Build.newDT_fresh dt path nullable md b h

/-! ### folding over the rows -/

theorem foldl_push_rows (ext : Ext) : ∀ (rows : List SVal) (b b' : B), WFB b → Safe b →
    rows.foldlM (push ext) b = .ok b' →
    WFB b' ∧ Safe b' ∧ takeRest b' = takeRest b ∧ ∃ ls, ls.length = rows.length ∧ dec b' = dec b ++ ls
  | [], b, b', hwf, hs, h => by
    simp [List.foldlM, pure, Except.pure] at h; subst h
    exact ⟨hwf, hs, rfl, [], rfl, by simp⟩
  | x :: rest, b, b', hwf, hs, h => by
    simp only [List.foldlM] at h
    obtain ⟨b1, h1, h⟩ := (bind_ok _ _ _).1 h
    obtain ⟨hw1, hs1, lv, hd1⟩ := push_appends ext x b b1 hwf hs h1
    obtain ⟨hw', hs', ht', ls, hl, hd⟩ := foldl_push_rows ext rest b1 b' hw1 hs1 h
    exact ⟨hw', hs', by rw [ht', push_takeRest ext x b b1 h1], lv :: ls, by simp [hl], by rw [hd, hd1]; simp⟩

/-- **R3 (row count).** After all rows have been pushed — ANY serde values, raw key/value call streams included —
the root holds exactly `rows.length` rows and every column has that length. -/
theorem runRows_rows (ext : Ext) (fields : List Field) (rows : List SVal) (root0 root : B)
    (h0 : newRoot fields = .ok root0) (hsafe : Safe root0)
    (h : runRows ext fields rows = .ok root) :
    WFB root ∧ (dec root).length = rows.length ∧ takeRest root = root0 ∧
      ∀ col ∈ decRoot root, col.length = rows.length := by
  simp only [runRows, h0] at h
  have h : rows.foldlM (push ext) root0 = .ok root := h
  obtain ⟨hw0, hd0, ht0⟩ := newRoot_fresh h0
  obtain ⟨hw, _, ht, ls, hl, hd⟩ := foldl_push_rows ext rows root0 root hw0 hsafe h
  refine ⟨hw, by rw [hd, hd0]; simpa using hl, by rw [ht, ht0], ?_⟩
  -- the root is a non-nullable struct: its row count is `len`, and all children are at `len`
  have hroot : ∃ p len fs cached next seen, root = .struct p len none fs cached next seen := by
    have : takeRest root = root0 := by rw [ht, ht0]
    simp only [newRoot] at h0
    obtain ⟨bl, _, h0⟩ := (bind_ok _ _ _).1 h0
    unfold mkStruct at h0
    split at h0
    · simp [fail] at h0
    · cases h0
      exact struct_of_takeRest root this
  obtain ⟨p, len, fs, cached, next, seen, rfl⟩ := hroot
  have hlen : len = rows.length := by
    have : (dec (B.struct p len none fs cached next seen)).length = rows.length := by rw [hd, hd0]; simpa using hl
    simpa [dec_struct, maskNull] using this
  simp only [WFB] at hw
  intro col hcol
  simp only [decRoot, List.mem_map] at hcol
  obtain ⟨c, hc, rfl⟩ := hcol
  rw [← hlen]
  exact (WFL_cols fs len hw.2.1) c hc
where
  struct_of_takeRest : ∀ (root : B) {p : String} {bl : BL} {c : List (Option (String × Nat))} {s : List Bool},
      takeRest root = .struct p 0 (newValidity false) bl c 0 s →
      ∃ p len fs cached next seen, root = .struct p len none fs cached next seen
    | .struct p len none fs cached next seen, _, _, _, _, _ => ⟨_, _, _, _, _, _, rfl⟩
    | .struct p len (some _) fs cached next seen, _, _, _, _, h => by simp [takeRest, newValidity] at h
    | .null _ _, _, _, _, _, h => by simp [takeRest] at h
    | .unknownVariant _, _, _, _, _, h => by simp [takeRest] at h
    | .leaf _ _ _ _, _, _, _, _, h => by simp [takeRest] at h
    | .bytes _ _ _ _ _, _, _, _, _, h => by simp [takeRest] at h
    | .bytesView _ _ _ _ _, _, _, _, _, h => by simp [takeRest] at h
    | .fixedSizeBinary _ _ _ _ _ _, _, _, _, _, h => by simp [takeRest] at h
    | .list _ _ _ _ _ _, _, _, _, _, h => by simp [takeRest] at h
    | .fixedSizeList _ _ _ _ _ _ _, _, _, _, _, h => by simp [takeRest] at h
    | .map _ _ _ _ _ _, _, _, _, _, h => by simp [takeRest] at h
    | .dictionary _ _ _ _, _, _, _, _, h => by simp [takeRest] at h
    | .union _ _ _ _ _, _, _, _, _, h => by simp [takeRest] at h
  WFL_cols : ∀ (fs : BL) (len : Nat), WFL fs len → ∀ c ∈ decCols fs, c.2.length = len
    | .nil, _, _ => by simp [decCols]
    | .cons b m r, len, h => by
      simp only [WFL] at h
      intro c hc
      simp only [decCols, List.mem_cons] at hc
      rcases hc with rfl | hc
      · exact h.2.1
      · exact WFL_cols r len h.2.2 c hc

/-! ## R2 -/

/-- **R2.** The row a successful push appends is the documented one: `Spec.interpDT` at the field the builder was
built for (records matched by name, numbers by value, variants by index) — for every builder family `Shape`
covers (all; a dictionary builder when its key builder is an integer leaf and its value builder is a Utf8 / LargeUtf8
builder or a builder that refuses strings — Lemmas/C01Shape.lean) and every
value whose raw key/value call streams (`SVal.mapRaw`) alternate (`hraw`; decidable, `= !Spec.containsMalformed x`).
At a Map position that excludes nothing that could succeed (`map_refuses_non_alternating`); at a struct position it is
needed (`struct_stream_needed` below: the struct builder accepts every stream, `Spec.interpDT` calls the others
`malformed`; what the builder stores for them: `struct_raw_stored`).  `hnar`: when the value contains a raw stream at
all, every struct type of the field has fewer than `usize::MAX` fields (`narrowDT`; the struct builder uses
`next = usize::MAX` as "unknown key" — no Rust `Vec` is that long, the model's lists are unbounded).  View builders: a successful push keeps every length and buffer offset
≤ `i32::MAX` (the builder refuses more), so the descriptor reads back exactly the pushed bytes; `WFB` carries the
buffer bound (`WFB_small`), no size hypothesis is needed.  Together with R1: C01 (content), C05 (ok ⇒ exact) and
C11 (the row depends on the value only through `interpDT`). -/
theorem push_interp (ext : Ext) (x : SVal) (b b' : B) (dt : DataType) (n : Bool) (md : Metadata)
    (hraw : structStreamsAlternate x = true) (hnar : noRaw x = true ∨ narrowDT dt = true)
    (hwf : WFB b) (hsafe : Safe b) (hshape : Shape b dt n md) (h : push ext b x = .ok b') :
    WFB b' ∧ Safe b' ∧ Shape b' dt n md ∧ ∃ lv, dec b' = dec b ++ [lv] ∧ interpDT ext dt n md x = .ok lv := by
  have ht := push_takeRest ext x b b' h
  obtain ⟨hw', lv, hd⟩ := Build.push_appends ext x b b' hwf hsafe h
  refine ⟨hw', Safe.of_takeRest ht hsafe, Shape.of_takeRest ht hshape, lv, hd, ?_⟩
  rcases hnar with hno | hnar
  · exact Build.push_interp ext false x b b' dt n md lv hno (fun hn => by cases hn) hwf hsafe hshape h hd (WFB_small b' hw')
  · exact Build.push_interp ext true x b b' dt n md lv hraw (fun _ => hnar) hwf hsafe hshape h hd (WFB_small b' hw')

/-! ### raw key/value call streams at a struct position

A Map builder refuses every stream that does not alternate (`map_refuses_non_alternating`).  A struct builder accepts
EVERY stream: `serialize_map_key` only records which field comes next, `serialize_map_value` writes it (or nothing when
the last key was no field, or there was no key).  The documentation gives such streams no meaning (`Spec.interpDT`:
`malformed`; serde's contract for `SerializeMap` is key, value, key, value …), so R2 cannot say "the documented row"
for them; it says what is stored instead. -/

/-- **What a struct builder does with an arbitrary raw stream**: the same as with `normOps ops`, the pairs whose value
directly follows its key — a value without a key is dropped, a key without a value leaves its field unseen (`end`
then gives it a null if it is nullable and refuses otherwise).  The two final states differ at most in
`StructBuilder::next`, the lookup hint that `start` resets. -/
theorem struct_raw_norm (ext : Ext) {p : String} {len : Nat} {v : Validity} {fs : BL} {cached next seen} {ops : SMapOps}
    {b' : B} (h : push ext (.struct p len v fs cached next seen) (.mapRaw ops) = .ok b') :
    ∃ p' len' v' fs' cached' n1 n2 seen', b' = .struct p' len' v' fs' cached' n1 seen' ∧
      push ext (.struct p len v fs cached next seen) (.mapRaw (normOps ops)) = .ok (.struct p' len' v' fs' cached' n2 seen') := by
  simp only [push, ctx_ok] at h ⊢
  obtain ⟨s0, h0, h⟩ := (bind_ok _ _ _).1 h
  obtain ⟨s1, h1, h⟩ := (bind_ok _ _ _).1 h
  obtain ⟨s2, h2, h⟩ := (bind_ok _ _ _).1 h
  cases h
  obtain ⟨n, hn⟩ := pushStructOps_norm ext ops s0 s1 h1
  simp only [SS.finishRow] at h2
  obtain ⟨fs2, hf, h2⟩ := (bind_ok _ _ _).1 h2
  cases h2
  refine ⟨s1.path, s1.len, s1.validity, fs2, s1.cached, s1.next, n, s1.seen, rfl, ?_⟩
  simp only [h0, hn, bind, Except.bind, SS.finishRow, hf]
  rfl

/-- **R2 for an arbitrary raw stream at a struct position**: the row the struct builder appends is the documented row
of the NORMALISED stream `normOps ops` (no hypothesis that `ops` alternates; the streams inside the surviving pairs
alternate).  For an alternating stream `normOps ops = ops` (`normOps_id`) and this is R2. -/
theorem struct_raw_stored (ext : Ext) {p : String} {len : Nat} {v : Validity} {fs : BL} {cached next seen} (ops : SMapOps)
    (b' : B) (sfs : Fields) (n : Bool) (md : Metadata)
    (hraw : ssaO (normOps ops) = true) (hnar : narrowDT (.struct sfs) = true)
    (hwf : WFB (.struct p len v fs cached next seen)) (hsafe : Safe (.struct p len v fs cached next seen))
    (hshape : Shape (.struct p len v fs cached next seen) (.struct sfs) n md)
    (h : push ext (.struct p len v fs cached next seen) (.mapRaw ops) = .ok b') :
    ∃ lv, dec b' = dec (.struct p len v fs cached next seen) ++ [lv] ∧
      interpDT ext (.struct sfs) n md (.mapRaw (normOps ops)) = .ok lv := by
  obtain ⟨p', len', v', fs', cached', n1, n2, seen', rfl, h'⟩ := struct_raw_norm ext h
  obtain ⟨_, _, _, lv, hd, hi⟩ := push_interp ext _ _ _ _ n md (by simpa [structStreamsAlternate] using hraw)
    (Or.inr hnar) hwf hsafe hshape h'
  exact ⟨lv, by rw [dec_struct] at hd ⊢; exact hd, hi⟩

/-- **The exclusion `structStreamsAlternate` is needed (and `Spec.interpDT` does not match the struct builder on
malformed streams).**  Column `a : Int32?`; a record that is a raw stream with a value but no key, or a key but no
value: every other hypothesis of R3 holds, serialization SUCCEEDS and stores the row `{a: null}`, while the documented
mapping has no row for the record (`malformed`).  The stored row is the documented row of the normalised (here: empty)
stream, as `struct_raw_stored` says. -/
theorem struct_stream_needed :
    let fields := [Field.mk "a" .int32 true []]
    let x1 := SVal.mapRaw (.value (.int .i32 1) .nil)
    let x2 := SVal.mapRaw (.key (.str "a") .nil)
    structStreamsAlternate x1 = false ∧ structStreamsAlternate x2 = false ∧
    fields.all coveredF = true ∧ narrowRoot fields = true ∧
    (do let root ← runRows {} fields [x1, x2]; pure (decRoot root) : R (List (List LVal))) = .ok [[.null, .null]] ∧
    interpRow {} fields x1 = Spec.malformed ∧ interpRow {} fields x2 = Spec.malformed ∧
    interpRow {} fields (.mapRaw (normOps (.value (.int .i32 1) .nil))) = .ok (.struct (.cons "a" .null .nil)) := by
  decide +kernel

/-- `build_builder` establishes `Shape` for every covered data type -/
theorem newDT_shape (dt : DataType) (path : String) (n : Bool) (md : Metadata) (b : B) (hc : covered dt = true)
    (h : newDT path dt n md = .ok b) : Shape b dt n md :=
  Build.newDT_shape dt path n md b hc h

/-- view buffers only grow: `ViewSmall` of the final state holds of every intermediate state (a fact about the model;
the theorems below do not use it: `WFB` implies `ViewSmall`, `WFB_small`) -/
theorem foldl_push_small (ext : Ext) : ∀ (rows : List SVal) (b b' : B), rows.foldlM (push ext) b = .ok b' →
    Lemmas.C03.ViewSmall b' → Lemmas.C03.ViewSmall b
  | [], b, b', h, hs => by
    simp [List.foldlM, pure, Except.pure] at h; subst h; exact hs
  | x :: rest, b, b', h, hs => by
    simp only [List.foldlM] at h
    obtain ⟨b1, h1, h⟩ := (bind_ok _ _ _).1 h
    exact push_small ext x b b1 h1 (foldl_push_small ext rest b1 b' h hs)

theorem foldl_push_interp (ext : Ext) (dt : DataType) (n : Bool) (md : Metadata) : ∀ (rows : List SVal) (b b' : B),
    (∀ x ∈ rows, structStreamsAlternate x = true) → ((∀ x ∈ rows, noRaw x = true) ∨ narrowDT dt = true) →
    WFB b → Safe b → Shape b dt n md → rows.foldlM (push ext) b = .ok b' →
    ∃ ls, dec b' = dec b ++ ls ∧ All2 (fun lv x => interpDT ext dt n md x = .ok lv) ls rows
  | [], b, b', _, _, _, _, _, h => by
    simp [List.foldlM, pure, Except.pure] at h; subst h
    exact ⟨[], by simp, .nil⟩
  | x :: rest, b, b', hraw, hnar, hwf, hs, hsh, h => by
    simp only [List.foldlM] at h
    obtain ⟨b1, h1, h⟩ := (bind_ok _ _ _).1 h
    obtain ⟨hw1, hs1, hsh1, lv, hd1, hi⟩ := push_interp ext x b b1 dt n md (hraw x (by simp))
      (hnar.imp (fun hno => hno x (by simp)) id) hwf hs hsh h1
    obtain ⟨ls, hd, hall⟩ := foldl_push_interp ext dt n md rest b1 b' (fun y hy => hraw y (by simp [hy]))
      (hnar.imp (fun hno y hy => hno y (by simp [hy])) id) hw1 hs1 hsh1 h
    exact ⟨lv :: ls, by rw [hd, hd1]; simp, .cons hi hall⟩

/-- **R3.** `runRows` (all records pushed into a fresh root): the rows the root holds are exactly the documented
rows `interpRow` of the records, in order; the root is a struct of `rows.length` rows without validity, so row `i`
is the struct of the `i`-th entries of the columns, and every column has length `rows.length`.
`hraw` / `hnar` as in R2 (`narrowRoot fields`: fewer than `usize::MAX` fields at every struct level, the root included). -/
theorem runRows_interp (ext : Ext) (fields : List Field) (rows : List SVal) (root0 root : B)
    (hc : fields.all coveredF = true) (h0 : newRoot fields = .ok root0) (hsafe : Safe root0)
    (hraw : ∀ x ∈ rows, structStreamsAlternate x = true)
    (hnar : (∀ x ∈ rows, noRaw x = true) ∨ narrowRoot fields = true) (h : runRows ext fields rows = .ok root) :
    All2 (fun lv x => interpRow ext fields x = .ok lv) (dec root) rows ∧
    (∀ col ∈ decRoot root, col.length = rows.length) ∧
    ∃ p fs cached next seen, root = .struct p rows.length none fs cached next seen ∧
      dec root = (List.range rows.length).map (rowAt (decCols fs)) := by
  have hrows := runRows_rows ext fields rows root0 root h0 hsafe h
  have h' := h
  simp only [runRows, h0] at h'
  have h' : rows.foldlM (push ext) root0 = .ok root := h'
  obtain ⟨hw0, hd0, ht0⟩ := newRoot_fresh h0
  obtain ⟨ls, hd, hall⟩ := foldl_push_interp ext _ _ _ rows root0 root hraw hnar hw0 hsafe (newRoot_shape hc h0) h'
  rw [hd0, List.nil_append] at hd
  refine ⟨by rw [hd]; exact hall, hrows.2.2.2, ?_⟩
  obtain ⟨p, bl, c, s, hr0⟩ := newRoot_struct h0
  obtain ⟨p', len, fs, cached, next, seen, rfl⟩ := runRows_rows.struct_of_takeRest root (hrows.2.2.1.trans hr0)
  have hlen : len = rows.length := by
    have := hrows.2.1
    simpa [dec_struct, maskNull] using this
  subst hlen
  exact ⟨_, _, _, _, _, rfl, by rw [dec_struct]; rfl⟩
where
  newRoot_struct {fields : List Field} {r0 : B} (h : newRoot fields = .ok r0) :
      ∃ p bl c s, r0 = .struct p 0 (newValidity false) bl c 0 s := by
    simp only [newRoot] at h
    obtain ⟨bl, _, h⟩ := (bind_ok _ _ _).1 h
    unfold mkStruct at h
    split at h
    · simp [fail] at h
    · cases h; exact ⟨_, _, _, _, rfl⟩

/-! ### why `Safe` is needed: placeholder keys of an empty dictionary -/

/-- A dictionary with NON-nullable keys below a nullable struct: a null struct row pushes the placeholder key `0`
into the (still empty) dictionary; the key designates nothing, then — after the first real value — that value.
So the rows of the dictionary builder itself are not append-only (`[null]` becomes `["a", "a"]`); the struct's
rows are (the slot is hidden below the null).  R1 for the child alone is false in this state. -/
theorem dict_placeholder_unstable :
    ∃ (d d' : B) (x : SVal), WFB d' ∧ push {} d x = .ok d' ∧ ¬ ∃ lv, dec d' = dec d ++ [lv] := by
  refine ⟨.dictionary "$.s.d" (.leaf "$.s.d.key" (.int .u32) none [0]) (.bytes "$.s.d.value" .utf8 none [0] []) [],
    .dictionary "$.s.d" (.leaf "$.s.d.key" (.int .u32) none [0, 0]) (.bytes "$.s.d.value" .utf8 none [0, 1] [97]) ["a"],
    .str "a", ?_, by decide +kernel, ?_⟩
  · simp only [WFB]
    refine ⟨VLen.none _, ⟨⟨rfl, rfl, by decide⟩, VLen.none _⟩, by decide, by decide, ?_, ⟨fun _ => by decide +kernel, fun h => by simp [B.refusesStr, isUtf8Ty] at h⟩⟩
    intro k hk j hj
    have : dec (B.leaf "$.s.d.key" (.int .u32) none [0, 0]) = [.int 0, .int 0] := by decide
    rw [this] at hk
    simp at hk; subst hk; cases hj; decide
  · rintro ⟨lv, h⟩
    have h1 : dec (B.dictionary "$.s.d" (.leaf "$.s.d.key" (.int .u32) none [0, 0])
        (.bytes "$.s.d.value" .utf8 none [0, 1] [97]) ["a"]) = [.str [97], .str [97]] := by decide
    have h2 : dec (B.dictionary "$.s.d" (.leaf "$.s.d.key" (.int .u32) none [0])
        (.bytes "$.s.d.value" .utf8 none [0] []) []) = [.null] := by decide
    rw [h1, h2] at h
    simp at h

/-! ### non-vacuity -/

example : ∃ b', pushScalar {} (.leaf "$.a" (.int .i32) (some [true]) [4]) (.int .i64 7) = .ok b' ∧
    dec b' = [.int 4, .int 7] := ⟨_, rfl, by decide⟩

/-- a nested state meeting every hypothesis of R1: nullable list of non-nullable i32 with one row `[4]` -/
def exList : B := .list "$.a" false ⟨"element", false, []⟩ (some [true]) [0, 1] (.leaf "$.a.element" (.int .i32) none [4])

example : WFB exList ∧ Safe exList := by
  refine ⟨?_, by simp [exList, Safe]⟩
  simp only [exList, WFB]
  refine ⟨⟨rfl, by decide, by decide⟩, ?_, VLen.none _⟩
  intro bits hb; cases hb; rfl

example : ∃ b', push {} exList (.seq (.cons (.int .i8 5) (.cons (.int .i64 6) .nil))) = .ok b' ∧
    dec b' = dec exList ++ [.list (.cons (.int 5) (.cons (.int 6) .nil))] := ⟨_, rfl, by decide⟩

/-- a Map column `m : Map<Utf8, Int32?>` (the replay schema of finding C16-map-key-value-alternation in small) -/
def exMapFields : List Field :=
  [.mk "m" (.map (.mk "entries" (.struct (.cons (.mk "key" .utf8 false []) (.cons (.mk "value" .int32 true []) .nil))) false []) false) false []]

/-- `map_refuses_non_alternating` / R1 has no hypothesis on the value: two keys in a row, a value without a key and a trailing key
are refused with the Map builder's annotated error; the alternating stream is accepted and is ONE row with two entries -/
example : runRows {} exMapFields [.record "R" (.cons "m" 0 (.mapRaw (.key (.str "x") (.key (.str "") .nil))) .nil)] =
    .error (.errCtx "Invalid map: a key was serialized before the value of the previous key"
      [("data_type", "Map(..)"), ("field", "$.m")]) := by decide +kernel
example : (runRows {} exMapFields [.record "R" (.cons "m" 0 (.mapRaw (.value (.int .i32 1) .nil)) .nil)]).isErr = true := by
  decide +kernel
example : (runRows {} exMapFields [.record "R" (.cons "m" 0 (.mapRaw (.key (.str "x") .nil)) .nil)]).isErr = true := by
  decide +kernel
example : (do
      let root ← runRows {} exMapFields [.record "R" (.cons "m" 0
        (.mapRaw (.key (.str "x") (.value (.int .i32 1) (.key (.str "y") (.value .none .nil))))) .nil)]
      pure (decRoot root) : R (List (List LVal))) =
    .ok [[.map (.cons (.str [120]) (.int 1) (.cons (.str [121]) .null .nil))]] := by decide +kernel
example : isAlternating (.key (.str "x") (.key (.str "") .nil)) = false := by decide

/-- a root over two columns; the second record presents its fields in the other order -/
example : (do
      let root ← runRows {} [.mk "a" .int32 false [], .mk "b" .utf8 true []]
        [.record "R" (.cons "a" 0 (.int .i32 1) (.cons "b" 1 (.str "x") .nil)),
         .record "R" (.cons "b" 1 .none (.cons "a" 0 (.int .i32 2) .nil))]
      pure (decRoot root) : R (List (List LVal))) = .ok [[.int 1, .int 2], [.str [120], .null]] := by decide +kernel

/-- R2 on a nested state: the Shape of `exList`, and the documented row of a sequence -/
example : Shape exList (.list (.mk "element" .int32 false [])) true [] := by
  simp only [exList, Shape]
  exact ⟨rfl, "element", .int32, false, [], by simp, rfl, rfl⟩

example : interpDT {} (.list (.mk "element" .int32 false [])) true []
    (.seq (.cons (.int .i8 5) (.cons (.int .i64 6) .nil))) = .ok (.list (.cons (.int 5) (.cons (.int 6) .nil))) := by
  decide +kernel

/-- R2 on a bytes-view builder: a 13-byte string goes out of line (descriptor + buffer) and reads back as itself -/
def exView : B := .bytesView "$.v" .utf8View (some [true]) [packInline [104, 105]] []

example : WFB exView ∧ Safe exView ∧ Shape exView .utf8View true [] := by
  refine ⟨?_, by simp [exView, Safe], by simp [exView, Shape, viewDT]⟩
  simp only [exView, WFB]
  refine ⟨by intro bits hb; cases hb; rfl, ?_, by decide⟩
  intro d hd; simp at hd; subst hd; decide +kernel

example : ∃ b', push {} exView (.str "thirteen byte") = .ok b' ∧
    dec b' = dec exView ++ [.str (strBytes "thirteen byte")] ∧
    interpDT {} .utf8View true [] (.str "thirteen byte") = .ok (.str (strBytes "thirteen byte")) :=
  ⟨.bytesView "$.v" .utf8View (some [true, true]) [packInline [104, 105], packExtern (strBytes "thirteen byte") 0 0]
      (strBytes "thirteen byte"), by decide +kernel, by decide +kernel, by decide +kernel⟩

/-- R2 on a dictionary builder (`Dictionary(UInt8, Utf8)` holding "x" once): a known string reuses its key, the
invariant "values decoded = index entries" (`DictVals`) is part of `WFB` -/
def exDict : B := .dictionary "$.d" (.leaf "$.d.key" (.int .u8) none [0]) (.bytes "$.d.value" .utf8 none [0, 1] [120]) ["x"]

example : WFB exDict ∧ Safe exDict ∧ Shape exDict (.dictionary .uint8 .utf8) false [] := by
  refine ⟨?_, by simp [exDict, Safe, B.isDict], by simp [exDict, Shape, B.isIntLeaf, B.isNullable, B.isUtf8B, isUtf8Ty, bytesDT]⟩
  simp only [exDict, WFB]
  refine ⟨VLen.none _, ⟨⟨rfl, rfl, by decide⟩, VLen.none _⟩, by decide, by decide, ?_, ⟨fun _ => by decide +kernel, fun h => by simp [B.refusesStr, isUtf8Ty] at h⟩⟩
  intro k hk j hj
  have : dec (B.leaf "$.d.key" (.int .u8) none [0]) = [.int 0] := by decide
  rw [this] at hk
  simp at hk; subst hk; cases hj; decide

example : ∃ b', push {} exDict (.str "x") = .ok b' ∧ dec b' = dec exDict ++ [.str [120]] ∧
    interpDT {} (.dictionary .uint8 .utf8) false [] (.str "x") = .ok (.str [120]) :=
  ⟨.dictionary "$.d" (.leaf "$.d.key" (.int .u8) none [0, 0]) (.bytes "$.d.value" .utf8 none [0, 1] [120]) ["x"],
    by decide +kernel, by decide +kernel, by decide +kernel⟩

/-- R2 / R3 with a raw stream at a struct position (the root, and the nested struct `s`): alternating streams, keys in
any order, an unknown key; the hypotheses hold and the stored rows are the documented ones -/
def exRawFields : List Field :=
  [.mk "a" .int32 true [], .mk "s" (.struct (.cons (.mk "x" .utf8 false []) .nil)) false []]
def exRawRow : SVal :=
  .mapRaw (.key (.str "s") (.value (.mapRaw (.key (.str "zz") (.value .unit (.key (.str "x") (.value (.str "v") .nil)))))
    (.key (.str "a") (.value (.int .i8 3) .nil))))

example : structStreamsAlternate exRawRow = true ∧ noRaw exRawRow = false ∧ narrowRoot exRawFields = true ∧
    exRawFields.all coveredF = true := by decide +kernel

example : (do let root ← runRows {} exRawFields [exRawRow]; pure (dec root) : R (List LVal)) =
    (do let lv ← interpRow {} exRawFields exRawRow; pure [lv]) ∧
    (interpRow {} exRawFields exRawRow).isOk = true := by decide +kernel

/-- a dictionary whose value builder refuses strings (behaviour confirmed on the crate, notes/C01.md): `build_builder`
ACCEPTS `Dictionary(Int8, Int32)`, every scalar is forwarded to the value builder as a string and an `Int32` builder refuses
strings — and `Spec.interpScalar` (the string at the VALUE type, `Spec.dictValue`) gives the scalar no meaning either: the
type is inside `coveredW` (R2), and outside `covered` (`into_array` cannot append its placeholder string) -/
example : (newDT "$.d" (.dictionary .int8 .int32) false []).isOk = true ∧
    (do let b ← newDT "$.d" (.dictionary .int8 .int32) false []; push {} b (.int .i32 1) : R B).isErr = true ∧
    (interpDT {} (.dictionary .int8 .int32) false [] (.int .i32 1)).isErr = true ∧
    coveredW (.dictionary .int8 .int32) = true ∧ covered (.dictionary .int8 .int32) = false := by decide +kernel

/-- a dictionary whose value type parses strings stores the PARSED value, and the specification says so; R2 does not
cover it (`dictValOpen`: outside `coveredW`) -/
example : interpDT { parseDate := fun _ _ => .ok 18262 } (.dictionary .int8 .date32) false [] (.str "2020-01-01") = .ok (.int 18262) ∧
    coveredW (.dictionary .int8 .date32) = false ∧ coveredW (.dictionary .int8 .utf8View) = false ∧
    coveredW (.dictionary .int8 (.dictionary .int8 .utf8)) = false := by decide +kernel

/-- R3 hypotheses are satisfiable with a nested, nullable schema: covered, safe, and rows in two presentations -/
example : [Field.mk "a" (.struct (.cons (.mk "x" .int8 true []) (.cons (.mk "y" .utf8 false []) .nil))) true []].all coveredF = true := by
  decide

example : interpRow {} [.mk "a" .int32 false [], .mk "b" .utf8 true []]
      (.record "R" (.cons "b" 1 .none (.cons "a" 0 (.int .i32 2) .nil))) =
    interpRow {} [.mk "a" .int32 false [], .mk "b" .utf8 true []]
      (.map (.cons (.str "a") (.int .i64 2) .nil)) := by decide +kernel

end SaModel.Props.C01
