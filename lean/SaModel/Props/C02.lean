import SaModel.Lemmas.C02Any
import SaModel.Lemmas.C02DecodeAt
import SaModel.Read.Cast
/-
C02 — deserializing any valid Arrow array yields exactly its logical content.
Property theorems only.  Model: SaModel/Read/Reader.lean (`Fixes.all`); specification: SaModel/Spec/Decode.lean
in its slot-wise form SaModel/Spec/DecodeAt.lean; rendering of logical values: SaModel/Read/ToD.lean.

* `read_any_decode`: for EVERY array `a` (any nesting) and every slot `i` whose Arrow reading is defined
  (`decodeAt a i = ok lv`), if the reader can be built (`new a = ok`), the lengths are representable in Rust
  (`physical`) and the strings are well-formed UTF-8, `deserialize_any` returns exactly `toD a lv`.
* `C02_layout_irrelevant`: the result is a function of the decoded value and the type skeleton only, so any two
  arrays that decode alike read alike — every layout freedom of the statement is an instance.
-/
namespace SaModel.Props.C02
open SaModel SaModel.Read SaModel.Spec

/-! ### the slot-wise oracle IS the oracle

`Spec.decodeAt` / `lenOf` (what every theorem below and the driver use) against `Spec.decodeAll` / `Spec.decode`
(SaModel/Spec/Decode.lean, the definition of what an array means): equal for EVERY array, with no well-formedness
hypothesis (both fail in the same slots with the same error).  Proof: `Lemmas/C02DecodeAt.lean`, mutual structural
recursion over `Arr` / `ArrFields` / `ArrUFields`. -/

theorem decodeAll_eq_decodeAt (a : Arr) : decodeAll a = (List.range (lenOf a)).map (decodeAt a) :=
  decodeAll_eq_map_decodeAt a

theorem decode_eq_decodeAt (a : Arr) (i : Nat) : Spec.decode a i = decodeAt a i := (decodeAll_spec a).2 i

theorem len_eq_lenOf (a : Arr) : Arr.len a = lenOf a := (decodeAll_spec a).1

/-- non-vacuity: a nested array with nulls, a non-zero first offset, an out-of-range slot and a failing slot
(the last list entry points outside the child) — both oracles computed -/
example :
    let a : Arr := .list false (some ⟨[0b1011], 0⟩) [1, 3, 3, 9, 4] ⟨"element", true, []⟩
      (.struct 4 none (.cons ⟨"x", true, []⟩ (.prim .int32 (some ⟨[0b0101], 0⟩) [7, 8, 9, 10]) .nil))
    lenOf a = 4 ∧ (List.range 6).map (Spec.decode a) = (List.range 6).map (decodeAt a) ∧
      (decodeAt a 0).isOk = true ∧ decodeAt a 2 = .ok .null ∧ (decodeAt a 3).isOk = false := by decide


/-! ### deserialize_any (proof: `Lemmas/C02Any.lean`, `C02Leaf.lean`, `C02Container.lean`) -/

theorem read_any_decode (a : Arr) (i : Nat) (lv : LVal)
    (h : decodeAt a i = .ok lv) (hn : new Fixes.all a = .ok ()) (hp : physical a = true) (hu : utf8Ok lv = true) :
    readAny Fixes.all a i = .ok (toD a lv) := readAny_decodeAt a i lv h hn hp hu

/-- the same, stated with the materialising oracle `Spec.decode` -/
theorem read_any_decode_spec (a : Arr) (i : Nat) (lv : LVal)
    (h : Spec.decode a i = .ok lv) (hn : new Fixes.all a = .ok ()) (hp : physical a = true) (hu : utf8Ok lv = true) :
    readAny Fixes.all a i = .ok (toD a lv) := read_any_decode a i lv (decode_eq_decodeAt a i ▸ h) hn hp hu

/-- every field of a struct row -/
theorem read_fields_decode (fs : ArrFields) (i : Nat) (vals : List (String × LVal))
    (h : decodeFieldsAt fs i = .ok vals) (hn : newFields Fixes.all fs = .ok ()) (hp : physicalFields fs = true)
    (hu : utf8OkFields (LFields.ofList vals) = true) :
    readAnyFields Fixes.all fs i = .ok (toDFields fs (LFields.ofList vals)) := readAnyFields_decodeAt fs i vals h hn hp hu

/-- the selected variant of a dense union -/
theorem read_variant_decode (fs : ArrUFields) (k pos j : Nat) (v : LVal)
    (h : decodeVariantAt fs pos j = .ok v) (hn : newUFields Fixes.all fs k = .ok ()) (hp : physicalUFields fs = true)
    (hu : utf8Ok v = true) :
    ∃ fm child, ArrUFields.nth fs pos = some (fm, child) ∧
      readAnyVariant Fixes.all fs pos j = .ok (.enum (.str .transient (strBytes fm.name)) (toD child v)) :=
  readAnyVariant_decodeAt fs k pos j v h hn hp hu

/-- layout freedoms are irrelevant: the result of a read is a function of the decoded value (and the type skeleton
through `toD`) only.  Any two arrays — or two slots — that decode to the same logical value read the same: non-zero
first offsets, unreferenced child ranges, garbage under nulls, unused / duplicate dictionary values, several view
buffers and bitmap bit offsets all leave `decodeAt` unchanged, hence the read. -/
theorem C02_layout_irrelevant (a b : Arr) (i j : Nat) (lv : LVal)
    (ha : decodeAt a i = .ok lv) (hb : decodeAt b j = .ok lv)
    (hna : new Fixes.all a = .ok ()) (hnb : new Fixes.all b = .ok ())
    (hpa : physical a = true) (hpb : physical b = true) (hu : utf8Ok lv = true)
    (hshape : toD a lv = toD b lv) :
    readAny Fixes.all a i = readAny Fixes.all b j := by
  rw [read_any_decode a i lv ha hna hpa hu, read_any_decode b j lv hb hnb hpb hu, hshape]

/-! instances (computed): a canonical layout and a layout with a non-zero first offset, garbage under the null, a
bitmap bit offset, an unused and a duplicate dictionary value, an unreferenced child prefix -/
example :
    let canon : Arr := .bytes .utf8 (some ⟨[0b101], 0⟩) [0, 1, 1, 3] [97, 98, 99]
    let odd : Arr := .bytes .utf8 (some ⟨[0b10111], 2⟩) [2, 3, 5, 7] [0, 0, 97, 120, 121, 98, 99, 0]
    (List.range 3).map (readAny Fixes.all canon) = (List.range 3).map (readAny Fixes.all odd) := by decide

example :
    let canon : Arr := .dictionary (.prim .int8 none [0, 1, 0]) (.bytes .utf8 none [0, 1, 2] [97, 98])
    let odd : Arr := .dictionary (.prim .int8 none [3, 1, 0]) (.bytes .utf8 none [0, 1, 2, 3, 4] [97, 98, 122, 97])
    (List.range 3).map (readAny Fixes.all canon) = (List.range 3).map (readAny Fixes.all odd) := by decide

example :
    let canon : Arr := .list false none [0, 2, 3] ⟨"element", false, []⟩ (.prim .int32 none [1, 2, 3])
    let odd : Arr := .list false none [2, 4, 5] ⟨"element", false, []⟩ (.prim .int32 none [9, 9, 1, 2, 3, 9])
    (List.range 2).map (readAny Fixes.all canon) = (List.range 2).map (readAny Fixes.all odd) := by decide

end SaModel.Props.C02
