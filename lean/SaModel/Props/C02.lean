import SaModel.Lemmas.C02TypedStruct
import SaModel.Lemmas.C02DecodeAt
import SaModel.Lemmas.C02Total
import SaModel.Lemmas.C02Supported
import SaModel.Lemmas.C15Format
/-
C02 — deserializing any valid Arrow array yields exactly its logical content.
Property theorems only.  Model: SaModel/Read/Reader.lean (`Fixes.all`); specification: SaModel/Spec/Decode.lean
in its slot-wise form SaModel/Spec/DecodeAt.lean; rendering of logical values: SaModel/Read/ToD.lean.

* `decodeAll_eq_decodeAt`, `decode_eq_decodeAt`, `len_eq_lenOf`: the slot-wise oracle used everywhere is
  `Spec.decodeAll` / `Spec.decode`, for every array, no hypothesis.
* `read_any_decode` (`read_any_decode_spec`, `read_fields_decode`, `read_variant_decode`): for EVERY array `a` (any
  nesting) and every slot `i` whose Arrow reading is defined (`decodeAt a i = ok lv`), if the reader can be built
  (`new a = ok`), the lengths are representable in Rust (`physical`) and the strings are well-formed UTF-8,
  `deserialize_any` returns exactly `toD a lv`.
* `C02_layout_irrelevant`: the result is a function of the decoded value and the type skeleton only, so any two
  arrays that decode alike read alike — every layout freedom of the statement is an instance.
* `read_typed_decode` (`read_typed_sound` + `targets_sound` / `tfields_sound` / `variants_sound` / `kind_sound`,
  `read_typed_decode_spec`, `read_option_null`, `C02_typed_layout_irrelevant`): typed reads (every target shape, any
  nesting) return what the value-level specification `cast` demands.
* `cast_na_only` (`cast_na_only_if`: the same implication with the value quantified; `cast_na_iff` is its former name),
  `cast_must_or_mustFail`: `cast` is `na` only in cells where field names repeat (`naCell`); every other cell is `must d`
  or `mustFail`.  `cast_na_converse_fails`: not every cell that repeats names is `na` (target `any`).
* `decimalRepr_spec`: the text of a Decimal128 slot is `format_decimal` of C15.
* `read_any_decode_supported`, `read_typed_decode_supported`, `unsupported_refused`: the read theorems with
  `supportedView a` in place of `new a = ok` (`new_ok_iff_supported`, `Lemmas/C02Supported.lean`).
* `null_struct/list/fsl/map_reads_hidden_data` + `null_container_into_non_option_witness`: known finding #23.
-/
namespace SaModel.Props.C02
open SaModel SaModel.Read SaModel.Spec

/-! ### the slot-wise oracle IS the oracle

`Spec.decodeAt` / `lenOf` (what every theorem below and the driver use) against `Spec.decodeAll` / `Spec.decode`
(SaModel/Spec/Decode.lean, the definition of what an array means): equal for EVERY array, with no well-formedness
hypothesis (both fail in the same slots with the same error).  Proof: `Lemmas/C02DecodeAt.lean`, mutual structural
recursion over `Arr` / `ArrFields` / `ArrUFields`. -/

theorem decodeAll_eq_decodeAt (a : Arr) : decodeAll a = (List.range (lenOf a)).map (decodeAt a) :=
  decodeAll_eq_map_decodeAt a

theorem decode_eq_decodeAt (a : Arr) (i : Nat) : Spec.decode a i = decodeAt a i := (decodeAll_spec a).2 i

theorem len_eq_lenOf (a : Arr) : Arr.len a = lenOf a := (decodeAll_spec a).1

/-- non-vacuity: a nested array with nulls, a non-zero first offset, an out-of-range slot and a failing slot
(the last list entry points outside the child) — both oracles computed -/
example :
    let a : Arr := .list false (some ⟨[0b1011], 0⟩) [1, 3, 3, 9, 4] ⟨"element", true, []⟩
      (.struct 4 none (.cons ⟨"x", true, []⟩ (.prim .int32 (some ⟨[0b0101], 0⟩) [7, 8, 9, 10]) .nil))
    lenOf a = 4 ∧ (List.range 6).map (Spec.decode a) = (List.range 6).map (decodeAt a) ∧
      (decodeAt a 0).isOk = true ∧ decodeAt a 2 = .ok .null ∧ (decodeAt a 3).isOk = false := by decide


/-! ### deserialize_any (proof: `Lemmas/C02Any.lean`, `C02Leaf.lean`, `C02Container.lean`) -/

theorem read_any_decode (a : Arr) (i : Nat) (lv : LVal)
    (h : decodeAt a i = .ok lv) (hn : new Fixes.all a = .ok ()) (hp : physical a = true) (hu : utf8Ok lv = true) :
    readAny Fixes.all a i = .ok (toD a lv) := readAny_decodeAt a i lv h hn hp hu

/-- the same, stated with the materialising oracle `Spec.decode` -/
theorem read_any_decode_spec (a : Arr) (i : Nat) (lv : LVal)
    (h : Spec.decode a i = .ok lv) (hn : new Fixes.all a = .ok ()) (hp : physical a = true) (hu : utf8Ok lv = true) :
    readAny Fixes.all a i = .ok (toD a lv) := read_any_decode a i lv (decode_eq_decodeAt a i ▸ h) hn hp hu

/-- every field of a struct row -/
theorem read_fields_decode (fs : ArrFields) (i : Nat) (vals : List (String × LVal))
    (h : decodeFieldsAt fs i = .ok vals) (hn : newFields Fixes.all fs = .ok ()) (hp : physicalFields fs = true)
    (hu : utf8OkFields (LFields.ofList vals) = true) :
    readAnyFields Fixes.all fs i = .ok (toDFields fs (LFields.ofList vals)) := readAnyFields_decodeAt fs i vals h hn hp hu

/-- the selected variant of a dense union -/
theorem read_variant_decode (fs : ArrUFields) (k pos j : Nat) (v : LVal)
    (h : decodeVariantAt fs pos j = .ok v) (hn : newUFields Fixes.all fs k = .ok ()) (hp : physicalUFields fs = true)
    (hu : utf8Ok v = true) :
    ∃ fm child, ArrUFields.nth fs pos = some (fm, child) ∧
      readAnyVariant Fixes.all fs pos j = .ok (.enum (.str .transient (strBytes fm.name)) (toD child v)) :=
  readAnyVariant_decodeAt fs k pos j v h hn hp hu

/-- layout freedoms are irrelevant: the result of a read is a function of the decoded value (and the type skeleton
through `toD`) only.  Any two arrays — or two slots — that decode to the same logical value read the same: non-zero
first offsets, unreferenced child ranges, garbage under nulls, unused / duplicate dictionary values, several view
buffers and bitmap bit offsets all leave `decodeAt` unchanged, hence the read. -/
theorem C02_layout_irrelevant (a b : Arr) (i j : Nat) (lv : LVal)
    (ha : decodeAt a i = .ok lv) (hb : decodeAt b j = .ok lv)
    (hna : new Fixes.all a = .ok ()) (hnb : new Fixes.all b = .ok ())
    (hpa : physical a = true) (hpb : physical b = true) (hu : utf8Ok lv = true)
    (hshape : toD a lv = toD b lv) :
    readAny Fixes.all a i = readAny Fixes.all b j := by
  rw [read_any_decode a i lv ha hna hpa hu, read_any_decode b j lv hb hnb hpb hu, hshape]

/-! instances (computed): a canonical layout and a layout with a non-zero first offset, garbage under the null, a
bitmap bit offset, an unused and a duplicate dictionary value, an unreferenced child prefix -/
example :
    let canon : Arr := .bytes .utf8 (some ⟨[0b101], 0⟩) [0, 1, 1, 3] [97, 98, 99]
    let odd : Arr := .bytes .utf8 (some ⟨[0b10111], 2⟩) [2, 3, 5, 7] [0, 0, 97, 120, 121, 98, 99, 0]
    (List.range 3).map (readAny Fixes.all canon) = (List.range 3).map (readAny Fixes.all odd) := by decide

example :
    let canon : Arr := .dictionary (.prim .int8 none [0, 1, 0]) (.bytes .utf8 none [0, 1, 2] [97, 98])
    let odd : Arr := .dictionary (.prim .int8 none [3, 1, 0]) (.bytes .utf8 none [0, 1, 2, 3, 4] [97, 98, 122, 97])
    (List.range 3).map (readAny Fixes.all canon) = (List.range 3).map (readAny Fixes.all odd) := by decide

example :
    let canon : Arr := .list false none [0, 2, 3] ⟨"element", false, []⟩ (.prim .int32 none [1, 2, 3])
    let odd : Arr := .list false none [2, 4, 5] ⟨"element", false, []⟩ (.prim .int32 none [9, 9, 1, 2, 3, 9])
    (List.range 2).map (readAny Fixes.all canon) = (List.range 2).map (readAny Fixes.all odd) := by decide

/-! ### typed reads (proof: `Lemmas/C02TypedGet.lean`, `C02TypedLeaf.lean`, `C02TypedCont.lean`, `C02TypedStruct.lean`)

`cast t a lv` (SaModel/Read/Cast.lean, total, structural over the target) is the value-level meaning of reading a slot
with logical value `lv` of array `a` into the Rust type `t`: records by field name, tuples by position, numbers by
value, `Option` by null-ness, enums by variant name / index.  `Sound t`: whenever `cast t` demands a value `d` of a slot
whose Arrow reading is defined, `readAs t` returns exactly `d`. -/

mutual
theorem read_typed_sound : ∀ (t : Target), Sound t
  | .any => sound_any
  | .ignored => sound_ignored
  | .unit => sound_scalar (m := .unit) rfl (fun _ _ => by simp only [Read.cast]) (fun _ _ _ => by simp only [readAs])
  | .unitStruct => sound_scalar (m := .unitStruct) rfl (fun _ _ => by simp only [Read.cast]) (fun _ _ _ => by simp only [readAs])
  | .bool => sound_scalar (m := .bool) rfl (fun _ _ => by simp only [Read.cast]) (fun _ _ _ => by simp only [readAs])
  | .int ty => sound_scalar (m := .int ty) rfl (fun _ _ => by simp only [Read.cast]) (fun _ _ _ => by simp only [readAs])
  | .f32 => sound_scalar (m := .f32) rfl (fun _ _ => by simp only [Read.cast]) (fun _ _ _ => by simp only [readAs])
  | .f64 => sound_scalar (m := .f64) rfl (fun _ _ => by simp only [Read.cast]) (fun _ _ _ => by simp only [readAs])
  | .char => sound_scalar (m := .char) rfl (fun _ _ => by simp only [Read.cast]) (fun _ _ _ => by simp only [readAs])
  | .string => sound_scalar (m := .string) rfl (fun _ _ => by simp only [Read.cast]) (fun _ _ _ => by simp only [readAs])
  | .str => sound_scalar (m := .str) rfl (fun _ _ => by simp only [Read.cast]) (fun _ _ _ => by simp only [readAs])
  | .bytes => sound_scalar (m := .bytes) rfl (fun _ _ => by simp only [Read.cast])
      (fun a _ hl => by cases a <;> first | exact absurd rfl (hl _ _ _ _ _) | simp only [readAs])
  | .byteBuf => sound_byteBuf
  | .option t => sound_option (read_typed_sound t)
  | .newtype t => sound_newtype (read_typed_sound t)
  | .seq t => sound_seq (read_typed_sound t)
  | .tuple ts => sound_tuple (targets_sound ts)
  | .tupleStruct ts => sound_tupleStruct (targets_sound ts)
  | .map k v => sound_map (read_typed_sound k) (read_typed_sound v)
  | .struct tfs => sound_struct (tfields_sound tfs)
  | .enum _ vs => sound_enum (variants_sound vs)
theorem targets_sound : ∀ (ts : Targets), ∀ t ∈ Targets.toList ts, Sound t
  | .nil, t, h => by simp [Targets.toList] at h
  | .cons t' rest, t, h => by
    simp only [Targets.toList, List.mem_cons] at h
    rcases h with h | h
    · rw [h]; exact read_typed_sound t'
    · exact targets_sound rest t h
theorem tfields_sound : ∀ (tfs : TFields), ∀ p ∈ TFields.toList tfs, Sound p.2
  | .nil, p, h => by simp [TFields.toList] at h
  | .cons n t' rest, p, h => by
    simp only [TFields.toList, List.mem_cons] at h
    rcases h with h | h
    · rw [h]; exact read_typed_sound t'
    · exact tfields_sound rest p h
theorem variants_sound : ∀ (vs : TVariants), ∀ p ∈ TVariants.toList vs, KSound p.2
  | .nil, p, h => by simp [TVariants.toList] at h
  | .cons n k rest, p, h => by
    simp only [TVariants.toList, List.mem_cons] at h
    rcases h with h | h
    · rw [h]; exact kind_sound k
    · exact variants_sound rest p h
theorem kind_sound : ∀ (k : VKind), KSound k
  | .unit => ksound_unit
  | .newtype t => ksound_newtype (read_typed_sound t)
  | .tuple ts => ksound_tuple (targets_sound ts)
  | .struct tfs => ksound_struct (tfields_sound tfs)
end

/-- C02 for typed reads: for EVERY target type `t` (scalars, `Option`, newtype, `Vec`, tuples and tuple structs, maps,
structs by field name, enums by variant name or index, nested to any depth), EVERY array `a` and slot `i` whose Arrow
reading is defined, under the hypotheses of `read_any_decode`: whatever the value-level specification demands
(`cast t a lv = must d`) is what the typed read returns.  `cast` covers EVERY (target, column) pair: it says `must d`
for every pair the reader supports (Dictionary → `&str` / `String` / enum-as-string, struct → map with any key target a
field name can be read into (String, ByteBuf, char, enum-by-name, any, IgnoredAny), Date32 / Date64 / Time32 / Time64 /
Timestamp / Duration columns → String / ByteBuf and Decimal128 columns → String (no ByteBuf row: `castLeaf`) through the
codecs of C14 / C15, f64 → f32 by IEEE narrowing, `ByteBuf` from a list of u8 included) and
`mustFail` for a value the target cannot hold, a value the codec refuses and a pair the reader does not offer
(`Props.C05.read_mustFail`: the read fails there); it is `na` only where field names repeat (`cast_na_only`).  What the
code does for a null container slot and a non-Option target is `null_*_reads_hidden_data` below (known finding
C02-null-container-into-non-option). -/
theorem read_typed_decode (t : Target) (a : Arr) (i : Nat) (lv : LVal) (d : DVal)
    (h : decodeAt a i = .ok lv) (hn : new Fixes.all a = .ok ()) (hp : physical a = true) (hu : utf8Ok lv = true)
    (hc : Read.cast t a lv = must d) : readAs Fixes.all t a i = .ok d :=
  read_typed_sound t a i lv d h hn hp hu hc

/-! ### no silent cells: `cast` is `na` only where field names repeat

`naCell t a` (decidable, `Lemmas/C02Total.lean`): a struct / struct variant of the target lists a field name twice (no
Rust type does), or a struct column inside the view has two children of the same name.  Outside of it every cell is
`must d` (then `read_typed_decode`: the read returns `d`) or `mustFail` (then `Props.C05.read_mustFail`: the read
fails; together: `Props.C05.read_typed_total`). -/

theorem cast_na_only (t : Target) (a : Arr) (lv : LVal) (h : Read.cast t a lv = na) : naCell t a = true := by
  cases hc : naCell t a with
  | true => rfl
  | false =>
    simp only [naCell, Bool.not_eq_false', Bool.and_eq_true] at hc
    exact absurd h (cast_nn t hc.1 a lv hc.2)

/-- `cast_na_only` with the value quantified — ONE implication, left to right: if SOME value of the cell `(t, a)` is left
without a claim, the cell repeats names (`naCell t a = true`).  The converse does not hold (`cast_na_converse_fails`
below).  A cell that repeats names is outside of the claim of this file (`structClaim`). -/
theorem cast_na_only_if (t : Target) (a : Arr) : (∃ lv, Read.cast t a lv = na) → naCell t a = true :=
  fun ⟨lv, h⟩ => cast_na_only t a lv h

/-- the former name of `cast_na_only_if` (it said `iff`; the statement is, and was, one implication) -/
theorem cast_na_iff (t : Target) (a : Arr) : (∃ lv, Read.cast t a lv = na) → naCell t a = true :=
  cast_na_only_if t a

/-- `deserialize_any` is never left without a claim, whatever the view: `cast .any a lv = must (toD a lv)` -/
theorem cast_any_ne_na (a : Arr) (lv : LVal) : Read.cast .any a lv ≠ na := by
  simp only [Read.cast]; intro h; cases h

/-- **the converse of `cast_na_only_if` is false**: `naCell t a` is a property of the NAMES in the cell (it is true as soon
as a struct column inside `a` repeats a child name), while whether `cast` answers depends on the target as well — the
target `any` gets a claim for every view.  Witness: a struct column with two children `x`. -/
theorem cast_na_converse_fails : ¬ ∀ (t : Target) (a : Arr), naCell t a = true → ∃ lv, Read.cast t a lv = na := by
  intro h
  obtain ⟨lv, hlv⟩ := h .any
    (.struct 1 none (.cons ⟨"x", false, []⟩ (.prim .int32 none [1]) (.cons ⟨"x", false, []⟩ (.prim .int32 none [2]) .nil)))
    (by decide)
  exact cast_any_ne_na _ lv hlv

theorem cast_must_or_mustFail (t : Target) (a : Arr) (lv : LVal) (h : naCell t a = false) :
    (∃ d, Read.cast t a lv = must d) ∨ (∃ e, Read.cast t a lv = .error e) := by
  cases hc : Read.cast t a lv with
  | error e => exact .inr ⟨e, rfl⟩
  | ok o =>
    cases o with
    | some d => exact .inl ⟨d, rfl⟩
    | none => have := cast_na_only t a lv hc; rw [h] at this; cases this

/-- the `na` cells exist (a struct column with two children `x` read by name), and the leaf table has none -/
example : Read.cast (.struct (.cons "x" (.int .i32) .nil))
    (.struct 1 none (.cons ⟨"x", false, []⟩ (.prim .int32 none [1]) (.cons ⟨"x", false, []⟩ (.prim .int32 none [2]) .nil)))
    (.struct (.cons "x" (.int 1) (.cons "x" (.int 2) .nil))) = na := by decide
example : naCell (.map .char (.seq (.option .str))) (.struct 1 none (.cons ⟨"x", false, []⟩ (.prim .int32 none [1]) .nil)) = false := by
  decide

/-- the text of a Decimal128 slot is `format_decimal` (C15): for every `i128` value and `i8` scale -/
theorem decimalRepr_spec (v s : Int) (hv : SaModel.Decimal.inI128 v) (hs : SaModel.Decimal.inI8 s) :
    SaModel.Decimal.formatDecimal v s = .ok (decimalRepr s v) := by
  have h := SaModel.Lemmas.C15.formatDecimal_eq v s hv hs
  unfold decimalRepr
  rw [h]

/-! ### 'supported array' from the documentation side (`Lemmas/C02Supported.lean`)

`supportedView a` (decidable, written without the model constructor): leaf kinds always; Timestamp naive or UTC;
FixedSizeBinary(n ≥ 0) with data divisible by n; children carry only known `SERDE_ARROW:strategy` entries;
FixedSizeList n ≥ 0; Dictionary with integer keys and Utf8 / LargeUtf8 values WITHOUT a validity buffer; Union dense, as
many offsets as type ids, type ids 0, 1, 2, ….  `new_ok_iff_supported : new Fixes.all a = .ok () ↔ supportedView a`. -/

theorem read_any_decode_supported (a : Arr) (i : Nat) (lv : LVal)
    (h : decodeAt a i = .ok lv) (hs : supportedView a = true) (hp : physical a = true) (hu : utf8Ok lv = true) :
    readAny Fixes.all a i = .ok (toD a lv) :=
  read_any_decode a i lv h ((new_ok_iff_supported a).2 hs) hp hu

theorem read_typed_decode_supported (t : Target) (a : Arr) (i : Nat) (lv : LVal) (d : DVal)
    (h : decodeAt a i = .ok lv) (hs : supportedView a = true) (hp : physical a = true) (hu : utf8Ok lv = true)
    (hc : Read.cast t a lv = must d) : readAs Fixes.all t a i = .ok d :=
  read_typed_decode t a i lv d h ((new_ok_iff_supported a).2 hs) hp hu hc

/-- an unsupported view is refused when the reader is built: no read happens -/
theorem unsupported_refused (a : Arr) (h : supportedView a = false) : ∃ e, new Fixes.all a = .error e :=
  new_err_of_not_supported a h

/-- the same, stated with the materialising oracle `Spec.decode` -/
theorem read_typed_decode_spec (t : Target) (a : Arr) (i : Nat) (lv : LVal) (d : DVal)
    (h : Spec.decode a i = .ok lv) (hn : new Fixes.all a = .ok ()) (hp : physical a = true) (hu : utf8Ok lv = true)
    (hc : Read.cast t a lv = must d) : readAs Fixes.all t a i = .ok d :=
  read_typed_decode t a i lv d (decode_eq_decodeAt a i ▸ h) hn hp hu hc

/-- `Option` targets on null slots of every column kind (containers included): `None` -/
theorem read_option_null (t : Target) (a : Arr) (i : Nat)
    (h : decodeAt a i = .ok .null) (hn : new Fixes.all a = .ok ()) (hp : physical a = true) :
    readAs Fixes.all (.option t) a i = .ok .none :=
  read_typed_decode (.option t) a i .null .none h hn hp rfl (by simp only [Read.cast])

/-- typed reads return the same for any two arrays / slots with the same decoded value and claim (layout freedoms) -/
theorem C02_typed_layout_irrelevant (t : Target) (a b : Arr) (i j : Nat) (lv : LVal) (d : DVal)
    (ha : decodeAt a i = .ok lv) (hb : decodeAt b j = .ok lv)
    (hna : new Fixes.all a = .ok ()) (hnb : new Fixes.all b = .ok ())
    (hpa : physical a = true) (hpb : physical b = true) (hu : utf8Ok lv = true)
    (hca : Read.cast t a lv = must d) (hcb : Read.cast t b lv = must d) :
    readAs Fixes.all t a i = readAs Fixes.all t b j := by
  rw [read_typed_decode t a i lv d ha hna hpa hu hca, read_typed_decode t b j lv d hb hnb hpb hu hcb]

/-! non-vacuity (computed): a struct column with a null-able int, a list of strings and a dense union, read into a
derived struct (fields in another order, one missing `Option` field, one column field without target), a tuple, a map
and enums by name / by index: hypotheses hold, `cast` demands a value, and the read returns it -/
def exCol : Arr :=
  .struct 2 (some ⟨[0b11], 0⟩)
    (.cons ⟨"a", true, []⟩ (.prim .int32 (some ⟨[0b01], 0⟩) [7, 9])
    (.cons ⟨"b", false, []⟩ (.list false none [1, 3, 3] ⟨"element", false, []⟩ (.bytes .utf8 none [0, 1, 2, 4] [120, 121, 122, 122]))
    (.cons ⟨"u", false, []⟩ (.union [1, 0] (some [0, 0])
        (.cons 0 ⟨"N", false, []⟩ (.null 1) (.cons 1 ⟨"I", false, []⟩ (.prim .int64 none [5]) .nil))) .nil)))

def exTargets : List Target :=
  [ .struct (.cons "b" (.seq .string) (.cons "a" (.option (.int .i64)) (.cons "zz" (.option .bool) .nil))),
    .tuple (.cons (.option (.int .i32)) (.cons (.seq .str) .nil)),
    .map .string .any,
    .struct (.cons "u" (.enum false (.cons "N" .unit (.cons "I" (.newtype (.int .i16)) .nil))) .nil),
    .struct (.cons "u" (.enum true (.cons "N" .unit (.cons "I" (.newtype (.int .u8)) .nil))) .nil),
    .option (.newtype (.struct (.cons "a" (.option (.int .i16)) .nil))) ]

def exLv (i : Nat) : LVal := match decodeAt exCol i with | .ok lv => lv | .error _ => .null

def isMust : Claim → Bool
  | .ok (some _) => true
  | _ => false

theorem isMust_elim {c : Claim} (h : isMust c = true) : ∃ d, c = must d := by
  unfold isMust at h
  split at h
  · exact ⟨_, rfl⟩
  · cases h

example : ∀ i ∈ [0, 1], ∀ t ∈ exTargets, exLv i ≠ .null ∧
    ∃ d, Read.cast t exCol (exLv i) = must d ∧ readAs Fixes.all t exCol i = .ok d := by
  have hn : new Fixes.all exCol = .ok () := by decide
  have hp : physical exCol = true := by decide
  have hd : ∀ i ∈ [0, 1], decodeAt exCol i = .ok (exLv i) ∧ utf8Ok (exLv i) = true ∧ exLv i ≠ .null ∧
      exTargets.all (fun t => isMust (Read.cast t exCol (exLv i))) = true := by decide
  intro i hi t ht
  obtain ⟨h1, h2, h3, h4⟩ := hd i hi
  obtain ⟨d, hc⟩ := isMust_elim (List.all_eq_true.mp h4 t ht)
  exact ⟨h3, d, hc, read_typed_decode t exCol i (exLv i) d h1 hn hp h2 hc⟩

/-! non-vacuity of the dictionary / codec / narrowing / map-key cells (computed): a dictionary column as borrowed `&str` and as enum-by-name, a
Date32 / Time64(us) / Timestamp(ms, UTC) / Duration(ns) / Decimal128(scale 2) column as `String`, Float64 as `f32`
(1.1 rounds to 0x3F8CCCCD; 1e300 overflows to +inf), a struct read as `HashMap<char, i64>` and as a map keyed by an enum,
`ByteBuf` from a List<UInt8>: `cast` demands the value shown and (by `read_typed_decode`) the read returns it -/
def exCells : List (Target × Arr × DVal) :=
  [ (.str, .dictionary (.prim .int8 none [1]) (.bytes .utf8 none [0, 1, 3] [97, 98, 99]), .str .borrowed [98, 99]),
    (.enum false (.cons "a" .unit (.cons "bc" .unit .nil)),
      .dictionary (.prim .int8 none [1]) (.bytes .utf8 none [0, 1, 3] [97, 98, 99]), .enum (.str .transient [98, 99]) .unit),
    (.string, .prim .date32 none [-1], .str .owned (strBytes "1969-12-31")),
    (.string, .time .time64 .microsecond none [3723000004], .str .owned (strBytes "01:02:03.000004")),
    (.string, .timestamp .millisecond (some "UTC") none [1500], .str .owned (strBytes "1970-01-01T00:00:01.500Z")),
    (.byteBuf, .time .duration .nanosecond none [-1500000000], .bytes .owned (strBytes "-PT1.500000000s")),
    (.string, .decimal128 5 2 none [-1234], .str .owned (strBytes "-12.34")),
    (.f32, .prim .float64 none [0x3FF199999999999A], .f32 0x3F8CCCCD),
    (.f32, .prim .float64 none [0x7E37E43C8800759C], .f32 0x7F800000),
    (.map .char (.int .i64), .struct 1 none (.cons ⟨"k", false, []⟩ (.prim .int8 none [5]) .nil),
      .map (.cons (.char 107) (.int .i64 5) .nil)),
    (.map (.enum false (.cons "k" .unit .nil)) .any, .struct 1 none (.cons ⟨"k", false, []⟩ (.prim .int8 none [5]) .nil),
      .map (.cons (.enum (.str .transient [107]) .unit) (.int .i8 5) .nil)),
    (.byteBuf, .list false none [0, 2] ⟨"element", false, []⟩ (.prim .uint8 none [7, 255]), .bytes .owned [7, 255]) ]

example : ∀ c ∈ exCells, ∃ lv, decodeAt c.2.1 0 = .ok lv ∧ lv ≠ .null ∧ Read.cast c.1 c.2.1 lv = must c.2.2 ∧
    readAs Fixes.all c.1 c.2.1 0 = .ok c.2.2 := by
  have hd : ∀ c ∈ exCells, decodeAt c.2.1 0 = .ok (match decodeAt c.2.1 0 with | .ok lv => lv | .error _ => .null) ∧
      (match decodeAt c.2.1 0 with | .ok lv => lv | .error _ => .null) ≠ .null ∧
      supportedView c.2.1 = true ∧ physical c.2.1 = true ∧
      utf8Ok (match decodeAt c.2.1 0 with | .ok lv => lv | .error _ => .null) = true ∧
      Read.cast c.1 c.2.1 (match decodeAt c.2.1 0 with | .ok lv => lv | .error _ => .null) = must c.2.2 := by decide +kernel
  intro c hc
  obtain ⟨h1, h2, h3, h4, h5, h6⟩ := hd c hc
  exact ⟨_, h1, h2, h6, read_typed_decode_supported c.1 c.2.1 0 _ c.2.2 h1 h3 h4 h5 h6⟩

/-- and the refusals of the same cells: the borrowed targets on a created text, a date outside chrono's range -/
example : Read.cast .str (.prim .date32 none [0]) (.int 0) = mustFail "unsupported (target, column) pair" ∧
    Read.cast .string (.prim .date64 none [9223372036854775807]) (.int 9223372036854775807) = mustFail "Unsupported date value" ∧
    Read.cast (.map .char .any) (.struct 1 none (.cons ⟨"kk", false, []⟩ (.null 1) .nil))
      (.struct (.cons "kk" .null .nil)) = mustFail "not a char" := by decide +kernel

/-! ### known finding C02-null-container-into-non-option (#23): what the code does

The typed reads of the Struct / List / LargeList / FixedSizeList / Map readers never consult the validity bitmap: the
read of a null slot into a non-Option target is the read of the same slot with the bitmap removed — by
`read_typed_decode` on that array, the data hidden under the null (`cast` says such a read must fail). -/

theorem null_struct_reads_hidden_data (t : Target) (len : Nat) (v : Option Bits) (fs : ArrFields) (i : Nat)
    (ht : (∃ ts, t = .tuple ts) ∨ (∃ ts, t = .tupleStruct ts) ∨ (∃ k w, t = .map k w) ∨ (∃ tfs, t = .struct tfs)) :
    readAs Fixes.all t (.struct len v fs) i = readAs Fixes.all t (.struct len none fs) i := by
  rcases ht with ⟨ts, rfl⟩ | ⟨ts, rfl⟩ | ⟨k, w, rfl⟩ | ⟨tfs, rfl⟩ <;> simp only [readAs, tupleVisit, structVisit]

theorem null_list_reads_hidden_data (t : Target) (lg : Bool) (v : Option Bits) (offs : List Int) (fm : FieldMeta) (el : Arr) (i : Nat) :
    readAs Fixes.all (.seq t) (.list lg v offs fm el) i = readAs Fixes.all (.seq t) (.list lg none offs fm el) i := by
  simp only [readAs]

theorem null_fsl_reads_hidden_data (t : Target) (len : Nat) (v : Option Bits) (n : Int) (fm : FieldMeta) (el : Arr) (i : Nat) :
    readAs Fixes.all (.seq t) (.fixedSizeList len v n fm el) i = readAs Fixes.all (.seq t) (.fixedSizeList len none n fm el) i := by
  simp only [readAs]

theorem null_map_reads_hidden_data (k w : Target) (v : Option Bits) (offs : List Int) (mm : MapMeta) (ks vs : Arr) (i : Nat) :
    readAs Fixes.all (.map k w) (.map v offs mm ks vs) i = readAs Fixes.all (.map k w) (.map none offs mm ks vs) i := by
  simp only [readAs]

/-- witness: the slot is null, the specification says the read must fail, the code returns the hidden `(42,)` /
`[1, 2]` / `{1: 2}`; the same slots into `Option` targets are `None` -/
theorem null_container_into_non_option_witness :
    let a : Arr := .struct 1 (some ⟨[0], 0⟩) (.cons ⟨"x", false, []⟩ (.prim .int32 none [42]) .nil)
    let t : Target := .tuple (.cons (.int .i32) .nil)
    let l : Arr := .list false (some ⟨[0], 0⟩) [0, 2] ⟨"element", false, []⟩ (.prim .int32 none [1, 2])
    let m : Arr := .map (some ⟨[0], 0⟩) [0, 1] ⟨"entries", false, ⟨"key", false, []⟩, ⟨"value", false, []⟩⟩
      (.prim .int8 none [1]) (.prim .int8 none [2])
    decodeAt a 0 = .ok .null ∧ new Fixes.all a = .ok () ∧
    Read.cast t a .null = mustFail "null into a non-Option target" ∧
    readAs Fixes.all t a 0 = .ok (.seq (.cons (.int .i32 42) .nil)) ∧
    readAs Fixes.all (.option t) a 0 = .ok .none ∧
    decodeAt l 0 = .ok .null ∧ Read.cast (.seq (.int .i32)) l .null = mustFail "null into a non-Option target" ∧
    readAs Fixes.all (.seq (.int .i32)) l 0 = .ok (.seq (.cons (.int .i32 1) (.cons (.int .i32 2) .nil))) ∧
    readAs Fixes.all (.option (.seq (.int .i32))) l 0 = .ok .none ∧
    decodeAt m 0 = .ok .null ∧ Read.cast (.map (.int .u8) (.int .u8)) m .null = mustFail "null into a non-Option target" ∧
    readAs Fixes.all (.map (.int .u8) (.int .u8)) m 0 = .ok (.map (.cons (.int .u8 1) (.int .u8 2) .nil)) := by decide

end SaModel.Props.C02
