import SaModel.Lemmas.ReadBasic
import SaModel.Read.Cast
import SaModel.Spec.DecodeAt
/-
C02 — deserializing any valid Arrow array yields exactly its logical content.
Property theorems only.  Model: SaModel/Read/Reader.lean (`Fixes.all`); specification: SaModel/Spec/Decode.lean
in its slot-wise form SaModel/Spec/DecodeAt.lean; rendering of logical values: SaModel/Read/ToD.lean.
-/
namespace SaModel.Props.C02
open SaModel SaModel.Read SaModel.Spec

end SaModel.Props.C02
