import SaModel.Read.Reader
import SaModel.Read.Label
import SaModel.Lemmas.C18Reps
import SaModel.Generated.ReaderMatrix
/-
C02, tie by TRANSLATION: the method matrix of the readers.

`translator/tables2.py` reads, before every build, the trait `RandomAccessDeserializer` (every method with its
default body), every `impl … RandomAccessDeserializer for X` of serde_arrow/src/internal/deserialization/*.rs
(which methods it overrides) and the arms of `ArrayDeserializer::new` into `SaModel/Generated/ReaderMatrix.lean`.
Here the same matrix is computed from the hand-written reader MODEL (`SaModel/Read/Reader.lean`): a reader family
"implements" a typed read when `readAs` with the target that issues that `deserialize_*` call does not end in
`notImpl` (the model's single rendering of the trait's default `Deserializer does not implement …`).  The two
matrices must be equal (`gen_reader_matrix`, 49 readers × 24 call kinds (`calls`), `decide +kernel` on finite tables; methods
are compared by position in the trait because string comparison is slow in the kernel).

  gen_trait            the defaults are what the model assumes: typed reads reject with
                       `Deserializer does not implement <method>_at`; `deserialize_any` / `deserialize_option` are
                       derived from `is_some` + `deserialize_any_some` / `visit_some` exactly as `readAny` and the
                       `.option` arm of `readAs` do; `deserialize_ignored_any` forwards to `deserialize_any`;
                       `deserialize_newtype_struct` is transparent
  gen_enum_forwards    `ArrayDeserializer` forwards every method to the method of the same name EXCEPT `at`,
                       `deserialize_any`, `deserialize_option`, `deserialize_ignored_any`, for which the trait's
                       defaults run at the enum (so a reader's own override of those is not reachable through it)
  gen_basics           every reader overrides `is_some` and `deserialize_any_some`; no reader overrides
                       `deserialize_identifier`, `deserialize_ignored_any`, `deserialize_newtype_struct`, `at`
  gen_idx              the recorded positions `idx` of every impl are the positions of its method names in the trait
  gen_serde_wiring     `impl Deserializer for PositionedDeserializer` calls the trait method of the same name
  gen_reader_matrix    Rust matrix = model matrix, for every arm of `ArrayDeserializer::new`
-/
namespace SaModel.Props.C02Gen
open SaModel SaModel.Read SaModel.Lemmas.C18Reps
open SaModel.Generated.ReaderMatrix

/-- one typed read: the trait method, its position in the trait, the target that issues it -/
structure Call where
  method : String
  pos : Nat
  target : Target

def calls : List Call := [
  ⟨"deserialize_bool", 6, .bool⟩,
  ⟨"deserialize_i8", 7, .int .i8⟩, ⟨"deserialize_i16", 8, .int .i16⟩, ⟨"deserialize_i32", 9, .int .i32⟩,
  ⟨"deserialize_i64", 10, .int .i64⟩, ⟨"deserialize_u8", 11, .int .u8⟩, ⟨"deserialize_u16", 12, .int .u16⟩,
  ⟨"deserialize_u32", 13, .int .u32⟩, ⟨"deserialize_u64", 14, .int .u64⟩,
  ⟨"deserialize_f32", 15, .f32⟩, ⟨"deserialize_f64", 16, .f64⟩, ⟨"deserialize_char", 17, .char⟩,
  ⟨"deserialize_str", 18, .str⟩, ⟨"deserialize_string", 19, .string⟩,
  ⟨"deserialize_map", 20, .map .any .any⟩, ⟨"deserialize_struct", 21, .struct .nil⟩,
  ⟨"deserialize_byte_buf", 22, .byteBuf⟩, ⟨"deserialize_bytes", 23, .bytes⟩,
  ⟨"deserialize_enum", 24, .enum false .nil⟩,
  ⟨"deserialize_tuple", 27, .tuple .nil⟩, ⟨"deserialize_seq", 28, .seq .any⟩,
  ⟨"deserialize_tuple_struct", 29, .tupleStruct .nil⟩,
  ⟨"deserialize_unit", 30, .unit⟩, ⟨"deserialize_unit_struct", 31, .unitStruct⟩]

def nameAt (k : Nat) : Option String := traitMethods[k]?.map (·.1)

def callOk (c : Call) : Bool :=
  match traitMethods[c.pos]? with
  | some (n, "reject", msg) => n == c.method && msg == "Deserializer does not implement " ++ c.method ++ "_at"
  | _ => false

/-- **the trait's defaults are the ones the model assumes** -/
theorem gen_trait :
    calls.all callOk = true ∧
    -- the methods that are not typed reads, with their default bodies
    ([0, 1, 2, 3, 4, 5, 25, 26].map fun k => traitMethods[k]?) = [
      some ("at", "other", "PositionedDeserializer(self, idx)"),
      some ("is_some", "reject", "Deserializer does not implement is_some_at"),
      some ("deserialize_any_some", "reject", "Deserializer does not implement deserialize_any_some_at"),
      -- `readAny = anyAt (readAnySome)`: `is_some`, then `…_any_some` or `visit_none`
      some ("deserialize_any", "other",
        "try_(|| { if self.is_some(idx)? { self.deserialize_any_some(visitor, idx) } else { visitor.visit_none() } }) .ctx(self)"),
      -- the `.option` arm of `readAs`: `is_some`, then `visit_some(self.at(idx))` or `visit_none`
      some ("deserialize_option", "other",
        "try_(|| { if self.is_some(idx)? { visitor.visit_some(self.at(idx)) } else { visitor.visit_none() } }) .ctx(self)"),
      -- the `.ignored` arm of `readAs` reads through `readAny`
      some ("deserialize_ignored_any", "forward", "deserialize_any"),
      some ("deserialize_identifier", "reject", "Deserializer does not implement deserialize_identifier_at"),
      -- the `.newtype` arm of `readAs` is transparent
      some ("deserialize_newtype_struct", "other", "visitor.visit_newtype_struct(PositionedDeserializer(self, idx))")] ∧
    (List.range traitMethods.length).all (fun k => (calls.map Call.pos ++ [0, 1, 2, 3, 4, 5, 25, 26]).contains k) = true ∧
    (calls.map Call.pos ++ [0, 1, 2, 3, 4, 5, 25, 26]).length = traitMethods.length := by decide +kernel

/-- the recorded positions of the overridden methods are the positions of their names -/
theorem gen_idx : ∀ i ∈ impls, i.idx.map nameAt = i.methods.map some := by decide +kernel

/-- **the enum**: `ArrayDeserializer` forwards 28 methods to the method of the same name; `at`,
`deserialize_any`, `deserialize_option` and `deserialize_ignored_any` are NOT forwarded: the trait's defaults run
at the enum, on top of the forwarded `is_some` / `deserialize_any_some` — which is how the model reads
(`readAny`, `.option`, `.ignored`) -/
theorem gen_enum_forwards :
    (∀ e ∈ enumForward, e.1 = e.2) ∧
    (∀ i ∈ impls, i.base = "ArrayDeserializer" →
      i.methods = enumForward.map (·.1) ∧
      i.idx = [1, 2, 6, 7, 8, 9, 10, 11, 12, 13, 14, 15, 16, 17, 18, 19, 20, 21, 22, 23, 24, 25, 26, 27, 28, 29, 30, 31]) ∧
    (impls.any (·.base == "ArrayDeserializer")) = true := by decide +kernel

/-- `T::deserialize(PositionedDeserializer(reader, idx))` reaches the trait method of the same name -/
theorem gen_serde_wiring :
    (∀ e ∈ serdeEntry, e.1 = e.2) ∧
    (serdeEntry.map (·.2)) =
      (([3, 5, 6, 7, 8, 9, 10, 11, 12, 13, 14, 15, 16, 17, 18, 19, 20, 21, 22, 23, 24, 25, 4, 26, 27, 28, 29, 30, 31] : List Nat).filterMap nameAt) := by
  decide +kernel

/-- the readers `ArrayDeserializer::new` can build -/
def readerImpls : List Nat := (arms.flatMap (·.2)).map (·.2.2.2)

/-- every reader overrides `is_some` and `deserialize_any_some`; none overrides `at`, `deserialize_ignored_any`,
`deserialize_identifier`, `deserialize_newtype_struct`; `deserialize_any` / `deserialize_option` are overridden by
the null and binary readers only (where the enum's defaults shadow them) -/
theorem gen_basics :
    (∀ k ∈ readerImpls, ∀ i ∈ impls[k]?, i.idx.contains 1 = true ∧ i.idx.contains 2 = true ∧
      i.idx.contains 0 = false ∧ i.idx.contains 5 = false ∧ i.idx.contains 25 = false ∧ i.idx.contains 26 = false) ∧
    ((impls.filter (fun i => i.idx.contains 3 || i.idx.contains 4)).map (fun i => (i.rustType, i.idx.contains 3, i.idx.contains 4))) =
      [("BinaryDeserializer<VV>", true, true), ("NullDeserializer", true, true)] := by decide +kernel

/-! ### the two matrices -/

def rustRow (i : Impl) : List Bool := calls.map fun c => i.idx.contains c.pos

/-- the model's rendering of every default rejection -/
def isNotImpl : R DVal → Bool
  | .error (.err m) => m == "Deserializer does not implement this method"
  | _ => false

/-- model: the typed read is answered by something other than the trait default -/
def modelRow (a : Arr) : List Bool := calls.map fun c => !isNotImpl (readAs Fixes.all c.target a 0)

/-- one arm of `ArrayDeserializer::new`: the model has an array of that `View` constructor; the impl recorded for
each variant of the arm is an impl for its type; the rows agree -/
def armOk (a : String × List (String × String × String × Nat)) : Bool :=
  match readerReps.find? (fun r => viewCtor r == a.1) with
  | none => false
  | some rep =>
    a.2.all fun v =>
      match impls[v.2.2.2]? with
      | some i => i.base == v.2.1 && (i.inst == "" || i.inst == v.2.2.1) && rustRow i == modelRow rep
      | none => false

/-- **reader matrix**: for every arm of `ArrayDeserializer::new`, every reader it can build (sixteen for
`Dictionary`) and every typed read: the Rust reader overrides `deserialize_<x>` iff the model's `readAs` with the
target that issues that call answers with something other than `notImpl`; and the model has an array for exactly
the constructors the code has arms for -/
theorem gen_reader_matrix :
    arms.all armOk = true ∧ arms.length = readerReps.length ∧ (arms.flatMap (·.2)).length = 49 := by decide +kernel

/-! ### diagnostic: name the offending reader and method in the build log -/

def armDiff (a : String × List (String × String × String × Nat)) : List String :=
  match readerReps.find? (fun r => viewCtor r == a.1) with
  | none => ["ArrayDeserializer::new has an arm V::" ++ a.1 ++ " for which the model has no representative (lean/SaModel/Lemmas/C18Reps.lean)"]
  | some rep =>
    a.2.flatMap fun v =>
      match impls[v.2.2.2]? with
      | some i =>
        ((calls.zip ((rustRow i).zip (modelRow rep))).filter (fun x => x.2.1 != x.2.2)).map fun x =>
          "ArrayDeserializer::" ++ v.1 ++ " (" ++ i.rustType ++ "), " ++ x.1.method ++ ": Rust overrides = " ++
            toString x.2.1 ++ ", model implements = " ++ toString x.2.2
      | none => ["ArrayDeserializer::" ++ v.1 ++ ": no impl"]

def offenders : List String := arms.flatMap armDiff

#eval show IO Unit from do
  unless offenders.isEmpty do
    throw <| IO.userError ("C02 reader matrix obligation broken by:\n  " ++ "\n  ".intercalate offenders)

/-! ### non-vacuity -/

example : modelRow (.prim .date32 none []) =
    calls.map (fun c => ["deserialize_i32", "deserialize_i64", "deserialize_str", "deserialize_string",
      "deserialize_bytes", "deserialize_byte_buf"].contains c.method) := by decide +kernel
example : modelRow (.struct 0 none (.cons ⟨"a", false, []⟩ (.prim .int8 none []) .nil)) =
    calls.map (fun c => ["deserialize_map", "deserialize_struct", "deserialize_tuple", "deserialize_tuple_struct"].contains
      c.method) := by decide +kernel
example : calls.length = 24 ∧ impls.length = 19 := by decide

end SaModel.Props.C02Gen
