import SaModel.Props.C02
import SaModel.Props.C05
import SaModel.Lemmas.C02PresentBridgeTyped
import SaModel.Lemmas.C02PresentFloat
/-
C02 — the headline theorems of `Props/C02.lean` (and `Props.C05.read_typed_total`) restated against the INDEPENDENT reader-side
specification `Spec/Present.lean` (written from the documentation; it imports nothing of `Read/*`), so that at no leaf the reader
model is compared with itself.  The restatement goes through the bridge `toD_eq_present` / `cast_eq_typedRead`
(`Lemmas/C02PresentBridge.lean`, `C02PresentBridgeTyped.lean`: `Read.toD` / `Read.cast` compute `Spec.presentAny` / `Spec.typedRead` in every cell).

* `read_any_present`        `deserialize_any` of a slot with a defined Arrow reading `lv` returns `Spec.presentAny readCodec a lv`
* `read_typed_present`      whatever `Spec.typedRead readCodec t a lv` demands (`value d`) is what the typed read returns — every
                            target (any nesting), every column, every slot
* `typed_present_decided`   `typedRead` is `value d` or `fails` in every cell without repeated field names (`naCell t a = false`);
  `typed_present_unclaimed_only`: it is `unclaimed` only where names repeat
* `read_typed_present_total` (with C05): outside the known findings #23 / #24 (`noKnown`) and `naCell`, the read returns exactly
                            the demanded value, or the table says `fails` and the read fails — no silent cell
* `read_option_null_present`, `typed_present_layout_irrelevant`
* the documented cells as theorems about the table itself, for EVERY codec `c` (`present_int_by_value`, `present_bool_from_int`,
  `present_char`, `present_f16_as_f32`, `present_f16_exact`, `present_f64_as_f32`, `present_text_of_*`, `present_decimal_only_string`,
  `present_dictionary`, `present_option`, `present_unit_option`, `present_null_into_non_option`, `present_created_text_not_borrowed`)

`readCodec` (the texts of temporal / decimal values: `Codec/*.lean`, C14 / C15), `f32ToF64` (`Data/DVal.lean`; `f16ToF32` is tied to
`Float.convert` on all 65 536 patterns: `f16ToF32_eq_convert`, `f16ToF32_nan`) and `Float.convert` (`Basic/Float.lean`) are the parts model and
specification still share.
-/
namespace SaModel.Props.C02
open SaModel SaModel.Read SaModel.Spec

/-! ### the headline theorems against the independent specification -/

/-- `deserialize_any`, against `Spec.presentAny` -/
theorem read_any_present (a : Arr) (i : Nat) (lv : LVal)
    (h : Spec.decode a i = .ok lv) (hn : new Fixes.all a = .ok ()) (hp : physical a = true) (hu : utf8Ok lv = true) :
    readAny Fixes.all a i = .ok (presentAny readCodec a lv) := by
  rw [← toD_eq_present]; exact read_any_decode_spec a i lv h hn hp hu

/-- **typed reads, against `Spec.typedRead`** (the independent form of `read_typed_decode_spec`): for EVERY target `t`, array `a`
and slot `i` whose Arrow reading is defined, under the hypotheses of `read_any_decode`: whatever the documentation-side table
demands is what the typed read returns -/
theorem read_typed_present (t : Target) (a : Arr) (i : Nat) (lv : LVal) (d : DVal)
    (h : Spec.decode a i = .ok lv) (hn : new Fixes.all a = .ok ()) (hp : physical a = true) (hu : utf8Ok lv = true)
    (hc : typedRead readCodec t a lv = .value d) : readAs Fixes.all t a i = .ok d := by
  rw [← cast_eq_typedRead] at hc
  exact read_typed_decode_spec t a i lv d h hn hp hu (demandOf_value_iff.1 hc)

/-- the same with `supportedView a` (the documentation-side description of the arrays the readers accept) -/
theorem read_typed_present_supported (t : Target) (a : Arr) (i : Nat) (lv : LVal) (d : DVal)
    (h : Spec.decode a i = .ok lv) (hs : supportedView a = true) (hp : physical a = true) (hu : utf8Ok lv = true)
    (hc : typedRead readCodec t a lv = .value d) : readAs Fixes.all t a i = .ok d :=
  read_typed_present t a i lv d h ((new_ok_iff_supported a).2 hs) hp hu hc

/-- the table leaves a cell without a claim only where field names repeat -/
theorem typed_present_unclaimed_only (t : Target) (a : Arr) (lv : LVal) (h : typedRead readCodec t a lv = .unclaimed) :
    naCell t a = true := by
  rw [← cast_eq_typedRead] at h
  exact cast_na_only t a lv (demandOf_unclaimed_iff.1 h)

/-- every other cell is decided: a value, or `fails` -/
theorem typed_present_decided (t : Target) (a : Arr) (lv : LVal) (h : naCell t a = false) :
    (∃ d, typedRead readCodec t a lv = .value d) ∨ typedRead readCodec t a lv = .fails := by
  rw [← cast_eq_typedRead]
  rcases cast_must_or_mustFail t a lv h with ⟨d, hc⟩ | ⟨e, hc⟩
  · exact .inl ⟨d, by rw [hc]; rfl⟩
  · exact .inr (by rw [hc]; rfl)

/-- **no silent cell, against the independent table** (C02 + C05; the independent form of `Props.C05.read_typed_total`): outside
the known findings #23 / #24 (`noKnown`) and where no field name repeats, EITHER the table demands `d` and the read returns
exactly `d`, OR the table says the read must fail and it fails -/
theorem read_typed_present_total (t : Target) (a : Arr) (i : Nat) (lv : LVal)
    (h : Spec.decode a i = .ok lv) (hn : new Fixes.all a = .ok ()) (hp : physical a = true) (hu : utf8Ok lv = true)
    (hk : Read.noKnown t a lv = true) (hna : naCell t a = false) :
    (∃ d, typedRead readCodec t a lv = .value d ∧ readAs Fixes.all t a i = .ok d) ∨
    (typedRead readCodec t a lv = .fails ∧ ∃ e, readAs Fixes.all t a i = .error e) := by
  rw [← cast_eq_typedRead]
  rcases Props.C05.read_typed_total t a i lv (decode_eq_decodeAt a i ▸ h) hn hp hu hk hna with ⟨d, hc, hr⟩ | ⟨e, e', hc, hr⟩
  · exact .inl ⟨d, by rw [hc]; rfl, hr⟩
  · exact .inr ⟨by rw [hc]; rfl, e', hr⟩

/-- `Option` targets on null slots of every column kind: the table says `None`, and the read returns it -/
theorem read_option_null_present (t : Target) (a : Arr) (i : Nat)
    (h : Spec.decode a i = .ok .null) (hn : new Fixes.all a = .ok ()) (hp : physical a = true) :
    typedRead readCodec (.option t) a .null = .value .none ∧ readAs Fixes.all (.option t) a i = .ok .none :=
  ⟨by simp only [typedRead], read_typed_present (.option t) a i .null .none h hn hp rfl (by simp only [typedRead])⟩

/-- layout freedoms: two arrays / slots with the same logical value and the same demand read the same -/
theorem typed_present_layout_irrelevant (t : Target) (a b : Arr) (i j : Nat) (lv : LVal) (d : DVal)
    (ha : Spec.decode a i = .ok lv) (hb : Spec.decode b j = .ok lv)
    (hna : new Fixes.all a = .ok ()) (hnb : new Fixes.all b = .ok ())
    (hpa : physical a = true) (hpb : physical b = true) (hu : utf8Ok lv = true)
    (hca : typedRead readCodec t a lv = .value d) (hcb : typedRead readCodec t b lv = .value d) :
    readAs Fixes.all t a i = readAs Fixes.all t b j := by
  rw [read_typed_present t a i lv d ha hna hpa hu hca, read_typed_present t b j lv d hb hnb hpb hu hcb]

/-! ### the documented cells, as theorems about the table (for EVERY text codec `c`) -/

/-- integers by VALUE: an integer column of any width read as the integer type `ty` gives the number iff it lies in the range
of `ty` ("i64 → u8 fails unless in range") -/
theorem present_int_by_value (c : TextCodec) (ty : IntTy) (pty : PrimTy) (v : Option Bits) (vals : List Int) (x : Int)
    (hw : intWidth pty = true) :
    typedRead c (.int ty) (.prim pty v vals) (.int x) =
      if ty.min ≤ x ∧ x ≤ ty.max then .value (.int ty x) else .fails := by
  simp only [typedRead, presentScalar, leafKind, hw, if_true, presentLeaf, numberAs, IntTy.inRange, Bool.and_eq_true, decide_eq_true_eq]

/-- `bool` from an integer column: 0 and 1 only (the crate answers `true` for every other number: known finding #24) -/
theorem present_bool_from_int (c : TextCodec) (pty : PrimTy) (v : Option Bits) (vals : List Int) (x : Int) (hw : intWidth pty = true) :
    typedRead c .bool (.prim pty v vals) (.int x) =
      if x = 0 then .value (.bool false) else if x = 1 then .value (.bool true) else .fails := by
  simp only [typedRead, presentScalar, leafKind, hw, if_true, presentLeaf, numberAs, beq_iff_eq]

/-- `char` from an integer column: the Unicode scalar values -/
theorem present_char (c : TextCodec) (pty : PrimTy) (v : Option Bits) (vals : List Int) (x : Int) (hw : intWidth pty = true) :
    typedRead c .char (.prim pty v vals) (.int x) =
      if IntTy.u32.inRange x && isUnicodeScalar x.toNat then .value (.char x.toNat) else .fails := by
  simp only [typedRead, presentScalar, leafKind, hw, if_true, presentLeaf, numberAs]

/-- the boundary: 0xD7FF and 0xE000 are characters, the surrogates 0xD800 … 0xDFFF, 0x110000 and negative numbers are not -/
example : ∀ c : TextCodec, (typedRead c .char (.prim .uint32 none []) (.int 0xD7FF) = .value (.char 0xD7FF) ∧
    typedRead c .char (.prim .uint32 none []) (.int 0xD800) = .fails ∧ typedRead c .char (.prim .int64 none []) (.int 0xDFFF) = .fails ∧
    typedRead c .char (.prim .int32 none []) (.int 0xE000) = .value (.char 0xE000) ∧
    typedRead c .char (.prim .uint64 none []) (.int 0x10FFFF) = .value (.char 0x10FFFF) ∧
    typedRead c .char (.prim .uint64 none []) (.int 0x110000) = .fails ∧ typedRead c .char (.prim .int8 none []) (.int (-1)) = .fails) := by
  intro c
  simp (config := { decide := true }) only [typedRead, presentScalar, leafKind, if_true, if_false, presentLeaf, numberAs, and_self]

/-- no integer ↔ float reads -/
theorem present_no_int_float (c : TextCodec) (v : Option Bits) (vals : List Int) (x : Int) (ty : IntTy) :
    typedRead c .f64 (.prim .int64 v vals) (.int x) = .fails ∧ typedRead c (.int ty) (.prim .float64 v vals) (.float x) = .fails := by
  constructor <;> simp only [typedRead, presentScalar, leafKind, intWidth, if_true, presentLeaf, numberAs]

/-- "Float16: can be serialized / deserialized from Rust `f32`": the exact widening; `Float64` as `f32`: the documented narrowing -/
theorem present_f16_as_f32 (c : TextCodec) (v : Option Bits) (vals : List Int) (x : Int) :
    typedRead c .f32 (.prim .float16 v vals) (.float x) = .value (.f32 (f16ToF32 x)) := by
  simp only [typedRead, presentScalar, leafKind, presentLeaf]

/-- … and that widening IS the IEEE value (`Basic/Float.lean`), on every `f16` pattern that is not a NaN (a NaN is read as an `f32` NaN
of the same sign: `f16ToF32_nan`) — `Lemmas/C02PresentFloat.lean`, all 65 536 patterns computed -/
theorem present_f16_exact (c : TextCodec) (v : Option Bits) (vals : List Int) (x : Int)
    (hn : Float.isNan Float.f16 (x.toNat % 65536) = false) :
    typedRead c .f32 (.prim .float16 v vals) (.float x) =
      .value (.f32 (Int.ofNat (Float.convert Float.f16 Float.f32 (x.toNat % 65536)))) := by
  rw [present_f16_as_f32, f16ToF32_eq_convert x hn]

theorem present_f64_as_f32 (c : TextCodec) (v : Option Bits) (vals : List Int) (x : Int) :
    typedRead c .f32 (.prim .float64 v vals) (.float x) =
      .value (.f32 (Int.ofNat (Float.convert Float.f64 Float.f32 (x.toNat % 18446744073709551616)))) := by
  simp only [typedRead, presentScalar, leafKind, presentLeaf, narrow]

/-- temporal columns "deserialized as strings": `String` gets the codec's text, a refusal of the codec is a failing read -/
theorem present_text_of_date (c : TextCodec) (v : Option Bits) (vals : List Int) (x : Int) :
    typedRead c .string (.prim .date32 v vals) (.int x) = (Demand.ofOption (c.date false x)).map (.str .owned) ∧
    typedRead c .string (.prim .date64 v vals) (.int x) = (Demand.ofOption (c.date true x)).map (.str .owned) := by
  constructor <;> simp only [typedRead, presentScalar, leafKind, intWidth, presentLeaf, createdText, Bool.false_eq_true, if_false]

theorem present_text_of_time (c : TextCodec) (u : TimeUnit) (v : Option Bits) (vals : List Int) (x : Int) :
    typedRead c .string (.time .time32 u v vals) (.int x) = (Demand.ofOption (c.time u x)).map (.str .owned) ∧
    typedRead c .string (.time .time64 u v vals) (.int x) = (Demand.ofOption (c.time u x)).map (.str .owned) ∧
    typedRead c .string (.time .duration u v vals) (.int x) = .value (.str .owned (c.duration u x)) := by
  refine ⟨?_, ?_, ?_⟩ <;> simp only [typedRead, presentScalar, leafKind, presentLeaf, createdText, Demand.ofOption, Demand.map]

theorem present_text_of_timestamp (c : TextCodec) (u : TimeUnit) (tz : Option String) (v : Option Bits) (vals : List Int) (x : Int) :
    typedRead c .string (.timestamp u tz v vals) (.int x) = (Demand.ofOption (c.timestamp u (zoneIsUtc tz) x)).map (.str .owned) ∧
    typedRead c (.int .i64) (.timestamp u tz v vals) (.int x) =
      (if IntTy.i64.inRange x then .value (.int .i64 x) else .fails) ∧
    typedRead c (.int .i32) (.timestamp u tz v vals) (.int x) = .fails := by
  refine ⟨?_, ?_, ?_⟩ <;> simp (config := { decide := true }) only [typedRead, presentScalar, leafKind, presentLeaf, createdText, storedAs,
    if_true, if_false]

/-- "`Decimal128` arrays are always deserialized as string": `String` and `deserialize_any` get the text, nothing else is answered -/
theorem present_decimal_only_string (c : TextCodec) (p : Nat) (s : Int) (v : Option Bits) (vals : List Int) (x : Int) :
    typedRead c .string (.decimal128 p s v vals) (.int x) = .value (.str .owned (c.decimal s x)) ∧
    typedRead c .any (.decimal128 p s v vals) (.int x) = .value (.str .transient (c.decimal s x)) ∧
    typedRead c .byteBuf (.decimal128 p s v vals) (.int x) = .fails ∧
    typedRead c (.int .i64) (.decimal128 p s v vals) (.int x) = .fails ∧
    typedRead c .f64 (.decimal128 p s v vals) (.int x) = .fails := by
  refine ⟨?_, ?_, ?_, ?_, ?_⟩ <;>
    simp only [typedRead, presentAny, presentScalar, leafKind, presentLeaf, createdText, Demand.ofOption, Demand.map,
      Bool.false_eq_true, if_false]

/-- a text the reader creates cannot be borrowed: `&str` / `&[u8]` fail at temporal and decimal columns -/
theorem present_created_text_not_borrowed (c : TextCodec) (u : TimeUnit) (tz : Option String) (p : Nat) (s : Int)
    (v : Option Bits) (vals : List Int) (x : Int) :
    typedRead c .str (.prim .date32 v vals) (.int x) = .fails ∧ typedRead c .bytes (.prim .date64 v vals) (.int x) = .fails ∧
    typedRead c .str (.time .time64 u v vals) (.int x) = .fails ∧ typedRead c .str (.time .duration u v vals) (.int x) = .fails ∧
    typedRead c .str (.timestamp u tz v vals) (.int x) = .fails ∧ typedRead c .str (.decimal128 p s v vals) (.int x) = .fails := by
  refine ⟨?_, ?_, ?_, ?_, ?_, ?_⟩ <;> simp only [typedRead, presentScalar, leafKind, intWidth, presentLeaf, createdText, Bool.false_eq_true, if_false]

/-- strings: `String` owned, `&str` borrowed from the array; a dictionary column gives the string behind the key, also as a unit
variant by name -/
theorem present_dictionary (c : TextCodec) (ks vs : Arr) (b : Bytes) :
    typedRead c .string (.dictionary ks vs) (.str b) = .value (.str .owned b) ∧
    typedRead c .str (.dictionary ks vs) (.str b) = .value (.str .borrowed b) ∧
    typedRead c .any (.dictionary ks vs) (.str b) = .value (.str .borrowed b) ∧
    typedRead c (.enum false (.cons "a" .unit .nil)) (.dictionary ks vs) (.str [97]) =
      .value (.enum (.str .transient [97]) .unit) := by
  refine ⟨?_, ?_, ?_, ?_⟩
  · simp only [typedRead, presentScalar, leafKind, presentLeaf]
  · simp only [typedRead, presentScalar, leafKind, presentLeaf]
  · simp only [typedRead, presentAny]
  · simp only [typedRead, textColumn, Bool.not_false, Bool.and_true, if_true, unitVariantNamed]; decide +kernel

/-- `Option<T>`: `None` exactly at a null slot; a non-null slot is `Some` of the read of `T` -/
theorem present_option (c : TextCodec) (t : Target) (a : Arr) (lv : LVal) :
    typedRead c (.option t) a .null = .value .none ∧
    (lv ≠ .null → typedRead c (.option t) a lv = (typedRead c t a lv).map .some) := by
  refine ⟨by simp only [typedRead], fun h => ?_⟩
  cases lv <;> first | exact absurd rfl h | simp only [typedRead]

/-- "`Option<()>` is always deserialized as `None`" (a `Null` column has null slots only), `()` itself reads from a `Null` column -/
theorem present_unit_option (c : TextCodec) (len : Nat) :
    typedRead c (.option .unit) (.null len) .null = .value .none ∧ typedRead c .unit (.null len) .null = .value .unit := by
  constructor <;> simp only [typedRead, presentScalar, isNullColumn, if_true]

/-- a null slot read into a scalar that is not an `Option` fails (every scalar target, every column that is not `Null`) -/
theorem present_null_into_non_option (c : TextCodec) (t : Target) (a : Arr)
    (ht : t = .bool ∨ (∃ ty, t = .int ty) ∨ t = .f32 ∨ t = .f64 ∨ t = .char ∨ t = .string ∨ t = .str ∨ t = .bytes) :
    typedRead c t a .null = .fails := by
  rcases ht with rfl | ⟨ty, rfl⟩ | rfl | rfl | rfl | rfl | rfl | rfl <;> simp only [typedRead, presentScalar]

/-- … and so does a null container slot read into a `Vec`, tuple, map or struct (the crate returns the hidden data there: known
finding #23, `null_*_reads_hidden_data`) -/
theorem present_null_container (c : TextCodec) (t k w : Target) (ts : Targets) (tfs : TFields) (a : Arr) :
    typedRead c (.seq t) a .null = .fails ∧ typedRead c (.tuple ts) a .null = .fails ∧
    typedRead c (.map k w) a .null = .fails ∧ typedRead c (.struct tfs) a .null = .fails := by
  refine ⟨?_, ?_, ?_, ?_⟩ <;> cases a <;> simp only [typedRead, byPosition, byName]

/-! ### non-vacuity (computed)

the 12 cells of `exCells` (`Props/C02.lean`: dictionary as `&str` / enum-by-name, Date32 / Time64 / Timestamp / Duration / Decimal128
as text, Float64 as `f32`, struct as map keyed by `char` / by an enum, `ByteBuf` from a list of u8): every hypothesis of
`read_typed_present` holds, the INDEPENDENT table demands the value shown, and the read returns it -/
example : ∀ c ∈ exCells, ∃ lv, Spec.decode c.2.1 0 = .ok lv ∧ lv ≠ .null ∧ typedRead readCodec c.1 c.2.1 lv = .value c.2.2 ∧
    readAs Fixes.all c.1 c.2.1 0 = .ok c.2.2 := by
  have hd : ∀ c ∈ exCells, decodeAt c.2.1 0 = .ok (match decodeAt c.2.1 0 with | .ok lv => lv | .error _ => .null) ∧
      (match decodeAt c.2.1 0 with | .ok lv => lv | .error _ => .null) ≠ .null ∧
      supportedView c.2.1 = true ∧ physical c.2.1 = true ∧
      utf8Ok (match decodeAt c.2.1 0 with | .ok lv => lv | .error _ => .null) = true ∧
      typedRead readCodec c.1 c.2.1 (match decodeAt c.2.1 0 with | .ok lv => lv | .error _ => .null) = .value c.2.2 := by decide +kernel
  intro c hc
  obtain ⟨h1, h2, h3, h4, h5, h6⟩ := hd c hc
  have h1' := (decode_eq_decodeAt c.2.1 0).trans h1
  exact ⟨_, h1', h2, h6, read_typed_present_supported c.1 c.2.1 0 _ c.2.2 h1' h3 h4 h5 h6⟩

/-- `deserialize_any` of both rows of the nested column `exCol` (nullable int, list of strings, dense union): the table's
presentation is what the read returns -/
example : ∀ i ∈ [0, 1], ∃ lv, Spec.decode exCol i = .ok lv ∧ readAny Fixes.all exCol i = .ok (presentAny readCodec exCol lv) := by
  have hd : ∀ i ∈ [0, 1], decodeAt exCol i = .ok (exLv i) ∧ utf8Ok (exLv i) = true := by decide
  intro i hi
  obtain ⟨h1, h2⟩ := hd i hi
  have h1' := (decode_eq_decodeAt exCol i).trans h1
  exact ⟨_, h1', read_any_present exCol i _ h1' (by decide) (by decide) h2⟩

/-- both disjuncts of `read_typed_present_total`: an Int64 slot 255 read as `u8` (the table demands 255, the read returns it)
and the slot 256 (the table says `fails`, the read fails); every hypothesis computed -/
example :
    let a : Arr := .prim .int64 none [255, 256]
    (typedRead readCodec (.int .u8) a (.int 255) = .value (.int .u8 255) ∧ readAs Fixes.all (.int .u8) a 0 = .ok (.int .u8 255)) ∧
    (typedRead readCodec (.int .u8) a (.int 256) = .fails ∧ ∃ e, readAs Fixes.all (.int .u8) a 1 = .error e) := by
  intro a
  have h0 : Spec.decode a 0 = .ok (.int 255) := by decide
  have h1 : Spec.decode a 1 = .ok (.int 256) := by decide
  have hn : new Fixes.all a = .ok () := by decide
  have hp : physical a = true := by decide
  refine ⟨?_, ?_⟩
  · rcases read_typed_present_total (.int .u8) a 0 _ h0 hn hp (by decide) (by decide) (by decide) with ⟨d, hd, hr⟩ | ⟨hf, _⟩
    · have : d = .int .u8 255 := by
        have h : typedRead readCodec (.int .u8) a (.int 255) = .value (.int .u8 255) := by decide
        rw [h] at hd; exact (Demand.value.inj hd).symm
      subst this; exact ⟨hd, hr⟩
    · exact absurd hf (by decide)
  · rcases read_typed_present_total (.int .u8) a 1 _ h1 hn hp (by decide) (by decide) (by decide) with ⟨d, hd, _⟩ | ⟨hf, hr⟩
    · have h : typedRead readCodec (.int .u8) a (.int 256) = .fails := by decide
      rw [h] at hd; cases hd
    · exact ⟨hf, hr⟩

/-! ### where the documentation-side table and the code differ: the two KNOWN findings, against the independent table

#24: an integer that is neither 0 nor 1 read as `bool` — the table says the read must fail, the reader returns `true`.
#23: a null Struct / List slot read into a tuple / `Vec` — the table says the read must fail, the reader returns the hidden data.
(Both are excluded from `read_typed_present_total` by `noKnown`.) -/
theorem known_findings_against_present :
    let ints : Arr := .prim .int8 none [2]
    let st : Arr := .struct 1 (some ⟨[0], 0⟩) (.cons ⟨"x", false, []⟩ (.prim .int32 none [42]) .nil)
    let l : Arr := .list false (some ⟨[0], 0⟩) [0, 2] ⟨"element", false, []⟩ (.prim .int32 none [1, 2])
    (Spec.decode ints 0 = .ok (.int 2) ∧ typedRead readCodec .bool ints (.int 2) = .fails ∧
      readAs Fixes.all .bool ints 0 = .ok (.bool true) ∧ noKnown .bool ints (.int 2) = false) ∧
    (Spec.decode st 0 = .ok .null ∧ typedRead readCodec (.tuple (.cons (.int .i32) .nil)) st .null = .fails ∧
      readAs Fixes.all (.tuple (.cons (.int .i32) .nil)) st 0 = .ok (.seq (.cons (.int .i32 42) .nil)) ∧
      noKnown (.tuple (.cons (.int .i32) .nil)) st .null = false) ∧
    (Spec.decode l 0 = .ok .null ∧ typedRead readCodec (.seq (.int .i32)) l .null = .fails ∧
      readAs Fixes.all (.seq (.int .i32)) l 0 = .ok (.seq (.cons (.int .i32 1) (.cons (.int .i32 2) .nil))) ∧
      noKnown (.seq (.int .i32)) l .null = false) := by decide

end SaModel.Props.C02
