import SaModel.Build.Dec
import SaModel.Spec.WF
import SaModel.Lemmas.C03Assemble
/-
C03 — every produced array is a well-formed Arrow array of the declared field.

Target (full strength): toMarrow ext fields rows = ok arrs → ∀ j, WF fields[j] arrs[j] ∧ all lengths = rows.length,
as a corollary of the refinement invariant (WFB is preserved by every operation, WFB b → WF f (finish b)).
Proved so far: the bitmap and offset facts the invariant rests on.
-/
namespace SaModel.Props.C03
open SaModel SaModel.Build SaModel.Spec

/-- a finished bitmap has exactly ⌈len/8⌉ bytes -/
theorem packBits_length : ∀ (n : Nat) (bs : List Bool), bs.length = n → (packBits bs).length = (n + 7) / 8 := by
  intro n
  induction n using Nat.strongRecOn with
  | _ n ih =>
    intro bs hn
    cases bs with
    | nil => simp at hn; subst hn; simp [packBits]
    | cons b rest =>
      rw [packBits]
      simp only [List.length_cons]
      have hlen : ((b :: rest).drop 8).length = n - 8 := by simp [List.length_drop] at *; omega
      rw [ih (n - 8) (by simp at hn; omega) _ hlen]
      simp at hn
      omega

/-- a nullable builder finishes with a bitmap, a non-nullable one without: presence iff nullable -/
theorem finishValidity_isSome (v : Validity) : (finishValidity v).isSome = v.isSome := by
  cases v <;> rfl

theorem finishValidity_offset (v : Validity) (b : Bits) (h : finishValidity v = some b) : b.offset = 0 := by
  cases v with
  | none => cases h
  | some bits => simp [finishValidity] at h; rw [← h]

theorem finishValidity_length (bits : List Bool) (b : Bits) (h : finishValidity (some bits) = some b) :
    b.data.length = (bits.length + 7) / 8 := by
  simp [finishValidity] at h
  rw [← h]
  exact packBits_length _ _ rfl

/-- `duplicate_last` keeps offsets non-decreasing and adds exactly one row -/
theorem duplicateLast_spec (offs offs' : List Int) (h : duplicateLast offs = .ok offs') :
    ∃ l, offs.getLast? = some l ∧ offs' = offs ++ [l] := by
  unfold duplicateLast at h
  split at h
  · cases h
  · rename_i l hl; cases h; exact ⟨l, hl, rfl⟩

/-- a fresh builder for any list-like type starts with the single offset 0 -/
example : newDT "$.a" (.list (.mk "element" .int32 false [])) true [] =
    .ok (.list "$.a" false ⟨"element", false, []⟩ (some []) [0] (.leaf "$.a.element" (.int .i32) none [])) := by decide

/-! ### the physical layer: bitmaps (Lemmas/Bits.lean) -/

/-- bit `i` of a finished bitmap is the abstract bit `i` of the builder -/
theorem getBit_packBits (bs : List Bool) (i : Nat) (h : i < bs.length) : getBit ⟨packBits bs, 0⟩ i = .ok bs[i] :=
  Lemmas.Bits.getBit_packBits bs i h

/-- padding bits of a finished bitmap are clear -/
theorem getBit_packBits_pad (bs : List Bool) (i : Nat) (h1 : bs.length ≤ i) (h2 : i < 8 * (packBits bs).length) :
    getBit ⟨packBits bs, 0⟩ i = .ok false :=
  Lemmas.Bits.getBit_packBits_pad bs i h1 h2

/-- reading past the last byte is an error -/
theorem getBit_packBits_oob (bs : List Bool) (i : Nat) (h : 8 * (packBits bs).length ≤ i) :
    getBit ⟨packBits bs, 0⟩ i = fail "Invalid access in bitset" :=
  Lemmas.Bits.getBit_packBits_oob bs i h

/-- offset law (what a slice does to a bitmap) -/
theorem getBit_offset (d : Bytes) (o k i : Nat) : getBit ⟨d, o + k⟩ i = getBit ⟨d, o⟩ (k + i) :=
  Lemmas.Bits.getBit_offset d o k i

/-! ### the finished array means what the state holds (Lemmas/C03Finish.lean) -/

/-- **`finish_decode`.**  For every builder state satisfying the state invariant, the array `into_array` produces
decodes — by the Arrow reading rules, slot by slot, through packed bitmaps — to exactly the rows the state holds.
`Faithful b` excludes the two recorded exceptions (negations below): `FixedSizeBinary(0)` holding rows, and
dictionary slots holding the dummy key 0 while the dictionary has no value. -/
theorem finish_decode (ext : Ext) (b : B) (a : Arr) (hw : WFB b) (hf : Lemmas.C03.Faithful b)
    (h : finish ext b = .ok a) : decodeAll a = (dec b).map .ok :=
  Lemmas.C03.finish_decode ext b a hw hf h

/-- row-wise form: `Spec.decode (finish b) i = (dec b)[i]` -/
theorem finish_decode_row (ext : Ext) (b : B) (a : Arr) (hw : WFB b) (hf : Lemmas.C03.Faithful b)
    (h : finish ext b = .ok a) (i : Nat) (hi : i < (dec b).length) : decode a i = .ok (dec b)[i] := by
  unfold decode
  rw [finish_decode ext b a hw hf h]
  exact Lemmas.C03.slot_map_ok _ i hi

/-- the finished array has as many rows as the state -/
theorem finish_len (ext : Ext) (b : B) (a : Arr) (hw : WFB b) (hf : Lemmas.C03.Faithful b)
    (h : finish ext b = .ok a) : Spec.Arr.len a = (dec b).length := by
  unfold Spec.Arr.len
  rw [finish_decode ext b a hw hf h, List.length_map]

/-- all columns of a struct builder at once (what `build_arrays` returns) -/
theorem finishFields_decode (ext : Ext) (fs : BL) (afs : ArrFields) (len : Nat) (hw : WFL fs len)
    (hf : Lemmas.C03.FaithfulL fs) (h : finishFields ext fs = .ok afs) :
    decodeFields afs = (decCols fs).map fun c => (c.1, c.2.map .ok) :=
  Lemmas.C03.finishFields_decode ext fs afs (Lemmas.C03.WFL_WFBs fs len hw) hf h

/-- **known finding (FixedSizeBinary(0)).**  Without `Faithful` the statement is false: a `FixedSizeBinary(0)`
builder holding one row finishes into an array with no rows (the length is derived from `data.len() / n`). -/
theorem finish_decode_fixedSizeBinary0_false :
    ∃ (b : B) (a : Arr), WFB b ∧ finish {} b = .ok a ∧ decodeAll a ≠ (dec b).map .ok :=
  ⟨.fixedSizeBinary "$.a" 0 1 none [] 0, .fixedSizeBinary 0 none [],
    by simp [WFB, VLen], rfl, by decide⟩

/-- **dictionary placeholder.**  Without `Faithful` the statement is false for a dictionary slot holding the dummy
key 0 while no value has been pushed: `into_array` appends the placeholder value `""`, so the finished slot reads
the empty string while the state holds no value for it (`dec` reads null).  Such slots are only written by
`serialize_default`, i.e. hidden under a null parent. -/
theorem finish_decode_dictionary_dummy_false :
    ∃ (b : B) (a : Arr), WFB b ∧ finish {} b = .ok a ∧ decodeAll a ≠ (dec b).map .ok :=
  ⟨.dictionary "$.a" (.leaf "$.a.key" (.int .u32) none [0]) (.bytes "$.a.value" .utf8 none [0] []) [],
   .dictionary (.prim .uint32 none [0]) (.bytes .utf8 none [0, 0] []),
    by simp [WFB, VLen, OffsOK, dec, maskNull, leafVal, pairs],
    by
      have hp : pushScalar {} (.bytes "$.a.value" .utf8 none [0] []) (.str "") =
          .ok (.bytes "$.a.value" .utf8 none [0, 0] []) := by
        simp [pushScalar, isUtf8Ty, scalarToString, strBytes, setValidity, duplicateLast, incrementLast, bind,
          Except.bind, offMax, isLargeTy, pure, Except.pure]
      simp [finish, hp, ctx, finishLeaf, finishValidity, primOfInt, B.isNullable, B.rows, appendEmptyStr, bind,
        Except.bind, pure, Except.pure],
    by decide⟩

/-! ### non-vacuity of `finish_decode`: nullable list of nullable ints, rows `[[1, null], null]` -/
example : ∃ b a, WFB b ∧ Lemmas.C03.Faithful b ∧ finish {} b = .ok a ∧
    dec b = [.list (.cons (.int 1) (.cons .null .nil)), .null] :=
  ⟨.list "$.a" false ⟨"element", true, []⟩ (some [true, false]) [0, 2, 2]
      (.leaf "$.a.element" (.int .i32) (some [true, false]) [1, 0]), _,
    by simp [WFB, VLen, OffsOK, dec, maskNull], by simp [Lemmas.C03.Faithful], rfl, by decide⟩

end SaModel.Props.C03
