import SaModel.Build.Dec
import SaModel.Spec.WF
/-
C03 — every produced array is a well-formed Arrow array of the declared field.

Target (full strength): toMarrow ext fields rows = ok arrs → ∀ j, WF fields[j] arrs[j] ∧ all lengths = rows.length,
as a corollary of the refinement invariant (WFB is preserved by every operation, WFB b → WF f (finish b)).
Proved so far: the bitmap and offset facts the invariant rests on.
-/
namespace SaModel.Props.C03
open SaModel SaModel.Build SaModel.Spec

/-- a finished bitmap has exactly ⌈len/8⌉ bytes -/
theorem packBits_length : ∀ (n : Nat) (bs : List Bool), bs.length = n → (packBits bs).length = (n + 7) / 8 := by
  intro n
  induction n using Nat.strongRecOn with
  | _ n ih =>
    intro bs hn
    cases bs with
    | nil => simp at hn; subst hn; simp [packBits]
    | cons b rest =>
      rw [packBits]
      simp only [List.length_cons]
      have hlen : ((b :: rest).drop 8).length = n - 8 := by simp [List.length_drop] at *; omega
      rw [ih (n - 8) (by simp at hn; omega) _ hlen]
      simp at hn
      omega

/-- a nullable builder finishes with a bitmap, a non-nullable one without: presence iff nullable -/
theorem finishValidity_isSome (v : Validity) : (finishValidity v).isSome = v.isSome := by
  cases v <;> rfl

theorem finishValidity_offset (v : Validity) (b : Bits) (h : finishValidity v = some b) : b.offset = 0 := by
  cases v with
  | none => cases h
  | some bits => simp [finishValidity] at h; rw [← h]

theorem finishValidity_length (bits : List Bool) (b : Bits) (h : finishValidity (some bits) = some b) :
    b.data.length = (bits.length + 7) / 8 := by
  simp [finishValidity] at h
  rw [← h]
  exact packBits_length _ _ rfl

/-- `duplicate_last` keeps offsets non-decreasing and adds exactly one row -/
theorem duplicateLast_spec (offs offs' : List Int) (h : duplicateLast offs = .ok offs') :
    ∃ l, offs.getLast? = some l ∧ offs' = offs ++ [l] := by
  unfold duplicateLast at h
  split at h
  · cases h
  · rename_i l hl; cases h; exact ⟨l, hl, rfl⟩

/-- a fresh builder for any list-like type starts with the single offset 0 -/
example : newDT "$.a" (.list (.mk "element" .int32 false [])) true [] =
    .ok (.list "$.a" false ⟨"element", false, []⟩ (some []) [0] (.leaf "$.a.element" (.int .i32) none [])) := by decide

end SaModel.Props.C03
