import SaModel.Build.Dec
import SaModel.Spec.WF
import SaModel.Lemmas.C03Assemble
import SaModel.Lemmas.C03WFMain
import SaModel.Lemmas.C03New
import SaModel.Lemmas.C03Shape
import SaModel.Lemmas.C03Faithful
import SaModel.Lemmas.Utf8
import SaModel.Lemmas.C03PXNew
import SaModel.Lemmas.C03Final
import SaModel.Lemmas.C10TakePush
import SaModel.Props.C01Refine
/-
C03 — every produced array is a well-formed Arrow array of the declared field.

  C03_wfS                toMarrow ext fields rows = ok arrs → one array per field, each `Spec.WFS` (structurally valid) for its
                         field and of `rows.length` rows, for `Safe` schemas (explicit assumptions on schema / rows / Ext:
                         see the section header there).  HEADLINE with `Safe ∨ coveredF` and TYPE EQUALITY
                         (`Spec.WF = WFS ∧ typeOf a = f.dataType`): `Props.C01.C03_wf'` (Props/C01Obs.lean) and
                         Props/C03Typed.lean.
  toMarrow_decode_state  the arrays decode to exactly the columns the final builder state holds (every family)
  (… which are the documented rows `interpRow` of the records: `Props.C01.C01_build_decode`, Props/C01.lean, and without
  `Safe` `Props.C01.C01_build_decode'`, Props/C01Obs.lean)
built from the physical layer proved in Lemmas/{Bits,Utf8,FloatBounds,C03*}.lean — `finish_decodeP`/`finish_decode` (the
finished array means what the state holds), `finish_wf` (it is well formed), the push invariants `push_PX` (offsets,
UTF-8, view descriptors; no hypotheses) and `push_LR` (value ranges) — and the operational refinement of Props/C01Refine.lean
(`runRows_rows`, `runRows_interp`) and Lemmas/C10TakePush.lean (`push_takeRest`).  Findings are witness theorems.
-/
namespace SaModel.Props.C03
open SaModel SaModel.Build SaModel.Spec

/-- a finished bitmap has exactly ⌈len/8⌉ bytes -/
theorem packBits_length : ∀ (n : Nat) (bs : List Bool), bs.length = n → (packBits bs).length = (n + 7) / 8 := by
  intro n
  induction n using Nat.strongRecOn with
  | _ n ih =>
    intro bs hn
    cases bs with
    | nil => simp at hn; subst hn; simp [packBits]
    | cons b rest =>
      rw [packBits]
      simp only [List.length_cons]
      have hlen : ((b :: rest).drop 8).length = n - 8 := by simp [List.length_drop] at *; omega
      rw [ih (n - 8) (by simp at hn; omega) _ hlen]
      simp at hn
      omega

/-- a nullable builder finishes with a bitmap, a non-nullable one without: presence iff nullable -/
theorem finishValidity_isSome (v : Validity) : (finishValidity v).isSome = v.isSome := by
  cases v <;> rfl

theorem finishValidity_offset (v : Validity) (b : Bits) (h : finishValidity v = some b) : b.offset = 0 := by
  cases v with
  | none => cases h
  | some bits => simp [finishValidity] at h; rw [← h]

theorem finishValidity_length (bits : List Bool) (b : Bits) (h : finishValidity (some bits) = some b) :
    b.data.length = (bits.length + 7) / 8 := by
  simp [finishValidity] at h
  rw [← h]
  exact packBits_length _ _ rfl

/-- `duplicate_last` keeps offsets non-decreasing and adds exactly one row -/
theorem duplicateLast_spec (offs offs' : List Int) (h : duplicateLast offs = .ok offs') :
    ∃ l, offs.getLast? = some l ∧ offs' = offs ++ [l] := by
  unfold duplicateLast at h
  split at h
  · cases h
  · rename_i l hl; cases h; exact ⟨l, hl, rfl⟩

/-- a fresh builder for any list-like type starts with the single offset 0 -/
example : newDT "$.a" (.list (.mk "element" .int32 false [])) true [] =
    .ok (.list "$.a" false ⟨"element", false, []⟩ (some []) [0] (.leaf "$.a.element" (.int .i32) none [])) := by decide

/-! ### the physical layer: bitmaps (Lemmas/Bits.lean) -/

/-- bit `i` of a finished bitmap is the abstract bit `i` of the builder -/
theorem getBit_packBits (bs : List Bool) (i : Nat) (h : i < bs.length) : getBit ⟨packBits bs, 0⟩ i = .ok bs[i] :=
  Lemmas.Bits.getBit_packBits bs i h

/-- padding bits of a finished bitmap are clear -/
theorem getBit_packBits_pad (bs : List Bool) (i : Nat) (h1 : bs.length ≤ i) (h2 : i < 8 * (packBits bs).length) :
    getBit ⟨packBits bs, 0⟩ i = .ok false :=
  Lemmas.Bits.getBit_packBits_pad bs i h1 h2

/-- reading past the last byte is an error -/
theorem getBit_packBits_oob (bs : List Bool) (i : Nat) (h : 8 * (packBits bs).length ≤ i) :
    getBit ⟨packBits bs, 0⟩ i = fail "Invalid access in bitset" :=
  Lemmas.Bits.getBit_packBits_oob bs i h

/-- offset law (what a slice does to a bitmap) -/
theorem getBit_offset (d : Bytes) (o k i : Nat) : getBit ⟨d, o + k⟩ i = getBit ⟨d, o⟩ (k + i) :=
  Lemmas.Bits.getBit_offset d o k i

/-! ### the finished array means what the state holds (Lemmas/C03Finish.lean) -/

/-- **`finish_decode`.**  For every builder state satisfying the state invariant, the array `into_array` produces
decodes — by the Arrow reading rules, slot by slot, through packed bitmaps — to exactly the rows the state holds.
`Faithful b` excludes the two recorded exceptions (negations below): `FixedSizeBinary(0)` holding rows, and
dictionary slots holding the dummy key 0 while the dictionary has no value. -/
theorem finish_decode (ext : Ext) (b : B) (a : Arr) (hw : WFB b) (hf : Lemmas.C03.Faithful b)
    (h : finish ext b = .ok a) : decodeAll a = (dec b).map .ok :=
  Lemmas.C03.finish_decode ext b a hw hf h

/-- row-wise form: `Spec.decode (finish b) i = (dec b)[i]` -/
theorem finish_decode_row (ext : Ext) (b : B) (a : Arr) (hw : WFB b) (hf : Lemmas.C03.Faithful b)
    (h : finish ext b = .ok a) (i : Nat) (hi : i < (dec b).length) : decode a i = .ok (dec b)[i] := by
  unfold decode
  rw [finish_decode ext b a hw hf h]
  exact Lemmas.C03.slot_map_ok _ i hi

/-- the finished array has as many rows as the state -/
theorem finish_len (ext : Ext) (b : B) (a : Arr) (hw : WFB b) (hf : Lemmas.C03.Faithful b)
    (h : finish ext b = .ok a) : Spec.Arr.len a = (dec b).length := by
  unfold Spec.Arr.len
  rw [finish_decode ext b a hw hf h, List.length_map]

/-- all columns of a struct builder at once (what `build_arrays` returns) -/
theorem finishFields_decode (ext : Ext) (fs : BL) (afs : ArrFields) (len : Nat) (hw : WFL fs len)
    (hf : Lemmas.C03.FaithfulL fs) (h : finishFields ext fs = .ok afs) :
    decodeFields afs = (decCols fs).map fun c => (c.1, c.2.map .ok) :=
  Lemmas.C03.finishFields_decode ext fs afs (Lemmas.C03.WFL_WFBs fs len hw) hf h

/-- **known finding (FixedSizeBinary(0)).**  Without `Faithful` the statement is false: a `FixedSizeBinary(0)`
builder holding one row finishes into an array with no rows (the length is derived from `data.len() / n`). -/
theorem finish_decode_fixedSizeBinary0_false :
    ∃ (b : B) (a : Arr), WFB b ∧ finish {} b = .ok a ∧ decodeAll a ≠ (dec b).map .ok :=
  ⟨.fixedSizeBinary "$.a" 0 1 none [] 0, .fixedSizeBinary 0 none [],
    by simp [WFB, VLen], rfl, by decide⟩

/-- **dictionary placeholder.**  Without `Faithful` the statement is false for a dictionary slot holding the dummy
key 0 while no value has been pushed: `into_array` appends the placeholder value `""`, so the finished slot reads
the empty string while the state holds no value for it (`dec` reads null).  The witness is a reachable state: one
`serialize_default` (what a null parent struct issues) into a fresh non-nullable `Dictionary(UInt32, Utf8)` builder.
(Stated operationally, without `WFB`: a state invariant may or may not allow such hidden slots.) -/
theorem finish_decode_dictionary_dummy_false :
    ∃ (b0 b : B) (a : Arr), newDT "$.a" (.dictionary .uint32 .utf8) false [] = .ok b0 ∧ pushDefault b0 = .ok b ∧
      finish {} b = .ok a ∧ decodeAll a ≠ (dec b).map .ok :=
  ⟨.dictionary "$.a" (.leaf "$.a.key" (.int .u32) none []) (.bytes "$.a.value" .utf8 none [0] []) [],
   .dictionary "$.a" (.leaf "$.a.key" (.int .u32) none [0]) (.bytes "$.a.value" .utf8 none [0] []) [],
   .dictionary (.prim .uint32 none [0]) (.bytes .utf8 none [0, 0] []),
    by decide, by decide,
    by
      have hp : pushScalar {} (.bytes "$.a.value" .utf8 none [0] []) (.str "") =
          .ok (.bytes "$.a.value" .utf8 none [0, 0] []) := by
        simp [pushScalar, isUtf8Ty, scalarToString, strBytes, setValidity, duplicateLast, incrementLast, bind,
          Except.bind, offMax, isLargeTy, pure, Except.pure]
      simp [finish, hp, ctx, finishLeaf, finishValidity, primOfInt, B.isNullable, B.rows, appendEmptyStr, bind,
        Except.bind, pure, Except.pure],
    by decide⟩

/-! ### non-vacuity of `finish_decode`: nullable list of nullable ints, rows `[[1, null], null]` -/
example : ∃ b a, WFB b ∧ Lemmas.C03.Faithful b ∧ finish {} b = .ok a ∧
    dec b = [.list (.cons (.int 1) (.cons .null .nil)), .null] :=
  ⟨.list "$.a" false ⟨"element", true, []⟩ (some [true, false]) [0, 2, 2]
      (.leaf "$.a.element" (.int .i32) (some [true, false]) [1, 0]), _,
    by simp [WFB, VLen, OffsOK, dec, maskNull], by simp [Lemmas.C03.Faithful], rfl, by decide⟩

/-! ### every slot of the finished array, hidden ones included -/

/-- **`finish_decodeP`.**  `decP b` is `dec b` with dictionary keys read through the values of the *finished*
dictionary (placeholder included).  Under `Sound` (weaker than `Faithful`: dummy keys allowed as long as the
finished dictionary has a value for them) every slot of the finished array decodes, to `decP`. -/
theorem finish_decodeP (ext : Ext) (b : B) (a : Arr) (hw : WFB b) (hs : Lemmas.C03.Sound b)
    (h : finish ext b = .ok a) : decodeAll a = (Lemmas.C03.decP b).map .ok :=
  Lemmas.C03.finish_decodeP ext b a hw hs h

theorem decP_length (b : B) : (Lemmas.C03.decP b).length = (dec b).length := Lemmas.C03.decP_length b

theorem decP_eq_dec (b : B) (hw : WFB b) (hf : Lemmas.C03.Faithful b) : Lemmas.C03.decP b = dec b :=
  Lemmas.C03.decP_eq_dec b hw hf

theorem Faithful_Sound (b : B) (hw : WFB b) (hf : Lemmas.C03.Faithful b) : Lemmas.C03.Sound b :=
  Lemmas.C03.Faithful_Sound b hw hf

/-- non-vacuity of `Sound` beyond `Faithful`: the dummy-key dictionary of `finish_decode_dictionary_dummy_false`
is `Sound`, and its finished array reads the placeholder `""` -/
example : Lemmas.C03.Sound (.dictionary "$.a" (.leaf "$.a.key" (.int .u32) none [0]) (.bytes "$.a.value" .utf8 none [0] []) []) ∧
    Lemmas.C03.decP (.dictionary "$.a" (.leaf "$.a.key" (.int .u32) none [0]) (.bytes "$.a.value" .utf8 none [0] []) []) =
      [.str []] := by
  refine ⟨?_, by decide⟩
  simp only [Lemmas.C03.Sound, true_and]
  intro k hk
  have : k = .int 0 := by simpa [Lemmas.C03.decP, maskNull, leafVal] using hk
  exact Or.inr ⟨0, this, by decide⟩

/-! ### well-formedness of the finished array -/

/-- bitmap of a finished array: present iff nullable, bit offset 0, exactly ⌈len/8⌉ bytes, padding bits clear -/
theorem validityOk_finish (v : Validity) (nl : Bool) (n : Nat) (hn : v.isSome = nl) (hv : VLen v n) :
    validityOk nl (finishValidity v) n = true :=
  Lemmas.C03.validityOk_finish v nl n hn hv

/-- **`finish_wf`.**  The array a builder finishes into is a well-formed array (`Spec.wf`: type equality including
child names / nullability / metadata, bitmaps, offsets, child lengths, ids and keys in range, UTF-8) of the data type
the builder was created for.  Hypotheses: `BuiltFor` (shape; `newDT_builtFor`), the state invariant `WFB`,
`Sound` (known finding FixedSizeBinary(0); dictionary keys designate a value) and `WFX` (what `WFB` does not carry:
values in physical range, offsets ≤ i32/i64 max, string data valid UTF-8). -/
theorem finish_wf (ext : Ext) (b : B) (dt : DataType) (nl : Bool) (a : Arr)
    (hb : Lemmas.C03.BuiltFor dt nl b) (hw : WFB b) (hs : Lemmas.C03.Sound b) (hx : Lemmas.C03.WFX b)
    (h : finish ext b = .ok a) : wf dt nl a = true :=
  Lemmas.C03.finish_wf ext b dt nl a hb hw hs hx h

/-- non-vacuity of `finish_wf`: a nullable list of nullable Int32 holding `[[1, null], null]` satisfies every
hypothesis (so its finished array — bitmaps `[1]`, `[1]`, offsets `[0,2,2]` — is well formed by the theorem) -/
example : ∃ b, Lemmas.C03.BuiltFor (.list (.mk "element" .int32 true [])) true b ∧ WFB b ∧ Lemmas.C03.Sound b ∧
    Lemmas.C03.WFX b ∧ (dec b).length = 2 :=
  ⟨.list "$.a" false ⟨"element", true, []⟩ (some [true, false]) [0, 2, 2]
      (.leaf "$.a.element" (.int .i32) (some [true, false]) [1, 0]),
    ⟨.mk "element" .int32 true [], by simp, rfl, rfl, by simp [Lemmas.C03.BuiltFor, Lemmas.C03.leafDT, Lemmas.C03.intDT,
      Field.dataType, Field.nullable]⟩,
    by simp [WFB, VLen, OffsOK, dec, maskNull], by simp [Lemmas.C03.Sound],
    by simp [Lemmas.C03.WFX, offMax, Lemmas.C03.leafRange, inRng, primRange, primOfInt], by decide⟩

/-- the builder created for a field stands for it.  No hypothesis on the field: `build_builder` refuses Map fields with
other than two entry children and dictionaries with a non-integer key type (`map_three_children_refused`,
`dictionary_float_keys_refused`) -/
theorem newB_builtFor (path : String) (f : Field) (b : B) (h : newB path f = .ok b) :
    Lemmas.C03.BuiltFor f.dataType f.nullable b :=
  Lemmas.C03.newB_builtFor path f b h

theorem newRoot_builtFor (fields : List Field) (root : B)
    (h : newRoot fields = .ok root) : Lemmas.C03.BuiltFor (.struct (Fields.ofList fields)) false root :=
  Lemmas.C03.newRoot_builtFor fields root h

/-- a Map field with three entry children -/
def exMap3 : Field :=
  .mk "m" (.map (.mk "entries" (.struct (.cons (.mk "key" .int32 false []) (.cons (.mk "value" .int32 false [])
      (.cons (.mk "extra" .int32 false []) .nil)))) false []) false) false []

/-- **fixed finding (Map with more than two entry children), repaired code** (repo fix 095456f): `build_builder`
refuses the field -/
theorem map_three_children_refused : ∃ e, newB "$.m" exMap3 = .error e := ⟨_, rfl⟩

/-- **… pinned code.**  The pinned `build_builder` only looked at the first two children of a Map's entries struct: it
returned the builder `b` below (a map builder over the first two children), and the array that builder finishes into is
not an array of the declared field. -/
theorem map_three_children_pinned_not_wf :
    ∃ (b : B) (a : Arr),
      b = .map "$.m" { entriesName := "entries", sorted := false, keys := ⟨"key", false, []⟩, values := ⟨"value", false, []⟩ }
        none [0] (.leaf "$.m.entries.key" (.int .i32) none []) (.leaf "$.m.entries.value" (.int .i32) none []) ∧
      finish {} b = .ok a ∧ WFS exMap3 a = false :=
  ⟨_, _, rfl, rfl, by decide⟩

/-- **fixed finding (Dictionary with a floating-point key type), repaired code** (repo fix 7359431): `build_builder`
refuses every non-integer key type -/
theorem dictionary_float_keys_refused :
    ∃ e, newB "$.d" (.mk "d" (.dictionary .float32 .utf8) false []) = .error e := ⟨_, rfl⟩

theorem dictionary_key_refused (path : String) (k v : DataType) (nl : Bool) (md : Metadata) (hk : isIntDT k = false) :
    ∃ e, newDT path (.dictionary k v) nl md = .error e := by
  simp only [newDT, hk]
  exact ⟨_, rfl⟩

/-- **… pinned code.**  The pinned `build_builder` accepted any key type: for `Dictionary(Float32, Utf8)` it returned
the builder `b0` below; a `Float32` keys builder accepts the `u64` index the dictionary builder pushes (`serialize_u64`
as float), so the push succeeds and the produced dictionary array has float keys: not a valid Arrow dictionary. -/
theorem dictionary_float_keys_pinned_not_wf :
    ∃ (b0 b : B) (a : Arr),
      b0 = .dictionary "$.d" (.leaf "$.d.key" .f32 none []) (.bytes "$.d.value" .utf8 none [0] []) [] ∧
      push {} b0 (.str "") = .ok b ∧ finish {} b = .ok a ∧
      WFS (.mk "d" (.dictionary .float32 .utf8) false []) a = false := by
  refine ⟨.dictionary "$.d" (.leaf "$.d.key" .f32 none []) (.bytes "$.d.value" .utf8 none [0] []) [],
    .dictionary "$.d" (.leaf "$.d.key" .f32 none [0]) (.bytes "$.d.value" .utf8 none [0, 0] []) [""],
    .dictionary (.prim .float32 none [0]) (.bytes .utf8 none [0, 0] []), rfl, ?_, ?_, by decide⟩
  · have hp : pushScalar {} (.bytes "$.d.value" .utf8 none [0] []) (.str "") =
        .ok (.bytes "$.d.value" .utf8 none [0, 0] []) := by
      simp [pushScalar, isUtf8Ty, scalarToString, strBytes, setValidity, duplicateLast, incrementLast, bind,
        Except.bind, offMax, isLargeTy, pure, Except.pure]
    have hk : pushScalar {} (.leaf "$.d.key" .f32 none []) (.int .u64 0) = .ok (.leaf "$.d.key" .f32 none [0]) := by
      decide
    simp only [push]
    rw [pushScalar]
    simp [hp, hk, scalarToString, indexOfName, indexOfName.go, ctx, bind, Except.bind, pure, Except.pure]
  · simp [finish, finishLeaf, finishValidity, B.isNullable, B.rows, bind, Except.bind, pure, Except.pure]

/-- **known finding (FixedSizeBinary(0))**, well-formedness side: a nullable `FixedSizeBinary(0)` column with one
row finishes into an array whose length (0) does not cover its bitmap (1 byte) -/
theorem fixedSizeBinary0_not_wf :
    ∃ (b : B) (a : Arr), WFB b ∧ Lemmas.C03.BuiltFor (.fixedSizeBinary 0) true b ∧ finish {} b = .ok a ∧
      wf (.fixedSizeBinary 0) true a = false := by
  refine ⟨.fixedSizeBinary "$.a" 0 1 (some [true]) [] 0, .fixedSizeBinary 0 (some ⟨[1], 0⟩) [], ?_, ?_, ?_, by decide⟩
  · simp [WFB, VLen]
  · simp [Lemmas.C03.BuiltFor]
  · simp [finish, finishValidity, packBits, packByte, List.zipIdx]

/-! ### where `Faithful` / `Sound` / the UTF-8 part of `WFX` come from -/

/-- every string a builder receives is valid UTF-8 (Rust: `&str` by type; model: a Lean `String`) -/
theorem validUtf8_strBytes (s : String) : validUtf8 (strBytes s) = true := Lemmas.Utf8.validUtf8_strBytes s

/-- `ShapeOK` (no `FixedSizeBinary(0)`, integer dictionary keys) holds of the builder of a `SchemaOK` type … -/
theorem BuiltFor_ShapeOK (b : B) (dt : DataType) (nl : Bool) (hb : Lemmas.C03.BuiltFor dt nl b)
    (hs : Lemmas.C03.SchemaOK dt) : Lemmas.C03.ShapeOK b :=
  Lemmas.C03.BuiltFor_ShapeOK b dt nl hb hs

/-- … and is a property of the shape only (so `push_takeRest` preserves it) -/
theorem ShapeOK_of_takeRest_eq (b b' : B) (h : takeRest b' = takeRest b) (hb : Lemmas.C03.ShapeOK b) :
    Lemmas.C03.ShapeOK b' :=
  Lemmas.C03.ShapeOK_of_takeRest_eq b b' h hb

/-- with the strict dictionary clause of the state invariant (`StrictDict`: no key designates a missing value) a
`ShapeOK` builder is `Faithful` — hence `Sound` (`Faithful_Sound`) -/
theorem Faithful_of_strict (b : B) (hs : Lemmas.C03.StrictDict b) (ho : Lemmas.C03.ShapeOK b) : Lemmas.C03.Faithful b :=
  Lemmas.C03.Faithful_of_strict b hs ho

/-! ### C03 for `to_marrow` -/

theorem toMarrow_split (ext : Ext) (fields : List Field) (rows : List SVal) (arrs : List Arr)
    (h : toMarrow ext fields rows = .ok arrs) :
    ∃ root, runRows ext fields rows = .ok root ∧ ∃ rest, buildArrays ext root = .ok (arrs, rest) := by
  simp only [toMarrow, runRows, bind, Except.bind] at h ⊢
  cases hr : newRoot fields with
  | error e => rw [hr] at h; cases h
  | ok r0 =>
    rw [hr] at h
    dsimp only at h ⊢
    cases hf : List.foldlM (push ext) r0 rows with
    | error e => rw [hf] at h; cases h
    | ok root =>
      rw [hf] at h
      dsimp only at h
      refine ⟨root, rfl, ?_⟩
      cases hb : buildArrays ext root with
      | error e => rw [hb] at h; cases h
      | ok p =>
        rw [hb] at h
        obtain ⟨as, rest⟩ := p
        cases h
        exact ⟨rest, rfl⟩

/-- **C03 from facts about the final builder state** (lemma; the assembled theorem is `C03_wfS` below): given the
state invariant `WFB root`, the shape relation `BuiltFor (struct fields) false root`, `Sound root` and `WFX root`,
every array `to_marrow` returns is a well-formed array of its field, there is one array per field, and all arrays have
the same number of rows. -/
theorem C03_wf_of_root (ext : Ext) (fields : List Field) (rows : List SVal) (arrs : List Arr)
    (hwfb : ∀ root, runRows ext fields rows = .ok root → WFB root)
    (hshape : ∀ root, runRows ext fields rows = .ok root →
      Lemmas.C03.BuiltFor (.struct (Fields.ofList fields)) false root)
    (hsound : ∀ root, runRows ext fields rows = .ok root → Lemmas.C03.Sound root)
    (hwfx : ∀ root, runRows ext fields rows = .ok root → Lemmas.C03.WFX root)
    (h : toMarrow ext fields rows = .ok arrs) :
    arrs.length = fields.length ∧
    ∃ n : Nat, ∀ (j : Nat) (f : Field) (a : Arr), fields[j]? = some f → arrs[j]? = some a →
      WFS f a = true ∧ (decodeAll a).length = n := by
  obtain ⟨root, hrun, rest, hba⟩ := toMarrow_split ext fields rows arrs h
  have hw := hwfb root hrun
  have hb := hshape root hrun
  have hs := hsound root hrun
  have hx := hwfx root hrun
  cases root with
  | struct p len v fs cached next seen =>
    simp only [buildArrays, bind, Except.bind] at hba
    cases hf : finishFields ext fs with
    | error e => rw [hf] at hba; cases hba
    | ok afs =>
      rw [hf] at hba
      simp only [pure, Except.pure, Except.ok.injEq, Prod.mk.injEq] at hba
      obtain ⟨rfl, _⟩ := hba
      simp only [Lemmas.C03.BuiltFor] at hb
      obtain ⟨fields', hfe, _, hbl⟩ := hb
      simp only [DataType.struct.injEq] at hfe
      subst hfe
      have hwf := Lemmas.C03.finishFields_wf ext fs _ len afs hbl (Lemmas.C03.WFB_struct hw).2
        (Lemmas.C03.Sound_struct hs) (Lemmas.C03.WFX_struct hx) hf
      obtain ⟨hlen, hget⟩ := Lemmas.C03.wfFields_get _ afs len hwf
      rw [Fields.toList_ofList] at hlen
      refine ⟨by simp [hlen], len, ?_⟩
      intro j f a hfj haj
      rw [List.getElem?_map] at haj
      cases hma : afs.toList[j]? with
      | none => rw [hma] at haj; cases haj
      | some ma =>
        rw [hma] at haj
        simp only [Option.map_some, Option.some.injEq] at haj
        subst haj
        have := hget j f ma (by rw [Fields.toList_ofList]; exact hfj) hma
        exact ⟨this.2.2, this.2.1⟩
  | _ => simp [buildArrays, panic] at hba

/-- shape preservation reduced to `push_takeRest` (Lemmas/C10TakePush.lean): `BuiltFor` only depends on `takeRest`;
`hpush` is `Build.push_takeRest ext` -/
theorem runRows_builtFor (ext : Ext) (fields : List Field) (rows : List SVal) (root : B)
    (hpush : ∀ (x : SVal) (b b' : B), push ext b x = .ok b' → takeRest b' = takeRest b)
    (h : runRows ext fields rows = .ok root) :
    Lemmas.C03.BuiltFor (.struct (Fields.ofList fields)) false root :=
  Lemmas.C03.runRows_builtFor ext fields rows root hpush h

/-- **offsets and UTF-8, unconditionally.**  `PX` (bytes builders: offsets start at 0, never decrease, end at
`data.length`, stay ≤ i32/i64 max, every Utf8/LargeUtf8 slot valid UTF-8; list/map offsets ≤ i32/i64 max) is
preserved by every push — no assumption on the value, on `Ext`, or on any other invariant — and holds of fresh
builders; so it holds after any accepted sequence of rows. -/
theorem push_PX (ext : Ext) (x : SVal) (b b' : B) (h : push ext b x = .ok b') (hp : Lemmas.C03.PX b) :
    Lemmas.C03.PX b' :=
  Lemmas.C03.push_PX ext x b b' h hp

theorem runRows_PX (ext : Ext) (fields : List Field) (rows : List SVal) (root : B)
    (h : runRows ext fields rows = .ok root) : Lemmas.C03.PX root :=
  Lemmas.C03.runRows_PX ext fields rows root h

theorem SchemaOKFs_ofList : ∀ (fields : List Field), (∀ f ∈ fields, Lemmas.C03.SchemaOKF f) →
    Lemmas.C03.SchemaOKFs (Fields.ofList fields)
  | [], _ => trivial
  | f :: r, h => by
    simp only [Fields.ofList, Lemmas.C03.SchemaOKFs]
    exact ⟨h f (by simp), SchemaOKFs_ofList r (fun g hg => h g (by simp [hg]))⟩

/-- everything the physical layer needs to know about the final builder state, from the interface hypotheses -/
theorem root_facts (ext : Ext) (fields : List Field) (rows : List SVal) (root : B)
    (hschema : ∀ f ∈ fields, Lemmas.C03.SchemaOKF f)
    (hpush : ∀ (x : SVal) (b b' : B), push ext b x = .ok b' → takeRest b' = takeRest b)
    (hw : WFB root) (hstrict : Lemmas.C03.StrictDict root) (hrun : runRows ext fields rows = .ok root) :
    Lemmas.C03.BuiltFor (.struct (Fields.ofList fields)) false root ∧ Lemmas.C03.Faithful root ∧
      Lemmas.C03.Sound root ∧ Lemmas.C03.PX root := by
  have hb := runRows_builtFor ext fields rows root hpush hrun
  have hshape := Lemmas.C03.BuiltFor_ShapeOK root _ _ hb (by
    simp only [Lemmas.C03.SchemaOK]; exact SchemaOKFs_ofList fields hschema)
  have hf := Lemmas.C03.Faithful_of_strict root hstrict hshape
  exact ⟨hb, hf, Lemmas.C03.Faithful_Sound root hw hf, runRows_PX ext fields rows root hrun⟩

/-- leaf values stay within the physical range of their type (explicit assumptions: `ExtOK`, `SValOK`; `FloatOK` is
proved: `floatOK`) -/
theorem push_LR (ext : Ext) (he : Lemmas.C03.ExtOK ext) (hf : Lemmas.C03.FloatOK) (x : SVal) (b b' : B)
    (hx : Lemmas.C03.SValOK x) (h : push ext b x = .ok b') (hp : Lemmas.C03.LR b) : Lemmas.C03.LR b' :=
  Lemmas.C03.push_LR ext he hf x b b' hx h hp

/-- the IEEE conversions of the model return bit patterns of the target width -/
theorem floatOK : Lemmas.C03.FloatOK := Lemmas.C03.floatOK

/-- non-vacuity of `ExtOK`: the default `Ext` (every external parser refuses) satisfies it -/
example : Lemmas.C03.ExtOK {} where
  date32 := by intro s v h; cases h
  date64 := by intro s v h; cases h
  time := by intro u s v h; cases h
  timestamp := by intro u utc s v h; cases h
  duration := by intro u s v h; cases h

/-- non-vacuity of `SValOK`: a record with an `i32`, an `f32` and a nested sequence -/
example : Lemmas.C03.SValOK (.record "R" (.cons "a" 0 (.int .i32 7) (.cons "b" 1 (.f32 1065353216)
    (.cons "c" 2 (.seq (.cons (.some (.int .u8 255)) .nil)) .nil)))) := by
  simp [Lemmas.C03.SValOK, Lemmas.C03.SFieldsOK, Lemmas.C03.SValsOK, Lemmas.C03.ScalarOK, IntTy.inRange, IntTy.min,
    IntTy.max]

/-- what `push_scalar_value` of a bytes-view builder writes designates the pushed bytes -/
theorem decodeView_inline (bufs : List Bytes) (data : Bytes) (h : data.length ≤ 12) :
    decodeView bufs (packInline data) = .ok data :=
  Lemmas.C03.decodeView_inline bufs data h

theorem decodeView_extern (buf data : Bytes) (hlen : 12 < data.length) (hsmall : (buf ++ data).length < 2 ^ 32) :
    decodeView [buf ++ data] (packExtern data 0 buf.length) = .ok data :=
  Lemmas.C03.decodeView_extern buf data hlen hsmall

theorem ArrFields_toList_decode : ∀ (x : ArrFields),
    x.toList.map (fun ma => decodeAll ma.2) = (decodeFields x).map (·.2)
  | .nil => rfl
  | .cons m a r => by simp [ArrFields.toList, decodeFields, ArrFields_toList_decode r]

/-- the physical half of C01 for `to_marrow`: the returned arrays decode to exactly the columns the final builder
state holds (`decRoot`).  Same interface hypotheses; `Faithful` instead of `Sound` (no dummy dictionary keys). -/
theorem toMarrow_decode_of_root (ext : Ext) (fields : List Field) (rows : List SVal) (arrs : List Arr)
    (hwfb : ∀ root, runRows ext fields rows = .ok root → WFB root)
    (hfaith : ∀ root, runRows ext fields rows = .ok root → Lemmas.C03.Faithful root)
    (h : toMarrow ext fields rows = .ok arrs) :
    ∃ root, runRows ext fields rows = .ok root ∧ arrs.map decodeAll = (decRoot root).map (·.map .ok) := by
  obtain ⟨root, hrun, rest, hba⟩ := toMarrow_split ext fields rows arrs h
  refine ⟨root, hrun, ?_⟩
  have hw := hwfb root hrun
  have hf := hfaith root hrun
  cases root with
  | struct p len v fs cached next seen =>
    simp only [buildArrays, bind, Except.bind] at hba
    cases hfin : finishFields ext fs with
    | error e => rw [hfin] at hba; cases hba
    | ok afs =>
      rw [hfin] at hba
      simp only [pure, Except.pure, Except.ok.injEq, Prod.mk.injEq] at hba
      obtain ⟨rfl, _⟩ := hba
      have hd := Lemmas.C03.finishFields_decode ext fs afs
        (Lemmas.C03.WFL_WFBs fs len (Lemmas.C03.WFB_struct hw).2) (Lemmas.C03.Faithful_struct hf) hfin
      simp only [decRoot, List.map_map]
      have := ArrFields_toList_decode afs
      have e : (decodeAll ∘ fun (x : FieldMeta × Arr) => x.snd) = fun ma => decodeAll ma.snd := rfl
      rw [e, this, hd, List.map_map]
      rfl
  | _ => simp [buildArrays, panic] at hba

/-! ### the assembled theorems (refinement interface discharged)

With `Build.push_takeRest`, `Props.C01.runRows_rows`, `Props.C01.runRows_interp` and `WFB_StrictDict` nothing of the proof
interface remains.  What stays are explicit assumptions on the schema, the rows and `Ext`, each justified in notes/C03.md:

  schema   `SchemaOKF` (no `FixedSizeBinary(0)`: exclusion of the recorded known finding, witness theorem in this file);
           `Safe root0` (Build/Inv.lean: no dictionary with non-nullable keys below a nullable struct / fixed-size
           list; a property of the fresh root, i.e. of the schema — `Props.C01.dict_placeholder_unstable`); the headline
           `Props.C01.C03_wf'` / `C03_wfS'` (Props/C01Obs.lean) weakens it to `Safe root0 ∨ coveredF`.
           Map entries with exactly two children and integer dictionary key types are NOT assumptions: `build_builder`
           refuses the other fields (repo fixes 095456f / 7359431) and `BuiltFor` is derived from `newRoot fields = ok _`
           alone (`newRoot_builtFor`)
  rows     `SValOK` (an iN/uN/f32/f64 call carries a value of that width).  No hypothesis on raw key/value call streams:
           a Map builder refuses the streams that do not alternate (repo fix eafdf15,
           `Props.C01.map_refuses_non_alternating`), so `toMarrow … = .ok arrs` already excludes them
  Ext      `ExtOK` (what the external chrono parsers return fits the column's storage)
(no size assumption on view buffers: the view builders refuse lengths / offsets beyond `i32::MAX` and the state invariant
`WFB` carries the buffer bound — `WFB_small`, Lemmas/C01Small.lean) -/

/-- **C03, structural half** (`Safe` version; the headline with type equality is `Props.C01.C03_wf'`, Props/C01Obs.lean).
Every array `to_marrow` returns is a structurally valid array of its field (`Spec.WFS`: data type compatible with the
field's — child names / nullability / metadata / parameters, EXCEPT the union mode and the nullability / metadata of a Map's
entries field, which only `Spec.WF` = `WFS ∧ typeOf a = f.dataType` compares; bitmap present iff nullable with exactly ⌈len/8⌉
bytes and clear padding; offsets start at 0, never decrease, end at the child length and stay within i32/i64; fixed-size
child lengths; type ids, dense offsets and dictionary keys in range; string data valid UTF-8; values within their
physical range), there is exactly one array per field, and every array has `rows.length` rows. -/
theorem C03_wfS (ext : Ext) (fields : List Field) (rows : List SVal) (arrs : List Arr)
    (hschema : ∀ f ∈ fields, Lemmas.C03.SchemaOKF f)
    (hsafe : ∀ root0, newRoot fields = .ok root0 → Safe root0)
    (hext : Lemmas.C03.ExtOK ext)
    (hrows : ∀ x ∈ rows, Lemmas.C03.SValOK x)
    (h : toMarrow ext fields rows = .ok arrs) :
    arrs.length = fields.length ∧
    ∀ (j : Nat) (f : Field) (a : Arr), fields[j]? = some f → arrs[j]? = some a →
      WFS f a = true ∧ (decodeAll a).length = rows.length := by
  obtain ⟨root, hrun, rest, hba⟩ := toMarrow_split ext fields rows arrs h
  -- the fresh root
  have h0 : ∃ root0, newRoot fields = .ok root0 := by
    simp only [runRows] at hrun
    cases hr : newRoot fields with
    | error e => rw [hr] at hrun; cases hrun
    | ok r0 => exact ⟨r0, rfl⟩
  obtain ⟨root0, h0⟩ := h0
  obtain ⟨hw, hlen, _, hcols⟩ := Props.C01.runRows_rows ext fields rows root0 root h0 (hsafe root0 h0) hrun
  have hfacts := root_facts ext fields rows root hschema (Build.push_takeRest ext) hw
    (Lemmas.C03.WFB_StrictDict root hw) hrun
  have hx := Lemmas.C03.runRows_WFX ext hext fields rows root hrows hrun (Build.WFB_small root hw)
  cases root with
  | struct p len v fs cached next seen =>
    simp only [buildArrays, bind, Except.bind] at hba
    cases hf : finishFields ext fs with
    | error e => rw [hf] at hba; cases hba
    | ok afs =>
      rw [hf] at hba
      simp only [pure, Except.pure, Except.ok.injEq, Prod.mk.injEq] at hba
      obtain ⟨rfl, _⟩ := hba
      have hb := hfacts.1
      simp only [Lemmas.C03.BuiltFor] at hb
      obtain ⟨fields', hfe, _, hbl⟩ := hb
      simp only [DataType.struct.injEq] at hfe
      subst hfe
      have hwl := (Lemmas.C03.WFB_struct hw).2
      have hwf := Lemmas.C03.finishFields_wf ext fs _ len afs hbl hwl
        (Lemmas.C03.Sound_struct hfacts.2.2.1) (Lemmas.C03.WFX_struct hx) hf
      obtain ⟨hl, hget⟩ := Lemmas.C03.wfFields_get _ afs len hwf
      rw [Fields.toList_ofList] at hl
      refine ⟨by simp [hl], ?_⟩
      intro j f a hfj haj
      rw [List.getElem?_map] at haj
      cases hma : afs.toList[j]? with
      | none => rw [hma] at haj; cases haj
      | some ma =>
        rw [hma] at haj
        simp only [Option.map_some, Option.some.injEq] at haj
        subst haj
        have := hget j f ma (by rw [Fields.toList_ofList]; exact hfj) hma
        refine ⟨this.2.2, ?_⟩
        rw [this.2.1]
        -- the root's row count is the number of rows pushed
        have hv : (dec (B.struct p len v fs cached next seen)).length = len := by
          simp only [dec]
          exact Lemmas.C03.maskNull_length v len _ (Lemmas.C03.WFB_struct hw).1 (by simp)
        omega
  | _ => simp [buildArrays, panic] at hba

/-- **the physical half of C01 for `to_marrow`, every builder family.**  The returned arrays decode to exactly the
columns the final builder state holds (`decRoot root`, `rows.length` slots each). -/
theorem toMarrow_decode_state (ext : Ext) (fields : List Field) (rows : List SVal) (arrs : List Arr)
    (hschema : ∀ f ∈ fields, Lemmas.C03.SchemaOKF f)
    (hsafe : ∀ root0, newRoot fields = .ok root0 → Safe root0)
    (h : toMarrow ext fields rows = .ok arrs) :
    ∃ root, runRows ext fields rows = .ok root ∧ arrs.map decodeAll = (decRoot root).map (·.map .ok) ∧
      ∀ col ∈ decRoot root, col.length = rows.length := by
  have hroot : ∀ root, runRows ext fields rows = .ok root → WFB root ∧ ∀ col ∈ decRoot root, col.length = rows.length := by
    intro root hrun
    have h0 : ∃ root0, newRoot fields = .ok root0 := by
      simp only [runRows] at hrun
      cases hr : newRoot fields with
      | error e => rw [hr] at hrun; cases hrun
      | ok r0 => exact ⟨r0, rfl⟩
    obtain ⟨root0, h0⟩ := h0
    obtain ⟨hw, _, _, hc⟩ := Props.C01.runRows_rows ext fields rows root0 root h0 (hsafe root0 h0) hrun
    exact ⟨hw, hc⟩
  obtain ⟨root, hrun, hd⟩ := toMarrow_decode_of_root ext fields rows arrs (fun r hr => (hroot r hr).1)
    (fun r hr => (root_facts ext fields rows r hschema (Build.push_takeRest ext) (hroot r hr).1
      (Lemmas.C03.WFB_StrictDict r (hroot r hr).1) hr).2.1) h
  exact ⟨root, hrun, hd, (hroot root hrun).2⟩

theorem All2_get {α β} {R : α → β → Prop} : ∀ {l1 : List α} {l2 : List β}, Build.All2 R l1 l2 →
    l1.length = l2.length ∧ ∀ (i : Nat) (h1 : i < l1.length) (h2 : i < l2.length), R l1[i] l2[i]
  | [], [], .nil => ⟨rfl, fun i h1 _ => absurd h1 (by simp)⟩
  | _ :: _, _ :: _, .cons hr ht => by
    obtain ⟨hl, hg⟩ := All2_get ht
    refine ⟨by simp [hl], ?_⟩
    intro i h1 h2
    cases i with
    | zero => exact hr
    | succ i => exact hg i (by simpa using h1) (by simpa using h2)

/-! `toMarrow_decode_state` composed with R3 (`Props.C01.runRows_interp`) is the `Safe`-carrying end-to-end statement of C01,
`Props.C01.C01_build_decode` (Props/C01.lean); the `Safe`-free one is `Props.C01.C01_build_decode'` (Props/C01Obs.lean). -/

/-! ### a worked instance: the hypotheses are jointly satisfiable on a real run

Two records for the schema `{a: Int32?, l: List<Int8>}` (second record without `a`).  The model run is evaluated by
`decide` (`exRun`), `to_marrow` succeeds (`exOk`), and every hypothesis of `C03_wfS` is discharged: an unconditional instance. -/

def exFields : List Field := [.mk "a" .int32 true [], .mk "l" (.list (.mk "element" .int8 false [])) false []]
def exRows : List SVal :=
  [.record "R" (.cons "a" 0 (.int .i32 1) (.cons "l" 1 (.seq (.cons (.int .i8 5) (.cons (.int .i8 6) .nil))) .nil)),
   .record "R" (.cons "l" 1 (.seq .nil) .nil)]
def exRoot : B :=
  .struct "$" 2 none
    (.cons (.leaf "$.a" (.int .i32) (some [true, false]) [1, 0]) ⟨"a", true, []⟩
      (.cons (.list "$.l" false ⟨"element", false, []⟩ none [0, 2, 2] (.leaf "$.l.element" (.int .i8) none [5, 6]))
        ⟨"l", false, []⟩ .nil))
    [some ("a", 0), some ("l", 1)] 2 [false, true]

theorem exRun : runRows {} exFields exRows = .ok exRoot := by decide

theorem toMarrow_eq (ext : Ext) (fields : List Field) (rows : List SVal) :
    toMarrow ext fields rows = (do
      let root ← runRows ext fields rows
      let (arrs, _) ← buildArrays ext root
      pure arrs) := by
  simp only [toMarrow, runRows, bind_assoc]

theorem exOk : (toMarrow {} exFields exRows).isOk = true := by
  rw [toMarrow_eq, exRun]
  simp [exRoot, buildArrays, finishFields, finish, bind, Except.bind, pure, Except.pure, R.isOk]

/-- the instance, with every hypothesis of `C03_wfS` discharged: both arrays are well formed and have 2 rows -/
example : ∀ arrs, toMarrow {} exFields exRows = .ok arrs →
    arrs.length = exFields.length ∧ ∀ (j : Nat) (f : Field) (a : Arr), exFields[j]? = some f →
      arrs[j]? = some a → WFS f a = true ∧ (decodeAll a).length = exRows.length := by
  intro arrs h
  refine C03_wfS {} exFields exRows arrs ?_ ?_ ?_ ?_ h
  · simp [exFields, Lemmas.C03.SchemaOKF, Lemmas.C03.SchemaOK]
  · intro root0 h0
    rw [show newRoot exFields = .ok (.struct "$" 0 none
      (.cons (.leaf "$.a" (.int .i32) (some []) []) ⟨"a", true, []⟩
        (.cons (.list "$.l" false ⟨"element", false, []⟩ none [0] (.leaf "$.l.element" (.int .i8) none []))
          ⟨"l", false, []⟩ .nil)) [none, none] 0 [false, false]) from by decide] at h0
    cases h0
    simp [Safe, SafeL]
  · constructor <;> (intros; rename_i h; cases h)
  · simp [exRows, Lemmas.C03.SValOK, Lemmas.C03.SFieldsOK, Lemmas.C03.SValsOK, Lemmas.C03.ScalarOK, IntTy.inRange,
      IntTy.min, IntTy.max]

/-! `C03_wfS` without `rawOK`: rows may carry raw key/value call streams.  Into a Map column the stream that does not
alternate is refused (`Props.C01.map_refuses_non_alternating`) — `to_marrow` is an error, there is no array to speak
about; the alternating one is accepted and the Map array is well formed with one row. -/
example : (toMarrow {} Props.C01.exMapFields
    [.record "R" (.cons "m" 0 (.mapRaw (.key (.str "x") (.key (.str "") .nil))) .nil)]).isErr = true := by decide +kernel
example : (match toMarrow {} Props.C01.exMapFields
      [.record "R" (.cons "m" 0 (.mapRaw (.key (.str "x") (.value (.int .i32 1) .nil))) .nil)] with
    | .ok [a] => Props.C01.exMapFields.all (fun f => WFS f a) && (decodeAll a).length == 1
    | _ => false) = true := by decide +kernel

end SaModel.Props.C03
