import SaModel.Props.C01Obs
import SaModel.Props.C16
import SaModel.Lemmas.C03Typed
/-
C03 / C01 with the external functions instantiated by the codec models (what the correspondence driver does:
`Driver/Suites/Build.lean`, `extOfAux`; the same record as `Props.C16.codecExt`).

  codecExt_ok              `ExtOK (codecExt …)`: what the C14 string parsers return fits the column's storage — from the
                           range theorems of Props/C14.lean (`timeOfString_exact`, `span_parse_exact`) and the checked
                           conversions of the date / timestamp builders
  C03_wf_codec             `Props.C01.C03_wf'` (the headline: `Spec.WF`, structure AND type equality) without the `ExtOK`
                           hypothesis; remaining: `SchemaOKF`, `PlainF`, `Safe ∨ coveredF`, `SValOK`
  C03_wf_codec_typed       … and with `SValOK` replaced by the typing invariant `SVal.typed` the wire decoder checks
  C01_build_decode_codec   `Props.C01.C01_build_decode'` at the codec models with ITS row hypotheses (`structStreamsAlternate`
                           of every row, all rows `noRaw` OR `narrowRoot`); no `Safe`, no `ExtOK` (the theorem holds for
                           every `Ext`; stated for symmetry).  `C01_build_decode_codec_noRaw`: the former `noRaw` form
-/
namespace SaModel.Props.C03
open SaModel SaModel.Build SaModel.Spec
open SaModel.Props.C16 (codecExt codecUnit)

theorem inI64_bounds {v : Int} (h : SaModel.Codec.inI64 v = true) :
    -9223372036854775808 ≤ v ∧ v ≤ 9223372036854775807 := (SaModel.Codec.inI64_iff v).1 h

theorem instantToUnits_inI64 {u : SaModel.Codec.TimeUnit} {t : SaModel.Codec.Instant} {v : Int}
    (h : SaModel.Codec.instantToUnits u t = .ok v) : SaModel.Codec.inI64 v = true := by
  unfold SaModel.Codec.instantToUnits at h
  by_cases hin : SaModel.Codec.inI64 (SaModel.Codec.instantUnitsValue u t) = true
  · rw [if_pos hin] at h; cases h; exact hin
  · rw [if_neg hin] at h; cases u <;> cases h

/-- **`ExtOK` is a theorem for the codec models**: a parsed Date32 is an `i32` (`I::try_from(days)`), a parsed Date64,
timestamp and duration an `i64` (checked products / `C14.span_parse_exact`), a parsed time lies in `[0, 86400·unit)`
(`C14.timeOfString_exact`).  No hypothesis on the float tables / the decimal float product (they do not feed temporal
columns). -/
theorem codecExt_ok (f32Str f64Str : Nat → String) (cast : Nat → Int → Bool → Nat → Option (Bool × Int)) :
    Lemmas.C03.ExtOK (codecExt f32Str f64Str cast) where
  date32 := by
    intro s v h
    simp only [codecExt, Bool.false_eq_true, if_false] at h
    unfold SaModel.Codec.dateOfString at h
    cases hp : SaModel.Codec.parseNaiveDate s.toList with
    | error e => rw [hp] at h; cases h
    | ok days =>
      rw [hp] at h
      simp only [bind, Except.bind] at h
      split at h
      · rename_i hr
        split at h
        · cases h
          simp only [SaModel.Codec.DateTy.inRange] at hr
          have := (SaModel.Codec.inI32_iff days).1 hr
          simp only [SaModel.Codec.DateTy.factor]
          omega
        · cases h
      · cases h
  date64 := by
    intro s v h
    simp only [codecExt, if_true] at h
    unfold SaModel.Codec.dateOfString at h
    cases hp : SaModel.Codec.parseNaiveDate s.toList with
    | error e => rw [hp] at h; cases h
    | ok days =>
      rw [hp] at h
      simp only [bind, Except.bind] at h
      split at h
      · split at h
        · rename_i hi
          cases h
          exact inI64_bounds hi
        · cases h
      · cases h
  time := by
    intro u s v h
    simp only [codecExt] at h
    obtain ⟨secs, nanos, _, _, _, _, h0, h1⟩ := SaModel.Props.C14.timeOfString_exact _ _ _ _ h
    cases u <;> simp only [codecUnit, SaModel.Codec.TimeUnit.perSec] at h1 <;> omega
  timestamp := by
    intro u utc s v h
    simp only [codecExt] at h
    unfold SaModel.Codec.timestampOfString at h
    have key : ∀ (r : R SaModel.Codec.Instant),
        (r >>= fun t => SaModel.Codec.instantToUnits (codecUnit u) t) = .ok v → SaModel.Codec.inI64 v = true := by
      intro r hr
      cases r with
      | error e => cases hr
      | ok t => exact instantToUnits_inI64 hr
    cases utc with
    | true => simp only [if_true] at h; exact inI64_bounds (key _ h)
    | false => simp only [Bool.false_eq_true, if_false] at h; exact inI64_bounds (key _ h)
  duration := by
    intro u s v h
    simp only [codecExt] at h
    unfold SaModel.Codec.durationOfString at h
    cases hp : SaModel.Codec.parseSpan s.toList with
    | error e => rw [hp] at h; cases h
    | ok sp =>
      rw [hp] at h
      simp only [bind, Except.bind] at h
      exact inI64_bounds (SaModel.Props.C14.span_parse_exact _ sp _ v hp h).2.2.2

/-- **C03 with the codec models plugged in**: no hypothesis on the external functions is left.  Remaining: `SchemaOKF`
(no `FixedSizeBinary(0)`: known finding), `PlainF` (no metadata on a Map's entries field: known finding), `Safe` OR `coveredF`
(the hypothesis of `Props.C01.C03_wf'`: both decidable on the schema), and `SValOK` (the typing invariant of `SVal`).
Conclusion: `Spec.WF` (structure AND `typeOf a = f.dataType`). -/
theorem C03_wf_codec (f32Str f64Str : Nat → String) (cast : Nat → Int → Bool → Nat → Option (Bool × Int))
    (fields : List Field) (rows : List SVal) (arrs : List Arr)
    (hschema : ∀ f ∈ fields, Lemmas.C03.SchemaOKF f)
    (hplain : ∀ f ∈ fields, Lemmas.C03.PlainF f)
    (hsafe : (∀ root0, newRoot fields = .ok root0 → Safe root0) ∨ fields.all Build.coveredF = true)
    (hrows : ∀ x ∈ rows, Lemmas.C03.SValOK x)
    (h : toMarrow (codecExt f32Str f64Str cast) fields rows = .ok arrs) :
    arrs.length = fields.length ∧
    ∀ (j : Nat) (f : Field) (a : Arr), fields[j]? = some f → arrs[j]? = some a →
      WF f a = true ∧ (decodeAll a).length = rows.length :=
  Props.C01.C03_wf' _ fields rows arrs hschema hplain hsafe (codecExt_ok f32Str f64Str cast) hrows h

/-- `SValOK`, the row hypothesis of `C03_wfS` / `C03_wfS'` / `C03_wf'`, is implied by the typing invariant of `SVal` (`SVal.typed`,
Data/SValTyped.lean: every scalar call carries a value of its Rust type).  The wire decoder of the driver checks it
(`Driver.svalOfJson_typed`), a derived `Serialize` satisfies it (`Roundtrip.ser_ok` gives `SValOK` directly). -/
theorem typed_SValOK (x : SVal) (h : x.typed = true) : Lemmas.C03.SValOK x := Lemmas.C03.typed_SValOK x h

/-- **C03 as the correspondence driver instantiates it**: codec models for the external functions, rows that passed the
typing check of the wire decoder.  What remains are the schema exclusions (`SchemaOKF`: no `FixedSizeBinary(0)`, known
finding; `PlainF`: no metadata on a Map's entries field, known finding; `Safe` OR `coveredF`).  Conclusion: `Spec.WF`. -/
theorem C03_wf_codec_typed (f32Str f64Str : Nat → String) (cast : Nat → Int → Bool → Nat → Option (Bool × Int))
    (fields : List Field) (rows : List SVal) (arrs : List Arr)
    (hschema : ∀ f ∈ fields, Lemmas.C03.SchemaOKF f)
    (hplain : ∀ f ∈ fields, Lemmas.C03.PlainF f)
    (hsafe : (∀ root0, newRoot fields = .ok root0 → Safe root0) ∨ fields.all Build.coveredF = true)
    (hrows : ∀ x ∈ rows, x.typed = true)
    (h : toMarrow (codecExt f32Str f64Str cast) fields rows = .ok arrs) :
    arrs.length = fields.length ∧
    ∀ (j : Nat) (f : Field) (a : Arr), fields[j]? = some f → arrs[j]? = some a →
      WF f a = true ∧ (decodeAll a).length = rows.length :=
  C03_wf_codec f32Str f64Str cast fields rows arrs hschema hplain hsafe (fun x hx => typed_SValOK x (hrows x hx)) h

/-- non-vacuity of the typing invariant, and what it refuses -/
example : SVal.typed (.record "R" (.cons "a" 0 (.int .u8 255) (.cons "c" 1 (.char 0x1F600) .nil))) = true ∧
    SVal.typed (.int .u8 256) = false ∧ SVal.typed (.char 0xD800) = false ∧ SVal.typed (.f32 4294967296) = false := by
  decide

/-- **C01 with the codec models plugged in**, no `Safe` (`C01_build_decode'` holds for every `Ext`; this is its instance at the
record the driver uses).  Row hypotheses exactly those of `C01_build_decode'`: every row's raw key / value call streams
alternate, and either no row has a raw stream or the schema is within the sentinel bound `narrowRoot`. -/
theorem C01_build_decode_codec (f32Str f64Str : Nat → String) (cast : Nat → Int → Bool → Nat → Option (Bool × Int))
    (fields : List Field) (rows : List SVal) (arrs : List Arr)
    (hschema : ∀ f ∈ fields, Lemmas.C03.SchemaOKF f)
    (hcov : fields.all Build.coveredF = true)
    (hraw : ∀ x ∈ rows, Build.structStreamsAlternate x = true)
    (hnar : (∀ x ∈ rows, Build.noRaw x = true) ∨ Build.narrowRoot fields = true)
    (h : toMarrow (codecExt f32Str f64Str cast) fields rows = .ok arrs) :
    arrs.length = fields.length ∧
    ∃ cols : List (String × List LVal),
      arrs.map decodeAll = cols.map (fun c => c.2.map .ok) ∧
      cols.map (·.1) = fields.map (·.name) ∧
      (∀ c ∈ cols, c.2.length = rows.length) ∧
      ∀ (i : Nat) (hi : i < rows.length),
        interpRow (codecExt f32Str f64Str cast) fields rows[i] =
          .ok (.struct (LFields.ofList (cols.map fun c => (c.1, c.2.getD i .null)))) :=
  Props.C01.C01_build_decode' _ fields rows arrs hschema hcov hraw hnar h

/-- the statement as it stood before: rows without raw key / value streams -/
theorem C01_build_decode_codec_noRaw (f32Str f64Str : Nat → String) (cast : Nat → Int → Bool → Nat → Option (Bool × Int))
    (fields : List Field) (rows : List SVal) (arrs : List Arr)
    (hschema : ∀ f ∈ fields, Lemmas.C03.SchemaOKF f)
    (hcov : fields.all Build.coveredF = true)
    (hraw : ∀ x ∈ rows, Build.noRaw x = true)
    (h : toMarrow (codecExt f32Str f64Str cast) fields rows = .ok arrs) :
    arrs.length = fields.length ∧
    ∃ cols : List (String × List LVal),
      arrs.map decodeAll = cols.map (fun c => c.2.map .ok) ∧
      cols.map (·.1) = fields.map (·.name) ∧
      (∀ c ∈ cols, c.2.length = rows.length) ∧
      ∀ (i : Nat) (hi : i < rows.length),
        interpRow (codecExt f32Str f64Str cast) fields rows[i] =
          .ok (.struct (LFields.ofList (cols.map fun c => (c.1, c.2.getD i .null)))) :=
  C01_build_decode_codec f32Str f64Str cast fields rows arrs hschema hcov (fun x hx => Build.noRaw_ssa x (hraw x hx))
    (Or.inl hraw) h

/-! ### non-vacuity: temporal strings through the codec models -/

def exExt : Ext := codecExt (fun _ => "") (fun _ => "") (fun _ _ _ _ => none)

/-- the parsers of the instance do return values (so `ExtOK` is not vacuous): a date, a pre-epoch timestamp, a time, a span -/
example : exExt.parseDate false "1970-01-11" = .ok 10 ∧ exExt.parseDate true "1969-12-31" = .ok (-86400000) ∧
    exExt.parseTimestamp .millisecond true "1969-12-31T23:59:59.5Z" = .ok (-500) ∧
    exExt.parseTime .microsecond "00:00:01.5" = .ok 1500000 ∧ exExt.parseDuration .second "PT1M" = .ok 60 := by
  decide +kernel

def exTFields : List Field := [.mk "d" .date32 false [], .mk "t" (.timestamp .millisecond (some "UTC")) true []]
def exTRows : List SVal :=
  [.record "R" (.cons "d" 0 (.str "1970-01-11") (.cons "t" 1 (.str "1969-12-31T23:59:59.5Z") .nil)),
   .record "R" (.cons "d" 0 (.str "2024-02-29") (.cons "t" 1 .none .nil))]

theorem exTOk : (toMarrow exExt exTFields exTRows).isOk = true := by decide +kernel

/-- `C03_wf_codec` on a run that parses date and timestamp strings: every hypothesis discharged -/
example : ∀ arrs, toMarrow exExt exTFields exTRows = .ok arrs →
    arrs.length = exTFields.length ∧ ∀ (j : Nat) (f : Field) (a : Arr), exTFields[j]? = some f →
      arrs[j]? = some a → WF f a = true ∧ (decodeAll a).length = exTRows.length := by
  intro arrs h
  refine C03_wf_codec _ _ _ exTFields exTRows arrs ?_ ?_ (Or.inl ?_) ?_ h
  · simp [exTFields, Lemmas.C03.SchemaOKF, Lemmas.C03.SchemaOK]
  · simp [exTFields, Lemmas.C03.PlainF, Lemmas.C03.PlainDT]
  · intro root0 h0
    rw [show newRoot exTFields = .ok (.struct "$" 0 none
      (.cons (.leaf "$.d" .date32 none []) ⟨"d", false, []⟩
        (.cons (.leaf "$.t" (.timestamp .millisecond (some "UTC") true) (some []) []) ⟨"t", true, []⟩ .nil))
      [none, none] 0 [false, false]) from by decide +kernel] at h0
    cases h0
    simp [Safe, SafeL]
  · simp [exTRows, Lemmas.C03.SValOK, Lemmas.C03.SFieldsOK]

/-- `C01_build_decode_codec` on a row the former `noRaw` form excluded: the record of `exTFields` presented as an
ALTERNATING raw `SerializeMap` call stream (key, value, key, value) — accepted, every hypothesis discharged -/
def exTRawRows : List SVal :=
  [.mapRaw (.key (.str "d") (.value (.str "1970-01-11") (.key (.str "t") (.value .none .nil))))]

example : (∀ x ∈ exTRawRows, Build.noRaw x = false) ∧ (toMarrow exExt exTFields exTRawRows).isOk = true ∧
    ∀ arrs, toMarrow exExt exTFields exTRawRows = .ok arrs → arrs.length = exTFields.length ∧
      ∃ cols : List (String × List LVal), arrs.map decodeAll = cols.map (fun c => c.2.map .ok) ∧
        cols.map (·.1) = exTFields.map (·.name) := by
  refine ⟨by decide, by decide +kernel, ?_⟩
  intro arrs h
  obtain ⟨hl, cols, h1, h2, _⟩ := C01_build_decode_codec _ _ _ exTFields exTRawRows arrs
    (by simp [exTFields, Lemmas.C03.SchemaOKF, Lemmas.C03.SchemaOK]) (by decide) (by decide) (Or.inr (by decide)) h
  exact ⟨hl, cols, h1, h2⟩

end SaModel.Props.C03
