import SaModel.Props.C03Traced
import SaModel.Props.C01Dict
import SaModel.Lemmas.C01ObsDictNew
/-
C03 / C01 — the codec and traced instances of the wave-10 statements (package `dict`): dictionaries with ANY value type but a
nested dictionary.

  codecExt_noEmpty          `ExtNoEmpty (codecExt …)`: the C14 date / time / timestamp / span parsers and the C15 decimal parser
                            refuse the empty string (as chrono "premature end of input", the span parser "unmatched content", the
                            decimal parser "no digits found" do on the crate: probe in notes/wave10-dict.md) — so `C03_wf'''`
                            carries no hypothesis on the external functions here
  C03_wf_codec''            `C03_wf_codec` with `Safe ∨ coveredPF true` for `Safe ∨ coveredF`: excluded by both alternatives is only a
                            dictionary with NON-nullable keys below a nullable struct / fixed-size list whose value type is itself a
                            Dictionary
  C03_wf_codec_typed''      … with typed rows (what the driver instantiates)
  C03_wf_traced''           … for a `from_type` schema (user overwrites may put any dictionary there)
  C01_build_decode_codec''  `C01_build_decode_codec` with `coveredWF` for `coveredF`
  dict_push_new_interp_partial   the content half (R2') at a dictionary with a Utf8View or parsed value type, for a string that is
                            NEW to the dictionary; missing: the index-hit case (see Lemmas/C01ObsDictNew.lean)
-/
namespace SaModel.Props.C03
open SaModel SaModel.Build SaModel.Spec
open SaModel.Props.C16 (codecExt codecUnit)

theorem ne_ok_of_isOk_false {α} {r : R α} (h : r.isOk = false) (v : α) : r ≠ .ok v := by
  intro e; rw [e] at h; cases h

/-- the codec models accept no empty string -/
theorem codecExt_noEmpty (f32Str f64Str : Nat → String) (cast : Nat → Int → Bool → Nat → Option (Bool × Int)) :
    Lemmas.C03.ExtNoEmpty (codecExt f32Str f64Str cast) where
  date := by
    intro is64 v
    apply ne_ok_of_isOk_false
    cases is64 <;> simp only [codecExt] <;> decide +kernel
  time := by
    intro u v
    apply ne_ok_of_isOk_false
    cases u <;> simp only [codecExt] <;> decide +kernel
  timestamp := by
    intro u utc v
    apply ne_ok_of_isOk_false
    cases u <;> cases utc <;> simp only [codecExt] <;> decide +kernel
  duration := by
    intro u v
    apply ne_ok_of_isOk_false
    cases u <;> simp only [codecExt] <;> decide +kernel
  decimal := by
    intro p s v h
    simp only [codecExt, SaModel.Decimal.serializeStr] at h
    obtain ⟨parser, h1, h2⟩ := (bind_ok _ _ _).1 h
    simp [SaModel.Decimal.DecimalParser.parseDecimal128] at h2
    obtain ⟨digits, h3, _⟩ := (bind_ok _ _ _).1 h2
    have e : (SaModel.Decimal.parseSign []).fst = [] := by decide
    rw [e] at h3
    simp [SaModel.Decimal.DecimalParser.copyDigits, SaModel.Decimal.DecimalParser.copyDigitsWith,
      SaModel.Decimal.anyAsciiDigit, fail] at h3

/-- **C03 with the codec models plugged in, every dictionary value type but a nested dictionary.**  `C03_wf_codec` with the
second alternative of `hsafe` weakened from `coveredF` to `coveredPF true`.  No hypothesis on the external functions. -/
theorem C03_wf_codec'' (f32Str f64Str : Nat → String) (cast : Nat → Int → Bool → Nat → Option (Bool × Int))
    (fields : List Field) (rows : List SVal) (arrs : List Arr)
    (hschema : ∀ f ∈ fields, Lemmas.C03.SchemaOKF f)
    (hplain : ∀ f ∈ fields, Lemmas.C03.PlainF f)
    (hsafe : (∀ root0, newRoot fields = .ok root0 → Safe root0) ∨ fields.all (Lemmas.C03.coveredPF true) = true)
    (hrows : ∀ x ∈ rows, Lemmas.C03.SValOK x)
    (h : toMarrow (codecExt f32Str f64Str cast) fields rows = .ok arrs) :
    arrs.length = fields.length ∧
    ∀ (j : Nat) (f : Field) (a : Arr), fields[j]? = some f → arrs[j]? = some a →
      WF f a = true ∧ (decodeAll a).length = rows.length :=
  Props.C01.C03_wf''' _ (codecExt_noEmpty f32Str f64Str cast) fields rows arrs hschema hplain hsafe
    (codecExt_ok f32Str f64Str cast) hrows h

/-- … as the correspondence driver instantiates it (typed rows) -/
theorem C03_wf_codec_typed'' (f32Str f64Str : Nat → String) (cast : Nat → Int → Bool → Nat → Option (Bool × Int))
    (fields : List Field) (rows : List SVal) (arrs : List Arr)
    (hschema : ∀ f ∈ fields, Lemmas.C03.SchemaOKF f)
    (hplain : ∀ f ∈ fields, Lemmas.C03.PlainF f)
    (hsafe : (∀ root0, newRoot fields = .ok root0 → Safe root0) ∨ fields.all (Lemmas.C03.coveredPF true) = true)
    (hrows : ∀ x ∈ rows, x.typed = true)
    (h : toMarrow (codecExt f32Str f64Str cast) fields rows = .ok arrs) :
    arrs.length = fields.length ∧
    ∀ (j : Nat) (f : Field) (a : Arr), fields[j]? = some f → arrs[j]? = some a →
      WF f a = true ∧ (decodeAll a).length = rows.length :=
  C03_wf_codec'' f32Str f64Str cast fields rows arrs hschema hplain hsafe (fun x hx => typed_SValOK x (hrows x hx)) h

/-- … for a traced schema -/
theorem C03_wf_traced'' (c : Trace.Code) (O : Trace.Options) (ty : Trace.Ty)
    (f32Str f64Str : Nat → String) (cast : Nat → Int → Bool → Nat → Option (Bool × Int))
    (fields : List Field) (rows : List SVal) (arrs : List Arr)
    (ho : ∀ kv ∈ O.overwrites, Lemmas.C03.GoodF kv.2) (hft : Trace.fromType c O ty = .ok fields)
    (hplain : ∀ f ∈ fields, Lemmas.C03.PlainF f)
    (hsafe : (∀ root0, newRoot fields = .ok root0 → Safe root0) ∨ fields.all (Lemmas.C03.coveredPF true) = true)
    (hrows : ∀ x ∈ rows, x.typed = true)
    (h : toMarrow (codecExt f32Str f64Str cast) fields rows = .ok arrs) :
    arrs.length = fields.length ∧
    ∀ (j : Nat) (f : Field) (a : Arr), fields[j]? = some f → arrs[j]? = some a →
      WF f a = true ∧ (decodeAll a).length = rows.length :=
  C03_wf_codec_typed'' f32Str f64Str cast fields rows arrs (fromType_good c O ty fields ho hft).1 hplain hsafe hrows h

/-- the former codec statement is the special case -/
theorem C03_wf_codec_of'' (f32Str f64Str : Nat → String) (cast : Nat → Int → Bool → Nat → Option (Bool × Int))
    (fields : List Field) (rows : List SVal) (arrs : List Arr)
    (hschema : ∀ f ∈ fields, Lemmas.C03.SchemaOKF f)
    (hplain : ∀ f ∈ fields, Lemmas.C03.PlainF f)
    (hsafe : (∀ root0, newRoot fields = .ok root0 → Safe root0) ∨ fields.all Build.coveredF = true)
    (hrows : ∀ x ∈ rows, Lemmas.C03.SValOK x)
    (h : toMarrow (codecExt f32Str f64Str cast) fields rows = .ok arrs) :
    arrs.length = fields.length ∧
    ∀ (j : Nat) (f : Field) (a : Arr), fields[j]? = some f → arrs[j]? = some a →
      WF f a = true ∧ (decodeAll a).length = rows.length :=
  C03_wf_codec'' f32Str f64Str cast fields rows arrs hschema hplain (hsafe.imp id Props.C01.coveredPF_of_coveredF) hrows h

/-- **C01 with the codec models plugged in, on `coveredWF`** -/
theorem C01_build_decode_codec'' (f32Str f64Str : Nat → String) (cast : Nat → Int → Bool → Nat → Option (Bool × Int))
    (fields : List Field) (rows : List SVal) (arrs : List Arr)
    (hschema : ∀ f ∈ fields, Lemmas.C03.SchemaOKF f)
    (hcov : fields.all Build.coveredWF = true)
    (hraw : ∀ x ∈ rows, Build.noRaw x = true)
    (h : toMarrow (codecExt f32Str f64Str cast) fields rows = .ok arrs) :
    arrs.length = fields.length ∧
    ∃ cols : List (String × List LVal),
      arrs.map decodeAll = cols.map (fun c => c.2.map .ok) ∧
      cols.map (·.1) = fields.map (·.name) ∧
      (∀ c ∈ cols, c.2.length = rows.length) ∧
      ∀ (i : Nat) (hi : i < rows.length),
        interpRow (codecExt f32Str f64Str cast) fields rows[i] =
          .ok (.struct (LFields.ofList (cols.map fun c => (c.1, c.2.getD i .null)))) :=
  Props.C01.C01_build_decode'' _ fields rows arrs hschema hcov (fun x hx => Build.noRaw_ssa x (hraw x hx)) (Or.inl hraw) h

/-! ### non-vacuity OUTSIDE `Safe`, with a PARSED value type

`{s: Struct{d: Dictionary(UInt8, Date32)}?}` — non-nullable keys below a nullable struct, values parsed by the codec model.
Records `None`, `{d: "1970-01-11"}`, `None`, `{d: "1970-01-11"}`, `{d: "2024-02-29"}`. -/

def exDateDictFields : List Field :=
  [.mk "s" (.struct (.cons (.mk "d" (.dictionary .uint8 .date32) false []) .nil)) true []]
def exDateDictRows : List SVal :=
  [.record "R" (.cons "s" 0 .none .nil),
   .record "R" (.cons "s" 0 (.some (.record "S" (.cons "d" 0 (.str "1970-01-11") .nil))) .nil),
   .record "R" (.cons "s" 0 .none .nil),
   .record "R" (.cons "s" 0 (.some (.record "S" (.cons "d" 0 (.str "1970-01-11") .nil))) .nil),
   .record "R" (.cons "s" 0 (.some (.record "S" (.cons "d" 0 (.str "2024-02-29") .nil))) .nil)]

theorem exDateDict_not_safe : ∀ root0, newRoot exDateDictFields = .ok root0 → ¬ Safe root0 := by
  intro root0 h0
  rw [show newRoot exDateDictFields = .ok (.struct "$" 0 none
    (.cons (.struct "$.s" 0 (some [])
        (.cons (.dictionary "$.s.d" (.leaf "$.s.d.key" (.int .u8) none []) (.leaf "$.s.d.value" .date32 none []) [])
          ⟨"d", false, []⟩ .nil) [none] 0 [false]) ⟨"s", true, []⟩ .nil) [none] 0 [false]) from by decide] at h0
  cases h0
  simp [Safe, SafeL, DefSafe, DefSafeL, B.isNullable]

theorem exDateDict_ok : (toMarrow exExt exDateDictFields exDateDictRows).isOk = true := by decide +kernel

example : exDateDictFields.all (Lemmas.C03.coveredPF true) = true ∧
    exDateDictFields.all (Lemmas.C03.coveredPF false) = false ∧ exDateDictFields.all Build.coveredWF = false := by
  decide +kernel

/-- every hypothesis of `C03_wf_codec''` discharged, through the second alternative -/
example : ∀ arrs, toMarrow exExt exDateDictFields exDateDictRows = .ok arrs →
    arrs.length = exDateDictFields.length ∧ ∀ (j : Nat) (f : Field) (a : Arr), exDateDictFields[j]? = some f →
      arrs[j]? = some a → WF f a = true ∧ (decodeAll a).length = exDateDictRows.length := by
  intro arrs h
  refine C03_wf_codec'' _ _ _ exDateDictFields exDateDictRows arrs ?_ ?_ (Or.inr (by decide +kernel)) ?_ h
  · simp [exDateDictFields, Lemmas.C03.SchemaOKF, Lemmas.C03.SchemaOK, Lemmas.C03.SchemaOKFs]
  · simp [exDateDictFields, Lemmas.C03.PlainF, Lemmas.C03.PlainDT, Lemmas.C03.PlainFs]
  · intro x hx
    simp only [exDateDictRows, List.mem_cons, List.not_mem_nil, or_false] at hx
    rcases hx with rfl | rfl | rfl | rfl | rfl <;>
      simp [Lemmas.C03.SValOK, Lemmas.C03.SFieldsOK, Lemmas.C03.ScalarOK]

/-- what the run holds: two distinct dates (10 and 19782 days), the struct column reads null, 10, null, 10, 19782; with
only hidden rows the run is refused — the placeholder `""` is no date (model and crate alike: `corpus-c01e-placeholder-date32-value`) -/
example : (do let root ← runRows exExt exDateDictFields exDateDictRows; pure (decRoot root) : R (List (List LVal))) =
      .ok [[.null, .struct (.cons "d" (.int 10) .nil), .null, .struct (.cons "d" (.int 10) .nil),
        .struct (.cons "d" (.int 19782) .nil)]] ∧
    (toMarrow exExt exDateDictFields [.record "R" (.cons "s" 0 .none .nil)]).isErr = true := by decide +kernel

/-! ### the content half at the value types outside `coveredW`: what holds without a new state invariant -/

/-- **R2' at `Dictionary(integer, V)`, `V` ∈ {Utf8View, Date32, Date64, Time32, Time64, Timestamp, Duration, Decimal128}, for a string
NEW to the dictionary** — the determined row the push appends is `Spec.interpDictStr ext V s` (the string for Utf8View, the
parsed value otherwise).  PARTIAL: what is missing for R2' (and hence for `C01_build_decode` at these value types) is the case
of a string ALREADY in the index — the row is then `dec vals[i]` for the position `i` of the earlier push, and "values decoded =
index entries interpreted at V" is not part of the state invariant `WFB` / `WFH` (for the parsed kinds it depends on `ext`) — and
a nested dictionary as value type. -/
theorem dict_push_new_interp_partial (ext : Ext) {p : String} {idx vals : B} {index : List String} {x : SVal} {b' : B}
    {lv : LVal} {vdt : DataType} {s : String}
    (hwf : WFH (.dictionary p idx vals index)) (hil : idx.isIntLeaf = true)
    (hsv : Shape vals vdt false []) (hfv : vals.isFlat = true) (hv : dictValFlatOpen vdt = true)
    (hs : scalarToString ext x = some s) (hnew : indexOfName index s = none)
    (h : pushScalar ext (.dictionary p idx vals index) x = .ok b')
    (hd : Refines (decH b') (decH (.dictionary p idx vals index) ++ [some lv])) :
    interpDictStr ext vdt s = .ok lv :=
  Build.dict_push_new_interp_partial ext hwf hil hsv hfv hv hs hnew h hd

/-- non-vacuity: a `Dictionary(UInt8, Date32)` builder that already holds "1970-01-11" takes the NEW string "2024-02-29": the row
appended is the date 19782 -/
def exDateDictB : B :=
  .dictionary "$.d" (.leaf "$.d.key" (.int .u8) none [0]) (.leaf "$.d.value" .date32 none [10]) ["1970-01-11"]

example : ∃ b' lv, pushScalar exExt exDateDictB (.str "2024-02-29") = .ok b' ∧
    Refines (decH b') (decH exDateDictB ++ [some lv]) ∧ interpDictStr exExt .date32 "2024-02-29" = .ok lv ∧ lv = .int 19782 := by
  have hwf : WFH exDateDictB := by
    apply WFH_of_WFB
    simp [exDateDictB, WFB, VLen, DictVals, B.isUtf8B, B.refusesStr, dec, maskNull, leafVal]
  have hnd : NoDictKey exDateDictB := by simp [exDateDictB, NoDictKey, B.isDict]
  have hok : (pushScalar exExt exDateDictB (.str "2024-02-29")).isOk = true := by decide +kernel
  cases hp : pushScalar exExt exDateDictB (.str "2024-02-29") with
  | error e => rw [hp] at hok; cases hok
  | ok b' =>
    obtain ⟨_, lv, hd⟩ := pushScalar_refines exExt exDateDictB _ b' hwf hnd hp
    have hi := dict_push_new_interp_partial exExt (vdt := .date32) (s := "2024-02-29") hwf rfl
      (by simp [Shape, kindOf]) rfl rfl rfl (by decide) hp hd
    refine ⟨b', lv, rfl, hd, hi, ?_⟩
    have : interpDictStr exExt .date32 "2024-02-29" = .ok (.int 19782) := by decide +kernel
    rw [this] at hi
    exact (Except.ok.inj hi).symm

end SaModel.Props.C03
