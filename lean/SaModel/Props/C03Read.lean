import SaModel.Props.C03
import SaModel.Props.C01Obs
import SaModel.Props.C02
import SaModel.Lemmas.C03Read
import SaModel.Lemmas.C03ReadUtf8
import SaModel.Lemmas.C03ReadPhys
import SaModel.Lemmas.C04Root
/-
C03 → C02 bridge: arrays that serde_arrow BUILDS satisfy everything the reader theorems assume.

The read-back theorems (`Props.C02.read_any_decode`, `read_typed_decode`) carry three reader-side preconditions:
`Read.new Fixes.all a = ok ()` (the reader can be constructed), `Read.physical a` (lengths representable),
`Read.utf8Ok lv` (decoded strings are valid UTF-8).  Here they are DERIVED from `Spec.WFS` — which `C03_wfS'` proves of every
array `to_marrow` returns — and composed with `Props.C01.C01_build_decode'` (the hidden-rows refinement, Props/C01Obs.lean:
NO `Safe` hypothesis; the theorems that have `coveredF` among their hypotheses carry nothing in its place, the two that do
not — `toMarrow_readable`, `toMarrow_physical_partial` — carry exactly the hypothesis of `C03_wfS'`, `Safe ∨ coveredF`):

  wf_new              WFS f a, `readableDT f.dataType`      ⇒  Read.new Fixes.all a = ok ()
  wf_utf8             WFS f a, decodeAt a i = ok lv          ⇒  utf8Ok lv                       (no further hypothesis)
  wf_physical_partial WFS f a, `physFreeDT f.dataType`      ⇒  Read.physical a   (PARTIAL: types without FixedSizeList /
                      Dictionary; `wf_not_physical`: WFS alone does not bound the sizes `physical` speaks about)
  wf_dense / wf_dict_values_not_null   what the reader refuses and the builders never produce (sparse unions, nullable
                      dictionary values): excluded by WFS itself
  toMarrow_readable   every array of `to_marrow` is accepted by `ArrayDeserializer::new`, has `rows.length` rows for the
                      reader (`vlen`), only decodes to valid UTF-8, and is `physical` (same restriction)
  toMarrow_readAny    reading back what was built gives the documented value of the input: `readAny arrs[j] i` is the
                      `toD` rendering of field `j` of `interpRow ext fields rows[i]` — NO reader-side hypothesis
  toMarrow_readRecord the record-level form through `Access.new` / the root struct reader (`Roundtrip.readRecord .any`)

`readableDT` (Lemmas/C03Read.lean) is a predicate on the SCHEMA: the types the reader supports although the builders
accept more — UTC-or-no time zone (refused by both sides in fact), Dictionary(integer, Utf8 | LargeUtf8) only, known
`SERDE_ARROW:strategy` values on child fields.
-/
namespace SaModel.Props.C03
open SaModel SaModel.Build SaModel.Spec

open SaModel.Lemmas.C03 (readableDT readableF readableFs physFreeDT)

/-- **`wf_new`**: `ArrayDeserializer::new` accepts every well-formed array of a field whose type the reader supports —
every array kind, any nesting (generalises `Roundtrip.new_of_wf`, which was for traced enum-free schemas) -/
theorem wf_new (f : Field) (a : Arr) (hr : readableDT f.dataType = true) (h : WFS f a = true) :
    Read.new Read.Fixes.all a = .ok () := Lemmas.C03.WF_new f a hr h

/-- **`wf_utf8`**: every string inside the logical value of any slot of a well-formed array is valid UTF-8 -/
theorem wf_utf8 (f : Field) (a : Arr) (i : Nat) (lv : LVal) (h : WFS f a = true) (hd : decodeAt a i = .ok lv) :
    Read.utf8Ok lv = true := Lemmas.C03.WF_utf8 f a i lv h hd

/-- **`wf_physical_partial`**: `Read.physical` from well-formedness — PARTIAL: only for types without FixedSizeList and
Dictionary.  What is missing: the two size clauses of `Read.physical` (FixedSizeList child ≤ `usize::MAX` slots, dictionary
values ≤ `i64::MAX`) for those types; they do NOT follow from `Spec.WFS` (`wf_not_physical`) and the builder model has
unbounded counters, so they need a size hypothesis on the input or an invariant on the number of distinct dictionary
values (not done). -/
theorem wf_physical_partial (f : Field) (a : Arr) (hp : physFreeDT f.dataType = true) (h : WFS f a = true) :
    Read.physical a = true := Lemmas.C03.WF_physical_plain f a hp h

/-- `Spec.WFS` alone does not give `Read.physical` (witness: FixedSizeList<Null, 2> of 2^63 rows) -/
theorem wf_not_physical :
    let f : Field := .mk "c" (.fixedSizeList (.mk "element" .null false []) 2) false []
    let a : Arr := .fixedSizeList (2 ^ 63) none 2 ⟨"element", false, []⟩ (.null (2 ^ 64))
    WFS f a = true ∧ Read.physical a = false := Lemmas.C03.wf_not_physical

/-- the builders never produce a SPARSE union (the reader only supports dense ones): excluded by `WFS`, hence by `C03_wfS` -/
theorem wf_dense (f : Field) (types : List Int) (cols : ArrUFields) : WFS f (.union types none cols) = false := by
  rcases f with ⟨n, dt, nl, md⟩
  cases dt <;> simp [WFS, Field.dataType, Field.nullable, wf]

/-- the builders never produce a dictionary whose VALUES carry a validity bitmap (the reader refuses nullable values) -/
theorem wf_dict_values_not_null (f : Field) (ks : Arr) (ty : BytesTy) (b : Bits) (offs : List Int) (data : Bytes) :
    WFS f (.dictionary ks (.bytes ty (some b) offs data)) = false := by
  rcases f with ⟨n, dt, nl, md⟩
  cases dt <;> simp only [WFS, Field.dataType, Field.nullable, wf]
  rename_i k v
  cases hv : wf v false (.bytes ty (some b) offs data) with
  | false => simp
  | true =>
    exfalso
    cases v <;> cases ty <;> simp [wf, validityOk] at hv

/-! ### the arrays `to_marrow` returns are readable -/

/-- **`toMarrow_readable`**.  Under the hypotheses of `C03_wfS'` and for a schema the reader supports (`readableDT`), every
array `to_marrow` returns is accepted by `ArrayDeserializer::new`, holds `rows.length` rows as far as the reader is
concerned (`ViewExt::len`), decodes to valid UTF-8 only, and — for types without FixedSizeList / Dictionary — has
representable lengths.  `hsafe` is the hypothesis of `Props.C01.C03_wfS'`: `Safe` OR `coveredF` (both decidable on the
schema; what is excluded is a dictionary with NON-nullable keys and a value type other than Utf8 / LargeUtf8 below a
nullable struct / fixed-size list).  The composed theorems below have `coveredF` anyway and carry no `Safe`. -/
theorem toMarrow_readable (ext : Ext) (fields : List Field) (rows : List SVal) (arrs : List Arr)
    (hschema : ∀ f ∈ fields, Lemmas.C03.SchemaOKF f)
    (hsafe : (∀ root0, newRoot fields = .ok root0 → Safe root0) ∨ fields.all Build.coveredF = true)
    (hext : Lemmas.C03.ExtOK ext)
    (hrows : ∀ x ∈ rows, Lemmas.C03.SValOK x)
    (hread : ∀ f ∈ fields, readableDT f.dataType = true)
    (h : toMarrow ext fields rows = .ok arrs) :
    arrs.length = fields.length ∧
    ∀ (j : Nat) (f : Field) (a : Arr), fields[j]? = some f → arrs[j]? = some a →
      Read.new Read.Fixes.all a = .ok () ∧ Read.vlen a = rows.length ∧
      (∀ i lv, decodeAt a i = .ok lv → Read.utf8Ok lv = true) ∧
      (physFreeDT f.dataType = true → Read.physical a = true) := by
  obtain ⟨hlen, hwf⟩ := Props.C01.C03_wfS' ext fields rows arrs hschema hsafe hext hrows h
  refine ⟨hlen, ?_⟩
  intro j f a hf ha
  obtain ⟨hw, hl⟩ := hwf j f a hf ha
  have hmem : f ∈ fields := List.mem_of_getElem? hf
  have hnew := wf_new f a (hread f hmem) hw
  refine ⟨hnew, ?_, fun i lv hd => wf_utf8 f a i lv hw hd, fun hp => wf_physical_partial f a hp hw⟩
  rw [Roundtrip.vlen_eq_lenOf a hnew, ← (Spec.decodeAll_spec a).1, hl]

/-- slot `i` of column `j`, from the column-wise statement of `C01_build_decode` -/
theorem col_decodeAt {arrs : List Arr} {cols : List (String × List LVal)} {n : Nat}
    (hc1 : arrs.map decodeAll = cols.map (fun c => c.2.map .ok)) (hc3 : ∀ c ∈ cols, c.2.length = n)
    (j : Nat) (hj : j < arrs.length) (i : Nat) (hi : i < n) :
    ∃ (hjc : j < cols.length) (hli : i < cols[j].2.length), decodeAt arrs[j] i = .ok cols[j].2[i] := by
  have hcl : cols.length = arrs.length := by
    have := congrArg List.length hc1; simpa using this.symm
  have hjc : j < cols.length := by omega
  have hcol : decodeAll arrs[j] = cols[j].2.map .ok := by
    have := congrArg (fun l => l[j]?) hc1
    simpa [List.getElem?_map, List.getElem?_eq_getElem hj, List.getElem?_eq_getElem hjc] using this
  have hli : i < cols[j].2.length := by rw [hc3 _ (List.getElem_mem hjc)]; exact hi
  refine ⟨hjc, hli, ?_⟩
  rw [Roundtrip.decodeAt_of_decodeAll arrs[j] cols[j].2 i hcol hli]
  simp [List.getD, List.getElem?_eq_getElem hli]

/-- `toMarrow_readAny` with the size precondition as a hypothesis on the arrays (for schemas with FixedSizeList /
Dictionary columns, where `physical` is not derived).  PARTIAL: `hphys` remains. -/
theorem toMarrow_readAny_partial (ext : Ext) (fields : List Field) (rows : List SVal) (arrs : List Arr)
    (hschema : ∀ f ∈ fields, Lemmas.C03.SchemaOKF f)
    (hcov : fields.all Build.coveredF = true)
    (hraw : ∀ x ∈ rows, Build.noRaw x = true)
    (hext : Lemmas.C03.ExtOK ext)
    (hrows : ∀ x ∈ rows, Lemmas.C03.SValOK x)
    (hread : ∀ f ∈ fields, readableDT f.dataType = true)
    (hphys : ∀ a ∈ arrs, Read.physical a = true)
    (h : toMarrow ext fields rows = .ok arrs) :
    arrs.length = fields.length ∧
    ∃ cols : List (String × List LVal), cols.length = arrs.length ∧
      cols.map (·.1) = fields.map (·.name) ∧
      (∀ (i : Nat) (hi : i < rows.length),
        interpRow ext fields rows[i] = .ok (.struct (LFields.ofList (cols.map fun c => (c.1, c.2.getD i .null))))) ∧
      ∀ (j : Nat) (hj : j < arrs.length) (i : Nat), i < rows.length →
        ∃ lv, (cols[j]?.map (·.2[i]?)) = some (some lv) ∧
          Read.readAny Read.Fixes.all arrs[j] i = .ok (Read.toD arrs[j] lv) := by
  obtain ⟨hlen, cols, hc1, hc2, hc3, hc4⟩ := Props.C01.C01_build_decode' ext fields rows arrs hschema hcov (fun x hx => Build.noRaw_ssa x (hraw x hx)) (Or.inl hraw) h
  obtain ⟨_, hrd⟩ := toMarrow_readable ext fields rows arrs hschema (Or.inr hcov) hext hrows hread h
  have hcl : cols.length = arrs.length := by
    have := congrArg List.length hc1; simpa using this.symm
  refine ⟨hlen, cols, hcl, hc2, hc4, ?_⟩
  intro j hj i hi
  obtain ⟨hjc, hli, hdec⟩ := col_decodeAt hc1 hc3 j hj i hi
  have hjf : j < fields.length := by omega
  obtain ⟨hnew, _, hutf, _⟩ := hrd j fields[j] arrs[j] (List.getElem?_eq_getElem hjf) (List.getElem?_eq_getElem hj)
  refine ⟨cols[j].2[i], by simp [List.getElem?_eq_getElem hjc, List.getElem?_eq_getElem hli], ?_⟩
  exact Props.C02.read_any_decode arrs[j] i _ hdec hnew (hphys _ (List.getElem_mem hj)) (hutf i _ hdec)

/-- every array is `physical` when no field has a FixedSizeList / Dictionary -/
theorem toMarrow_physical_partial (ext : Ext) (fields : List Field) (rows : List SVal) (arrs : List Arr)
    (hschema : ∀ f ∈ fields, Lemmas.C03.SchemaOKF f)
    (hsafe : (∀ root0, newRoot fields = .ok root0 → Safe root0) ∨ fields.all Build.coveredF = true)
    (hext : Lemmas.C03.ExtOK ext)
    (hrows : ∀ x ∈ rows, Lemmas.C03.SValOK x)
    (hfree : ∀ f ∈ fields, physFreeDT f.dataType = true)
    (h : toMarrow ext fields rows = .ok arrs) : ∀ a ∈ arrs, Read.physical a = true := by
  obtain ⟨hlen, hwf⟩ := Props.C01.C03_wfS' ext fields rows arrs hschema hsafe hext hrows h
  intro a ha
  obtain ⟨j, hj, rfl⟩ := List.getElem_of_mem ha
  have hjf : j < fields.length := by omega
  have := hwf j fields[j] arrs[j] (List.getElem?_eq_getElem hjf) (List.getElem?_eq_getElem hj)
  exact wf_physical_partial _ _ (hfree _ (List.getElem_mem hjf)) this.1

/-- **`toMarrow_readAny`** — reading back what was built gives the documented value of the input.  Whenever `to_marrow`
returns arrays, slot `i` of array `j`, read with `deserialize_any`, is the `toD` rendering of the `j`-th field of
`interpRow ext fields rows[i]` (`cols`: the decoded columns of `C01_build_decode`).  NO reader-side hypothesis: the
hypotheses are those of `C01_build_decode'` and `C03_wfS'` (schema: `SchemaOKF`, `coveredF` — NO `Safe`; rows: `noRaw`,
`SValOK`; `ExtOK`), plus the two schema conditions of this file — `readableDT` (types the reader supports) and `physFreeDT` (no
FixedSizeList / Dictionary: the part of `Read.physical` that is derived; `toMarrow_readAny_partial` is the statement for
all readable schemas with `physical` as a hypothesis). -/
theorem toMarrow_readAny (ext : Ext) (fields : List Field) (rows : List SVal) (arrs : List Arr)
    (hschema : ∀ f ∈ fields, Lemmas.C03.SchemaOKF f)
    (hcov : fields.all Build.coveredF = true)
    (hraw : ∀ x ∈ rows, Build.noRaw x = true)
    (hext : Lemmas.C03.ExtOK ext)
    (hrows : ∀ x ∈ rows, Lemmas.C03.SValOK x)
    (hread : ∀ f ∈ fields, readableDT f.dataType = true)
    (hfree : ∀ f ∈ fields, physFreeDT f.dataType = true)
    (h : toMarrow ext fields rows = .ok arrs) :
    arrs.length = fields.length ∧
    ∃ cols : List (String × List LVal), cols.length = arrs.length ∧
      cols.map (·.1) = fields.map (·.name) ∧
      (∀ (i : Nat) (hi : i < rows.length),
        interpRow ext fields rows[i] = .ok (.struct (LFields.ofList (cols.map fun c => (c.1, c.2.getD i .null))))) ∧
      ∀ (j : Nat) (hj : j < arrs.length) (i : Nat), i < rows.length →
        ∃ lv, (cols[j]?.map (·.2[i]?)) = some (some lv) ∧
          Read.readAny Read.Fixes.all arrs[j] i = .ok (Read.toD arrs[j] lv) :=
  toMarrow_readAny_partial ext fields rows arrs hschema hcov hraw hext hrows hread
    (toMarrow_physical_partial ext fields rows arrs hschema (Or.inr hcov) hext hrows hfree h) h

/-! ### the record level: `Deserializer::from_marrow(fields, arrays)` + item `i` -/

theorem readableFs_ofList : ∀ (l : List Field), (∀ f ∈ l, readableF f = true) → readableFs (Fields.ofList l) = true
  | [], _ => by simp [Fields.ofList, Lemmas.C03.readableFs]
  | f :: r, h => by
    simp [Fields.ofList, Lemmas.C03.readableFs, h f (by simp), readableFs_ofList r (fun g hg => h g (by simp [hg]))]

/-- record-level core with `physical` as a hypothesis (PARTIAL: `hphys` remains for FixedSizeList / Dictionary columns) -/
theorem toMarrow_readRecord_partial (ext : Ext) (fields : List Field) (rows : List SVal) (arrs : List Arr)
    (hschema : ∀ f ∈ fields, Lemmas.C03.SchemaOKF f)
    (hcov : fields.all Build.coveredF = true)
    (hraw : ∀ x ∈ rows, Build.noRaw x = true)
    (hext : Lemmas.C03.ExtOK ext)
    (hrows : ∀ x ∈ rows, Lemmas.C03.SValOK x)
    (hread : ∀ f ∈ fields, readableF f = true)
    (hne : fields ≠ [])
    (hphys : ∀ a ∈ arrs, Read.physical a = true)
    (h : toMarrow ext fields rows = .ok arrs) :
    Access.new true fields.length (arrs.map Read.vlen) = .ok rows.length ∧
    Read.new Read.Fixes.all (Roundtrip.rootArr fields arrs rows.length) = .ok () ∧
    ∀ (i : Nat) (hi : i < rows.length), ∃ lv, interpRow ext fields rows[i] = .ok lv ∧
      Roundtrip.readRecord .any fields arrs i = .ok (Read.toD (Roundtrip.rootArr fields arrs rows.length) lv) := by
  obtain ⟨hlen, cols, hc1, hc2, hc3, hc4⟩ := Props.C01.C01_build_decode' ext fields rows arrs hschema hcov (fun x hx => Build.noRaw_ssa x (hraw x hx)) (Or.inl hraw) h
  obtain ⟨_, hwf⟩ := Props.C01.C03_wfS' ext fields rows arrs hschema (Or.inr hcov) hext hrows h
  have hcols : Spec.wfFields (Fields.ofList fields) (Roundtrip.zipCols fields arrs) rows.length = true :=
    Roundtrip.zip_wf rows.length fields arrs hlen hwf
  have hnewF : Read.newFields Read.Fixes.all (Roundtrip.zipCols fields arrs) = .ok () :=
    Lemmas.C03.wfFields_new _ _ _ (readableFs_ofList fields hread) hcols
  have hnonempty : arrs ≠ [] := by
    intro he
    rw [he] at hlen
    exact hne (List.length_eq_zero_iff.mp hlen.symm)
  have hlens : ∀ x ∈ arrs.map Read.vlen, x = rows.length := by
    rw [Roundtrip.zip_vlen fields arrs hlen hnewF]
    intro x hx
    obtain ⟨a, ha, rfl⟩ := List.mem_map.mp hx
    obtain ⟨j, hj, rfl⟩ := List.getElem_of_mem ha
    have hjf : j < fields.length := by omega
    have := (hwf j fields[j] arrs[j] (List.getElem?_eq_getElem hjf) (List.getElem?_eq_getElem hj)).2
    rw [← (Spec.decodeAll_spec arrs[j]).1, this]
  have hacc : Access.new true fields.length (arrs.map Read.vlen) = .ok rows.length :=
    Roundtrip.access_new rows.length _ _ (by simp [hlen]) (by simpa using hnonempty) hlens
  have hnew : Read.new Read.Fixes.all (Roundtrip.rootArr fields arrs rows.length) = .ok () := by
    simpa [Roundtrip.rootArr, Read.new] using hnewF
  have hwfroot : Spec.wf (.struct (Fields.ofList fields)) false (Roundtrip.rootArr fields arrs rows.length) = true := by
    simp [Roundtrip.rootArr, Spec.wf, Spec.validityOk, hcols]
  refine ⟨hacc, hnew, ?_⟩
  intro i hi
  refine ⟨_, hc4 i hi, ?_⟩
  have hdec : Spec.decodeAt (Roundtrip.rootArr fields arrs rows.length) i =
      .ok (.struct (LFields.ofList (cols.map fun c => (c.1, c.2.getD i .null)))) := by
    have hz := Roundtrip.zip_decode i fields arrs cols hc1 hc2 (fun c' hc' => by rw [hc3 c' hc']; exact hi)
    simp only [Roundtrip.rootArr, Spec.decodeAt, hi, if_true, Spec.withValidity, Spec.isValid, hz, bind, Except.bind, pure,
      Except.pure]
    simp
  have hread1 := Props.C02.read_any_decode _ i _ hdec hnew
    (by simpa [Roundtrip.rootArr, Read.physical] using Roundtrip.zip_physical fields arrs hphys)
    (Lemmas.C03.wf_utf8 _ _ _ i _ hwfroot hdec)
  simp only [Roundtrip.readRecord, hacc, bind, Except.bind]
  rw [hnew]
  simp only [Access.getIdx, ge_iff_le, Nat.not_le.mpr hi, if_false]
  simpa [Read.readAs] using hread1

/-- **`toMarrow_readRecord`** — the record-level form: `Deserializer::from_marrow(fields, arrays)` accepts the built columns
(`Access.new`: as many arrays as fields, all of `rows.length` rows; the root struct reader can be constructed) and reading
record `i` with `deserialize_any` returns the `toD` rendering of `interpRow ext fields rows[i]` — the documented value of
the `i`-th input record.  No reader-side hypothesis; `readableF` also asks the TOP-LEVEL fields' strategy metadata to be
known (the root reader parses it); `physFreeDT` as in `toMarrow_readAny`. -/
theorem toMarrow_readRecord (ext : Ext) (fields : List Field) (rows : List SVal) (arrs : List Arr)
    (hschema : ∀ f ∈ fields, Lemmas.C03.SchemaOKF f)
    (hcov : fields.all Build.coveredF = true)
    (hraw : ∀ x ∈ rows, Build.noRaw x = true)
    (hext : Lemmas.C03.ExtOK ext)
    (hrows : ∀ x ∈ rows, Lemmas.C03.SValOK x)
    (hread : ∀ f ∈ fields, readableF f = true)
    (hfree : ∀ f ∈ fields, physFreeDT f.dataType = true)
    (hne : fields ≠ [])
    (h : toMarrow ext fields rows = .ok arrs) :
    Access.new true fields.length (arrs.map Read.vlen) = .ok rows.length ∧
    Read.new Read.Fixes.all (Roundtrip.rootArr fields arrs rows.length) = .ok () ∧
    ∀ (i : Nat) (hi : i < rows.length), ∃ lv, interpRow ext fields rows[i] = .ok lv ∧
      Roundtrip.readRecord .any fields arrs i = .ok (Read.toD (Roundtrip.rootArr fields arrs rows.length) lv) :=
  toMarrow_readRecord_partial ext fields rows arrs hschema hcov hraw hext hrows hread hne
    (toMarrow_physical_partial ext fields rows arrs hschema (Or.inr hcov) hext hrows hfree h) h

/-! ### non-vacuity -/

/-- `wf_new` / `wf_utf8` on a concrete nullable dictionary column with a two-byte UTF-8 sequence and a list of unions:
the hypotheses hold (computed) and the conclusions are the computed facts -/
example :
    let f : Field := .mk "d" (.dictionary .int8 .utf8) true []
    let a : Arr := .dictionary (.prim .int8 (some ⟨[0b101], 0⟩) [1, 0, 0]) (.bytes .utf8 none [0, 1, 3] [97, 0xC3, 0xA9])
    WFS f a = true ∧ readableDT f.dataType = true ∧ decodeAt a 0 = .ok (.str [0xC3, 0xA9]) ∧
      Read.new Read.Fixes.all a = .ok () ∧ Read.utf8Ok (.str [0xC3, 0xA9]) = true := by decide

example :
    let u : Field := .mk "u" (.union (.cons 0 (.mk "N" .null true []) (.cons 1 (.mk "S" .largeUtf8 false []) .nil)) .dense) false []
    let f : Field := .mk "l" (.largeList u) false []
    let a : Arr := .list true none [0, 2, 3] ⟨"u", false, []⟩
      (.union [1, 0, 1] (some [0, 0, 1]) (.cons 0 ⟨"N", true, []⟩ (.null 1)
        (.cons 1 ⟨"S", false, []⟩ (.bytes .largeUtf8 none [0, 1, 1] [120]) .nil)))
    WFS f a = true ∧ readableDT f.dataType = true ∧ physFreeDT f.dataType = true ∧
      Read.new Read.Fixes.all a = .ok () ∧ Read.physical a = true := by decide

/-- the reader refuses what `readableDT` excludes although the array is well formed: an unknown strategy on a child field,
a dictionary of dates (both accepted by `build_builder`) -/
example :
    let f : Field := .mk "l" (.list (.mk "element" .int8 false [("SERDE_ARROW:strategy", "Nope")])) false []
    let a : Arr := .list false none [0] ⟨"element", false, [("SERDE_ARROW:strategy", "Nope")]⟩ (.prim .int8 none [])
    let g : Field := .mk "d" (.dictionary .int8 .date32) false []
    let b : Arr := .dictionary (.prim .int8 none [0]) (.prim .date32 none [7])
    WFS f a = true ∧ readableDT f.dataType = false ∧ (Read.new Read.Fixes.all a).isOk = false ∧
    WFS g b = true ∧ readableDT g.dataType = false ∧ (Read.new Read.Fixes.all b).isOk = false := by decide

/-- `toMarrow_readRecord` / `toMarrow_readAny` on the worked instance of Props/C03.lean (`{a: Int32?, l: List<Int8>}`, two
records): every hypothesis discharged, so reading the built arrays back returns the documented values unconditionally -/
example : ∀ arrs, toMarrow {} exFields exRows = .ok arrs →
    Access.new true exFields.length (arrs.map Read.vlen) = .ok exRows.length ∧
    (∀ (i : Nat) (hi : i < exRows.length), ∃ lv, interpRow {} exFields exRows[i] = .ok lv ∧
      Roundtrip.readRecord .any exFields arrs i = .ok (Read.toD (Roundtrip.rootArr exFields arrs exRows.length) lv)) ∧
    ∃ cols : List (String × List LVal), cols.length = arrs.length ∧
      ∀ (j : Nat) (hj : j < arrs.length) (i : Nat), i < exRows.length →
        ∃ lv, (cols[j]?.map (·.2[i]?)) = some (some lv) ∧
          Read.readAny Read.Fixes.all arrs[j] i = .ok (Read.toD arrs[j] lv) := by
  intro arrs h
  have hschema : ∀ f ∈ exFields, Lemmas.C03.SchemaOKF f := by
    simp [exFields, Lemmas.C03.SchemaOKF, Lemmas.C03.SchemaOK]
  have hext : Lemmas.C03.ExtOK {} := by constructor <;> (intros; rename_i h; cases h)
  have hrows : ∀ x ∈ exRows, Lemmas.C03.SValOK x := by
    simp [exRows, Lemmas.C03.SValOK, Lemmas.C03.SFieldsOK, Lemmas.C03.SValsOK, Lemmas.C03.ScalarOK, IntTy.inRange,
      IntTy.min, IntTy.max]
  have hcov : exFields.all Build.coveredF = true := by decide
  have hraw : ∀ x ∈ exRows, Build.noRaw x = true := by decide
  have hread : ∀ f ∈ exFields, readableF f = true := by decide
  have hfree : ∀ f ∈ exFields, physFreeDT f.dataType = true := by decide
  obtain ⟨h1, _, h3⟩ := toMarrow_readRecord {} exFields exRows arrs hschema hcov hraw hext hrows hread hfree
    (by simp [exFields]) h
  obtain ⟨_, cols, hc, _, _, h4⟩ := toMarrow_readAny {} exFields exRows arrs hschema hcov hraw hext hrows
    (fun f hf => Lemmas.C03.readableDT_of_F (hread f hf)) hfree h
  exact ⟨h1, h3, cols, hc, h4⟩

/-- `toMarrow_readAny_partial` on the schema OUTSIDE `Safe` of Props/C01Obs.lean (`{s: Struct{d: Dictionary(UInt8, Utf8)}?}`,
records `None`, `{d: "a"}`, `None`: `Props.C01.exUnsafe_not_safe`): every hypothesis discharged, the physical size of the
built arrays computed -/
example : ∀ arrs, toMarrow {} Props.C01.exUnsafeFields Props.C01.exUnsafeRows = .ok arrs → (∀ a ∈ arrs, Read.physical a = true) →
    ∃ cols : List (String × List LVal), cols.length = arrs.length ∧
      ∀ (j : Nat) (hj : j < arrs.length) (i : Nat), i < Props.C01.exUnsafeRows.length →
        ∃ lv, (cols[j]?.map (·.2[i]?)) = some (some lv) ∧
          Read.readAny Read.Fixes.all arrs[j] i = .ok (Read.toD arrs[j] lv) := by
  intro arrs h hphys
  have hext : Lemmas.C03.ExtOK {} := by constructor <;> (intros; rename_i h; cases h)
  obtain ⟨_, cols, hc, _, _, h4⟩ := toMarrow_readAny_partial {} Props.C01.exUnsafeFields Props.C01.exUnsafeRows arrs
    (by simp [Props.C01.exUnsafeFields, Lemmas.C03.SchemaOKF, Lemmas.C03.SchemaOK, Lemmas.C03.SchemaOKFs]) (by decide) (by decide) hext
    (by
      intro x hx
      simp only [Props.C01.exUnsafeRows, List.mem_cons, List.not_mem_nil, or_false] at hx
      rcases hx with rfl | rfl | rfl <;> simp [Lemmas.C03.SValOK, Lemmas.C03.SFieldsOK])
    (by decide) hphys h
  exact ⟨cols, hc, h4⟩

end SaModel.Props.C03
