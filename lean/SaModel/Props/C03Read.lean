import SaModel.Props.C03
import SaModel.Props.C01Obs
import SaModel.Props.C02
import SaModel.Lemmas.C03Read
import SaModel.Lemmas.C03ReadUtf8
import SaModel.Lemmas.C03ReadPhys
import SaModel.Lemmas.C04Root
import SaModel.Lemmas.C03PhysSize
import SaModel.Props.C11Physical
/-
C03 → C02 bridge: arrays that serde_arrow BUILDS satisfy everything the reader theorems assume.

The read-back theorems (`Props.C02.read_any_decode`, `read_typed_decode`) carry three reader-side preconditions:
`Read.new Fixes.all a = ok ()` (the reader can be constructed), `Read.physical a` (lengths representable),
`Read.utf8Ok lv` (decoded strings are valid UTF-8).  Here they are DERIVED for the arrays `to_marrow` returns and composed
with `Props.C01.C01_build_decode'` (the hidden-rows refinement, Props/C01Obs.lean: NO `Safe` hypothesis anywhere in this
file; `toMarrow_readable` carries exactly the hypothesis of `C03_wfS'`, `Safe ∨ coveredF`, the others `coveredF`):

  wf_new              WFS f a, `readableDT f.dataType`      ⇒  Read.new Fixes.all a = ok ()
  wf_utf8             WFS f a, decodeAt a i = ok lv          ⇒  utf8Ok lv                       (no further hypothesis)
  wf_physical_plain   WFS f a, `physFreeDT f.dataType`      ⇒  Read.physical a   (types without FixedSizeList / Dictionary;
                      `wf_not_physical`: `Spec.WFS` alone does not bound the sizes `physical` speaks about)
  toMarrow_physical   ALL types, FixedSizeList and Dictionary included: every array `to_marrow` BUILDS is `Read.physical`
                      when the schema-computed lengths fit — `sizeOKDT f.dataType rows.length`, a decidable predicate on
                      (schema, number of records): FixedSizeList<_, n> of at most L rows needs `n * L ≤ usize::MAX`, a
                      Dictionary of at most L rows `L ≤ i64::MAX`; L is `rows.length` at the top, `i32::MAX` / `i64::MAX`
                      below a List / Map / LargeList.  From the builders' counting invariant `Cnt` (dictionary values ≤ keys
                      pushed, union per-variant counters ≤ rows: Lemmas/C03PhysCnt.lean), not from `Spec.WFS`.
                      `sizeOK_of_fslFree`: without FixedSizeList the only condition is `rows.length ≤ i64::MAX`.
                      `input_bound_not_enough`: a bound on the INPUT alone cannot do (one `None` into a nested nullable
                      FixedSizeList appends `n1 * n2 * n3` child slots), so the schema has to enter the bound.
  wf_dense / wf_dict_values_not_null   what the reader refuses and the builders never produce (sparse unions, nullable
                      dictionary values): excluded by WFS itself
  toMarrow_readable   every array of `to_marrow` is accepted by `ArrayDeserializer::new`, has `rows.length` rows for the
                      reader (`vlen`), only decodes to valid UTF-8
  toMarrow_readAny    reading back what was built gives the documented value of the input: `readAny arrs[j] i` is the
                      `toD` rendering of field `j` of `interpRow ext fields rows[i]` — NO reader-side hypothesis, every
                      readable type (the size condition is `hsize`, on schema and number of records)
  toMarrow_readRecord the record-level form through `Access.new` / the root struct reader (`Roundtrip.readRecord .any`)
  toMarrow_readAny_of_physical / toMarrow_readRecord_of_physical   the same with `Read.physical` of the arrays as an explicit
                      precondition instead of `hsize` (complete statements; used where `physical` is obtained otherwise)

`readableDT` (Lemmas/C03Read.lean) is a predicate on the SCHEMA: the types the reader supports although the builders
accept more — UTC-or-no time zone (refused by both sides in fact), Dictionary(integer, Utf8 | LargeUtf8) only, known
`SERDE_ARROW:strategy` values on child fields.
-/
namespace SaModel.Props.C03
open SaModel SaModel.Build SaModel.Spec

open SaModel.Lemmas.C03 (readableDT readableF readableFs physFreeDT sizeOKDT fslFreeDT)

/-- **`wf_new`**: `ArrayDeserializer::new` accepts every well-formed array of a field whose type the reader supports —
every array kind, any nesting (generalises `Roundtrip.new_of_wf`, which was for traced enum-free schemas) -/
theorem wf_new (f : Field) (a : Arr) (hr : readableDT f.dataType = true) (h : WFS f a = true) :
    Read.new Read.Fixes.all a = .ok () := Lemmas.C03.WF_new f a hr h

/-- **`wf_utf8`**: every string inside the logical value of any slot of a well-formed array is valid UTF-8 -/
theorem wf_utf8 (f : Field) (a : Arr) (i : Nat) (lv : LVal) (h : WFS f a = true) (hd : decodeAt a i = .ok lv) :
    Read.utf8Ok lv = true := Lemmas.C03.WF_utf8 f a i lv h hd

/-- **`wf_physical_plain`**: `Read.physical` from well-formedness ALONE, for types without FixedSizeList and Dictionary
(a complete statement about `Spec.WFS`: for the two excluded families `Spec.WFS` does not imply `physical`, `wf_not_physical`;
for the arrays `to_marrow` BUILDS `toMarrow_physical` below covers every type). -/
theorem wf_physical_plain (f : Field) (a : Arr) (hp : physFreeDT f.dataType = true) (h : WFS f a = true) :
    Read.physical a = true := Lemmas.C03.WF_physical_plain f a hp h

/-- `Spec.WFS` alone does not give `Read.physical` (witness: FixedSizeList<Null, 2> of 2^63 rows) -/
theorem wf_not_physical :
    let f : Field := .mk "c" (.fixedSizeList (.mk "element" .null false []) 2) false []
    let a : Arr := .fixedSizeList (2 ^ 63) none 2 ⟨"element", false, []⟩ (.null (2 ^ 64))
    WFS f a = true ∧ Read.physical a = false := Lemmas.C03.wf_not_physical

/-- the builders never produce a SPARSE union (the reader only supports dense ones): excluded by `WFS`, hence by `C03_wfS` -/
theorem wf_dense (f : Field) (types : List Int) (cols : ArrUFields) : WFS f (.union types none cols) = false := by
  rcases f with ⟨n, dt, nl, md⟩
  cases dt <;> simp [WFS, Field.dataType, Field.nullable, wf]

/-- the builders never produce a dictionary whose VALUES carry a validity bitmap (the reader refuses nullable values) -/
theorem wf_dict_values_not_null (f : Field) (ks : Arr) (ty : BytesTy) (b : Bits) (offs : List Int) (data : Bytes) :
    WFS f (.dictionary ks (.bytes ty (some b) offs data)) = false := by
  rcases f with ⟨n, dt, nl, md⟩
  cases dt <;> simp only [WFS, Field.dataType, Field.nullable, wf]
  rename_i k v
  cases hv : wf v false (.bytes ty (some b) offs data) with
  | false => simp
  | true =>
    exfalso
    cases v <;> cases ty <;> simp [wf, validityOk] at hv

/-! ### the arrays `to_marrow` returns are readable -/

/-- **`toMarrow_readable`**.  Under the hypotheses of `C03_wfS'` and for a schema the reader supports (`readableDT`), every
array `to_marrow` returns is accepted by `ArrayDeserializer::new`, holds `rows.length` rows as far as the reader is
concerned (`ViewExt::len`), decodes to valid UTF-8 only, and — for types without FixedSizeList / Dictionary — has
representable lengths.  `hsafe` is the hypothesis of `Props.C01.C03_wfS'`: `Safe` OR `coveredF` (both decidable on the
schema; what is excluded is a dictionary with NON-nullable keys and a value type other than Utf8 / LargeUtf8 below a
nullable struct / fixed-size list).  The composed theorems below have `coveredF` anyway and carry no `Safe`. -/
theorem toMarrow_readable (ext : Ext) (fields : List Field) (rows : List SVal) (arrs : List Arr)
    (hschema : ∀ f ∈ fields, Lemmas.C03.SchemaOKF f)
    (hsafe : (∀ root0, newRoot fields = .ok root0 → Safe root0) ∨ fields.all Build.coveredF = true)
    (hext : Lemmas.C03.ExtOK ext)
    (hrows : ∀ x ∈ rows, Lemmas.C03.SValOK x)
    (hread : ∀ f ∈ fields, readableDT f.dataType = true)
    (h : toMarrow ext fields rows = .ok arrs) :
    arrs.length = fields.length ∧
    ∀ (j : Nat) (f : Field) (a : Arr), fields[j]? = some f → arrs[j]? = some a →
      Read.new Read.Fixes.all a = .ok () ∧ Read.vlen a = rows.length ∧
      (∀ i lv, decodeAt a i = .ok lv → Read.utf8Ok lv = true) ∧
      (physFreeDT f.dataType = true → Read.physical a = true) := by
  obtain ⟨hlen, hwf⟩ := Props.C01.C03_wfS' ext fields rows arrs hschema hsafe hext hrows h
  refine ⟨hlen, ?_⟩
  intro j f a hf ha
  obtain ⟨hw, hl⟩ := hwf j f a hf ha
  have hmem : f ∈ fields := List.mem_of_getElem? hf
  have hnew := wf_new f a (hread f hmem) hw
  refine ⟨hnew, ?_, fun i lv hd => wf_utf8 f a i lv hw hd, fun hp => wf_physical_plain f a hp hw⟩
  rw [Roundtrip.vlen_eq_lenOf a hnew, ← (Spec.decodeAll_spec a).1, hl]

/-! ### `Read.physical` of the arrays `to_marrow` returns, every type -/

/-- the counting invariant along a batch: `Cnt` only mentions state that survives `erase`, and the erased state after a push
is `pushL` of the documented value (`Props.C11.push_determined`) -/
theorem foldl_push_cnt (ext : Ext) (dt : DataType) (n : Bool) (md : Metadata) : ∀ (rows : List SVal) (b b' : B),
    (∀ x ∈ rows, noRaw x = true) → WFH b → NoDictKey b → Shape b dt n md → Cnt b →
    rows.foldlM (push ext) b = .ok b' → Cnt b'
  | [], b, b', _, _, _, _, hc, h => by
    simp [List.foldlM, pure, Except.pure] at h; subst h; exact hc
  | x :: rest, b, b', hraw, hw, hn, hsh, hc, h => by
    simp only [List.foldlM] at h
    obtain ⟨b1, h1, h⟩ := (Lemmas.C03.bind_ok _ _ _).1 h
    have hx := hraw x (by simp)
    obtain ⟨hw1, hn1, hsh1, _⟩ := Props.C01.push_interp' ext x b b1 dt n md (noRaw_ssa x hx) (Or.inl hx) hw hn hsh h1
    obtain ⟨un, hun⟩ := exists_unstr
    obtain ⟨lv, _, he⟩ := Props.C11.push_determined ext un hun x b b1 dt n md hx hw hn hsh h1
    have hc1 : Cnt b1 := (Cnt_erase b1).1 (by rw [he]; exact pushL_cnt un lv _ ((Cnt_erase b).2 hc))
    exact foldl_push_cnt ext dt n md rest b1 b' (fun y hy => hraw y (by simp [hy])) hw1 hn1 hsh1 hc1 h

theorem physicalFields_mem : ∀ (afs : ArrFields), Read.physicalFields afs = true → ∀ c ∈ afs.toList, Read.physical c.2 = true
  | .nil, _, c, hc => by simp [ArrFields.toList] at hc
  | .cons m a r, h, c, hc => by
    simp only [Read.physicalFields, Bool.and_eq_true] at h
    simp only [ArrFields.toList, List.mem_cons] at hc
    rcases hc with rfl | hc
    · exact h.1
    · exact physicalFields_mem r h.2 c hc

/-- **`toMarrow_physical`** — the size precondition of the reader, for EVERY type (FixedSizeList and Dictionary included).
Whenever `to_marrow` returns arrays, every one of them is `Read.physical` (the child of every FixedSizeList has at most
`usize::MAX` slots, every dictionary at most `i64::MAX` values, at any depth), provided the lengths computed from the schema
and the NUMBER OF RECORDS fit: `sizeOKDT f.dataType rows.length` (Lemmas/C03PhysSize.lean; decidable).  For a schema without
FixedSizeList that is just `rows.length ≤ i64::MAX` (`sizeOK_of_fslFree`); with FixedSizeList<_, n> columns the product of
the sizes along a nesting path times the row count (`i32::MAX` / `i64::MAX` below a list) must fit `usize`.
Hypotheses besides `hsize`: `coveredF` (the schema hypothesis of `C01_build_decode'`) and `noRaw` (no raw
`serialize_key` / `serialize_value` streams) — those of `Props.C11.push_determined`; no `SchemaOKF`, `ExtOK`, `SValOK`, `Safe`.
Derived from the builders' own bookkeeping: the counting invariant `Cnt` (a dictionary holds at most as many values as keys were
pushed; the per-variant counters of a union are at most its row count), the row-count invariant `WFH` and the offset bounds
`PX` of the final state — NOT from `Spec.WFS` of the arrays (`wf_not_physical`). -/
theorem toMarrow_physical (ext : Ext) (fields : List Field) (rows : List SVal) (arrs : List Arr)
    (hcov : fields.all Build.coveredF = true)
    (hraw : ∀ x ∈ rows, Build.noRaw x = true)
    (hsize : ∀ f ∈ fields, sizeOKDT f.dataType rows.length = true)
    (h : toMarrow ext fields rows = .ok arrs) : ∀ a ∈ arrs, Read.physical a = true := by
  obtain ⟨root, hrun, rest, hba⟩ := toMarrow_split ext fields rows arrs h
  have h0 : ∃ root0, newRoot fields = .ok root0 := by
    simp only [runRows] at hrun
    cases hr : newRoot fields with
    | error e => rw [hr] at hrun; cases hrun
    | ok r0 => exact ⟨r0, rfl⟩
  obtain ⟨root0, h0⟩ := h0
  obtain ⟨hw, _, hl, _, _⟩ := Props.C01.runRows_rows' ext fields rows root0 root h0 hrun
  have hpx := Lemmas.C03.runRows_PX ext fields rows root hrun
  have hb := Lemmas.C03.runRows_builtFor ext fields rows root (Build.push_takeRest ext) hrun
  have hc0 : Cnt root0 := by
    have := takeRest_cnt root0 _ _ (newRoot_builtFor fields root0 h0)
    rwa [(newRoot_fresh h0).2.2] at this
  have hfold := hrun
  simp only [runRows, h0] at hfold
  have hfold : rows.foldlM (push ext) root0 = .ok root := hfold
  have hc := foldl_push_cnt ext _ false [] rows root0 root hraw (Build.WFH_of_WFB _ (newRoot_fresh h0).1)
    (Build.newRoot_NoDictKey h0) (newRoot_shape hcov h0) hc0 hfold
  rw [Lemmas.C03.dec_length_rows root hw] at hl
  cases root with
  | struct p len v fs cached next seen =>
    simp only [buildArrays] at hba
    obtain ⟨cols, hcols, hba⟩ := (Lemmas.C03.bind_ok _ _ _).1 hba
    simp only [pure, Except.pure, Except.ok.injEq, Prod.mk.injEq] at hba
    obtain ⟨rfl, _⟩ := hba
    simp only [Lemmas.C03.BuiltFor] at hb
    obtain ⟨fields', hfe, _, hbl⟩ := hb
    simp only [DataType.struct.injEq] at hfe
    subst hfe
    simp only [B.rows] at hl
    simp only [Lemmas.C03.PX] at hpx
    simp only [Cnt] at hc
    have := Lemmas.C03.finishFields_sized ext fs cols _ len rows.length hcols (Lemmas.C03.WFH_struct hw).2 hpx hc hbl
      (by omega) (Lemmas.C03.sizeOKFs_ofList fields rows.length hsize)
    intro a ha
    obtain ⟨c, hc', rfl⟩ := List.mem_map.mp ha
    exact physicalFields_mem cols this c hc'
  | _ => simp [buildArrays, panic] at hba

/-- without FixedSizeList columns the size condition of `toMarrow_physical` is `rows.length ≤ i64::MAX` -/
theorem sizeOK_of_fslFree (fields : List Field) (L : Nat) (hf : ∀ f ∈ fields, fslFreeDT f.dataType = true)
    (hL : L ≤ 9223372036854775807) : ∀ f ∈ fields, sizeOKDT f.dataType L = true :=
  fun f hm => Lemmas.C03.sizeOKDT_of_fslFree _ L (hf f hm) hL

/-- `c: FixedSizeList<FixedSizeList<FixedSizeList<Null, N>, N>, N>?` -/
def exBlowField (N : Int) : Field :=
  let fsl (f : Field) : Field := .mk "element" (.fixedSizeList f N) false []
  .mk "c" (.fixedSizeList (fsl (fsl (.mk "element" .null false []))) N) true []

/-- the builder of `exBlowField N` holding `l0` rows (`l1`, `l2`, `l3`: the rows of the nested children) -/
def exBlowB (N l0 l1 l2 l3 : Nat) (v : Validity) : B :=
  let fm : FieldMeta := ⟨"element", false, []⟩
  .fixedSizeList "$.c" fm N l0 v 0 (.fixedSizeList "$.c.element" fm N l1 none 0
    (.fixedSizeList "$.c.element.element" fm N l2 none 0 (.null "$.c.element.element.element" l3)))

theorem iter_count : ∀ (k len : Nat),
    iter k (fun (s : Nat × Validity) => (.ok (s.1 + 1, setValidityDefault s.2 s.1) : R _)) (len, none) = .ok (len + k, none)
  | 0, len => rfl
  | k + 1, len => by
    unfold iter
    simp only [bind, Except.bind]
    exact (iter_count k (len + 1)).trans (by congr 2; omega)

theorem exBlow_new : newB "$.c" (exBlowField 2147483647) = .ok (exBlowB 2147483647 0 0 0 0 (some [])) := by decide

/-- ONE `serialize_none` into the fresh builder: `N`, `N²`, `N³` child slots (symbolic: the model counts, the code loops) -/
theorem exBlow_none (N : Nat) :
    pushNone (exBlowB N 0 0 0 0 (some [])) = .ok (exBlowB N 1 N (N * N) (N * N * N) (some [false])) := by
  simp only [exBlowB, pushNone, pushDefaultK, iter_count, setValidity, bind, Except.bind, pure, Except.pure, ctx, Nat.zero_add]
  rfl

/-- **a BOUND ON THE INPUT ALONE cannot give `Read.physical`**: ONE call `serialize_none` into the builder `build_builder`
constructs for `c: FixedSizeList<FixedSizeList<FixedSizeList<Null, i32::MAX>, i32::MAX>, i32::MAX>?` is accepted (model:
`serialize_none` of a fixed-size list issues `n` × `serialize_default` on its child — counted in the model, a loop in the
code) and the innermost child of the finished array has `(2^31 - 1)^3 > usize::MAX` slots.  (The real crate would loop
`2^93` times: it does not return; no defect.)  So the SCHEMA has to enter the size hypothesis of `toMarrow_physical`. -/
theorem input_bound_not_enough :
    let N : Nat := 2147483647
    newB "$.c" (exBlowField (N : Int)) = .ok (exBlowB N 0 0 0 0 (some [])) ∧
    pushNone (exBlowB N 0 0 0 0 (some [])) = .ok (exBlowB N 1 N (N * N) (N * N * N) (some [false])) ∧
    (match finish {} (exBlowB N 1 N (N * N) (N * N * N) (some [false])) with
     | .ok a => Read.physical a
     | .error _ => true) = false :=
  ⟨exBlow_new, exBlow_none _, by decide⟩

/-- slot `i` of column `j`, from the column-wise statement of `C01_build_decode` -/
theorem col_decodeAt {arrs : List Arr} {cols : List (String × List LVal)} {n : Nat}
    (hc1 : arrs.map decodeAll = cols.map (fun c => c.2.map .ok)) (hc3 : ∀ c ∈ cols, c.2.length = n)
    (j : Nat) (hj : j < arrs.length) (i : Nat) (hi : i < n) :
    ∃ (hjc : j < cols.length) (hli : i < cols[j].2.length), decodeAt arrs[j] i = .ok cols[j].2[i] := by
  have hcl : cols.length = arrs.length := by
    have := congrArg List.length hc1; simpa using this.symm
  have hjc : j < cols.length := by omega
  have hcol : decodeAll arrs[j] = cols[j].2.map .ok := by
    have := congrArg (fun l => l[j]?) hc1
    simpa [List.getElem?_map, List.getElem?_eq_getElem hj, List.getElem?_eq_getElem hjc] using this
  have hli : i < cols[j].2.length := by rw [hc3 _ (List.getElem_mem hjc)]; exact hi
  refine ⟨hjc, hli, ?_⟩
  rw [Roundtrip.decodeAt_of_decodeAll arrs[j] cols[j].2 i hcol hli]
  simp [List.getD, List.getElem?_eq_getElem hli]

/-- `toMarrow_readAny` with the size precondition `Read.physical` of the arrays as an EXPLICIT hypothesis (`hphys`) instead
of the schema-side bound `hsize`: a complete statement with that precondition, for callers that have `physical` from
elsewhere (`toMarrow_readAny` below discharges it through `toMarrow_physical`). -/
theorem toMarrow_readAny_of_physical (ext : Ext) (fields : List Field) (rows : List SVal) (arrs : List Arr)
    (hschema : ∀ f ∈ fields, Lemmas.C03.SchemaOKF f)
    (hcov : fields.all Build.coveredF = true)
    (hraw : ∀ x ∈ rows, Build.noRaw x = true)
    (hext : Lemmas.C03.ExtOK ext)
    (hrows : ∀ x ∈ rows, Lemmas.C03.SValOK x)
    (hread : ∀ f ∈ fields, readableDT f.dataType = true)
    (hphys : ∀ a ∈ arrs, Read.physical a = true)
    (h : toMarrow ext fields rows = .ok arrs) :
    arrs.length = fields.length ∧
    ∃ cols : List (String × List LVal), cols.length = arrs.length ∧
      cols.map (·.1) = fields.map (·.name) ∧
      (∀ (i : Nat) (hi : i < rows.length),
        interpRow ext fields rows[i] = .ok (.struct (LFields.ofList (cols.map fun c => (c.1, c.2.getD i .null))))) ∧
      ∀ (j : Nat) (hj : j < arrs.length) (i : Nat), i < rows.length →
        ∃ lv, (cols[j]?.map (·.2[i]?)) = some (some lv) ∧
          Read.readAny Read.Fixes.all arrs[j] i = .ok (Read.toD arrs[j] lv) := by
  obtain ⟨hlen, cols, hc1, hc2, hc3, hc4⟩ := Props.C01.C01_build_decode' ext fields rows arrs hschema hcov (fun x hx => Build.noRaw_ssa x (hraw x hx)) (Or.inl hraw) h
  obtain ⟨_, hrd⟩ := toMarrow_readable ext fields rows arrs hschema (Or.inr hcov) hext hrows hread h
  have hcl : cols.length = arrs.length := by
    have := congrArg List.length hc1; simpa using this.symm
  refine ⟨hlen, cols, hcl, hc2, hc4, ?_⟩
  intro j hj i hi
  obtain ⟨hjc, hli, hdec⟩ := col_decodeAt hc1 hc3 j hj i hi
  have hjf : j < fields.length := by omega
  obtain ⟨hnew, _, hutf, _⟩ := hrd j fields[j] arrs[j] (List.getElem?_eq_getElem hjf) (List.getElem?_eq_getElem hj)
  refine ⟨cols[j].2[i], by simp [List.getElem?_eq_getElem hjc, List.getElem?_eq_getElem hli], ?_⟩
  exact Props.C02.read_any_decode arrs[j] i _ hdec hnew (hphys _ (List.getElem_mem hj)) (hutf i _ hdec)

/-- **`toMarrow_readAny`** — reading back what was built gives the documented value of the input.  Whenever `to_marrow`
returns arrays, slot `i` of array `j`, read with `deserialize_any`, is the `toD` rendering of the `j`-th field of
`interpRow ext fields rows[i]` (`cols`: the decoded columns of `C01_build_decode`).  NO reader-side hypothesis, EVERY type the
reader supports (FixedSizeList and Dictionary columns included): the hypotheses are those of `C01_build_decode'` and `C03_wfS'`
(schema: `SchemaOKF`, `coveredF` — NO `Safe`; rows: `noRaw`, `SValOK`; `ExtOK`), plus the two schema conditions of this file —
`readableDT` (types the reader supports) and `hsize` (`sizeOKDT`: the lengths computed from the schema and the number of
records fit `usize` / `i64`; `rows.length ≤ i64::MAX` when there is no FixedSizeList: `sizeOK_of_fslFree`), from which
`Read.physical` is derived (`toMarrow_physical`). -/
theorem toMarrow_readAny (ext : Ext) (fields : List Field) (rows : List SVal) (arrs : List Arr)
    (hschema : ∀ f ∈ fields, Lemmas.C03.SchemaOKF f)
    (hcov : fields.all Build.coveredF = true)
    (hraw : ∀ x ∈ rows, Build.noRaw x = true)
    (hext : Lemmas.C03.ExtOK ext)
    (hrows : ∀ x ∈ rows, Lemmas.C03.SValOK x)
    (hread : ∀ f ∈ fields, readableDT f.dataType = true)
    (hsize : ∀ f ∈ fields, sizeOKDT f.dataType rows.length = true)
    (h : toMarrow ext fields rows = .ok arrs) :
    arrs.length = fields.length ∧
    ∃ cols : List (String × List LVal), cols.length = arrs.length ∧
      cols.map (·.1) = fields.map (·.name) ∧
      (∀ (i : Nat) (hi : i < rows.length),
        interpRow ext fields rows[i] = .ok (.struct (LFields.ofList (cols.map fun c => (c.1, c.2.getD i .null))))) ∧
      ∀ (j : Nat) (hj : j < arrs.length) (i : Nat), i < rows.length →
        ∃ lv, (cols[j]?.map (·.2[i]?)) = some (some lv) ∧
          Read.readAny Read.Fixes.all arrs[j] i = .ok (Read.toD arrs[j] lv) :=
  toMarrow_readAny_of_physical ext fields rows arrs hschema hcov hraw hext hrows hread
    (toMarrow_physical ext fields rows arrs hcov hraw hsize h) h

/-! ### the record level: `Deserializer::from_marrow(fields, arrays)` + item `i` -/

theorem readableFs_ofList : ∀ (l : List Field), (∀ f ∈ l, readableF f = true) → readableFs (Fields.ofList l) = true
  | [], _ => by simp [Fields.ofList, Lemmas.C03.readableFs]
  | f :: r, h => by
    simp [Fields.ofList, Lemmas.C03.readableFs, h f (by simp), readableFs_ofList r (fun g hg => h g (by simp [hg]))]

/-- record-level form with `Read.physical` of the arrays as an EXPLICIT hypothesis (`hphys`) instead of `hsize`: a complete
statement with that precondition (`toMarrow_readRecord` below discharges it through `toMarrow_physical`) -/
theorem toMarrow_readRecord_of_physical (ext : Ext) (fields : List Field) (rows : List SVal) (arrs : List Arr)
    (hschema : ∀ f ∈ fields, Lemmas.C03.SchemaOKF f)
    (hcov : fields.all Build.coveredF = true)
    (hraw : ∀ x ∈ rows, Build.noRaw x = true)
    (hext : Lemmas.C03.ExtOK ext)
    (hrows : ∀ x ∈ rows, Lemmas.C03.SValOK x)
    (hread : ∀ f ∈ fields, readableF f = true)
    (hne : fields ≠ [])
    (hphys : ∀ a ∈ arrs, Read.physical a = true)
    (h : toMarrow ext fields rows = .ok arrs) :
    Access.new true fields.length (arrs.map Read.vlen) = .ok rows.length ∧
    Read.new Read.Fixes.all (Roundtrip.rootArr fields arrs rows.length) = .ok () ∧
    ∀ (i : Nat) (hi : i < rows.length), ∃ lv, interpRow ext fields rows[i] = .ok lv ∧
      Roundtrip.readRecord .any fields arrs i = .ok (Read.toD (Roundtrip.rootArr fields arrs rows.length) lv) := by
  obtain ⟨hlen, cols, hc1, hc2, hc3, hc4⟩ := Props.C01.C01_build_decode' ext fields rows arrs hschema hcov (fun x hx => Build.noRaw_ssa x (hraw x hx)) (Or.inl hraw) h
  obtain ⟨_, hwf⟩ := Props.C01.C03_wfS' ext fields rows arrs hschema (Or.inr hcov) hext hrows h
  have hcols : Spec.wfFields (Fields.ofList fields) (Roundtrip.zipCols fields arrs) rows.length = true :=
    Roundtrip.zip_wf rows.length fields arrs hlen hwf
  have hnewF : Read.newFields Read.Fixes.all (Roundtrip.zipCols fields arrs) = .ok () :=
    Lemmas.C03.wfFields_new _ _ _ (readableFs_ofList fields hread) hcols
  have hnonempty : arrs ≠ [] := by
    intro he
    rw [he] at hlen
    exact hne (List.length_eq_zero_iff.mp hlen.symm)
  have hlens : ∀ x ∈ arrs.map Read.vlen, x = rows.length := by
    rw [Roundtrip.zip_vlen fields arrs hlen hnewF]
    intro x hx
    obtain ⟨a, ha, rfl⟩ := List.mem_map.mp hx
    obtain ⟨j, hj, rfl⟩ := List.getElem_of_mem ha
    have hjf : j < fields.length := by omega
    have := (hwf j fields[j] arrs[j] (List.getElem?_eq_getElem hjf) (List.getElem?_eq_getElem hj)).2
    rw [← (Spec.decodeAll_spec arrs[j]).1, this]
  have hacc : Access.new true fields.length (arrs.map Read.vlen) = .ok rows.length :=
    Roundtrip.access_new rows.length _ _ (by simp [hlen]) (by simpa using hnonempty) hlens
  have hnew : Read.new Read.Fixes.all (Roundtrip.rootArr fields arrs rows.length) = .ok () := by
    simpa [Roundtrip.rootArr, Read.new] using hnewF
  have hwfroot : Spec.wf (.struct (Fields.ofList fields)) false (Roundtrip.rootArr fields arrs rows.length) = true := by
    simp [Roundtrip.rootArr, Spec.wf, Spec.validityOk, hcols]
  refine ⟨hacc, hnew, ?_⟩
  intro i hi
  refine ⟨_, hc4 i hi, ?_⟩
  have hdec : Spec.decodeAt (Roundtrip.rootArr fields arrs rows.length) i =
      .ok (.struct (LFields.ofList (cols.map fun c => (c.1, c.2.getD i .null)))) := by
    have hz := Roundtrip.zip_decode i fields arrs cols hc1 hc2 (fun c' hc' => by rw [hc3 c' hc']; exact hi)
    simp only [Roundtrip.rootArr, Spec.decodeAt, hi, if_true, Spec.withValidity, Spec.isValid, hz, bind, Except.bind, pure,
      Except.pure]
    simp
  have hread1 := Props.C02.read_any_decode _ i _ hdec hnew
    (by simpa [Roundtrip.rootArr, Read.physical] using Roundtrip.zip_physical fields arrs hphys)
    (Lemmas.C03.wf_utf8 _ _ _ i _ hwfroot hdec)
  simp only [Roundtrip.readRecord, hacc, bind, Except.bind]
  rw [hnew]
  simp only [Access.getIdx, ge_iff_le, Nat.not_le.mpr hi, if_false]
  simpa [Read.readAs] using hread1

/-- **`toMarrow_readRecord`** — the record-level form: `Deserializer::from_marrow(fields, arrays)` accepts the built columns
(`Access.new`: as many arrays as fields, all of `rows.length` rows; the root struct reader can be constructed) and reading
record `i` with `deserialize_any` returns the `toD` rendering of `interpRow ext fields rows[i]` — the documented value of
the `i`-th input record.  No reader-side hypothesis, every readable type; `readableF` also asks the TOP-LEVEL fields' strategy
metadata to be known (the root reader parses it); `hsize` as in `toMarrow_readAny`. -/
theorem toMarrow_readRecord (ext : Ext) (fields : List Field) (rows : List SVal) (arrs : List Arr)
    (hschema : ∀ f ∈ fields, Lemmas.C03.SchemaOKF f)
    (hcov : fields.all Build.coveredF = true)
    (hraw : ∀ x ∈ rows, Build.noRaw x = true)
    (hext : Lemmas.C03.ExtOK ext)
    (hrows : ∀ x ∈ rows, Lemmas.C03.SValOK x)
    (hread : ∀ f ∈ fields, readableF f = true)
    (hsize : ∀ f ∈ fields, sizeOKDT f.dataType rows.length = true)
    (hne : fields ≠ [])
    (h : toMarrow ext fields rows = .ok arrs) :
    Access.new true fields.length (arrs.map Read.vlen) = .ok rows.length ∧
    Read.new Read.Fixes.all (Roundtrip.rootArr fields arrs rows.length) = .ok () ∧
    ∀ (i : Nat) (hi : i < rows.length), ∃ lv, interpRow ext fields rows[i] = .ok lv ∧
      Roundtrip.readRecord .any fields arrs i = .ok (Read.toD (Roundtrip.rootArr fields arrs rows.length) lv) :=
  toMarrow_readRecord_of_physical ext fields rows arrs hschema hcov hraw hext hrows hread hne
    (toMarrow_physical ext fields rows arrs hcov hraw hsize h) h

/-! ### non-vacuity -/

/-- `wf_new` / `wf_utf8` on a concrete nullable dictionary column with a two-byte UTF-8 sequence and a list of unions:
the hypotheses hold (computed) and the conclusions are the computed facts -/
example :
    let f : Field := .mk "d" (.dictionary .int8 .utf8) true []
    let a : Arr := .dictionary (.prim .int8 (some ⟨[0b101], 0⟩) [1, 0, 0]) (.bytes .utf8 none [0, 1, 3] [97, 0xC3, 0xA9])
    WFS f a = true ∧ readableDT f.dataType = true ∧ decodeAt a 0 = .ok (.str [0xC3, 0xA9]) ∧
      Read.new Read.Fixes.all a = .ok () ∧ Read.utf8Ok (.str [0xC3, 0xA9]) = true := by decide

example :
    let u : Field := .mk "u" (.union (.cons 0 (.mk "N" .null true []) (.cons 1 (.mk "S" .largeUtf8 false []) .nil)) .dense) false []
    let f : Field := .mk "l" (.largeList u) false []
    let a : Arr := .list true none [0, 2, 3] ⟨"u", false, []⟩
      (.union [1, 0, 1] (some [0, 0, 1]) (.cons 0 ⟨"N", true, []⟩ (.null 1)
        (.cons 1 ⟨"S", false, []⟩ (.bytes .largeUtf8 none [0, 1, 1] [120]) .nil)))
    WFS f a = true ∧ readableDT f.dataType = true ∧ physFreeDT f.dataType = true ∧
      Read.new Read.Fixes.all a = .ok () ∧ Read.physical a = true := by decide

/-- the reader refuses what `readableDT` excludes although the array is well formed: an unknown strategy on a child field,
a dictionary of dates (both accepted by `build_builder`) -/
example :
    let f : Field := .mk "l" (.list (.mk "element" .int8 false [("SERDE_ARROW:strategy", "Nope")])) false []
    let a : Arr := .list false none [0] ⟨"element", false, [("SERDE_ARROW:strategy", "Nope")]⟩ (.prim .int8 none [])
    let g : Field := .mk "d" (.dictionary .int8 .date32) false []
    let b : Arr := .dictionary (.prim .int8 none [0]) (.prim .date32 none [7])
    WFS f a = true ∧ readableDT f.dataType = false ∧ (Read.new Read.Fixes.all a).isOk = false ∧
    WFS g b = true ∧ readableDT g.dataType = false ∧ (Read.new Read.Fixes.all b).isOk = false := by decide

/-- `toMarrow_readRecord` / `toMarrow_readAny` on the worked instance of Props/C03.lean (`{a: Int32?, l: List<Int8>}`, two
records): every hypothesis discharged, so reading the built arrays back returns the documented values unconditionally -/
example : ∀ arrs, toMarrow {} exFields exRows = .ok arrs →
    Access.new true exFields.length (arrs.map Read.vlen) = .ok exRows.length ∧
    (∀ (i : Nat) (hi : i < exRows.length), ∃ lv, interpRow {} exFields exRows[i] = .ok lv ∧
      Roundtrip.readRecord .any exFields arrs i = .ok (Read.toD (Roundtrip.rootArr exFields arrs exRows.length) lv)) ∧
    ∃ cols : List (String × List LVal), cols.length = arrs.length ∧
      ∀ (j : Nat) (hj : j < arrs.length) (i : Nat), i < exRows.length →
        ∃ lv, (cols[j]?.map (·.2[i]?)) = some (some lv) ∧
          Read.readAny Read.Fixes.all arrs[j] i = .ok (Read.toD arrs[j] lv) := by
  intro arrs h
  have hschema : ∀ f ∈ exFields, Lemmas.C03.SchemaOKF f := by
    simp [exFields, Lemmas.C03.SchemaOKF, Lemmas.C03.SchemaOK]
  have hext : Lemmas.C03.ExtOK {} := by constructor <;> (intros; rename_i h; cases h)
  have hrows : ∀ x ∈ exRows, Lemmas.C03.SValOK x := by
    simp [exRows, Lemmas.C03.SValOK, Lemmas.C03.SFieldsOK, Lemmas.C03.SValsOK, Lemmas.C03.ScalarOK, IntTy.inRange,
      IntTy.min, IntTy.max]
  have hcov : exFields.all Build.coveredF = true := by decide
  have hraw : ∀ x ∈ exRows, Build.noRaw x = true := by decide
  have hread : ∀ f ∈ exFields, readableF f = true := by decide
  have hsize : ∀ f ∈ exFields, sizeOKDT f.dataType exRows.length = true := by decide
  obtain ⟨h1, _, h3⟩ := toMarrow_readRecord {} exFields exRows arrs hschema hcov hraw hext hrows hread hsize
    (by simp [exFields]) h
  obtain ⟨_, cols, hc, _, _, h4⟩ := toMarrow_readAny {} exFields exRows arrs hschema hcov hraw hext hrows
    (fun f hf => Lemmas.C03.readableDT_of_F (hread f hf)) hsize h
  exact ⟨h1, h3, cols, hc, h4⟩

/-- `toMarrow_readAny` on the schema OUTSIDE `Safe` of Props/C01Obs.lean (`{s: Struct{d: Dictionary(UInt8, Utf8)}?}`,
records `None`, `{d: "a"}`, `None`: `Props.C01.exUnsafe_not_safe`) — a DICTIONARY column: every hypothesis discharged
(`hsize` decided on the schema and the record count), nothing assumed about the arrays -/
example : ∀ arrs, toMarrow {} Props.C01.exUnsafeFields Props.C01.exUnsafeRows = .ok arrs →
    (∀ a ∈ arrs, Read.physical a = true) ∧
    ∃ cols : List (String × List LVal), cols.length = arrs.length ∧
      ∀ (j : Nat) (hj : j < arrs.length) (i : Nat), i < Props.C01.exUnsafeRows.length →
        ∃ lv, (cols[j]?.map (·.2[i]?)) = some (some lv) ∧
          Read.readAny Read.Fixes.all arrs[j] i = .ok (Read.toD arrs[j] lv) := by
  intro arrs h
  have hext : Lemmas.C03.ExtOK {} := by constructor <;> (intros; rename_i h; cases h)
  have hsize : ∀ f ∈ Props.C01.exUnsafeFields, sizeOKDT f.dataType Props.C01.exUnsafeRows.length = true := by decide
  obtain ⟨_, cols, hc, _, _, h4⟩ := toMarrow_readAny {} Props.C01.exUnsafeFields Props.C01.exUnsafeRows arrs
    (by simp [Props.C01.exUnsafeFields, Lemmas.C03.SchemaOKF, Lemmas.C03.SchemaOK, Lemmas.C03.SchemaOKFs]) (by decide) (by decide) hext
    (by
      intro x hx
      simp only [Props.C01.exUnsafeRows, List.mem_cons, List.not_mem_nil, or_false] at hx
      rcases hx with rfl | rfl | rfl <;> simp [Lemmas.C03.SValOK, Lemmas.C03.SFieldsOK])
    (by decide) hsize h
  exact ⟨toMarrow_physical {} _ _ arrs (by decide) (by decide) hsize h, cols, hc, h4⟩

/-- a FixedSizeList of dictionary-encoded strings below a nullable struct, and a union: the columns `physFreeDT` excluded -/
def exSizedFields : List Field :=
  [.mk "f" (.fixedSizeList (.mk "element" (.dictionary .int8 .utf8) true []) 2) true [],
   .mk "u" (.union (.cons 0 (.mk "A" (.fixedSizeList (.mk "element" .int32 false []) 3) false [])
      (.cons 1 (.mk "B" .null true []) .nil)) .dense) false []]
def exSizedRows : List SVal :=
  [.record "R" (.cons "f" 0 (.seq (.cons (.str "a") (.cons .none .nil)))
      (.cons "u" 1 (.newtypeVariant "U" 0 "A" (.seq (.cons (.int .i32 1) (.cons (.int .i32 2) (.cons (.int .i32 3) .nil))))) .nil)),
   .record "R" (.cons "f" 0 .none (.cons "u" 1 (.unitVariant "U" 1 "B") .nil))]

/-- non-vacuity of `toMarrow_physical`: the hypotheses hold of `exSizedFields` / `exSizedRows` (decided), `to_marrow` accepts the
batch, and the conclusion is the computed fact; `sizeOKDT` FAILS for the same schema with `2^63` records (the bound is not
vacuous either) -/
example : exSizedFields.all Build.coveredF = true ∧ (∀ x ∈ exSizedRows, Build.noRaw x = true) ∧
    (∀ f ∈ exSizedFields, sizeOKDT f.dataType exSizedRows.length = true) ∧
    (match toMarrow {} exSizedFields exSizedRows with
     | .ok arrs => arrs.all Read.physical
     | .error _ => false) = true ∧
    (exSizedFields.all fun f => sizeOKDT f.dataType (2 ^ 63)) = false := by
  refine ⟨by decide, by decide, by decide, by decide +kernel, by decide⟩

example : ∀ arrs, toMarrow {} exSizedFields exSizedRows = .ok arrs → ∀ a ∈ arrs, Read.physical a = true :=
  fun arrs h => toMarrow_physical {} exSizedFields exSizedRows arrs (by decide) (by decide) (by decide) h

end SaModel.Props.C03
