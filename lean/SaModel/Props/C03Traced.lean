import SaModel.Props.C03Codec
import SaModel.Props.C08
import SaModel.Lemmas.C03Trace
/-
C03 for TRACED schemas: when the schema is what serde_arrow's own `from_type` returns, the schema-side hypothesis
`SchemaOKF` of `Props.C01.C03_wf'` is a theorem (`PlainF` and `Safe ∨ coveredF` stay hypotheses).

  fromType_good    Trace.fromType c O ty = ok fields → every field is `SchemaOKF` (no `FixedSizeBinary(0)`) and the field
                   list is well typed (`typedFs`: sizes `i32`, union type ids `i8`) — `Props.C08.C08_from_type` (the
                   tracer returns the documented mapping, ∀ types, ∀ options) + `Lemmas.C03.mapping_good`; the user's
                   overwrites are taken as given, so they must satisfy the same two conditions (vacuous without overwrites)
  C03_wf_traced    `C03_wf_codec_typed` for such a schema: what remains is `PlainF` and `Safe ∨ coveredF` (schema), `GoodF` of
                   the user's overwrites (options) and `typed` (rows)
-/
namespace SaModel.Props.C03
open SaModel SaModel.Build SaModel.Spec
open SaModel.Props.C16 (codecExt)

/-- **traced schemas satisfy the schema side of C03** (and the typing invariant `toMarrow_complete` asks for) -/
theorem fromType_good (c : Trace.Code) (O : Trace.Options) (ty : Trace.Ty) (fields : List Field)
    (ho : ∀ kv ∈ O.overwrites, Lemmas.C03.GoodF kv.2) (h : Trace.fromType c O ty = .ok fields) :
    (∀ f ∈ fields, Lemmas.C03.SchemaOKF f) ∧ Lemmas.C03.typedFs (Fields.ofList fields) = true := by
  have hag := Props.C08.C08_from_type c O ty
  rw [h] at hag
  cases hs : Trace.Spec.fromTypeSpec O ty with
  | ok fields' =>
    rw [hs] at hag
    have : fields = fields' := hag
    subst this
    exact Lemmas.C03.fromTypeSpec_good O ho ty fields hs
  | error e => rw [hs] at hag; exact absurd hag (by simp [Lemmas.C08.Agree])

/-- **C03 for a traced schema, as the driver instantiates it.**  Conclusion: `Spec.WF` (structure and type
equality).  `hplain` (no metadata on a Map's entries field) is NOT derived from `fromType` here — the tracer writes
`metadata: Default::default()` on every entries field it creates, only user overwrites could carry some; it is decidable on the
given schema.  Of the schema otherwise only `Safe` OR `coveredF` is assumed (and `ho`: the user's overwrites are `GoodF`)
(the hypothesis of `Props.C01.C03_wfS'` / `C03_wf'`; a traced schema with dictionary-encoded strings — a `Dictionary(UInt32, LargeUtf8)`
column with non-nullable keys below an `Option<struct>` — is outside `Safe`, inside `coveredF`: `exTracedFields`). -/
theorem C03_wf_traced (c : Trace.Code) (O : Trace.Options) (ty : Trace.Ty)
    (f32Str f64Str : Nat → String) (cast : Nat → Int → Bool → Nat → Option (Bool × Int))
    (fields : List Field) (rows : List SVal) (arrs : List Arr)
    (ho : ∀ kv ∈ O.overwrites, Lemmas.C03.GoodF kv.2) (hft : Trace.fromType c O ty = .ok fields)
    (hplain : ∀ f ∈ fields, Lemmas.C03.PlainF f)
    (hsafe : (∀ root0, newRoot fields = .ok root0 → Safe root0) ∨ fields.all Build.coveredF = true)
    (hrows : ∀ x ∈ rows, x.typed = true)
    (h : toMarrow (codecExt f32Str f64Str cast) fields rows = .ok arrs) :
    arrs.length = fields.length ∧
    ∀ (j : Nat) (f : Field) (a : Arr), fields[j]? = some f → arrs[j]? = some a →
      WF f a = true ∧ (decodeAll a).length = rows.length :=
  C03_wf_codec_typed f32Str f64Str cast fields rows arrs (fromType_good c O ty fields ho hft).1 hplain hsafe hrows h

/-- non-vacuity: a type with an enum, a map and dictionary-encoded strings traces successfully (so `fromType_good`
speaks about a real schema: a dense union with type ids 0, 1 and a `Dictionary(UInt32, LargeUtf8)` column) -/
example : (Trace.fromType .fixed { string_dictionary_encoding := true, map_as_struct := false }
    (.struct "S" (.cons "e" (.enum "E" (.newtype "A" (.int .i8) (.newtype "B" .string .nil)))
      (.cons "m" (.map .string (.int .u8)) .nil)))).isOk = true := by decide +kernel

/-- non-vacuity: the traced schema of `R { s: Option<S> }`, `S { d: String }` under dictionary encoding is the kind of
schema `Safe` excludes and `coveredF` admits -/
def exTracedFields : List Field :=
  [.mk "s" (.struct (.cons (.mk "d" (.dictionary .uint32 .largeUtf8) false []) .nil)) true []]

example : Trace.fromType .fixed { string_dictionary_encoding := true }
      (.struct "R" (.cons "s" (.option (.struct "S" (.cons "d" .string .nil))) .nil)) = .ok exTracedFields ∧
    exTracedFields.all Build.coveredF = true ∧ (∀ root0, newRoot exTracedFields = .ok root0 → ¬ Safe root0) := by
  refine ⟨by decide +kernel, by decide +kernel, ?_⟩
  intro root0 h0
  rw [show newRoot exTracedFields = .ok (.struct "$" 0 none
    (.cons (.struct "$.s" 0 (some [])
        (.cons (.dictionary "$.s.d" (.leaf "$.s.d.key" (.int .u32) none []) (.bytes "$.s.d.value" .largeUtf8 none [0] []) [])
          ⟨"d", false, []⟩ .nil) [none] 0 [false]) ⟨"s", true, []⟩ .nil) [none] 0 [false]) from by decide] at h0
  cases h0
  simp [Safe, SafeL, DefSafe, DefSafeL, B.isNullable]

end SaModel.Props.C03
