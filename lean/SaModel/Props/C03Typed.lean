import SaModel.Props.C01Obs
import SaModel.Lemmas.C03TypeNew
/-
C03, the type-equality half.  `Spec.WF f a = Spec.WFS f a ∧ Spec.typeOf a = f.dataType`, where `typeOf` is
marrow's `Array::data_type` written over the physical array alone (Spec/WF.lean).  The headline `Props.C01.C03_wf'`
(Props/C01Obs.lean) concludes this `WF`; here are its two ingredients at property level and the witnesses of the three
places where the pinned crate returned an array of ANOTHER type than the field's:

  WFS_typeOf                      WFS f a, StrictDT f.dataType ⇒ typeOf a = f.dataType       (arbitrary arrays)
  accepted_strict                 newRoot fields = ok, PlainF fields ⇒ StrictDT of every field  (`build_builder`)
  sparse_union_refused / sparse_union_pinned_not_WF             FIXED  c63d82e
  nullable_entries_refused / nullable_entries_pinned_not_WF     FIXED  25f1351
  entries_metadata_not_WF                                       KNOWN  (why `C03_wf'` carries `PlainF`)
-/
namespace SaModel.Props.C03
open SaModel SaModel.Build SaModel.Spec

/-- **a structurally valid array of a strict type has exactly that type** (`StrictDT`: unions dense, Map entries fields not
nullable and without metadata — the types marrow's arrays can express).  Speaks about ARBITRARY arrays. -/
theorem WFS_typeOf (f : Field) (a : Arr) (h : WFS f a = true) (hs : Lemmas.C03.StrictDT f.dataType) :
    typeOf a = f.dataType :=
  Lemmas.C03.wf_typeOf a f.dataType f.nullable h hs

/-- `WF` is `WFS` plus type equality; for strict types the two coincide -/
theorem WF_iff (f : Field) (a : Arr) : WF f a = true ↔ WFS f a = true ∧ typeOf a = f.dataType := by
  simp only [WF, Bool.and_eq_true, decide_eq_true_eq]

theorem WF_iff_WFS_of_strict (f : Field) (a : Arr) (hs : Lemmas.C03.StrictDT f.dataType) : WF f a = true ↔ WFS f a = true :=
  ⟨Lemmas.C03.WFS_of_WF f a, fun h => Lemmas.C03.WF_of_WFS f a h hs⟩

/-- **what `build_builder` accepts is strict** up to the metadata of Map entries fields (`PlainF`) -/
theorem accepted_strict (fields : List Field) (root : B) (h : newRoot fields = .ok root)
    (hp : ∀ f ∈ fields, Lemmas.C03.PlainF f) : ∀ f ∈ fields, Lemmas.C03.StrictDT f.dataType :=
  Lemmas.C03.newRoot_strict fields root h hp

/-! ### sparse unions (FIXED, repo c63d82e) -/

/-- `u: Union([V0: Int32, V1: Null?], Sparse)` -/
def exSparse : Field :=
  .mk "u" (.union (.cons 0 (.mk "V0" .int32 false []) (.cons 1 (.mk "V1" .null true []) .nil)) .sparse) false []

/-- repaired code: `build_builder` refuses a sparse union ("Only dense unions are supported") -/
theorem sparse_union_refused : ∃ e, newB "$.u" exSparse = .error e := ⟨_, rfl⟩

theorem sparse_refused (path : String) (fs : UFields) (nl : Bool) (md : Metadata) :
    ∃ e, newDT path (.union fs .sparse) nl md = .error e := ⟨_, rfl⟩

/-- the dense union builder the PINNED `build_builder` returned for `exSparse` (it ignored the mode:
`T::Union(union_fields, _)`) -/
def exSparsePinned : B :=
  .union "$.u" (.cons (.leaf "$.u.V0" (.int .i32) none []) ⟨"V0", false, []⟩
    (.cons (.null "$.u.V1" 0) ⟨"V1", true, []⟩ .nil)) [] [] [0, 0]

/-- the run of the pinned code on two rows `V0(5)`, `V1`: structurally valid?, of the declared type?, `WF`? -/
def exSparseRun : R (Bool × Bool × Bool) := do
  let b1 ← push {} exSparsePinned (.newtypeVariant "E" 0 "V0" (.int .i32 5))
  let b2 ← push {} b1 (.unitVariant "E" 1 "V1")
  let a ← finish {} b2
  pure (WFS exSparse a, decide (typeOf a = exSparse.dataType), WF exSparse a)

/-- pinned code: two rows later `into_array` returns a DENSE union array: structurally fine (`WFS`), but not an array of the
declared field — its type says `Dense`, the field says `Sparse`.  Confirmed on the real crate (notes/audit/adv.jsonl,
case adv-sparse; corpus/build/c03_types.jsonl). -/
theorem sparse_union_pinned_not_WF : exSparseRun = .ok (true, false, false) := by decide +kernel

/-! ### nullable Map entries (FIXED, repo 25f1351) -/

/-- `m: Map(entries?: Struct{key: Int8, value: Boolean?})` — the Arrow format forbids a nullable entries field -/
def exNullEntries : Field :=
  .mk "m" (.map (.mk "entries" (.struct (.cons (.mk "key" .int8 false []) (.cons (.mk "value" .boolean true []) .nil)))
    true []) false) false []

/-- repaired code: refused ("The entries field of a Map must not be nullable") -/
theorem nullable_entries_refused : ∃ e, newB "$.m" exNullEntries = .error e := ⟨_, rfl⟩

/-- the builder the PINNED `build_builder` returned (it never looked at `entry_field.nullable`) -/
def exNullEntriesPinned : B :=
  .map "$.m" { entriesName := "entries", sorted := false, keys := ⟨"key", false, []⟩, values := ⟨"value", true, []⟩ }
    none [0] (.leaf "$.m.entries.key" (.int .i8) none []) (.leaf "$.m.entries.value" .bool (some []) [])

def exNullEntriesRun : R (Bool × Bool × Bool) := do
  let b1 ← push {} exNullEntriesPinned (.map (.cons (.int .i8 1) (.bool true) .nil))
  let a ← finish {} b1
  pure (WFS exNullEntries a, decide (typeOf a = exNullEntries.dataType), WF exNullEntries a)

/-- pinned code: the Map array has a NON-nullable entries field (marrow's `MapMeta` cannot say otherwise) -/
theorem nullable_entries_pinned_not_WF : exNullEntriesRun = .ok (true, false, false) := by decide +kernel

/-! ### metadata on a Map's entries field (KNOWN: C03-map-entries-metadata) -/

/-- `m: Map(entries{"foo": "bar"}: Struct{key: Int8, value: Boolean?})` -/
def exMetaEntries : Field :=
  .mk "m" (.map (.mk "entries" (.struct (.cons (.mk "key" .int8 false []) (.cons (.mk "value" .boolean true []) .nil)))
    false [("foo", "bar")]) false) false []

def exMetaEntriesRun : R (Bool × Bool × Bool) := do
  let b0 ← newB "$.m" exMetaEntries
  let b1 ← push {} b0 (.map (.cons (.int .i8 1) (.bool true) .nil))
  let a ← finish {} b1
  pure (WFS exMetaEntries a, decide (typeOf a = exMetaEntries.dataType), WF exMetaEntries a)

/-- **known finding**: the field is ACCEPTED (today's code), the array is structurally valid, and its data type is not the
field's: the metadata of the entries field is gone (marrow's `MapMeta` has no room for it; `build_builder` copies name and
sorted flag only).  This is why `C03_wf'` carries `PlainF`; the witness shows the hypothesis cannot be dropped.  Not
repaired: refusing such fields would remove behaviour (schemas that came through other Arrow tools may carry metadata on
every field), see notes/C03.md. -/
theorem entries_metadata_not_WF : exMetaEntriesRun = .ok (true, false, false) ∧ ¬ Lemmas.C03.PlainF exMetaEntries := by
  refine ⟨by decide +kernel, ?_⟩
  simp [exMetaEntries, Lemmas.C03.PlainF, Lemmas.C03.PlainDT]

/-! ### non-vacuity of the type equality: a nested, decorated schema -/

/-- metadata at every level, a sorted map with renamed entries / key / value fields, a nullable union child, an
`UnknownVariant` placeholder, time unit / zone, decimal and dictionary parameters -/
def exTypedFields : List Field :=
  [.mk "m" (.map (.mk "kv" (.struct (.cons (.mk "k" .utf8 false [("a", "1")])
      (.cons (.mk "v" (.list (.mk "it" (.timestamp .microsecond (some "UTC")) true [("x", "y")])) true []) .nil))) false []) true)
      true [("top", "m")],
   .mk "u" (.union (.cons 0 (.mk "A" .int8 true [("q", "")]) (.cons 1 (.mk "B" .null true [(STRATEGY_KEY, "UnknownVariant")]) .nil)) .dense)
      false [],
   .mk "d" (.dictionary .uint16 .largeUtf8) true [],
   .mk "x" (.decimal128 7 (-2)) true []]

def exTypedRows : List SVal :=
  [.record "R" (.cons "m" 0 (.map (.cons (.str "k1") (.seq (.cons (.int .i64 5) (.cons .none .nil))) .nil))
     (.cons "u" 1 (.newtypeVariant "E" 0 "A" .none) (.cons "d" 2 (.str "s") (.cons "x" 3 .none .nil)))),
   .record "R" (.cons "m" 0 .none
     (.cons "u" 1 (.newtypeVariant "E" 0 "A" (.int .i8 3)) (.cons "d" 2 .none (.cons "x" 3 .none .nil))))]

/-- the run succeeds and every array is `WF` — in particular `typeOf` of every array is the field's data type -/
theorem exTyped_ok :
    (match toMarrow {} exTypedFields exTypedRows with
      | .ok arrs => arrs.length == 4 && (exTypedFields.zip arrs).all (fun (f, a) => WF f a && decide (typeOf a = f.dataType))
      | .error _ => false) = true := by decide +kernel

end SaModel.Props.C03
