import SaModel.Lemmas.C04Unser
import SaModel.Lemmas.C04Interp
import SaModel.Lemmas.C04CastLv
import SaModel.Lemmas.C04Schema
import SaModel.Lemmas.C04Reader
import SaModel.Lemmas.C04Root
import SaModel.Lemmas.C04Safe
import SaModel.Props.C01Obs
import SaModel.Props.C02
import SaModel.Props.C08
import SaModel.Props.C13
import SaModel.Lemmas.C04Norm
import SaModel.Lemmas.C04FromType
import SaModel.Lemmas.C04Excl
import SaModel.Lemmas.C04ScopeLv
import SaModel.Lemmas.C04SafeDT
import SaModel.Lemmas.C04Physical
import SaModel.Lemmas.C04PhysSize
import SaModel.Props.C03Read
import SaModel.Lemmas.C04ExtSchema
/-
C04 — round trip through a type-traced schema is the identity.

The end-to-end statement composes four facts about the REAL model functions (no interface hypothesis is left):

  (H8, C08)  the tracer returns the documented mapping:   `C04_fromType_mapping` (every type, enums included), and it
             succeeds on every walkable, mappable type within the pass budget: `C04_fromType_ok`
  (H1, C01)  the builder refines the documented mapping:  `Props.C01.C01_build_decode'` + `Props.C01.C03_wfS'` (the hidden-rows
             refinement, Props/C01Obs.lean: NO `Safe` hypothesis), their schema side conditions (`SchemaOKF`, `coveredF`)
             proved for every traced schema (`mapping_side`); the hypothesis `ExtOK` of `C03_wfS'` (the external chrono
             parsers return values in range) is discharged for EVERY `ext`: a traced schema has no temporal column
             (`mapping_noTemporal`), so the parsers are never consulted and `to_marrow` is the same function under
             `refuseExt ext`, whose parsers refuse everything (`toMarrow_refuse_traced`, `refuseExt_ok`;
             SaModel/Lemmas/C04Ext*.lean)
  (H2, C02)  the reader returns the cast of the decoded content: `Props.C02.read_typed_decode` with `cast_lvO`,
             `newFields_of_wf`, `utf8Ok_lvO`
  (Hinv)     **the Rust → Arrow mapping is injective up to the documented normalisation**:
                 interp (mapping ty) (ser ty v) = ok (lvO o ty v)      `interp_serO`  (SaModel/Lemmas/C04Interp.lean)
                 unser ty (lv ty v)            = some (norm ty v)      `unser_lv`     (SaModel/Lemmas/C04Unser.lean)

`lvO o` is the option-dependent logical value (an enum without data is stored as its variant NAME under
`enums_without_data_as_strings`; otherwise `lvO o = lv`).  `norm` is the identity except where `Some(v)` is stored as a null
(`Some(None)`, `Some(())`): `norm_eq_self`.  The documented exclusion (`None` at a position traced to a Union) is `inScopeU`,
proved equal to the driver's run-time predicate `noneAtUnion … = false` (`C04_inScopeU_iff`).
The acceptance half and the end-to-end theorems are in Props/C04Accept.lean.
-/
namespace SaModel.Props.C04
open SaModel SaModel.Build SaModel.Spec SaModel.Roundtrip

/-! ### the injectivity lemma (the mathematical heart of C04) -/

/-- **Reading back the logical value gives the normalised value** — whole grammar (scalars, `()`, Option incl. the
collapse of nested `None`, Vec, tuples / arrays, structs, tuple / newtype / unit structs, enums with the four variant
kinds, maps). -/
theorem C04_unser_lv (t : Ty) (v : Val) (h : wt t v = true) : unser t (lv t v) = some (norm t v) :=
  unser_lv t v h

/-- **Injectivity up to normalisation**: two values of a type with the same logical content are equal after the
documented normalisation. -/
theorem C04_mapping_injective (t : Ty) (v w : Val) (hv : wt t v = true) (hw : wt t w = true)
    (h : lv t v = lv t w) : norm t v = norm t w := by
  have a := unser_lv t v hv
  have b := unser_lv t w hw
  rw [h, b] at a
  exact (Option.some.inj a).symm

/-! ### the first half of the injectivity lemma, and the composition with it discharged -/

/-- **`Spec.interp ∘ ser = lvO o` at the traced field**, for every option set, on the whole grammar `fragE`: scalars, `()`,
unit structs, Option, newtype structs, Vec, maps, structs (fields matched by name, `skip_serializing_if` fields left out),
tuples / tuple structs / arrays (positional names "0", "1", … are distinct: `Nat.repr` is injective) and enums — traced to
a Union (unit / newtype / tuple / struct variants) or, for an enum without data under `enums_without_data_as_strings`, to
a Dictionary column holding the variant NAME (`lvO o` is the option-dependent logical value; `lvO o = lv` where no such
enum occurs).  Exclusions `inScopeO o t v`: the documented one — no `None` (or skipped field) at a position traced to a
Union (`inScopeU`, = the driver's `noneAtUnion`, `C04_inScopeU_iff`) — and `strOK`: a value of a string-stored enum is a
unit variant (vacuous unless a data-less enum has a newtype variant around a data-less type, `enum E { A, B(()) }`, which
the tracer counts as "without data" and the string builder refuses: crate defect, notes/C04.md). -/
theorem C04_interp_ser (ext : Ext) (o : TraceOpts) (t : Ty) (v : Val) (dt : DataType) (nb : Bool) (md : Metadata)
    (hf : fragE t = true) (hw : wt t v = true) (hs : inScopeO o t v = true) (hm : mappingDT o t = (dt, nb, md)) :
    interpDT ext dt nb md (ser t v) = .ok (lvO o t v) := by
  simp only [inScopeO, Bool.and_eq_true] at hs
  exact interp_serO ext o t v nb dt nb md hf hw hs.1 hs.2 hm (fun h => h)

/-- the Union form: under the stronger exclusion `inScope` (no value of a string-stored enum at all) the logical value is
the option-independent `lv` -/
theorem C04_interp_ser_union (ext : Ext) (o : TraceOpts) (t : Ty) (v : Val) (dt : DataType) (nb : Bool) (md : Metadata)
    (hf : fragE t = true) (hw : wt t v = true) (hs : inScope o t v = true) (hm : mappingDT o t = (dt, nb, md)) :
    interpDT ext dt nb md (ser t v) = .ok (lv t v) := by
  obtain ⟨h1, h2, h3⟩ := scope_of_inScope o t v hs
  rw [← h3]
  exact interp_serO ext o t v nb dt nb md hf hw h1 h2 hm (fun h => h)

/-- the exclusions are vacuous for enum-free types of the grammar (`frag`) -/
theorem C04_frag_inScope (o : TraceOpts) (t : Ty) (v : Val) (hf : frag t = true) : fragE t = true ∧ inScopeO o t v = true :=
  ⟨frag_fragE t hf, frag_inScopeO o t v hf⟩

/-- **the type-directed exclusion is the driver's run-time exclusion**: `inScopeU o t v` (no `None` / skipped field at a
position traced to a Union) holds exactly when `noneAtUnion` — what `lean/Driver/Suites/Roundtrip.lean` decides on the
traced schema and the recorded serialization to mark a case `excl:option-union-none` — does not fire -/
theorem C04_inScopeU_iff (o : TraceOpts) (t : Ty) (v : Val) (hf : fragE t = true) (hw : wt t v = true) :
    inScopeU o t v = !noneAtUnion (mappingDT o t).1 (ser t v) :=
  inScopeU_iff o t v hf hw

theorem Fields.ofList_toList : ∀ (l : Fields), Fields.ofList l.toList = l
  | .nil => rfl
  | .cons f r => by simp [Fields.toList, Fields.ofList, Fields.ofList_toList r]

/-- at the root: the same exclusion against the schema `from_type` returns, as the driver computes it (`noneAtUnionRow`) -/
theorem C04_inScopeU_row (o : TraceOpts) (n : String) (fs : TFields) (v : Val) (fields : List Field)
    (hf : fragE (.struct n fs) = true) (hw : wt (.struct n fs) v = true) (hroot : mappingRoot o (.struct n fs) = some fields) :
    inScopeU o (.struct n fs) v = !noneAtUnionRow fields (ser (.struct n fs) v) := by
  have hfields : fields = (mappingFields o fs).toList := by
    simp [mappingRoot, mappingDT] at hroot; exact hroot.symm
  subst hfields
  rw [C04_inScopeU_iff o _ v hf hw]
  simp [noneAtUnionRow, Fields.ofList_toList, mappingDT]

/-- at the root: a record type of the grammar (enums included) against the schema `from_type` returns for it -/
theorem C04_interpRow (ext : Ext) (o : TraceOpts) (n : String) (fs : TFields) (v : Val) (fields : List Field)
    (hf : fragE (.struct n fs) = true) (hw : wt (.struct n fs) v = true) (hs : inScopeO o (.struct n fs) v = true)
    (hroot : mappingRoot o (.struct n fs) = some fields) :
    interpRow ext fields (ser (.struct n fs) v) = .ok (lvO o (.struct n fs) v) := by
  have hfields : fields = (mappingFields o fs).toList := by
    simp [mappingRoot, mappingDT] at hroot; exact hroot.symm
  subst hfields
  unfold interpRow
  rw [Fields.ofList_toList]
  exact C04_interp_ser ext o (.struct n fs) v _ false [] hf hw hs (by simp [mappingDT])

/-! ### the round trip through the real models -/

/-- the tracer's result is the documented mapping of C04, for EVERY type (enums included): `Props.C08.C08_from_type`
(∀ types, ∀ options) composed with `fromTypeSpec_eq` (the two statements of the documentation agree) -/
theorem C04_fromType_mapping (c : Trace.Code) (O : Trace.Options) (h0 : O.overwrites = []) (t : Ty)
    (fields : List Field) (h : Trace.fromType c O (toTraceTy t) = .ok fields) :
    mappingRoot (viewOpts O) t = some fields := by
  have hag := Props.C08.C08_from_type c O (toTraceTy t)
  rw [h] at hag
  cases hs : Trace.Spec.fromTypeSpec O (toTraceTy t) with
  | ok fields' =>
    rw [hs] at hag
    have : fields = fields' := hag
    subst this
    exact fromTypeSpec_eq O h0 t fields hs
  | error e => rw [hs] at hag; exact absurd hag (by simp [Lemmas.C08.Agree])

/-- the fields `from_type` returned for a record type are the documented mapping of its fields -/
theorem C04_fromType_fields (c : Trace.Code) (O : Trace.Options) (h0 : O.overwrites = []) (n : String) (fs : TFields)
    (fields : List Field) (h : Trace.fromType c O (toTraceTy (.struct n fs)) = .ok fields) :
    fields = (mappingFields (viewOpts O) fs).toList := by
  have hroot := C04_fromType_mapping c O h0 _ fields h
  simp [mappingRoot, mappingDT] at hroot; exact hroot.symm

/-- **`from_type` succeeds** on every record type that can be walked (`Spec.walkable`: no container deeper than 20
levels, no map under `map_as_struct`, no enum without variants) and mapped (`mappable`: the documented refusals — a
Null-typed position only with `allow_null_fields`, a data-less enum only with `enums_without_data_as_strings` or
`allow_null_fields`, at most 128 variants), within the pass budget (one pass per enum variant, `Spec.passes`), and returns
the documented mapping.  From C08 (`C08_from_type`) and `mapping_ok`. -/
theorem C04_fromType_ok (c : Trace.Code) (O : Trace.Options) (h0 : O.overwrites = []) (n : String) (fs : TFields)
    (hw : Trace.Spec.walkable O "$" (toTraceTy (.struct n fs)) = true)
    (hm : mappable (viewOpts O) (.struct n fs) = true)
    (hb : Trace.Spec.passes (toTraceTy (.struct n fs)) ≤ O.from_type_budget) :
    Trace.fromType c O (toTraceTy (.struct n fs)) = .ok (mappingFields (viewOpts O) fs).toList :=
  fromType_ok c O h0 n fs hw hm hb

/-- C01's `Safe` of the fresh builder of a traced schema IS the decidable condition `safeFs` of the schema (no dictionary
with non-nullable keys below a nullable struct, through struct children and the first variant of a union;
`Lemmas/C04SafeDT.lean`).  NOT a hypothesis of any theorem of C04 (the builder side is the hidden-rows refinement);
documentation of what C01's per-builder append-only statement excludes: `exSafeFalse` in Props/C04Accept.lean is outside
`Safe` and inside the theorems of C04. -/
theorem C04_safe_traced_iff (o : TraceOpts) (fs : TFields) (fields : List Field) (hfields : fields = (mappingFields o fs).toList) :
    ∀ root0, newRoot fields = .ok root0 → (Safe root0 ↔ safeFs (mappingFields o fs) = true) := by
  have hside := sideFs_toList (mappingFields o fs) (mappingFields_side o fs)
  rw [← hfields] at hside
  intro root0 h0
  have := safe_schema_iff fields (List.all_eq_true.mpr fun f hf => (hside f hf).2) root0 h0
  rwa [hfields, Fields.ofList_toList] at this

/-- the core of the round trip in its general form, with the array-side premise `hphys` (`Read.physical` of the columns,
given their well-formedness) left open: `from_marrow`'s checks pass with record count `vs.length`, the root reader is
constructed, and the typed read of every index returns the normalised value.  `C04_roundtrip_core_fields` /
`C04_roundtrip_core` below discharge `hphys` from the input-side bound `vs.length ≤ i64::MAX` (`C04_physical_fields`);
`C04_roundtrip_bulk_plain` discharges it without any bound for dictionary-free schemas (`physical_traced`).
No hypothesis about `ext`: the schema has no temporal column, so the run is
replayed under `refuseExt ext` (`toMarrow_refuse_traced`), for which `ExtOK` holds (`refuseExt_ok`). -/
theorem C04_roundtrip_core_fields_of_physical (O : Trace.Options) (ext : Ext) (n : String) (fs : TFields) (vs : List Val)
    (fields : List Field) (arrs : List Arr)
    (hfrag : fragE (.struct n fs) = true) (hne : fs ≠ .nil)
    (hwt : ∀ v ∈ vs, wt (.struct n fs) v = true)
    (hsc : ∀ v ∈ vs, inScopeO (viewOpts O) (.struct n fs) v = true)
    (hphys : Spec.wfFields (mappingFields (viewOpts O) fs) (zipCols fields arrs) vs.length = true →
      Read.physicalFields (zipCols fields arrs) = true)
    (hfields : fields = (mappingFields (viewOpts O) fs).toList)
    (htm : toMarrow ext fields (vs.map (ser (.struct n fs))) = .ok arrs) :
    Access.new true fields.length (arrs.map Read.vlen) = .ok vs.length ∧
    Read.new Read.Fixes.all (rootArr fields arrs vs.length) = .ok () ∧
    ∀ (i : Nat) (hi : i < vs.length),
      Read.readAs Read.Fixes.all (toTarget (.struct n fs)) (rootArr fields arrs vs.length) i =
        .ok (dvalOf (.struct n fs) (norm (.struct n fs) vs[i])) := by
  let t : Ty := .struct n fs
  let o := viewOpts O
  have hroot : mappingRoot o t = some fields := by simp [mappingRoot, mappingDT, hfields, t, o]
  have hofl : Fields.ofList fields = mappingFields o fs := by rw [hfields]; exact Fields.ofList_toList _
  -- no temporal column in a traced schema: the chrono parsers of `ext` are never consulted — replace them by refusing ones
  have htm' : toMarrow (refuseExt ext) fields (vs.map (ser t)) = .ok arrs := by
    rw [← toMarrow_refuse_traced ext o fs fields hfields]; exact htm
  have hext : Lemmas.C03.ExtOK (refuseExt ext) := refuseExt_ok ext
  -- side conditions of C01 / C03
  have hside := sideFs_toList (mappingFields o fs) (mappingFields_side o fs)
  rw [← hfields] at hside
  have hser : ∀ x ∈ vs.map (ser t), Build.noRaw x = true ∧ Lemmas.C03.SValOK x := by
    intro x hx
    obtain ⟨v, hv, rfl⟩ := List.mem_map.mp hx
    exact ser_ok t v (hwt v hv)
  obtain ⟨hlen, cols, hc1, hc2, hc3, hc4⟩ := Props.C01.C01_build_decode' (refuseExt ext) fields (vs.map (ser t)) arrs
    (fun f hf => (hside f hf).1)
    (List.all_eq_true.mpr fun f hf => (hside f hf).2) (fun x hx => Build.noRaw_ssa x (hser x hx).1)
    (Or.inl fun x hx => (hser x hx).1) htm'
  obtain ⟨_, hwf⟩ := Props.C01.C03_wfS' (refuseExt ext) fields (vs.map (ser t)) arrs
    (fun f hf => (hside f hf).1) (Or.inr (List.all_eq_true.mpr fun f hf => (hside f hf).2)) hext (fun x hx => (hser x hx).2) htm'
  have hrl : (vs.map (ser t)).length = vs.length := List.length_map _
  -- the root reader
  have hcols : Spec.wfFields (mappingFields o fs) (zipCols fields arrs) vs.length = true := by
    rw [← hofl]
    exact zip_wf vs.length fields arrs hlen (fun j f a hf ha => by
      have := hwf j f a hf ha; rw [hrl] at this; exact this)
  have hnewF : Read.newFields Read.Fixes.all (zipCols fields arrs) = .ok () :=
    newFields_of_wf o fs _ _ hcols
  have hnonempty : arrs ≠ [] := by
    intro he
    rw [he] at hlen
    have : fields = [] := List.length_eq_zero_iff.mp hlen.symm
    rw [this] at hfields
    cases fs with
    | nil => exact hne rfl
    | cons n' s' t' r' =>
      rcases hm : mappingDT o t' with ⟨dt, nb, md⟩
      simp [mappingFields, hm, Fields.toList] at hfields
  have hlens : ∀ x ∈ arrs.map Read.vlen, x = vs.length := by
    rw [zip_vlen fields arrs hlen hnewF]
    intro x hx
    obtain ⟨a, ha, rfl⟩ := List.mem_map.mp hx
    obtain ⟨j, hj, rfl⟩ := List.getElem_of_mem ha
    have hjf : j < fields.length := by omega
    have := (hwf j fields[j] arrs[j] (List.getElem?_eq_getElem hjf) (List.getElem?_eq_getElem hj)).2
    rw [← (Spec.decodeAll_spec arrs[j]).1, this, hrl]
  have hacc : Access.new true fields.length (arrs.map Read.vlen) = .ok vs.length :=
    access_new vs.length _ _ (by simp [hlen]) (by simpa using hnonempty) hlens
  have hnew : Read.new Read.Fixes.all (rootArr fields arrs vs.length) = .ok () := by
    simpa [rootArr, Read.new] using hnewF
  refine ⟨hacc, hnew, ?_⟩
  intro i hi
  have hsi := hsc _ (List.getElem_mem hi)
  -- the decoded record is the logical value of the input
  have hinterp := C04_interpRow (refuseExt ext) o n fs vs[i] fields hfrag (hwt _ (List.getElem_mem hi)) hsi hroot
  have hrow := hc4 i (by rw [hrl]; exact hi)
  rw [List.getElem_map, hinterp] at hrow
  have hdec : Spec.decodeAt (rootArr fields arrs vs.length) i = .ok (lvO o t vs[i]) := by
    have hz := zip_decode i fields arrs cols hc1 hc2 (fun c' hc' => by rw [hc3 c' hc', hrl]; exact hi)
    simp only [rootArr, Spec.decodeAt, hi, if_true, Spec.withValidity, Spec.isValid, hz, bind, Except.bind, pure, Except.pure]
    simp only [Except.ok.injEq] at hrow
    simpa using hrow.symm
  have hwfroot : Spec.wf (.struct (mappingFields o fs)) false (rootArr fields arrs vs.length) = true := by
    simp [rootArr, Spec.wf, Spec.validityOk, hcols]
  simp only [inScopeO, Bool.and_eq_true] at hsi
  have hcast := cast_lvO o t vs[i] (rootArr fields arrs vs.length) (.struct (mappingFields o fs)) false [] false hfrag
    (hwt _ (List.getElem_mem hi)) hsi.1 hsi.2 (by simp [t, mappingDT]) hwfroot
  exact Props.C02.read_typed_decode (toTarget t) (rootArr fields arrs vs.length) i (lvO o t vs[i]) _ hdec
    (by simpa [rootArr, Read.new] using hnewF)
    (by simpa [rootArr, Read.physical] using hphys hcols)
    (utf8Ok_lvO o t vs[i]) hcast

/-- `C04_physical` against the documented mapping itself (no hypothesis about `from_type`) -/
theorem C04_physical_fields (O : Trace.Options) (ext : Ext) (n : String) (fs : TFields) (vs : List Val)
    (fields : List Field) (arrs : List Arr)
    (hwt : ∀ v ∈ vs, wt (.struct n fs) v = true)
    (hlen : vs.length ≤ 9223372036854775807)
    (hfields : fields = (mappingFields (viewOpts O) fs).toList)
    (htm : toMarrow ext fields (vs.map (ser (.struct n fs))) = .ok arrs) : ∀ a ∈ arrs, Read.physical a = true := by
  have hside := sideFs_toList (mappingFields (viewOpts O) fs) (mappingFields_side (viewOpts O) fs)
  rw [← hfields] at hside
  refine Props.C03.toMarrow_physical ext fields (vs.map (ser (.struct n fs))) arrs
    (List.all_eq_true.mpr fun f hf => (hside f hf).2) ?_ ?_ htm
  · intro x hx
    obtain ⟨v, hv, rfl⟩ := List.mem_map.mp hx
    exact (ser_ok _ v (hwt v hv)).1
  · rw [List.length_map, hfields]
    exact mapped_sizeOK (viewOpts O) fs vs.length hlen

/-- **the core of the round trip** (`C04_roundtrip`, `C04_roundtrip_bulk` are its two front ends): `from_marrow`'s checks
pass with record count `vs.length`, the root reader is constructed, and the typed read of every index returns the
normalised value.  No premise about the arrays: `Read.physical` is derived inside from the input-side bound `hlen` (at most
`i64::MAX` records; `C04_physical_fields`). -/
theorem C04_roundtrip_core_fields (O : Trace.Options) (ext : Ext) (n : String) (fs : TFields) (vs : List Val)
    (fields : List Field) (arrs : List Arr)
    (hfrag : fragE (.struct n fs) = true) (hne : fs ≠ .nil)
    (hwt : ∀ v ∈ vs, wt (.struct n fs) v = true)
    (hsc : ∀ v ∈ vs, inScopeO (viewOpts O) (.struct n fs) v = true)
    (hlen : vs.length ≤ 9223372036854775807)
    (hfields : fields = (mappingFields (viewOpts O) fs).toList)
    (htm : toMarrow ext fields (vs.map (ser (.struct n fs))) = .ok arrs) :
    Access.new true fields.length (arrs.map Read.vlen) = .ok vs.length ∧
    Read.new Read.Fixes.all (rootArr fields arrs vs.length) = .ok () ∧
    ∀ (i : Nat) (hi : i < vs.length),
      Read.readAs Read.Fixes.all (toTarget (.struct n fs)) (rootArr fields arrs vs.length) i =
        .ok (dvalOf (.struct n fs) (norm (.struct n fs) vs[i])) :=
  C04_roundtrip_core_fields_of_physical O ext n fs vs fields arrs hfrag hne hwt hsc
    (fun _ => zip_physical fields arrs (C04_physical_fields O ext n fs vs fields arrs hwt hlen hfields htm)) hfields htm

/-- the core against what `from_type` returned (`C04_roundtrip_core_fields` with `C04_fromType_fields`) -/
theorem C04_roundtrip_core (c : Trace.Code) (O : Trace.Options) (ext : Ext) (n : String) (fs : TFields) (vs : List Val)
    (fields : List Field) (arrs : List Arr)
    (h0 : O.overwrites = []) (hfrag : fragE (.struct n fs) = true) (hne : fs ≠ .nil)
    (hwt : ∀ v ∈ vs, wt (.struct n fs) v = true)
    (hsc : ∀ v ∈ vs, inScopeO (viewOpts O) (.struct n fs) v = true)
    (hlen : vs.length ≤ 9223372036854775807)
    (hft : Trace.fromType c O (toTraceTy (.struct n fs)) = .ok fields)
    (htm : toMarrow ext fields (vs.map (ser (.struct n fs))) = .ok arrs) :
    Access.new true fields.length (arrs.map Read.vlen) = .ok vs.length ∧
    Read.new Read.Fixes.all (rootArr fields arrs vs.length) = .ok () ∧
    ∀ (i : Nat) (hi : i < vs.length),
      Read.readAs Read.Fixes.all (toTarget (.struct n fs)) (rootArr fields arrs vs.length) i =
        .ok (dvalOf (.struct n fs) (norm (.struct n fs) vs[i])) :=
  C04_roundtrip_core_fields O ext n fs vs fields arrs hfrag hne hwt hsc hlen (C04_fromType_fields c O h0 n fs fields hft) htm

/-- **`Read.physical` of the arrays built against a type-traced schema** — the size precondition of the reader, EVERY option
(dictionary-encoded strings and string-stored enums included): at most `i64::MAX` records.  `Props.C03.toMarrow_physical` (the
builders' counting invariant: a dictionary holds at most as many values as keys were pushed) with its size condition
discharged from the shape of the documented mapping (never a FixedSizeList: `mapped_sizeOK`).  Its form against the mapping,
`C04_physical_fields`, is what the cores `C04_roundtrip_core` / `C04_roundtrip_core_fields` use to derive `Read.physical`. -/
theorem C04_physical (c : Trace.Code) (O : Trace.Options) (ext : Ext) (n : String) (fs : TFields) (vs : List Val)
    (fields : List Field) (arrs : List Arr)
    (h0 : O.overwrites = [])
    (hwt : ∀ v ∈ vs, wt (.struct n fs) v = true)
    (hlen : vs.length ≤ 9223372036854775807)
    (hft : Trace.fromType c O (toTraceTy (.struct n fs)) = .ok fields)
    (htm : toMarrow ext fields (vs.map (ser (.struct n fs))) = .ok arrs) : ∀ a ∈ arrs, Read.physical a = true := by
  have hfields : fields = (mappingFields (viewOpts O) fs).toList := C04_fromType_fields c O h0 n fs fields hft
  have hside := sideFs_toList (mappingFields (viewOpts O) fs) (mappingFields_side (viewOpts O) fs)
  rw [← hfields] at hside
  refine Props.C03.toMarrow_physical ext fields (vs.map (ser (.struct n fs))) arrs
    (List.all_eq_true.mpr fun f hf => (hside f hf).2) ?_ ?_ htm
  · intro x hx
    obtain ⟨v, hv, rfl⟩ := List.mem_map.mp hx
    exact (ser_ok _ v (hwt v hv)).1
  · rw [List.length_map, hfields]
    exact mapped_sizeOK (viewOpts O) fs vs.length hlen

/-- **C04, through the real models** (`Trace.fromType`, `Build.toMarrow`, the reader model `Read.readAs` behind
`readRecord` = `Deserializer::from_marrow` + item `i` + `T::deserialize`).

For every record type `t = struct n fs` of the grammar `fragE` (scalars, `()`, unit structs, Option, newtype structs,
Vec, maps, tuples / tuple structs / arrays, structs with `rename` / `skip_serializing_if`, ENUMS with unit / newtype /
tuple / struct variants — as a Union or, without data under `enums_without_data_as_strings`, as strings; at least one
field), all tracing options `O` without overwrites (any budget, every flag), every code variant `c` of the tracer, every
batch `vs` of well-typed values in scope (`inScopeO`: the documented exclusion `Option<enum → Union>` = `None`, which is
exactly the driver's `noneAtUnion` — `C04_inScopeU_iff` —, and the string-enum defect `strOK`):

  if    `from_type` returns `fields`                        (`Trace.fromType c O (toTraceTy t) = ok fields`)
  and   serializing the batch against them returns `arrs`   (`toMarrow ext fields (vs.map (ser t)) = ok arrs`)
  then  reading record `i` back at the type's own target returns the value, normalised:
        `readRecord (toTarget t) fields arrs i = ok (dvalOf t (norm t vs[i]))`   for every `i < vs.length`.

`norm` is the documented collapse of `Some(None)` / `Some(())` to `None`, the identity elsewhere; `dvalOf` is the
rendering of a typed value as the visitor calls of a typed read.

NO `Safe` hypothesis (no `safeFs (mappingFields (viewOpts O) fs)`): a dictionary-encoded `String` directly
below an `Option<struct>` — where C01's per-builder append-only statement is false (`dict_placeholder_unstable`; witness
`exSafeFalse` in Props/C04Accept.lean) — is covered by the hidden-rows refinement (`C01_build_decode'`, `C03_wfS'` through its
`coveredF` alternative: every traced schema is `coveredF`).

`Read.physical` (the value count of every Dictionary column fits `i64`) is not a hypothesis: it is derived from the
input-side bound `hlen` (at most `i64::MAX` records; `C04_physical`).
NO hypothesis about `ext` (no `ExtOK ext`, "the external chrono parsers return values in range"): no temporal column
occurs in a traced schema (`mapping_noTemporal`), the parsers are never consulted
(`toMarrow_refuse_traced`), and `Props.C01.C03_wfS'` is applied to `refuseExt ext`, whose parsers refuse (`refuseExt_ok`). -/
theorem C04_roundtrip (c : Trace.Code) (O : Trace.Options) (ext : Ext) (n : String) (fs : TFields) (vs : List Val)
    (fields : List Field) (arrs : List Arr)
    (h0 : O.overwrites = []) (hfrag : fragE (.struct n fs) = true) (hne : fs ≠ .nil)
    (hwt : ∀ v ∈ vs, wt (.struct n fs) v = true)
    (hsc : ∀ v ∈ vs, inScopeO (viewOpts O) (.struct n fs) v = true)
    (hlen : vs.length ≤ 9223372036854775807)
    (hft : Trace.fromType c O (toTraceTy (.struct n fs)) = .ok fields)
    (htm : toMarrow ext fields (vs.map (ser (.struct n fs))) = .ok arrs) :
    ∀ (i : Nat) (hi : i < vs.length),
      readRecord (toTarget (.struct n fs)) fields arrs i = .ok (dvalOf (.struct n fs) (norm (.struct n fs) vs[i])) := by
  intro i hi
  obtain ⟨hacc, hnew, hread⟩ := C04_roundtrip_core c O ext n fs vs fields arrs h0 hfrag hne hwt hsc hlen hft htm
  simp only [readRecord, hacc, bind, Except.bind]
  rw [hnew]
  simp only [Access.getIdx, ge_iff_le, Nat.not_le.mpr hi, if_false]
  exact hread i hi

theorem mapM_ok_of_forall {α β} (f : α → R β) (g : α → β) : ∀ (l : List α), (∀ x ∈ l, f x = .ok (g x)) → l.mapM f = .ok (l.map g)
  | [], _ => rfl
  | x :: xs, h => by
    rw [List.mapM_cons, h x (by simp), mapM_ok_of_forall f g xs (fun y hy => h y (by simp [hy]))]
    rfl

/-- **Bulk form**: under the hypotheses of `C04_roundtrip`, reading ALL records at once
(`Vec<T>::deserialize(Deserializer::from_marrow(fields, views))`: the indices `Access.bulk len` of C13, each read into the
type's target) returns the whole batch, normalised, in order. -/
theorem C04_roundtrip_bulk (c : Trace.Code) (O : Trace.Options) (ext : Ext) (n : String) (fs : TFields) (vs : List Val)
    (fields : List Field) (arrs : List Arr)
    (h0 : O.overwrites = []) (hfrag : fragE (.struct n fs) = true) (hne : fs ≠ .nil)
    (hwt : ∀ v ∈ vs, wt (.struct n fs) v = true)
    (hsc : ∀ v ∈ vs, inScopeO (viewOpts O) (.struct n fs) v = true)
    (hlen : vs.length ≤ 9223372036854775807)
    (hft : Trace.fromType c O (toTraceTy (.struct n fs)) = .ok fields)
    (htm : toMarrow ext fields (vs.map (ser (.struct n fs))) = .ok arrs) :
    readAll (toTarget (.struct n fs)) fields arrs = .ok (vs.map fun v => dvalOf (.struct n fs) (norm (.struct n fs) v)) := by
  obtain ⟨hacc, hnew, hread⟩ := C04_roundtrip_core c O ext n fs vs fields arrs h0 hfrag hne hwt hsc hlen hft htm
  simp only [readAll, hacc, bind, Except.bind]
  rw [hnew]
  simp only [Props.C13.bulk_eq_items]
  rw [mapM_ok_of_forall _ (fun i => dvalOf (.struct n fs) (norm (.struct n fs) (vs.getD i .unit))) (List.range vs.length)
    (fun i hi => by
      have hi' : i < vs.length := List.mem_range.mp hi
      rw [hread i hi']
      simp [List.getD_eq_getElem?_getD, List.getElem?_eq_getElem hi'])]
  congr 1
  apply List.ext_getElem
  · simp
  · intro i h1 h2
    have hi' : i < vs.length := by simpa using h1
    simp [List.getD_eq_getElem?_getD, List.getElem?_eq_getElem hi']

/-- **The round trip is literally the identity** where no `Option` sits directly over a nullable position
(`plainOpt`: no `Option<Option<_>>`, `Option<()>`, …): `norm_eq_self` (whole grammar) removes the normalisation. -/
theorem C04_roundtrip_identity (c : Trace.Code) (O : Trace.Options) (ext : Ext) (n : String) (fs : TFields) (vs : List Val)
    (fields : List Field) (arrs : List Arr)
    (h0 : O.overwrites = []) (hfrag : fragE (.struct n fs) = true) (hplain : plainOpt (.struct n fs) = true) (hne : fs ≠ .nil)
    (hwt : ∀ v ∈ vs, wt (.struct n fs) v = true)
    (hsc : ∀ v ∈ vs, inScopeO (viewOpts O) (.struct n fs) v = true)
    (hlen : vs.length ≤ 9223372036854775807)
    (hft : Trace.fromType c O (toTraceTy (.struct n fs)) = .ok fields)
    (htm : toMarrow ext fields (vs.map (ser (.struct n fs))) = .ok arrs) :
    readAll (toTarget (.struct n fs)) fields arrs = .ok (vs.map (dvalOf (.struct n fs))) := by
  rw [C04_roundtrip_bulk c O ext n fs vs fields arrs h0 hfrag hne hwt hsc hlen hft htm]
  congr 1
  apply List.map_congr_left
  intro v hv
  rw [norm_eq_self _ v hplain (hwt v hv)]

/-- `norm` is the identity on well-typed values of types without `Option` directly over a nullable position — whole
grammar -/
theorem C04_norm_eq_self (t : Ty) (v : Val) (hp : plainOpt t = true) (hw : wt t v = true) : norm t v = v :=
  norm_eq_self t v hp hw

/-- the bulk round trip for traced schemas WITHOUT Dictionary columns (`string_dictionary_encoding` and
`enums_without_data_as_strings` off): `Read.physical` is derived (`physical_traced`: every
well-formed array of a dictionary-free traced schema is physical), no size bound on the batch; no hypothesis is left besides
the documented ones (any `ext`: the chrono parsers are never consulted, see `C04_roundtrip`) -/
theorem C04_roundtrip_bulk_plain (c : Trace.Code) (O : Trace.Options) (ext : Ext) (n : String) (fs : TFields) (vs : List Val)
    (fields : List Field) (arrs : List Arr)
    (h0 : O.overwrites = []) (hd : O.string_dictionary_encoding = false) (he : O.enums_without_data_as_strings = false)
    (hfrag : fragE (.struct n fs) = true) (hne : fs ≠ .nil)
    (hwt : ∀ v ∈ vs, wt (.struct n fs) v = true)
    (hsc : ∀ v ∈ vs, inScopeO (viewOpts O) (.struct n fs) v = true)
    (hft : Trace.fromType c O (toTraceTy (.struct n fs)) = .ok fields)
    (htm : toMarrow ext fields (vs.map (ser (.struct n fs))) = .ok arrs) :
    readAll (toTarget (.struct n fs)) fields arrs = .ok (vs.map fun v => dvalOf (.struct n fs) (norm (.struct n fs) v)) := by
  obtain ⟨hacc, hnew, hread⟩ := C04_roundtrip_core_fields_of_physical O ext n fs vs fields arrs hfrag hne hwt hsc
    (physical_traced (viewOpts O) hd he fs _ _) (C04_fromType_fields c O h0 n fs fields hft) htm
  simp only [readAll, hacc, bind, Except.bind]
  rw [hnew]
  simp only [Props.C13.bulk_eq_items]
  rw [mapM_ok_of_forall _ (fun i => dvalOf (.struct n fs) (norm (.struct n fs) (vs.getD i .unit))) (List.range vs.length)
    (fun i hi => by
      have hi' : i < vs.length := List.mem_range.mp hi
      rw [hread i hi']
      simp [List.getD_eq_getElem?_getD, List.getElem?_eq_getElem hi'])]
  congr 1
  apply List.ext_getElem
  · simp
  · intro i h1 h2
    have hi' : i < vs.length := by simpa using h1
    simp [List.getD_eq_getElem?_getD, List.getElem?_eq_getElem hi']

/-! ### non-vacuity -/

def exInner : Ty := .struct "Inner" (.cons "x" false (.prim (.int .i16)) (.cons "y" false (.prim .str) .nil))
def exEnum : Ty :=
  .enum "E" (.cons "Unit" .unit (.cons "New" (.newtype (.prim (.int .i32)))
    (.cons "Tup" (.tuple (.cons (.prim (.int .i8)) (.cons (.prim .str) .nil)))
    (.cons "S" (.struct (.cons "a" false (.prim .bool) (.cons "b" true (.option (.prim .f32)) .nil))) .nil))))
def exRoot : Ty :=
  .struct "Root" (.cons "a" false (.option (.option (.prim (.int .i32))))
    (.cons "v" false (.vec (.option exInner)) (.cons "e" false exEnum
    (.cons "m" false (.map (.prim .str) (.tuple (.cons (.prim .bool) (.cons (.prim .char) .nil))))
    (.cons "n" true (.option (.newtype "N" (.prim .bytes))) .nil)))))
def exVal1 : Val :=
  .struct (.cons (.some .none) (.cons (.vec (.cons (.some (.struct (.cons (.int 3) (.cons (.str "ab") .nil)))) (.cons .none .nil)))
    (.cons (.variant 3 (.cons (.bool true) (.cons .none .nil)))
    (.cons (.map (.cons (.str "k") (.tuple (.cons (.bool false) (.cons (.char 65) .nil))) .nil)) (.cons .none .nil)))))
def exVal2 : Val :=
  .struct (.cons (.some (.some (.int 7))) (.cons (.vec .nil) (.cons (.variant 2 (.cons (.int (-1)) (.cons (.str "ß") .nil)))
    (.cons (.map .nil) (.cons (.some (.newtype (.bytes [1, 2]))) .nil)))))
def exOpts : TraceOpts := { allowNullFields := true, mapAsStruct := false }

/-- a record type inside the enum-free fragment (nested Option, Vec of Option of struct, map with TUPLE values, skipped
field, newtype) -/
def exFragRoot : Ty :=
  .struct "Root" (.cons "a" false (.option (.option (.prim (.int .i32))))
    (.cons "v" false (.vec (.option exInner))
    (.cons "m" false (.map (.prim .str) (.tuple (.cons (.prim .bool) (.cons (.prim .char) .nil))))
    (.cons "n" true (.option (.newtype "N" (.prim .bytes))) .nil))))
def exFragVal : Val :=
  .struct (.cons (.some .none) (.cons (.vec (.cons (.some (.struct (.cons (.int 3) (.cons (.str "ab") .nil)))) (.cons .none .nil)))
    (.cons (.map (.cons (.str "k") (.tuple (.cons (.bool false) (.cons (.char 65) .nil))) .nil)) (.cons .none .nil))))
example : frag exFragRoot = true ∧ wt exFragRoot exFragVal = true := by decide +kernel
example : frag exRoot = false := by decide +kernel

/-! non-vacuity of `C04_roundtrip`: `exFragRoot` (nested Option, Vec of Option of struct, map, skipped field,
newtype over bytes) traced under `map_as_struct = false`, a batch of two values; every hypothesis is met (computed),
serialization succeeds, and the theorem gives the read results -/
def exO : Trace.Options := { map_as_struct := false, sequence_as_large_list := false }
def exFragVal2 : Val :=
  .struct (.cons (.some (.some (.int 7))) (.cons (.vec .nil) (.cons (.map .nil) (.cons (.some (.newtype (.bytes [1, 2]))) .nil))))
def exBatch : List Val := [exFragVal, exFragVal2]
def exFields : List Field := match Trace.fromType .fixed exO (toTraceTy exFragRoot) with | .ok fs => fs | .error _ => []
def exArrs : List Arr := match toMarrow {} exFields (exBatch.map (ser exFragRoot)) with | .ok a => a | .error _ => []

theorem exTrace : Trace.fromType .fixed exO (toTraceTy exFragRoot) = .ok exFields := by decide +kernel
theorem exBuild : toMarrow {} exFields (exBatch.map (ser exFragRoot)) = .ok exArrs := by decide +kernel

example : exFields.length = 4 ∧ exArrs.length = 4 ∧ (∀ v ∈ exBatch, wt exFragRoot v = true) ∧
    (∀ a ∈ exArrs, Read.physical a = true) ∧ norm exFragRoot exFragVal ≠ exFragVal := by decide +kernel

example : ∀ (i : Nat) (hi : i < exBatch.length),
    readRecord (toTarget exFragRoot) exFields exArrs i = .ok (dvalOf exFragRoot (norm exFragRoot exBatch[i])) := by
  exact C04_roundtrip .fixed exO {} "Root" _ exBatch exFields exArrs rfl (by decide +kernel) (by simp)
    (by decide +kernel) (by decide +kernel) (by decide +kernel) exTrace exBuild

/-- what comes back for the first record: `a: Some(None)` has collapsed to `None` (the documented normalisation), the
rest is the input -/
example : readRecord (toTarget exFragRoot) exFields exArrs 0 =
    .ok (.map (.cons (nameKey "a") .none
      (.cons (nameKey "v") (.seq (.cons (.some (.map (.cons (nameKey "x") (.int .i16 3)
          (.cons (nameKey "y") (.str .owned [97, 98]) .nil)))) (.cons .none .nil)))
      (.cons (nameKey "m") (.map (.cons (.str .owned [107]) (.seq (.cons (.bool false) (.cons (.char 65) .nil))) .nil))
      (.cons (nameKey "n") .none .nil))))) := by decide +kernel

def tfieldsOf : Ty → TFields
  | .struct _ fs => fs
  | _ => .nil

/-- non-vacuity of the bulk form: the whole batch comes back, normalised, in order -/
example : readAll (toTarget exFragRoot) exFields exArrs = .ok (exBatch.map fun v => dvalOf exFragRoot (norm exFragRoot v)) :=
  C04_roundtrip_bulk .fixed exO {} "Root" _ exBatch exFields exArrs rfl (by decide +kernel) (by simp)
    (by decide +kernel) (by decide +kernel) (by decide +kernel) exTrace exBuild

/-! non-vacuity of `C04_roundtrip_identity` / `C04_norm_eq_self`: a record type without `Option` over a nullable
position (an Option of a scalar, a tuple, a Vec of Option of struct): the batch comes back as it is -/
def exPlainRoot : Ty :=
  .struct "P" (.cons "a" false (.option (.prim (.int .i32)))
    (.cons "t" false (.tuple (.cons (.prim .bool) (.cons (.prim .str) .nil)))
    (.cons "v" false (.vec (.option exInner)) .nil)))
def exPlainBatch : List Val :=
  [.struct (.cons .none (.cons (.tuple (.cons (.bool true) (.cons (.str "x") .nil)))
     (.cons (.vec (.cons (.some (.struct (.cons (.int 3) (.cons (.str "ab") .nil)))) (.cons .none .nil))) .nil))),
   .struct (.cons (.some (.int 7)) (.cons (.tuple (.cons (.bool false) (.cons (.str "") .nil))) (.cons (.vec .nil) .nil)))]
def exPlainFields : List Field := match Trace.fromType .fixed exO (toTraceTy exPlainRoot) with | .ok fs => fs | .error _ => []
def exPlainArrs : List Arr := match toMarrow {} exPlainFields (exPlainBatch.map (ser exPlainRoot)) with | .ok a => a | .error _ => []
theorem exPlainTrace : Trace.fromType .fixed exO (toTraceTy exPlainRoot) = .ok exPlainFields := by decide +kernel
theorem exPlainBuild : toMarrow {} exPlainFields (exPlainBatch.map (ser exPlainRoot)) = .ok exPlainArrs := by decide +kernel
example : plainOpt exPlainRoot = true ∧ plainOpt exFragRoot = false ∧ exPlainFields.length = 3 := by decide +kernel
example : readAll (toTarget exPlainRoot) exPlainFields exPlainArrs = .ok (exPlainBatch.map (dvalOf exPlainRoot)) :=
  C04_roundtrip_identity .fixed exO {} "P" _ exPlainBatch exPlainFields exPlainArrs rfl (by decide +kernel)
    (by decide +kernel) (by simp) (by decide +kernel) (by decide +kernel) (by decide +kernel)
    exPlainTrace exPlainBuild

example : wt exRoot exVal1 = true ∧ wt exRoot exVal2 = true := by decide +kernel
/-- the documented collapse really happens (`Some(None)` ↦ `None`) and only there -/
example : norm exRoot exVal1 ≠ exVal1 ∧ norm exRoot exVal2 = exVal2 := by decide +kernel
example : unser exRoot (lv exRoot exVal1) = some (norm exRoot exVal1) := by decide +kernel
example : unser exRoot (lv exRoot exVal2) = some exVal2 := by decide +kernel
/-- non-vacuity of `C04_interp_ser` / `C04_interpRow` with enums and tuples: `exRoot` (an enum with all four variant
kinds, a map with tuple values) is in `fragE`, both values are in scope, the traced root schema exists, and the theorem
gives the logical value of the serialized record under the *real* `Spec.interpRow` -/
example : fragE exRoot = true ∧ inScopeO exOpts exRoot exVal1 = true ∧ inScopeO exOpts exRoot exVal2 = true ∧
    (mappingRoot exOpts exRoot).isSome = true := by decide +kernel
example (fields : List Field) (h : mappingRoot exOpts exRoot = some fields) :
    interpRow {} fields (ser exRoot exVal1) = .ok (lvO exOpts exRoot exVal1) ∧
    interpRow {} fields (ser exRoot exVal2) = .ok (lvO exOpts exRoot exVal2) :=
  ⟨C04_interpRow {} exOpts "Root" _ exVal1 fields (by decide +kernel) (by decide +kernel) (by decide +kernel) h,
   C04_interpRow {} exOpts "Root" _ exVal2 fields (by decide +kernel) (by decide +kernel) (by decide +kernel) h⟩
/-- the exclusion is needed: `Option<enum>` = `None` is out of scope, and the documented mapping has no value for it
(unions cannot hold nulls) -/
example : inScopeO exOpts (.option exEnum) .none = false ∧
    (interpDT {} (mappingDT exOpts (.option exEnum)).1 true (mappingDT exOpts (.option exEnum)).2.2 (ser (.option exEnum) .none)).isOk = false := by
  decide +kernel
/-- different values have different logical content -/
example : lv exRoot exVal1 ≠ lv exRoot exVal2 := by decide +kernel

/-! ### non-vacuity WITH ENUMS: the round trip of `exRoot` (an enum with unit / newtype / tuple / struct variants as a
Union, a map with tuple values, nested Options) traced under `allow_null_fields` (the unit variant is a Null child) -/

def exEO : Trace.Options := { map_as_struct := false, allow_null_fields := true }
def exEBatch : List Val := [exVal1, exVal2]
def exEFields : List Field := match Trace.fromType .fixed exEO (toTraceTy exRoot) with | .ok fs => fs | .error _ => []
def exEArrs : List Arr := match toMarrow {} exEFields (exEBatch.map (ser exRoot)) with | .ok a => a | .error _ => []
theorem exETrace : Trace.fromType .fixed exEO (toTraceTy exRoot) = .ok exEFields := by decide +kernel
theorem exEBuild : toMarrow {} exEFields (exEBatch.map (ser exRoot)) = .ok exEArrs := by decide +kernel
example : exEFields.length = 5 ∧ exEArrs.length = 5 := by decide +kernel

example : ∀ (i : Nat) (hi : i < exEBatch.length),
    readRecord (toTarget exRoot) exEFields exEArrs i = .ok (dvalOf exRoot (norm exRoot exEBatch[i])) :=
  C04_roundtrip .fixed exEO {} "Root" _ exEBatch exEFields exEArrs rfl (by decide +kernel) (by simp)
    (by decide +kernel) (by decide +kernel) (by decide +kernel) exETrace exEBuild

/-! a data-less enum stored as STRINGS (`enums_without_data_as_strings`): `Option<Color>` = `None` is IN scope there (the
column is a nullable Dictionary, not a Union), and the values come back -/

def exColor : Ty := .enum "Color" (.cons "Red" .unit (.cons "Green" .unit .nil))
def exSRoot : Ty := .struct "S" (.cons "c" false exColor (.cons "oc" false (.option exColor) (.cons "k" false (.prim (.int .i32)) .nil)))
def exSO : Trace.Options := { enums_without_data_as_strings := true }
def exSBatch : List Val :=
  [.struct (.cons (.variant 1 .nil) (.cons .none (.cons (.int 1) .nil))),
   .struct (.cons (.variant 0 .nil) (.cons (.some (.variant 1 .nil)) (.cons (.int 2) .nil)))]
def exSFields : List Field := match Trace.fromType .fixed exSO (toTraceTy exSRoot) with | .ok fs => fs | .error _ => []
def exSArrs : List Arr := match toMarrow {} exSFields (exSBatch.map (ser exSRoot)) with | .ok a => a | .error _ => []
theorem exSTrace : Trace.fromType .fixed exSO (toTraceTy exSRoot) = .ok exSFields := by decide +kernel
theorem exSBuild : toMarrow {} exSFields (exSBatch.map (ser exSRoot)) = .ok exSArrs := by decide +kernel
example : exSFields = [.mk "c" (.dictionary .uint32 .largeUtf8) false [], .mk "oc" (.dictionary .uint32 .largeUtf8) true [],
    .mk "k" .int32 false []] := by decide +kernel
/-- the option-dependent logical value is the variant NAME there; the Union form `lv` differs -/
example : lvO (viewOpts exSO) exColor (.variant 1 .nil) = .str "Green".toUTF8.toList ∧
    lv exColor (.variant 1 .nil) = .union 1 .null := by decide +kernel

example : ∀ (i : Nat) (hi : i < exSBatch.length),
    readRecord (toTarget exSRoot) exSFields exSArrs i = .ok (dvalOf exSRoot (norm exSRoot exSBatch[i])) :=
  C04_roundtrip .fixed exSO {} "S" _ exSBatch exSFields exSArrs rfl (by decide +kernel) (by simp)
    (by decide +kernel) (by decide +kernel) (by decide +kernel) exSTrace exSBuild

end SaModel.Props.C04
