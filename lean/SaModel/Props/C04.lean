import SaModel.Lemmas.C04Unser
import SaModel.Lemmas.C04Interp
import SaModel.Build.Finish
import SaModel.Spec.Interp
/-
C04 — round trip through a type-traced schema is the identity.

The end-to-end statement composes four facts.  Three belong to other models and enter as *hypotheses stated over
their interfaces* (so the theorem can be discharged when those models are merged); the fourth is proved here.

  (H8, C08)  the tracer returns the documented mapping:   fromType o ty = ok fields,  mappingRoot o ty = some fields
  (H1, C01)  the builder refines the documented mapping:  toMarrow ext fields rows = ok arrs  and row i of the
             arrays decodes (Arrow reading rules, `Spec.decode`) to `interpRow ext fields rows[i]`
  (H2, C02)  the reader returns the cast of the decoded content: if row i decodes to `lvs[i]` and reading each
             `lvs[i]` at `ty` gives `vals[i]`, then `readTyped ty fields arrs = ok vals`
  (Hinv)     **the Rust → Arrow mapping is injective up to the documented normalisation** (proved here):
                 interp (mapping ty) (ser ty v) = ok (lv ty v)          `interp_ser`   (SaModel/Lemmas/C04Interp.lean)
                 unser ty (lv ty v)            = some (norm ty v)      `unser_lv`     (SaModel/Lemmas/C04Unser.lean)
             hence  lv ty v = lv ty w → norm ty v = norm ty w.

`norm` is the identity except where `Some(v)` is stored as a null (`Some(None)`, `Some(())`): `norm_eq_self`.
The second documented exclusion (`None` at a position traced to a Union) is the hypothesis `noneAtUnion … = false`.
-/
namespace SaModel.Props.C04
open SaModel SaModel.Build SaModel.Spec SaModel.Roundtrip

/-! ### the injectivity lemma (the mathematical heart of C04) -/

/-- **Reading back the logical value gives the normalised value** — whole grammar (scalars, `()`, Option incl. the
collapse of nested `None`, Vec, tuples / arrays, structs, tuple / newtype / unit structs, enums with the four variant
kinds, maps). -/
theorem C04_unser_lv (t : Ty) (v : Val) (h : wt t v = true) : unser t (lv t v) = some (norm t v) :=
  unser_lv t v h

/-- **Injectivity up to normalisation**: two values of a type with the same logical content are equal after the
documented normalisation. -/
theorem C04_mapping_injective (t : Ty) (v w : Val) (hv : wt t v = true) (hw : wt t w = true)
    (h : lv t v = lv t w) : norm t v = norm t w := by
  have a := unser_lv t v hv
  have b := unser_lv t w hw
  rw [h, b] at a
  exact (Option.some.inj a).symm

/-! ### rows of a set of columns -/

/-- row `i` of the columns `arrs` under the schema `fields`, by the Arrow reading rules -/
def decodeRow (fields : List Field) (arrs : List Arr) (i : Nat) : R LVal := do
  let vals ← (fields.zip arrs).mapM fun (f, a) => do
    let v ← decode a i
    pure (f.name, v)
  pure (.struct (LFields.ofList vals))

theorem mapM_unser (t : Ty) : ∀ (vs : List Val), (∀ v ∈ vs, wt t v = true) →
    (vs.map (lv t)).mapM (unser t) = some (vs.map (norm t))
  | [], _ => rfl
  | v :: rest, h => by
    have h1 := unser_lv t v (h v (by simp))
    have h2 := mapM_unser t rest (fun w hw => h w (by simp [hw]))
    simp [List.mapM_cons, h1, h2]

/-! ### the composition theorem -/

/-- **C04 (composition over interfaces).**  `fromType` is the tracer model's entry point and `readTyped` the reader
model's; `H8`, `H1`, `H2` are the statements of C08, C01 and C02 over those interfaces.  `Hinterp` is the first half
of the injectivity lemma at the root type; it is *proved* for the constructor set of `interp_ser` (see
`C04_roundtrip_core_partial` below), and kept as a hypothesis here so that the composition itself is stated for the
whole grammar. -/
theorem C04_roundtrip_partial
    (fromType : TraceOpts → Ty → R (List Field))
    (readTyped : Ty → List Field → List Arr → R (List Val))
    (ext : Ext) (o : TraceOpts) (ty : Ty) (vs : List Val) (fields : List Field) (arrs : List Arr)
    (_H8 : fromType o ty = .ok fields ∧ mappingRoot o ty = some fields)
    (H1 : toMarrow ext fields (vs.map (ser ty)) = .ok arrs ∧
          ∀ i (h : i < vs.length), decodeRow fields arrs i = interpRow ext fields (ser ty vs[i]))
    (H2 : ∀ (lvs : List LVal) (vals : List Val),
          (∀ i (h : i < lvs.length), decodeRow fields arrs i = .ok lvs[i]) →
          lvs.mapM (unser ty) = some vals → readTyped ty fields arrs = .ok vals)
    (Hwt : ∀ v ∈ vs, wt ty v = true)
    (Hinterp : ∀ v ∈ vs, interpRow ext fields (ser ty v) = .ok (lv ty v)) :
    toMarrow ext fields (vs.map (ser ty)) = .ok arrs ∧ readTyped ty fields arrs = .ok (vs.map (norm ty)) := by
  refine ⟨H1.1, ?_⟩
  apply H2 (vs.map (lv ty)) (vs.map (norm ty))
  · intro i h
    have hi : i < vs.length := by simpa using h
    rw [H1.2 i hi, Hinterp vs[i] (List.getElem_mem hi)]
    simp
  · exact mapM_unser ty vs Hwt

/-! ### the first half of the injectivity lemma, and the composition with it discharged -/

/-- **`Spec.interp ∘ ser = lv` at the traced field**, for every option set, on the fragment `frag`: scalars, `()`, unit
structs, Option, newtype structs, Vec, maps and structs (fields matched by name, `skip_serializing_if` fields left
out).  `_partial`: tuples / tuple structs (positional names) and enums (Union, with the `noneAtUnion` exclusion) are
not in `frag` yet; instances for them are checked on examples below. -/
theorem C04_interp_ser_partial (ext : Ext) (o : TraceOpts) (t : Ty) (v : Val) (dt : DataType) (nb : Bool) (md : Metadata)
    (hf : frag t = true) (hw : wt t v = true) (hm : mappingDT o t = (dt, nb, md)) :
    interpDT ext dt nb md (ser t v) = .ok (lv t v) :=
  interp_ser ext o t v nb dt nb md hf hw hm (fun h => h)

theorem Fields.ofList_toList : ∀ (l : Fields), Fields.ofList l.toList = l
  | .nil => rfl
  | .cons f r => by simp [Fields.toList, Fields.ofList, Fields.ofList_toList r]

/-- at the root: a record type of the fragment against the schema `from_type` returns for it -/
theorem C04_interpRow_partial (ext : Ext) (o : TraceOpts) (n : String) (fs : TFields) (v : Val) (fields : List Field)
    (hf : frag (.struct n fs) = true) (hw : wt (.struct n fs) v = true)
    (hroot : mappingRoot o (.struct n fs) = some fields) :
    interpRow ext fields (ser (.struct n fs) v) = .ok (lv (.struct n fs) v) := by
  have hfields : fields = (mappingFields o fs).toList := by
    simp [mappingRoot, mappingDT] at hroot; exact hroot.symm
  subst hfields
  unfold interpRow
  rw [Fields.ofList_toList]
  exact interp_ser ext o (.struct n fs) v false _ false [] hf hw (by simp [mappingDT]) (fun h => h)

/-- **C04 with the injectivity lemma discharged** (record types of the fragment): only the three interface
hypotheses H8 / H1 / H2 remain. -/
theorem C04_roundtrip_core_partial
    (fromType : TraceOpts → Ty → R (List Field))
    (readTyped : Ty → List Field → List Arr → R (List Val))
    (ext : Ext) (o : TraceOpts) (n : String) (fs : TFields) (vs : List Val) (fields : List Field) (arrs : List Arr)
    (H8 : fromType o (.struct n fs) = .ok fields ∧ mappingRoot o (.struct n fs) = some fields)
    (H1 : toMarrow ext fields (vs.map (ser (.struct n fs))) = .ok arrs ∧
          ∀ i (h : i < vs.length), decodeRow fields arrs i = interpRow ext fields (ser (.struct n fs) vs[i]))
    (H2 : ∀ (lvs : List LVal) (vals : List Val),
          (∀ i (h : i < lvs.length), decodeRow fields arrs i = .ok lvs[i]) →
          lvs.mapM (unser (.struct n fs)) = some vals → readTyped (.struct n fs) fields arrs = .ok vals)
    (Hfrag : frag (.struct n fs) = true)
    (Hwt : ∀ v ∈ vs, wt (.struct n fs) v = true) :
    toMarrow ext fields (vs.map (ser (.struct n fs))) = .ok arrs ∧
      readTyped (.struct n fs) fields arrs = .ok (vs.map (norm (.struct n fs))) :=
  C04_roundtrip_partial fromType readTyped ext o (.struct n fs) vs fields arrs H8 H1 H2 Hwt
    (fun v hv => C04_interpRow_partial ext o n fs v fields Hfrag (Hwt v hv) H8.2)

/-! ### non-vacuity -/

def exInner : Ty := .struct "Inner" (.cons "x" false (.prim (.int .i16)) (.cons "y" false (.prim .str) .nil))
def exEnum : Ty :=
  .enum "E" (.cons "Unit" .unit (.cons "New" (.newtype (.prim (.int .i32)))
    (.cons "Tup" (.tuple (.cons (.prim (.int .i8)) (.cons (.prim .str) .nil)))
    (.cons "S" (.struct (.cons "a" false (.prim .bool) (.cons "b" true (.option (.prim .f32)) .nil))) .nil))))
def exRoot : Ty :=
  .struct "Root" (.cons "a" false (.option (.option (.prim (.int .i32))))
    (.cons "v" false (.vec (.option exInner)) (.cons "e" false exEnum
    (.cons "m" false (.map (.prim .str) (.tuple (.cons (.prim .bool) (.cons (.prim .char) .nil))))
    (.cons "n" true (.option (.newtype "N" (.prim .bytes))) .nil)))))
def exVal1 : Val :=
  .struct (.cons (.some .none) (.cons (.vec (.cons (.some (.struct (.cons (.int 3) (.cons (.str "ab") .nil)))) (.cons .none .nil)))
    (.cons (.variant 3 (.cons (.bool true) (.cons .none .nil)))
    (.cons (.map (.cons (.str "k") (.tuple (.cons (.bool false) (.cons (.char 65) .nil))) .nil)) (.cons .none .nil)))))
def exVal2 : Val :=
  .struct (.cons (.some (.some (.int 7))) (.cons (.vec .nil) (.cons (.variant 2 (.cons (.int (-1)) (.cons (.str "ß") .nil)))
    (.cons (.map .nil) (.cons (.some (.newtype (.bytes [1, 2]))) .nil)))))
def exOpts : TraceOpts := { allowNullFields := true, mapAsStruct := false }

/-- a record type inside the proved fragment (nested Option, Vec of Option of struct, map, skipped field, newtype) -/
def exFragRoot : Ty :=
  .struct "Root" (.cons "a" false (.option (.option (.prim (.int .i32))))
    (.cons "v" false (.vec (.option exInner))
    (.cons "m" false (.map (.prim .str) (.prim .char))
    (.cons "n" true (.option (.newtype "N" (.prim .bytes))) .nil))))
def exFragVal : Val :=
  .struct (.cons (.some .none) (.cons (.vec (.cons (.some (.struct (.cons (.int 3) (.cons (.str "ab") .nil)))) (.cons .none .nil)))
    (.cons (.map (.cons (.str "k") (.char 65) .nil)) (.cons .none .nil))))
example : frag exFragRoot = true ∧ wt exFragRoot exFragVal = true := by decide +kernel
example : frag exRoot = false := by decide +kernel

example : wt exRoot exVal1 = true ∧ wt exRoot exVal2 = true := by decide +kernel
/-- the documented collapse really happens (`Some(None)` ↦ `None`) and only there -/
example : norm exRoot exVal1 ≠ exVal1 ∧ norm exRoot exVal2 = exVal2 := by decide +kernel
example : unser exRoot (lv exRoot exVal1) = some (norm exRoot exVal1) := by decide +kernel
example : unser exRoot (lv exRoot exVal2) = some exVal2 := by decide +kernel
/-- the hypotheses `Hinterp` of the composition theorem hold on the examples for the *real* `Spec.interp` -/
example : (mappingRoot exOpts exRoot).map (fun fs => interpRow {} fs (ser exRoot exVal1)) = some (.ok (lv exRoot exVal1)) := by
  decide +kernel
example : (mappingRoot exOpts exRoot).map (fun fs => interpRow {} fs (ser exRoot exVal2)) = some (.ok (lv exRoot exVal2)) := by
  decide +kernel
/-- different values have different logical content -/
example : lv exRoot exVal1 ≠ lv exRoot exVal2 := by decide +kernel

end SaModel.Props.C04
