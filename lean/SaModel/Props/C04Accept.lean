import SaModel.Props.C04
import SaModel.Props.C01CompleteObs
import SaModel.Lemmas.C04Accept
import SaModel.Props.C03Traced
import SaModel.Props.C03Codec
/-
C04, the acceptance half: **the schema traced from a type accepts every value of that type**.

For a record type of the grammar `fragE` (scalars, `()`, unit structs, Option, newtype structs, Vec, maps, structs,
tuples / tuple structs / arrays, ENUMS with unit / newtype / tuple / struct variants — as Union or, without data under
`enums_without_data_as_strings`, as strings) whose enums have between 1 and 128 variants (`sized`), whatever
`Trace.fromType` returns for it

* is accepted by `ArrayBuilder::new` (`newRoot … = ok`, `newRoot_traced`), and the fresh builder has head room `2^31 - 1`;
* satisfies C01's non-capacity condition `total` (`mappingFields_total`: no UnknownVariant placeholder — `from_type` has
  explored every variant —, unions with 1 … 128 variants whose first variant takes `serialize_default`);
* represents every well-typed value in scope (`C04_interpRow`),

so, by C01's completeness theorem on the weak state invariant (`Props.C01.runRows_complete'`: NO `Safe` hypothesis), every
batch of well-typed values whose explicit size `Σ vsize (ser t v)` stays within `2^31 - 1` is accepted row by row:
`runRows … = ok root` — and `build_arrays` cannot refuse (`Props.C01.toMarrow_complete'`, i.e. `finish_totalH`; its typing
hypothesis `typedFs` holds of every traced schema, `Props.C03.fromType_good`), so `to_marrow` succeeds (`C04_accept_traced`).  `from_type` itself succeeds on every walkable,
mappable type within the pass budget (`C04_fromType_ok`): `C04_accept`, `C04_end_to_end` have no hypothesis about
its result — and none about `ext` (the external float printers / chrono / decimal parsers; no `ExtOK ext`):
a traced schema has no temporal column and the chrono parsers are never consulted
(`toMarrow_refuse_traced`, SaModel/Lemmas/C04Ext*.lean).
-/
namespace SaModel.Props.C04
open SaModel SaModel.Build SaModel.Spec SaModel.Roundtrip

/-- the hypotheses of C01's completeness theorems (`runRows_complete'`, `toMarrow_complete'`) for the schema traced from a
record type of the grammar and a batch of well-typed values in scope within the capacity bound -/
theorem accept_hyps (c : Trace.Code) (O : Trace.Options) (ext : Ext) (n : String) (fs : TFields) (vs : List Val)
    (fields : List Field)
    (h0 : O.overwrites = []) (hfrag : fragE (.struct n fs) = true) (hsz : sized (.struct n fs) = true)
    (hwt : ∀ v ∈ vs, wt (.struct n fs) v = true)
    (hsc : ∀ v ∈ vs, inScopeO (viewOpts O) (.struct n fs) v = true)
    (hft : Trace.fromType c O (toTraceTy (.struct n fs)) = .ok fields)
    (hcap : ((vs.map (ser (.struct n fs))).map (vsize ext)).sum ≤ 2147483647) :
    ∃ root0, newRoot fields = .ok root0 ∧ fields.all coveredF = true ∧ totalFs (Fields.ofList fields) = true ∧
      Lemmas.C03.typedFs (Fields.ofList fields) = true ∧
      (∀ r ∈ vs.map (ser (.struct n fs)), noRaw r = true ∧ ∃ lv, interpRow ext fields r = .ok lv) ∧
      ((vs.map (ser (.struct n fs))).map (vsize ext)).sum ≤ room root0 := by
  let t : Ty := .struct n fs
  let o := viewOpts O
  have hroot : mappingRoot o t = some fields := C04_fromType_mapping c O h0 t fields hft
  have hfields : fields = (mappingFields o fs).toList := C04_fromType_fields c O h0 n fs fields hft
  have hofl : Fields.ofList fields = mappingFields o fs := by rw [hfields]; exact Fields.ofList_toList _
  have hside := sideFs_toList (mappingFields o fs) (mappingFields_side o fs)
  rw [← hfields] at hside
  obtain ⟨root0, hr0, hroom⟩ := newRoot_traced o n fs hfrag
  rw [← hfields] at hr0
  refine ⟨root0, hr0, List.all_eq_true.mpr fun f hf => (hside f hf).2, ?_, ?_, ?_, ?_⟩
  · rw [hofl]; exact (mappingFields_total o fs (by simpa [sized] using hsz)).1
  · exact (Props.C03.fromType_good c O _ fields (by rw [h0]; intro kv hkv; cases hkv) hft).2
  · intro r hr
    obtain ⟨v, hv, rfl⟩ := List.mem_map.mp hr
    exact ⟨(ser_ok t v (hwt v hv)).1, lvO o t v, C04_interpRow ext o n fs v fields hfrag (hwt v hv) (hsc v hv) hroot⟩
  · rw [hroom]; exact hcap

/-- **Acceptance, row by row.**  `t = struct n fs` in `fragE`, enums with 1 … 128 variants, any tracing options without
overwrites, any batch of well-typed values in scope within the capacity bound: every `push` succeeds, and `to_marrow` is
`build_arrays` of the final state.  Remaining hypothesis beside the documented ones: `hcap` (explicit capacity bound:
offsets are `i32`).  No `Safe` (no `safeFs …`): `Props.C01.runRows_complete'`. -/
theorem C04_accept_rows (c : Trace.Code) (O : Trace.Options) (ext : Ext) (n : String) (fs : TFields) (vs : List Val)
    (fields : List Field)
    (h0 : O.overwrites = []) (hfrag : fragE (.struct n fs) = true) (hsz : sized (.struct n fs) = true)
    (hwt : ∀ v ∈ vs, wt (.struct n fs) v = true)
    (hsc : ∀ v ∈ vs, inScopeO (viewOpts O) (.struct n fs) v = true)
    (hft : Trace.fromType c O (toTraceTy (.struct n fs)) = .ok fields)
    (hcap : ((vs.map (ser (.struct n fs))).map (vsize ext)).sum ≤ 2147483647) :
    ∃ root, runRows ext fields (vs.map (ser (.struct n fs))) = .ok root ∧
      toMarrow ext fields (vs.map (ser (.struct n fs))) = (do let (arrs, _) ← buildArrays ext root; pure arrs) := by
  obtain ⟨root0, hr0, hc, htot, _, hrows, hroom⟩ := accept_hyps c O ext n fs vs fields h0 hfrag hsz hwt hsc hft hcap
  obtain ⟨root, h⟩ := Props.C01.runRows_complete' ext fields _ root0 hc hr0 htot hrows hroom
  exact ⟨root, h, by rw [Props.C03.toMarrow_eq, h]; rfl⟩

/-- **Acceptance of the traced schema**: `to_marrow` SUCCEEDS on every batch of well-typed values in scope of a record type
of the grammar against the schema `from_type` returned for it (any tracing options without overwrites, enums and
dictionary-encoded strings included — also directly below an `Option<struct>`, `exSafeFalse`; explicit capacity bound).
`build_arrays` cannot refuse (`Props.C01.toMarrow_complete'`: `finish_totalH` on the weak invariant of the final state, the typing invariant `typedFs` of the traced schema by
`Props.C03.fromType_good`). -/
theorem C04_accept_traced (c : Trace.Code) (O : Trace.Options) (ext : Ext) (n : String) (fs : TFields) (vs : List Val)
    (fields : List Field)
    (h0 : O.overwrites = []) (hfrag : fragE (.struct n fs) = true) (hsz : sized (.struct n fs) = true)
    (hwt : ∀ v ∈ vs, wt (.struct n fs) v = true)
    (hsc : ∀ v ∈ vs, inScopeO (viewOpts O) (.struct n fs) v = true)
    (hft : Trace.fromType c O (toTraceTy (.struct n fs)) = .ok fields)
    (hcap : ((vs.map (ser (.struct n fs))).map (vsize ext)).sum ≤ 2147483647) :
    ∃ arrs, toMarrow ext fields (vs.map (ser (.struct n fs))) = .ok arrs := by
  obtain ⟨root0, hr0, hc, htot, htyped, hrows, hroom⟩ := accept_hyps c O ext n fs vs fields h0 hfrag hsz hwt hsc hft hcap
  exact Props.C01.toMarrow_complete' ext fields _ root0 hc hr0 htot htyped hrows hroom

/-- **Acceptance, complete** — no hypothesis about the result of `from_type`: for a record type of the grammar that can be
walked and mapped (the documented preconditions `Spec.walkable`, `mappable`) within the pass budget, `from_type` returns a
schema and `to_marrow` accepts every batch of well-typed values in scope against it.  Remaining hypotheses, all decidable
conditions on type × options or explicit bounds: `sized` (1 … 128 variants), the budget, the capacity bound. -/
theorem C04_accept (c : Trace.Code) (O : Trace.Options) (ext : Ext) (n : String) (fs : TFields) (vs : List Val)
    (h0 : O.overwrites = []) (hfrag : fragE (.struct n fs) = true) (hsz : sized (.struct n fs) = true)
    (hwt : ∀ v ∈ vs, wt (.struct n fs) v = true)
    (hsc : ∀ v ∈ vs, inScopeO (viewOpts O) (.struct n fs) v = true)
    (hw : Trace.Spec.walkable O "$" (toTraceTy (.struct n fs)) = true)
    (hm : mappable (viewOpts O) (.struct n fs) = true)
    (hb : Trace.Spec.passes (toTraceTy (.struct n fs)) ≤ O.from_type_budget)
    (hcap : ((vs.map (ser (.struct n fs))).map (vsize ext)).sum ≤ 2147483647) :
    ∃ fields, Trace.fromType c O (toTraceTy (.struct n fs)) = .ok fields ∧
      ∃ arrs, toMarrow ext fields (vs.map (ser (.struct n fs))) = .ok arrs :=
  ⟨_, C04_fromType_ok c O h0 n fs hw hm hb,
    C04_accept_traced c O ext n fs vs _ h0 hfrag hsz hwt hsc (C04_fromType_ok c O h0 n fs hw hm hb) hcap⟩

/-- the number of records is within the size bound of `C04_physical` whenever the batch is within the capacity bound -/
theorem length_of_cap (ext : Ext) (t : Ty) (vs : List Val)
    (hcap : ((vs.map (ser t)).map (vsize ext)).sum ≤ 2147483647) : vs.length ≤ 9223372036854775807 := by
  have := Build.length_le_vsize_sum ext (vs.map (ser t))
  rw [List.length_map] at this
  omega

/-- **C04 end to end against a traced schema**: serialization against the schema `from_type` returned succeeds, and reading
everything back returns the batch, normalised (`norm` is the identity for `plainOpt` types: `C04_norm_eq_self`).  The
conclusion has no premise about the arrays: `Read.physical` is derived from `hcap` (`C04_physical`).  For EVERY
`ext` (no `ExtOK`: `C04_roundtrip_bulk`). -/
theorem C04_end_to_end_traced (c : Trace.Code) (O : Trace.Options) (ext : Ext) (n : String) (fs : TFields) (vs : List Val)
    (fields : List Field)
    (h0 : O.overwrites = []) (hfrag : fragE (.struct n fs) = true) (hsz : sized (.struct n fs) = true) (hne : fs ≠ .nil)
    (hwt : ∀ v ∈ vs, wt (.struct n fs) v = true)
    (hsc : ∀ v ∈ vs, inScopeO (viewOpts O) (.struct n fs) v = true)
    (hft : Trace.fromType c O (toTraceTy (.struct n fs)) = .ok fields)
    (hcap : ((vs.map (ser (.struct n fs))).map (vsize ext)).sum ≤ 2147483647) :
    ∃ arrs, toMarrow ext fields (vs.map (ser (.struct n fs))) = .ok arrs ∧
      readAll (toTarget (.struct n fs)) fields arrs = .ok (vs.map fun v => dvalOf (.struct n fs) (norm (.struct n fs) v)) := by
  obtain ⟨arrs, htm⟩ := C04_accept_traced c O ext n fs vs fields h0 hfrag hsz hwt hsc hft hcap
  exact ⟨arrs, htm,
    C04_roundtrip_bulk c O ext n fs vs fields arrs h0 hfrag hne hwt hsc (length_of_cap ext _ vs hcap) hft htm⟩

/-- **C04 end to end** — the property itself: for a record type of the grammar (enums included) with at least one field that
can be walked and mapped within the pass budget, `from_type` returns a schema, serializing any batch of well-typed values in
scope against it succeeds, and reading everything back returns the batch, normalised.
NO residual hypothesis, for EVERY `ext`.  `ExtOK ext` (the external chrono parsers return values in range:
asked unconditionally by `Props.C01.C03_wfS'`) is not needed: traced schemas have no temporal column (`mapping_noTemporal`), so the
parsers are never consulted and the run is the same under `refuseExt ext`, whose parsers refuse (`toMarrow_refuse_traced`,
`refuseExt_ok`).  The conclusion has no premise about the arrays (`Read.physical`: the value count of a Dictionary column fits
`i64`): it is derived from `hcap` (`C04_physical`, the builders' counting invariant).
Everything left is a decidable condition on type × options (`fragE`, `sized`, `walkable`, `mappable`;
NO `Safe` / `safeFs`), the documented exclusion `inScopeO` on the values, the pass budget and the capacity bound. -/
theorem C04_end_to_end (c : Trace.Code) (O : Trace.Options) (ext : Ext) (n : String) (fs : TFields) (vs : List Val)
    (h0 : O.overwrites = []) (hfrag : fragE (.struct n fs) = true) (hsz : sized (.struct n fs) = true) (hne : fs ≠ .nil)
    (hwt : ∀ v ∈ vs, wt (.struct n fs) v = true)
    (hsc : ∀ v ∈ vs, inScopeO (viewOpts O) (.struct n fs) v = true)
    (hw : Trace.Spec.walkable O "$" (toTraceTy (.struct n fs)) = true)
    (hm : mappable (viewOpts O) (.struct n fs) = true)
    (hb : Trace.Spec.passes (toTraceTy (.struct n fs)) ≤ O.from_type_budget)
    (hcap : ((vs.map (ser (.struct n fs))).map (vsize ext)).sum ≤ 2147483647) :
    ∃ fields arrs, Trace.fromType c O (toTraceTy (.struct n fs)) = .ok fields ∧
      toMarrow ext fields (vs.map (ser (.struct n fs))) = .ok arrs ∧
      readAll (toTarget (.struct n fs)) fields arrs = .ok (vs.map fun v => dvalOf (.struct n fs) (norm (.struct n fs) v)) := by
  have hft := C04_fromType_ok c O h0 n fs hw hm hb
  obtain ⟨arrs, htm, hread⟩ := C04_end_to_end_traced c O ext n fs vs _ h0 hfrag hsz hne hwt hsc hft hcap
  exact ⟨_, arrs, hft, htm, hread⟩

/-- **C04 end to end at the codec models — every option**: `C04_end_to_end` with the external string parsers instantiated by
the models of C14 (`Props.C16.codecExt`, what the correspondence driver runs) — a direct corollary (the general theorem has no
hypothesis about `ext`; `Props.C03.codecExt_ok`, `ExtOK` of the codec models, is not needed).  For every record type
of the grammar (enums as Unions or — without data, under `enums_without_data_as_strings` — as dictionary-encoded strings; `string_dictionary_encoding`
included) with at least one field that can be walked and mapped within the pass budget, `from_type` returns a schema,
serializing any batch of well-typed values in scope (within the capacity bound) against it succeeds, and reading everything
back returns the batch, normalised.  NO residual hypothesis. -/
theorem C04_end_to_end_codec (f32Str f64Str : Nat → String) (cast : Nat → Int → Bool → Nat → Option (Bool × Int))
    (c : Trace.Code) (O : Trace.Options) (n : String) (fs : TFields) (vs : List Val)
    (h0 : O.overwrites = []) (hfrag : fragE (.struct n fs) = true) (hsz : sized (.struct n fs) = true) (hne : fs ≠ .nil)
    (hwt : ∀ v ∈ vs, wt (.struct n fs) v = true)
    (hsc : ∀ v ∈ vs, inScopeO (viewOpts O) (.struct n fs) v = true)
    (hw : Trace.Spec.walkable O "$" (toTraceTy (.struct n fs)) = true)
    (hm : mappable (viewOpts O) (.struct n fs) = true)
    (hb : Trace.Spec.passes (toTraceTy (.struct n fs)) ≤ O.from_type_budget)
    (hcap : ((vs.map (ser (.struct n fs))).map (vsize (Props.C16.codecExt f32Str f64Str cast))).sum ≤ 2147483647) :
    ∃ fields arrs, Trace.fromType c O (toTraceTy (.struct n fs)) = .ok fields ∧
      toMarrow (Props.C16.codecExt f32Str f64Str cast) fields (vs.map (ser (.struct n fs))) = .ok arrs ∧
      readAll (toTarget (.struct n fs)) fields arrs = .ok (vs.map fun v => dvalOf (.struct n fs) (norm (.struct n fs) v)) :=
  C04_end_to_end c O _ n fs vs h0 hfrag hsz hne hwt hsc hw hm hb hcap

/-- **C04 end to end, COMPLETE, for traced schemas without Dictionary columns** (`string_dictionary_encoding` and
`enums_without_data_as_strings` off — the defaults), at the codec models of the external parsers: for every record type of
the grammar (enums as Unions included) with at least one field that can be walked and mapped within the pass budget,
`from_type` returns a schema, serializing any batch of well-typed values in scope (within the capacity bound) against it
succeeds, and reading everything back returns the batch, normalised.  NO residual hypothesis: `Read.physical` is derived
without the size bound (`C04_roundtrip_bulk_plain`; `ExtOK` and `Safe` are not needed); what is left are decidable
conditions on type × options (`fragE`, `sized`, `walkable`, `mappable`), the documented exclusion `inScopeO` (= the driver's `noneAtUnion`; `strOK` is vacuous here: no string-stored enum), the pass
budget and the explicit capacity bound. -/
theorem C04_end_to_end_plain (f32Str f64Str : Nat → String) (cast : Nat → Int → Bool → Nat → Option (Bool × Int))
    (c : Trace.Code) (O : Trace.Options) (n : String) (fs : TFields) (vs : List Val)
    (h0 : O.overwrites = []) (hd : O.string_dictionary_encoding = false) (he : O.enums_without_data_as_strings = false)
    (hfrag : fragE (.struct n fs) = true) (hsz : sized (.struct n fs) = true) (hne : fs ≠ .nil)
    (hwt : ∀ v ∈ vs, wt (.struct n fs) v = true)
    (hsc : ∀ v ∈ vs, inScopeO (viewOpts O) (.struct n fs) v = true)
    (hw : Trace.Spec.walkable O "$" (toTraceTy (.struct n fs)) = true)
    (hm : mappable (viewOpts O) (.struct n fs) = true)
    (hb : Trace.Spec.passes (toTraceTy (.struct n fs)) ≤ O.from_type_budget)
    (hcap : ((vs.map (ser (.struct n fs))).map (vsize (Props.C16.codecExt f32Str f64Str cast))).sum ≤ 2147483647) :
    ∃ fields arrs, Trace.fromType c O (toTraceTy (.struct n fs)) = .ok fields ∧
      toMarrow (Props.C16.codecExt f32Str f64Str cast) fields (vs.map (ser (.struct n fs))) = .ok arrs ∧
      readAll (toTarget (.struct n fs)) fields arrs = .ok (vs.map fun v => dvalOf (.struct n fs) (norm (.struct n fs) v)) := by
  have hft := C04_fromType_ok c O h0 n fs hw hm hb
  obtain ⟨arrs, htm⟩ := C04_accept_traced c O (Props.C16.codecExt f32Str f64Str cast) n fs vs _ h0 hfrag hsz hwt hsc hft hcap
  exact ⟨_, arrs, hft, htm, C04_roundtrip_bulk_plain c O _ n fs vs _ arrs h0 hd he hfrag hne hwt hsc hft htm⟩

/-! ### non-vacuity: the batch of `Props/C04.lean` (`exFragRoot`, two records) meets every hypothesis -/

example : ((exBatch.map (ser exFragRoot)).map (vsize {})).sum ≤ 2147483647 := by decide +kernel

example : ∃ root, runRows {} exFields (exBatch.map (ser exFragRoot)) = .ok root ∧
    toMarrow {} exFields (exBatch.map (ser exFragRoot)) = (do let (arrs, _) ← buildArrays {} root; pure arrs) :=
  C04_accept_rows .fixed exO {} "Root" _ exBatch exFields rfl (by decide +kernel) (by decide +kernel) (by decide +kernel)
    (by decide +kernel) exTrace (by decide +kernel)

/-- the whole property on the enum-free example: nothing is assumed about `from_type` -/
example : ∃ fields arrs, Trace.fromType .fixed exO (toTraceTy exFragRoot) = .ok fields ∧
    toMarrow {} fields (exBatch.map (ser exFragRoot)) = .ok arrs ∧
    readAll (toTarget exFragRoot) fields arrs = .ok (exBatch.map fun v => dvalOf exFragRoot (norm exFragRoot v)) :=
  C04_end_to_end .fixed exO {} "Root" _ exBatch rfl (by decide +kernel) (by decide +kernel) (by simp)
    (by decide +kernel) (by decide +kernel) (by decide +kernel) (by decide +kernel) (by decide +kernel) (by decide +kernel)

/-! non-vacuity WITH ENUMS: `exRoot` of `Props/C04.lean` (an enum with all four variant kinds traced to a Union, nested
Options, a map with tuple values), under `allow_null_fields`: walkable, mappable, 4 passes ≤ budget, `sized`, no Dictionary
column; both values are in scope -/

example : fragE exRoot = true ∧ sized exRoot = true ∧ Trace.Spec.walkable exEO "$" (toTraceTy exRoot) = true ∧
    mappable (viewOpts exEO) exRoot = true ∧ Trace.Spec.passes (toTraceTy exRoot) = 4 ∧
    (∀ v ∈ exEBatch, inScopeO (viewOpts exEO) exRoot v = true) := by decide +kernel

example : ∃ fields arrs, Trace.fromType .fixed exEO (toTraceTy exRoot) = .ok fields ∧
    toMarrow {} fields (exEBatch.map (ser exRoot)) = .ok arrs ∧
    readAll (toTarget exRoot) fields arrs = .ok (exEBatch.map fun v => dvalOf exRoot (norm exRoot v)) :=
  C04_end_to_end .fixed exEO {} "Root" _ exEBatch rfl (by decide +kernel) (by decide +kernel) (by simp)
    (by decide +kernel) (by decide +kernel) (by decide +kernel) (by decide +kernel) (by decide +kernel) (by decide +kernel)

/-- … and completely, with nothing assumed (codec parsers; the float / decimal tables of the codec record play no role for
this type): `C04_end_to_end_plain` on the enum example -/
example : ∃ fields arrs, Trace.fromType .fixed exEO (toTraceTy exRoot) = .ok fields ∧
    toMarrow (Props.C16.codecExt (fun _ => "") (fun _ => "") (fun _ _ _ _ => none)) fields (exEBatch.map (ser exRoot)) = .ok arrs ∧
    readAll (toTarget exRoot) fields arrs = .ok (exEBatch.map fun v => dvalOf exRoot (norm exRoot v)) :=
  C04_end_to_end_plain _ _ _ .fixed exEO "Root" _ exEBatch rfl rfl rfl (by decide +kernel) (by decide +kernel) (by simp)
    (by decide +kernel) (by decide +kernel) (by decide +kernel) (by decide +kernel) (by decide +kernel) (by decide +kernel)

/-- the string form (`enums_without_data_as_strings`): `exSRoot` with a data-less enum and an `Option` of it -/
example : ∃ fields, Trace.fromType .fixed exSO (toTraceTy exSRoot) = .ok fields ∧
    ∃ arrs, toMarrow {} fields (exSBatch.map (ser exSRoot)) = .ok arrs :=
  C04_accept .fixed exSO {} "S" _ exSBatch rfl (by decide +kernel) (by decide +kernel) (by decide +kernel) (by decide +kernel)
    (by decide +kernel) (by decide +kernel) (by decide +kernel) (by decide +kernel)

/-! non-vacuity of `C04_accept_traced` WITH dictionary-encoded strings: a record type with a `String` and an
`Option<String>` traces to two `Dictionary(UInt32, LargeUtf8)` columns -/

def exDO : Trace.Options := { map_as_struct := false, string_dictionary_encoding := true }
def exDRoot : Ty := .struct "D" (.cons "s" false (.prim .str) (.cons "t" false (.option (.prim .str)) .nil))
def exDBatch : List Val :=
  [.struct (.cons (.str "x") (.cons (.some (.str "y")) .nil)), .struct (.cons (.str "x") (.cons .none .nil))]
def exDFields : List Field := match Trace.fromType .fixed exDO (toTraceTy exDRoot) with | .ok fs => fs | .error _ => []

theorem exDTrace : Trace.fromType .fixed exDO (toTraceTy exDRoot) = .ok exDFields := by decide +kernel

example : exDFields = [.mk "s" (.dictionary .uint32 .largeUtf8) false [], .mk "t" (.dictionary .uint32 .largeUtf8) true []] := by
  decide +kernel

example : ∃ arrs, toMarrow {} exDFields (exDBatch.map (ser exDRoot)) = .ok arrs :=
  C04_accept_traced .fixed exDO {} "D" _ exDBatch exDFields rfl (by decide +kernel) (by decide +kernel) (by decide +kernel)
    (by decide +kernel) exDTrace (by decide +kernel)

/-! ### a schema outside C01's `Safe` is inside the theorems

A dictionary-encoded `String` directly below an `Option<struct>` makes `safeFs` false (C01's `dict_placeholder_unstable`
shape: the `None` of the outer option sends the placeholder key 0 into NON-nullable dictionary keys); a nullable one
(`Option<String>`) does not.  The theorems do not assume `safeFs`: `exSafeFalse` below is
accepted and round-trips, every hypothesis discharged. -/
def exSafeFalse : Ty := .struct "W" (.cons "o" false (.option (.struct "I" (.cons "s" false (.prim .str) .nil))) .nil)
def exSafeTrue : Ty := .struct "W" (.cons "o" false (.option (.struct "I" (.cons "s" false (.option (.prim .str)) .nil))) .nil)
example : safeFs (mappingFields (viewOpts exDO) (tfieldsOf exSafeFalse)) = false ∧
    safeFs (mappingFields (viewOpts exDO) (tfieldsOf exSafeTrue)) = true ∧
    safeFs (mappingFields (viewOpts exO) (tfieldsOf exSafeFalse)) = true := by decide +kernel

def exWBatch : List Val :=
  [.struct (.cons .none .nil), .struct (.cons (.some (.struct (.cons (.str "x") .nil))) .nil), .struct (.cons .none .nil)]
def exWFields : List Field := match Trace.fromType .fixed exDO (toTraceTy exSafeFalse) with | .ok fs => fs | .error _ => []
theorem exWTrace : Trace.fromType .fixed exDO (toTraceTy exSafeFalse) = .ok exWFields := by decide +kernel

/-- the traced schema: a `Dictionary(UInt32, LargeUtf8)` with NON-nullable keys below the nullable struct `o` … -/
example : exWFields = [.mk "o" (.struct (.cons (.mk "s" (.dictionary .uint32 .largeUtf8) false []) .nil)) true []] := by
  decide +kernel

/-- … whose fresh builder is outside C01's `Safe` (`C04_safe_traced_iff`) -/
example : ∀ root0, newRoot exWFields = .ok root0 → ¬ Safe root0 := by
  intro root0 h0 hs
  have := (C04_safe_traced_iff (viewOpts exDO) (tfieldsOf exSafeFalse) exWFields
    (C04_fromType_fields .fixed exDO rfl "W" _ exWFields exWTrace) root0 h0).mp hs
  revert this; decide +kernel

/-- acceptance (`C04_accept`) and the end-to-end theorem (`C04_end_to_end`) apply to it, every hypothesis
discharged: the batch `None, Some(I { s: "x" }), None` is accepted against the traced schema (a DICTIONARY column outside
`Safe`) and read back as it is — nothing is assumed about the arrays -/
example : ∃ fields arrs, Trace.fromType .fixed exDO (toTraceTy exSafeFalse) = .ok fields ∧
    toMarrow {} fields (exWBatch.map (ser exSafeFalse)) = .ok arrs ∧
    readAll (toTarget exSafeFalse) fields arrs = .ok (exWBatch.map fun v => dvalOf exSafeFalse (norm exSafeFalse v)) :=
  C04_end_to_end .fixed exDO {} "W" _ exWBatch rfl (by decide +kernel) (by decide +kernel) (by simp)
    (by decide +kernel) (by decide +kernel) (by decide +kernel) (by decide +kernel) (by decide +kernel) (by decide +kernel)

end SaModel.Props.C04
