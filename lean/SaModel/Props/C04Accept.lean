import SaModel.Props.C04
import SaModel.Props.C01Complete
import SaModel.Lemmas.C04Accept
import SaModel.Props.C03Traced
/-
C04, the acceptance half: **the schema traced from a type accepts every value of that type**.

For a record type of the fragment `frag` (scalars, `()`, unit structs, Option, newtype structs, Vec, maps, structs,
tuples / tuple structs / arrays), whatever `Trace.fromType` returns for it

* is accepted by `ArrayBuilder::new` (`newRoot … = ok`, `newRoot_traced`), and the fresh builder has head room `2^31 - 1`;
* satisfies C01's non-capacity condition `total` (`mappingFields_total`: no UnknownVariant placeholder, no union);
* represents every well-typed value (`C04_interpRow`),

so, by C01's completeness theorem (`Props.C01.runRows_complete`), every batch of well-typed values whose explicit size
`Σ vsize (ser t v)` stays within `2^31 - 1` is accepted row by row: `runRows … = ok root` — and `build_arrays` cannot refuse
(`Props.C01.toMarrow_complete`, i.e. `finish_total`; its typing hypothesis `typedFs` holds of every traced schema,
`Props.C03.fromType_good`), so `to_marrow` succeeds (`C04_accept_partial`).
-/
namespace SaModel.Props.C04
open SaModel SaModel.Build SaModel.Spec SaModel.Roundtrip

/-- the hypotheses of C01's completeness theorems (`runRows_complete`, `toMarrow_complete`) for the schema traced from a
record type of the fragment and a batch of well-typed values within the capacity bound -/
theorem accept_hyps (c : Trace.Code) (O : Trace.Options) (ext : Ext) (n : String) (fs : TFields) (vs : List Val)
    (fields : List Field)
    (h0 : O.overwrites = []) (hfrag : frag (.struct n fs) = true)
    (hwt : ∀ v ∈ vs, wt (.struct n fs) v = true)
    (hft : Trace.fromType c O (toTraceTy (.struct n fs)) = .ok fields)
    (hcap : ((vs.map (ser (.struct n fs))).map (vsize ext)).sum ≤ 2147483647) :
    ∃ root0, newRoot fields = .ok root0 ∧ fields.all coveredF = true ∧ totalFs (Fields.ofList fields) = true ∧
      Lemmas.C03.typedFs (Fields.ofList fields) = true ∧
      (∀ r ∈ vs.map (ser (.struct n fs)), noRaw r = true ∧ ∃ lv, interpRow ext fields r = .ok lv) ∧
      ((vs.map (ser (.struct n fs))).map (vsize ext)).sum ≤ room root0 := by
  let t : Ty := .struct n fs
  let o := viewOpts O
  have hn : noEnum t = true := frag_noEnum t hfrag
  have hroot : mappingRoot o t = some fields := C04_fromType_mapping c O h0 t hn fields hft
  have hfields : fields = (mappingFields o fs).toList := by
    simp [t, mappingRoot, mappingDT] at hroot; exact hroot.symm
  have hofl : Fields.ofList fields = mappingFields o fs := by rw [hfields]; exact Fields.ofList_toList _
  have hnf : noEnumFields fs = true := by simpa [t, noEnum] using hn
  have hside := sideFs_toList (mappingFields o fs) (mappingFields_side o fs hnf)
  rw [← hfields] at hside
  obtain ⟨root0, hr0, hroom⟩ := newRoot_traced o n fs hfrag
  rw [← hfields] at hr0
  refine ⟨root0, hr0, List.all_eq_true.mpr fun f hf => (hside f hf).2, ?_, ?_, ?_, ?_⟩
  · rw [hofl]; exact (mappingFields_total o fs hnf).1
  · exact (Props.C03.fromType_good c O _ fields (by rw [h0]; intro kv hkv; cases hkv) hft).2
  · intro r hr
    obtain ⟨v, hv, rfl⟩ := List.mem_map.mp hr
    exact ⟨(ser_ok t v (hwt v hv)).1, lv t v, C04_interpRow_partial ext o n fs v fields (frag_fragE _ hfrag) (hwt v hv)
      (frag_inScope o _ _ hfrag) hroot⟩
  · rw [hroom]; exact hcap

/-- **Acceptance, row by row.**  `t = struct n fs` in `frag`, any tracing options without overwrites, any batch of
well-typed values within the capacity bound: every `push` succeeds, and `to_marrow` is `build_arrays` of the final state.
Hypotheses: `hsafe` (C01's `Safe` on the fresh builder; derived in `C04_accept_rows_nodict` when
`string_dictionary_encoding` is off), `hcap` (explicit capacity bound: offsets are `i32`). -/
theorem C04_accept_rows (c : Trace.Code) (O : Trace.Options) (ext : Ext) (n : String) (fs : TFields) (vs : List Val)
    (fields : List Field)
    (h0 : O.overwrites = []) (hfrag : frag (.struct n fs) = true)
    (hwt : ∀ v ∈ vs, wt (.struct n fs) v = true)
    (hft : Trace.fromType c O (toTraceTy (.struct n fs)) = .ok fields)
    (hsafe : ∀ root0, newRoot fields = .ok root0 → Safe root0)
    (hcap : ((vs.map (ser (.struct n fs))).map (vsize ext)).sum ≤ 2147483647) :
    ∃ root, runRows ext fields (vs.map (ser (.struct n fs))) = .ok root ∧
      toMarrow ext fields (vs.map (ser (.struct n fs))) = (do let (arrs, _) ← buildArrays ext root; pure arrs) := by
  obtain ⟨root0, hr0, hc, htot, _, hrows, hroom⟩ := accept_hyps c O ext n fs vs fields h0 hfrag hwt hft hcap
  obtain ⟨root, h⟩ := Props.C01.runRows_complete ext fields _ root0 hc hr0 (hsafe root0 hr0) htot hrows hroom
  exact ⟨root, h, by rw [Props.C03.toMarrow_eq, h]; rfl⟩

/-- **Acceptance, complete**: `to_marrow` SUCCEEDS on every batch of well-typed values of a record type of the fragment
against the schema traced from the type (any tracing options without overwrites, dictionary-encoded strings included;
explicit capacity bound).  `build_arrays` cannot refuse (`Props.C01.toMarrow_complete`: `finish_total` on the well-formed
final state, the typing invariant `typedFs` of the traced schema by `Props.C03.fromType_good`).  `_partial`: `hsafe` is a
hypothesis (derived in `C04_accept_nodict_partial` when `string_dictionary_encoding` is off) and so is `fromType … = ok`. -/
theorem C04_accept_partial (c : Trace.Code) (O : Trace.Options) (ext : Ext) (n : String) (fs : TFields) (vs : List Val)
    (fields : List Field)
    (h0 : O.overwrites = []) (hfrag : frag (.struct n fs) = true)
    (hwt : ∀ v ∈ vs, wt (.struct n fs) v = true)
    (hft : Trace.fromType c O (toTraceTy (.struct n fs)) = .ok fields)
    (hsafe : ∀ root0, newRoot fields = .ok root0 → Safe root0)
    (hcap : ((vs.map (ser (.struct n fs))).map (vsize ext)).sum ≤ 2147483647) :
    ∃ arrs, toMarrow ext fields (vs.map (ser (.struct n fs))) = .ok arrs := by
  obtain ⟨root0, hr0, hc, htot, htyped, hrows, hroom⟩ := accept_hyps c O ext n fs vs fields h0 hfrag hwt hft hcap
  exact Props.C01.toMarrow_complete ext fields _ root0 hc hr0 (hsafe root0 hr0) htot htyped hrows hroom

/-- `C04_accept_rows` with `Safe` derived, for tracing options without `string_dictionary_encoding` -/
theorem C04_accept_rows_nodict (c : Trace.Code) (O : Trace.Options) (ext : Ext) (n : String) (fs : TFields) (vs : List Val)
    (fields : List Field)
    (h0 : O.overwrites = []) (hd : O.string_dictionary_encoding = false) (hfrag : frag (.struct n fs) = true)
    (hwt : ∀ v ∈ vs, wt (.struct n fs) v = true)
    (hft : Trace.fromType c O (toTraceTy (.struct n fs)) = .ok fields)
    (hcap : ((vs.map (ser (.struct n fs))).map (vsize ext)).sum ≤ 2147483647) :
    ∃ root, runRows ext fields (vs.map (ser (.struct n fs))) = .ok root ∧
      toMarrow ext fields (vs.map (ser (.struct n fs))) = (do let (arrs, _) ← buildArrays ext root; pure arrs) := by
  have hn : noEnum (.struct n fs) = true := frag_noEnum _ hfrag
  have hroot := C04_fromType_mapping c O h0 _ hn fields hft
  have hfields : fields = (mappingFields (viewOpts O) fs).toList := by
    simp [mappingRoot, mappingDT] at hroot; exact hroot.symm
  exact C04_accept_rows c O ext n fs vs fields h0 hfrag hwt hft
    (safe_of_traced (viewOpts O) hd fs (by simpa [noEnum] using hn) fields hfields) hcap

/-- **Acceptance, complete, without dictionary encoding**: `C04_accept_partial` with `Safe` derived
(`safe_of_traced`).  `_partial`: `fromType … = ok` is a hypothesis; with dictionary encoding on, `hsafe` is not derived
(`C04_accept_partial`). -/
theorem C04_accept_nodict_partial (c : Trace.Code) (O : Trace.Options) (ext : Ext) (n : String) (fs : TFields) (vs : List Val)
    (fields : List Field)
    (h0 : O.overwrites = []) (hd : O.string_dictionary_encoding = false) (hfrag : frag (.struct n fs) = true)
    (hwt : ∀ v ∈ vs, wt (.struct n fs) v = true)
    (hft : Trace.fromType c O (toTraceTy (.struct n fs)) = .ok fields)
    (hcap : ((vs.map (ser (.struct n fs))).map (vsize ext)).sum ≤ 2147483647) :
    ∃ arrs, toMarrow ext fields (vs.map (ser (.struct n fs))) = .ok arrs := by
  have hn : noEnum (.struct n fs) = true := frag_noEnum _ hfrag
  have hroot := C04_fromType_mapping c O h0 _ hn fields hft
  have hfields : fields = (mappingFields (viewOpts O) fs).toList := by
    simp [mappingRoot, mappingDT] at hroot; exact hroot.symm
  exact C04_accept_partial c O ext n fs vs fields h0 hfrag hwt hft
    (safe_of_traced (viewOpts O) hd fs (by simpa [noEnum] using hn) fields hfields) hcap

/-- **C04 end to end, without dictionary encoding**: serialization against the traced schema succeeds, and reading
everything back returns the batch, normalised (`norm` is the identity for `plainOpt` types: `C04_norm_eq_self`).
Remaining hypotheses: `fromType … = ok fields`, the capacity bound, `hext`, `hphys`. -/
theorem C04_end_to_end_nodict_partial (c : Trace.Code) (O : Trace.Options) (ext : Ext) (n : String) (fs : TFields) (vs : List Val)
    (fields : List Field)
    (h0 : O.overwrites = []) (hd : O.string_dictionary_encoding = false) (hfrag : frag (.struct n fs) = true) (hne : fs ≠ .nil)
    (hwt : ∀ v ∈ vs, wt (.struct n fs) v = true)
    (hext : Lemmas.C03.ExtOK ext)
    (hft : Trace.fromType c O (toTraceTy (.struct n fs)) = .ok fields)
    (hcap : ((vs.map (ser (.struct n fs))).map (vsize ext)).sum ≤ 2147483647) :
    ∃ arrs, toMarrow ext fields (vs.map (ser (.struct n fs))) = .ok arrs ∧
      ((∀ a ∈ arrs, Read.physical a = true) →
        readAll (toTarget (.struct n fs)) fields arrs = .ok (vs.map fun v => dvalOf (.struct n fs) (norm (.struct n fs) v))) := by
  obtain ⟨arrs, htm⟩ := C04_accept_nodict_partial c O ext n fs vs fields h0 hd hfrag hwt hft hcap
  refine ⟨arrs, htm, fun hphys => ?_⟩
  have hn : noEnum (.struct n fs) = true := frag_noEnum _ hfrag
  have hroot := C04_fromType_mapping c O h0 _ hn fields hft
  have hfields : fields = (mappingFields (viewOpts O) fs).toList := by
    simp [mappingRoot, mappingDT] at hroot; exact hroot.symm
  exact C04_roundtrip_bulk_partial c O ext n fs vs fields arrs h0 hfrag hne hwt hext
    (safe_of_traced (viewOpts O) hd fs (by simpa [noEnum] using hn) fields hfields) hphys hft htm

/-! ### non-vacuity: the batch of `Props/C04.lean` (`exFragRoot`, two records) meets every hypothesis -/

example : ((exBatch.map (ser exFragRoot)).map (vsize {})).sum ≤ 2147483647 := by decide +kernel

example : ∃ root, runRows {} exFields (exBatch.map (ser exFragRoot)) = .ok root ∧
    toMarrow {} exFields (exBatch.map (ser exFragRoot)) = (do let (arrs, _) ← buildArrays {} root; pure arrs) :=
  C04_accept_rows_nodict .fixed exO {} "Root" _ exBatch exFields rfl rfl (by decide +kernel) (by decide +kernel) exTrace
    (by decide +kernel)

example : ∃ arrs, toMarrow {} exFields (exBatch.map (ser exFragRoot)) = .ok arrs ∧
    ((∀ a ∈ arrs, Read.physical a = true) →
      readAll (toTarget exFragRoot) exFields arrs = .ok (exBatch.map fun v => dvalOf exFragRoot (norm exFragRoot v))) :=
  C04_end_to_end_nodict_partial .fixed exO {} "Root" _ exBatch exFields rfl rfl (by decide +kernel) (by simp) (by decide +kernel)
    exExtOK exTrace (by decide +kernel)

/-! non-vacuity of `C04_accept_partial` WITH dictionary-encoded strings: a record type with a `String` and an
`Option<String>` traces to two `Dictionary(UInt32, LargeUtf8)` columns; `Safe` holds of the fresh root -/

def exDO : Trace.Options := { map_as_struct := false, string_dictionary_encoding := true }
def exDRoot : Ty := .struct "D" (.cons "s" false (.prim .str) (.cons "t" false (.option (.prim .str)) .nil))
def exDBatch : List Val :=
  [.struct (.cons (.str "x") (.cons (.some (.str "y")) .nil)), .struct (.cons (.str "x") (.cons .none .nil))]
def exDFields : List Field := match Trace.fromType .fixed exDO (toTraceTy exDRoot) with | .ok fs => fs | .error _ => []

theorem exDTrace : Trace.fromType .fixed exDO (toTraceTy exDRoot) = .ok exDFields := by decide +kernel

theorem exDSafe : ∀ root0, newRoot exDFields = .ok root0 → Safe root0 := by
  intro root0 h0
  rw [show newRoot exDFields = .ok (.struct "$" 0 none
    (.cons (.dictionary "$.s" (.leaf "$.s.key" (.int .u32) none []) (.bytes "$.s.value" .largeUtf8 none [0] []) [])
      ⟨"s", false, []⟩
      (.cons (.dictionary "$.t" (.leaf "$.t.key" (.int .u32) (some []) []) (.bytes "$.t.value" .largeUtf8 none [0] []) [])
        ⟨"t", true, []⟩ .nil)) [none, none] 0 [false, false]) from by decide +kernel] at h0
  cases h0
  simp [Safe, SafeL, B.isDict]

example : exDFields = [.mk "s" (.dictionary .uint32 .largeUtf8) false [], .mk "t" (.dictionary .uint32 .largeUtf8) true []] := by
  decide +kernel

example : ∃ arrs, toMarrow {} exDFields (exDBatch.map (ser exDRoot)) = .ok arrs :=
  C04_accept_partial .fixed exDO {} "D" _ exDBatch exDFields rfl (by decide +kernel) (by decide +kernel) exDTrace exDSafe
    (by decide +kernel)

end SaModel.Props.C04
