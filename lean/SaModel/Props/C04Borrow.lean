import SaModel.Props.C04Root2
/-
C04 for BORROWED targets ("the round trip holds for borrowed as well as owned targets") and the `&[u8]` serialize /
deserialize asymmetry.

The type language has four borrowed leaves (Roundtrip/Types.lean, `Prim`): `strRef` (`&'de str`), `cowStr`
(`#[serde(borrow)] Cow<'de, str>`), `bytesRef` (`#[serde(borrow, with = "serde_bytes")] &'de [u8]`) and `bytesSeq` (`&'de [u8]`
with the std impls: a SEQUENCE of u8 out, `deserialize_bytes` in).  They are leaves of the grammar `fragE`, so EVERY theorem of
Props/C04*.lean (`C04_end_to_end_root` …) holds of types with borrowed leaves at any position — below Option, Vec, tuples, maps,
structs, enum variants — for every option set.  This file says what that means for them:

  * what a borrowed leaf asks and gets           `C04_borrowed_leaf_target`, `C04_borrowed_leaf_value`
  * WHEN THE CRATE CAN LEND (reader model)        `C04_lend_str`, `C04_lend_bytes`, `C04_lend_dictionary`: every string-like
    column (Utf8, LargeUtf8, Utf8View AND Dictionary — `string_dictionary_encoding(true)` included, repo fix 18bc5a0) hands
    `deserialize_str` a BORROWED string, every binary-like column hands `deserialize_bytes` a borrowed slice;
    the REFUSAL otherwise: `C04_borrowed_refuses_copies` (a visitor of `&str` / `&[u8]` rejects a transient or owned value),
    `C04_no_lend_text` (Decimal128 / Date / Time / Duration / Timestamp columns create their text on the fly: a `&str` read
    fails), `C04_no_lend_utf8_as_bytes` (`&[u8]` from a Utf8 column: `visit_bytes`, refused).  No such column is ever traced
    (`mapping_noTemporal`), which is why the round-trip theorems need NO lending hypothesis.
  * `C04_roundtrip_borrowed`                      the property itself for every enum-free type (borrowed leaves anywhere), NO
    scope hypothesis, every option set: from_type succeeds, to_marrow accepts, reading back into the borrowed target returns
    the batch (normalised) with every borrowed leaf handed over BORROWED (`dvalOf`); `C04_roundtrip_borrowed_enum`: with enums
    (`BorrowEnum`), the instance of `C04_end_to_end_root`
  * THE ASYMMETRY `C04_bytes_seq_same_value`      the sequence of `serialize_u8` calls means, at Binary / LargeBinary /
    BinaryView, nullable or not, also below `Some`, the same binary value as `serialize_bytes` — never a null;
    `C04_bytes_seq_roundtrip`                     end to end for the zoo type `BorrowBytesOpt` (`Option<&[u8]>`,
    `Vec<Option<&[u8]>>`, `(Option<&[u8]>, u8)`, the serde_bytes form): EVERY batch comes back literally, `Some(bytes)` as
    `Some(borrowed bytes)` (seeded c04h: `Some` read back as `None`).
-/
namespace SaModel.Props.C04
open SaModel SaModel.Build SaModel.Spec SaModel.Roundtrip

/-! ### what a borrowed leaf asks for and is handed -/

/-- the `deserialize_*` hint and visitor of the borrowed leaves: `deserialize_str` / `deserialize_bytes` with a visitor that
takes borrowed values only (`Read.accept`) -/
theorem C04_borrowed_leaf_target :
    toTarget (.prim .strRef) = .str ∧ toTarget (.prim .cowStr) = .str ∧
    toTarget (.prim .bytesRef) = .bytes ∧ toTarget (.prim .bytesSeq) = .bytes ∧
    toTraceTy (.prim .strRef) = .string ∧ toTraceTy (.prim .cowStr) = .string ∧
    toTraceTy (.prim .bytesRef) = .bytes ∧ toTraceTy (.prim .bytesSeq) = .bytes :=
  ⟨rfl, rfl, rfl, rfl, rfl, rfl, rfl, rfl⟩

/-- what the round-trip theorems say comes back at a borrowed leaf: the value, handed over BORROWED
(`visit_borrowed_str` / `visit_borrowed_bytes`) -/
theorem C04_borrowed_leaf_value (s : String) (b : List UInt8) :
    dvalOf (.prim .strRef) (.str s) = .str .borrowed (Read.strBytes s) ∧
    dvalOf (.prim .cowStr) (.str s) = .str .borrowed (Read.strBytes s) ∧
    dvalOf (.prim .bytesRef) (.bytes b) = .bytes .borrowed b ∧
    dvalOf (.prim .bytesSeq) (.bytes b) = .bytes .borrowed b :=
  ⟨rfl, rfl, rfl, rfl⟩

/-- the two byte-slice leaves differ on the Serialize side only -/
theorem C04_bytes_leaf_ser (b : List UInt8) :
    ser (.prim .bytesRef) (.bytes b) = .bytes b ∧ ser (.prim .bytesSeq) (.bytes b) = .seq (u8Seq b) := ⟨rfl, rfl⟩

/-! ### when the crate can lend (the reader model, any array) -/

/-- a `&'de str` / `&'de [u8]` visitor takes a borrowed value and REFUSES a transient or an owned one -/
theorem C04_borrowed_refuses_copies (b : Bytes) :
    Read.accept .str (.str .borrowed b) = .ok (.str .borrowed b) ∧
    Read.accept .bytes (.bytes .borrowed b) = .ok (.bytes .borrowed b) ∧
    Read.accept .str (.str .transient b) = Read.rejected ∧ Read.accept .str (.str .owned b) = Read.rejected ∧
    Read.accept .bytes (.bytes .transient b) = Read.rejected ∧ Read.accept .bytes (.bytes .owned b) = Read.rejected :=
  ⟨rfl, rfl, rfl, rfl, rfl, rfl⟩

/-- the borrowed value a required slot is handed over as -/
theorem lendOf_ok {f : Bytes → Read.DVal} {r : R Bytes} {d : Read.DVal}
    (h : (do pure (f (← r)) : R Read.DVal) = .ok d) : ∃ b, d = f b := by
  cases r with
  | error e => simp [bind, Except.bind] at h
  | ok b => simp [bind, Except.bind, pure, Except.pure] at h; exact ⟨b, h.symm⟩

/-- a transient / owned text never reaches a borrowed visitor -/
theorem notLent {r : R Int} {g : Int → R Read.DVal} {t : Read.Target} {d : Read.DVal}
    (hg : ∀ x y, g x = .ok y → Read.accept t y = Read.rejected) :
    (do Read.accept t (← (do g (← r) : R Read.DVal)) : R Read.DVal) ≠ .ok d := by
  cases r with
  | error e => simp [bind, Except.bind]
  | ok x =>
    cases hx : g x with
    | error e => simp [bind, Except.bind, hx]
    | ok y => simp [bind, Except.bind, hx, hg x y hx, Read.rejected, SaModel.fail]

/-- `deserialize_str` on a DICTIONARY column hands out the dictionary value BORROWED from the values array (repo fix 18bc5a0;
seeded c04d turns it into `visit_str`) -/
theorem C04_lend_dictionary (fx : Read.Fixes) (ks vs : Arr) (idx : Nat) :
    Read.scalar fx .str (.dictionary ks vs) idx = (do pure (.str .borrowed (← Read.dictGetStr fx ks vs idx))) := by
  unfold Read.scalar; rfl

/-- **every string-like column lends**: Utf8 / LargeUtf8, Utf8View and Dictionary columns answer `deserialize_str` with
`visit_borrowed_str` — whatever `deserialize_str` returns there is a borrowed string, which the `&'de str` visitor accepts -/
theorem C04_lend_str (fx : Read.Fixes) (a : Arr) (idx : Nat) (d : Read.DVal) (hs : Read.isStringLike a = true)
    (h : Read.scalar fx .str a idx = .ok d) :
    (∃ b, d = .str .borrowed b) ∧ Read.readAs fx .str a idx = .ok d := by
  have hb : ∃ b, d = .str .borrowed b := by
    cases a <;> simp only [Read.isStringLike, Bool.false_eq_true] at hs
    case bytes ty v offs data =>
      unfold Read.scalar at h; simp only [hs, if_true] at h; exact lendOf_ok h
    case bytesView ty v views buffers =>
      unfold Read.scalar at h; simp only [hs, if_true] at h; exact lendOf_ok h
    case dictionary ks vs =>
      rw [C04_lend_dictionary] at h; exact lendOf_ok h
  refine ⟨hb, ?_⟩
  obtain ⟨b, rfl⟩ := hb
  simp [Read.readAs, h, bind, Except.bind, Read.accept]

/-- **every binary-like column lends**: Binary / LargeBinary, BinaryView and FixedSizeBinary columns answer
`deserialize_bytes` with `visit_borrowed_bytes` -/
theorem C04_lend_bytes (fx : Read.Fixes) (a : Arr) (idx : Nat) (d : Read.DVal) (hs : Read.isBinaryLike a = true)
    (h : Read.scalar fx .bytes a idx = .ok d) :
    (∃ b, d = .bytes .borrowed b) ∧ Read.readAs fx .bytes a idx = .ok d := by
  have hb : ∃ b, d = .bytes .borrowed b := by
    cases a <;> simp only [Read.isBinaryLike, Bool.false_eq_true, Bool.not_eq_true'] at hs
    case bytes ty v offs data =>
      unfold Read.scalar at h; simp only [hs, Bool.false_eq_true, if_false] at h; exact lendOf_ok h
    case bytesView ty v views buffers =>
      unfold Read.scalar at h; simp only [hs, Bool.false_eq_true, if_false] at h; exact lendOf_ok h
    case fixedSizeBinary n v data =>
      unfold Read.scalar at h; exact lendOf_ok h
  refine ⟨hb, ?_⟩
  obtain ⟨b, rfl⟩ := hb
  cases a <;> simp only [Read.isBinaryLike, Bool.false_eq_true] at hs <;>
    simp [Read.readAs, h, bind, Except.bind, Read.accept]

/-- **the refusal otherwise, text created on the fly**: a Decimal128 / Duration column answers `deserialize_str` with a
TRANSIENT string (`visit_str`), which a `&'de str` target refuses — whatever the slot holds, the read is not `ok` -/
theorem C04_no_lend_text (fx : Read.Fixes) (idx : Nat) (d : Read.DVal) :
    (∀ p s v vals, Read.readAs fx .str (.decimal128 p s v vals) idx ≠ .ok d) ∧
    (∀ u v vals, Read.readAs fx .str (.time .duration u v vals) idx ≠ .ok d) := by
  refine ⟨fun p s v vals => ?_, fun u v vals => ?_⟩
  · simp only [Read.readAs]; unfold Read.scalar; simp only [Read.codecRead]
    exact notLent (by intro x y h; cases h; rfl)
  · simp only [Read.readAs]; unfold Read.scalar; simp only [Read.codecRead]
    exact notLent (by intro x y h; cases h; rfl)

/-- `&'de [u8]` from a Utf8 / LargeUtf8 column: `deserialize_bytes` hands out `visit_bytes` (transient) there — refused -/
theorem C04_no_lend_utf8_as_bytes (fx : Read.Fixes) (ty : BytesTy) (v : Option Bits) (offs : List Int) (data : Bytes) (idx : Nat)
    (d : Read.DVal) (hu : Spec.isUtf8Ty ty = true) : Read.readAs fx .bytes (.bytes ty v offs data) idx ≠ .ok d := by
  simp only [Read.readAs]; unfold Read.scalar; simp only [hu, if_true]
  cases hg : Read.getRequired (Read.bytesColGet fx ty v offs data idx) with
  | error e => simp [bind, Except.bind]
  | ok x => simp [bind, Except.bind, pure, Except.pure, Read.accept, Read.rejected, SaModel.fail]

/-! ### the property for borrowed targets -/

/-- **C04 for borrowed targets, enum-free types**: `t` any type of the enum-free grammar `frag` — scalars, the OWNED leaves
`String` / byte buffers and the BORROWED leaves `&'de str`, `Cow<'de, str>`, `&'de [u8]` (both forms) at any position: below
Option (nested), Vec, maps, tuples, structs, newtypes — at any supported root (`rootCols … = some F`, at least one column).
For EVERY option set (`string_dictionary_encoding(true)` included: the dictionary reader lends), every `ext`, every batch of
well-typed values within the capacity: `from_type::<T>` returns a schema, `to_marrow` accepts the batch against it, and
reading everything back INTO THE BORROWED TARGET (`toTarget t`: `deserialize_str` / `deserialize_bytes` with visitors that take
borrowed values only) succeeds and returns the batch (normalised), every borrowed leaf handed over borrowed (`dvalOf`,
`C04_borrowed_leaf_value`).  No scope hypothesis (enum-free), no lending hypothesis (every traced column lends). -/
theorem C04_roundtrip_borrowed (c : Trace.Code) (O : Trace.Options) (ext : Ext) (t : Ty) (F : Fields) (vs : List Val)
    (h0 : O.overwrites = []) (hfrag : frag t = true)
    (hroot : rootCols (viewOpts O) t = some F) (hne : F ≠ .nil)
    (hwt : ∀ v ∈ vs, wt t v = true)
    (hw : Trace.Spec.walkable O "$" (toTraceTy t) = true)
    (hm : mappable (viewOpts O) t = true)
    (hb : Trace.Spec.passes (toTraceTy t) ≤ O.from_type_budget)
    (hcap : ((vs.map (ser t)).map (vsize ext)).sum ≤ 2147483647) :
    ∃ fields arrs, Trace.fromType c O (toTraceTy t) = .ok fields ∧
      toMarrow ext fields (vs.map (ser t)) = .ok arrs ∧
      readAll (toTarget t) fields arrs = .ok (vs.map fun v => dvalOf t (norm t v)) :=
  C04_end_to_end_root c O ext t F vs h0 (frag_fragE t hfrag) (noEnum_sized t (frag_noEnum t hfrag)) hroot hne hwt
    (fun v _ => frag_inScopeO (viewOpts O) t v hfrag) hw hm hb hcap

/-- the same where no `Option` sits directly over a nullable position (`plainOpt`): what comes back is LITERALLY the batch -/
theorem C04_roundtrip_borrowed_identity (c : Trace.Code) (O : Trace.Options) (ext : Ext) (t : Ty) (F : Fields) (vs : List Val)
    (h0 : O.overwrites = []) (hfrag : frag t = true) (hplain : plainOpt t = true)
    (hroot : rootCols (viewOpts O) t = some F) (hne : F ≠ .nil)
    (hwt : ∀ v ∈ vs, wt t v = true)
    (hw : Trace.Spec.walkable O "$" (toTraceTy t) = true)
    (hm : mappable (viewOpts O) t = true)
    (hb : Trace.Spec.passes (toTraceTy t) ≤ O.from_type_budget)
    (hcap : ((vs.map (ser t)).map (vsize ext)).sum ≤ 2147483647) :
    ∃ fields arrs, Trace.fromType c O (toTraceTy t) = .ok fields ∧
      toMarrow ext fields (vs.map (ser t)) = .ok arrs ∧
      readAll (toTarget t) fields arrs = .ok (vs.map (dvalOf t)) := by
  obtain ⟨fields, arrs, hft, htm, hr⟩ := C04_roundtrip_borrowed c O ext t F vs h0 hfrag hroot hne hwt hw hm hb hcap
  refine ⟨fields, arrs, hft, htm, ?_⟩
  rw [hr]
  congr 1
  apply List.map_congr_left
  intro v hv
  rw [norm_eq_self _ v hplain (hwt v hv)]

/-- **C04 for borrowed targets inside enums** (`enum BorrowEnum<'a> { S(&'a str), R { inner: BorrowStr<'a> }, N(i8) }`): the
borrowed leaves are leaves of the full grammar `fragE`, so this is `C04_end_to_end_root` — with its documented exclusion
(`inScopeO`: no `None` at a Union position) -/
theorem C04_roundtrip_borrowed_enum (c : Trace.Code) (O : Trace.Options) (ext : Ext) (t : Ty) (F : Fields) (vs : List Val)
    (h0 : O.overwrites = []) (hfrag : fragE t = true) (hsz : sized t = true)
    (hroot : rootCols (viewOpts O) t = some F) (hne : F ≠ .nil)
    (hwt : ∀ v ∈ vs, wt t v = true)
    (hsc : ∀ v ∈ vs, inScopeO (viewOpts O) t v = true)
    (hw : Trace.Spec.walkable O "$" (toTraceTy t) = true)
    (hm : mappable (viewOpts O) t = true)
    (hb : Trace.Spec.passes (toTraceTy t) ≤ O.from_type_budget)
    (hcap : ((vs.map (ser t)).map (vsize ext)).sum ≤ 2147483647) :
    ∃ fields arrs, Trace.fromType c O (toTraceTy t) = .ok fields ∧
      toMarrow ext fields (vs.map (ser t)) = .ok arrs ∧
      readAll (toTarget t) fields arrs = .ok (vs.map fun v => dvalOf t (norm t v)) :=
  C04_end_to_end_root c O ext t F vs h0 hfrag hsz hroot hne hwt hsc hw hm hb hcap

/-! ### the `&[u8]` asymmetry: a sequence of u8 out, bytes in -/

def isBinaryDT : DataType → Bool
  | .binary | .largeBinary | .binaryView => true
  | _ => false

/-- **the sequence path stores the same bytes**: at a Binary / LargeBinary / BinaryView field, nullable or not, any metadata
that is not the UnknownVariant marker, the call stream `serialize_seq; serialize_u8 × n` of `&[u8]` means the binary value of
those bytes — the same value `serialize_bytes` means — and so does `Some(&[u8])`: never a null (seeded c04h) -/
theorem C04_bytes_seq_same_value (ext : Ext) (dt : DataType) (nb : Bool) (b : List UInt8) (hdt : isBinaryDT dt = true) :
    interpDT ext dt nb [] (ser (.prim .bytesSeq) (.bytes b)) = .ok (.bin b) ∧
    interpDT ext dt nb [] (ser (.prim .bytesRef) (.bytes b)) = .ok (.bin b) ∧
    interpDT ext dt nb [] (ser (.option (.prim .bytesSeq)) (.some (.bytes b))) = .ok (.bin b) := by
  cases dt <;> simp only [isBinaryDT, Bool.false_eq_true] at hdt <;>
    simp [ser, interpDT, isUnknownVariant, specBytes, bytesOf_u8Seq, liftO, bind, Except.bind, pure, Except.pure,
      interpScalar_eq_old, interpScalarOld]

/-- `struct BorrowBytesOpt<'a> { o: Option<&'a [u8]>, v: Vec<Option<&'a [u8]>>, t: (Option<&'a [u8]>, u8),
#[serde(with = "serde_bytes")] w: Option<&'a [u8]> }` (harness/src/zoo.rs) -/
def tBorrowBytesOpt : Ty :=
  .struct "BorrowBytesOpt"
    (.cons "o" false (.option (.prim .bytesSeq))
    (.cons "v" false (.vec (.option (.prim .bytesSeq)))
    (.cons "t" false (.tuple (.cons (.option (.prim .bytesSeq)) (.cons (.prim (.int .u8)) .nil)))
    (.cons "w" false (.option (.prim .bytesRef)) .nil))))

/-- **the asymmetric leaf round-trips, also below Option / Vec / tuples**: for the zoo type `BorrowBytesOpt`, default options,
every `ext`, EVERY batch of well-typed values within the capacity — `from_type` traces nullable LargeBinary columns from
`deserialize_bytes`, `to_marrow` accepts the SEQUENCES of u8 the derived `Serialize` issues, and reading back into the borrowed
target returns literally the batch: `Some(bytes)` as `Some(borrowed bytes)`, `None` as `None` -/
theorem C04_bytes_seq_roundtrip (c : Trace.Code) (ext : Ext) (vs : List Val)
    (hwt : ∀ v ∈ vs, wt tBorrowBytesOpt v = true)
    (hcap : ((vs.map (ser tBorrowBytesOpt)).map (vsize ext)).sum ≤ 2147483647) :
    ∃ fields arrs, Trace.fromType c {} (toTraceTy tBorrowBytesOpt) = .ok fields ∧
      toMarrow ext fields (vs.map (ser tBorrowBytesOpt)) = .ok arrs ∧
      readAll (toTarget tBorrowBytesOpt) fields arrs = .ok (vs.map (dvalOf tBorrowBytesOpt)) :=
  C04_roundtrip_borrowed_identity c {} ext tBorrowBytesOpt _ vs rfl (by decide +kernel) (by decide +kernel)
    (rootCols_struct _ _ _) (by simp [mappingFields]) hwt (by decide +kernel) (by decide +kernel) (by decide +kernel) hcap

/-! ### non-vacuity (every hypothesis computed) -/

/-- `struct BorrowNested<'a> { o: Option<&'a str>, v: Vec<&'a str>, t: (&'a str, u8), inner: BorrowStr<'a> }` with
`struct BorrowStr<'a> { s: &'a str, n: i32 }`, and a `Cow<'a, str>` -/
def exBorrowNested : Ty :=
  .struct "BorrowNested"
    (.cons "o" false (.option (.prim .strRef))
    (.cons "v" false (.vec (.prim .strRef))
    (.cons "t" false (.tuple (.cons (.prim .strRef) (.cons (.prim (.int .u8)) .nil)))
    (.cons "inner" false (.struct "BorrowStr" (.cons "s" false (.prim .strRef) (.cons "n" false (.prim (.int .i32)) .nil)))
    (.cons "c" false (.prim .cowStr) .nil)))))

def exBorrowBatch : List Val :=
  [.struct (.cons (.some (.str "ab")) (.cons (.vec (.cons (.str "x") (.cons (.str "") .nil)))
     (.cons (.tuple (.cons (.str "ß") (.cons (.int 7) .nil))) (.cons (.struct (.cons (.str "s") (.cons (.int (-1)) .nil)))
     (.cons (.str "cow") .nil))))),
   .struct (.cons .none (.cons (.vec .nil)
     (.cons (.tuple (.cons (.str "") (.cons (.int 0) .nil))) (.cons (.struct (.cons (.str "") (.cons (.int 0) .nil)))
     (.cons (.str "") .nil)))))]

/-- with dictionary encoded strings (`string_dictionary_encoding(true)`): the columns are Dictionary(UInt32, LargeUtf8) and
the borrowed targets still read -/
def exDictOpts : Trace.Options := { string_dictionary_encoding := true }

example : ∃ fields arrs, Trace.fromType .fixed exDictOpts (toTraceTy exBorrowNested) = .ok fields ∧
    toMarrow {} fields (exBorrowBatch.map (ser exBorrowNested)) = .ok arrs ∧
    readAll (toTarget exBorrowNested) fields arrs = .ok (exBorrowBatch.map (dvalOf exBorrowNested)) :=
  C04_roundtrip_borrowed_identity .fixed exDictOpts {} exBorrowNested _ exBorrowBatch rfl (by decide +kernel) (by decide +kernel)
    (rootCols_struct _ _ _) (by simp [mappingFields]) (by decide +kernel) (by decide +kernel) (by decide +kernel)
    (by decide +kernel) (by decide +kernel)

example : ((mappingDT (viewOpts exDictOpts) exBorrowNested).1) = .struct
    (.cons (.mk "o" (.dictionary .uint32 .largeUtf8) true [])
    (.cons (.mk "v" (.largeList (.mk "element" (.dictionary .uint32 .largeUtf8) false [])) false [])
    (.cons (.mk "t" (.struct (.cons (.mk "0" (.dictionary .uint32 .largeUtf8) false []) (.cons (.mk "1" .uint8 false []) .nil))) false TUPLE_MD)
    (.cons (.mk "inner" (.struct (.cons (.mk "s" (.dictionary .uint32 .largeUtf8) false []) (.cons (.mk "n" .int32 false []) .nil))) false [])
    (.cons (.mk "c" (.dictionary .uint32 .largeUtf8) false []) .nil))))) := by decide +kernel

/-- what the visitors of the first record are handed: every `&str` BORROWED, the struct keys transient -/
example : (exBorrowBatch.map (dvalOf exBorrowNested)).head? = some (.map
    (.cons (nameKey "o") (.some (.str .borrowed [97, 98]))
    (.cons (nameKey "v") (.seq (.cons (.str .borrowed [120]) (.cons (.str .borrowed []) .nil)))
    (.cons (nameKey "t") (.seq (.cons (.str .borrowed [195, 159]) (.cons (.int .u8 7) .nil)))
    (.cons (nameKey "inner") (.map (.cons (nameKey "s") (.str .borrowed [115]) (.cons (nameKey "n") (.int .i32 (-1)) .nil)))
    (.cons (nameKey "c") (.str .borrowed [99, 111, 119]) .nil)))))) := by decide +kernel

/-- `BorrowBytesOpt`: `Some(&[1, 2])` / `None` at every position, default options -/
def exBytesBatch : List Val :=
  [.struct (.cons (.some (.bytes [1, 2])) (.cons (.vec (.cons (.some (.bytes [])) (.cons .none (.cons (.some (.bytes [255])) .nil))))
     (.cons (.tuple (.cons (.some (.bytes [0])) (.cons (.int 9) .nil))) (.cons (.some (.bytes [3])) .nil)))),
   .struct (.cons .none (.cons (.vec .nil) (.cons (.tuple (.cons .none (.cons (.int 0) .nil))) (.cons .none .nil))))]

example : ∃ fields arrs, Trace.fromType .fixed {} (toTraceTy tBorrowBytesOpt) = .ok fields ∧
    toMarrow {} fields (exBytesBatch.map (ser tBorrowBytesOpt)) = .ok arrs ∧
    readAll (toTarget tBorrowBytesOpt) fields arrs = .ok (exBytesBatch.map (dvalOf tBorrowBytesOpt)) :=
  C04_bytes_seq_roundtrip .fixed {} exBytesBatch (by decide +kernel) (by decide +kernel)

/-- the traced schema: nullable LargeBinary (from `deserialize_bytes`), though the Serialize side issues sequences -/
example : Trace.fromType .fixed {} (toTraceTy tBorrowBytesOpt) = .ok
    [.mk "o" .largeBinary true [], .mk "v" (.largeList (.mk "element" .largeBinary true [])) false [],
     .mk "t" (.struct (.cons (.mk "0" .largeBinary true []) (.cons (.mk "1" .uint8 false []) .nil))) false TUPLE_MD,
     .mk "w" .largeBinary true []] := by decide +kernel

/-- the call stream of the first record: `o` is `Some(seq of u8)`, `w` is `Some(bytes)`; what comes back: borrowed bytes -/
example : (exBytesBatch.map (ser tBorrowBytesOpt)).head? = some (.record "BorrowBytesOpt"
    (.cons "o" 0 (.some (.seq (.cons (.int .u8 1) (.cons (.int .u8 2) .nil))))
    (.cons "v" 0 (.seq (.cons (.some (.seq .nil)) (.cons .none (.cons (.some (.seq (.cons (.int .u8 255) .nil))) .nil))))
    (.cons "t" 0 (.tuple (.cons (.some (.seq (.cons (.int .u8 0) .nil))) (.cons (.int .u8 9) .nil)))
    (.cons "w" 0 (.some (.bytes [3])) .nil))))) := by decide +kernel

example : (exBytesBatch.map (dvalOf tBorrowBytesOpt)).head? = some (.map
    (.cons (nameKey "o") (.some (.bytes .borrowed [1, 2]))
    (.cons (nameKey "v") (.seq (.cons (.some (.bytes .borrowed [])) (.cons .none (.cons (.some (.bytes .borrowed [255])) .nil))))
    (.cons (nameKey "t") (.seq (.cons (.some (.bytes .borrowed [0])) (.cons (.int .u8 9) .nil)))
    (.cons (nameKey "w") (.some (.bytes .borrowed [3])) .nil))))) := by decide +kernel

/-- the lending lemmas are not vacuous: a LargeUtf8 column and a Dictionary column, read as `&str` -/
example : Read.readAs Read.Fixes.all .str (.bytes .largeUtf8 none [0, 2, 3] [97, 98, 99]) 0 = .ok (.str .borrowed [97, 98]) := by
  decide +kernel
example : Read.readAs Read.Fixes.all .str
    (.dictionary (.prim .uint32 none [1, 0]) (.bytes .largeUtf8 none [0, 2, 3] [97, 98, 99])) 0 = .ok (.str .borrowed [99]) := by
  decide +kernel
/-- … and the refusal: a Decimal128 column read as `&str` -/
example : (Read.readAs Read.Fixes.all .str (.decimal128 5 2 none [1234]) 0).isOk = false := by decide +kernel

end SaModel.Props.C04
