import SaModel.Props.C04
/-
C04 — a NEWTYPE OF A STRUCT as the root type (`struct NewtypeOfStruct(pub Inner);`, zoo type `NewtypeOfStruct`).

The composed theorems of Props/C04.lean are stated for a root `struct n fs`.  The crate also accepts a newtype struct around a
record as the item type: serde's `serialize_newtype_struct` / `deserialize_newtype_struct` are transparent for the builders
and the readers, and `from_type` traces the inner record.  In the models that transparency is definitional:

  push ext b (.newtypeStruct _ x) = push ext b x            (Build/Push.lean)
  readAs fx (.newtype t) a i      = readAs fx t a i         (Read/Reader.lean)
  mappingDT o (.newtype _ t)      = mappingDT o t           (Roundtrip/Types.lean)

so the round trip of `newtype m (struct n fs)` is the round trip of `struct n fs` on the unwrapped values.
-/
namespace SaModel.Props.C04
open SaModel SaModel.Build SaModel.Spec SaModel.Roundtrip

/-- the value inside a newtype-struct value -/
def unwrapNewtype : Val → Val
  | .newtype v => v
  | v => v

theorem foldlM_push_newtypeStruct (ext : Ext) (m : String) : ∀ (xs : List SVal) (b : B),
    (xs.map (SVal.newtypeStruct m)).foldlM (push ext) b = xs.foldlM (push ext) b
  | [], _ => rfl
  | x :: xs, b => by
    simp only [List.map_cons, List.foldlM_cons]
    have : push ext b (.newtypeStruct m x) = push ext b x := by simp only [push]
    rw [this]
    congr 1
    funext b'
    exact foldlM_push_newtypeStruct ext m xs b'

/-- serializing newtype-wrapped records against a schema is serializing the records -/
theorem toMarrow_newtypeStruct (ext : Ext) (m : String) (fields : List Field) (xs : List SVal) :
    toMarrow ext fields (xs.map (SVal.newtypeStruct m)) = toMarrow ext fields xs := by
  simp only [toMarrow, foldlM_push_newtypeStruct]

/-- a well-typed value of a newtype struct is a wrapped well-typed value of the inner type -/
theorem wt_newtype {m : String} {t : Ty} {v : Val} (h : wt (.newtype m t) v = true) :
    v = .newtype (unwrapNewtype v) ∧ wt t (unwrapNewtype v) = true := by
  cases v <;> simp [wt] at h
  exact ⟨rfl, by simpa [unwrapNewtype] using h⟩

theorem toTarget_newtype (m : String) (t : Ty) : toTarget (.newtype m t) = .newtype (toTarget t) := by
  simp only [toTarget]

theorem readAs_newtype (fx : Read.Fixes) (t : Read.Target) (a : Arr) (i : Nat) :
    Read.readAs fx (.newtype t) a i = Read.readAs fx t a i := by
  simp only [Read.readAs]

/-- **C04 for a newtype of a record as the root type** (bulk form; `struct N(S)` with `S = struct n fs` in the grammar).
Hypotheses as in `C04_roundtrip_bulk`, about the newtype: no overwrites, `S` in `fragE` with at least one field, the values
well typed and in scope, at most `i64::MAX` records, `from_type::<N>` returned `fields`, `to_marrow` returned `arrs`.  Then
`Vec<N>::deserialize(Deserializer::from_marrow(fields, views))` returns the batch, normalised. -/
theorem C04_roundtrip_bulk_newtype_root (c : Trace.Code) (O : Trace.Options) (ext : Ext) (m n : String) (fs : TFields)
    (vs : List Val) (fields : List Field) (arrs : List Arr)
    (h0 : O.overwrites = []) (hfrag : fragE (.struct n fs) = true) (hne : fs ≠ .nil)
    (hwt : ∀ v ∈ vs, wt (.newtype m (.struct n fs)) v = true)
    (hsc : ∀ v ∈ vs, inScopeO (viewOpts O) (.newtype m (.struct n fs)) v = true)
    (hlen : vs.length ≤ 9223372036854775807)
    (hft : Trace.fromType c O (toTraceTy (.newtype m (.struct n fs))) = .ok fields)
    (htm : toMarrow ext fields (vs.map (ser (.newtype m (.struct n fs)))) = .ok arrs) :
    readAll (toTarget (.newtype m (.struct n fs))) fields arrs =
      .ok (vs.map fun v => dvalOf (.newtype m (.struct n fs)) (norm (.newtype m (.struct n fs)) v)) := by
  -- the schema is the documented mapping of the inner record
  have hroot := C04_fromType_mapping c O h0 (.newtype m (Ty.struct n fs)) fields hft
  have hfields : fields = (mappingFields (viewOpts O) fs).toList := by
    simp [mappingRoot, mappingDT] at hroot; exact hroot.symm
  -- the unwrapped batch
  let ws := vs.map unwrapNewtype
  have hv : ∀ v ∈ vs, v = .newtype (unwrapNewtype v) ∧ wt (Ty.struct n fs) (unwrapNewtype v) = true := fun v hv => wt_newtype (hwt v hv)
  have hwt' : ∀ w ∈ ws, wt (Ty.struct n fs) w = true := by
    intro w hw
    obtain ⟨v, hvm, rfl⟩ := List.mem_map.mp hw
    exact (hv v hvm).2
  have hsc' : ∀ w ∈ ws, inScopeO (viewOpts O) (Ty.struct n fs) w = true := by
    intro w hw
    obtain ⟨v, hvm, rfl⟩ := List.mem_map.mp hw
    have := hsc v hvm
    rw [(hv v hvm).1] at this
    simpa [inScopeO, inScopeU, strOK, unwrapNewtype] using this
  have hser : vs.map (ser (.newtype m (Ty.struct n fs))) = (ws.map (ser (Ty.struct n fs))).map (SVal.newtypeStruct m) := by
    simp only [ws, List.map_map]
    apply List.map_congr_left
    intro v hvm
    have := (hv v hvm).1
    simp only [Function.comp]
    conv => lhs; rw [this]
    simp [ser]
  have htm' : toMarrow ext fields (ws.map (ser (Ty.struct n fs))) = .ok arrs := by
    rw [← toMarrow_newtypeStruct ext m fields, ← hser]; exact htm
  have hlen' : ws.length ≤ 9223372036854775807 := by simpa [ws] using hlen
  obtain ⟨hacc, hnew, hread⟩ := C04_roundtrip_core_fields O ext n fs ws fields arrs hfrag hne hwt' hsc' hlen' hfields htm'
  have hwl : ws.length = vs.length := by simp [ws]
  simp only [readAll, hacc, bind, Except.bind]
  rw [hnew]
  simp only [Props.C13.bulk_eq_items, toTarget_newtype, readAs_newtype]
  rw [mapM_ok_of_forall _ (fun i => dvalOf (Ty.struct n fs) (norm (Ty.struct n fs) (ws.getD i .unit))) (List.range ws.length)
    (fun i hi => by
      have hi' : i < ws.length := List.mem_range.mp hi
      rw [hread i hi']
      simp [List.getD_eq_getElem?_getD, List.getElem?_eq_getElem hi'])]
  congr 1
  apply List.ext_getElem
  · simp [hwl]
  · intro i h1 h2
    have hi' : i < vs.length := by simpa using h2
    have hiw : i < ws.length := by rw [hwl]; exact hi'
    have hvi := (hv vs[i] (List.getElem_mem hi')).1
    simp only [List.getElem_map, List.getElem_range, List.getD_eq_getElem?_getD, List.getElem?_eq_getElem hiw, Option.getD_some]
    conv => rhs; rw [hvi]
    simp [ws, norm, dvalOf]

/-! ### non-vacuity: the zoo type `struct NewtypeOfStruct(pub Inner);`, `struct Inner { x: i16, y: String }`, default options,
a batch of two values: every hypothesis is met (computed), and the theorem gives what comes back -/

def exNewtypeRoot : Ty := .newtype "NewtypeOfStruct" exInner
def exNBatch : List Val :=
  [.newtype (.struct (.cons (.int 3) (.cons (.str "ab") .nil))), .newtype (.struct (.cons (.int (-32768)) (.cons (.str "ß") .nil)))]
def exNFields : List Field := match Trace.fromType .fixed {} (toTraceTy exNewtypeRoot) with | .ok fs => fs | .error _ => []
def exNArrs : List Arr := match toMarrow {} exNFields (exNBatch.map (ser exNewtypeRoot)) with | .ok a => a | .error _ => []

theorem exNTrace : Trace.fromType .fixed {} (toTraceTy exNewtypeRoot) = .ok exNFields := by decide +kernel
theorem exNBuild : toMarrow {} exNFields (exNBatch.map (ser exNewtypeRoot)) = .ok exNArrs := by decide +kernel

example : exNFields.length = 2 ∧ exNArrs.length = 2 ∧
    exNBatch.map (ser exNewtypeRoot) ≠ exNBatch.map (fun v => ser exInner (unwrapNewtype v)) := by decide +kernel

example : readAll (toTarget exNewtypeRoot) exNFields exNArrs =
    .ok (exNBatch.map fun v => dvalOf exNewtypeRoot (norm exNewtypeRoot v)) :=
  C04_roundtrip_bulk_newtype_root .fixed {} {} "NewtypeOfStruct" "Inner" _ exNBatch exNFields exNArrs rfl (by decide +kernel)
    (by simp) (by decide +kernel) (by decide +kernel) (by decide +kernel) exNTrace exNBuild

end SaModel.Props.C04
