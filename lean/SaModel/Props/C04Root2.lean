import SaModel.Props.C04Accept
import SaModel.Props.C04Root
import SaModel.Lemmas.C04RootKind
/-
C04 — EVERY ROOT KIND `from_type` supports, and the refusal of the others.

Props/C04.lean and Props/C04Accept.lean state the round trip for a root `struct n fs` with named fields.  The crate accepts more
item types: `Tracer::to_schema` takes the children of whatever NON-NULLABLE STRUCT the root tracer was traced to and drops
the metadata of the root field, so a tuple struct `struct T(A, B)`, a tuple `(A, B)` / an array `[A; 2]` (columns "0", "1",
strategy TupleAsStruct dropped at the root) and a newtype struct around any supported root (`struct N(T)`, also nested) are
root types too — `Roundtrip.recordRoot`, `Roundtrip.rootCols_isSome_iff` (Lemmas/C04RootKind.lean).  Every other root is
refused.

This file proves the whole of C04 for ANY root `t` with `rootCols (viewOpts O) t = some F`, `F ≠ nil` (the root is traced to
a non-nullable struct with at least one column):

  C04_roundtrip_core_root     the core (record count, root reader, typed read of every index) — `C04_roundtrip_core_fields`
                              with the struct-specific lemmas replaced by the `mapping_*` lemmas at the root's struct
  C04_physical_root, C04_roundtrip_root, C04_roundtrip_bulk_root
  C04_fromType_ok_root, C04_accept_root, C04_end_to_end_root            acceptance and the property itself, NO premise
                              about `from_type` / `to_marrow`
  C04_root_refused            a root that is not traced to a non-nullable struct is refused by `from_type`

and instantiates them by root kind (Props/C04RootKinds.lean): tuple, tuple struct, newtype (the two premises of
`C04_roundtrip_bulk_newtype_root` removed), newtype of newtype.
-/
namespace SaModel.Props.C04
open SaModel SaModel.Build SaModel.Spec SaModel.Roundtrip

/-- `Spec.interpRow` of a serialized value of ANY supported root: the root struct of the schema is interpreted with empty
metadata, the root field of the tracer may carry the strategy TupleAsStruct — `interpDT` at a Struct does not look at it -/
theorem C04_interpRow_root (ext : Ext) (o : TraceOpts) (t : Ty) (F : Fields) (v : Val) (fields : List Field)
    (hf : fragE t = true) (hw : wt t v = true) (hs : inScopeO o t v = true)
    (hroot : rootCols o t = some F) (hfields : fields = F.toList) :
    interpRow ext fields (ser t v) = .ok (lvO o t v) := by
  obtain ⟨md, hm⟩ := rootCols_some hroot
  subst hfields
  unfold interpRow
  rw [Fields.ofList_toList, interpDT_struct_md ext F false [] md]
  exact C04_interp_ser ext o t v _ false md hf hw hs hm

/-- at ANY supported root: the type-directed exclusion is the driver's run-time exclusion against the schema `from_type`
returns (`C04_inScopeU_row` for every root kind) -/
theorem C04_inScopeU_row_root (o : TraceOpts) (t : Ty) (F : Fields) (v : Val) (fields : List Field)
    (hf : fragE t = true) (hw : wt t v = true) (hroot : rootCols o t = some F) (hfields : fields = F.toList) :
    inScopeU o t v = !noneAtUnionRow fields (ser t v) := by
  obtain ⟨md, hm⟩ := rootCols_some hroot
  subst hfields
  rw [C04_inScopeU_iff o t v hf hw, hm]
  simp [noneAtUnionRow, Fields.ofList_toList]

theorem toList_ne_nil : ∀ (F : Fields), F ≠ .nil → F.toList ≠ []
  | .nil, h => absurd rfl h
  | .cons _ _, _ => by simp [Fields.toList]

/-- **the core of the round trip for ANY supported root**: `from_marrow`'s checks pass with record count `vs.length`, the
root reader is constructed, and the typed read of every index — into the target of the root type itself
(`deserialize_struct` / `deserialize_tuple_struct` / `deserialize_tuple` / `deserialize_newtype_struct` on the root
`StructDeserializer`) — returns the normalised value.  `C04_roundtrip_core_fields` is the case `t = struct n fs`. -/
theorem C04_roundtrip_core_root (O : Trace.Options) (ext : Ext) (t : Ty) (F : Fields) (vs : List Val)
    (fields : List Field) (arrs : List Arr)
    (hfrag : fragE t = true) (hroot : rootCols (viewOpts O) t = some F) (hne : F ≠ .nil)
    (hwt : ∀ v ∈ vs, wt t v = true)
    (hsc : ∀ v ∈ vs, inScopeO (viewOpts O) t v = true)
    (hphys : Spec.wfFields F (zipCols fields arrs) vs.length = true → Read.physicalFields (zipCols fields arrs) = true)
    (hfields : fields = F.toList)
    (htm : toMarrow ext fields (vs.map (ser t)) = .ok arrs) :
    Access.new true fields.length (arrs.map Read.vlen) = .ok vs.length ∧
    Read.new Read.Fixes.all (rootArr fields arrs vs.length) = .ok () ∧
    ∀ (i : Nat) (hi : i < vs.length),
      Read.readAs Read.Fixes.all (toTarget t) (rootArr fields arrs vs.length) i = .ok (dvalOf t (norm t vs[i])) := by
  let o := viewOpts O
  obtain ⟨md, hm⟩ := rootCols_some hroot
  have hofl : Fields.ofList fields = F := by rw [hfields]; exact Fields.ofList_toList _
  have htm' : toMarrow (refuseExt ext) fields (vs.map (ser t)) = .ok arrs := by
    rw [← toMarrow_refuse_root ext hroot fields hfields]; exact htm
  have hext : Lemmas.C03.ExtOK (refuseExt ext) := refuseExt_ok ext
  have hside := sideFs_toList F (rootCols_side hroot)
  rw [← hfields] at hside
  have hser : ∀ x ∈ vs.map (ser t), Build.noRaw x = true ∧ Lemmas.C03.SValOK x := by
    intro x hx
    obtain ⟨v, hv, rfl⟩ := List.mem_map.mp hx
    exact ser_ok t v (hwt v hv)
  obtain ⟨hlen, cols, hc1, hc2, hc3, hc4⟩ := Props.C01.C01_build_decode' (refuseExt ext) fields (vs.map (ser t)) arrs
    (fun f hf => (hside f hf).1)
    (List.all_eq_true.mpr fun f hf => (hside f hf).2) (fun x hx => Build.noRaw_ssa x (hser x hx).1)
    (Or.inl fun x hx => (hser x hx).1) htm'
  obtain ⟨_, hwf⟩ := Props.C01.C03_wfS' (refuseExt ext) fields (vs.map (ser t)) arrs
    (fun f hf => (hside f hf).1) (Or.inr (List.all_eq_true.mpr fun f hf => (hside f hf).2)) hext (fun x hx => (hser x hx).2) htm'
  have hrl : (vs.map (ser t)).length = vs.length := List.length_map _
  have hcols : Spec.wfFields F (zipCols fields arrs) vs.length = true := by
    rw [← hofl]
    exact zip_wf vs.length fields arrs hlen (fun j f a hf ha => by
      have := hwf j f a hf ha; rw [hrl] at this; exact this)
  have hwfroot : Spec.wf (.struct F) false (rootArr fields arrs vs.length) = true := by
    simp [rootArr, Spec.wf, Spec.validityOk, hcols]
  have hnew : Read.new Read.Fixes.all (rootArr fields arrs vs.length) = .ok () :=
    new_of_wf o t _ _ _ false _ hm hwfroot
  have hnewF : Read.newFields Read.Fixes.all (zipCols fields arrs) = .ok () := by
    simpa [rootArr, Read.new] using hnew
  have hnonempty : arrs ≠ [] := by
    intro he
    rw [he] at hlen
    have : fields = [] := List.length_eq_zero_iff.mp hlen.symm
    rw [this] at hfields
    exact toList_ne_nil F hne hfields.symm
  have hlens : ∀ x ∈ arrs.map Read.vlen, x = vs.length := by
    rw [zip_vlen fields arrs hlen hnewF]
    intro x hx
    obtain ⟨a, ha, rfl⟩ := List.mem_map.mp hx
    obtain ⟨j, hj, rfl⟩ := List.getElem_of_mem ha
    have hjf : j < fields.length := by omega
    have := (hwf j fields[j] arrs[j] (List.getElem?_eq_getElem hjf) (List.getElem?_eq_getElem hj)).2
    rw [← (Spec.decodeAll_spec arrs[j]).1, this, hrl]
  have hacc : Access.new true fields.length (arrs.map Read.vlen) = .ok vs.length :=
    access_new vs.length _ _ (by simp [hlen]) (by simpa using hnonempty) hlens
  refine ⟨hacc, hnew, ?_⟩
  intro i hi
  have hsi := hsc _ (List.getElem_mem hi)
  have hinterp := C04_interpRow_root (refuseExt ext) o t F vs[i] fields hfrag (hwt _ (List.getElem_mem hi)) hsi hroot hfields
  have hrow := hc4 i (by rw [hrl]; exact hi)
  rw [List.getElem_map, hinterp] at hrow
  have hdec : Spec.decodeAt (rootArr fields arrs vs.length) i = .ok (lvO o t vs[i]) := by
    have hz := zip_decode i fields arrs cols hc1 hc2 (fun c' hc' => by rw [hc3 c' hc', hrl]; exact hi)
    simp only [rootArr, Spec.decodeAt, hi, if_true, Spec.withValidity, Spec.isValid, hz, bind, Except.bind, pure, Except.pure]
    simp only [Except.ok.injEq] at hrow
    simpa using hrow.symm
  simp only [inScopeO, Bool.and_eq_true] at hsi
  have hcast := cast_lvO o t vs[i] (rootArr fields arrs vs.length) (.struct F) false md false hfrag
    (hwt _ (List.getElem_mem hi)) hsi.1 hsi.2 hm hwfroot
  exact Props.C02.read_typed_decode (toTarget t) (rootArr fields arrs vs.length) i (lvO o t vs[i]) _ hdec
    hnew
    (by simpa [rootArr, Read.physical] using hphys hcols)
    (utf8Ok_lvO o t vs[i]) hcast

/-- the fields `from_type` returned for a supported root are the columns of the documented mapping -/
theorem C04_fromType_fields_root (c : Trace.Code) (O : Trace.Options) (h0 : O.overwrites = []) (t : Ty) (F : Fields)
    (hroot : rootCols (viewOpts O) t = some F)
    (fields : List Field) (h : Trace.fromType c O (toTraceTy t) = .ok fields) : fields = F.toList := by
  have := C04_fromType_mapping c O h0 t fields h
  rw [mappingRoot_eq_rootCols, hroot] at this
  simpa using this.symm

/-- `Read.physical` of the arrays built against the schema of any supported root (`C04_physical_fields` for every root) -/
theorem C04_physical_root (O : Trace.Options) (ext : Ext) (t : Ty) (F : Fields) (vs : List Val)
    (fields : List Field) (arrs : List Arr)
    (hroot : rootCols (viewOpts O) t = some F)
    (hwt : ∀ v ∈ vs, wt t v = true)
    (hlen : vs.length ≤ 9223372036854775807)
    (hfields : fields = F.toList)
    (htm : toMarrow ext fields (vs.map (ser t)) = .ok arrs) : ∀ a ∈ arrs, Read.physical a = true := by
  have hside := sideFs_toList F (rootCols_side hroot)
  rw [← hfields] at hside
  refine Props.C03.toMarrow_physical ext fields (vs.map (ser t)) arrs
    (List.all_eq_true.mpr fun f hf => (hside f hf).2) ?_ ?_ htm
  · intro x hx
    obtain ⟨v, hv, rfl⟩ := List.mem_map.mp hx
    exact (ser_ok _ v (hwt v hv)).1
  · rw [List.length_map, hfields]
    exact rootCols_sizeOK hroot vs.length hlen

/-- the bulk read from the core -/
theorem readAll_of_core (t : Ty) (vs : List Val) (fields : List Field) (arrs : List Arr)
    (hacc : Access.new true fields.length (arrs.map Read.vlen) = .ok vs.length)
    (hnew : Read.new Read.Fixes.all (rootArr fields arrs vs.length) = .ok ())
    (hread : ∀ (i : Nat) (hi : i < vs.length),
      Read.readAs Read.Fixes.all (toTarget t) (rootArr fields arrs vs.length) i = .ok (dvalOf t (norm t vs[i]))) :
    readAll (toTarget t) fields arrs = .ok (vs.map fun v => dvalOf t (norm t v)) := by
  simp only [readAll, hacc, bind, Except.bind]
  rw [hnew]
  simp only [Props.C13.bulk_eq_items]
  rw [mapM_ok_of_forall _ (fun i => dvalOf t (norm t (vs.getD i .unit))) (List.range vs.length)
    (fun i hi => by
      have hi' : i < vs.length := List.mem_range.mp hi
      rw [hread i hi']
      simp [List.getD_eq_getElem?_getD, List.getElem?_eq_getElem hi'])]
  congr 1
  apply List.ext_getElem
  · simp
  · intro i h1 h2
    have hi' : i < vs.length := by simpa using h1
    simp [List.getD_eq_getElem?_getD, List.getElem?_eq_getElem hi']

/-- **C04 through the real models, for every supported root kind** (per record): `C04_roundtrip` with the root
`struct n fs` replaced by any type traced to a non-nullable struct with at least one column — a struct with named fields, a
tuple struct, a tuple / array, a newtype struct around one of these -/
theorem C04_roundtrip_root (c : Trace.Code) (O : Trace.Options) (ext : Ext) (t : Ty) (F : Fields) (vs : List Val)
    (fields : List Field) (arrs : List Arr)
    (h0 : O.overwrites = []) (hfrag : fragE t = true) (hroot : rootCols (viewOpts O) t = some F) (hne : F ≠ .nil)
    (hwt : ∀ v ∈ vs, wt t v = true)
    (hsc : ∀ v ∈ vs, inScopeO (viewOpts O) t v = true)
    (hlen : vs.length ≤ 9223372036854775807)
    (hft : Trace.fromType c O (toTraceTy t) = .ok fields)
    (htm : toMarrow ext fields (vs.map (ser t)) = .ok arrs) :
    ∀ (i : Nat) (hi : i < vs.length), readRecord (toTarget t) fields arrs i = .ok (dvalOf t (norm t vs[i])) := by
  intro i hi
  have hfields := C04_fromType_fields_root c O h0 t F hroot fields hft
  obtain ⟨hacc, hnew, hread⟩ := C04_roundtrip_core_root O ext t F vs fields arrs hfrag hroot hne hwt hsc
    (fun _ => zip_physical fields arrs (C04_physical_root O ext t F vs fields arrs hroot hwt hlen hfields htm)) hfields htm
  simp only [readRecord, hacc, bind, Except.bind]
  rw [hnew]
  simp only [Access.getIdx, ge_iff_le, Nat.not_le.mpr hi, if_false]
  exact hread i hi

/-- **bulk form, every supported root kind** (`C04_roundtrip_bulk` is the case `t = struct n fs`) -/
theorem C04_roundtrip_bulk_root (c : Trace.Code) (O : Trace.Options) (ext : Ext) (t : Ty) (F : Fields) (vs : List Val)
    (fields : List Field) (arrs : List Arr)
    (h0 : O.overwrites = []) (hfrag : fragE t = true) (hroot : rootCols (viewOpts O) t = some F) (hne : F ≠ .nil)
    (hwt : ∀ v ∈ vs, wt t v = true)
    (hsc : ∀ v ∈ vs, inScopeO (viewOpts O) t v = true)
    (hlen : vs.length ≤ 9223372036854775807)
    (hft : Trace.fromType c O (toTraceTy t) = .ok fields)
    (htm : toMarrow ext fields (vs.map (ser t)) = .ok arrs) :
    readAll (toTarget t) fields arrs = .ok (vs.map fun v => dvalOf t (norm t v)) := by
  have hfields := C04_fromType_fields_root c O h0 t F hroot fields hft
  obtain ⟨hacc, hnew, hread⟩ := C04_roundtrip_core_root O ext t F vs fields arrs hfrag hroot hne hwt hsc
    (fun _ => zip_physical fields arrs (C04_physical_root O ext t F vs fields arrs hroot hwt hlen hfields htm)) hfields htm
  exact readAll_of_core t vs fields arrs hacc hnew hread

/-- **`from_type` succeeds on every supported root kind** that can be walked and mapped within the pass budget, and returns
the columns of the documented mapping (`C04_fromType_ok` for every root) -/
theorem C04_fromType_ok_root (c : Trace.Code) (O : Trace.Options) (h0 : O.overwrites = []) (t : Ty) (F : Fields)
    (hroot : rootCols (viewOpts O) t = some F)
    (hw : Trace.Spec.walkable O "$" (toTraceTy t) = true)
    (hm : mappable (viewOpts O) t = true)
    (hb : Trace.Spec.passes (toTraceTy t) ≤ O.from_type_budget) :
    Trace.fromType c O (toTraceTy t) = .ok F.toList :=
  fromType_ok_root c O h0 t F hroot hw hm hb

/-- **a root that is not traced to a non-nullable struct is refused**: `from_type` returns no schema for `()`, a unit
struct, a scalar, an Option, a sequence, a map, an enum, or a newtype struct around one of those — whatever the options
(without overwrites), whatever the exploration order (`Tracer::to_schema`: "The root type cannot be nullable", "No records
found to determine schema", "Schema tracing is not directly supported for the root data type …") -/
theorem C04_root_refused (c : Trace.Code) (O : Trace.Options) (h0 : O.overwrites = []) (t : Ty)
    (hroot : recordRoot t = false) : ∀ fields, Trace.fromType c O (toTraceTy t) ≠ .ok fields := by
  intro fields h
  have := C04_fromType_mapping c O h0 t fields h
  rw [mappingRoot_eq_rootCols] at this
  have hs : (rootCols (viewOpts O) t).isSome = true := by
    cases hr : rootCols (viewOpts O) t with
    | none => rw [hr] at this; cases this
    | some _ => rfl
  rw [rootCols_isSome_iff, hroot] at hs
  cases hs

/-- the hypotheses of C01's completeness theorems for the schema of any supported root (`accept_hyps` for every root) -/
theorem accept_hyps_root (O : Trace.Options) (ext : Ext) (t : Ty) (F : Fields) (vs : List Val) (fields : List Field)
    (hfrag : fragE t = true) (hsz : sized t = true) (hroot : rootCols (viewOpts O) t = some F)
    (hwt : ∀ v ∈ vs, wt t v = true)
    (hsc : ∀ v ∈ vs, inScopeO (viewOpts O) t v = true)
    (hfields : fields = F.toList)
    (hcap : ((vs.map (ser t)).map (vsize ext)).sum ≤ 2147483647) :
    ∃ root0, newRoot fields = .ok root0 ∧ fields.all coveredF = true ∧ totalFs (Fields.ofList fields) = true ∧
      (∀ r ∈ vs.map (ser t), noRaw r = true ∧ ∃ lv, interpRow ext fields r = .ok lv) ∧
      ((vs.map (ser t)).map (vsize ext)).sum ≤ room root0 := by
  have hofl : Fields.ofList fields = F := by rw [hfields]; exact Fields.ofList_toList _
  have hside := sideFs_toList F (rootCols_side hroot)
  rw [← hfields] at hside
  obtain ⟨root0, hr0, hroom⟩ := newRoot_root hroot hfrag
  rw [← hfields] at hr0
  refine ⟨root0, hr0, List.all_eq_true.mpr fun f hf => (hside f hf).2, ?_, ?_, ?_⟩
  · rw [hofl]; exact rootCols_total hroot hsz
  · intro r hr
    obtain ⟨v, hv, rfl⟩ := List.mem_map.mp hr
    exact ⟨(ser_ok t v (hwt v hv)).1, lvO (viewOpts O) t v,
      C04_interpRow_root ext (viewOpts O) t F v fields hfrag (hwt v hv) (hsc v hv) hroot hfields⟩
  · rw [hroom]; exact hcap

/-- **acceptance of the traced schema, every supported root kind**: `to_marrow` succeeds on every batch of well-typed values
in scope against the schema `from_type` returned (`C04_accept_traced` for every root) -/
theorem C04_accept_traced_root (c : Trace.Code) (O : Trace.Options) (ext : Ext) (t : Ty) (F : Fields) (vs : List Val)
    (fields : List Field)
    (h0 : O.overwrites = []) (hfrag : fragE t = true) (hsz : sized t = true) (hroot : rootCols (viewOpts O) t = some F)
    (hwt : ∀ v ∈ vs, wt t v = true)
    (hsc : ∀ v ∈ vs, inScopeO (viewOpts O) t v = true)
    (hft : Trace.fromType c O (toTraceTy t) = .ok fields)
    (hcap : ((vs.map (ser t)).map (vsize ext)).sum ≤ 2147483647) :
    ∃ arrs, toMarrow ext fields (vs.map (ser t)) = .ok arrs := by
  have hfields := C04_fromType_fields_root c O h0 t F hroot fields hft
  obtain ⟨root0, hr0, hc, htot, hrows, hroom⟩ := accept_hyps_root O ext t F vs fields hfrag hsz hroot hwt hsc hfields hcap
  have htyped := (Props.C03.fromType_good c O _ fields (by rw [h0]; intro kv hkv; cases hkv) hft).2
  exact Props.C01.toMarrow_complete' ext fields _ root0 hc hr0 htot htyped hrows hroom

/-- **acceptance, complete, every supported root kind** — no hypothesis about the result of `from_type` -/
theorem C04_accept_root (c : Trace.Code) (O : Trace.Options) (ext : Ext) (t : Ty) (F : Fields) (vs : List Val)
    (h0 : O.overwrites = []) (hfrag : fragE t = true) (hsz : sized t = true) (hroot : rootCols (viewOpts O) t = some F)
    (hwt : ∀ v ∈ vs, wt t v = true)
    (hsc : ∀ v ∈ vs, inScopeO (viewOpts O) t v = true)
    (hw : Trace.Spec.walkable O "$" (toTraceTy t) = true)
    (hm : mappable (viewOpts O) t = true)
    (hb : Trace.Spec.passes (toTraceTy t) ≤ O.from_type_budget)
    (hcap : ((vs.map (ser t)).map (vsize ext)).sum ≤ 2147483647) :
    ∃ fields, Trace.fromType c O (toTraceTy t) = .ok fields ∧ ∃ arrs, toMarrow ext fields (vs.map (ser t)) = .ok arrs :=
  ⟨_, C04_fromType_ok_root c O h0 t F hroot hw hm hb,
    C04_accept_traced_root c O ext t F vs _ h0 hfrag hsz hroot hwt hsc (C04_fromType_ok_root c O h0 t F hroot hw hm hb) hcap⟩

/-- **C04 end to end, EVERY SUPPORTED ROOT KIND** — the property itself for any item type traced to a non-nullable struct
with at least one column (a struct with named fields, a tuple struct, a tuple / array, a newtype struct around one of
these; `rootCols_isSome_iff`): `from_type` returns a schema, serializing any batch of well-typed values in scope against it
succeeds, and reading everything back — into the root type's own target — returns the batch, normalised.  NO residual
hypothesis, every `ext`, every option: the hypotheses are those of `C04_end_to_end` with `fs ≠ nil` read as "at least one
column".  `C04_end_to_end` is the case `t = struct n fs`. -/
theorem C04_end_to_end_root (c : Trace.Code) (O : Trace.Options) (ext : Ext) (t : Ty) (F : Fields) (vs : List Val)
    (h0 : O.overwrites = []) (hfrag : fragE t = true) (hsz : sized t = true)
    (hroot : rootCols (viewOpts O) t = some F) (hne : F ≠ .nil)
    (hwt : ∀ v ∈ vs, wt t v = true)
    (hsc : ∀ v ∈ vs, inScopeO (viewOpts O) t v = true)
    (hw : Trace.Spec.walkable O "$" (toTraceTy t) = true)
    (hm : mappable (viewOpts O) t = true)
    (hb : Trace.Spec.passes (toTraceTy t) ≤ O.from_type_budget)
    (hcap : ((vs.map (ser t)).map (vsize ext)).sum ≤ 2147483647) :
    ∃ fields arrs, Trace.fromType c O (toTraceTy t) = .ok fields ∧
      toMarrow ext fields (vs.map (ser t)) = .ok arrs ∧
      readAll (toTarget t) fields arrs = .ok (vs.map fun v => dvalOf t (norm t v)) := by
  have hft := C04_fromType_ok_root c O h0 t F hroot hw hm hb
  obtain ⟨arrs, htm⟩ := C04_accept_traced_root c O ext t F vs _ h0 hfrag hsz hroot hwt hsc hft hcap
  exact ⟨_, arrs, hft, htm,
    C04_roundtrip_bulk_root c O ext t F vs _ arrs h0 hfrag hroot hne hwt hsc (length_of_cap ext _ vs hcap) hft htm⟩

/-- **the round trip is literally the identity, every supported root kind**, where no `Option` sits directly over a nullable
position (`plainOpt`): `C04_roundtrip_identity` for every root -/
theorem C04_roundtrip_identity_root (c : Trace.Code) (O : Trace.Options) (ext : Ext) (t : Ty) (F : Fields) (vs : List Val)
    (fields : List Field) (arrs : List Arr)
    (h0 : O.overwrites = []) (hfrag : fragE t = true) (hplain : plainOpt t = true)
    (hroot : rootCols (viewOpts O) t = some F) (hne : F ≠ .nil)
    (hwt : ∀ v ∈ vs, wt t v = true)
    (hsc : ∀ v ∈ vs, inScopeO (viewOpts O) t v = true)
    (hlen : vs.length ≤ 9223372036854775807)
    (hft : Trace.fromType c O (toTraceTy t) = .ok fields)
    (htm : toMarrow ext fields (vs.map (ser t)) = .ok arrs) :
    readAll (toTarget t) fields arrs = .ok (vs.map (dvalOf t)) := by
  rw [C04_roundtrip_bulk_root c O ext t F vs fields arrs h0 hfrag hroot hne hwt hsc hlen hft htm]
  congr 1
  apply List.map_congr_left
  intro v hv
  rw [norm_eq_self _ v hplain (hwt v hv)]

/-- the bulk round trip for traced schemas WITHOUT Dictionary columns, every supported root kind: no size bound on the
batch (`C04_roundtrip_bulk_plain` for every root; `Read.physical` from `physicalFields_of_wf` / `rootCols_plain`) -/
theorem C04_roundtrip_bulk_plain_root (c : Trace.Code) (O : Trace.Options) (ext : Ext) (t : Ty) (F : Fields) (vs : List Val)
    (fields : List Field) (arrs : List Arr)
    (h0 : O.overwrites = []) (hd : O.string_dictionary_encoding = false) (he : O.enums_without_data_as_strings = false)
    (hfrag : fragE t = true) (hroot : rootCols (viewOpts O) t = some F) (hne : F ≠ .nil)
    (hwt : ∀ v ∈ vs, wt t v = true)
    (hsc : ∀ v ∈ vs, inScopeO (viewOpts O) t v = true)
    (hft : Trace.fromType c O (toTraceTy t) = .ok fields)
    (htm : toMarrow ext fields (vs.map (ser t)) = .ok arrs) :
    readAll (toTarget t) fields arrs = .ok (vs.map fun v => dvalOf t (norm t v)) := by
  have hfields := C04_fromType_fields_root c O h0 t F hroot fields hft
  obtain ⟨hacc, hnew, hread⟩ := C04_roundtrip_core_root O ext t F vs fields arrs hfrag hroot hne hwt hsc
    (fun h => physicalFields_of_wf _ F _ h (rootCols_plain (o := viewOpts O) hd he hroot)) hfields htm
  exact readAll_of_core t vs fields arrs hacc hnew hread

/-- **C04 end to end at the codec models, every supported root kind** (what the driver runs): an instance of
`C04_end_to_end_root`, which has no hypothesis about `ext` -/
theorem C04_end_to_end_codec_root (f32Str f64Str : Nat → String) (cast : Nat → Int → Bool → Nat → Option (Bool × Int))
    (c : Trace.Code) (O : Trace.Options) (t : Ty) (F : Fields) (vs : List Val)
    (h0 : O.overwrites = []) (hfrag : fragE t = true) (hsz : sized t = true)
    (hroot : rootCols (viewOpts O) t = some F) (hne : F ≠ .nil)
    (hwt : ∀ v ∈ vs, wt t v = true)
    (hsc : ∀ v ∈ vs, inScopeO (viewOpts O) t v = true)
    (hw : Trace.Spec.walkable O "$" (toTraceTy t) = true)
    (hm : mappable (viewOpts O) t = true)
    (hb : Trace.Spec.passes (toTraceTy t) ≤ O.from_type_budget)
    (hcap : ((vs.map (ser t)).map (vsize (Props.C16.codecExt f32Str f64Str cast))).sum ≤ 2147483647) :
    ∃ fields arrs, Trace.fromType c O (toTraceTy t) = .ok fields ∧
      toMarrow (Props.C16.codecExt f32Str f64Str cast) fields (vs.map (ser t)) = .ok arrs ∧
      readAll (toTarget t) fields arrs = .ok (vs.map fun v => dvalOf t (norm t v)) :=
  C04_end_to_end_root c O _ t F vs h0 hfrag hsz hroot hne hwt hsc hw hm hb hcap

end SaModel.Props.C04
