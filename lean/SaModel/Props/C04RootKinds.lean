import SaModel.Props.C04Root2
/-
C04 by ROOT KIND: the general theorems of Props/C04Root2.lean (any root traced to a non-nullable struct) instantiated for

  * a TUPLE root          `(A, B, …)`, `[A; N]`            columns "0", "1", …        `…_tuple_root`
  * a TUPLE STRUCT root   `struct T(A, B, …)`               columns "0", "1", …        `…_tuple_struct_root`
  * a NEWTYPE root        `struct N(T)`, `T` any supported root (a record, a tuple struct, a tuple, again a newtype)
                                                            the columns of `T`         `…_newtype_root`
                          (the premises `fromType = ok`, `toMarrow = ok` of `C04_roundtrip_bulk_newtype_root` are gone:
                          `C04_accept_newtype_root`, `C04_end_to_end_newtype_root`)
  * the roots the crate REFUSES: unit struct, `()`, scalar, Option, Vec, map, enum (and newtypes of those)
                                                                                        `C04_…_root_refused`
  * the EMPTY roots (`struct Empty {}`, `struct T()`, `()`-less tuples: zero columns): `from_type` accepts them, the
    record count is lost — the property is FALSE there (`C04_empty_root_loses_records`; crate finding
    C04-empty-root-struct-loses-row-count)

with a non-vacuity example (every hypothesis computed) beside each.
-/
namespace SaModel.Props.C04
open SaModel SaModel.Build SaModel.Spec SaModel.Roundtrip

/-! ### tuple roots -/

/-- **bulk round trip, TUPLE root** `(A, B, …)` (also `[A; N]`): hypotheses of `C04_roundtrip_bulk` about the tuple -/
theorem C04_roundtrip_bulk_tuple_root (c : Trace.Code) (O : Trace.Options) (ext : Ext) (ts : Tys) (vs : List Val)
    (fields : List Field) (arrs : List Arr)
    (h0 : O.overwrites = []) (hfrag : fragE (.tuple ts) = true) (hne : ts ≠ .nil)
    (hwt : ∀ v ∈ vs, wt (.tuple ts) v = true)
    (hsc : ∀ v ∈ vs, inScopeO (viewOpts O) (.tuple ts) v = true)
    (hlen : vs.length ≤ 9223372036854775807)
    (hft : Trace.fromType c O (toTraceTy (.tuple ts)) = .ok fields)
    (htm : toMarrow ext fields (vs.map (ser (.tuple ts))) = .ok arrs) :
    readAll (toTarget (.tuple ts)) fields arrs = .ok (vs.map fun v => dvalOf (.tuple ts) (norm (.tuple ts) v)) :=
  C04_roundtrip_bulk_root c O ext _ _ vs fields arrs h0 hfrag (rootCols_tuple _ ts) (mappingPos_ne_nil _ 0 ts hne) hwt hsc hlen hft htm

/-- **acceptance, TUPLE root**: `from_type::<(A, B, …)>` returns a schema (the columns "0", "1", …) and `to_marrow` accepts
every batch of well-typed values in scope against it -/
theorem C04_accept_tuple_root (c : Trace.Code) (O : Trace.Options) (ext : Ext) (ts : Tys) (vs : List Val)
    (h0 : O.overwrites = []) (hfrag : fragE (.tuple ts) = true) (hsz : sized (.tuple ts) = true)
    (hwt : ∀ v ∈ vs, wt (.tuple ts) v = true)
    (hsc : ∀ v ∈ vs, inScopeO (viewOpts O) (.tuple ts) v = true)
    (hw : Trace.Spec.walkable O "$" (toTraceTy (.tuple ts)) = true)
    (hm : mappable (viewOpts O) (.tuple ts) = true)
    (hb : Trace.Spec.passes (toTraceTy (.tuple ts)) ≤ O.from_type_budget)
    (hcap : ((vs.map (ser (.tuple ts))).map (vsize ext)).sum ≤ 2147483647) :
    Trace.fromType c O (toTraceTy (.tuple ts)) = .ok (mappingPos (viewOpts O) 0 ts).toList ∧
      ∃ arrs, toMarrow ext (mappingPos (viewOpts O) 0 ts).toList (vs.map (ser (.tuple ts))) = .ok arrs := by
  have hft := C04_fromType_ok_root c O h0 _ _ (rootCols_tuple _ ts) hw hm hb
  exact ⟨hft, C04_accept_traced_root c O ext _ _ vs _ h0 hfrag hsz (rootCols_tuple _ ts) hwt hsc hft hcap⟩

/-- **C04 end to end, TUPLE root** — no premise about `from_type` / `to_marrow` -/
theorem C04_end_to_end_tuple_root (c : Trace.Code) (O : Trace.Options) (ext : Ext) (ts : Tys) (vs : List Val)
    (h0 : O.overwrites = []) (hfrag : fragE (.tuple ts) = true) (hsz : sized (.tuple ts) = true) (hne : ts ≠ .nil)
    (hwt : ∀ v ∈ vs, wt (.tuple ts) v = true)
    (hsc : ∀ v ∈ vs, inScopeO (viewOpts O) (.tuple ts) v = true)
    (hw : Trace.Spec.walkable O "$" (toTraceTy (.tuple ts)) = true)
    (hm : mappable (viewOpts O) (.tuple ts) = true)
    (hb : Trace.Spec.passes (toTraceTy (.tuple ts)) ≤ O.from_type_budget)
    (hcap : ((vs.map (ser (.tuple ts))).map (vsize ext)).sum ≤ 2147483647) :
    ∃ fields arrs, Trace.fromType c O (toTraceTy (.tuple ts)) = .ok fields ∧
      toMarrow ext fields (vs.map (ser (.tuple ts))) = .ok arrs ∧
      readAll (toTarget (.tuple ts)) fields arrs = .ok (vs.map fun v => dvalOf (.tuple ts) (norm (.tuple ts) v)) :=
  C04_end_to_end_root c O ext _ _ vs h0 hfrag hsz (rootCols_tuple _ ts) (mappingPos_ne_nil _ 0 ts hne) hwt hsc hw hm hb hcap

/-! ### tuple struct roots -/

/-- **bulk round trip, TUPLE STRUCT root** `struct T(A, B, …)` -/
theorem C04_roundtrip_bulk_tuple_struct_root (c : Trace.Code) (O : Trace.Options) (ext : Ext) (n : String) (ts : Tys)
    (vs : List Val) (fields : List Field) (arrs : List Arr)
    (h0 : O.overwrites = []) (hfrag : fragE (.tupleStruct n ts) = true) (hne : ts ≠ .nil)
    (hwt : ∀ v ∈ vs, wt (.tupleStruct n ts) v = true)
    (hsc : ∀ v ∈ vs, inScopeO (viewOpts O) (.tupleStruct n ts) v = true)
    (hlen : vs.length ≤ 9223372036854775807)
    (hft : Trace.fromType c O (toTraceTy (.tupleStruct n ts)) = .ok fields)
    (htm : toMarrow ext fields (vs.map (ser (.tupleStruct n ts))) = .ok arrs) :
    readAll (toTarget (.tupleStruct n ts)) fields arrs =
      .ok (vs.map fun v => dvalOf (.tupleStruct n ts) (norm (.tupleStruct n ts) v)) :=
  C04_roundtrip_bulk_root c O ext _ _ vs fields arrs h0 hfrag (rootCols_tupleStruct _ n ts) (mappingPos_ne_nil _ 0 ts hne)
    hwt hsc hlen hft htm

/-- **acceptance, TUPLE STRUCT root** -/
theorem C04_accept_tuple_struct_root (c : Trace.Code) (O : Trace.Options) (ext : Ext) (n : String) (ts : Tys) (vs : List Val)
    (h0 : O.overwrites = []) (hfrag : fragE (.tupleStruct n ts) = true) (hsz : sized (.tupleStruct n ts) = true)
    (hwt : ∀ v ∈ vs, wt (.tupleStruct n ts) v = true)
    (hsc : ∀ v ∈ vs, inScopeO (viewOpts O) (.tupleStruct n ts) v = true)
    (hw : Trace.Spec.walkable O "$" (toTraceTy (.tupleStruct n ts)) = true)
    (hm : mappable (viewOpts O) (.tupleStruct n ts) = true)
    (hb : Trace.Spec.passes (toTraceTy (.tupleStruct n ts)) ≤ O.from_type_budget)
    (hcap : ((vs.map (ser (.tupleStruct n ts))).map (vsize ext)).sum ≤ 2147483647) :
    Trace.fromType c O (toTraceTy (.tupleStruct n ts)) = .ok (mappingPos (viewOpts O) 0 ts).toList ∧
      ∃ arrs, toMarrow ext (mappingPos (viewOpts O) 0 ts).toList (vs.map (ser (.tupleStruct n ts))) = .ok arrs := by
  have hft := C04_fromType_ok_root c O h0 _ _ (rootCols_tupleStruct _ n ts) hw hm hb
  exact ⟨hft, C04_accept_traced_root c O ext _ _ vs _ h0 hfrag hsz (rootCols_tupleStruct _ n ts) hwt hsc hft hcap⟩

/-- **C04 end to end, TUPLE STRUCT root** -/
theorem C04_end_to_end_tuple_struct_root (c : Trace.Code) (O : Trace.Options) (ext : Ext) (n : String) (ts : Tys)
    (vs : List Val)
    (h0 : O.overwrites = []) (hfrag : fragE (.tupleStruct n ts) = true) (hsz : sized (.tupleStruct n ts) = true) (hne : ts ≠ .nil)
    (hwt : ∀ v ∈ vs, wt (.tupleStruct n ts) v = true)
    (hsc : ∀ v ∈ vs, inScopeO (viewOpts O) (.tupleStruct n ts) v = true)
    (hw : Trace.Spec.walkable O "$" (toTraceTy (.tupleStruct n ts)) = true)
    (hm : mappable (viewOpts O) (.tupleStruct n ts) = true)
    (hb : Trace.Spec.passes (toTraceTy (.tupleStruct n ts)) ≤ O.from_type_budget)
    (hcap : ((vs.map (ser (.tupleStruct n ts))).map (vsize ext)).sum ≤ 2147483647) :
    ∃ fields arrs, Trace.fromType c O (toTraceTy (.tupleStruct n ts)) = .ok fields ∧
      toMarrow ext fields (vs.map (ser (.tupleStruct n ts))) = .ok arrs ∧
      readAll (toTarget (.tupleStruct n ts)) fields arrs =
        .ok (vs.map fun v => dvalOf (.tupleStruct n ts) (norm (.tupleStruct n ts) v)) :=
  C04_end_to_end_root c O ext _ _ vs h0 hfrag hsz (rootCols_tupleStruct _ n ts) (mappingPos_ne_nil _ 0 ts hne) hwt hsc hw hm hb hcap

/-! ### newtype roots: `struct N(T)` around ANY supported root `T` (a record, a tuple struct, a tuple, again a newtype) -/

/-- **bulk round trip, NEWTYPE root around any supported root** (`C04_roundtrip_bulk_newtype_root` of Props/C04Root.lean is the
case `T = struct n fs`) -/
theorem C04_roundtrip_bulk_newtype_root' (c : Trace.Code) (O : Trace.Options) (ext : Ext) (m : String) (t : Ty) (F : Fields)
    (vs : List Val) (fields : List Field) (arrs : List Arr)
    (h0 : O.overwrites = []) (hfrag : fragE (.newtype m t) = true) (hroot : rootCols (viewOpts O) t = some F) (hne : F ≠ .nil)
    (hwt : ∀ v ∈ vs, wt (.newtype m t) v = true)
    (hsc : ∀ v ∈ vs, inScopeO (viewOpts O) (.newtype m t) v = true)
    (hlen : vs.length ≤ 9223372036854775807)
    (hft : Trace.fromType c O (toTraceTy (.newtype m t)) = .ok fields)
    (htm : toMarrow ext fields (vs.map (ser (.newtype m t))) = .ok arrs) :
    readAll (toTarget (.newtype m t)) fields arrs = .ok (vs.map fun v => dvalOf (.newtype m t) (norm (.newtype m t) v)) :=
  C04_roundtrip_bulk_root c O ext _ F vs fields arrs h0 hfrag (by rw [rootCols_newtype]; exact hroot) hne hwt hsc hlen hft htm

/-- **acceptance, NEWTYPE root** — the premise `fromType = ok` of `C04_roundtrip_bulk_newtype_root` DERIVED from the
documented preconditions, and `to_marrow` accepts every batch: `from_type::<N>` returns the columns of the inner root -/
theorem C04_accept_newtype_root (c : Trace.Code) (O : Trace.Options) (ext : Ext) (m : String) (t : Ty) (F : Fields)
    (vs : List Val)
    (h0 : O.overwrites = []) (hfrag : fragE (.newtype m t) = true) (hsz : sized (.newtype m t) = true)
    (hroot : rootCols (viewOpts O) t = some F)
    (hwt : ∀ v ∈ vs, wt (.newtype m t) v = true)
    (hsc : ∀ v ∈ vs, inScopeO (viewOpts O) (.newtype m t) v = true)
    (hw : Trace.Spec.walkable O "$" (toTraceTy (.newtype m t)) = true)
    (hm : mappable (viewOpts O) (.newtype m t) = true)
    (hb : Trace.Spec.passes (toTraceTy (.newtype m t)) ≤ O.from_type_budget)
    (hcap : ((vs.map (ser (.newtype m t))).map (vsize ext)).sum ≤ 2147483647) :
    Trace.fromType c O (toTraceTy (.newtype m t)) = .ok F.toList ∧
      ∃ arrs, toMarrow ext F.toList (vs.map (ser (.newtype m t))) = .ok arrs := by
  have hr : rootCols (viewOpts O) (.newtype m t) = some F := by rw [rootCols_newtype]; exact hroot
  have hft := C04_fromType_ok_root c O h0 _ _ hr hw hm hb
  exact ⟨hft, C04_accept_traced_root c O ext _ _ vs _ h0 hfrag hsz hr hwt hsc hft hcap⟩

/-- **C04 end to end, NEWTYPE root** — both premises of `C04_roundtrip_bulk_newtype_root` removed -/
theorem C04_end_to_end_newtype_root (c : Trace.Code) (O : Trace.Options) (ext : Ext) (m : String) (t : Ty) (F : Fields)
    (vs : List Val)
    (h0 : O.overwrites = []) (hfrag : fragE (.newtype m t) = true) (hsz : sized (.newtype m t) = true)
    (hroot : rootCols (viewOpts O) t = some F) (hne : F ≠ .nil)
    (hwt : ∀ v ∈ vs, wt (.newtype m t) v = true)
    (hsc : ∀ v ∈ vs, inScopeO (viewOpts O) (.newtype m t) v = true)
    (hw : Trace.Spec.walkable O "$" (toTraceTy (.newtype m t)) = true)
    (hm : mappable (viewOpts O) (.newtype m t) = true)
    (hb : Trace.Spec.passes (toTraceTy (.newtype m t)) ≤ O.from_type_budget)
    (hcap : ((vs.map (ser (.newtype m t))).map (vsize ext)).sum ≤ 2147483647) :
    ∃ fields arrs, Trace.fromType c O (toTraceTy (.newtype m t)) = .ok fields ∧
      toMarrow ext fields (vs.map (ser (.newtype m t))) = .ok arrs ∧
      readAll (toTarget (.newtype m t)) fields arrs = .ok (vs.map fun v => dvalOf (.newtype m t) (norm (.newtype m t) v)) :=
  C04_end_to_end_root c O ext _ F vs h0 hfrag hsz (by rw [rootCols_newtype]; exact hroot) hne hwt hsc hw hm hb hcap

/-- the case of Props/C04Root.lean (a newtype of a record), end to end: `struct N(S)`, `S = struct n fs` -/
theorem C04_end_to_end_newtype_of_record (c : Trace.Code) (O : Trace.Options) (ext : Ext) (m n : String) (fs : TFields)
    (vs : List Val)
    (h0 : O.overwrites = []) (hfrag : fragE (.struct n fs) = true) (hsz : sized (.struct n fs) = true) (hne : fs ≠ .nil)
    (hwt : ∀ v ∈ vs, wt (.newtype m (.struct n fs)) v = true)
    (hsc : ∀ v ∈ vs, inScopeO (viewOpts O) (.newtype m (.struct n fs)) v = true)
    (hw : Trace.Spec.walkable O "$" (toTraceTy (.newtype m (.struct n fs))) = true)
    (hm : mappable (viewOpts O) (.struct n fs) = true)
    (hb : Trace.Spec.passes (toTraceTy (.newtype m (.struct n fs))) ≤ O.from_type_budget)
    (hcap : ((vs.map (ser (.newtype m (.struct n fs)))).map (vsize ext)).sum ≤ 2147483647) :
    ∃ fields arrs, Trace.fromType c O (toTraceTy (.newtype m (.struct n fs))) = .ok fields ∧
      toMarrow ext fields (vs.map (ser (.newtype m (.struct n fs)))) = .ok arrs ∧
      readAll (toTarget (.newtype m (.struct n fs))) fields arrs =
        .ok (vs.map fun v => dvalOf (.newtype m (.struct n fs)) (norm (.newtype m (.struct n fs)) v)) :=
  C04_end_to_end_newtype_root c O ext m _ _ vs h0 (by simpa [fragE] using hfrag) (by simpa [sized] using hsz)
    (rootCols_struct _ n fs) (mappingFields_ne_nil _ fs hne) hwt hsc hw (by simpa [mappable] using hm) hb hcap

/-! ### the roots `from_type` refuses -/

/-- a UNIT STRUCT root (`struct U;`) is refused — every option set, `allow_null_fields` included -/
theorem C04_unit_struct_root_refused (c : Trace.Code) (O : Trace.Options) (h0 : O.overwrites = []) (n : String) :
    ∀ fields, Trace.fromType c O (toTraceTy (.unitStruct n)) ≠ .ok fields :=
  C04_root_refused c O h0 _ rfl

/-- `()` as the root is refused -/
theorem C04_unit_root_refused (c : Trace.Code) (O : Trace.Options) (h0 : O.overwrites = []) :
    ∀ fields, Trace.fromType c O (toTraceTy .unit) ≠ .ok fields :=
  C04_root_refused c O h0 _ rfl

/-- a scalar root (`i64`, `String`, …) is refused (the documentation points to the `Item` wrapper) -/
theorem C04_scalar_root_refused (c : Trace.Code) (O : Trace.Options) (h0 : O.overwrites = []) (p : Prim) :
    ∀ fields, Trace.fromType c O (toTraceTy (.prim p)) ≠ .ok fields :=
  C04_root_refused c O h0 _ rfl

/-- `Option<T>` as the root is refused, whatever `T` ("The root type cannot be nullable") -/
theorem C04_option_root_refused (c : Trace.Code) (O : Trace.Options) (h0 : O.overwrites = []) (t : Ty) :
    ∀ fields, Trace.fromType c O (toTraceTy (.option t)) ≠ .ok fields :=
  C04_root_refused c O h0 _ rfl

/-- a sequence root (`Vec<T>`) is refused -/
theorem C04_vec_root_refused (c : Trace.Code) (O : Trace.Options) (h0 : O.overwrites = []) (t : Ty) :
    ∀ fields, Trace.fromType c O (toTraceTy (.vec t)) ≠ .ok fields :=
  C04_root_refused c O h0 _ rfl

/-- a map root is refused (under `map_as_struct` already by the tracer, otherwise as a Map root) -/
theorem C04_map_root_refused (c : Trace.Code) (O : Trace.Options) (h0 : O.overwrites = []) (k v : Ty) :
    ∀ fields, Trace.fromType c O (toTraceTy (.map k v)) ≠ .ok fields :=
  C04_root_refused c O h0 _ rfl

/-- an enum root is refused (a Union or, for a data-less enum stored as strings, a Dictionary — not a struct) -/
theorem C04_enum_root_refused (c : Trace.Code) (O : Trace.Options) (h0 : O.overwrites = []) (n : String) (vars : Variants) :
    ∀ fields, Trace.fromType c O (toTraceTy (.enum n vars)) ≠ .ok fields :=
  C04_root_refused c O h0 _ rfl

/-- a newtype struct around a refused root is refused (`struct N(i64)`, `struct N(Option<S>)`, `struct N(U)`, …) -/
theorem C04_newtype_of_refused_root_refused (c : Trace.Code) (O : Trace.Options) (h0 : O.overwrites = []) (n : String) (t : Ty)
    (h : recordRoot t = false) : ∀ fields, Trace.fromType c O (toTraceTy (.newtype n t)) ≠ .ok fields :=
  C04_root_refused c O h0 _ (by simpa [recordRoot] using h)

/-- **the supported root kinds, exactly**: under the documented preconditions (`walkable`, `mappable`, budget, no overwrites)
`from_type` returns a schema for a root type IF AND ONLY IF the type is a struct with named fields, a tuple struct, a tuple, or
a newtype struct around one of these -/
theorem C04_root_accepted_iff (c : Trace.Code) (O : Trace.Options) (h0 : O.overwrites = []) (t : Ty)
    (hw : Trace.Spec.walkable O "$" (toTraceTy t) = true)
    (hm : mappable (viewOpts O) t = true)
    (hb : Trace.Spec.passes (toTraceTy t) ≤ O.from_type_budget) :
    (∃ fields, Trace.fromType c O (toTraceTy t) = .ok fields) ↔ recordRoot t = true := by
  constructor
  · rintro ⟨fields, h⟩
    cases hr : recordRoot t with
    | true => rfl
    | false => exact absurd h (C04_root_refused c O h0 t hr fields)
  · intro hr
    have hs := rootCols_isSome_iff (viewOpts O) t
    rw [hr] at hs
    obtain ⟨F, hF⟩ := Option.isSome_iff_exists.mp hs
    exact ⟨_, C04_fromType_ok_root c O h0 t F hF hw hm hb⟩

/-! ### the empty roots: accepted by `from_type`, and the record count is lost

A root traced to a struct with ZERO columns (`struct Empty {}`, `struct T();`, the empty tuple struct; `fs ≠ nil` /
`F ≠ nil` is a hypothesis of every round-trip theorem) is accepted by `from_type` (the schema is `[]`), `to_marrow` returns no
array, and reading back returns NO record whatever the batch was: the property is false for every non-empty batch.  Crate
finding C04-empty-root-struct-loses-row-count (known_findings.d/C04.json), exhibited on every run by the zoo type `Empty`. -/

theorem readAll_no_columns (tg : Read.Target) : readAll tg [] [] = .ok [] := by
  simp [readAll, Access.new, Props.C13.bulk_eq_items, rootArr, zipCols, Read.new, Read.newFields, bind, Except.bind, pure, Except.pure]

/-- **the empty root loses the records**: for a root with zero columns `from_type` succeeds with the empty schema, and
whatever `to_marrow` returned for a batch, reading back yields the EMPTY list — not the batch, unless it was empty -/
theorem C04_empty_root_loses_records (c : Trace.Code) (O : Trace.Options) (t : Ty) (vs : List Val)
    (h0 : O.overwrites = []) (hroot : rootCols (viewOpts O) t = some .nil)
    (hw : Trace.Spec.walkable O "$" (toTraceTy t) = true)
    (hm : mappable (viewOpts O) t = true)
    (hb : Trace.Spec.passes (toTraceTy t) ≤ O.from_type_budget)
    (hvs : vs ≠ []) :
    Trace.fromType c O (toTraceTy t) = .ok [] ∧
      readAll (toTarget t) [] [] = .ok [] ∧
      readAll (toTarget t) [] [] ≠ .ok (vs.map fun v => dvalOf t (norm t v)) := by
  refine ⟨C04_fromType_ok_root c O h0 t .nil hroot hw hm hb, readAll_no_columns _, ?_⟩
  rw [readAll_no_columns]
  intro h
  cases vs with
  | nil => exact hvs rfl
  | cons v r => simp at h

/-! ### non-vacuity: the zoo types with these root kinds (harness/src/zoo.rs), default options, every hypothesis computed -/

/-- `struct TupleStruct(pub i32, pub String, pub bool);` -/
def exTupleStruct : Ty := .tupleStruct "TupleStruct" (.cons (.prim (.int .i32)) (.cons (.prim .str) (.cons (.prim .bool) .nil)))
/-- `type RootTuple = (i32, String, Option<bool>);` -/
def exRootTuple : Ty := .tuple (.cons (.prim (.int .i32)) (.cons (.prim .str) (.cons (.option (.prim .bool)) .nil)))
def exTBatch : List Val :=
  [.tuple (.cons (.int 3) (.cons (.str "ab") (.cons (.bool true) .nil))),
   .tuple (.cons (.int (-2147483648)) (.cons (.str "ß") (.cons (.bool false) .nil)))]
def exRBatch : List Val :=
  [.tuple (.cons (.int 3) (.cons (.str "ab") (.cons (.some (.bool true)) .nil))),
   .tuple (.cons (.int (-1)) (.cons (.str "") (.cons .none .nil)))]

/-- the traced schemas: the columns "0", "1", "2" — the strategy TupleAsStruct of the root field is not part of the schema -/
example : Trace.fromType .fixed {} (toTraceTy exTupleStruct) =
    .ok [.mk "0" .int32 false [], .mk "1" .largeUtf8 false [], .mk "2" .boolean false []] := by decide +kernel
example : Trace.fromType .fixed {} (toTraceTy exRootTuple) =
    .ok [.mk "0" .int32 false [], .mk "1" .largeUtf8 false [], .mk "2" .boolean true []] := by decide +kernel
example : (mappingDT {} exRootTuple).2.2 = TUPLE_MD := by decide +kernel

example : ∃ fields arrs, Trace.fromType .fixed {} (toTraceTy exTupleStruct) = .ok fields ∧
    toMarrow {} fields (exTBatch.map (ser exTupleStruct)) = .ok arrs ∧
    readAll (toTarget exTupleStruct) fields arrs = .ok (exTBatch.map fun v => dvalOf exTupleStruct (norm exTupleStruct v)) :=
  C04_end_to_end_tuple_struct_root .fixed {} {} "TupleStruct" _ exTBatch rfl (by decide +kernel) (by decide +kernel) (by simp)
    (by decide +kernel) (by decide +kernel) (by decide +kernel) (by decide +kernel) (by decide +kernel) (by decide +kernel)

example : ∃ fields arrs, Trace.fromType .fixed {} (toTraceTy exRootTuple) = .ok fields ∧
    toMarrow {} fields (exRBatch.map (ser exRootTuple)) = .ok arrs ∧
    readAll (toTarget exRootTuple) fields arrs = .ok (exRBatch.map fun v => dvalOf exRootTuple (norm exRootTuple v)) :=
  C04_end_to_end_tuple_root .fixed {} {} _ exRBatch rfl (by decide +kernel) (by decide +kernel) (by simp)
    (by decide +kernel) (by decide +kernel) (by decide +kernel) (by decide +kernel) (by decide +kernel) (by decide +kernel)

/-- what comes back for a tuple root is a SEQUENCE (the visitor of `deserialize_tuple`), not a map -/
example : (exRBatch.map fun v => dvalOf exRootTuple (norm exRootTuple v)) =
    [.seq (.cons (.int .i32 3) (.cons (.str .owned [97, 98]) (.cons (.some (.bool true)) .nil))),
     .seq (.cons (.int .i32 (-1)) (.cons (.str .owned []) (.cons .none .nil)))] := by decide +kernel

/-- the newtype of a record (`struct NewtypeOfStruct(pub Inner);`, Props/C04Root.lean) END TO END: nothing assumed about
`from_type` / `to_marrow` -/
example : ∃ fields arrs, Trace.fromType .fixed {} (toTraceTy exNewtypeRoot) = .ok fields ∧
    toMarrow {} fields (exNBatch.map (ser exNewtypeRoot)) = .ok arrs ∧
    readAll (toTarget exNewtypeRoot) fields arrs = .ok (exNBatch.map fun v => dvalOf exNewtypeRoot (norm exNewtypeRoot v)) :=
  C04_end_to_end_newtype_of_record .fixed {} {} "NewtypeOfStruct" "Inner" _ exNBatch rfl (by decide +kernel) (by decide +kernel)
    (by simp) (by decide +kernel) (by decide +kernel) (by decide +kernel) (by decide +kernel) (by decide +kernel) (by decide +kernel)

/-- a newtype of a newtype of a record (`struct NewtypeOfNewtype(pub NewtypeOfStruct);`) and a newtype of a tuple struct
(`struct NewtypeOfTuple(pub TupleStruct);`) -/
def exNN : Ty := .newtype "NewtypeOfNewtype" exNewtypeRoot
def exNNBatch : List Val := exNBatch.map .newtype
def exNT : Ty := .newtype "NewtypeOfTuple" exTupleStruct
def exNTBatch : List Val := exTBatch.map .newtype

example : ∃ fields arrs, Trace.fromType .fixed {} (toTraceTy exNN) = .ok fields ∧
    toMarrow {} fields (exNNBatch.map (ser exNN)) = .ok arrs ∧
    readAll (toTarget exNN) fields arrs = .ok (exNNBatch.map fun v => dvalOf exNN (norm exNN v)) :=
  C04_end_to_end_newtype_root .fixed {} {} "NewtypeOfNewtype" exNewtypeRoot (mappingFields {} (tfieldsOf exInner)) exNNBatch rfl
    (by decide +kernel) (by decide +kernel) (by decide +kernel) (by decide +kernel) (by decide +kernel) (by decide +kernel)
    (by decide +kernel) (by decide +kernel) (by decide +kernel) (by decide +kernel)

example : ∃ fields arrs, Trace.fromType .fixed {} (toTraceTy exNT) = .ok fields ∧
    toMarrow {} fields (exNTBatch.map (ser exNT)) = .ok arrs ∧
    readAll (toTarget exNT) fields arrs = .ok (exNTBatch.map fun v => dvalOf exNT (norm exNT v)) :=
  C04_end_to_end_newtype_root .fixed {} {} "NewtypeOfTuple" exTupleStruct (mappingPos {} 0 (.cons (.prim (.int .i32)) (.cons (.prim .str) (.cons (.prim .bool) .nil)))) exNTBatch rfl
    (by decide +kernel) (by decide +kernel) (by decide +kernel) (by decide +kernel) (by decide +kernel) (by decide +kernel)
    (by decide +kernel) (by decide +kernel) (by decide +kernel) (by decide +kernel)

/-- the refusals are real errors of the tracer model (not panics, not vacuous): a unit struct with and without
`allow_null_fields`, `Option<Inner>`, a newtype of a scalar, an enum -/
example : Trace.fromType .fixed {} (toTraceTy (.unitStruct "U")) = .error (.err "Encountered null only field") ∧
    Trace.fromType .fixed { allow_null_fields := true } (toTraceTy (.unitStruct "U")) = .error (.err "The root type cannot be nullable") ∧
    (Trace.fromType .fixed {} (toTraceTy (.option exInner))).isOk = false ∧
    (Trace.fromType .fixed {} (toTraceTy (.newtype "N" (.prim (.int .i64))))).isOk = false ∧
    (Trace.fromType .fixed { allow_null_fields := true } (toTraceTy exColor)).isOk = false := by decide +kernel

/-- `C04_root_accepted_iff` on both sides: the preconditions hold of `exRootTuple` (accepted) and of `Option<Inner>` (refused) -/
example : (∃ fields, Trace.fromType .fixed {} (toTraceTy exRootTuple) = .ok fields) ∧
    ¬ (∃ fields, Trace.fromType .fixed {} (toTraceTy (.option exInner)) = .ok fields) :=
  ⟨(C04_root_accepted_iff .fixed {} rfl exRootTuple (by decide +kernel) (by decide +kernel) (by decide +kernel)).mpr rfl,
   fun h => by
    have := (C04_root_accepted_iff .fixed {} rfl (.option exInner) (by decide +kernel) (by decide +kernel) (by decide +kernel)).mp h
    cases this⟩

/-- the empty root `struct Empty {}`: accepted, two records in, none out -/
def exEmpty : Ty := .struct "Empty" .nil
example : Trace.fromType .fixed {} (toTraceTy exEmpty) = .ok [] ∧
    toMarrow {} [] ([Val.struct .nil, Val.struct .nil].map (ser exEmpty)) = .ok [] ∧
    readAll (toTarget exEmpty) [] [] ≠ .ok ([Val.struct .nil, Val.struct .nil].map fun v => dvalOf exEmpty (norm exEmpty v)) :=
  ⟨(C04_empty_root_loses_records .fixed {} exEmpty [Val.struct .nil, Val.struct .nil] rfl (by decide +kernel) (by decide +kernel)
      (by decide +kernel) (by decide +kernel) (by simp)).1,
   by decide +kernel,
   (C04_empty_root_loses_records .fixed {} exEmpty [Val.struct .nil, Val.struct .nil] rfl (by decide +kernel) (by decide +kernel)
      (by decide +kernel) (by decide +kernel) (by simp)).2.2⟩

/-- the identity form and the Dictionary-free form on the tuple struct root (`plainOpt`: no Option over a nullable position;
default options: no Dictionary column), against what `from_type` / `to_marrow` return -/
def exTFields : List Field := match Trace.fromType .fixed {} (toTraceTy exTupleStruct) with | .ok fs => fs | .error _ => []
def exTArrs : List Arr := match toMarrow {} exTFields (exTBatch.map (ser exTupleStruct)) with | .ok a => a | .error _ => []
theorem exTTrace : Trace.fromType .fixed {} (toTraceTy exTupleStruct) = .ok exTFields := by decide +kernel
theorem exTBuild : toMarrow {} exTFields (exTBatch.map (ser exTupleStruct)) = .ok exTArrs := by decide +kernel
example : exTFields.length = 3 ∧ exTArrs.length = 3 := by decide +kernel

example : readAll (toTarget exTupleStruct) exTFields exTArrs = .ok (exTBatch.map (dvalOf exTupleStruct)) :=
  C04_roundtrip_identity_root .fixed {} {} exTupleStruct
    (mappingPos {} 0 (.cons (.prim (.int .i32)) (.cons (.prim .str) (.cons (.prim .bool) .nil)))) exTBatch exTFields exTArrs rfl
    (by decide +kernel) (by decide +kernel) (by decide +kernel) (by decide +kernel) (by decide +kernel) (by decide +kernel)
    (by decide +kernel) exTTrace exTBuild

example : readAll (toTarget exTupleStruct) exTFields exTArrs =
    .ok (exTBatch.map fun v => dvalOf exTupleStruct (norm exTupleStruct v)) :=
  C04_roundtrip_bulk_plain_root .fixed {} {} exTupleStruct
    (mappingPos {} 0 (.cons (.prim (.int .i32)) (.cons (.prim .str) (.cons (.prim .bool) .nil)))) exTBatch exTFields exTArrs rfl rfl rfl
    (by decide +kernel) (by decide +kernel) (by decide +kernel) (by decide +kernel) (by decide +kernel) exTTrace exTBuild

end SaModel.Props.C04
