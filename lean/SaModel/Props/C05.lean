import SaModel.Build.Finish
import SaModel.Spec.Interp
/-
C05 — values a column cannot represent are rejected, never silently altered (serializer side).
Property theorems about the builder model (SaModel/Build) — every statement is ∀ over values, widths, states.
-/
namespace SaModel.Props.C05
open SaModel SaModel.Build

/-- an integer of any source width is accepted by an integer column iff it is in the column's range, and then
it is stored unchanged (no wrap, no truncation) -/
theorem int_ser_exact (ext : Ext) (t s : IntTy) (v w : Int) :
    convLeaf ext (.int t) (.int s v) = .ok w ↔ (t.inRange v = true ∧ w = v) := by
  simp only [convLeaf, tryInto]
  split
  · constructor
    · intro h; cases h; exact ⟨by assumption, rfl⟩
    · rintro ⟨_, rfl⟩; rfl
  · constructor
    · intro h; cases h
    · rintro ⟨h, _⟩; contradiction

/-- out of range ⇒ error (never `ok`, never `panic`) -/
theorem int_ser_out_of_range (ext : Ext) (t s : IntTy) (v : Int) (h : t.inRange v = false) :
    (convLeaf ext (.int t) (.int s v)).isErr = true := by
  simp [convLeaf, tryInto, h, fail, R.isErr]

/-- booleans enter integer columns as exactly 0 / 1 -/
theorem int_ser_bool (ext : Ext) (t : IntTy) (b : Bool) :
    convLeaf ext (.int t) (.bool b) = .ok (if b then 1 else 0) := by
  cases t <;> cases b <;> rfl

/-- a char enters an integer column as its code point iff that fits -/
theorem int_ser_char (ext : Ext) (t : IntTy) (c : Nat) (w : Int) :
    convLeaf ext (.int t) (.char c) = .ok w ↔ (t.inRange c = true ∧ w = c) := by
  simp only [convLeaf, tryInto]
  split
  · constructor
    · intro h; cases h; exact ⟨by assumption, rfl⟩
    · rintro ⟨_, rfl⟩; rfl
  · constructor
    · intro h; cases h
    · rintro ⟨h, _⟩; contradiction

/-- Duration columns: every signed width passes through, `u64` only up to `i64::MAX` -/
theorem duration_u64_exact (ext : Ext) (u : TimeUnit) (v w : Int) :
    convLeaf ext (.duration u) (.int .u64 v) = .ok w ↔ (IntTy.i64.inRange v = true ∧ w = v) := by
  simp only [convLeaf, tryInto]
  rw [show (IntTy.u64 == IntTy.u64) = true from rfl]
  simp only [if_true]
  split
  · constructor
    · intro h; cases h; exact ⟨by assumption, rfl⟩
    · rintro ⟨_, rfl⟩; rfl
  · constructor
    · intro h; cases h
    · rintro ⟨h, _⟩; contradiction

/-- Date32 / Time32 columns take `i64` values only when they fit `i32` -/
theorem date32_i64_exact (ext : Ext) (v w : Int) :
    convLeaf ext .date32 (.int .i64 v) = .ok w ↔ (IntTy.i32.inRange v = true ∧ w = v) := by
  simp only [convLeaf]
  split
  · constructor
    · intro h; cases h; exact ⟨by assumption, rfl⟩
    · rintro ⟨_, rfl⟩; rfl
  · constructor
    · intro h; cases h
    · rintro ⟨h, _⟩; contradiction

theorem time32_i64_exact (ext : Ext) (u : TimeUnit) (v w : Int) :
    convLeaf ext (.time32 u) (.int .i64 v) = .ok w ↔ (IntTy.i32.inRange v = true ∧ w = v) := by
  simp only [convLeaf, tryInto]
  split
  · constructor
    · intro h; cases h; exact ⟨by assumption, rfl⟩
    · rintro ⟨_, rfl⟩; rfl
  · constructor
    · intro h; cases h
    · rintro ⟨h, _⟩; contradiction

/-- `U8Serializer`: an element of a binary sequence is accepted iff it is an integer in 0..=255 (through any
number of `Some` / newtype wrappers), and then the byte is that value -/
theorem u8_exact (s : IntTy) (v : Int) (b : UInt8) :
    u8Of (.int s v) = .ok b ↔ (0 ≤ v ∧ v ≤ 255 ∧ b = UInt8.ofNat v.toNat) := by
  unfold u8Of
  by_cases h : IntTy.u8.inRange v = true
  · have hr : 0 ≤ v ∧ v ≤ 255 := by
      simp only [IntTy.inRange, IntTy.min, IntTy.max, Bool.and_eq_true] at h
      exact ⟨of_decide_eq_true h.1, of_decide_eq_true h.2⟩
    simp only [h, if_true]
    constructor
    · intro hh; cases hh; exact ⟨hr.1, hr.2, rfl⟩
    · rintro ⟨_, _, rfl⟩; rfl
  · have hr : ¬ (0 ≤ v ∧ v ≤ 255) := by
      intro ⟨h1, h2⟩
      apply h
      simp only [IntTy.inRange, IntTy.min, IntTy.max, Bool.and_eq_true]
      exact ⟨decide_eq_true h1, decide_eq_true h2⟩
    simp only [h]
    constructor
    · intro hh; cases hh
    · rintro ⟨h1, h2, _⟩; exact absurd ⟨h1, h2⟩ hr

/-! ### null for a non-nullable field -/

/-- `set_validity(None, _, false)` is an error: a builder without a validity buffer cannot take a null -/
theorem set_validity_refuses_null (idx : Nat) : (setValidity none idx false).isErr = true := by
  simp [setValidity, fail, R.isErr]

theorem ctx_isErr {α} (ann : List (String × String)) (r : R α) : (ctx ann r).isErr = r.isErr := by
  unfold ctx
  split
  · split <;> simp [R.isErr]
  · rfl

/-- every builder that carries a validity buffer refuses `serialize_none` when the field is not nullable -/
theorem null_nonnullable_leaf (p : String) (k : LeafKind) (vals : List Int) :
    (pushNone (.leaf p k none vals)).isErr = true := by
  unfold pushNone
  rw [ctx_isErr]
  simp [setValidity, fail, R.isErr, bind, Except.bind]

theorem null_nonnullable_bytes (p : String) (ty : BytesTy) (offs : List Int) (data : Bytes) :
    (pushNone (.bytes p ty none offs data)).isErr = true := by
  unfold pushNone
  rw [ctx_isErr]
  simp [setValidity, fail, R.isErr, bind, Except.bind]

theorem null_nonnullable_bytesView (p : String) (ty : ViewTy) (views : List Nat) (buf : Bytes) :
    (pushNone (.bytesView p ty none views buf)).isErr = true := by
  unfold pushNone
  rw [ctx_isErr]
  simp [setValidity, fail, R.isErr, bind, Except.bind]

theorem null_nonnullable_fixedSizeBinary (p : String) (n len cur : Nat) (buf : Bytes) :
    (pushNone (.fixedSizeBinary p n len none buf cur)).isErr = true := by
  unfold pushNone
  rw [ctx_isErr]
  simp [setValidity, fail, R.isErr, bind, Except.bind]

theorem null_nonnullable_list (p : String) (large : Bool) (fm : FieldMeta) (offs : List Int) (el : B) :
    (pushNone (.list p large fm none offs el)).isErr = true := by
  unfold pushNone
  rw [ctx_isErr]
  simp [setValidity, fail, R.isErr, bind, Except.bind]

theorem null_nonnullable_fixedSizeList (p : String) (fm : FieldMeta) (n len cur : Nat) (el : B) :
    (pushNone (.fixedSizeList p fm n len none cur el)).isErr = true := by
  unfold pushNone
  rw [ctx_isErr]
  simp [setValidity, fail, R.isErr, bind, Except.bind]

theorem null_nonnullable_map (p : String) (mm : MapMeta) (offs : List Int) (ks vs : B) :
    (pushNone (.map p mm none offs ks vs)).isErr = true := by
  unfold pushNone
  rw [ctx_isErr]
  simp [setValidity, fail, R.isErr, bind, Except.bind]

theorem null_nonnullable_struct (p : String) (len : Nat) (fs : BL) (cached : List (Option (String × Nat)))
    (next : Nat) (seen : List Bool) :
    (pushNone (.struct p len none fs cached next seen)).isErr = true := by
  unfold pushNone
  rw [ctx_isErr]
  simp [setValidity, fail, R.isErr, bind, Except.bind]

/-- unions have no nulls at all -/
theorem null_union (p : String) (fs : BL) (types offs cur : List Int) :
    (pushNone (.union p fs types offs cur)).isErr = true := by
  unfold pushNone
  rw [ctx_isErr]
  simp [fail, R.isErr]

/-! ### struct: missing required field, duplicate field -/

/-- `end`: an unseen field that is not nullable is an error — never a silent default -/
theorem struct_missing (b : B) (m : FieldMeta) (rest : BL) (seenRest : List Bool) (h : m.nullable = false) :
    (endFields (.cons b m rest) (false :: seenRest)).isErr = true := by
  simp [endFields, h, fail, R.isErr]

/-- a field that was already written in this record is refused (before the value is looked at) -/
theorem struct_duplicate (s : SS) (idx : Nat) (f : B → R B) (h : s.seen[idx]? = some true) :
    (s.element idx f).isErr = true := by
  simp [SS.element, h, ctx, fail, R.isErr]

/-! ### wrong element count for fixed-size types -/

theorem fixed_size_binary_bytes_count (ext : Ext) (p : String) (n len cur : Nat) (v : Validity) (buf bs : Bytes)
    (h : bs.length ≠ n) :
    (pushScalar ext (.fixedSizeBinary p n len v buf cur) (.bytes bs)).isErr = true := by
  simp [pushScalar, h, fail, R.isErr]

/-! ### unknown / undeclared enum variants -/

/-- a variant index beyond the declared variants is an error -/
theorem union_unknown_variant (fs : BL) (types offs cur : List Int) (idx : Nat) (h : fs.get? idx = none) :
    (serializeVariant fs types offs cur idx).isErr = true := by
  simp [serializeVariant, h, fail, R.isErr]

/-! ### offsets and dictionary keys that overflow their index type -/

/-- the repaired `increment_last` never unwinds and never wraps: beyond the offset type it is an error -/
theorem offset_overflow_is_error (large : Bool) (offs : List Int) (inc : Nat) :
    (incrementLast true large offs inc).isPanic = false := by
  unfold incrementLast
  split
  · simp [fail, R.isPanic]
  · split
    · simp [fail, R.isPanic]
    · split <;> simp [fail, R.isPanic]

theorem offset_overflow_exact (large : Bool) (offs offs' : List Int) (inc : Nat)
    (h : incrementLast true large offs inc = .ok offs') :
    ∃ l, offs.getLast? = some l ∧ l + inc ≤ offMax large ∧ offs' = offs.dropLast ++ [l + inc] := by
  unfold incrementLast at h
  split at h
  · cases h
  · rename_i l hl
    split at h
    · cases h
    · split at h
      · cases h
      · cases h; exact ⟨l, hl, by omega, rfl⟩

/-- the pinned `increment_last` (`*last + inc` unchecked) unwinds in a debug build: witness i32 offsets at the top -/
theorem offset_overflow_pinned_panics :
    (incrementLast false false [2147483647] 1).isPanic = true := by decide

/-- a dictionary key that does not fit the key type is an error: the new index is pushed through the key
builder's `try_from` -/
theorem dict_key_overflow (ext : Ext) (p : String) (t : IntTy) (v : Validity) (keys : List Int) (i : Nat)
    (h : t.inRange i = false) :
    (pushScalar ext (.leaf p (.int t) v keys) (.int .u64 i)).isErr = true := by
  simp [pushScalar, convLeaf, tryInto, h, fail, R.isErr, bind, Except.bind]

/-! ### non-vacuity -/
example : convLeaf {} (.int .i8) (.int .i64 127) = .ok 127 := by decide
example : (convLeaf {} (.int .i8) (.int .i64 128)).isErr = true := by decide
example : (convLeaf {} (.int .u8) (.int .i8 (-1))).isErr = true := by decide
example : u8Of (.some (.int .i32 255)) = .ok 255 := by decide
example : (u8Of (.int .i32 256)).isErr = true := by decide

end SaModel.Props.C05
