import SaModel.Build.Finish
import SaModel.Spec.Interp
import SaModel.Lemmas.C01LeafBridge
import SaModel.Props.C03
import SaModel.Props.C01Obs
import SaModel.Props.C02
import SaModel.Lemmas.C05Exact
import SaModel.Lemmas.C05ReadStruct
/-
C05 — values a column cannot represent are rejected, never silently altered.
Property theorems about the builder model (SaModel/Build) — every statement is ∀ over values, widths, states.

  per mechanism   integer ranges, null into non-nullable, missing / duplicate fields, fixed-size counts, variants,
                  offsets, dictionary keys (first part of the file)
  umbrella        `C05_push_ok_exact` / `C05_interp_undefined_rejected` (one push, any nesting), `C05_toMarrow_ok_exact` /
                  `C05_toMarrow_undefined_rejected` (whole `to_marrow` run): ok ⇒ the documented value `Spec.interp`
                  is defined and is what the arrays hold; undefined ⇒ never accepted.  Corollaries of the `Safe`-free
                  refinement theorems of Props/C01Obs.lean — R2' `push_interp'` / `push_interp_det`, R3'
                  `runRows_interp'` (schema predicate `coveredWF`) and `C01_build_decode'` (`coveredF`) —, with their
                  coverage.
  leaves          Props/C05Leaf.lean: "cannot be represented" at a leaf is `Spec.specLeaf = none` (Spec/Leaf.lean)
  lossy cells     `documentedLossy` (float narrowing, int → float, decimal columns from text / floats) and
                  `C05_only_documented_lossy`: in every other cell `Spec.interpScalar` is the identity on the value
                  (`Faithful`) or an error; `C05_lossy_cells_alter`: each lossy family does alter a value (witnesses)
  reader          `read_mustFail`: whenever the value-level specification `Read.cast` says a typed read must fail
                  (integer out of the target's range, not a char, null into a non-Option target, tuple longer than the
                  struct, missing field, unknown variant …, at any depth), `readAs` fails — for every (target, column)
                  pair except the two recorded known findings, excluded by the decidable `noKnown`;
                  `exclusion_23_needed` / `exclusion_24_needed`: witnesses that both exclusions are needed
-/
namespace SaModel.Props.C05
open SaModel SaModel.Build SaModel.Spec

/-- an integer of any source width is accepted by an integer column iff it is in the column's range, and then
it is stored unchanged (no wrap, no truncation) -/
theorem int_ser_exact (ext : Ext) (t s : IntTy) (v w : Int) :
    convLeaf ext (.int t) (.int s v) = .ok w ↔ (t.inRange v = true ∧ w = v) := by
  simp only [convLeaf, tryInto]
  split
  · constructor
    · intro h; cases h; exact ⟨by assumption, rfl⟩
    · rintro ⟨_, rfl⟩; rfl
  · constructor
    · intro h; cases h
    · rintro ⟨h, _⟩; contradiction

/-- out of range ⇒ error (never `ok`, never `panic`) -/
theorem int_ser_out_of_range (ext : Ext) (t s : IntTy) (v : Int) (h : t.inRange v = false) :
    (convLeaf ext (.int t) (.int s v)).isErr = true := by
  simp [convLeaf, tryInto, h, fail, R.isErr]

/-- booleans enter integer columns as exactly 0 / 1 -/
theorem int_ser_bool (ext : Ext) (t : IntTy) (b : Bool) :
    convLeaf ext (.int t) (.bool b) = .ok (if b then 1 else 0) := by
  cases t <;> cases b <;> rfl

/-- a char enters an integer column as its code point iff that fits -/
theorem int_ser_char (ext : Ext) (t : IntTy) (c : Nat) (w : Int) :
    convLeaf ext (.int t) (.char c) = .ok w ↔ (t.inRange c = true ∧ w = c) := by
  simp only [convLeaf, tryInto]
  split
  · constructor
    · intro h; cases h; exact ⟨by assumption, rfl⟩
    · rintro ⟨_, rfl⟩; rfl
  · constructor
    · intro h; cases h
    · rintro ⟨h, _⟩; contradiction

/-- Duration columns: every signed width passes through, `u64` only up to `i64::MAX` -/
theorem duration_u64_exact (ext : Ext) (u : TimeUnit) (v w : Int) :
    convLeaf ext (.duration u) (.int .u64 v) = .ok w ↔ (IntTy.i64.inRange v = true ∧ w = v) := by
  simp only [convLeaf, tryInto]
  rw [show (IntTy.u64 == IntTy.u64) = true from rfl]
  simp only [if_true]
  split
  · constructor
    · intro h; cases h; exact ⟨by assumption, rfl⟩
    · rintro ⟨_, rfl⟩; rfl
  · constructor
    · intro h; cases h
    · rintro ⟨h, _⟩; contradiction

/-- Date32 / Time32 columns take `i64` values only when they fit `i32` -/
theorem date32_i64_exact (ext : Ext) (v w : Int) :
    convLeaf ext .date32 (.int .i64 v) = .ok w ↔ (IntTy.i32.inRange v = true ∧ w = v) := by
  simp only [convLeaf]
  split
  · constructor
    · intro h; cases h; exact ⟨by assumption, rfl⟩
    · rintro ⟨_, rfl⟩; rfl
  · constructor
    · intro h; cases h
    · rintro ⟨h, _⟩; contradiction

theorem time32_i64_exact (ext : Ext) (u : TimeUnit) (v w : Int) :
    convLeaf ext (.time32 u) (.int .i64 v) = .ok w ↔ (IntTy.i32.inRange v = true ∧ w = v) := by
  simp only [convLeaf, tryInto]
  split
  · constructor
    · intro h; cases h; exact ⟨by assumption, rfl⟩
    · rintro ⟨_, rfl⟩; rfl
  · constructor
    · intro h; cases h
    · rintro ⟨h, _⟩; contradiction

/-- `U8Serializer`: an element of a binary sequence is accepted iff it is an integer in 0..=255 (through any
number of `Some` / newtype wrappers), and then the byte is that value -/
theorem u8_exact (s : IntTy) (v : Int) (b : UInt8) :
    u8Of (.int s v) = .ok b ↔ (0 ≤ v ∧ v ≤ 255 ∧ b = UInt8.ofNat v.toNat) := by
  unfold u8Of
  by_cases h : IntTy.u8.inRange v = true
  · have hr : 0 ≤ v ∧ v ≤ 255 := by
      simp only [IntTy.inRange, IntTy.min, IntTy.max, Bool.and_eq_true] at h
      exact ⟨of_decide_eq_true h.1, of_decide_eq_true h.2⟩
    simp only [h, if_true]
    constructor
    · intro hh; cases hh; exact ⟨hr.1, hr.2, rfl⟩
    · rintro ⟨_, _, rfl⟩; rfl
  · have hr : ¬ (0 ≤ v ∧ v ≤ 255) := by
      intro ⟨h1, h2⟩
      apply h
      simp only [IntTy.inRange, IntTy.min, IntTy.max, Bool.and_eq_true]
      exact ⟨decide_eq_true h1, decide_eq_true h2⟩
    simp only [h]
    constructor
    · intro hh; cases hh
    · rintro ⟨h1, h2, _⟩; exact absurd ⟨h1, h2⟩ hr

/-! ### null for a non-nullable field -/

/-- `set_validity(None, _, false)` is an error: a builder without a validity buffer cannot take a null -/
theorem set_validity_refuses_null (idx : Nat) : (setValidity none idx false).isErr = true := by
  simp [setValidity, fail, R.isErr]

theorem ctx_isErr {α} (ann : List (String × String)) (r : R α) : (ctx ann r).isErr = r.isErr := by
  unfold ctx
  split
  · split <;> simp [R.isErr]
  · rfl

/-- every builder that carries a validity buffer refuses `serialize_none` when the field is not nullable -/
theorem null_nonnullable_leaf (p : String) (k : LeafKind) (vals : List Int) :
    (pushNone (.leaf p k none vals)).isErr = true := by
  unfold pushNone
  rw [ctx_isErr]
  simp [setValidity, fail, R.isErr, bind, Except.bind]

theorem null_nonnullable_bytes (p : String) (ty : BytesTy) (offs : List Int) (data : Bytes) :
    (pushNone (.bytes p ty none offs data)).isErr = true := by
  unfold pushNone
  rw [ctx_isErr]
  simp [setValidity, fail, R.isErr, bind, Except.bind]

theorem null_nonnullable_bytesView (p : String) (ty : ViewTy) (views : List Nat) (buf : Bytes) :
    (pushNone (.bytesView p ty none views buf)).isErr = true := by
  unfold pushNone
  rw [ctx_isErr]
  simp [setValidity, fail, R.isErr, bind, Except.bind]

theorem null_nonnullable_fixedSizeBinary (p : String) (n len cur : Nat) (buf : Bytes) :
    (pushNone (.fixedSizeBinary p n len none buf cur)).isErr = true := by
  unfold pushNone
  rw [ctx_isErr]
  simp [setValidity, fail, R.isErr, bind, Except.bind]

theorem null_nonnullable_list (p : String) (large : Bool) (fm : FieldMeta) (offs : List Int) (el : B) :
    (pushNone (.list p large fm none offs el)).isErr = true := by
  unfold pushNone
  rw [ctx_isErr]
  simp [setValidity, fail, R.isErr, bind, Except.bind]

theorem null_nonnullable_fixedSizeList (p : String) (fm : FieldMeta) (n len cur : Nat) (el : B) :
    (pushNone (.fixedSizeList p fm n len none cur el)).isErr = true := by
  unfold pushNone
  rw [ctx_isErr]
  simp [setValidity, fail, R.isErr, bind, Except.bind]

theorem null_nonnullable_map (p : String) (mm : MapMeta) (offs : List Int) (ks vs : B) :
    (pushNone (.map p mm none offs ks vs)).isErr = true := by
  unfold pushNone
  rw [ctx_isErr]
  simp [setValidity, fail, R.isErr, bind, Except.bind]

theorem null_nonnullable_struct (p : String) (len : Nat) (fs : BL) (cached : List (Option (String × Nat)))
    (next : Nat) (seen : List Bool) :
    (pushNone (.struct p len none fs cached next seen)).isErr = true := by
  unfold pushNone
  rw [ctx_isErr]
  simp [setValidity, fail, R.isErr, bind, Except.bind]

/-- unions have no nulls at all -/
theorem null_union (p : String) (fs : BL) (types offs cur : List Int) :
    (pushNone (.union p fs types offs cur)).isErr = true := by
  unfold pushNone
  rw [ctx_isErr]
  simp [fail, R.isErr]

/-! ### struct: missing required field, duplicate field -/

/-- `end`: an unseen field that is not nullable is an error — never a silent default -/
theorem struct_missing (b : B) (m : FieldMeta) (rest : BL) (seenRest : List Bool) (h : m.nullable = false) :
    (endFields (.cons b m rest) (false :: seenRest)).isErr = true := by
  simp [endFields, h, fail, R.isErr]

/-- a field that was already written in this record is refused (before the value is looked at) -/
theorem struct_duplicate (s : SS) (idx : Nat) (f : B → R B) (h : s.seen[idx]? = some true) :
    (s.element idx f).isErr = true := by
  simp [SS.element, h, ctx, fail, R.isErr]

/-! ### wrong element count for fixed-size types -/

theorem fixed_size_binary_bytes_count (ext : Ext) (p : String) (n len cur : Nat) (v : Validity) (buf bs : Bytes)
    (h : bs.length ≠ n) :
    (pushScalar ext (.fixedSizeBinary p n len v buf cur) (.bytes bs)).isErr = true := by
  simp [pushScalar, h, fail, R.isErr]

/-! ### unknown / undeclared enum variants -/

/-- a variant index beyond the declared variants is an error -/
theorem union_unknown_variant (fs : BL) (types offs cur : List Int) (idx : Nat) (h : fs.get? idx = none) :
    (serializeVariant fs types offs cur idx).isErr = true := by
  simp [serializeVariant, h, fail, R.isErr]

/-! ### offsets and dictionary keys that overflow their index type -/

/-- the repaired `increment_last` never unwinds and never wraps: beyond the offset type it is an error -/
theorem offset_overflow_is_error (large : Bool) (offs : List Int) (inc : Nat) :
    (incrementLast true large offs inc).isPanic = false := by
  unfold incrementLast
  split
  · simp [fail, R.isPanic]
  · split
    · simp [fail, R.isPanic]
    · split <;> simp [fail, R.isPanic]

theorem offset_overflow_exact (large : Bool) (offs offs' : List Int) (inc : Nat)
    (h : incrementLast true large offs inc = .ok offs') :
    ∃ l, offs.getLast? = some l ∧ l + inc ≤ offMax large ∧ offs' = offs.dropLast ++ [l + inc] := by
  unfold incrementLast at h
  split at h
  · cases h
  · rename_i l hl
    split at h
    · cases h
    · split at h
      · cases h
      · cases h; exact ⟨l, hl, by omega, rfl⟩

/-- the pinned `increment_last` (`*last + inc` unchecked) unwinds in a debug build: witness i32 offsets at the top -/
theorem offset_overflow_pinned_panics :
    (incrementLast false false [2147483647] 1).isPanic = true := by decide

/-- a dictionary key that does not fit the key type is an error: the new index is pushed through the key
builder's `try_from` -/
theorem dict_key_overflow (ext : Ext) (p : String) (t : IntTy) (v : Validity) (keys : List Int) (i : Nat)
    (h : t.inRange i = false) :
    (pushScalar ext (.leaf p (.int t) v keys) (.int .u64 i)).isErr = true := by
  simp [pushScalar, convLeaf, tryInto, h, fail, R.isErr, bind, Except.bind]

/-! ## the umbrella: ok ⇒ exact, undefined ⇒ rejected -/

/-- **ok ⇒ exact (one push).**  If a push of ANY serde value `x` (any nesting) into a builder built for the field
`(dt, n, md)` succeeds, the documented mapping `Spec.interpDT` is defined on `x` and the builder holds exactly its
previous rows followed by that value: nothing wrapped, truncated, defaulted or dropped.  Hypotheses are those of R2' for
determined states (`Props.C01.push_interp_det`, the hidden-rows refinement of Props/C01Obs.lean — NO `Safe`): the WEAK
state invariant `WFH`, `NoDictKey` (holds of every builder `build_builder` constructs) and `Det b` (no row of `b` is
undetermined) — all three hold of every strictly well-formed state (`WFH_of_WFB`, `Det_of_WFB`: the stronger
`WFB b`, `Safe b` imply them) and of the root of `to_marrow` after every record; `Shape` (the builder is the one
`build_builder` makes for the field), `structStreamsAlternate` (every raw key/value call stream inside `x` alternates:
Map builders refuse the others, struct builders ACCEPT them although the mapping gives them no meaning —
`Props.C01.struct_stream_needed`, `Props.C01.struct_raw_stored`) and, when `x` contains a raw stream at all, the
sentinel bound `narrowDT` (fewer than `usize::MAX` fields per struct). -/
theorem C05_push_ok_exact (ext : Ext) (x : SVal) (b b' : B) (dt : DataType) (n : Bool) (md : Metadata)
    (hraw : structStreamsAlternate x = true) (hnar : noRaw x = true ∨ narrowDT dt = true)
    (hwf : WFH b) (hnd : NoDictKey b) (hdet : Det b) (hshape : Shape b dt n md) (h : push ext b x = .ok b') :
    ∃ lv, interpDT ext dt n md x = .ok lv ∧ dec b' = dec b ++ [lv] := by
  obtain ⟨_, _, _, _, lv, hd, hi⟩ := Props.C01.push_interp_det ext x b b' dt n md hraw hnar hwf hnd hdet hshape h
  exact ⟨lv, hi, hd⟩

/-- the same for ANY state under the weak invariant, in terms of the observable rows: the documented value is defined and
is the one determined row the push appends -/
theorem C05_push_ok_exact_obs (ext : Ext) (x : SVal) (b b' : B) (dt : DataType) (n : Bool) (md : Metadata)
    (hraw : structStreamsAlternate x = true) (hnar : noRaw x = true ∨ narrowDT dt = true)
    (hwf : WFH b) (hnd : NoDictKey b) (hshape : Shape b dt n md) (h : push ext b x = .ok b') :
    ∃ lv, interpDT ext dt n md x = .ok lv ∧ Refines (decH b') (decH b ++ [some lv]) := by
  obtain ⟨_, _, _, lv, hd, hi⟩ := Props.C01.push_interp' ext x b b' dt n md hraw hnar hwf hnd hshape h
  exact ⟨lv, hi, hd⟩

/-- **undefined ⇒ rejected (one push).**  A value the documented mapping does not define for the field (out of range,
null for a non-nullable field, missing / duplicate field, wrong count, unknown variant, wrong kind …, at any depth) is
never accepted.  ANY state under the weak invariant (no `Safe`, no determinedness needed). -/
theorem C05_interp_undefined_rejected (ext : Ext) (x : SVal) (b : B) (dt : DataType) (n : Bool) (md : Metadata)
    (hraw : structStreamsAlternate x = true) (hnar : noRaw x = true ∨ narrowDT dt = true)
    (hwf : WFH b) (hnd : NoDictKey b) (hshape : Shape b dt n md)
    (e : Fail) (hu : interpDT ext dt n md x = .error e) : ∀ b', push ext b x ≠ .ok b' := by
  intro b' h
  obtain ⟨lv, hi, _⟩ := C05_push_ok_exact_obs ext x b b' dt n md hraw hnar hwf hnd hshape h
  rw [hu] at hi
  cases hi

/-- the same for a freshly built builder: everything but `coveredW` comes from `build_builder` — no hypothesis on the
schema beside it.  `coveredW` (Lemmas/C01NewShape.lean) is the WEAK schema predicate: it also admits dictionaries whose
value builder refuses strings (`Build.newDT_shapeW` establishes the `Shape` the push theorem needs from it); the former
hypothesis `covered` implies it (`Build.coveredW_of_covered`; corollary `C05_new_interp_undefined_rejected_covered`). -/
theorem C05_new_interp_undefined_rejected (ext : Ext) (x : SVal) (path : String) (dt : DataType) (n : Bool)
    (md : Metadata) (b : B) (hc : Build.coveredW dt = true) (hnew : newDT path dt n md = .ok b)
    (hraw : structStreamsAlternate x = true) (hnar : noRaw x = true ∨ narrowDT dt = true)
    (e : Fail) (hu : interpDT ext dt n md x = .error e) : ∀ b', push ext b x ≠ .ok b' :=
  C05_interp_undefined_rejected ext x b dt n md hraw hnar
    (Build.WFH_of_WFB _ (Props.C01.newDT_fresh dt path n md b hnew).1)
    (Build.BuiltFor_NoDictKey b dt n (Props.C03.newB_builtFor path (.mk "" dt n md) b hnew))
    (Build.newDT_shapeW dt path n md b hc hnew) e hu

/-- the statement as it stood before (`covered` instead of `coveredW`) -/
theorem C05_new_interp_undefined_rejected_covered (ext : Ext) (x : SVal) (path : String) (dt : DataType) (n : Bool)
    (md : Metadata) (b : B) (hc : covered dt = true) (hnew : newDT path dt n md = .ok b)
    (hraw : structStreamsAlternate x = true) (hnar : noRaw x = true ∨ narrowDT dt = true)
    (e : Fail) (hu : interpDT ext dt n md x = .error e) : ∀ b', push ext b x ≠ .ok b' :=
  C05_new_interp_undefined_rejected ext x path dt n md b (Build.coveredW_of_covered dt hc) hnew hraw hnar e hu

/-- non-vacuity of the weaker hypothesis: `Dictionary(Int32, Int64)` is `coveredW` and NOT `covered`, `build_builder`
accepts it, the documented mapping gives a string no value there — and the theorem applies: the push is refused -/
example : covered (.dictionary .int32 .int64) = false ∧ Build.coveredW (.dictionary .int32 .int64) = true ∧
    ∃ b, newDT "$" (.dictionary .int32 .int64) true [] = .ok b ∧ ∀ b', push {} b (.str "a") ≠ .ok b' := by
  refine ⟨by decide, by decide, ?_⟩
  have hok : (newDT "$" (.dictionary .int32 .int64) true []).isOk = true := by decide +kernel
  have herr : (interpDT {} (.dictionary .int32 .int64) true [] (.str "a")).isOk = false := by decide +kernel
  cases hb : newDT "$" (.dictionary .int32 .int64) true [] with
  | error e => rw [hb] at hok; cases hok
  | ok b =>
    refine ⟨b, rfl, ?_⟩
    cases hi : interpDT {} (.dictionary .int32 .int64) true [] (.str "a") with
    | ok lv => rw [hi] at herr; cases herr
    | error e =>
      exact C05_new_interp_undefined_rejected {} (.str "a") "$" _ true [] b (by decide) hb (by decide) (Or.inl (by decide)) e hi

/-- **ok ⇒ exact (`to_marrow`).**  If `to_marrow` succeeds, EVERY input record has a documented value
(`interpRow` is defined: every field of every record, at every depth, was representable in its column) and the
returned arrays decode — Arrow reading rules — to exactly those values: row `i` is the struct whose `j`-th field is
slot `i` of column `j`.  Hypotheses and coverage are those of `Props.C01.C01_build_decode'` (no `Safe`). -/
theorem C05_toMarrow_ok_exact (ext : Ext) (fields : List Field) (rows : List SVal) (arrs : List Arr)
    (hschema : ∀ f ∈ fields, Lemmas.C03.SchemaOKF f)
    (hcov : fields.all Build.coveredF = true)
    (hraw : ∀ x ∈ rows, Build.structStreamsAlternate x = true)
    (hnar : (∀ x ∈ rows, Build.noRaw x = true) ∨ Build.narrowRoot fields = true)
    (h : toMarrow ext fields rows = .ok arrs) :
    (∀ x ∈ rows, ∃ lv, interpRow ext fields x = .ok lv) ∧
    ∃ cols : List (String × List LVal),
      arrs.map decodeAll = cols.map (fun c => c.2.map .ok) ∧
      cols.map (·.1) = fields.map (·.name) ∧
      (∀ c ∈ cols, c.2.length = rows.length) ∧
      ∀ (i : Nat) (hi : i < rows.length),
        interpRow ext fields rows[i] = .ok (.struct (LFields.ofList (cols.map fun c => (c.1, c.2.getD i .null)))) := by
  obtain ⟨_, cols, h1, h2, h3, h4⟩ := Props.C01.C01_build_decode' ext fields rows arrs hschema hcov hraw hnar h
  refine ⟨?_, cols, h1, h2, h3, h4⟩
  intro x hx
  obtain ⟨i, hi, rfl⟩ := List.getElem_of_mem hx
  exact ⟨_, h4 i hi⟩

/-- **undefined ⇒ rejected (`to_marrow`).**  One record without a documented value anywhere in the batch makes the
whole call fail: no array is returned.  Needs only the hypotheses of R3' (`Props.C01.runRows_interp'`; no `Safe`); the
schema predicate is the weak `coveredWF` (Lemmas/C01NewShape.lean): also dictionaries whose value builder refuses strings. -/
theorem C05_toMarrow_undefined_rejected (ext : Ext) (fields : List Field) (rows : List SVal)
    (hcov : fields.all Build.coveredWF = true)
    (hraw : ∀ x ∈ rows, Build.structStreamsAlternate x = true)
    (hnar : (∀ x ∈ rows, Build.noRaw x = true) ∨ Build.narrowRoot fields = true)
    (hu : ∃ (i : Nat) (hi : i < rows.length) (e : Fail), interpRow ext fields rows[i] = .error e) :
    ∀ arrs, toMarrow ext fields rows ≠ .ok arrs := by
  intro arrs h
  obtain ⟨i, hi, e, he⟩ := hu
  obtain ⟨root, hrun, _⟩ := Props.C03.toMarrow_split ext fields rows arrs h
  have h0 : ∃ root0, newRoot fields = .ok root0 := by
    simp only [runRows] at hrun
    cases hr : newRoot fields with
    | error e => rw [hr] at hrun; cases hrun
    | ok r0 => exact ⟨r0, rfl⟩
  obtain ⟨root0, h0⟩ := h0
  obtain ⟨hall, _⟩ := Props.C01.runRows_interp' ext fields rows root0 root hcov h0 hraw hnar hrun
  obtain ⟨hl, hg⟩ := Props.C03.All2_get hall
  have := hg i (by rw [hl]; exact hi) hi
  rw [he] at this
  cases this

/-- non-vacuity: a record without a documented value (a non-nullable dictionary field below the nullable struct is
given `None`) against the schema OUTSIDE `Safe` of Props/C01Obs.lean is refused -/
example : ∀ arrs, toMarrow {} Props.C01.exUnsafeFields
    [.record "R" (.cons "s" 0 (.some (.record "S" (.cons "d" 0 .none .nil))) .nil)] ≠ .ok arrs := by
  have hbad : ∃ e, interpRow {} Props.C01.exUnsafeFields
      (.record "R" (.cons "s" 0 (.some (.record "S" (.cons "d" 0 .none .nil))) .nil)) = .error e := by
    cases hi : interpRow {} Props.C01.exUnsafeFields
        (.record "R" (.cons "s" 0 (.some (.record "S" (.cons "d" 0 .none .nil))) .nil)) with
    | error e => exact ⟨e, rfl⟩
    | ok v =>
      have : (interpRow {} Props.C01.exUnsafeFields
        (.record "R" (.cons "s" 0 (.some (.record "S" (.cons "d" 0 .none .nil))) .nil))).isOk = false := by
        decide +kernel
      rw [hi] at this; cases this
  obtain ⟨e, he⟩ := hbad
  exact C05_toMarrow_undefined_rejected {} _ _ (by decide) (by decide) (Or.inl (by decide)) ⟨0, by decide, e, he⟩

/-! ## the documented lossy cells are the only cells that alter a value

Every leaf of `Spec.interpDT` goes through `Spec.interpScalar` (scalars, the bytes of a binary value presented as a
list) or is structural (records by name, sequences element by element, `Spec.bytesOf` — equal to the model's `u8All`,
`bytesOf_eq` — for bytes given as a sequence: `u8_exact` above).  `documentedLossy` (Lemmas/C05Exact.lean) lists the cells (leaf kind of the column, serde scalar call)
the documentation declares lossy; in every other cell the logical value `interpScalar` defines is the value presented
(`Faithful`: same number / same float bits or the IEEE widening / same text or `to_string()` of the scalar / same
bytes / what the temporal codec returns for the text — whose own exactness is C14) or there is no value (error). -/

/-- at the storage level (`convLeaf`: what a leaf builder stores for a scalar call) -/
theorem C05_leaf_only_documented_lossy (ext : Ext) (k : LeafKind) (x : SVal) :
    documentedLossy k x = true ∨ (∃ e, convLeaf ext k x = .error e) ∨
      ∃ w, convLeaf ext k x = .ok w ∧ StoredExact ext k x w := by
  cases hl : documentedLossy k x with
  | true => exact .inl rfl
  | false =>
    cases hc : convLeaf ext k x with
    | error e => exact .inr (.inl ⟨e, rfl⟩)
    | ok w => exact .inr (.inr ⟨w, rfl, convLeaf_exact ext k x w hc hl⟩)

/-- **only the documented cells are lossy** (specification level): for every column type and every scalar call, the
cell is a documented lossy one, or the mapping is undefined (⇒ rejected, `C05_interp_undefined_rejected`), or the
logical value is the value presented. -/
theorem C05_only_documented_lossy (ext : Ext) (dt : DataType) (x : SVal) :
    documentedLossyDT dt x = true ∨ (∃ e, interpScalar ext dt x = .error e) ∨
      ∃ lv, interpScalar ext dt x = .ok lv ∧ Faithful ext dt x lv := by
  cases hl : documentedLossyDT dt x with
  | true => exact .inl rfl
  | false =>
    cases hc : interpScalar ext dt x with
    | error e => exact .inr (.inl ⟨e, rfl⟩)
    | ok lv => exact .inr (.inr ⟨lv, rfl, interpScalar_faithful ext dt x lv hc hl⟩)

/-- the exclusion is needed: each documented family does alter a value.  2^24+1 as f32 is 2^24; the f64 nearest to 0.1
narrowed to f32 and widened back is another f64; 65520 (f32) overflows f16 to +inf. -/
theorem C05_lossy_cells_alter :
    documentedLossy .f32 (.int .i64 16777217) = true ∧
    convLeaf {} .f32 (.int .i64 16777217) = convLeaf {} .f32 (.int .i64 16777216) ∧
    documentedLossy .f32 (.f64 0x3FB999999999999A) = true ∧
    (do let w ← convLeaf {} .f32 (.f64 0x3FB999999999999A); convLeaf {} .f64 (.f32 w.toNat)) = .ok 0x3FB99999A0000000 ∧
    documentedLossy .f16 (.f32 0x477FF000) = true ∧ convLeaf {} .f16 (.f32 0x477FF000) = .ok 0x7C00 := by
  decide +kernel

/-! ### non-vacuity -/

/-- `C05_push_ok_exact` / `C05_interp_undefined_rejected` on a nested state (`Props.C01.exList`: nullable list of
non-nullable Int32): an out-of-range element deep in the value has no documented value, and the push is refused -/
example : (interpDT {} (.list (.mk "element" .int32 false [])) true []
    (.seq (.cons (.int .i8 5) (.cons (.int .i64 2147483648) .nil)))).isErr = true := by decide +kernel
example : (push {} Props.C01.exList (.seq (.cons (.int .i8 5) (.cons (.int .i64 2147483648) .nil)))).isErr = true := by
  decide +kernel
example : (interpDT {} (.list (.mk "element" .int32 false [])) true []
    (.seq (.cons (.int .i8 5) (.cons .none .nil)))).isErr = true := by decide +kernel

/-- `C05_toMarrow_undefined_rejected`: the second record misses the non-nullable field `l` -/
example : (interpRow {} Props.C03.exFields (.record "R" (.cons "a" 0 (.int .i32 1) .nil))).isErr = true := by
  decide +kernel

/-- faithful cells of every class -/
example : Faithful {} .int8 (.int .u64 7) (.int 7) := .int (k := .int .i8) rfl rfl
example : Faithful {} .uint16 (.char 955) (.int 955) := .int (k := .int .u16) rfl rfl
example : Faithful {} .float64 (.f32 0x3F800000) (.float 0x3FF0000000000000) := by
  have h := Faithful.widen (ext := {}) 0x3F800000
  rw [show Float.convert Float.f32 Float.f64 0x3F800000 = 0x3FF0000000000000 from by decide +kernel] at h
  exact h
example : interpScalar {} .largeUtf8 (.int .i16 (-12)) = .ok (.str (strBytes "-12")) := by decide +kernel

example : convLeaf {} (.int .i8) (.int .i64 127) = .ok 127 := by decide
example : (convLeaf {} (.int .i8) (.int .i64 128)).isErr = true := by decide
example : (convLeaf {} (.int .u8) (.int .i8 (-1))).isErr = true := by decide
example : u8Of (.some (.int .i32 255)) = .ok 255 := by decide
example : (u8Of (.int .i32 256)).isErr = true := by decide

/-! ## reader direction: what `cast` says must fail, fails

Proof: `Lemmas/C05ReadLeaf.lean` (scalar targets), `C05ReadCont.lean` (`noKnown`, `Option`, newtype, sequences),
`C05ReadCont2.lean` (tuples, maps, enums), `C05ReadStruct.lean` (structs by field name); structural recursion over the
target here. -/

section Reader
open SaModel.Read

mutual
theorem read_rej : ∀ (t : Target), Rej t
  | .any => rej_any
  | .ignored => rej_ignored
  | .unit => rej_scalar (m := .unit) rfl (fun _ _ => by simp only [Read.cast])
      (fun a lv _ => intAsBool_not_bool (by simp) a lv) (fun _ _ => by simp only [readAs])
  | .unitStruct => rej_scalar (m := .unitStruct) rfl (fun _ _ => by simp only [Read.cast])
      (fun a lv _ => intAsBool_not_bool (by simp) a lv) (fun _ _ => by simp only [readAs])
  | .bool => rej_scalar (m := .bool) rfl (fun _ _ => by simp only [Read.cast])
      (fun a lv h => by simpa [noKnown] using h) (fun _ _ => by simp only [readAs])
  | .int ty => rej_scalar (m := .int ty) rfl (fun _ _ => by simp only [Read.cast])
      (fun a lv _ => intAsBool_not_bool (by simp) a lv) (fun _ _ => by simp only [readAs])
  | .f32 => rej_scalar (m := .f32) rfl (fun _ _ => by simp only [Read.cast])
      (fun a lv _ => intAsBool_not_bool (by simp) a lv) (fun _ _ => by simp only [readAs])
  | .f64 => rej_scalar (m := .f64) rfl (fun _ _ => by simp only [Read.cast])
      (fun a lv _ => intAsBool_not_bool (by simp) a lv) (fun _ _ => by simp only [readAs])
  | .char => rej_scalar (m := .char) rfl (fun _ _ => by simp only [Read.cast])
      (fun a lv _ => intAsBool_not_bool (by simp) a lv) (fun _ _ => by simp only [readAs])
  | .string => rej_scalar (m := .string) rfl (fun _ _ => by simp only [Read.cast])
      (fun a lv _ => intAsBool_not_bool (by simp) a lv) (fun _ _ => by simp only [readAs])
  | .str => rej_scalar (m := .str) rfl (fun _ _ => by simp only [Read.cast])
      (fun a lv _ => intAsBool_not_bool (by simp) a lv) (fun _ _ => by simp only [readAs])
  | .bytes => rej_bytes
  | .byteBuf => rej_byteBuf
  | .option t => rej_option (read_rej t)
  | .newtype t => rej_newtype (read_rej t)
  | .seq t => rej_seq (read_rej t)
  | .tuple ts => rej_tuple (targets_rej ts)
  | .tupleStruct ts => rej_tupleStruct (targets_rej ts)
  | .map k v => rej_map (read_rej k) (read_rej v)
  | .struct tfs => rej_struct (tfields_rej tfs)
  | .enum _ vs => rej_enum (variants_rej vs)
theorem targets_rej : ∀ (ts : Targets), ∀ t ∈ Targets.toList ts, Rej t
  | .nil, t, h => by simp [Targets.toList] at h
  | .cons t' rest, t, h => by
    simp only [Targets.toList, List.mem_cons] at h
    rcases h with h | h
    · rw [h]; exact read_rej t'
    · exact targets_rej rest t h
theorem tfields_rej : ∀ (tfs : TFields), ∀ p ∈ TFields.toList tfs, Rej p.2
  | .nil, p, h => by simp [TFields.toList] at h
  | .cons n t' rest, p, h => by
    simp only [TFields.toList, List.mem_cons] at h
    rcases h with h | h
    · rw [h]; exact read_rej t'
    · exact tfields_rej rest p h
theorem variants_rej : ∀ (vs : TVariants), ∀ p ∈ TVariants.toList vs, KRej p.2
  | .nil, p, h => by simp [TVariants.toList] at h
  | .cons n k rest, p, h => by
    simp only [TVariants.toList, List.mem_cons] at h
    rcases h with h | h
    · rw [h]; exact kind_rej k
    · exact variants_rej rest p h
theorem kind_rej : ∀ (k : VKind), KRej k
  | .unit => krej_unit
  | .newtype t => krej_newtype (read_rej t)
  | .tuple ts => krej_tuple (targets_rej ts)
  | .struct tfs => krej_struct (tfields_rej tfs)
end

/-- **C05, reading direction.**  For EVERY target type `t` (scalars, `Option`, newtype, `Vec`, tuples, maps, structs by
field name, enums by name or index, nested to any depth), EVERY array `a` and slot `i` whose Arrow reading is defined
(`decodeAt a i = ok lv`), under the hypotheses of `Props.C02.read_typed_decode` (the reader was built, lengths are
representable, strings are UTF-8): if the value-level specification says the value has no exact representation in `t`
(`cast t a lv` is an error: `mustFail _`), the typed read fails — it never returns a wrapped, truncated, defaulted or
hidden value.  `noKnown t a lv` excludes exactly the two recorded known findings (#23 a null container slot into a
non-`Option` container target, #24 an integer column read as `bool`), wherever they occur inside the value. -/
theorem read_mustFail (t : Target) (a : Arr) (i : Nat) (lv : LVal) (why : String)
    (hc : Read.cast t a lv = mustFail why) (h : decodeAt a i = .ok lv)
    (hn : new Fixes.all a = .ok ()) (hp : physical a = true) (hu : utf8Ok lv = true)
    (hk : noKnown t a lv = true) : ∃ e, readAs Fixes.all t a i = .error e :=
  isOk_false_iff.1 (read_rej t a i lv _ h hn hp hu hk hc)

/-- **No silent cells** (C02 + C05, reader side).  For EVERY target, array and slot with a defined Arrow reading, under
the hypotheses of `read_typed_decode`, outside the two known findings (`noKnown`) and where no field name repeats
(`naCell t a = false`: every Rust type, every view whose struct columns have distinct child names): the typed read is
DECIDED by the value-level specification — either `cast` demands a value and the read returns exactly it, or `cast`
says the read must fail (value not representable, codec refusal, pair not offered by the reader) and it fails. -/
theorem read_typed_total (t : Target) (a : Arr) (i : Nat) (lv : LVal)
    (h : decodeAt a i = .ok lv) (hn : new Fixes.all a = .ok ()) (hp : physical a = true) (hu : utf8Ok lv = true)
    (hk : noKnown t a lv = true) (hna : naCell t a = false) :
    (∃ d, Read.cast t a lv = must d ∧ readAs Fixes.all t a i = .ok d) ∨
    (∃ e e', Read.cast t a lv = .error e ∧ readAs Fixes.all t a i = .error e') := by
  rcases Props.C02.cast_must_or_mustFail t a lv hna with ⟨d, hc⟩ | ⟨e, hc⟩
  · exact .inl ⟨d, hc, Props.C02.read_typed_decode t a i lv d h hn hp hu hc⟩
  · obtain ⟨e', he'⟩ := isOk_false_iff.1 (read_rej t a i lv e h hn hp hu hk hc)
    exact .inr ⟨e, e', hc, he'⟩

/-- non-vacuity: a Date32 column read as `String` (first disjunct) and as `&str` (second disjunct) -/
example : (∃ d, Read.cast .string (.prim .date32 none [19000]) (.int 19000) = must d ∧
      readAs Fixes.all .string (.prim .date32 none [19000]) 0 = .ok d) ∧
    (∃ e e', Read.cast .str (.prim .date32 none [19000]) (.int 19000) = .error e ∧
      readAs Fixes.all .str (.prim .date32 none [19000]) 0 = .error e') := by
  have h1 := read_typed_total .string (.prim .date32 none [19000]) 0 (.int 19000) (by decide) (by decide) (by decide) (by decide)
    (by decide) (by decide)
  have h2 := read_typed_total .str (.prim .date32 none [19000]) 0 (.int 19000) (by decide) (by decide) (by decide) (by decide)
    (by decide) (by decide)
  have hm1 : Read.cast .string (.prim .date32 none [19000]) (.int 19000) = must (.str .owned (Read.strBytes "2022-01-08")) := by
    decide +kernel
  have hm2 : Read.cast .str (.prim .date32 none [19000]) (.int 19000) = mustFail "unsupported (target, column) pair" := by
    decide +kernel
  refine ⟨?_, ?_⟩
  · rcases h1 with h | ⟨e, _, hc, _⟩
    · exact h
    · rw [hm1] at hc; simp [must] at hc
  · rcases h2 with ⟨d, hc, _⟩ | h
    · rw [hm2] at hc; simp [mustFail, fail, must] at hc
    · exact h

/-- the same for any error claim, with the materialising oracle `Spec.decode` -/
theorem read_mustFail_spec (t : Target) (a : Arr) (i : Nat) (lv : LVal) (e0 : Fail)
    (hc : Read.cast t a lv = .error e0) (h : Spec.decode a i = .ok lv)
    (hn : new Fixes.all a = .ok ()) (hp : physical a = true) (hu : utf8Ok lv = true)
    (hk : noKnown t a lv = true) : ∃ e, readAs Fixes.all t a i = .error e :=
  isOk_false_iff.1 (read_rej t a i lv _ (Props.C02.decode_eq_decodeAt a i ▸ h) hn hp hu hk hc)

/-- typed reads are exact or fail: with `Props.C02.read_typed_decode`, wherever `cast` makes a claim about a slot
(`must d` or `mustFail`), a successful read returned exactly the claimed value -/
theorem read_ok_exact (t : Target) (a : Arr) (i : Nat) (lv : LVal) (d : DVal) (c : Option DVal)
    (h : decodeAt a i = .ok lv) (hn : new Fixes.all a = .ok ()) (hp : physical a = true) (hu : utf8Ok lv = true)
    (hk : noKnown t a lv = true) (hr : readAs Fixes.all t a i = .ok d) :
    (∀ e, Read.cast t a lv ≠ .error e) ∧ (Read.cast t a lv = .ok c → c = none ∨ c = some d) := by
  constructor
  · intro e hc
    have := read_rej t a i lv e h hn hp hu hk hc
    rw [hr] at this; cases this
  · intro hc
    cases c with
    | none => exact .inl rfl
    | some d' =>
      have := Props.C02.read_typed_decode t a i lv d' h hn hp hu hc
      rw [hr] at this; cases this; exact .inr rfl

/-- integer / float / … targets never read a string or binary column: those readers implement none of the numeric
`deserialize_*` methods (`cast` makes no claim there: the pair is unsupported, and it is refused) -/
theorem read_text_as_number_fails (t : Target) (ht : (∃ ty, t = .int ty) ∨ t = .f32 ∨ t = .f64 ∨ t = .bool ∨ t = .char)
    (a : Arr) (ha : (∃ ty v offs data, a = .bytes ty v offs data) ∨ (∃ ty v views bufs, a = .bytesView ty v views bufs) ∨
      (∃ n v data, a = .fixedSizeBinary n v data) ∨ (∃ ks vs, a = .dictionary ks vs)) (i : Nat) :
    ∃ e, readAs Fixes.all t a i = .error e := by
  apply isOk_false_iff.1
  rcases ht with ⟨ty, rfl⟩ | rfl | rfl | rfl | rfl <;>
  rcases ha with ⟨ty', v, offs, data, rfl⟩ | ⟨ty', v, views, bufs, rfl⟩ | ⟨n, v, data, rfl⟩ | ⟨ks, vs, rfl⟩ <;>
    (simp only [readAs]; unfold scalar;
     first
      | (simp [notImpl, fail, bind, Except.bind, R.isOk]; done)
      | (split <;> simp [notImpl, fail, bind, Except.bind, R.isOk]))

/-! ### the exclusions are needed (known findings #23, #24) -/

/-- #23: the slot is null, `cast` says the read must fail, `noKnown` is false, the code returns the hidden `(42,)` -/
theorem exclusion_23_needed :
    let a : Arr := .struct 1 (some ⟨[0], 0⟩) (.cons ⟨"x", false, []⟩ (.prim .int32 none [42]) .nil)
    let t : Target := .tuple (.cons (.int .i32) .nil)
    decodeAt a 0 = .ok .null ∧ new Fixes.all a = .ok () ∧ physical a = true ∧
    Read.cast t a .null = mustFail "null into a non-Option target" ∧ noKnown t a .null = false ∧
    readAs Fixes.all t a 0 = .ok (.seq (.cons (.int .i32 42) .nil)) := by decide

/-- #24: Int32 value 2 read as `bool`: `cast` says the read must fail, `noKnown` is false, the code returns `true` -/
theorem exclusion_24_needed :
    let a : Arr := .prim .int32 none [2]
    decodeAt a 0 = .ok (.int 2) ∧ new Fixes.all a = .ok () ∧ physical a = true ∧
    Read.cast .bool a (.int 2) = mustFail "not a bool" ∧ noKnown .bool a (.int 2) = false ∧
    readAs Fixes.all .bool a 0 = .ok (.bool true) := by decide

/-! ### non-vacuity: the classes of the property, each meeting every hypothesis of `read_mustFail` (computed) -/

def rdLv (a : Arr) (i : Nat) : LVal := match decodeAt a i with | .ok lv => lv | .error _ => .null

def isMustFail : Claim → Bool
  | .error _ => true
  | _ => false

/-- (target, column, slot) triples: integer widths in both directions, char from u32, null into non-Option leaf
targets, tuple longer than the struct, missing field, unknown variant name / index, an offending element deep inside -/
def rdCases : List (Target × Arr × Nat) :=
  [ (.int .i8, .prim .int32 none [128], 0), (.int .u8, .prim .int8 none [-1], 0),
    (.int .u32, .prim .int64 none [4294967296], 0), (.int .i64, .prim .uint64 none [9223372036854775808], 0),
    (.int .i16, .prim .uint16 none [32768], 0), (.int .i32, .prim .date64 none [2147483648], 0),
    (.char, .prim .uint32 none [55296], 0), (.char, .prim .uint32 none [1114112], 0), (.char, .prim .int64 none [-1], 0),
    (.int .i32, .prim .int32 (some ⟨[0], 0⟩) [7], 0), (.string, .bytes .utf8 (some ⟨[0], 0⟩) [0, 0] [], 0),
    (.bool, .boolean 1 (some ⟨[0], 0⟩) ⟨[1], 0⟩, 0), (.f64, .prim .float64 (some ⟨[0], 0⟩) [0], 0),
    (.tuple (.cons (.int .i32) (.cons (.int .i32) .nil)),
      .struct 1 none (.cons ⟨"x", false, []⟩ (.prim .int32 none [42]) .nil), 0),
    (.struct (.cons "y" (.int .i32) .nil), .struct 1 none (.cons ⟨"x", false, []⟩ (.prim .int32 none [42]) .nil), 0),
    (.enum false (.cons "A" .unit .nil), .bytes .utf8 none [0, 1] [66], 0),
    (.enum false (.cons "A" .unit .nil),
      .union [1] (some [0]) (.cons 0 ⟨"A", false, []⟩ (.null 0) (.cons 1 ⟨"B", false, []⟩ (.null 1) .nil)), 0),
    (.enum true (.cons "A" .unit .nil),
      .union [1] (some [0]) (.cons 0 ⟨"A", false, []⟩ (.null 0) (.cons 1 ⟨"B", false, []⟩ (.null 1) .nil)), 0),
    (.seq (.struct (.cons "x" (.option (.int .u8)) .nil)),
      .list false none [0, 2] ⟨"element", false, []⟩
        (.struct 2 none (.cons ⟨"x", true, []⟩ (.prim .int32 (some ⟨[3], 0⟩) [1, 256]) .nil)), 0) ]

example : ∀ c ∈ rdCases, decodeAt c.2.1 c.2.2 = .ok (rdLv c.2.1 c.2.2) ∧ new Fixes.all c.2.1 = .ok () ∧
    physical c.2.1 = true ∧ utf8Ok (rdLv c.2.1 c.2.2) = true ∧ noKnown c.1 c.2.1 (rdLv c.2.1 c.2.2) = true ∧
    isMustFail (Read.cast c.1 c.2.1 (rdLv c.2.1 c.2.2)) = true ∧ (readAs Fixes.all c.1 c.2.1 c.2.2).isOk = false := by
  decide +kernel

end Reader

end SaModel.Props.C05
