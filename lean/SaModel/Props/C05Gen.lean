import SaModel.Build.Push
import SaModel.Lemmas.C18Reps
import SaModel.Generated.AcceptMatrix
/-
C01 / C05, tie by TRANSLATION: the accept matrix of the builders.

`translator/tables2.py` reads, before every build, the trait `SimpleSerializer` (every method with its default
body: reject with a message / forward / transparent), every `impl … SimpleSerializer for X` of
serde_arrow/src/internal/serialization/*.rs (which methods it overrides) and the arms of `build_builder` into
`SaModel/Generated/AcceptMatrix.lean`.  Here the same matrix is computed from the hand-written MODEL: a builder
family "overrides" a call when `push` of a representative value of that call kind into the builder that `newDT`
constructs does not end in the trait's default rejection message.  The two matrices must be equal
(`gen_accept_matrix`: 35 families × 27 call kinds; `decide +kernel` on finite tables throughout — string
comparison is slow in the kernel, so methods are compared by their position in the trait), so a method added to
or dropped from a builder, or an arm added to or dropped from the model, breaks the build of this module and
`./check C05` / `./check C01` report an obligation that no longer checks.

  gen_trait              the trait's defaults are what the model's `notSupported` arms say: every scalar / start
                         call rejects with `<method> is not supported` (`serialize_struct_start` says
                         `serialize_start_start`, as in the sources), `serialize_unit` forwards to `serialize_none`,
                         `serialize_unit_struct` forwards to `serialize_unit` (repo fix ae2fc46),
                         `serialize_some` / `serialize_newtype_struct` are transparent
  gen_enum_forwards      `ArrayBuilder` overrides EVERY method and dispatches each to the method of the same name
  gen_serde_wiring       `impl Serializer for Mut<T>` and the seven compound traits call the expected trait methods
  gen_groups             compound calls are overridden as a whole (`x_start` iff `x_element`/`x_field` iff `x_end`)
  gen_accept_matrix      Rust matrix = model matrix, for every arm of `build_builder`
-/
namespace SaModel.Props.C05Gen
open SaModel SaModel.Build SaModel.Lemmas.C18Reps
open SaModel.Generated.AcceptMatrix

/-! ### the trait -/

def trimR (s : String) : String := String.ofList (s.toList.reverse.dropWhile (· == ' ')).reverse

/-- one serde call kind: the trait method that starts it, its position in the trait, the positions of the chain of
methods its default forwards through (`serialize_unit` → `serialize_none`; since repo fix ae2fc46
`serialize_unit_struct` → `serialize_unit` → `serialize_none`; empty for the others), the representative value whose
`push` models the call (`none`: `serialize_default`, modelled by `pushDefault`), and the message of the (effective)
default rejection -/
structure Call where
  method : String
  pos : Nat
  alt : List Nat
  rep : Option SVal
  msg : String

def calls : List Call := [
  ⟨"serialize_default", 0, [], none, "serialize_default is not supported"⟩,
  ⟨"serialize_unit", 1, [2], some .unit, "serialize_unit/serialize_none is not supported"⟩,
  ⟨"serialize_none", 2, [], some .none, "serialize_unit/serialize_none is not supported"⟩,
  ⟨"serialize_bool", 4, [], some (.bool true), "serialize_bool is not supported"⟩,
  ⟨"serialize_char", 5, [], some (.char 97), "serialize_char is not supported"⟩,
  ⟨"serialize_u8", 6, [], some (.int .u8 1), "serialize_u8 is not supported"⟩,
  ⟨"serialize_u16", 7, [], some (.int .u16 1), "serialize_u16 is not supported"⟩,
  ⟨"serialize_u32", 8, [], some (.int .u32 1), "serialize_u32 is not supported"⟩,
  ⟨"serialize_u64", 9, [], some (.int .u64 1), "serialize_u64 is not supported"⟩,
  ⟨"serialize_i8", 10, [], some (.int .i8 1), "serialize_i8 is not supported"⟩,
  ⟨"serialize_i16", 11, [], some (.int .i16 1), "serialize_i16 is not supported"⟩,
  ⟨"serialize_i32", 12, [], some (.int .i32 1), "serialize_i32 is not supported"⟩,
  ⟨"serialize_i64", 13, [], some (.int .i64 1), "serialize_i64 is not supported"⟩,
  ⟨"serialize_f32", 14, [], some (.f32 0), "serialize_f32 is not supported"⟩,
  ⟨"serialize_f64", 15, [], some (.f64 0), "serialize_f64 is not supported"⟩,
  ⟨"serialize_bytes", 16, [], some (.bytes []), "serialize_bytes is not supported"⟩,
  ⟨"serialize_str", 17, [], some (.str "a"), "serialize_str is not supported"⟩,
  ⟨"serialize_newtype_variant", 19, [], some (.newtypeVariant "E" 0 "A" .unit), "serialize_newtype_variant is not supported"⟩,
  ⟨"serialize_unit_struct", 20, [1, 2], some (.unitStruct "U"), "serialize_unit/serialize_none is not supported"⟩,
  ⟨"serialize_unit_variant", 21, [], some (.unitVariant "E" 0 "A"), "serialize_unit_variant is not supported"⟩,
  ⟨"serialize_map_start", 22, [], some (.map .nil), "serialize_map_start is not supported"⟩,
  ⟨"serialize_seq_start", 26, [], some (.seq .nil), "serialize_seq_start is not supported"⟩,
  ⟨"serialize_struct_start", 29, [], some (.record "S" .nil), "serialize_start_start is not supported"⟩,
  ⟨"serialize_tuple_start", 32, [], some (.tuple .nil), "serialize_tuple_start is not supported"⟩,
  ⟨"serialize_tuple_struct_start", 35, [], some (.tupleStruct "T" .nil), "serialize_tuple_struct_start is not supported"⟩,
  ⟨"serialize_struct_variant_start", 38, [], some (.structVariant "E" 0 "A" .nil), "serialize_struct_variant_start is not supported"⟩,
  ⟨"serialize_tuple_variant_start", 39, [], some (.tupleVariant "E" 0 "A" .nil), "serialize_tuple_variant_start is not supported"⟩]

/-- the continuation methods of a compound call: (position of `x_start`, positions of `x_element` … `x_end`), names -/
def groups : List (Nat × List Nat × List String) := [
  (22, [23, 24, 25], ["serialize_map_start", "serialize_map_key", "serialize_map_value", "serialize_map_end"]),
  (26, [27, 28], ["serialize_seq_start", "serialize_seq_element", "serialize_seq_end"]),
  (29, [30, 31], ["serialize_struct_start", "serialize_struct_field", "serialize_struct_end"]),
  (32, [33, 34], ["serialize_tuple_start", "serialize_tuple_element", "serialize_tuple_end"]),
  (35, [36, 37], ["serialize_tuple_struct_start", "serialize_tuple_struct_field", "serialize_tuple_struct_end"])]

/-- the transparent methods: positions and names -/
def transparent : List (Nat × String) := [(3, "serialize_some"), (18, "serialize_newtype_struct")]

def nameAt (k : Nat) : Option String := traitMethods[k]?.map (·.1)

/-- following the forwards of the trait's defaults from the method at `pos` named `name` along `chain`: every step
is a `forward` to the name of the next position, the last default rejects with `msg` -/
def chainOk (msg : String) : Nat → String → List Nat → Bool
  | pos, name, [] =>
    match traitMethods[pos]? with
    | some (n, "reject", m) => n == name && trimR m == msg
    | _ => false
  | pos, name, a :: rest =>
    match traitMethods[pos]?, traitMethods[a]? with
    | some (n, "forward", target), some (n', _, _) => n == name && n' == target && chainOk msg a target rest
    | _, _ => false

/-- does the trait's default of `c` reject with `c.msg` (directly, or through its forwards) -/
def callOk (c : Call) : Bool := chainOk c.msg c.pos c.method c.alt

/-- **the trait's defaults are the ones the model assumes**: the positions used below carry the names written
beside them; every call start rejects by default with `<name> is not supported` (two irregular names, as in the
sources), `serialize_unit` forwards to `serialize_none` and `serialize_unit_struct` to `serialize_unit`; the
continuations reject; the remaining two methods are transparent; and that is every method of the trait -/
theorem gen_trait :
    calls.all callOk = true ∧
    (∀ g ∈ groups, (g.1 :: g.2.1).map nameAt = g.2.2.map some) ∧
    (∀ g ∈ groups, ∀ k ∈ g.2.1, (traitMethods[k]?.map (·.2.1)) = some "reject") ∧
    (∀ t ∈ transparent, traitMethods[t.1]? = some (t.2, "other", "value.serialize(Mut(self))")) ∧
    (List.range traitMethods.length).all (fun k =>
      (calls.map (·.pos) ++ groups.flatMap (·.2.1) ++ transparent.map (·.1)).contains k) = true ∧
    (calls.map (·.pos) ++ groups.flatMap (·.2.1) ++ transparent.map (·.1)).length = traitMethods.length := by
  decide +kernel

/-- the recorded positions of the overridden methods are the positions of their names -/
theorem gen_idx : ∀ i ∈ impls, i.idx.map nameAt = i.methods.map some := by decide +kernel

/-- **nothing is swallowed at the enum**: `ArrayBuilder` overrides every trait method and forwards it to the
method of the same name of the builder it wraps -/
theorem gen_enum_forwards :
    (∀ e ∈ enumForward, e.1 = e.2) ∧
    (∀ i ∈ impls, i.base = "ArrayBuilder" →
      i.methods = enumForward.map (·.1) ∧ (List.range traitMethods.length).all (i.idx.contains ·) = true) ∧
    (impls.any (·.base == "ArrayBuilder")) = true := by decide +kernel

/-- `x.serialize(Mut(b))` reaches the trait method the model's `push` arm stands for -/
theorem gen_serde_wiring :
    (∀ e ∈ serdeEntry, e.2 = e.1 ∨ e.2 = e.1 ++ "_start") ∧
    (serdeEntry.map (·.2)) =
      (([1, 2, 3, 4, 5, 6, 7, 8, 9, 10, 11, 12, 13, 14, 15, 16, 17, 18, 19, 20, 21, 22, 26, 29, 32, 35, 38, 39] : List Nat).filterMap nameAt) ∧
    serdeCompound = [
      ("SerializeMap", "serialize_key", "serialize_map_key"), ("SerializeMap", "serialize_value", "serialize_map_value"),
      ("SerializeMap", "end", "serialize_map_end"),
      ("SerializeSeq", "serialize_element", "serialize_seq_element"), ("SerializeSeq", "end", "serialize_seq_end"),
      ("SerializeStruct", "serialize_field", "serialize_struct_field"), ("SerializeStruct", "end", "serialize_struct_end"),
      ("SerializeTuple", "serialize_element", "serialize_tuple_element"), ("SerializeTuple", "end", "serialize_tuple_end"),
      ("SerializeTupleStruct", "serialize_field", "serialize_tuple_struct_field"),
      ("SerializeTupleStruct", "end", "serialize_tuple_struct_end"),
      -- the variant accessors are the CHILD's struct / tuple-struct calls (`recordWith c`, `seqLikeWith … c .tupleStruct`)
      ("SerializeStructVariant", "serialize_field", "serialize_struct_field"),
      ("SerializeStructVariant", "end", "serialize_struct_end"),
      ("SerializeTupleVariant", "serialize_field", "serialize_tuple_struct_field"),
      ("SerializeTupleVariant", "end", "serialize_tuple_struct_end")] := by decide +kernel

/-- **compound calls are overridden as a whole**, in every impl (so comparing the `…_start` column suffices) -/
theorem gen_groups :
    ∀ i ∈ impls, ∀ g ∈ groups, ∀ k ∈ g.2.1, i.idx.contains k = i.idx.contains g.1 := by decide +kernel

/-! ### the two matrices -/

/-- Rust: does the impl override the call (itself or, through the default forwards, a method of its chain:
`serialize_unit` → `serialize_none`, `serialize_unit_struct` → `serialize_unit` → `serialize_none`) -/
def rustRow (i : Impl) : List Bool :=
  calls.map fun c => i.idx.contains c.pos || c.alt.any (i.idx.contains ·)

def ext0 : Ext := {}

def msgOf : R B → Option String
  | .ok _ => none
  | .error (.err m) => some m
  | .error (.errCtx m _) => some m
  | .error (.panic m) => some ("panic: " ++ m)

/-- the model's answer to a call on builder `b` -/
def modelResult (b : B) (c : Call) : R B :=
  match c.rep with
  | none => pushDefault b
  | some x => push ext0 b x

/-- model: the answer is something other than the trait's default rejection -/
def modelRow (b : B) : List Bool := calls.map fun c => msgOf (modelResult b c) != some c.msg

/-- the builder the model constructs for a representative -/
def build (r : DataType × Metadata) : Option B :=
  match newDT "$" r.1 true r.2 with
  | .ok b => some b
  | .error _ => none

/-- one arm of `build_builder`: its variants, paired in order with the representatives of that constructor; the
impl recorded for a variant is an impl for its type; the rows agree -/
def armOk (a : String × List (String × String × String × Nat)) : Bool :=
  match builderReps.lookup a.1 with
  | none => false
  | some reps =>
    a.2.length == reps.length &&
    (a.2.zip reps).all fun (v, r) =>
      match impls[v.2.2.2]?, build r with
      | some i, some b => i.base == v.2.1 && (i.inst == "" || i.inst == v.2.2.1) && rustRow i == modelRow b
      | _, _ => false

/-- **accept matrix**: for every arm of `build_builder`, every builder it can construct (variant of
`ArrayBuilder`) and every serde call kind: the Rust builder overrides the trait method iff the model's `push` of a
representative value into the builder the model constructs for that data type does something other than the
trait's default rejection; and the model has representatives for exactly the constructors the code has arms for -/
theorem gen_accept_matrix :
    arms.all armOk = true ∧ arms.length = builderReps.length ∧ (arms.flatMap (·.2)).length = 35 := by decide +kernel

/-- the impls outside the enum: the root, the two `U8Serializer`s and `KeyLookupSerializer` (modelled by
`newRoot` / `u8Of` / `keyStr`), with exactly these methods -/
theorem gen_helpers :
    (((List.range impls.length).filter (fun k => !((arms.flatMap (·.2)).any (·.2.2.2 == k)))).filterMap
        (fun k => impls[k]?.map (fun i => (i.rustType, i.idx)))) =
      [("ArrayBuilder", [0, 20, 2, 3, 1, 4, 10, 11, 12, 13, 6, 7, 8, 9, 14, 15, 5, 17, 16, 26, 27, 28, 29, 30, 31,
                         22, 23, 24, 25, 32, 33, 34, 35, 36, 37, 18, 19, 21, 38, 39]),
       ("U8Serializer", [6, 7, 8, 9, 10, 11, 12, 13]),
       ("U8Serializer", [6, 7, 8, 9, 10, 11, 12, 13]),
       ("OuterSequenceBuilder", [2, 26, 27, 28, 32, 33, 34, 35, 36, 37]),
       ("KeyLookupSerializer", [17])] := by decide +kernel

/-- the transparent methods are left alone, except by `FloatBuilder<f32>` (whose `serialize_some` is the default
wrapped in its own context) and the enum -/
theorem gen_transparent :
    ((impls.filter (fun i => transparent.any (fun t => i.idx.contains t.1))).map (·.rustType)) =
      ["ArrayBuilder", "FloatBuilder<f32>"] := by decide +kernel

/-! ### diagnostic: name the offending builder and call in the build log -/

def armDiff (a : String × List (String × String × String × Nat)) : List String :=
  match builderReps.lookup a.1 with
  | none => ["build_builder has an arm T::" ++ a.1 ++ " for which the model has no representative (lean/SaModel/Lemmas/C18Reps.lean)"]
  | some reps =>
    (a.2.zip reps).flatMap fun (v, r) =>
      match impls[v.2.2.2]?, build r with
      | some i, some b =>
        ((calls.zip ((rustRow i).zip (modelRow b))).filter (fun x => x.2.1 != x.2.2)).map fun x =>
          "ArrayBuilder::" ++ v.1 ++ " (" ++ i.rustType ++ "), " ++ x.1.method ++ ": Rust overrides = " ++
            toString x.2.1 ++ ", model overrides = " ++ toString x.2.2
      | _, _ => ["ArrayBuilder::" ++ v.1 ++ ": no impl / the model builds no builder"]

def offenders : List String := arms.flatMap armDiff

#eval show IO Unit from do
  unless offenders.isEmpty do
    throw <| IO.userError ("C05 accept matrix obligation broken by:\n  " ++ "\n  ".intercalate offenders)

/-! ### non-vacuity -/

example : (build (.date32, [])).map modelRow =
    some (calls.map fun c => ["serialize_default", "serialize_unit", "serialize_none", "serialize_str", "serialize_i32",
      "serialize_i64", "serialize_unit_struct"].contains c.method) := by decide +kernel
example : (build (.union (.cons 0 (.mk "A" .null true []) .nil) .dense, [])).map modelRow =
    some (calls.map fun c => ["serialize_default", "serialize_unit_variant", "serialize_newtype_variant",
      "serialize_struct_variant_start", "serialize_tuple_variant_start"].contains c.method) := by decide +kernel
example : calls.length = 27 ∧ impls.length = 26 := by decide

end SaModel.Props.C05Gen
