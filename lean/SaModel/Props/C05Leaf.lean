import SaModel.Props.C05
import SaModel.Lemmas.C05LeafSpecCodec
/-
C05 / C01 — THE LEAVES OF THE SPECIFICATION ARE INDEPENDENT OF THE BUILDER MODEL.

`Spec.specLeaf` (Spec/Leaf.lean; imports `Data/*`, `Basic/*` only) says what one scalar serde call means in a column of
a given Arrow type, written from the documentation; `Spec.interpScalar` — the leaf of `Spec.interpDT`, against which
C01 / C05 / C06 / C10 / C11 / C18 are stated — IS `specLeaf`.  This file states, at property level:

  C05_spec_leaf_is_model        ∀ ext dt x: specLeaf ext dt x = what the builder model's scalar conversions
                                (`convLeaf`, `scalarToString`, `tryInto`; `interpScalarOld`) accept and store — the
                                bridge, proved once (Lemmas/C01LeafBridge.lean)
  specLeaf_int_iff              integer columns, DECLARATIVELY: defined iff the call presents a number (integer of any
                                width, bool as 0 / 1, char as code point) inside the column type's range, and then it is
                                that number
  specLeaf_bool_iff, specLeaf_float_own_width, specLeaf_string_str, specLeaf_bytes_iff    the other exact cells
  C05_leaf_ok_exact             a plain scalar call accepted by ANY builder state has a `specLeaf` value and that value is
                                the row appended
  C05_leaf_undefined_rejected   a plain scalar call without a `specLeaf` value is never accepted
  C05_int_out_of_range_rejected an integer / bool / char outside the column's range is never accepted (both directions)

Shared with the model: the rounding arithmetic of the DOCUMENTED LOSSY float cells (`Basic/Float.lean`:
`Float.convert`, `Float.ofInt` — on both sides, never claimed exact) and the parameters `Ext` (functions of other
crates: float `Display`, the temporal / decimal parsers; for the codec instance two of them are tied to independent
parser specifications in Lemmas/C05LeafSpecCodec.lean).
-/
namespace SaModel.Props.C05
open SaModel SaModel.Build SaModel.Spec

/-- **the bridge, as one equation**: for every data type and every serde call, the specification's leaf value is
exactly what the model's scalar conversions accept — `none` where they return an error -/
theorem C05_spec_leaf_is_model (ext : Ext) (dt : DataType) (x : SVal) :
    specLeaf ext dt x = (interpScalarOld ext dt x).toOption := by
  have h := interpScalar_eq_old ext dt x
  unfold interpScalar at h
  cases hs : specLeaf ext dt x <;> cases ho : interpScalarOld ext dt x <;> rw [hs, ho] at h <;>
    simp [liftO, normErr, undefinedLeaf, fail, Except.toOption] at h ⊢
  exact h

/-- … and at the columns with a primitive-array builder it is `convLeaf` read as a logical value -/
theorem C05_convLeaf_eq_specLeaf (ext : Ext) (dt : DataType) (k : LeafKind) (hk : kindOf dt = some k) (x : SVal) :
    specLeaf ext dt x = ((convLeaf ext k x).toOption).map (leafVal k) :=
  convLeaf_eq_specLeaf ext hk x

/-! ### the exact cells, declaratively -/

/-- **integer columns**: a call has a value iff it presents a NUMBER in the column type's range; the value is that
number — whatever the width of the call (no wrap, no truncation, in both directions) -/
theorem specLeaf_int_iff (ext : Ext) (dt : DataType) (t : IntTy) (ht : intColumn dt = some t) (x : SVal) (lv : LVal) :
    specLeaf ext dt x = some lv ↔ ∃ v, numberOf x = some v ∧ t.min ≤ v ∧ v ≤ t.max ∧ lv = .int v := by
  have key : specLeaf ext dt x = intCell t x := by
    cases dt <;> simp only [intColumn, Option.some.injEq, reduceCtorEq] at ht <;> subst ht <;> rfl
  rw [key]
  unfold intCell fits
  cases hn : numberOf x with
  | none => simp [bind, Option.bind]
  | some v =>
    by_cases hr : t.min ≤ v ∧ v ≤ t.max
    · simp only [bind, Option.bind, if_pos hr, pure, Option.some.injEq]
      constructor
      · rintro rfl; exact ⟨v, rfl, hr.1, hr.2, rfl⟩
      · rintro ⟨w, hw, _, _, rfl⟩; cases hw; rfl
    · simp only [bind, Option.bind, if_neg hr, reduceCtorEq, false_iff]
      rintro ⟨w, hw, h1, h2, _⟩
      cases hw; exact hr ⟨h1, h2⟩

/-- Boolean columns hold bools, nothing else -/
theorem specLeaf_bool_iff (ext : Ext) (x : SVal) (lv : LVal) :
    specLeaf ext .boolean x = some lv ↔ ∃ b, x = .bool b ∧ lv = .bool b := by
  cases x <;> simp [specLeaf]
  exact eq_comm

/-- floats of the column's own width: the same bit pattern -/
theorem specLeaf_float_own_width (ext : Ext) (b : Nat) :
    specLeaf ext .float32 (.f32 b) = some (.float b) ∧ specLeaf ext .float64 (.f64 b) = some (.float b) := ⟨rfl, rfl⟩

/-- a `str` in a string column: its UTF-8 bytes -/
theorem specLeaf_string_str (ext : Ext) (s : String) :
    specLeaf ext .utf8 (.str s) = some (.str (strBytes s)) ∧ specLeaf ext .largeUtf8 (.str s) = some (.str (strBytes s)) ∧
    specLeaf ext .utf8View (.str s) = some (.str (strBytes s)) := ⟨rfl, rfl, rfl⟩

/-- binary columns hold the bytes of a `bytes` call; `FixedSizeBinary(n)` only values of exactly `n` bytes -/
theorem specLeaf_bytes_iff (ext : Ext) (dt : DataType) (x : SVal) (lv : LVal)
    (hd : dt = .binary ∨ dt = .largeBinary ∨ dt = .binaryView) :
    specLeaf ext dt x = some lv ↔ ∃ b, x = .bytes b ∧ lv = .bin b := by
  rcases hd with rfl | rfl | rfl <;> cases x <;> simp [specLeaf] <;> exact eq_comm

theorem specLeaf_fixedSizeBinary_iff (ext : Ext) (n : Int) (x : SVal) (lv : LVal) :
    specLeaf ext (.fixedSizeBinary n) x = some lv ↔ ∃ b, x = .bytes b ∧ (b.length : Int) = n ∧ lv = .bin b := by
  cases x <;> simp [specLeaf]
  rename_i b
  by_cases h : (b.length : Int) = n <;> simp [h]
  exact eq_comm

/-! ### ok ⇒ exact, undefined ⇒ rejected — in terms of `specLeaf` -/

/-- the plain scalar calls (`serialize_bool`, `serialize_i8` … `serialize_u64`, `serialize_f32/f64`, `serialize_char`,
`serialize_str`) -/
def plainScalar : SVal → Bool
  | .bool _ | .int _ _ | .f32 _ | .f64 _ | .char _ | .str _ => true
  | _ => false

theorem interpDT_plainScalar (ext : Ext) (dt : DataType) (n : Bool) (md : Metadata) (x : SVal) (hx : plainScalar x = true) :
    interpDT ext dt n md x = if isUnknownVariant dt md then fail "unknown variant" else liftO (specLeaf ext dt x) := by
  cases x <;> simp only [plainScalar, Bool.false_eq_true] at hx <;> simp only [interpDT, interpScalar]

/-- **ok ⇒ exact at a leaf**: a plain scalar call that ANY builder state (weak invariant) built for the field accepts
has a value in the leaf specification, and the row appended is that value -/
theorem C05_leaf_ok_exact (ext : Ext) (x : SVal) (b b' : B) (dt : DataType) (n : Bool) (md : Metadata)
    (hx : plainScalar x = true) (hwf : WFH b) (hnd : NoDictKey b) (hshape : Shape b dt n md)
    (h : push ext b x = .ok b') :
    ∃ lv, specLeaf ext dt x = some lv ∧ Refines (decH b') (decH b ++ [some lv]) := by
  obtain ⟨lv, hi, hd⟩ := C05_push_ok_exact_obs ext x b b' dt n md (by cases x <;> first | rfl | cases hx)
    (Or.inl (by cases x <;> first | rfl | cases hx)) hwf hnd hshape h
  rw [interpDT_plainScalar ext dt n md x hx] at hi
  split at hi
  · cases hi
  · exact ⟨lv, (liftO_ok_iff _ _).1 hi, hd⟩

/-- **undefined ⇒ rejected at a leaf**: a plain scalar call to which the leaf specification gives no value in the
column (number out of range, wrong kind of call, text the parser refuses …) is never accepted -/
theorem C05_leaf_undefined_rejected (ext : Ext) (x : SVal) (b : B) (dt : DataType) (n : Bool) (md : Metadata)
    (hx : plainScalar x = true) (hwf : WFH b) (hnd : NoDictKey b) (hshape : Shape b dt n md)
    (hu : specLeaf ext dt x = none) : ∀ b', push ext b x ≠ .ok b' := by
  intro b' h
  obtain ⟨lv, hi, _⟩ := C05_leaf_ok_exact ext x b b' dt n md hx hwf hnd hshape h
  rw [hu] at hi; cases hi

/-- **integers out of range, both directions**: a number (integer call of any width, bool, char) outside the range of
an integer column is never accepted -/
theorem C05_int_out_of_range_rejected (ext : Ext) (x : SVal) (v : Int) (b : B) (dt : DataType) (t : IntTy) (n : Bool)
    (md : Metadata) (ht : intColumn dt = some t) (hv : numberOf x = some v) (hout : v < t.min ∨ t.max < v)
    (hwf : WFH b) (hnd : NoDictKey b) (hshape : Shape b dt n md) : ∀ b', push ext b x ≠ .ok b' := by
  have hx : plainScalar x = true := by cases x <;> first | rfl | cases hv
  refine C05_leaf_undefined_rejected ext x b dt n md hx hwf hnd hshape ?_
  cases hs : specLeaf ext dt x with
  | none => rfl
  | some lv =>
    obtain ⟨w, hw, h1, h2, _⟩ := (specLeaf_int_iff ext dt t ht x lv).1 hs
    rw [hv] at hw; cases hw
    omega

/-! ### non-vacuity -/

/-- the leaf table on boundary values of every class: in range / just outside in both directions, bool and char into
integer columns, own-width floats, the exact widening, a lossy narrowing, `to_string()` into a string column, bytes,
a wrong kind of call -/
example : specLeaf {} .int8 (.int .i64 127) = some (.int 127) ∧ specLeaf {} .int8 (.int .i64 128) = none ∧
    specLeaf {} .int8 (.int .i16 (-128)) = some (.int (-128)) ∧ specLeaf {} .int8 (.int .i16 (-129)) = none ∧
    specLeaf {} .uint8 (.int .i8 (-1)) = none ∧ specLeaf {} .uint64 (.int .u64 18446744073709551615) = some (.int 18446744073709551615) ∧
    specLeaf {} .int64 (.int .u64 9223372036854775808) = none ∧
    specLeaf {} .uint8 (.bool true) = some (.int 1) ∧ specLeaf {} .uint16 (.char 955) = some (.int 955) ∧
    specLeaf {} .uint8 (.char 955) = none ∧ specLeaf {} .boolean (.int .u8 1) = none ∧
    specLeaf {} .float64 (.f32 0x3F800000) = some (.float 0x3FF0000000000000) ∧
    specLeaf {} .float32 (.int .i64 16777217) = some (.float 0x4B800000) ∧
    specLeaf {} .float32 (.bool true) = none ∧
    specLeaf {} .largeUtf8 (.int .i16 (-12)) = some (.str (strBytes "-12")) ∧
    specLeaf {} .binary (.bytes [1, 2]) = some (.bin [1, 2]) ∧ specLeaf {} (.fixedSizeBinary 3) (.bytes [1, 2]) = none ∧
    specLeaf {} .date32 (.int .i64 2147483648) = none ∧ specLeaf {} .date32 (.int .i32 18262) = some (.int 18262) ∧
    specLeaf {} (.duration .second) (.int .u64 9223372036854775808) = none ∧
    specLeaf { parseDate := fun _ _ => .ok 18262 } (.dictionary .int8 .date32) (.str "2020-01-01") = some (.int 18262) := by
  decide +kernel

/-- `specLeaf_int_iff` at a concrete cell -/
example : ∃ v, numberOf (.char 65) = some v ∧ IntTy.i8.min ≤ v ∧ v ≤ IntTy.i8.max ∧ (LVal.int 65) = .int v :=
  (specLeaf_int_iff {} .int8 .i8 rfl (.char 65) (.int 65)).1 (by decide)

/-- `C05_int_out_of_range_rejected` / `C05_leaf_undefined_rejected` meet their hypotheses on a fresh `Int8` builder
(every hypothesis discharged): 128 is refused, and so is a float -/
example : ∀ b', push {} (.leaf "$.a" (.int .i8) none []) (.int .i64 128) ≠ .ok b' :=
  C05_int_out_of_range_rejected {} (.int .i64 128) 128 _ .int8 .i8 false [] rfl rfl (Or.inr (by decide))
    (Build.WFH_of_WFB _ (Props.C01.newDT_fresh .int8 "$.a" false [] _ rfl).1)
    (Build.BuiltFor_NoDictKey _ .int8 false (Props.C03.newB_builtFor "$.a" (.mk "" .int8 false []) _ rfl))
    (Props.C01.newDT_shape .int8 "$.a" false [] _ (by decide) rfl)

example : ∀ b', push {} (.leaf "$.a" (.int .i8) none []) (.f32 0) ≠ .ok b' :=
  C05_leaf_undefined_rejected {} (.f32 0) _ .int8 false [] rfl
    (Build.WFH_of_WFB _ (Props.C01.newDT_fresh .int8 "$.a" false [] _ rfl).1)
    (Build.BuiltFor_NoDictKey _ .int8 false (Props.C03.newB_builtFor "$.a" (.mk "" .int8 false []) _ rfl))
    (Props.C01.newDT_shape .int8 "$.a" false [] _ (by decide) rfl) (by decide)

/-- `C05_leaf_ok_exact` on the same builder: 127 is accepted and the row appended is the number 127 -/
example : ∃ lv, specLeaf {} .int8 (.int .i64 127) = some lv ∧
    Refines (decH (.leaf "$.a" (.int .i8) none [127])) (decH (.leaf "$.a" (.int .i8) none []) ++ [some lv]) :=
  C05_leaf_ok_exact {} (.int .i64 127) _ _ .int8 false [] rfl
    (Build.WFH_of_WFB _ (Props.C01.newDT_fresh .int8 "$.a" false [] _ rfl).1)
    (Build.BuiltFor_NoDictKey _ .int8 false (Props.C03.newB_builtFor "$.a" (.mk "" .int8 false []) _ rfl))
    (Props.C01.newDT_shape .int8 "$.a" false [] _ (by decide) rfl) (by decide)

end SaModel.Props.C05

