import SaModel.Props.C07
/-
C06 — a schema traced from samples accepts those same samples.
Model: SaModel/Trace/{Tracer,FromSamples,Leaf}.lean; the builder model is written separately, so the last step of the
closure is stated against an abstract acceptance interface.

Acceptance at a leaf position: `AccLeaf o r a` — the state `r` has absorbed the type `a` (`act o r a = ok r`: tracing
`a` again changes nothing, i.e. `a` is one of the kinds the traced type was widened for).  Proved for sample lists of any
length over the complete leaf alphabet and every option setting: `leaf_absorb_acc` (every sample is accepted by the state
it was traced into), `leaf_acc_mono` (absorbing more keeps acceptance: coercions only widen), `leaf_null_acc` /
`leaf_null_mono` (a `None` / unit sample makes the position nullable and it stays nullable).
Tree level: `Acc` (absorbing the sample again leaves the traced field unchanged), checked by kernel evaluation on a zoo
of nested collections (`acc_on_zoo`: absorb_acc + acc_mono for missing fields, varying key sets, partially seen
variants, nested options, empty lists, tuples of different arity); the general induction is `absorb_acc_partial`.
`C06_closure_partial` is the final step with the builder as a hypothesis.  `C06_tuple_arity[_pinned]` are the repaired /
pinned witnesses of finding #25.
-/
namespace SaModel.Props.C06
open SaModel SaModel.Trace SaModel.Lemmas.C07 SaModel.Props.C07

/-! ### leaf positions -/

/-- the state `r` has absorbed the leaf type `a` -/
def AccLeaf (o : Options) (r : LeafSt) (a : DataType) : Prop := act o r a = .ok r

/-- `absorb_acc` at a leaf position: whatever was traced is accepted by the result -/
theorem leaf_absorb_acc (o : Options) {xs : List DataType} {s r : LeafSt} (hs : s ∈ leafStates o)
    (hx : ∀ a ∈ xs, a ∈ leafTypes o) (h : run o s xs = .ok r) : ∀ a ∈ xs, AccLeaf o r a :=
  run_absorbed o xs s r hs hx h

/-- `acc_mono` at a leaf position: absorbing more samples keeps everything accepted so far accepted -/
theorem leaf_acc_mono (o : Options) {ys : List DataType} {r r' : LeafSt} {a : DataType} (hr : r ∈ leafStates o)
    (ha : a ∈ leafTypes o) (hy : ∀ b ∈ ys, b ∈ leafTypes o) (hacc : AccLeaf o r a) (h : run o r ys = .ok r') :
    AccLeaf o r' a :=
  run_stays o ha ys r r' hr hy hacc h

/-- a null sample (unit; `None` sets the flag directly through `mark`) is always absorbed and makes the position
nullable -/
theorem leaf_null_acc (o : Options) {s : LeafSt} (hs : s ∈ leafStates o) :
    ∃ s', act o s .null = .ok s' ∧ s'.2 = true := by
  have h := table_at nullTable_all o
  unfold nullTable at h
  rw [leafStates_coerceView] at hs
  have hr := List.all_eq_true.mp h s hs
  rw [← act_coerceView] at hr
  cases h1 : act o s .null with
  | ok s' => rw [h1] at hr; exact ⟨s', rfl, hr⟩
  | error e => rw [h1] at hr; cases hr

/-- … and it stays nullable whatever else is absorbed (`nullable_sticky` along a run) -/
theorem leaf_null_mono (o : Options) {ys : List DataType} {r r' : LeafSt} (hr : r ∈ leafStates o)
    (hy : ∀ b ∈ ys, b ∈ leafTypes o) (hn : r.2 = true) (h : run o r ys = .ok r') : r'.2 = true :=
  run_sticky o ys r r' hr hy h hn

/-! ### trees: acceptance as "tracing the sample again changes nothing about the field" -/

/-- `Acc c o t x`: absorbing `x` into `t` once more succeeds and leaves the traced field unchanged -/
def Acc (c : Code) (o : Options) (t : Tracer) (x : SVal) : Prop :=
  ∃ t', absorb c o t x = .ok t' ∧ t'.to_field o = t.to_field o

def AccB (c : Code) (o : Options) (t : Tracer) (x : SVal) : Bool :=
  match absorb c o t x with
  | .ok t' => decide (t'.to_field o = t.to_field o)
  | .error _ => false

theorem AccB_iff (c : Code) (o : Options) (t : Tracer) (x : SVal) : AccB c o t x = true ↔ Acc c o t x := by
  unfold AccB Acc
  cases h : absorb c o t x with
  | ok t' => simp
  | error e => simp

/-- after tracing the whole collection every sample is accepted (absorb_acc and acc_mono together) -/
def closedB (c : Code) (o : Options) (xs : List SVal) : Bool :=
  match absorbAll c o (Tracer.new "$" "$") xs with
  | .ok t => xs.all (AccB c o t)
  | .error _ => true

def i32 (v : Int) : SVal := .int .i32 v
def recOf (fs : List (String × SVal)) : SVal := .record "S" (SFields.ofList (fs.map fun (k, v) => (k, 0, v)))
def mapOf (fs : List (String × SVal)) : SVal := .map (SEntries.ofList (fs.map fun (k, v) => (.str k, v)))
def seqOf (xs : List SVal) : SVal := .seq (SVals.ofList xs)
def tupOf (xs : List SVal) : SVal := .tuple (SVals.ofList xs)

/-- nested collections: fields missing in some samples, maps with varying key sets, partially observed enums, nested
options, empty lists, struct/map mixtures, tuples of different arity, numeric widths -/
def zooCollections : List (List SVal) := [
  [recOf [("a", i32 1)], recOf [("a", i32 1), ("b", .str "x")], recOf []],
  [recOf [("a", .none)], recOf [("a", .some (i32 1))], recOf [("b", seqOf [])]],
  [recOf [("a", seqOf [])], recOf [("a", seqOf [.none, i32 1])], recOf [("a", seqOf [])]],
  [recOf [("m", mapOf [("k1", i32 1)])], recOf [("m", mapOf [("k2", i32 2), ("k1", i32 3)])], recOf [("m", mapOf [])]],
  [recOf [("e", .unitVariant "E" 1 "B")], recOf [("e", .newtypeVariant "E" 2 "C" (i32 1))]],
  [recOf [("e", .structVariant "E" 0 "A" (.cons "x" 0 (i32 1) .nil))], recOf [("e", .structVariant "E" 0 "A" (.cons "y" 0 (.str "s") .nil))]],
  [recOf [("o", .some .none)], recOf [("o", .some (.some (.bool true)))], recOf [("o", .none)]],
  [recOf [("t", tupOf [i32 1, i32 2])], recOf [("t", tupOf [i32 1, i32 2, i32 3])]],
  [recOf [("t", tupOf [i32 1, i32 2, i32 3])], recOf [("t", tupOf [i32 1])]],
  [recOf [("s", recOf [("b", i32 1), ("a", i32 2)])], recOf [("s", mapOf [("b", i32 1), ("c", i32 2)])]],
  [recOf [("n", .int .i8 1)], recOf [("n", .int .u32 7)], recOf [("n", .f32 0)], recOf [("n", .none)]],
  [recOf [("n", .bool true)], recOf [("n", .str "x")], recOf [("n", i32 1)]],
  [recOf [("l", seqOf [recOf [("a", i32 1)], recOf [("b", i32 1)]])], recOf [("l", seqOf [recOf [("a", i32 1), ("b", i32 1)]])]],
  [recOf [("u", .unit)], recOf [("u", i32 1)], recOf [("u", .unitStruct "U")]]
]

def zooOptions : List Options := [
  {}, { allow_null_fields := true }, { allow_null_fields := true, map_as_struct := false },
  { allow_null_fields := true, coerce_numbers := true, allow_to_string := true }
]

set_option maxRecDepth 1000000 in
/-- `absorb_acc` + `acc_mono` on the zoo, repaired code: once a collection has been traced, every one of its samples is
accepted by the resulting tracer, under each option setting -/
theorem acc_on_zoo : zooOptions.all (fun o => zooCollections.all fun xs => closedB .fixed o xs) = true := by
  decide +kernel

/-- the general tree-level statements, for reference:
`absorb_acc : absorb c o t x = ok t' → Acc c o t' x` and `acc_mono : Acc c o t x → absorb c o t y = ok t' → Acc c o t' x`.
Proved here for the top-level constructor cases that need no induction: a `None` sample is accepted by whatever it was
absorbed into (`mark_nullable` is idempotent and does not touch the children).
Missing: the induction over nested samples (struct fields with the `seen_samples` bookkeeping, list items, map entries,
tuple positions, union variants). -/
theorem absorb_acc_partial (c : Code) (o : Options) (t t' : Tracer) (h : absorb c o t .none = .ok t') :
    Acc c o t' .none := by
  simp only [absorb] at h
  cases h
  refine ⟨t.mark_nullable, ?_, rfl⟩
  simp only [absorb]
  cases t <;> rfl

/-! ### the link to the builder, against an abstract acceptance interface -/

/-- what the closure needs from the builder / reader side (`to_marrow` then `from_marrow`): `accepts f x` = a column of
field `f` takes the sample `x` and reads it back.  The builder model (C01/C05) is written separately. -/
structure BuilderInterface where
  accepts : Field → SVal → Prop

/-- the three documented exclusions, as a predicate supplied by the caller (null for an enum-typed position, strings that
only look like dates under `guess_dates`, unsigned values above `i64::MAX` mixed with signed ones) -/
abbrev Excluded := Field → SVal → Prop

/-- `C06_closure_partial`: IF (i) every sample is accepted by the final tracer (`absorb_acc` + `acc_mono`: proved at
leaf positions for all inputs, on the zoo for nested shapes) and (ii) the builder takes, for the field of a tracer,
every non-excluded sample that tracer accepts (the builder-side obligation `Acc → push succeeds and decodes to x`), THEN
tracing succeeds ⇒ the traced root field accepts every sample.
Missing: (i) for arbitrary nested samples and (ii) — the refinement theorem of the builder model; the correspondence
suite found four cells where (ii) is false on the current tree (known findings C06-char-into-float,
C06-to-string-into-dictionary, C06-unseen-first-variant-default, C06-data-less-newtype-variant-as-string). -/
theorem C06_closure_partial (B : BuilderInterface) (excl : Excluded) (c : Code) (o : Options) (xs : List SVal)
    (t : Tracer) (f : Field)
    (hacc : ∀ x ∈ xs, Acc c o t x)
    (hbuilder : ∀ x, Acc c o t x → t.to_field o = .ok f → ¬ excl f x → B.accepts f x)
    (_htrace : fromSamplesTracer c o xs = .ok t) (hf : t.to_field o = .ok f) :
    ∀ x ∈ xs, ¬ excl f x → B.accepts f x :=
  fun x hx hne => hbuilder x (hacc x hx) hf hne

/-! ### finding #25: tuples of different arity -/

set_option maxRecDepth 100000 in
/-- repaired: after tracing `(1,2)` and `(1,2,3)` both samples are accepted and the third field is nullable -/
theorem C06_tuple_arity :
    closedB .fixed {} (itemsOf [wT2, wT3]) = true ∧ closedB .fixed {} (itemsOf [wT3, wT2]) = true ∧
    childNullable (fromSamples .fixed {} (itemsOf [wT2, wT3])) "2" = some true := by decide +kernel

set_option maxRecDepth 100000 in
/-- pinned: the traced schema has a third, NON-nullable field although the first sample lacks it (the builder then
rejects that sample: exhibited on the real crate by the `trace` suite before the fix) -/
theorem C06_tuple_arity_pinned :
    childNullable (fromSamplesPinned {} (itemsOf [wT2, wT3])) "2" = some false := by decide +kernel

end SaModel.Props.C06
