import SaModel.Props.C07
import SaModel.Lemmas.C06Stable
/-
C06 — a schema traced from samples accepts those same samples.
Model: SaModel/Trace/{Tracer,FromSamples,Leaf}.lean.  This file: the tracer-side laws.  The link to the builder model
(C01/C02) — the closure itself — is in SaModel/Props/C06Closure.lean.

Acceptance at a leaf position: `AccLeaf o r a` — the state `r` has absorbed the type `a` (`act o r a = ok r`: tracing
`a` again changes nothing, i.e. `a` is one of the kinds the traced type was widened for).  Proved for sample lists of any
length over the complete leaf alphabet and every option setting: `leaf_absorb_acc` (every sample is accepted by the state
it was traced into), `leaf_acc_mono` (absorbing more keeps acceptance: coercions only widen), `leaf_null_acc` /
`leaf_null_mono` (a `None` / unit sample makes the position nullable and it stays nullable).
Tree level: `Acc c o t x` (absorbing the sample again leaves the traced field unchanged) and its inductive strengthening
`AccS c o t x` (`t` is well formed and EVERY tracer reachable from `t` by absorbing further samples absorbs `x` again
with no change except the struct sample counters; `AccS_Acc : AccS → Acc`).  Proved by induction over nested samples,
for every sample constructor (leaves, `None`/`Some`, newtype structs, sequences, tuples and tuple structs, structs, maps
in both modes, raw key/value streams, the four variant kinds), every option setting and both codes (repaired, pinned):
`absorb_acc` (a sample is stably accepted by the tracer it was absorbed into), `acc_mono` (acceptance survives any
further successful absorption), `fromSamples_acc` (after `from_samples` every sample of the collection is accepted by
the final tracer).  The only hypothesis is the reachable-state invariant `WF` of the start tracer (`WF_new`: a fresh
tracer has it; `absorb_acc_needs_wf`: the law is false for an ill-formed tracer).  Lemmas: SaModel/Lemmas/C06*.lean.
`acc_on_zoo` evaluates the same statement on a zoo of nested collections.
`C06_tuple_arity[_pinned]` are the repaired / pinned witnesses of finding #25.
-/
namespace SaModel.Props.C06
open SaModel SaModel.Trace SaModel.Lemmas.C07 SaModel.Props.C07 SaModel.Lemmas.C06

/-! ### leaf positions -/

/-- the state `r` has absorbed the leaf type `a` -/
def AccLeaf (o : Options) (r : LeafSt) (a : DataType) : Prop := act o r a = .ok r

/-- `absorb_acc` at a leaf position: whatever was traced is accepted by the result -/
theorem leaf_absorb_acc (o : Options) {xs : List DataType} {s r : LeafSt} (hs : s ∈ leafStates o)
    (hx : ∀ a ∈ xs, a ∈ leafTypes o) (h : run o s xs = .ok r) : ∀ a ∈ xs, AccLeaf o r a :=
  run_absorbed o xs s r hs hx h

/-- `acc_mono` at a leaf position: absorbing more samples keeps everything accepted so far accepted -/
theorem leaf_acc_mono (o : Options) {ys : List DataType} {r r' : LeafSt} {a : DataType} (hr : r ∈ leafStates o)
    (ha : a ∈ leafTypes o) (hy : ∀ b ∈ ys, b ∈ leafTypes o) (hacc : AccLeaf o r a) (h : run o r ys = .ok r') :
    AccLeaf o r' a :=
  run_stays o ha ys r r' hr hy hacc h

/-- a null sample (unit; `None` sets the flag directly through `mark`) is always absorbed and makes the position
nullable -/
theorem leaf_null_acc (o : Options) {s : LeafSt} (hs : s ∈ leafStates o) :
    ∃ s', act o s .null = .ok s' ∧ s'.2 = true := by
  have h := table_at nullTable_all o
  unfold nullTable at h
  rw [leafStates_coerceView] at hs
  have hr := List.all_eq_true.mp h s hs
  rw [← act_coerceView] at hr
  cases h1 : act o s .null with
  | ok s' => rw [h1] at hr; exact ⟨s', rfl, hr⟩
  | error e => rw [h1] at hr; cases hr

/-- … and it stays nullable whatever else is absorbed (`nullable_sticky` along a run) -/
theorem leaf_null_mono (o : Options) {ys : List DataType} {r r' : LeafSt} (hr : r ∈ leafStates o)
    (hy : ∀ b ∈ ys, b ∈ leafTypes o) (hn : r.2 = true) (h : run o r ys = .ok r') : r'.2 = true :=
  run_sticky o ys r r' hr hy h hn

/-! ### trees: acceptance as "tracing the sample again changes nothing about the field" -/

/-- `Acc c o t x`: absorbing `x` into `t` once more succeeds and leaves the traced field unchanged -/
def Acc (c : Code) (o : Options) (t : Tracer) (x : SVal) : Prop :=
  ∃ t', absorb c o t x = .ok t' ∧ t'.to_field o = t.to_field o

def AccB (c : Code) (o : Options) (t : Tracer) (x : SVal) : Bool :=
  match absorb c o t x with
  | .ok t' => decide (t'.to_field o = t.to_field o)
  | .error _ => false

theorem AccB_iff (c : Code) (o : Options) (t : Tracer) (x : SVal) : AccB c o t x = true ↔ Acc c o t x := by
  unfold AccB Acc
  cases h : absorb c o t x with
  | ok t' => simp
  | error e => simp

/-- after tracing the whole collection every sample is accepted (absorb_acc and acc_mono together) -/
def closedB (c : Code) (o : Options) (xs : List SVal) : Bool :=
  match absorbAll c o (Tracer.new "$" "$") xs with
  | .ok t => xs.all (AccB c o t)
  | .error _ => true

def i32 (v : Int) : SVal := .int .i32 v
def recOf (fs : List (String × SVal)) : SVal := .record "S" (SFields.ofList (fs.map fun (k, v) => (k, 0, v)))
def mapOf (fs : List (String × SVal)) : SVal := .map (SEntries.ofList (fs.map fun (k, v) => (.str k, v)))
def seqOf (xs : List SVal) : SVal := .seq (SVals.ofList xs)
def tupOf (xs : List SVal) : SVal := .tuple (SVals.ofList xs)

/-- nested collections: fields missing in some samples, maps with varying key sets, partially observed enums, nested
options, empty lists, struct/map mixtures, tuples of different arity, numeric widths -/
def zooCollections : List (List SVal) := [
  [recOf [("a", i32 1)], recOf [("a", i32 1), ("b", .str "x")], recOf []],
  [recOf [("a", .none)], recOf [("a", .some (i32 1))], recOf [("b", seqOf [])]],
  [recOf [("a", seqOf [])], recOf [("a", seqOf [.none, i32 1])], recOf [("a", seqOf [])]],
  [recOf [("m", mapOf [("k1", i32 1)])], recOf [("m", mapOf [("k2", i32 2), ("k1", i32 3)])], recOf [("m", mapOf [])]],
  [recOf [("e", .unitVariant "E" 1 "B")], recOf [("e", .newtypeVariant "E" 2 "C" (i32 1))]],
  [recOf [("e", .structVariant "E" 0 "A" (.cons "x" 0 (i32 1) .nil))], recOf [("e", .structVariant "E" 0 "A" (.cons "y" 0 (.str "s") .nil))]],
  [recOf [("o", .some .none)], recOf [("o", .some (.some (.bool true)))], recOf [("o", .none)]],
  [recOf [("t", tupOf [i32 1, i32 2])], recOf [("t", tupOf [i32 1, i32 2, i32 3])]],
  [recOf [("t", tupOf [i32 1, i32 2, i32 3])], recOf [("t", tupOf [i32 1])]],
  [recOf [("s", recOf [("b", i32 1), ("a", i32 2)])], recOf [("s", mapOf [("b", i32 1), ("c", i32 2)])]],
  [recOf [("n", .int .i8 1)], recOf [("n", .int .u32 7)], recOf [("n", .f32 0)], recOf [("n", .none)]],
  [recOf [("n", .bool true)], recOf [("n", .str "x")], recOf [("n", i32 1)]],
  [recOf [("l", seqOf [recOf [("a", i32 1)], recOf [("b", i32 1)]])], recOf [("l", seqOf [recOf [("a", i32 1), ("b", i32 1)]])]],
  [recOf [("u", .unit)], recOf [("u", i32 1)], recOf [("u", .unitStruct "U")]]
]

def zooOptions : List Options := [
  {}, { allow_null_fields := true }, { allow_null_fields := true, map_as_struct := false },
  { allow_null_fields := true, coerce_numbers := true, allow_to_string := true }
]

set_option maxRecDepth 1000000 in
/-- `absorb_acc` + `acc_mono` on the zoo, repaired code: once a collection has been traced, every one of its samples is
accepted by the resulting tracer, under each option setting -/
theorem acc_on_zoo : zooOptions.all (fun o => zooCollections.all fun xs => closedB .fixed o xs) = true := by
  decide +kernel

/-! ### the tree-level laws, by induction over nested samples (`SaModel/Lemmas/C06Stable.lean`) -/

/-- `AccS c o t x` (stable acceptance, the inductive strengthening of `Acc`): `t` satisfies the reachable-state invariant
and every tracer reachable from `t` by absorbing further samples absorbs `x` once more with no change except the sample
counters of struct nodes (`erase` forgets `seen_samples` / `last_seen_in_sample`) -/
def AccS (c : Code) (o : Options) (t : Tracer) (x : SVal) : Prop :=
  WF o t ∧ ∀ t2, Steps c o t t2 → ∃ t3, absorb c o t2 x = .ok t3 ∧ erase t3 = erase t2

/-- stable acceptance implies acceptance: absorbing `x` again leaves the traced field unchanged -/
theorem AccS_Acc {c : Code} {o : Options} {t : Tracer} {x : SVal} (h : AccS c o t x) : Acc c o t x := by
  obtain ⟨t3, h1, h2⟩ := h.2 t (Steps.refl c o t)
  exact ⟨t3, h1, to_field_of_erase_eq o h2⟩

/-- `absorb_acc`: whatever sample was absorbed into a (well-formed) tracer is stably accepted by the result.
All sample constructors, all options, both codes. -/
theorem absorb_acc (c : Code) (o : Options) {t t' : Tracer} {x : SVal} (hw : WF o t) (h : absorb c o t x = .ok t') :
    AccS c o t' x :=
  ⟨absorb_wf c o x t t' hw h, fun t2 hs => absorb_stable c o x t t' hw h t2 (hs.wf (absorb_wf c o x t t' hw h)) hs⟩

/-- acceptance survives every chain of further absorptions -/
theorem AccS_steps {c : Code} {o : Options} {t t' : Tracer} {x : SVal} (h : AccS c o t x) (hs : Steps c o t t') :
    AccS c o t' x :=
  ⟨hs.wf h.1, fun t2 hs2 => h.2 t2 (hs.trans hs2)⟩

/-- `acc_mono`: absorbing one more sample keeps everything accepted so far accepted (nullable is sticky, coercions only
widen, fields only appear, `Unknown` only upgrades) -/
theorem acc_mono {c : Code} {o : Options} {t t' : Tracer} {x y : SVal} (h : AccS c o t x)
    (hy : absorb c o t y = .ok t') : AccS c o t' x :=
  AccS_steps h (Steps.single hy)

theorem absorbAll_acc (c : Code) (o : Options) : ∀ (xs : List SVal) (t0 t : Tracer), WF o t0 →
    absorbAll c o t0 xs = .ok t → ∀ x ∈ xs, AccS c o t x
  | [], _, _, _, _ => by simp
  | y :: ys, t0, t, hw, h => by
    rw [absorbAll_cons] at h
    cases ha : absorb c o t0 y with
    | error e => rw [ha] at h; cases h
    | ok t1 =>
      rw [ha] at h
      intro x hx
      rcases List.mem_cons.mp hx with rfl | hx
      · exact AccS_steps (absorb_acc c o hw ha) ⟨ys, h⟩
      · exact absorbAll_acc c o ys t1 t (absorb_wf c o y t0 t1 hw ha) h x hx

theorem fromSamplesTracer_absorbAll {c : Code} {o : Options} {xs : List SVal} {t : Tracer}
    (h : fromSamplesTracer c o xs = .ok t) : absorbAll c o (Tracer.new "$" "$") xs = .ok t := by
  unfold fromSamplesTracer at h
  cases ha : absorbAll c o (Tracer.new "$" "$") xs with
  | error e => rw [ha] at h; cases h
  | ok t0 =>
    rw [ha] at h
    simp only [Tracer.finish, bind, Except.bind] at h
    cases hc : t0.check o with
    | error e => rw [hc] at h; cases h
    | ok u => rw [hc] at h; cases h; rfl

/-- `fromSamples_acc`: when `from_samples` succeeds, every sample of the collection is (stably) accepted by the final
tracer — law 1 and law 2 together, for sample collections of any length and nesting -/
theorem fromSamples_acc (c : Code) (o : Options) (xs : List SVal) (t : Tracer)
    (h : fromSamplesTracer c o xs = .ok t) : ∀ x ∈ xs, AccS c o t x :=
  absorbAll_acc c o xs _ t (WF_new o _ _) (fromSamplesTracer_absorbAll h)

theorem fromSamples_Acc (c : Code) (o : Options) (xs : List SVal) (t : Tracer)
    (h : fromSamplesTracer c o xs = .ok t) : ∀ x ∈ xs, Acc c o t x :=
  fun x hx => AccS_Acc (fromSamples_acc c o xs t h x hx)

/-- a nested sample: struct with a list of options, a map, a tuple, a tuple variant and a struct variant -/
def wNested : SVal :=
  recOf [("l", seqOf [.none, .some (i32 1)]), ("m", mapOf [("k", .str "v")]), ("t", tupOf [i32 1, .bool true]),
    ("e", .tupleVariant "E" 1 "B" (.cons (i32 1) .nil)), ("s", .structVariant "F" 0 "A" (.cons "x" 0 (.f64 0) .nil))]

set_option maxRecDepth 100000 in
/-- non-vacuity of `absorb_acc`: the nested sample is absorbed by a fresh tracer, hence stably accepted by the result -/
example : (absorb .fixed {} (Tracer.new "$" "$") wNested).isOk = true ∧
    ∀ t', absorb .fixed {} (Tracer.new "$" "$") wNested = .ok t' → AccS .fixed {} t' wNested :=
  ⟨by decide +kernel, fun _ h => absorb_acc .fixed {} (WF_new _ _ _) h⟩

set_option maxRecDepth 100000 in
/-- non-vacuity of `acc_mono`: a second, different sample (missing fields, another variant) is absorbed after the first -/
example : (absorbAll .fixed {} (Tracer.new "$" "$") [wNested, recOf [("l", seqOf []), ("e", .unitVariant "E" 0 "A")]]).isOk
      = true ∧
    ∀ t1 t2, absorb .fixed {} (Tracer.new "$" "$") wNested = .ok t1 →
      absorb .fixed {} t1 (recOf [("l", seqOf []), ("e", .unitVariant "E" 0 "A")]) = .ok t2 →
      AccS .fixed {} t2 wNested :=
  ⟨by decide +kernel, fun _ _ h1 h2 => acc_mono (absorb_acc .fixed {} (WF_new _ _ _) h1) h2⟩

set_option maxRecDepth 100000 in
/-- non-vacuity of `fromSamples_acc`: a collection with fields missing in some samples traces successfully -/
example : (fromSamplesTracer .fixed { allow_null_fields := true }
      [recOf [("a", i32 1)], recOf [("a", .none), ("b", seqOf [])], recOf []]).isOk = true := by decide +kernel

/-- an ill-formed tracer: two fields of the same name whose counters equal `seen_samples` (unreachable: names are unique
and `StructTracer::end` leaves every counter below `seen_samples`) -/
def wIllFormed : Tracer :=
  .struct "$" "$" false
    (.cons "a" 5 (.primitive "a" "$.a" false .int32 none) (.cons "a" 5 (.primitive "a" "$.a" false .int32 none) .nil))
    .struct 5

set_option maxRecDepth 100000 in
/-- the hypothesis `WF` of `absorb_acc` cannot be dropped: from the ill-formed tracer the sample is absorbed, but
absorbing it again makes the shadowed second field nullable -/
theorem absorb_acc_needs_wf :
    (match absorb .fixed {} wIllFormed (recOf [("a", i32 1)]) with
     | .ok t' => AccB .fixed {} t' (recOf [("a", i32 1)])
     | .error _ => true) = false := by decide +kernel

/-! ### the link to the builder

The chain is closed in `SaModel/Props/C06Closure.lean` (namespace `SaModel.Props.C06`): `acc_interp` / `fromSamples_interp` /
`fromSamples_interpRow` (tracer ⇒ documented mapping), `to_schema_typed` (traced schemas are well typed and `total`), `C06_closure_build` (trace ⇒ `to_marrow` succeeds),
`C06_closure_decode` (the arrays decode to the samples), `C06_closure_physical`, `C06_closure_readback`, the composition `C06_closure`
(every option, dictionary encoding included; no `Safe`, no array-side hypothesis).  No theorem of this file states the
closure against an abstract builder interface. -/

/-! ### finding #25: tuples of different arity -/

set_option maxRecDepth 100000 in
/-- repaired: after tracing `(1,2)` and `(1,2,3)` both samples are accepted and the third field is nullable -/
theorem C06_tuple_arity :
    closedB .fixed {} (itemsOf [wT2, wT3]) = true ∧ closedB .fixed {} (itemsOf [wT3, wT2]) = true ∧
    childNullable (fromSamples .fixed {} (itemsOf [wT2, wT3])) "2" = some true := by decide +kernel

set_option maxRecDepth 100000 in
/-- pinned: the traced schema has a third, NON-nullable field although the first sample lacks it (the builder then
rejects that sample: exhibited on the real crate by the `trace` suite before the fix) -/
theorem C06_tuple_arity_pinned :
    childNullable (fromSamplesPinned {} (itemsOf [wT2, wT3])) "2" = some false := by decide +kernel

end SaModel.Props.C06
