import SaModel.Props.C06
import SaModel.Lemmas.C06Interp
import SaModel.Lemmas.C06Side
import SaModel.Lemmas.C06NewRoot
import SaModel.Props.C01CompleteObs
import SaModel.Props.C01
import SaModel.Props.C02
import SaModel.Props.C03Read
import SaModel.Lemmas.C06Readable
import SaModel.Lemmas.C06Typed
import SaModel.Lemmas.C06SafeT
import SaModel.Lemmas.C06Phys
import SaModel.Lemmas.C06PhysSize
/-
C06 — a schema traced from samples accepts those same samples: the chain closed end to end.

  acc_interp            tracer ⇒ documented mapping, one position: a sample that was absorbed into a (reachable) tracer is
                        mapped by `Spec.interp` at the field of EVERY tracer reachable from there, unless it is excluded
  fromSamples_interp    the same for a traced collection: every sample of the collection, at the traced root field
  fromSamples_interpRow … in the form the builder theorems use (`Spec.interpRow` against the traced schema)
  to_schema_typed       every traced schema is well typed (`typedFs`), `total` and keyed by UInt32
  C06_closure_build     trace ⇒ build: `to_marrow` with the traced schema SUCCEEDS on the whole collection
                        (`Props.C01.toMarrow_complete'`, ALL schema hypotheses discharged: input-side hypotheses + capacity)
  C06_closure_decode    whenever `to_marrow` returns arrays, they decode (Arrow reading rules) column by column to
                        `interpRow` of the samples (`Props.C01.C01_build_decode'`)
  C06_closure_physical  the size precondition `Read.physical` of the reader holds for the arrays built from a traced schema, EVERY
                        option (dictionary-encoded strings included), when there are at most `i64::MAX` samples
                        (`Props.C03.toMarrow_physical`: the builders' counting invariant; a traced schema has no FixedSizeList)
  C06_closure_readback  … and `deserialize_any` on the arrays returns those logical values — NO reader-side hypothesis, every
                        option (`Props.C03.toMarrow_readAny_of_physical` + `C06_closure_physical`); input-side size hypothesis
                        `xs.length ≤ i64::MAX`.  `C06_closure_readback_nodict`: options without dictionary-encoded strings, no
                        size hypothesis at all (`Read.physical` from `Spec.WFS`: `Props.C03.wf_physical_plain`)
  C06_closure           the composition, EVERY option: hypotheses on the input only (capacity `Σ vsize ≤ 2^31 - 1`)
No theorem of this file carries C01's `Safe`: the builder side is the hidden-rows refinement of Props/C01Obs.lean /
Props/C01CompleteObs.lean (`toMarrow_complete'`, `C01_build_decode'`, `C03_wfS'` in its alternative `coveredF`).  `safeSchema` is
defined below only to state what a `Safe` hypothesis would exclude (`safeSchema_can_fail`, an instance of `C06_closure`).

Exclusions, each an explicit decidable predicate on (data type of the traced field, sample) — `Lemmas/C06Excl.lean`:
the three DOCUMENTED ones `nullAtEnum`, `dateLookalike`, `u64AboveI64`; the known finding `dataLessNewtype`; lifted to
nested samples by `hits` (some position the mapping visits).  (The finding of this proof, a unit struct at a position not of
type Null, is repaired — repo fix ae2fc46, `unitStruct_accepted` / `unitStruct_pinned` — and is not an exclusion.)  On the builder
side: only the capacity bound `Σ vsize ≤ 2^31 - 1`.  `total` and `typedFs` are theorems (`to_schema_typed`;
the traced instance of `total`, finding `C06-unseen-first-variant-default`, is repaired — repo fix 837fa53).  `excl_*_needed`: each exclusion is needed (a traced collection whose
sample the mapping refuses exactly there).
Repaired code (`Code.fixed`), options without overwrites (an overwrite replaces a traced field by an arbitrary one).
-/
namespace SaModel.Props.C06
open SaModel SaModel.Spec SaModel.Build SaModel.Trace SaModel.Lemmas.C06

/-- well-formedness of a sample as a serde value (`Lemmas/C06Excl.lean`) -/
abbrev SampleOK (o : Options) (x : SVal) : Prop := sampleOK o.map_as_struct x = true

/-- the sample meets one of the exclusions at some position (field-level) -/
abbrev ExcludedAt (ext : Ext) (f : Field) (x : SVal) : Bool := Lemmas.C06.Excluded ext f x

/-- the same against a root schema -/
def excludedRow (ext : Ext) (fields : List Field) (x : SVal) : Bool :=
  hits (exclAny ext) (.struct (Fields.ofList fields)) x

/-- **`acc_interp`** (tracer ⇒ documented mapping).  `x` was absorbed into a tracer `t0` satisfying the reachable-state
invariant, `t` is ANY tracer reachable from the result by absorbing further samples, `f` its field: the documented
mapping of `x` at `f` is defined — for every sample constructor, at any nesting — unless `x` is not a well-formed serde
value or one of the exclusions holds at some position. -/
theorem acc_interp (o : Options) (ext : Ext) (h0 : o.overwrites = []) {t0 t1 t : Tracer} {x : SVal} {f : Field}
    (hinv : Inv o t0) (habs : absorb .fixed o t0 x = .ok t1) (hsteps : Steps .fixed o t1 t)
    (hf : t.to_field o = .ok f) (hok : SampleOK o x) (hex : ExcludedAt ext f x = false) :
    ∃ lv, interp ext f x = .ok lv := by
  obtain ⟨lv, hlv⟩ := PI_all o ext h0 x t0 t1 hinv habs t hsteps f hf hok hex
  exact ⟨lv, by cases f; exact hlv⟩

/-- the tracer `from_samples` returns satisfies the invariant -/
theorem fromSamples_inv {o : Options} {xs : List SVal} {t : Tracer} (h : fromSamplesTracer .fixed o xs = .ok t) :
    Inv o t :=
  steps_inv (Inv_new o "$" "$") ⟨xs, fromSamplesTracer_absorbAll h⟩

/-- **`fromSamples_interp`**: after `from_samples`, the traced root field maps every sample of the collection -/
theorem fromSamples_interp (o : Options) (ext : Ext) (h0 : o.overwrites = []) {xs : List SVal} {t : Tracer} {f : Field}
    (h : fromSamplesTracer .fixed o xs = .ok t) (hf : t.to_field o = .ok f) :
    ∀ x ∈ xs, SampleOK o x → ExcludedAt ext f x = false → ∃ lv, interp ext f x = .ok lv := by
  intro x hx hok hex
  have hm := absorbAll_PI o ext xs (fun v _ => PI_all o ext h0 v) _ t (Inv_new o "$" "$")
    (fromSamplesTracer_absorbAll h) x hx
  obtain ⟨lv, hlv⟩ := hm t (Steps.refl _ _ _) f hf hok hex
  exact ⟨lv, by cases f; exact hlv⟩

/-- the strategy metadata of a struct field is irrelevant for the mapping -/
theorem interpDT_struct_md (ext : Ext) (fs : Fields) (n : Bool) (md md' : Metadata) :
    ∀ x : SVal, interpDT ext (.struct fs) n md x = interpDT ext (.struct fs) n md' x
  | .some v => by rw [interpDT, interpDT]; exact interpDT_struct_md ext fs n md md' v
  | .newtypeStruct _ v => by rw [interpDT, interpDT]; exact interpDT_struct_md ext fs n md md' v
  | .none => by simp [interpDT, interpNull, isUnknownVariant]
  | .unit => by simp [interpDT, interpNull, isUnknownVariant]
  | .bool _ => by simp [interpDT, isUnknownVariant]
  | .int _ _ => by simp [interpDT, isUnknownVariant]
  | .f32 _ => by simp [interpDT, isUnknownVariant]
  | .f64 _ => by simp [interpDT, isUnknownVariant]
  | .char _ => by simp [interpDT, isUnknownVariant]
  | .str _ => by simp [interpDT, isUnknownVariant]
  | .bytes _ => by simp [interpDT, isUnknownVariant]
  | .seq _ => by simp [interpDT, isUnknownVariant]
  | .tuple _ => by simp [interpDT, isUnknownVariant]
  | .tupleStruct _ _ => by simp [interpDT, isUnknownVariant]
  | .unitStruct _ => by simp [interpDT, interpNull, isUnknownVariant]
  | .record _ _ => by simp [interpDT, isUnknownVariant]
  | .map _ => by simp [interpDT, isUnknownVariant]
  | .mapRaw _ => by simp [interpDT, isUnknownVariant]
  | .unitVariant _ _ _ => by simp [interpDT]
  | .newtypeVariant _ _ _ _ => by simp [interpDT]
  | .tupleVariant _ _ _ _ => by simp [interpDT]
  | .structVariant _ _ _ _ => by simp [interpDT]

/-- the tracer and its root field behind a traced schema -/
theorem fromSamples_root {o : Options} {xs : List SVal} {fields : List Field} (h : fromSamples .fixed o xs = .ok fields) :
    ∃ t n children md, fromSamplesTracer .fixed o xs = .ok t ∧ t.to_schema o = .ok fields ∧
      t.to_field o = .ok (.mk n (.struct children) false md) ∧ fields = children.toList := by
  unfold fromSamples at h
  cases ht : fromSamplesTracer .fixed o xs with
  | error e => rw [ht] at h; cases h
  | ok t =>
    rw [ht] at h
    have h : t.to_schema o = .ok fields := h
    obtain ⟨n, children, md, hr, hfe⟩ := to_schema_ok o t fields h
    exact ⟨t, n, children, md, rfl, h, hr, hfe⟩

/-- **`fromSamples_interpRow`**: the traced schema maps every sample of the collection it was traced from
(`Spec.interpRow`: the form the builder theorems of C01 use) -/
theorem fromSamples_interpRow (o : Options) (ext : Ext) (h0 : o.overwrites = []) {xs : List SVal} {fields : List Field}
    (h : fromSamples .fixed o xs = .ok fields) :
    ∀ x ∈ xs, SampleOK o x → excludedRow ext fields x = false → ∃ lv, interpRow ext fields x = .ok lv := by
  obtain ⟨t, n, children, md, ht, _, hr, rfl⟩ := fromSamples_root h
  intro x hx hok hex
  have hofl : Fields.ofList children.toList = children := Roundtrip.ofList_toList' children
  obtain ⟨lv, hlv⟩ := fromSamples_interp o ext h0 ht hr x hx hok (by
    simpa [ExcludedAt, Lemmas.C06.Excluded, excludedRow, Field.dataType, hofl] using hex)
  refine ⟨lv, ?_⟩
  simp only [interp] at hlv
  rw [interpRow, hofl, interpDT_struct_md ext children false [] md x]
  exact hlv

/-! ### trace ⇒ build -/

/-- the tracer behind a traced schema has a seen variant in each union node (`Lemmas/C06Seen.lean`) -/
theorem fromSamples_us {o : Options} {xs : List SVal} {t : Tracer} (h : fromSamplesTracer .fixed o xs = .ok t) : US t :=
  fromSamplesTracer_us o xs (fromSamplesTracer_absorbAll h)

/-- **`to_schema_typed`** (with `total` and the key types): every schema `from_samples` traces (repaired code, no
overwrites) is
  * well typed — `typedFs`: sizes are `i32`, union type ids `i8` values (the tracer never emits FixedSizeBinary /
    FixedSizeList; `UnionTracer::to_field` refuses a 129th variant, so an emitted Union has the type ids 0 … ≤ 127);
  * `total` — `totalFs`, in its form after repo fix 837fa53: a nullable struct's children take `serialize_default`.  Derived
    from the tracer's shape: a traced `Null` field is never an `UnknownVariant` placeholder outside a union, a Union traced
    from samples has a seen variant (`US`), and a seen variant's field takes `serialize_default` (induction).  So `total`
    CANNOT fail for a traced schema: no instance of the repaired finding `C06-unseen-first-variant-default` exists;
  * keyed by UInt32 wherever it has a dictionary (`wideFs`). -/
theorem to_schema_typed (o : Options) (h0 : o.overwrites = []) {xs : List SVal} {fields : List Field}
    (h : fromSamples .fixed o xs = .ok fields) :
    Lemmas.C03.typedFs (Fields.ofList fields) = true ∧ totalFs (Fields.ofList fields) = true ∧
      wideFs (Fields.ofList fields) = true := by
  obtain ⟨t, n, children, md, ht, hs, _, _⟩ := fromSamples_root h
  exact to_schema_good o h0 t (fromSamples_inv ht).1 (fromSamples_us ht) fields hs

/-- C01's `Safe` as a DECIDABLE predicate on the schema (`Lemmas/C06SafeS.lean`): no dictionary with non-nullable keys
where a nullable struct's `serialize_default` can reach it (through struct children and the first real variant of a
union).  NOT a hypothesis of any theorem of this file — defined (with `fromSamples_safe_iff`, `fromSamples_safeSchema`,
`safeSchema_can_fail`) to state what a `Safe` hypothesis would exclude and the closure theorems cover. -/
def safeSchema (fields : List Field) : Bool := Lemmas.C06.safeFs (Fields.ofList fields)

/-- for a traced schema, C01's `Safe` of the fresh root builder IS `safeSchema` (exact) -/
theorem fromSamples_safe_iff (o : Options) (h0 : o.overwrites = []) {xs : List SVal} {fields : List Field}
    (h : fromSamples .fixed o xs = .ok fields) {root0 : B} (hnew : newRoot fields = .ok root0) :
    Safe root0 ↔ safeSchema fields = true := by
  obtain ⟨t, n, children, md, ht, hs, _, _⟩ := fromSamples_root h
  exact newRoot_safe_iff (to_schema_side_of_WF o h0 t (fromSamples_inv ht).wf fields hs).2 hnew

/-- **`Safe` for traced schemas**: when no option asks for dictionary-encoded strings, every traced schema — unions
included — is `safeSchema` (there is no Dictionary field at all) -/
theorem fromSamples_safeSchema (o : Options) (h0 : o.overwrites = []) (hd : o.string_dictionary_encoding = false)
    (he : o.enums_without_data_as_strings = false) {xs : List SVal} {fields : List Field}
    (h : fromSamples .fixed o xs = .ok fields) : safeSchema fields = true := by
  obtain ⟨t, n, children, md, ht, hs, _, _⟩ := fromSamples_root h
  exact to_schema_safeFs o h0 hd he t (fromSamples_inv ht).wf fields hs

/-- **the capacity bound in closed form**: the head room of the fresh builder of a traced schema is `i32::MAX`
(nothing is used, and the dictionaries the tracer emits have UInt32 keys: 2^32 free keys) -/
theorem fromSamples_room (o : Options) (h0 : o.overwrites = []) {xs : List SVal} {fields : List Field}
    (h : fromSamples .fixed o xs = .ok fields) {root0 : B} (hnew : newRoot fields = .ok root0) :
    room root0 = 2147483647 :=
  fresh_room root0 _ false (newRoot_fresh hnew).2.2 (Props.C03.newRoot_builtFor fields root0 hnew)
    (by simpa [wideDT] using (to_schema_typed o h0 h).2.2)

/-- **`C06_closure_build`** (trace ⇒ build).  Whenever tracing a schema from the collection `xs` succeeds,
`to_marrow ext fields xs` with the traced schema SUCCEEDS — every `push` is accepted and `build_arrays` cannot fail.
Hypotheses, all explicit and decidable:
  `hok`    the samples are serde values a Rust program can produce (`sampleOK`);
  `hex`    none of the exclusions: the three documented ones and `dataLessNewtype` (known finding);
  `hcap`   capacity in closed form: the sizes of the samples sum to at most `i32::MAX = 2^31 - 1` (`fromSamples_room`).
ONLY input-side hypotheses + capacity.  NOT hypotheses: C01's `Safe` (`safeSchema fields`; the
builder side is `Props.C01.toMarrow_complete'`, the completeness theorem on the weak state invariant — a traced schema
with a non-nullable dictionary-encoded string inside an `Option<struct>`, `safeSchema_can_fail`, is covered), `total` and the
typing invariant `typedFs` (`to_schema_typed`), that `build_builder` accepts the schema (`newRoot_traced`), the C01 side
conditions (`to_schema_side_of_WF`: `coveredF` is what `toMarrow_complete'` asks of the schema). -/
theorem C06_closure_build (o : Options) (ext : Ext) (h0 : o.overwrites = []) (xs : List SVal) (fields : List Field)
    (h : fromSamples .fixed o xs = .ok fields)
    (hok : ∀ x ∈ xs, SampleOK o x) (hex : ∀ x ∈ xs, excludedRow ext fields x = false)
    (hcap : (xs.map (vsize ext)).sum ≤ 2147483647) :
    ∃ arrs, toMarrow ext fields xs = .ok arrs := by
  obtain ⟨t, n, children, md, ht, hs, _, _⟩ := fromSamples_root h
  have hside := to_schema_side_of_WF o h0 t (fromSamples_inv ht).wf fields hs
  obtain ⟨root0, hnew⟩ := newRoot_traced o h0 t (fromSamples_inv ht) fields hs
  obtain ⟨htyped, htot, _⟩ := to_schema_typed o h0 h
  exact Props.C01.toMarrow_complete' ext fields xs root0 hside.2 hnew htot htyped
    (fun r hr => ⟨sampleOK_noRaw _ r (hok r hr), fromSamples_interpRow o ext h0 h r hr (hok r hr) (hex r hr)⟩)
    (by rw [fromSamples_room o h0 h hnew]; exact hcap)

/-! ### build ⇒ the arrays mean the samples -/

/-- **`C06_closure_decode`**.  Whenever `to_marrow` with the traced schema returns arrays for the collection, there is one
array per traced field and slot `i` of the arrays, read by the Arrow rules (`Spec.decodeAll`), is column by column the
documented value of sample `i`.  The schema side conditions of `C01_build_decode'` (`SchemaOKF`, `coveredF`) are
discharged from the shape of traced schemas (`Lemmas/C06Side.lean`); no `Safe`. -/
theorem C06_closure_decode (o : Options) (ext : Ext) (h0 : o.overwrites = []) (xs : List SVal) (fields : List Field)
    (arrs : List Arr) (h : fromSamples .fixed o xs = .ok fields)
    (hok : ∀ x ∈ xs, SampleOK o x)
    (hm : toMarrow ext fields xs = .ok arrs) :
    arrs.length = fields.length ∧
    ∃ cols : List (String × List LVal),
      arrs.map decodeAll = cols.map (fun c => c.2.map .ok) ∧
      cols.map (·.1) = fields.map (·.name) ∧
      (∀ c ∈ cols, c.2.length = xs.length) ∧
      ∀ (i : Nat) (hi : i < xs.length),
        interpRow ext fields xs[i] = .ok (.struct (LFields.ofList (cols.map fun c => (c.1, c.2.getD i .null)))) := by
  obtain ⟨t, n, children, md, ht, hs, _, _⟩ := fromSamples_root h
  have hside := to_schema_side_of_WF o h0 t (fromSamples_inv ht).wf fields hs
  exact Props.C01.C01_build_decode' ext fields xs arrs hside.1 hside.2
    (fun x hx => Build.noRaw_ssa x (sampleOK_noRaw _ x (hok x hx))) (Or.inl fun x hx => sampleOK_noRaw _ x (hok x hx)) hm

/-- the traced schema is one the reader supports (`Lemmas/C06Readable.lean`) -/
theorem fromSamples_readable (o : Options) (h0 : o.overwrites = []) {xs : List SVal} {fields : List Field}
    (h : fromSamples .fixed o xs = .ok fields) : ∀ f ∈ fields, Lemmas.C03.readableF f = true := by
  obtain ⟨t, n, children, md, ht, hs, _, _⟩ := fromSamples_root h
  exact to_schema_readable o h0 t (fromSamples_inv ht).wf fields hs

/-- **`C06_closure_physical`**: the size precondition `Read.physical` of the reader (the value count of every Dictionary
column fits `i64`) holds for the arrays `to_marrow` builds from a traced schema — for EVERY option, dictionary-encoded strings
included — when the collection has at most `i64::MAX` samples.  No counting of distinct strings and no capacity argument:
`Props.C03.toMarrow_physical` (the builders' counting invariant: a dictionary holds at most as many values as keys were pushed)
with the size condition `sizeOKDT` discharged from the shape of traced schemas (no FixedSizeList: `to_schema_physKeys`,
`Lemmas.C06.traced_sizeOK`).  No `Safe`, no exclusion, no `ExtOK`.  (`Props.C03.wf_not_physical`: `Spec.WF` of the arrays alone
could not give it.) -/
theorem C06_closure_physical (o : Options) (ext : Ext) (h0 : o.overwrites = []) (xs : List SVal) (fields : List Field)
    (arrs : List Arr) (h : fromSamples .fixed o xs = .ok fields)
    (hok : ∀ x ∈ xs, SampleOK o x)
    (hsz : xs.length ≤ 9223372036854775807)
    (hm : toMarrow ext fields xs = .ok arrs) : ∀ a ∈ arrs, Read.physical a = true := by
  obtain ⟨t, n, children, md, ht, hs, _, _⟩ := fromSamples_root h
  have hside := to_schema_side_of_WF o h0 t (fromSamples_inv ht).wf fields hs
  exact Props.C03.toMarrow_physical ext fields xs arrs hside.2 (fun x hx => sampleOK_noRaw _ x (hok x hx))
    (traced_sizeOK fields xs.length (to_schema_physKeys o h0 t (fromSamples_inv ht).wf fields hs) hsz) hm

/-- **`C06_closure_readback`**: reading the arrays back with `deserialize_any` reproduces the samples — slot `i` of
column `j` reads as the `toD` rendering of the logical value the documented mapping gives field `j` of sample `i`
(`cols` as in `C06_closure_decode`: `interpRow ext fields xs[i]` is the struct of the `i`-th column entries).
EVERY tracing option, NO reader-side hypothesis: `Read.new … = ok`, `utf8Ok` and `Read.physical` of `read_any_decode` are
derived for the built arrays (`Props.C03.toMarrow_readAny_of_physical`: `wf_new` with `fromSamples_readable`, `wf_utf8`, from
`C03_wfS'`; `C06_closure_physical`).  Remaining hypotheses, all on the input side: `hok` (samples are serde values), `hext` (`ExtOK`:
the external chrono parsers return values in range; a theorem for the codec models, `Props.C03.codecExt_ok`), `hval` (`SValOK`: f32 /
f64 / integer calls carry values of their width; implied by `SVal.typed`), `hsz` (at most `i64::MAX` samples — no
array-side hypothesis `Read.physical`). -/
theorem C06_closure_readback (o : Options) (ext : Ext) (h0 : o.overwrites = []) (xs : List SVal)
    (fields : List Field) (arrs : List Arr) (h : fromSamples .fixed o xs = .ok fields)
    (hok : ∀ x ∈ xs, SampleOK o x)
    (hext : Lemmas.C03.ExtOK ext)
    (hval : ∀ x ∈ xs, Lemmas.C03.SValOK x)
    (hsz : xs.length ≤ 9223372036854775807)
    (hm : toMarrow ext fields xs = .ok arrs) :
    ∃ cols : List (String × List LVal), cols.length = arrs.length ∧
      (∀ (i : Nat) (hi : i < xs.length),
        interpRow ext fields xs[i] = .ok (.struct (LFields.ofList (cols.map fun c => (c.1, c.2.getD i .null))))) ∧
      ∀ (j : Nat) (hj : j < arrs.length) (i : Nat), i < xs.length →
        ∃ lv, (cols[j]?.map (·.2[i]?)) = some (some lv) ∧
          Read.readAny Read.Fixes.all arrs[j] i = .ok (Read.toD arrs[j] lv) := by
  obtain ⟨t, n, children, md, ht, hs, _, _⟩ := fromSamples_root h
  have hside := to_schema_side_of_WF o h0 t (fromSamples_inv ht).wf fields hs
  have hread := fromSamples_readable o h0 h
  obtain ⟨_, cols, hcl, _, hc4, hrd⟩ := Props.C03.toMarrow_readAny_of_physical ext fields xs arrs hside.1 hside.2
    (fun x hx => sampleOK_noRaw _ x (hok x hx)) hext hval (fun f hf => Lemmas.C03.readableDT_of_F (hread f hf))
    (C06_closure_physical o ext h0 xs fields arrs h hok hsz hm) hm
  exact ⟨cols, hcl, hc4, hrd⟩

/-- **`C06_closure_readback_nodict`**: the same with NO size hypothesis at all, for tracing options that
never dictionary-encode strings (`string_dictionary_encoding = false`, `enums_without_data_as_strings = false`): the
traced schema then has no Dictionary (and never a FixedSizeList) column — `Lemmas.C06.to_schema_physFree` — and `Read.physical`
follows from `Spec.WFS` alone (`Props.C03.wf_physical_plain`, through `Props.C03.toMarrow_readable`, i.e. `C03_wfS'`). -/
theorem C06_closure_readback_nodict (o : Options) (ext : Ext) (h0 : o.overwrites = []) (xs : List SVal)
    (fields : List Field) (arrs : List Arr) (h : fromSamples .fixed o xs = .ok fields)
    (hd : o.string_dictionary_encoding = false) (he : o.enums_without_data_as_strings = false)
    (hok : ∀ x ∈ xs, SampleOK o x)
    (hext : Lemmas.C03.ExtOK ext)
    (hval : ∀ x ∈ xs, Lemmas.C03.SValOK x)
    (hm : toMarrow ext fields xs = .ok arrs) :
    ∃ cols : List (String × List LVal), cols.length = arrs.length ∧
      (∀ (i : Nat) (hi : i < xs.length),
        interpRow ext fields xs[i] = .ok (.struct (LFields.ofList (cols.map fun c => (c.1, c.2.getD i .null))))) ∧
      ∀ (j : Nat) (hj : j < arrs.length) (i : Nat), i < xs.length →
        ∃ lv, (cols[j]?.map (·.2[i]?)) = some (some lv) ∧
          Read.readAny Read.Fixes.all arrs[j] i = .ok (Read.toD arrs[j] lv) := by
  obtain ⟨t, n, children, md, ht, hs, _, _⟩ := fromSamples_root h
  have hside := to_schema_side_of_WF o h0 t (fromSamples_inv ht).wf fields hs
  have hfree := to_schema_physFree o h0 hd he t (fromSamples_inv ht).wf fields hs
  have hread := fromSamples_readable o h0 h
  obtain ⟨hlen, hrdb⟩ := Props.C03.toMarrow_readable ext fields xs arrs hside.1 (Or.inr hside.2) hext hval
    (fun f hf => Lemmas.C03.readableDT_of_F (hread f hf)) hm
  have hphys : ∀ a ∈ arrs, Read.physical a = true := by
    intro a ha
    obtain ⟨j, hj, rfl⟩ := List.getElem_of_mem ha
    have hjf : j < fields.length := by omega
    exact (hrdb j fields[j] arrs[j] (List.getElem?_eq_getElem hjf) (List.getElem?_eq_getElem hj)).2.2.2
      (hfree _ (List.getElem_mem hjf))
  obtain ⟨_, cols, hcl, _, hc4, hrd⟩ := Props.C03.toMarrow_readAny_of_physical ext fields xs arrs hside.1 hside.2
    (fun x hx => sampleOK_noRaw _ x (hok x hx)) hext hval (fun f hf => Lemmas.C03.readableDT_of_F (hread f hf)) hphys hm
  exact ⟨cols, hcl, hc4, hrd⟩

/-! ### the closure, composed -/

/-- **`C06_closure`** — a schema traced from samples accepts those same samples, end to end, for EVERY tracing option
(dictionary-encoded strings — `string_dictionary_encoding`, `enums_without_data_as_strings` — included).  Whenever `from_samples`
succeeds on the collection `xs`, then
  1. `to_marrow` with the traced schema ACCEPTS the collection: it returns arrays, one per traced field;
  2. the documented mapping of sample `i` under the traced schema is the struct of the `i`-th column entries (`cols`);
  3. `deserialize_any` on slot `i` of array `j` reproduces that entry (`toD`).
Hypotheses — ALL on the input, all decidable: the samples are serde values a Rust program can produce (`hok`, `hval`), none of
the three documented exclusions / the known finding `dataLessNewtype` applies (`hex`), the sizes of the samples sum to at most
`i32::MAX` (`hcap`), the external chrono / float formatters are in range (`hext`; a theorem for the codec models).
No hypothesis on the schema, the builder or the arrays remains: `Read.physical` is derived (`C06_closure_physical`), and C01's
`Safe` (`safeSchema fields`) is not asked: a non-nullable dictionary-encoded string
inside an `Option<struct>`, where the per-builder append-only statement R1 is false (`Props.C01.dict_placeholder_unstable`), is
covered by the hidden-rows refinement; worked instance below, `wUnsafe`.  One theorem for every option: there is no separate
dictionary variant. -/
theorem C06_closure (o : Options) (ext : Ext) (h0 : o.overwrites = []) (xs : List SVal) (fields : List Field)
    (h : fromSamples .fixed o xs = .ok fields)
    (hok : ∀ x ∈ xs, SampleOK o x) (hex : ∀ x ∈ xs, excludedRow ext fields x = false)
    (hcap : (xs.map (vsize ext)).sum ≤ 2147483647)
    (hext : Lemmas.C03.ExtOK ext)
    (hval : ∀ x ∈ xs, Lemmas.C03.SValOK x) :
    ∃ arrs, toMarrow ext fields xs = .ok arrs ∧ arrs.length = fields.length ∧
      ∃ cols : List (String × List LVal), cols.length = arrs.length ∧
        (∀ (i : Nat) (hi : i < xs.length),
          interpRow ext fields xs[i] = .ok (.struct (LFields.ofList (cols.map fun c => (c.1, c.2.getD i .null))))) ∧
        ∀ (j : Nat) (hj : j < arrs.length) (i : Nat), i < xs.length →
          ∃ lv, (cols[j]?.map (·.2[i]?)) = some (some lv) ∧
            Read.readAny Read.Fixes.all arrs[j] i = .ok (Read.toD arrs[j] lv) := by
  obtain ⟨arrs, hm⟩ := C06_closure_build o ext h0 xs fields h hok hex hcap
  have hsz : xs.length ≤ 9223372036854775807 := by
    have := length_le_vsize_sum ext xs; omega
  exact ⟨arrs, hm, (C06_closure_decode o ext h0 xs fields arrs h hok hm).1,
    C06_closure_readback o ext h0 xs fields arrs h hok hext hval hsz hm⟩

/-! ### non-vacuity and necessity of the exclusions (kernel evaluation) -/

/-- the hypotheses of `C06_closure_build`, decided on a collection (`ext = {}`), AND its conclusion, evaluated -/
def closureHypsB (o : Options) (xs : List SVal) : Bool :=
  match fromSamples .fixed o xs with
  | .ok fields =>
    xs.all (fun x => sampleOK o.map_as_struct x && !excludedRow {} fields x) &&
      decide ((xs.map (vsize {})).sum ≤ 2147483647) && (toMarrow {} fields xs).isOk
  | .error _ => false

/-- a nested collection: fields missing in some samples, a null, an empty and a non-empty list, a tuple, a map, a
partially observed enum with data -/
def wClosure : List SVal := [
  recOf [("a", i32 1), ("l", seqOf []), ("t", tupOf [i32 1, .bool true]), ("e", .newtypeVariant "E" 1 "B" (i32 1))],
  recOf [("a", .none), ("l", seqOf [.some (.str "x"), .none]), ("m", mapOf [("k", .f64 0)]), ("t", tupOf [i32 2, .bool false]),
    ("e", .structVariant "E" 2 "C" (.cons "x" 0 (.str "s") .nil))]]

set_option maxRecDepth 1000000 in
/-- non-vacuity of `fromSamples_interpRow` / `C06_closure_build`: tracing succeeds, every sample is well formed and not
excluded, the samples fit — and (the conclusion, evaluated) `to_marrow` succeeds -/
example : closureHypsB { allow_null_fields := true } wClosure = true := by decide +kernel

/-- a collection for the dictionary options: dictionary-encoded strings, a data-less enum traced as strings, and — below a
struct that is `None` in one sample — a NULLABLE dictionary-encoded string and an enum whose first variant was never seen
(the shape of the repaired finding `C06-unseen-first-variant-default`) -/
def wClosureDict : List SVal := [
  recOf [("s", .str "a"), ("e", .unitVariant "E" 1 "B"),
    ("o", .some (recOf [("u", .newtypeVariant "U" 1 "V1" (i32 1)), ("d", .some (.str "x"))]))],
  recOf [("s", .str "b"), ("e", .unitVariant "E" 0 "A"), ("o", .none)]]

set_option maxRecDepth 1000000 in
/-- non-vacuity of `C06_closure_build` with dictionaries and a union below a nullable struct: all hypotheses hold, and
`to_marrow` succeeds -/
example : closureHypsB { string_dictionary_encoding := true, enums_without_data_as_strings := true } wClosureDict = true := by
  decide +kernel

/-- `[{o: Some({d: "x"})}, {o: None}]`: under `string_dictionary_encoding` the string `d` is traced as a NON-nullable
`Dictionary(UInt32, LargeUtf8)` inside the nullable struct `o` -/
def wUnsafe : List SVal := [recOf [("o", .some (recOf [("d", .str "x")]))], recOf [("o", .none)]]

set_option maxRecDepth 1000000 in
/-- **`safeSchema` can fail for a traced schema** (why the closure theorems rest on the hidden-rows refinement): the tracer
gives the Dictionary field the nullability of the string position, `build_builder` gives the key builder that nullability, and
the `None` of the second sample sends `serialize_default` into non-nullable keys — C01's `dict_placeholder_unstable` shape,
where the per-builder append-only statement R1 is false.  Every hypothesis of `C06_closure_build` / `C06_closure` holds
and `to_marrow` accepts the collection (evaluated): the collection is INSIDE the closure theorems (instance below) and
outside any statement that assumes `safeSchema`. -/
theorem safeSchema_can_fail :
    (match fromSamples .fixed { string_dictionary_encoding := true } wUnsafe with
     | .ok fields =>
       !safeSchema fields && wUnsafe.all (fun x => sampleOK true x && !excludedRow {} fields x) &&
         (toMarrow {} fields wUnsafe).isOk
     | .error _ => false) = true := by decide +kernel

/-- the exclusion `p` is NEEDED: the collection traces, its samples are well-formed serde values, the traced schema does
not map sample `i` (`interpRow` fails), and `p` holds at some position of that sample -/
def neededB (o : Options) (p : DataType → SVal → Bool) (xs : List SVal) (i : Nat) : Bool :=
  match fromSamples .fixed o xs, xs[i]? with
  | .ok fields, some x =>
    xs.all (sampleOK o.map_as_struct) && !(interpRow {} fields x).isOk && hits p (.struct (Fields.ofList fields)) x
  | _, _ => false

set_option maxRecDepth 1000000 in
/-- documented exclusion 1 is needed: `[E::A(1), None]` at one position traces to a nullable Union, `None` has no mapping -/
theorem excl_nullAtEnum_needed :
    neededB {} nullAtEnum (itemsOf [.newtypeVariant "E" 0 "A" (i32 1), .none]) 1 = true := by decide +kernel

set_option maxRecDepth 1000000 in
/-- documented exclusion 2 is needed: under `guess_dates` the string matches the date-time pattern and is traced as a
Timestamp; a parser that refuses it (here `ext = {}`: the parser refusing everything) leaves it without a mapping -/
theorem excl_dateLookalike_needed :
    neededB { guess_dates := true } (dateLookalike {}) (itemsOf [.str "2020-12-24T08:30:00"]) 0 = true := by
  decide +kernel

set_option maxRecDepth 1000000 in
/-- documented exclusion 3 is needed: `i8` and `u64` are coerced to Int64 under `coerce_numbers`; `u64::MAX` does not fit -/
theorem excl_u64AboveI64_needed :
    neededB { coerce_numbers := true } u64AboveI64 (itemsOf [.int .i8 1, .int .u64 18446744073709551615]) 1 = true := by
  decide +kernel

set_option maxRecDepth 1000000 in
/-- known finding `C06-data-less-newtype-variant-as-string` is needed as an exclusion -/
theorem excl_dataLessNewtype_needed :
    neededB { enums_without_data_as_strings := true } dataLessNewtype
      (itemsOf [.unitVariant "E" 1 "V1", .newtypeVariant "E" 2 "V2" .none, .unitVariant "E" 0 "V0"]) 1 = true := by
  decide +kernel

/-! ### the repaired finding `C06-unit-struct-into-value` (repo fix ae2fc46) -/

/-- tracing succeeds, every sample is well formed, not excluded and has a mapping at the traced schema, and `to_marrow`
accepts the collection -/
def acceptedB (o : Options) (xs : List SVal) : Bool :=
  match fromSamples .fixed o xs with
  | .ok fields =>
    xs.all (fun x => sampleOK o.map_as_struct x && !excludedRow {} fields x && (interpRow {} fields x).isOk) &&
      (toMarrow {} fields xs).isOk
  | _ => false

set_option maxRecDepth 1000000 in
/-- **Repaired**: `[1i32, UnitStruct]` traces to a nullable Int32 (a unit struct is traced like `()`); since the default
`serialize_unit_struct` forwards to `serialize_unit`, the Int32 builder takes the unit struct as a null, the documented
mapping says null, and no exclusion is needed (`exclAny` has no disjunct for unit structs). -/
theorem unitStruct_accepted : acceptedB {} (itemsOf [i32 1, .unitStruct "U"]) = true := by decide +kernel

/-- **Pinned**: before ae2fc46 the default `serialize_unit_struct` refused, so `push` of a unit struct was the scalar call
`ctx b.ann (pushScalar ext b (.unitStruct n))` on every builder — on the traced nullable Int32 column the error the real
crate gave (`to_marrow` rejected a collection the schema was traced from). -/
theorem unitStruct_pinned :
    (ctx (B.leaf "$.item" (.int .i32) (some [true]) [1]).ann
      (pushScalar {} (.leaf "$.item" (.int .i32) (some [true]) [1]) (.unitStruct "U")) : R B) =
      .error (.errCtx "serialize_unit_struct is not supported" [("data_type", "Int32"), ("field", "$.item")]) := by
  decide +kernel

/-! ### non-vacuity of the read-back -/

def wRead : List SVal := [recOf [("a", i32 1), ("s", .str "é")], recOf [("a", .none), ("s", .str "")]]
def wReadFields : List Field := [.mk "a" .int32 true [], .mk "s" .largeUtf8 false []]

set_option maxRecDepth 1000000 in
theorem wRead_trace : fromSamples .fixed {} wRead = .ok wReadFields := by decide +kernel

set_option maxRecDepth 1000000 in
theorem wRead_build : (toMarrow {} wReadFields wRead).isOk = true := by decide +kernel

/-- non-vacuity of `to_schema_typed` / `fromSamples_room` / `fromSamples_safe_iff` / `fromSamples_safeSchema`: their only
hypothesis is that tracing succeeded (`wRead_trace`; with a union and dictionaries: the `closureHypsB` examples above) -/
example : Lemmas.C03.typedFs (Fields.ofList wReadFields) = true ∧ totalFs (Fields.ofList wReadFields) = true ∧
    wideFs (Fields.ofList wReadFields) = true := to_schema_typed {} rfl wRead_trace

example : safeSchema wReadFields = true ∧ ∀ root0, newRoot wReadFields = .ok root0 → room root0 = 2147483647 ∧ Safe root0 :=
  ⟨fromSamples_safeSchema {} rfl rfl rfl wRead_trace, fun _ hnew => ⟨fromSamples_room {} rfl wRead_trace hnew,
    (fromSamples_safe_iff {} rfl wRead_trace hnew).mpr (fromSamples_safeSchema {} rfl rfl rfl wRead_trace)⟩⟩

/-- non-vacuity of `C06_closure` (and of `C06_closure_readback` inside it): a collection with a null, a two-byte UTF-8
string and an empty string; tracing succeeds (`wRead_trace`) and EVERY hypothesis is discharged — `to_marrow` accepts the
collection and reading the built arrays back returns the documented values of the samples, unconditionally -/
example : ∃ arrs, toMarrow {} wReadFields wRead = .ok arrs ∧ arrs.length = wReadFields.length ∧
    ∃ cols : List (String × List LVal), cols.length = arrs.length ∧
      (∀ (i : Nat) (hi : i < wRead.length),
        interpRow {} wReadFields wRead[i] = .ok (.struct (LFields.ofList (cols.map fun c => (c.1, c.2.getD i .null))))) ∧
      ∀ (j : Nat) (hj : j < arrs.length) (i : Nat), i < wRead.length →
        ∃ lv, (cols[j]?.map (·.2[i]?)) = some (some lv) ∧
          Read.readAny Read.Fixes.all arrs[j] i = .ok (Read.toD arrs[j] lv) := by
  refine C06_closure {} {} rfl wRead wReadFields wRead_trace ?_ ?_ ?_ ?_ ?_
  · decide
  · decide +kernel
  · decide +kernel
  · constructor <;> (intros; rename_i h; cases h)
  · simp [wRead, recOf, i32, SFields.ofList, Lemmas.C03.SValOK, Lemmas.C03.SFieldsOK, Lemmas.C03.ScalarOK,
      IntTy.inRange, IntTy.min, IntTy.max]

/-! ### non-vacuity of the closure with dictionary-encoded strings -/

def wDict : List SVal := [recOf [("s", .str "a"), ("n", i32 1)], recOf [("s", .str "é"), ("n", .none)], recOf [("s", .str "a"), ("n", i32 3)]]
def wDictFields : List Field := [.mk "s" (.dictionary .uint32 .largeUtf8) false [], .mk "n" .int32 true []]

set_option maxRecDepth 1000000 in
theorem wDict_trace : fromSamples .fixed { string_dictionary_encoding := true } wDict = .ok wDictFields := by decide +kernel

/-- non-vacuity of `C06_closure` (and of `C06_closure_physical` inside it): a repeated and a two-byte string, dictionary
encoded; every hypothesis is discharged — `to_marrow` accepts the collection and `deserialize_any` on the Dictionary column
returns the strings of the samples -/
example : ∃ arrs, toMarrow {} wDictFields wDict = .ok arrs ∧ arrs.length = wDictFields.length ∧
    ∃ cols : List (String × List LVal), cols.length = arrs.length ∧
      (∀ (i : Nat) (hi : i < wDict.length),
        interpRow {} wDictFields wDict[i] = .ok (.struct (LFields.ofList (cols.map fun c => (c.1, c.2.getD i .null))))) ∧
      ∀ (j : Nat) (hj : j < arrs.length) (i : Nat), i < wDict.length →
        ∃ lv, (cols[j]?.map (·.2[i]?)) = some (some lv) ∧
          Read.readAny Read.Fixes.all arrs[j] i = .ok (Read.toD arrs[j] lv) := by
  refine C06_closure { string_dictionary_encoding := true } {} rfl wDict wDictFields wDict_trace ?_ ?_ ?_ ?_ ?_
  · decide
  · decide +kernel
  · decide +kernel
  · constructor <;> (intros; rename_i h; cases h)
  · simp [wDict, recOf, i32, SFields.ofList, Lemmas.C03.SValOK, Lemmas.C03.SFieldsOK, Lemmas.C03.ScalarOK,
      IntTy.inRange, IntTy.min, IntTy.max]

/-! ### the closure OUTSIDE `Safe`: the collection of `safeSchema_can_fail` -/

def wUnsafeFields : List Field :=
  [.mk "o" (.struct (.cons (.mk "d" (.dictionary .uint32 .largeUtf8) false []) .nil)) true []]

set_option maxRecDepth 1000000 in
theorem wUnsafe_trace : fromSamples .fixed { string_dictionary_encoding := true } wUnsafe = .ok wUnsafeFields := by
  decide +kernel

/-- the traced schema is outside C01's `Safe` (a dictionary with NON-nullable keys below the nullable struct `o`) … -/
example : safeSchema wUnsafeFields = false ∧ ∀ root0, newRoot wUnsafeFields = .ok root0 → ¬ Safe root0 := by
  refine ⟨by decide +kernel, fun root0 hnew hs => ?_⟩
  have := (fromSamples_safe_iff { string_dictionary_encoding := true } rfl wUnsafe_trace hnew).mp hs
  revert this; decide +kernel

/-- … and `C06_closure` applies to it with EVERY hypothesis discharged: `to_marrow` accepts `[{o: Some({d: "x"})},
{o: None}]` against the schema traced from it (the `None` sends the placeholder key 0 into the non-nullable dictionary
keys), the documented mapping of sample `i` is the struct of the `i`-th column entries, and `deserialize_any` reproduces
every entry -/
example : ∃ arrs, toMarrow {} wUnsafeFields wUnsafe = .ok arrs ∧ arrs.length = wUnsafeFields.length ∧
    ∃ cols : List (String × List LVal), cols.length = arrs.length ∧
      (∀ (i : Nat) (hi : i < wUnsafe.length),
        interpRow {} wUnsafeFields wUnsafe[i] = .ok (.struct (LFields.ofList (cols.map fun c => (c.1, c.2.getD i .null))))) ∧
      ∀ (j : Nat) (hj : j < arrs.length) (i : Nat), i < wUnsafe.length →
        ∃ lv, (cols[j]?.map (·.2[i]?)) = some (some lv) ∧
          Read.readAny Read.Fixes.all arrs[j] i = .ok (Read.toD arrs[j] lv) := by
  refine C06_closure { string_dictionary_encoding := true } {} rfl wUnsafe wUnsafeFields wUnsafe_trace ?_ ?_ ?_ ?_ ?_
  · decide
  · decide +kernel
  · decide +kernel
  · constructor <;> (intros; rename_i h; cases h)
  · simp [wUnsafe, recOf, SFields.ofList, Lemmas.C03.SValOK, Lemmas.C03.SFieldsOK, Lemmas.C03.ScalarOK]

end SaModel.Props.C06
