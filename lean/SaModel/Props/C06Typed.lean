import SaModel.Props.C06Closure
import SaModel.Props.C04Accept
import SaModel.Props.C08
/-
C06 — the TYPED read-back: samples that are the values of a derived Rust type, read back INTO that type.

`C06_closure` (Props/C06Closure.lean) reads the arrays back through `readAny` (`deserialize_any`: the `toD` rendering of the
logical value the documented mapping gives the sample).  For samples `vs.map (ser t)` of a type `t` of C04's type language
(`Roundtrip.Ty`) the natural reading of "reading the arrays back reproduces the samples" is the typed read
`readAll (toTarget t)` (= `from_marrow::<Vec<T>>`) returning the values themselves, up to the documented normalisation `norm`.

  C06_typed_readback_partial   the statement for sample collections that COVER the type (`Lemmas.C08.Covers`: a value at every
                               leaf, a `Some` of every Option, an element of every Vec, every variant of every enum — any order,
                               repetitions, extra values): the sample-traced schema is then the type-traced one
                               (`Props.C08.C08_agree_all`) and C04's end-to-end theorem applies.
  MISSING (why `_partial`)     collections that do NOT cover the type.  The sample-traced schema is then NARROWER than the
                               type-traced one — a `skip_serializing_if` field never present is missing, an Option that is always
                               `None` / a Vec that is always empty is a Null column, a variant never seen is a placeholder or
                               absent — and the theorem needed is `Read.cast (toTarget t) a lv = must (dvalOf t (norm t v))` for
                               arrays `a` well formed at such a narrowing of `mappingDT o t` (C04's `cast_lvO` asks for
                               `Spec.wf` at `mappingDT o t` itself), together with the closed form of the tracer after typed
                               samples (C08's `sstate`).  Not proved.  What stands in for it:
  typedNarrowB / narrow_*      kernel evaluation of the full statement — `fromSamples` → `toMarrow` → `readAll (toTarget t)` =
                               `vs.map (dvalOf t ∘ norm t)` with a schema that DIFFERS from the type-traced one — on collections
                               showing each kind of narrowing;
  the `samplert` suite         the same chain on the real crate AND on the models, for every zoo type × random batches × options
                               (lean/Driver/Suites/Samplert.lean): 363 of the 1 677 traced quick-tier cases have a narrower schema.
-/
namespace SaModel.Props.C06
open SaModel SaModel.Build SaModel.Roundtrip

/-- **`C06_typed_readback_partial`** — tracing a schema FROM THE VALUES of a type, serializing the same values against it and
reading them back into the type returns the values (normalised: `norm` collapses `Some(None)`, the identity for `plainOpt`
types, `Props.C04.C04_norm_eq_self`).

`t = struct n fs` a record type of C04's grammar `fragE` (scalars, `()`, unit structs, Option, newtype structs, Vec, maps, tuples,
structs with `rename` / `skip_serializing_if`, enums with the four variant kinds); `vs` well-typed values in scope (`inScopeO`:
the documented exclusion "`None` at a position traced to a Union", = `noneAtUnion` of the driver, and the string-enum finding
`strOK`); every option without overwrites; EVERY `ext`.  If `from_samples` of the serialized values returns `fields`, then
`to_marrow` accepts the values against `fields` and `readAll (toTarget t)` (`from_marrow::<Vec<T>>`) returns them.

PARTIAL — hypothesis `hcov`: the collection covers the type (`Lemmas.C08.Covers`, decidable; with it the hypotheses of
`Props.C08.C08_agree_all`: `walkable`, `uniqueNames`, `smallEnums`, the pass budget of `from_type`).  Missing: collections that
do not cover the type, whose traced schema is narrower than the type's (see the header; evaluated below and by the `samplert`
suite). -/
theorem C06_typed_readback_partial (O : Trace.Options) (ext : Ext) (n : String) (fs : TFields) (vs : List Val)
    (fields : List Field)
    (h0 : O.overwrites = []) (hfrag : fragE (.struct n fs) = true) (hsz : sized (.struct n fs) = true) (hne : fs ≠ .nil)
    (hwt : ∀ v ∈ vs, wt (.struct n fs) v = true)
    (hsc : ∀ v ∈ vs, inScopeO (viewOpts O) (.struct n fs) v = true)
    (hw : Trace.Spec.walkable O "$" (toTraceTy (.struct n fs)) = true)
    (hu : Lemmas.C08.uniqueNames (toTraceTy (.struct n fs)) = true)
    (hs : Lemmas.C08.smallEnums (toTraceTy (.struct n fs)) = true)
    (hb : Trace.Spec.passes (toTraceTy (.struct n fs)) ≤ O.from_type_budget)
    (hcov : Lemmas.C08.Covers O (toTraceTy (.struct n fs)) (vs.map (ser (.struct n fs))))
    (hfs : Trace.fromSamples .fixed O (vs.map (ser (.struct n fs))) = .ok fields)
    (hcap : ((vs.map (ser (.struct n fs))).map (vsize ext)).sum ≤ 2147483647) :
    ∃ arrs, toMarrow ext fields (vs.map (ser (.struct n fs))) = .ok arrs ∧
      readAll (toTarget (.struct n fs)) fields arrs =
        .ok (vs.map fun v => dvalOf (.struct n fs) (norm (.struct n fs) v)) := by
  have hft : Trace.fromType .fixed O (toTraceTy (.struct n fs)) = .ok fields := by
    rw [← Props.C08.C08_agree_all .fixed O _ _ hw hu hs hb hcov]; exact hfs
  exact Props.C04.C04_end_to_end_traced .fixed O ext n fs vs fields h0 hfrag hsz hne hwt hsc hft hcap

/-! ### non-vacuity: a covering collection -/

/-- `Option`, `Vec<Option<struct>>`, an enum with a unit, a newtype and a struct variant -/
def tyCov : Ty :=
  .struct "R" (.cons "a" false (.option (.prim (.int .i32)))
    (.cons "v" false (.vec (.option Props.C04.exInner))
    (.cons "e" false (.enum "E" (.cons "U" .unit (.cons "N" (.newtype (.prim .str))
      (.cons "S" (.struct (.cons "x" false (.prim .bool) .nil)) .nil)))) .nil)))

def vsCov : List Val :=
  [.struct (.cons (.some (.int 1)) (.cons (.vec (.cons (.some (.struct (.cons (.int 3) (.cons (.str "ab") .nil)))) (.cons .none .nil)))
     (.cons (.variant 0 .nil) .nil))),
   .struct (.cons .none (.cons (.vec .nil) (.cons (.variant 1 (.cons (.str "é") .nil)) .nil))),
   .struct (.cons (.some (.int (-5))) (.cons (.vec .nil) (.cons (.variant 2 (.cons (.bool true) .nil)) .nil)))]

def oCov : Trace.Options := { allow_null_fields := true }

def fieldsCov : List Field :=
  match Trace.fromSamples .fixed oCov (vsCov.map (ser tyCov)) with | .ok fs => fs | .error _ => []

set_option maxRecDepth 1000000 in
theorem covTrace : Trace.fromSamples .fixed oCov (vsCov.map (ser tyCov)) = .ok fieldsCov := by decide +kernel

set_option maxRecDepth 1000000 in
/-- every hypothesis of `C06_typed_readback_partial` holds of the collection (decided) — the theorem gives the read-back -/
example : ∃ arrs, toMarrow {} fieldsCov (vsCov.map (ser tyCov)) = .ok arrs ∧
    readAll (toTarget tyCov) fieldsCov arrs = .ok (vsCov.map fun v => dvalOf tyCov (norm tyCov v)) :=
  C06_typed_readback_partial oCov {} "R" _ vsCov fieldsCov rfl (by decide +kernel) (by decide +kernel) (by simp)
    (by decide +kernel) (by decide +kernel) (by decide +kernel) (by decide +kernel) (by decide +kernel) (by decide +kernel)
    (by decide +kernel) covTrace (by decide +kernel)

/-! ### the missing part, evaluated: collections that do NOT cover the type (narrower schemas) -/

/-- the whole statement on a collection, evaluated (`ext = {}`): tracing from the values succeeds, the traced schema is NOT the
type-traced one, `to_marrow` accepts the values and the typed read returns them, normalised -/
def typedNarrowB (O : Trace.Options) (t : Ty) (vs : List Val) : Bool :=
  match Trace.fromSamples .fixed O (vs.map (ser t)) with
  | .ok fields =>
    (match Trace.fromType .fixed O (toTraceTy t) with | .ok tf => !decide (tf = fields) | .error _ => true) &&
    vs.all (wt t) &&
    (match toMarrow {} fields (vs.map (ser t)) with
     | .ok arrs => decide (readAll (toTarget t) fields arrs = .ok (vs.map fun v => dvalOf t (norm t v)))
     | .error _ => false)
  | .error _ => false

/-- a `skip_serializing_if = "Option::is_none"` field that is never present: the traced schema has no column `s`, the typed
read fills the missing field of an `Option` type with `None` -/
def tySkip : Ty := .struct "K" (.cons "k" false (.prim (.int .i32)) (.cons "s" true (.option (.prim .str)) .nil))

set_option maxRecDepth 1000000 in
theorem narrow_skipped_field :
    typedNarrowB {} tySkip [.struct (.cons (.int 1) (.cons .none .nil)), .struct (.cons (.int 2) (.cons .none .nil))] = true := by
  decide +kernel

set_option maxRecDepth 1000000 in
/-- an `Option` that is always `None` and a `Vec` that is always empty (Null columns under `allow_null_fields`), an enum of which
only variant 1 is seen (variant 0 is a placeholder, variant 2 is absent from the traced Union) -/
theorem narrow_unseen :
    typedNarrowB oCov tyCov
      [.struct (.cons .none (.cons (.vec .nil) (.cons (.variant 1 (.cons (.str "x") .nil)) .nil))),
       .struct (.cons .none (.cons (.vec .nil) (.cons (.variant 1 (.cons (.str "") .nil)) .nil)))] = true := by
  decide +kernel

set_option maxRecDepth 1000000 in
/-- a `Vec<Option<struct>>` whose elements are all `None` (the element column is Null), `Some(..)` seen only once for `a` -/
theorem narrow_null_elements :
    typedNarrowB oCov tyCov
      [.struct (.cons (.some (.int 7)) (.cons (.vec (.cons .none (.cons .none .nil))) (.cons (.variant 0 .nil) .nil))),
       .struct (.cons .none (.cons (.vec (.cons .none .nil)) (.cons (.variant 2 (.cons (.bool false) .nil)) .nil)))] = true := by
  decide +kernel

end SaModel.Props.C06
