import SaModel.Lemmas.C07TablesA
import SaModel.Lemmas.C07TablesB
import SaModel.Lemmas.C07TablesC
import SaModel.Lemmas.C07TablesD
import SaModel.Lemmas.C07TablesE
import SaModel.Lemmas.C07TablesF
import SaModel.Lemmas.C07TablesG
import SaModel.Lemmas.C07TablesH
import SaModel.Lemmas.C07TablesI
import SaModel.Trace.Spec
import SaModel.Lemmas.C07Zoo
/-
C07 — the traced schema does not depend on sample order or repetition.
Model: SaModel/Trace/{Tracer,FromSamples,Leaf}.lean.  Tables: SaModel/Lemmas/C07Tables*.lean.

Leaf lattice (complete alphabet, every setting of the three options `coerce_primitive_type` reads, unbounded sample
lists): `coerce_comm`, `coerce_idem`, `nullable_sticky`, `mark_commutes`, `coerce_assoc_on_success`,
`leaf_permutation` (any permutation: same outcome, unless `allow_to_string`), `leaf_success_order`,
`leaf_order_and_repetition` (any two lists with the same SET of kinds that both succeed give the same state — also
under `allow_to_string`; proved through "a step yields the least upper bound"), `leaf_repeat`.
Tree level: `ensure_primitive_embed` ties the lattice to the tracer for every name and path; `perm_lift` is the generic
adjacent-swap argument; `C07_struct_map_mode` / `C07_struct_map_mode_pinned` and `C07_tuple_arity…` are the repaired /
pinned witnesses; `absorb_comm_on_zoo` checks the swap law on a zoo of nested shapes by evaluation.
`absorb_comm_leaf` is the swap law of `absorb` for two primitive leaf samples; the general tree-level laws (arbitrary
nested samples) are in SaModel/Props/C07Tree.lean (`absorb_comm`, `absorb_idem`, `fromSamples_perm`, `fromSamples_repeat`).
-/
namespace SaModel.Props.C07
open SaModel SaModel.Trace SaModel.Lemmas.C07

/-! ### options: `coerce_primitive_type` reads three flags -/

theorem act_coerceView (o : Options) (s : LeafSt) (a : DataType) : act o s a = act o.coerceView s a := by
  obtain ⟨t, n⟩ := s
  cases t <;> rfl

theorem leafTypes_coerceView (o : Options) : leafTypes o = leafTypes o.coerceView := rfl
theorem leafStates_coerceView (o : Options) : leafStates o = leafStates o.coerceView := rfl

theorem coerceView_mem (o : Options) : o.coerceView ∈ coerceOptions := by
  unfold Options.coerceView
  cases o.coerce_numbers <;> cases o.allow_to_string <;> cases o.string_as_large_utf8 <;> decide

theorem table_at {T : Options → Bool} (h : coerceOptions.all T = true) (o : Options) : T o.coerceView = true :=
  List.all_eq_true.mp h _ (coerceView_mem o)

theorem act2_coerceView (o : Options) (s : LeafSt) (a b : DataType) : act2 o s a b = act2 o.coerceView s a b := by
  unfold act2
  rw [← act_coerceView]
  cases act o s a with
  | ok s' => simp only; rw [← act_coerceView]
  | error e => rfl

/-! ### the tables as ∀-statements -/

/-- outcome equality: both succeed with the same state, or both fail -/
def OutEq {α} (x y : R α) : Prop := (∃ s, x = .ok s ∧ y = .ok s) ∨ (x.isOk = false ∧ y.isOk = false)

theorem OutEq.refl {α} (x : R α) : OutEq x x := by
  cases x with
  | ok s => exact .inl ⟨s, rfl, rfl⟩
  | error e => exact .inr ⟨rfl, rfl⟩

theorem OutEq.symm {α} {x y : R α} (h : OutEq x y) : OutEq y x := by
  rcases h with ⟨s, h1, h2⟩ | ⟨h1, h2⟩
  · exact .inl ⟨s, h2, h1⟩
  · exact .inr ⟨h2, h1⟩

theorem OutEq.trans {α} {x y z : R α} (h : OutEq x y) (h' : OutEq y z) : OutEq x z := by
  rcases h with ⟨s, h1, h2⟩ | ⟨h1, h2⟩ <;> rcases h' with ⟨s', h3, h4⟩ | ⟨h3, h4⟩
  · rw [h2] at h3; cases h3; exact .inl ⟨s, h1, h4⟩
  · rw [h2] at h3; cases h3
  · rw [h3] at h2; cases h2
  · exact .inr ⟨h1, h4⟩

theorem commRow_holds (o : Options) {s : LeafSt} {a b : DataType} (hs : s ∈ leafStates o)
    (ha : a ∈ leafTypes o) (hb : b ∈ leafTypes o) : commRow o.coerceView s a b = true := by
  have h := table_at commTable_all o
  unfold commTable at h
  rw [leafStates_coerceView] at hs; rw [leafTypes_coerceView] at ha hb
  exact List.all_eq_true.mp (List.all_eq_true.mp (List.all_eq_true.mp h s hs) a ha) b hb

/-- `coerce_comm`: from any reachable leaf state, absorbing `a` then `b` and `b` then `a` succeed together and agree —
unless `allow_to_string`, where one order may fail while the other succeeds (but two successes still agree) -/
theorem coerce_comm (o : Options) {s : LeafSt} {a b : DataType} (hs : s ∈ leafStates o)
    (ha : a ∈ leafTypes o) (hb : b ∈ leafTypes o) :
    (o.allow_to_string = false → OutEq (act2 o s a b) (act2 o s b a)) ∧
    (∀ x y, act2 o s a b = .ok x → act2 o s b a = .ok y → x = y) := by
  have h := commRow_holds o hs ha hb
  unfold commRow at h
  rw [← act2_coerceView, ← act2_coerceView] at h
  have hts : o.coerceView.allow_to_string = o.allow_to_string := rfl
  rw [hts] at h
  constructor
  · intro hno
    cases h1 : act2 o s a b with
    | ok x =>
      cases h2 : act2 o s b a with
      | ok y => rw [h1, h2] at h; simp at h; exact .inl ⟨x, rfl, by rw [h]⟩
      | error e => rw [h1, h2] at h; simp [hno] at h
    | error e =>
      cases h2 : act2 o s b a with
      | ok y => rw [h1, h2] at h; simp [hno] at h
      | error e' => exact .inr ⟨rfl, rfl⟩
  · intro x y h1 h2
    rw [h1, h2] at h
    simpa using h

theorem stepRow_holds (o : Options) {s : LeafSt} {a : DataType} (hs : s ∈ leafStates o) (ha : a ∈ leafTypes o) :
    stepRow o.coerceView s a = true := by
  have h := table_at stepTable_all o
  unfold stepTable at h
  rw [leafStates_coerceView] at hs; rw [leafTypes_coerceView] at ha
  exact List.all_eq_true.mp (List.all_eq_true.mp h s hs) a ha

/-- a step never panics, stays inside the alphabet (`closure`), keeps the nullable flag (`nullable_sticky`) and absorbing
the same type again changes nothing (`coerce_idem`) -/
theorem step_facts (o : Options) {s s' : LeafSt} {a : DataType} (hs : s ∈ leafStates o) (ha : a ∈ leafTypes o)
    (h : act o s a = .ok s') : s' ∈ leafStates o ∧ (s.2 = true → s'.2 = true) ∧ act o s' a = .ok s' := by
  have hr := stepRow_holds o hs ha
  unfold stepRow at hr
  rw [← act_coerceView, h] at hr
  simp only [Bool.and_eq_true, List.any_eq_true, decide_eq_true_eq, Bool.or_eq_true, Bool.not_eq_true'] at hr
  obtain ⟨⟨⟨x, hx, rfl⟩, hn⟩, hi⟩ := hr
  refine ⟨by rw [leafStates_coerceView]; exact hx, ?_, by rw [act_coerceView]; exact hi⟩
  intro h2; rcases hn with hn | hn
  · rw [h2] at hn; cases hn
  · exact hn

theorem coerce_idem (o : Options) {s s' : LeafSt} {a : DataType} (hs : s ∈ leafStates o) (ha : a ∈ leafTypes o)
    (h : act o s a = .ok s') : act o s' a = .ok s' := (step_facts o hs ha h).2.2

theorem nullable_sticky (o : Options) {s s' : LeafSt} {a : DataType} (hs : s ∈ leafStates o) (ha : a ∈ leafTypes o)
    (h : act o s a = .ok s') (hn : s.2 = true) : s'.2 = true := (step_facts o hs ha h).2.1 hn

theorem act_no_panic (o : Options) {s : LeafSt} {a : DataType} (hs : s ∈ leafStates o) (ha : a ∈ leafTypes o) :
    (act o s a).isPanic = false := by
  have hr := stepRow_holds o hs ha
  unfold stepRow at hr
  rw [← act_coerceView] at hr
  cases h : act o s a with
  | ok _ => rfl
  | error e => cases e with
    | err _ => rfl
    | errCtx _ _ => rfl
    | panic _ => rw [h] at hr; cases hr

/-- `mark_nullable` (what `None` / `Some` do) commutes with absorbing a type -/
theorem mark_commutes (o : Options) {s : LeafSt} {a : DataType} (hs : s ∈ leafStates o) (ha : a ∈ leafTypes o) :
    (∀ s', act o s a = .ok s' → act o (mark s) a = .ok (mark s')) ∧
    ((act o s a).isOk = false → (act o (mark s) a).isOk = false) := by
  have h := table_at markTable_all o
  unfold markTable at h
  rw [leafStates_coerceView] at hs; rw [leafTypes_coerceView] at ha
  have hr := List.all_eq_true.mp (List.all_eq_true.mp h s hs) a ha
  unfold markRow at hr
  rw [← act_coerceView, ← act_coerceView] at hr
  constructor
  · intro s' h1
    rw [h1] at hr
    cases h2 : act o (mark s) a with
    | ok s'' => rw [h2] at hr; simp at hr; rw [hr]
    | error e => rw [h2] at hr; cases hr
  · intro h1
    cases h3 : act o s a with
    | ok x => rw [h3] at h1; cases h1
    | error e =>
      rw [h3] at hr
      cases h2 : act o (mark s) a with
      | ok s'' => rw [h2] at hr; cases hr
      | error e' => rfl

/-- `coerce_assoc_on_success`: whatever the order in which three types meet at a fresh position, all orders that
succeed give the same state; unless `allow_to_string` the six orders succeed or fail together -/
theorem coerce_assoc_on_success (o : Options) {a b c : DataType} (ha : a ∈ leafTypes o) (hb : b ∈ leafTypes o)
    (hc : c ∈ leafTypes o) : tripleRow o.coerceView a b c = true := by
  have hmem := coerceView_mem o
  have hall : coerceOptions.all tripleTable = true := by
    have e : coerceOptions = coerceOptions.take 2 ++ ((coerceOptions.drop 2).take 2 ++
        (((coerceOptions.drop 4).take 2) ++ coerceOptions.drop 6)) := by decide
    rw [e, List.all_append, List.all_append, List.all_append, tripleTable_0, tripleTable_1, tripleTable_2, tripleTable_3]
    rfl
  have h := List.all_eq_true.mp hall _ hmem
  unfold tripleTable at h
  rw [leafTypes_coerceView] at ha hb hc
  exact List.all_eq_true.mp (List.all_eq_true.mp (List.all_eq_true.mp h a ha) b hb) c hc

/-! ### unbounded sample lists at one leaf position -/

theorem run_append (o : Options) : ∀ (xs ys : List DataType) (s : LeafSt),
    run o s (xs ++ ys) = match run o s xs with | .ok s' => run o s' ys | .error e => .error e
  | [], ys, s => by simp [run]
  | a :: xs, ys, s => by
    simp only [List.cons_append, run]
    cases act o s a with
    | ok s' => simp only; exact run_append o xs ys s'
    | error e => rfl

theorem run_mem (o : Options) : ∀ (xs : List DataType) (s r : LeafSt), s ∈ leafStates o →
    (∀ a ∈ xs, a ∈ leafTypes o) → run o s xs = .ok r → r ∈ leafStates o
  | [], s, r, hs, _, h => by simp [run] at h; rw [← h]; exact hs
  | a :: xs, s, r, hs, hx, h => by
    simp only [run] at h
    cases h1 : act o s a with
    | ok s' =>
      rw [h1] at h
      exact run_mem o xs s' r (step_facts o hs (hx a (by simp)) h1).1 (fun b hb => hx b (by simp [hb])) h
    | error e => rw [h1] at h; cases h

/-- generic adjacent-swap argument: a relation that is preserved by a common head, holds across a swap of two heads
and is transitive holds across every permutation -/
theorem perm_lift {α σ : Type} (f : σ → List α → R σ) (P : α → Prop) (Q : σ → Prop)
    (hcons : ∀ s a l1 l2, Q s → P a → (∀ s', Q s' → OutEq (f s' l1) (f s' l2)) → OutEq (f s (a :: l1)) (f s (a :: l2)))
    (hswap : ∀ s a b l, Q s → P a → P b → OutEq (f s (a :: b :: l)) (f s (b :: a :: l)))
    {l1 l2 : List α} (hp : l1.Perm l2) : (∀ a ∈ l1, P a) → ∀ s, Q s → OutEq (f s l1) (f s l2) := by
  induction hp with
  | nil => intro _ s _; exact OutEq.refl _
  | cons a _ ih =>
    intro hP s hs
    exact hcons s a _ _ hs (hP a (by simp)) (fun s' hs' => ih (fun b hb => hP b (by simp [hb])) s' hs')
  | swap a b l =>
    intro hP s hs
    exact hswap s b a l hs (hP b (by simp)) (hP a (by simp))
  | trans h1 _ ih1 ih2 =>
    intro hP s hs
    exact OutEq.trans (ih1 hP s hs) (ih2 (fun a ha => hP a (h1.mem_iff.mpr ha)) s hs)

/-- `leaf_permutation` (`C07_permutation` at a leaf position): unless `allow_to_string`, every permutation of the same
samples gives the same outcome — the same state, or failure in both orders — from every reachable state -/
theorem leaf_permutation (o : Options) (hno : o.allow_to_string = false) {l1 l2 : List DataType}
    (hp : l1.Perm l2) (hl : ∀ a ∈ l1, a ∈ leafTypes o) {s : LeafSt} (hs : s ∈ leafStates o) :
    OutEq (run o s l1) (run o s l2) := by
  refine perm_lift (run o) (· ∈ leafTypes o) (· ∈ leafStates o) ?_ ?_ hp hl s hs
  · intro s a l1 l2 hs ha ih
    simp only [run]
    cases h1 : act o s a with
    | ok s' => exact ih s' (step_facts o hs ha h1).1
    | error e => exact .inr ⟨rfl, rfl⟩
  · intro s a b l hs ha hb
    have hc := (coerce_comm o hs ha hb).1 hno
    have e1 : run o s (a :: b :: l) = match act2 o s a b with | .ok s' => run o s' l | .error e => .error e := by
      simp only [run, act2]; cases act o s a <;> rfl
    have e2 : run o s (b :: a :: l) = match act2 o s b a with | .ok s' => run o s' l | .error e => .error e := by
      simp only [run, act2]; cases act o s b <;> rfl
    rw [e1, e2]
    rcases hc with ⟨x, h1, h2⟩ | ⟨h1, h2⟩
    · rw [h1, h2]; exact OutEq.refl _
    · cases h3 : act2 o s a b with
      | ok _ => rw [h3] at h1; cases h1
      | error _ =>
        cases h4 : act2 o s b a with
        | ok _ => rw [h4] at h2; cases h2
        | error _ => exact .inr ⟨rfl, rfl⟩

/-- `C07_success_order` at a leaf position: unless `allow_to_string`, success does not depend on the order -/
theorem leaf_success_order (o : Options) (hno : o.allow_to_string = false) {l1 l2 : List DataType}
    (hp : l1.Perm l2) (hl : ∀ a ∈ l1, a ∈ leafTypes o) {s : LeafSt} (hs : s ∈ leafStates o) :
    (run o s l1).isOk = (run o s l2).isOk := by
  rcases leaf_permutation o hno hp hl hs with ⟨x, h1, h2⟩ | ⟨h1, h2⟩
  · rw [h1, h2]
  · rw [h1, h2]

/-! #### the result of a successful run is the least upper bound of what was seen -/

theorem sle_coerceView (o : Options) (s r : LeafSt) : sle o s r = sle o.coerceView s r := by
  unfold sle; cases s.1 <;> simp only [← act_coerceView]

theorem state_type_mem (o : Options) {ty : DataType} {nl : Bool} (hs : (some ty, nl) ∈ leafStates o) :
    ty ∈ leafTypes o := by
  have h := table_at stateTypesTable_all o
  unfold stateTypesTable at h
  rw [leafStates_coerceView] at hs
  have hr := List.all_eq_true.mp h _ hs
  simp only [List.any_eq_true, decide_eq_true_eq] at hr
  obtain ⟨x, hx, rfl⟩ := hr
  rw [leafTypes_coerceView]; exact hx

theorem sle_refl (o : Options) {s : LeafSt} (hs : s ∈ leafStates o) : sle o s s = true := by
  have h := table_at reflTable_all o
  unfold reflTable at h
  rw [leafStates_coerceView] at hs
  rw [sle_coerceView]; exact List.all_eq_true.mp h s hs

theorem stays_absorbed (o : Options) {r r' : LeafSt} {a b : DataType} (hr : r ∈ leafStates o) (ha : a ∈ leafTypes o)
    (hb : b ∈ leafTypes o) (h1 : act o r a = .ok r) (h2 : act o r b = .ok r') : act o r' a = .ok r' := by
  have h := table_at staysTable_all o
  unfold staysTable at h
  rw [leafStates_coerceView] at hr; rw [leafTypes_coerceView] at ha hb
  have hrow := List.all_eq_true.mp (List.all_eq_true.mp (List.all_eq_true.mp h r hr) a ha) b hb
  unfold staysRow at hrow
  rw [← act_coerceView, ← act_coerceView, h1, h2] at hrow
  simp only [decide_true, Bool.not_true, Bool.false_or, decide_eq_true_eq] at hrow
  rw [act_coerceView]; exact hrow

theorem run_stays (o : Options) {a : DataType} (ha : a ∈ leafTypes o) : ∀ (xs : List DataType) (q r : LeafSt),
    q ∈ leafStates o → (∀ b ∈ xs, b ∈ leafTypes o) → act o q a = .ok q → run o q xs = .ok r → act o r a = .ok r
  | [], q, r, _, _, h1, h => by simp [run] at h; rw [← h]; exact h1
  | b :: xs, q, r, hq, hx, h1, h => by
    simp only [run] at h
    cases h2 : act o q b with
    | ok q' =>
      rw [h2] at h
      have hb := hx b (by simp)
      exact run_stays o ha xs q' r (step_facts o hq hb h2).1 (fun c hc => hx c (by simp [hc]))
        (stays_absorbed o hq ha hb h1 h2) h
    | error e => rw [h2] at h; cases h

/-- every sample of a successful run has been absorbed by the result -/
theorem run_absorbed (o : Options) : ∀ (xs : List DataType) (s r : LeafSt), s ∈ leafStates o →
    (∀ a ∈ xs, a ∈ leafTypes o) → run o s xs = .ok r → ∀ a ∈ xs, act o r a = .ok r
  | [], _, _, _, _, _ => by simp
  | b :: xs, s, r, hs, hx, h => by
    intro a ha
    simp only [run] at h
    cases h2 : act o s b with
    | ok s' =>
      rw [h2] at h
      have hb := hx b (by simp)
      have hs' := (step_facts o hs hb h2).1
      have hx' : ∀ c ∈ xs, c ∈ leafTypes o := fun c hc => hx c (by simp [hc])
      rcases List.mem_cons.mp ha with rfl | ha'
      · exact run_stays o hb xs s' r hs' hx' (coerce_idem o hs hb h2) h
      · exact run_absorbed o xs s' r hs' hx' h a ha'
    | error e => rw [h2] at h; cases h

theorem run_sticky (o : Options) : ∀ (xs : List DataType) (s r : LeafSt), s ∈ leafStates o →
    (∀ a ∈ xs, a ∈ leafTypes o) → run o s xs = .ok r → s.2 = true → r.2 = true
  | [], s, r, _, _, h, hn => by simp [run] at h; rw [← h]; exact hn
  | b :: xs, s, r, hs, hx, h, hn => by
    simp only [run] at h
    cases h2 : act o s b with
    | ok s' =>
      rw [h2] at h
      have hb := hx b (by simp)
      exact run_sticky o xs s' r (step_facts o hs hb h2).1 (fun c hc => hx c (by simp [hc])) h
        (nullable_sticky o hs hb h2 hn)
    | error e => rw [h2] at h; cases h

/-- the start state is below the result -/
theorem run_sle (o : Options) (xs : List DataType) (s r : LeafSt) (hs : s ∈ leafStates o)
    (hx : ∀ a ∈ xs, a ∈ leafTypes o) (h : run o s xs = .ok r) : sle o s r = true := by
  have hrefl := sle_refl o hs
  unfold sle at hrefl ⊢
  simp only [Bool.and_eq_true, Bool.or_eq_true, Bool.not_eq_true'] at hrefl ⊢
  constructor
  · obtain ⟨t, nl⟩ := s
    cases t with
    | none => rfl
    | some ty =>
      simp only [decide_eq_true_eq] at hrefl ⊢
      exact run_stays o (state_type_mem o hs) xs _ r hs hx hrefl.1 h
  · cases hn : s.2 with
    | false => exact .inl rfl
    | true => exact .inr (run_sticky o xs s r hs hx h hn)

theorem least_step (o : Options) {q q' r : LeafSt} {a : DataType} (hq : q ∈ leafStates o) (hr : r ∈ leafStates o)
    (ha : a ∈ leafTypes o) (h1 : sle o q r = true) (h2 : act o r a = .ok r) (h3 : act o q a = .ok q') :
    sle o q' r = true := by
  have hall : coerceOptions.all leastTable = true := by
    have e : coerceOptions = coerceOptions.take 4 ++ coerceOptions.drop 4 := by decide
    rw [e, List.all_append, leastTable_lo, leastTable_hi]; rfl
  have h := table_at hall o
  unfold leastTable at h
  rw [leafStates_coerceView] at hq hr; rw [leafTypes_coerceView] at ha
  have hrow := List.all_eq_true.mp (List.all_eq_true.mp (List.all_eq_true.mp h q hq) r hr) a ha
  unfold leastRow at hrow
  rw [← sle_coerceView, ← act_coerceView, ← act_coerceView, h1, h2, h3] at hrow
  simp only [decide_true, Bool.and_self, Bool.not_true, Bool.false_or] at hrow
  rw [sle_coerceView]; exact hrow

theorem run_least (o : Options) {r : LeafSt} (hr : r ∈ leafStates o) : ∀ (xs : List DataType) (q q' : LeafSt),
    q ∈ leafStates o → (∀ a ∈ xs, a ∈ leafTypes o) → sle o q r = true → (∀ a ∈ xs, act o r a = .ok r) →
    run o q xs = .ok q' → sle o q' r = true
  | [], q, q', _, _, h1, _, h => by simp [run] at h; rw [← h]; exact h1
  | b :: xs, q, q', hq, hx, h1, h2, h => by
    simp only [run] at h
    cases h3 : act o q b with
    | ok q1 =>
      rw [h3] at h
      have hb := hx b (by simp)
      exact run_least o hr xs q1 q' (step_facts o hq hb h3).1 (fun c hc => hx c (by simp [hc]))
        (least_step o hq hr hb h1 (h2 b (by simp)) h3) (fun c hc => h2 c (by simp [hc])) h
    | error e => rw [h3] at h; cases h

theorem sle_antisymm (o : Options) {r1 r2 : LeafSt} (h1 : r1 ∈ leafStates o) (h2 : r2 ∈ leafStates o)
    (h12 : sle o r1 r2 = true) (h21 : sle o r2 r1 = true) : r1 = r2 := by
  have h := table_at antisymTable_all o
  unfold antisymTable at h
  rw [leafStates_coerceView] at h1 h2
  have hrow := List.all_eq_true.mp (List.all_eq_true.mp h r1 h1) r2 h2
  rw [← sle_coerceView, ← sle_coerceView, h12, h21] at hrow
  simpa using hrow

/-- `leaf_order_and_repetition` (`C07_permutation` + `C07_repeat` at a leaf position, every option setting including
`allow_to_string`): two sample lists with the same SET of kinds — any order, any multiplicities — that both trace
successfully give the same state -/
theorem leaf_order_and_repetition (o : Options) {xs ys : List DataType} {s r1 r2 : LeafSt} (hs : s ∈ leafStates o)
    (hx : ∀ a ∈ xs, a ∈ leafTypes o) (hset : ∀ a, a ∈ xs ↔ a ∈ ys)
    (h1 : run o s xs = .ok r1) (h2 : run o s ys = .ok r2) : r1 = r2 := by
  have hy : ∀ a ∈ ys, a ∈ leafTypes o := fun a ha => hx a ((hset a).mpr ha)
  have hr1 := run_mem o xs s r1 hs hx h1
  have hr2 := run_mem o ys s r2 hs hy h2
  have a1 := run_absorbed o xs s r1 hs hx h1
  have a2 := run_absorbed o ys s r2 hs hy h2
  refine sle_antisymm o hr1 hr2 ?_ ?_
  · exact run_least o hr2 xs s r1 hs hx (run_sle o ys s r2 hs hy h2) (fun a ha => a2 a ((hset a).mp ha)) h1
  · exact run_least o hr1 ys s r2 hs hy (run_sle o xs s r1 hs hx h1) (fun a ha => a1 a ((hset a).mpr ha)) h2

theorem run_absorbed_id (o : Options) : ∀ (xs : List DataType) (r : LeafSt), (∀ a ∈ xs, act o r a = .ok r) →
    run o r xs = .ok r
  | [], _, _ => rfl
  | a :: xs, r, h => by
    simp only [run]
    rw [h a (by simp)]
    exact run_absorbed_id o xs r (fun b hb => h b (by simp [hb]))

/-- `leaf_repeat` (`C07_repeat` at a leaf position): tracing a collection twice is tracing it once — the same state on
success, the same failure otherwise -/
theorem leaf_repeat (o : Options) {xs : List DataType} {s : LeafSt} (hs : s ∈ leafStates o)
    (hx : ∀ a ∈ xs, a ∈ leafTypes o) : run o s (xs ++ xs) = run o s xs := by
  rw [run_append]
  cases h : run o s xs with
  | ok r => exact run_absorbed_id o xs r (run_absorbed o xs s r hs hx h)
  | error e => rfl

/-! ### the lattice is the tracer's: `ensure_primitive` on `Unknown` / `Primitive` nodes, any name and path -/

theorem ite_prop {α} {P : α → Prop} {c : Prop} [Decidable c] {x y : α} (hx : P x) (hy : P y) :
    P (if c then x else y) := by split <;> assumption

/-- the strategy of a primitive node stays `None` (every call site of `TracerSerializer` passes `None`) -/
theorem coerce_strategy_none (o : Options) (pty ty : DataType) (nl : Bool) :
    ∀ a b c, coerce_primitive_type o pty nl none ty none = .ok (a, b, c) → c = none := by
  unfold coerce_primitive_type
  repeat (first
    | (refine ite_prop (P := fun r => ∀ a b c, r = Except.ok (a, b, c) → c = none) ?_ ?_
       · intro a b c h; cases h; rfl)
    | (intro a b c h; cases h))

theorem ensure_primitive_embed (o : Options) (name path : String) (s : LeafSt) (ty : DataType) :
    (LeafSt.embed name path s).ensure_primitive o ty =
      match act o s ty with
      | .ok s' => .ok (LeafSt.embed name path s')
      | .error e => .error e := by
  obtain ⟨t, nl⟩ := s
  cases t with
  | none => rfl
  | some pty =>
    simp only [LeafSt.embed, Tracer.ensure_primitive, Tracer.ensure_primitive_with_strategy, act]
    cases h : coerce_primitive_type o pty nl none ty none with
    | ok v =>
      obtain ⟨a, b, c⟩ := v
      have hc := coerce_strategy_none o pty ty nl a b c h
      subst hc
      rfl
    | error e => rfl

theorem mark_nullable_embed (name path : String) (s : LeafSt) :
    (LeafSt.embed name path s).mark_nullable = LeafSt.embed name path (mark s) := by
  obtain ⟨t, nl⟩ := s
  cases t <;> rfl

/-- every primitive leaf sample is absorbed through `ensure_primitive` with a type of the alphabet -/
theorem absorb_prim (c : Code) (o : Options) (t : Tracer) {x : SVal} {ty : DataType} (h : leafTypeOf o x = some ty) :
    absorb c o t x = t.ensure_primitive o ty := by
  cases x <;> simp only [leafTypeOf, Option.some.injEq, reduceCtorEq] at h <;> subst h <;>
    simp only [absorb, Tracer.ensure_number, Tracer.ensure_primitive]

theorem strType_mem (o : Options) (s : String) : strType o s ∈ leafTypes o := by
  unfold strType leafTypes
  repeat' split
  all_goals simp

theorem leafTypeOf_mem (o : Options) {x : SVal} {ty : DataType} (h : leafTypeOf o x = some ty) : ty ∈ leafTypes o := by
  cases x <;> simp only [leafTypeOf, Option.some.injEq, reduceCtorEq] at h <;> subst h
  case str s => exact strType_mem o s
  case int t _ => cases t <;> simp [intDataType, leafTypes]
  all_goals simp [leafTypes]

/-- `None` and `Some(x)` at a leaf position: `mark_nullable`, then `x` -/
theorem absorb_none_embed (c : Code) (o : Options) (name path : String) (s : LeafSt) :
    absorb c o (LeafSt.embed name path s) .none = .ok (LeafSt.embed name path (mark s)) := by
  simp only [absorb, mark_nullable_embed]

theorem absorb_some_embed (c : Code) (o : Options) (name path : String) (s : LeafSt) (v : SVal) :
    absorb c o (LeafSt.embed name path s) (.some v) = absorb c o (LeafSt.embed name path (mark s)) v := by
  simp only [absorb, mark_nullable_embed]

/-! ### repaired and pinned code on the defect witnesses (whole pipeline `from_samples(Items(..))`, by evaluation) -/

def wRec : SVal := .record "S" (.cons "b" 0 (.int .i32 1) (.cons "a" 0 (.int .i32 2) .nil))
def wMap : SVal := .map (.cons (.str "b") (.int .i32 1) (.cons (.str "a") (.int .i32 2) .nil))

set_option maxRecDepth 100000 in
/-- finding #26, repaired: struct-then-map and map-then-struct at one position give the same schema -/
theorem C07_struct_map_mode :
    fromSamples .fixed {} (itemsOf [wRec, wMap]) = fromSamples .fixed {} (itemsOf [wMap, wRec]) ∧
    (fromSamples .fixed {} (itemsOf [wRec, wMap])).isOk = true := by decide +kernel

/-- `some b`: both runs succeed and `b` says whether the schemas agree up to the allowed field order -/
def bothOkEquiv (x y : R (List Field)) : Option Bool :=
  match x, y with
  | .ok a, .ok b => some (Spec.schemaEquiv a b)
  | _, _ => none

set_option maxRecDepth 100000 in
/-- finding #26, pinned: the two orders succeed with schemas that differ even up to field order -/
theorem C07_struct_map_mode_pinned :
    bothOkEquiv (fromSamplesPinned {} (itemsOf [wRec, wMap])) (fromSamplesPinned {} (itemsOf [wMap, wRec])) = some false := by
  decide +kernel

def wT2 : SVal := .tuple (.cons (.int .i32 1) (.cons (.int .i32 2) .nil))
def wT3 : SVal := .tuple (.cons (.int .i32 1) (.cons (.int .i32 2) (.cons (.int .i32 3) .nil)))

/-- is the field called `name` of the single traced column (a struct) nullable? -/
def childNullable (r : R (List Field)) (name : String) : Option Bool :=
  match r with
  | .ok [f] => match f.dataType with
    | .struct fs => (fs.toList.find? (fun g => g.name = name)).map Field.nullable
    | _ => none
  | _ => none

set_option maxRecDepth 100000 in
/-- finding #25, repaired: `(1,2)` and `(1,2,3)` at one position: the third field is nullable, in both orders, and the
two orders give the same schema -/
theorem C07_tuple_arity :
    fromSamples .fixed {} (itemsOf [wT2, wT3]) = fromSamples .fixed {} (itemsOf [wT3, wT2]) ∧
    childNullable (fromSamples .fixed {} (itemsOf [wT2, wT3])) "2" = some true := by decide +kernel

set_option maxRecDepth 100000 in
/-- finding #25, pinned: the third field is not nullable although the first sample lacks it -/
theorem C07_tuple_arity_pinned :
    childNullable (fromSamplesPinned {} (itemsOf [wT2, wT3])) "2" = some false := by decide +kernel

/-- two samples absorbed one after the other -/
def absorb2 (c : Code) (o : Options) (t : Tracer) (x y : SVal) : R Tracer :=
  match absorb c o t x with
  | .ok t' => absorb c o t' y
  | .error e => .error e

theorem absorb2_leaf (c : Code) (o : Options) (name path : String) (s : LeafSt) {x y : SVal} {a b : DataType}
    (hx : leafTypeOf o x = some a) (hy : leafTypeOf o y = some b) :
    absorb2 c o (LeafSt.embed name path s) x y =
      match act2 o s a b with
      | .ok s' => .ok (LeafSt.embed name path s')
      | .error e => .error e := by
  unfold absorb2 act2
  rw [absorb_prim c o _ hx, ensure_primitive_embed]
  cases act o s a with
  | ok s' => simp only; rw [absorb_prim c o _ hy, ensure_primitive_embed] <;> try rfl
  | error e => rfl

/-- `absorb_comm_leaf`: the swap law of `absorb` itself, for any two primitive leaf samples at a position that holds
an `Unknown` or `Primitive` node (any name, any path, any reachable state).  It is the leaf case of the general
`absorb_comm` (SaModel/Props/C07Tree.lean), which covers all nested samples. -/
theorem absorb_comm_leaf (c : Code) (o : Options) (hno : o.allow_to_string = false) (name path : String)
    {s : LeafSt} (hs : s ∈ leafStates o) {x y : SVal} {a b : DataType}
    (hx : leafTypeOf o x = some a) (hy : leafTypeOf o y = some b) :
    OutEq (absorb2 c o (LeafSt.embed name path s) x y) (absorb2 c o (LeafSt.embed name path s) y x) := by
  rw [absorb2_leaf c o name path s hx hy, absorb2_leaf c o name path s hy hx]
  rcases (coerce_comm o hs (leafTypeOf_mem o hx) (leafTypeOf_mem o hy)).1 hno with ⟨r, h1, h2⟩ | ⟨h1, h2⟩
  · rw [h1, h2]; exact OutEq.refl _
  · cases h3 : act2 o s a b with
    | ok _ => rw [h3] at h1; cases h1
    | error _ =>
      cases h4 : act2 o s b a with
      | ok _ => rw [h4] at h2; cases h2
      | error _ => exact .inr ⟨rfl, rfl⟩

/-! ### the swap and repetition laws on nested shapes, by evaluation (`SaModel/Lemmas/C07Zoo.lean`) -/

/-- `absorb_comm` and `C07_repeat` on the zoo (repaired code): every ordered pair of 20 nested shapes (optional, lists,
structs with missing fields, maps with varying keys, tuples, enum variants, nesting) under 4 option settings, through the
whole `from_samples(Items(..))` pipeline: swapping the two samples gives an equivalent schema or fails alike (a
success/failure mismatch only under `allow_to_string`), and tracing the pair twice changes nothing -/
theorem absorb_comm_on_zoo : ∀ o ∈ zooOpts, ∀ x ∈ zooVals, ∀ y ∈ zooVals, swapOK o x y = true ∧ repeatOK o x y = true := by
  intro o ho x hx y hy
  have h := List.all_eq_true.mp (List.all_eq_true.mp (List.all_eq_true.mp zoo_swap_repeat o ho) x hx) y hy
  simpa using h

end SaModel.Props.C07
