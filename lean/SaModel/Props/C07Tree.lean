import SaModel.Lemmas.C07LMain
/-
C07 at tree level — the traced tracer tree does not depend on sample order, for arbitrary nested samples.
Model: SaModel/Trace/{Tracer,FromSamples}.lean (repaired code, `Code.fixed`).  Lemmas: SaModel/Lemmas/C07T*.lean (swap /
congruence / schema), SaModel/Lemmas/C07L*.lean (least upper bound).

* `TracerEquiv` (`≃`): the equivalence the property allows on tracer trees — struct fields are compared as a finite
  map by name (any order), `last_seen_in_sample` is ignored, `seen_samples` is compared only as zero / non-zero;
  everything else (names, paths, nullable flags, leaf types, struct mode, tuple positions, variant slots) is equal.
* `Reachable o t`: the invariant every tracer built by `from_samples` satisfies (leaf states of the alphabet, distinct
  field names, `last_seen_in_sample < seen_samples`).
* `TracerLe o t u` (`⊑`): the information order (leaf: the coercion order of the leaf tables; nullable `false ⊑ true`;
  `Unknown` / `Null` below every node with the canonical names and paths; struct: fields by name, missing ⊑ present
  (nullable once a sample has been seen), mode `struct ⊑ map`; tuple / union by position; list / map pointwise).
  `tracerLe_antisymm`: `t ⊑ u ⊑ t` gives `t ≃ u`.
* `absorb_lub` (EVERY option setting, `allow_to_string` included): a successful `absorb t x = a` is the LEAST tracer
  above `t` that has absorbed `x`: `t ⊑ a`, and for every reachable `u ⊒ t`: `u` absorbs `x` without moving ⇔ `a ⊑ u`.
* `absorbAll_same_set`: two runs from one tracer over the same SET of nested samples (any order, any multiplicity) that
  both succeed end in equivalent tracers; `absorb_idem`, `absorbAll_repeat` — no side condition.
* `absorb_congr`, `absorb_reachable`, `absorb_comm`, `absorbAll_perm`, `fromSamplesTracer_perm`: the swap laws
  (both orders fail TOGETHER) — these need `allow_to_string = false` (`allow_to_string_needed`).
* `tracerEquiv_schema`: equivalent reachable tracers give `Spec.schemaEquiv` schemas or fail alike; hence on schemas
  `C07_permutation` (two orders that both succeed give equivalent schemas — every option setting), `C07_repeat`
  (tracing `xs ++ xs` is tracing `xs` — every option setting), `C07_success_order` (unless `allow_to_string`, success
  itself does not depend on the order).
-/
namespace SaModel.Props.C07
open SaModel SaModel.Trace SaModel.Lemmas.C07

/-- the schema equivalence on tracer trees -/
abbrev TracerEquiv (a b : Tracer) : Prop := Eqv a b

/-- the reachability invariant -/
abbrev Reachable (o : Options) (t : Tracer) : Prop := WF o t

/-- both succeed with equivalent reachable tracers, or both fail -/
abbrev OutEq' (o : Options) (r r' : R Tracer) : Prop := OutEqv o r r'

theorem reachable_new (o : Options) (name path : String) : Reachable o (Tracer.new name path) := by
  unfold Reachable Tracer.new; rw [WF]; trivial

theorem TracerEquiv.refl {o : Options} {t : Tracer} (h : Reachable o t) : TracerEquiv t t := Eqv.refl h
theorem TracerEquiv.symm {a b : Tracer} (h : TracerEquiv a b) : TracerEquiv b a := Eqv.symm h
theorem TracerEquiv.trans {a b c : Tracer} (h : TracerEquiv a b) (h' : TracerEquiv b c) : TracerEquiv a c :=
  Eqv.trans h h'

/-- absorbing any sample preserves the invariant -/
theorem absorb_reachable (o : Options) {t a : Tracer} (x : SVal) (ht : Reachable o t)
    (h : absorb .fixed o t x = .ok a) : Reachable o a := (cong_any o x).wf ht h

/-- `absorb_congr`: absorbing any (nested) sample respects the equivalence — every option setting -/
theorem absorb_congr (o : Options) {t t' : Tracer} (ht : Reachable o t) (ht' : Reachable o t') (he : TracerEquiv t t')
    (x : SVal) : OutEq' o (absorb .fixed o t x) (absorb .fixed o t' x) := cong_out o ht ht' he x

/-- `absorb_comm`: any two nested samples `x`, `y` can be swapped at any reachable tracer: both orders fail, or both
succeed with equivalent tracers (unless `allow_to_string`) -/
theorem absorb_comm (o : Options) (hno : o.allow_to_string = false) {t : Tracer} (ht : Reachable o t) (x y : SVal) :
    OutEq' o (absorb2 .fixed o t x y) (absorb2 .fixed o t y x) := swap_out hno ht x y

/-- every permutation of a list of nested samples, from equivalent reachable tracers -/
theorem absorbAll_perm (o : Options) (hno : o.allow_to_string = false) {xs ys : List SVal} (hp : xs.Perm ys)
    {t t' : Tracer} (ht : Reachable o t) (ht' : Reachable o t') (he : TracerEquiv t t') :
    OutEq' o (absorbAll .fixed o t xs) (absorbAll .fixed o t' ys) := perm_out hno hp ht ht' he

/-- `Tracer::from_samples` (including `check`) succeeds for a permutation iff it succeeds for the original, with
equivalent tracers -/
theorem fromSamplesTracer_perm (o : Options) (hno : o.allow_to_string = false) {xs ys : List SVal} (hp : xs.Perm ys) :
    OutEq' o (fromSamplesTracer .fixed o xs) (fromSamplesTracer .fixed o ys) := by
  have hn := reachable_new o "$" "$"
  rcases perm_out hno hp hn hn (Eqv.refl hn) with ⟨a, b, h1, h2, he, hwa, hwb⟩ | ⟨h1, h2⟩
  · cases hc : a.check o with
    | ok u =>
      refine .inl ⟨a, b, fromSamplesTracer_ok.mpr ⟨h1, hc⟩, fromSamplesTracer_ok.mpr ⟨h2, ?_⟩, he, hwa, hwb⟩
      rw [← check_eqv o he]; exact hc
    | error e =>
      refine .inr ⟨?_, ?_⟩
      · cases hf : fromSamplesTracer .fixed o xs with
        | error _ => rfl
        | ok a' =>
          obtain ⟨h3, h4⟩ := fromSamplesTracer_ok.mp hf
          rw [h1] at h3; cases h3; rw [hc] at h4; cases h4
      · cases hf : fromSamplesTracer .fixed o ys with
        | error _ => rfl
        | ok b' =>
          obtain ⟨h3, h4⟩ := fromSamplesTracer_ok.mp hf
          rw [h2] at h3; cases h3; rw [← check_eqv o he, hc] at h4; cases h4
  · refine .inr ⟨?_, ?_⟩
    · cases hf : fromSamplesTracer .fixed o xs with
      | error _ => rfl
      | ok a' => rw [(fromSamplesTracer_ok.mp hf).1] at h1; cases h1
    · cases hf : fromSamplesTracer .fixed o ys with
      | error _ => rfl
      | ok b' => rw [(fromSamplesTracer_ok.mp hf).1] at h2; cases h2

/-! ### the least-upper-bound law (every option setting) -/

/-- the information order on tracer trees -/
abbrev TracerLe (o : Options) (t u : Tracer) : Prop := TLe o t u

theorem tracerLe_refl (o : Options) {t : Tracer} (ht : Reachable o t) : TracerLe o t t := TLe_refl o t ht

theorem tracerLe_trans {o : Options} {a b c : Tracer} (ha : Reachable o a) (hb : Reachable o b) (hc : Reachable o c)
    (h1 : TracerLe o a b) (h2 : TracerLe o b c) : TracerLe o a c := TLe_trans h1 ha hb hc h2

theorem tracerLe_antisymm {o : Options} {a b : Tracer} (ha : Reachable o a) (hb : Reachable o b)
    (h1 : TracerLe o a b) (h2 : TracerLe o b a) : TracerEquiv a b := eqv_of_le ha hb h1 h2

/-- `absorb_lub`: a successful `absorb t x = a` is the least tracer above `t` that has absorbed `x` — for every nested
sample, every reachable tracer and EVERY option setting (`allow_to_string` included): `t ⊑ a`, and a reachable `u ⊒ t`
absorbs `x` without moving up exactly when `a ⊑ u` -/
theorem absorb_lub (o : Options) {t a : Tracer} (x : SVal) (ht : Reachable o t) (h : absorb .fixed o t x = .ok a) :
    TracerLe o t a ∧ ∀ u, Reachable o u → TracerLe o t u →
      ((∃ b, absorb .fixed o u x = .ok b ∧ TracerLe o b u) ↔ TracerLe o a u) := by
  refine ⟨(lub_any o x t t a ht ht (TLe_refl o t ht) h).1, ?_⟩
  intro u hu htu
  obtain ⟨_, L2, L3⟩ := lub_any o x t u a ht hu htu h
  constructor
  · rintro ⟨b, hb, hle⟩
    exact TLe_trans (L2 b hb) (absorb_reachable o x ht h) (absorb_reachable o x hu hb) hu hle
  · exact L3

/-- two runs from one reachable tracer over the same SET of nested samples — any order, any multiplicity — that both
succeed end in equivalent tracers (every option setting) -/
theorem absorbAll_same_set (o : Options) {xs ys : List SVal} {t t1 t2 : Tracer} (ht : Reachable o t)
    (hset : ∀ x, x ∈ xs ↔ x ∈ ys) (h1 : absorbAll .fixed o t xs = .ok t1) (h2 : absorbAll .fixed o t ys = .ok t2) :
    TracerEquiv t1 t2 := same_set_eqv ht h1 h2 hset

/-- `absorb_idem`: a sample that has been absorbed is absorbed again without changing the tracer (every option
setting) -/
theorem absorb_idem (o : Options) {t t' : Tracer} (ht : Reachable o t) (x : SVal)
    (h : absorb .fixed o t x = .ok t') : OutEq' o (absorb .fixed o t' x) (.ok t') := by
  have hw' := absorb_reachable o x ht h
  obtain ⟨b, hb, he⟩ := run_again (xs := [x]) ht (absorbAll_cons_mk h rfl)
  obtain ⟨m, h1, h2⟩ := absorbAll_cons_ok hb
  cases h2
  exact .inl ⟨b, t', h1, rfl, he, absorb_reachable o x hw' h1, hw'⟩

/-- tracing a list twice is tracing it once (same failure, equivalent tracers; every option setting) -/
theorem absorbAll_repeat (o : Options) {t : Tracer} (ht : Reachable o t)
    (xs : List SVal) : OutEq' o (absorbAll .fixed o t (xs ++ xs)) (absorbAll .fixed o t xs) := by
  cases h : absorbAll .fixed o t xs with
  | ok t' =>
    obtain ⟨b, hb, he⟩ := run_again ht h
    have hw' := absorbAll_wf o ht h
    exact .inl ⟨b, t', absorbAll_append_mk h hb, rfl, he, absorbAll_wf o hw' hb, hw'⟩
  | error e =>
    refine .inr ⟨?_, rfl⟩
    cases h2 : absorbAll .fixed o t (xs ++ xs) with
    | error _ => rfl
    | ok a =>
      obtain ⟨m, h3, _⟩ := absorbAll_append_ok h2
      rw [h] at h3; cases h3

/-- both succeed with schemas that are equal up to the order of the children of plain structs
(`Spec.schemaEquiv`), or both fail -/
abbrev SchemaOutEq' (r r' : R (List Field)) : Prop := SchemaOutEq r r'

/-- equivalent reachable tracers give equivalent schemas, or `to_schema` fails for both -/
theorem tracerEquiv_schema (o : Options) {a b : Tracer} (he : TracerEquiv a b) (ha : Reachable o a) (hb : Reachable o b) :
    SchemaOutEq' (a.to_schema o) (b.to_schema o) := schema_out he ha hb

/-- `C07_permutation` + `C07_success_order` for arbitrary nested samples: unless `allow_to_string`, tracing any
permutation of a sample collection fails iff tracing the collection fails, and otherwise gives an equivalent schema -/
theorem fromSamples_perm (o : Options) (hno : o.allow_to_string = false) {xs ys : List SVal} (hp : xs.Perm ys) :
    SchemaOutEq' (fromSamples .fixed o xs) (fromSamples .fixed o ys) :=
  schema_of_tracers (fromSamplesTracer_perm o hno hp)

theorem fromSamples_success_order (o : Options) (hno : o.allow_to_string = false) {xs ys : List SVal} (hp : xs.Perm ys) :
    (fromSamples .fixed o xs).isOk = (fromSamples .fixed o ys).isOk := by
  rcases fromSamples_perm o hno hp with ⟨s, s', h1, h2, _⟩ | ⟨h1, h2⟩
  · rw [h1, h2]; rfl
  · rw [h1, h2]

/-- `C07_repeat` for arbitrary nested samples, every option setting: tracing a collection twice is tracing it once -/
theorem fromSamples_repeat (o : Options) (xs : List SVal) :
    SchemaOutEq' (fromSamples .fixed o (xs ++ xs)) (fromSamples .fixed o xs) := by
  apply schema_of_tracers
  have hn := reachable_new o "$" "$"
  rcases absorbAll_repeat o hn xs with ⟨a, b, h1, h2, he, hwa, hwb⟩ | ⟨h1, h2⟩
  · cases hc : a.check o with
    | ok u =>
      refine .inl ⟨a, b, fromSamplesTracer_ok.mpr ⟨h1, hc⟩, fromSamplesTracer_ok.mpr ⟨h2, ?_⟩, he, hwa, hwb⟩
      rw [← check_eqv o he]; exact hc
    | error e =>
      refine .inr ⟨?_, ?_⟩
      · cases hf : fromSamplesTracer .fixed o (xs ++ xs) with
        | error _ => rfl
        | ok a' =>
          obtain ⟨h3, h4⟩ := fromSamplesTracer_ok.mp hf
          rw [h1] at h3; cases h3; rw [hc] at h4; cases h4
      · cases hf : fromSamplesTracer .fixed o xs with
        | error _ => rfl
        | ok b' =>
          obtain ⟨h3, h4⟩ := fromSamplesTracer_ok.mp hf
          rw [h2] at h3; cases h3; rw [← check_eqv o he, hc] at h4; cases h4
  · refine .inr ⟨?_, ?_⟩
    · cases hf : fromSamplesTracer .fixed o (xs ++ xs) with
      | error _ => rfl
      | ok a' => rw [(fromSamplesTracer_ok.mp hf).1] at h1; cases h1
    · cases hf : fromSamplesTracer .fixed o xs with
      | error _ => rfl
      | ok b' => rw [(fromSamplesTracer_ok.mp hf).1] at h2; cases h2

/-- two sample collections with the same SET of samples — any order, any multiplicity — that both trace successfully
give equivalent schemas (every option setting; the tree-level form of `leaf_order_and_repetition`) -/
theorem fromSamples_same_set (o : Options) {xs ys : List SVal} (hset : ∀ x, x ∈ xs ↔ x ∈ ys)
    {s₁ s₂ : List Field} (h1 : fromSamples .fixed o xs = .ok s₁) (h2 : fromSamples .fixed o ys = .ok s₂) :
    Spec.schemaEquiv s₁ s₂ = true := by
  have hn := reachable_new o "$" "$"
  have tr_ok : ∀ {zs : List SVal} {s : List Field}, fromSamples .fixed o zs = .ok s →
      ∃ a, fromSamplesTracer .fixed o zs = .ok a := by
    intro zs s h
    rw [fromSamples_eq] at h
    cases hf : fromSamplesTracer .fixed o zs with
    | ok a => exact ⟨a, rfl⟩
    | error e => rw [hf] at h; cases h
  obtain ⟨a, ha⟩ := tr_ok h1
  obtain ⟨b, hb⟩ := tr_ok h2
  have ha' := (fromSamplesTracer_ok.mp ha).1
  have hb' := (fromSamplesTracer_ok.mp hb).1
  have he := absorbAll_same_set o hn hset ha' hb'
  have hout : OutEq' o (fromSamplesTracer .fixed o xs) (fromSamplesTracer .fixed o ys) :=
    .inl ⟨a, b, ha, hb, he, absorbAll_wf o hn ha', absorbAll_wf o hn hb'⟩
  rcases schema_of_tracers hout with ⟨s, s', e1, e2, he'⟩ | ⟨e1, _⟩
  · rw [h1] at e1; rw [h2] at e2; cases e1; cases e2; exact he'
  · rw [h1] at e1; cases e1

/-! ### the statements of DESIGN.md section 5 -/

/-- `C07_permutation`: two permutations of a sample collection that both trace successfully give equivalent schemas —
arbitrary nested samples, EVERY option setting (with `allow_to_string` success itself may depend on the order:
`allow_to_string_needed`; without it see `C07_success_order`) -/
theorem C07_permutation (o : Options) {xs ys : List SVal} (hp : xs.Perm ys)
    {s₁ s₂ : List Field} (h1 : fromSamples .fixed o xs = .ok s₁) (h2 : fromSamples .fixed o ys = .ok s₂) :
    Spec.schemaEquiv s₁ s₂ = true := fromSamples_same_set o (fun _ => hp.mem_iff) h1 h2

/-- `C07_success_order`: unless `allow_to_string`, success does not depend on the order of the collection -/
theorem C07_success_order (o : Options) (hno : o.allow_to_string = false) {xs ys : List SVal} (hp : xs.Perm ys) :
    (fromSamples .fixed o xs).isOk = (fromSamples .fixed o ys).isOk := fromSamples_success_order o hno hp

/-- `C07_repeat`: tracing a collection twice fails iff tracing it once fails and otherwise gives an equivalent
schema — arbitrary nested samples, EVERY option setting -/
theorem C07_repeat (o : Options) (xs : List SVal) :
    SchemaOutEq' (fromSamples .fixed o (xs ++ xs)) (fromSamples .fixed o xs) := fromSamples_repeat o xs

/-! ### the side condition is needed; non-vacuity -/

/-- with `allow_to_string` the swap law fails: at a position that has seen a `bool`, `"x"` then `1i64` is accepted
(both become strings), `1i64` then `"x"` is not -/
theorem allow_to_string_needed :
    let o : Options := { allow_to_string := true }
    let t : Tracer := .primitive "a" "$.a" false .boolean none
    Reachable o t ∧ (absorb2 .fixed o t (.str "x") (.int .i64 1)).isOk = true ∧
      (absorb2 .fixed o t (.int .i64 1) (.str "x")).isOk = false := by
  refine ⟨?_, by decide, by decide⟩
  show WF _ _
  rw [WF]
  exact ⟨rfl, mem_leafStates.mpr ⟨by simp [leafTypes], fun h => by cases h⟩⟩

/-! non-vacuity: nested samples (struct with different fields, list of optionals inside a struct) at the root tracer,
both orders succeed -/
example : (absorb2 .fixed {} (Tracer.new "$" "$") wRec wMap).isOk = true ∧
    (absorb2 .fixed {} (Tracer.new "$" "$") wMap wRec).isOk = true := by decide

/-- the equivalence is not equality: the two orders of `{a}` and `{b, a}` give different, equivalent tracers -/
example : ∃ a b, absorb2 .fixed {} (Tracer.new "$" "$") (zrec [("a", zi 1)]) (zrec [("b", .str "s"), ("a", zi 2)]) = .ok a ∧
    absorb2 .fixed {} (Tracer.new "$" "$") (zrec [("b", .str "s"), ("a", zi 2)]) (zrec [("a", zi 1)]) = .ok b ∧
    a ≠ b ∧ TracerEquiv a b := by
  have hne : absorb2 .fixed {} (Tracer.new "$" "$") (zrec [("a", zi 1)]) (zrec [("b", .str "s"), ("a", zi 2)]) ≠
      absorb2 .fixed {} (Tracer.new "$" "$") (zrec [("b", .str "s"), ("a", zi 2)]) (zrec [("a", zi 1)]) := by decide
  rcases absorb_comm {} rfl (reachable_new {} "$" "$") (zrec [("a", zi 1)]) (zrec [("b", .str "s"), ("a", zi 2)]) with
    ⟨a, b, h1, h2, he, _, _⟩ | ⟨h1, _⟩
  · exact ⟨a, b, h1, h2, fun e => hne (by rw [h1, h2, e]), he⟩
  · have : (absorb2 .fixed {} (Tracer.new "$" "$") (zrec [("a", zi 1)]) (zrec [("b", .str "s"), ("a", zi 2)])).isOk = true := by
      decide
    rw [this] at h1; cases h1

/-- `absorb_idem` / `absorbAll_repeat` are not vacuous: a nested sample is absorbed at the root -/
example : (absorb .fixed {} (Tracer.new "$" "$") (zrec [("a", zrec [("p", zseq [zi 1, .none])])])).isOk = true := by decide

/-- `fromSamples_perm` / `fromSamples_repeat` are not vacuous: the two orders of a struct and a map sample (different
field order) both trace successfully -/
example : (fromSamples .fixed {} (itemsOf [wRec, wMap])).isOk = true ∧ [wRec, wMap].Perm [wMap, wRec] :=
  ⟨C07_struct_map_mode.2, List.Perm.swap _ _ _⟩

/-! non-vacuity of the `allow_to_string` case: nested samples (a list of optionals inside a struct inside a struct)
whose leaves meet as `i64` / `str` / `bool` in different orders: both orders trace successfully (to strings), the
schemas are equivalent by `C07_permutation`, and the samples are absorbed with a change (`absorb_lub` is not about a
fixed point only) -/
def wTs1 : SVal := zrec [("a", zrec [("p", zseq [zi 1, .none]), ("q", .bool true)])]
def wTs2 : SVal := zrec [("a", zrec [("q", .str "x"), ("p", zseq [.str "y"])])]

example : (fromSamples .fixed { allow_to_string := true } (itemsOf [wTs1, wTs2])).isOk = true ∧
    (fromSamples .fixed { allow_to_string := true } (itemsOf [wTs2, wTs1])).isOk = true ∧
    (itemsOf [wTs1, wTs2]).Perm (itemsOf [wTs2, wTs1]) := ⟨by decide, by decide, List.Perm.swap _ _ _⟩

/-- `C07_repeat` under `allow_to_string`: the doubled collection succeeds -/
example : (fromSamples .fixed { allow_to_string := true } (itemsOf [wTs1, wTs2] ++ itemsOf [wTs1, wTs2])).isOk = true := by
  decide

/-- `absorb_lub` is used at a step that moves the tracer: the second sample is absorbed into the result of the first
and changes it -/
example : ∃ a b, absorb .fixed { allow_to_string := true } (Tracer.new "$" "$") wTs1 = .ok a ∧
    absorb .fixed { allow_to_string := true } a wTs2 = .ok b ∧ a ≠ b := by
  have h : (absorb2 .fixed { allow_to_string := true } (Tracer.new "$" "$") wTs1 wTs2).isOk = true := by decide
  cases h1 : absorb .fixed { allow_to_string := true } (Tracer.new "$" "$") wTs1 with
  | error e => unfold absorb2 at h; rw [h1] at h; cases h
  | ok a =>
    cases h2 : absorb .fixed { allow_to_string := true } a wTs2 with
    | error e => unfold absorb2 at h; rw [h1] at h; simp only [h2] at h; cases h
    | ok b =>
      refine ⟨a, b, rfl, h2, ?_⟩
      intro e
      have hne : absorb2 .fixed { allow_to_string := true } (Tracer.new "$" "$") wTs1 wTs2 ≠
          absorb .fixed { allow_to_string := true } (Tracer.new "$" "$") wTs1 := by decide
      apply hne
      unfold absorb2
      rw [h1]
      show absorb .fixed { allow_to_string := true } a wTs2 = .ok a
      rw [h2, e]

end SaModel.Props.C07
