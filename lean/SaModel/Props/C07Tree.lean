import SaModel.Lemmas.C07TIdem
/-
C07 at tree level — the traced tracer tree does not depend on sample order, for arbitrary nested samples.
Model: SaModel/Trace/{Tracer,FromSamples}.lean (repaired code, `Code.fixed`).  Lemmas: SaModel/Lemmas/C07T*.lean.

* `TracerEquiv` (`≃`): the equivalence the property allows on tracer trees — struct fields are compared as a finite
  map by name (any order), `last_seen_in_sample` is ignored, `seen_samples` is compared only as zero / non-zero;
  everything else (names, paths, nullable flags, leaf types, struct mode, tuple positions, variant slots) is equal.
* `Reachable o t`: the invariant every tracer built by `from_samples` satisfies (leaf states of the alphabet, distinct
  field names, `last_seen_in_sample < seen_samples`).
* `absorb_congr`, `absorb_reachable`, `absorb_comm`, `absorb_idem`, `absorbAll_perm`, `absorbAll_repeat`,
  `fromSamplesTracer_perm`: the laws on tracer trees, for ALL nested samples (every constructor of `SVal`, including
  malformed map streams) and every reachable tracer.
* `tracerEquiv_schema`: equivalent reachable tracers give `Spec.schemaEquiv` schemas or fail alike; hence
  `fromSamples_perm` (= `C07_permutation` + `C07_success_order`) and `fromSamples_repeat` (= `C07_repeat`) on the traced
  schemas.
Side condition of the swap / repetition laws: `allow_to_string = false` (decidable; `allow_to_string_needed` shows by
evaluation that the swap law fails without it).  With `allow_to_string` only the leaf-level statement
`leaf_order_and_repetition` (Props/C07.lean) is proved.
-/
namespace SaModel.Props.C07
open SaModel SaModel.Trace SaModel.Lemmas.C07

/-- the schema equivalence on tracer trees -/
abbrev TracerEquiv (a b : Tracer) : Prop := Eqv a b

/-- the reachability invariant -/
abbrev Reachable (o : Options) (t : Tracer) : Prop := WF o t

/-- both succeed with equivalent reachable tracers, or both fail -/
abbrev OutEq' (o : Options) (r r' : R Tracer) : Prop := OutEqv o r r'

theorem reachable_new (o : Options) (name path : String) : Reachable o (Tracer.new name path) := by
  unfold Reachable Tracer.new; rw [WF]; trivial

theorem TracerEquiv.refl {o : Options} {t : Tracer} (h : Reachable o t) : TracerEquiv t t := Eqv.refl h
theorem TracerEquiv.symm {a b : Tracer} (h : TracerEquiv a b) : TracerEquiv b a := Eqv.symm h
theorem TracerEquiv.trans {a b c : Tracer} (h : TracerEquiv a b) (h' : TracerEquiv b c) : TracerEquiv a c :=
  Eqv.trans h h'

/-- absorbing any sample preserves the invariant -/
theorem absorb_reachable (o : Options) {t a : Tracer} (x : SVal) (ht : Reachable o t)
    (h : absorb .fixed o t x = .ok a) : Reachable o a := (cong_any o x).wf ht h

/-- `absorb_congr`: absorbing any (nested) sample respects the equivalence — every option setting -/
theorem absorb_congr (o : Options) {t t' : Tracer} (ht : Reachable o t) (ht' : Reachable o t') (he : TracerEquiv t t')
    (x : SVal) : OutEq' o (absorb .fixed o t x) (absorb .fixed o t' x) := cong_out o ht ht' he x

/-- `absorb_comm`: any two nested samples `x`, `y` can be swapped at any reachable tracer: both orders fail, or both
succeed with equivalent tracers (unless `allow_to_string`) -/
theorem absorb_comm (o : Options) (hno : o.allow_to_string = false) {t : Tracer} (ht : Reachable o t) (x y : SVal) :
    OutEq' o (absorb2 .fixed o t x y) (absorb2 .fixed o t y x) := swap_out hno ht x y

/-- every permutation of a list of nested samples, from equivalent reachable tracers -/
theorem absorbAll_perm (o : Options) (hno : o.allow_to_string = false) {xs ys : List SVal} (hp : xs.Perm ys)
    {t t' : Tracer} (ht : Reachable o t) (ht' : Reachable o t') (he : TracerEquiv t t') :
    OutEq' o (absorbAll .fixed o t xs) (absorbAll .fixed o t' ys) := perm_out hno hp ht ht' he

/-- `Tracer::from_samples` (including `check`) succeeds for a permutation iff it succeeds for the original, with
equivalent tracers -/
theorem fromSamplesTracer_perm (o : Options) (hno : o.allow_to_string = false) {xs ys : List SVal} (hp : xs.Perm ys) :
    OutEq' o (fromSamplesTracer .fixed o xs) (fromSamplesTracer .fixed o ys) := by
  have hn := reachable_new o "$" "$"
  rcases perm_out hno hp hn hn (Eqv.refl hn) with ⟨a, b, h1, h2, he, hwa, hwb⟩ | ⟨h1, h2⟩
  · cases hc : a.check o with
    | ok u =>
      refine .inl ⟨a, b, fromSamplesTracer_ok.mpr ⟨h1, hc⟩, fromSamplesTracer_ok.mpr ⟨h2, ?_⟩, he, hwa, hwb⟩
      rw [← check_eqv o he]; exact hc
    | error e =>
      refine .inr ⟨?_, ?_⟩
      · cases hf : fromSamplesTracer .fixed o xs with
        | error _ => rfl
        | ok a' =>
          obtain ⟨h3, h4⟩ := fromSamplesTracer_ok.mp hf
          rw [h1] at h3; cases h3; rw [hc] at h4; cases h4
      · cases hf : fromSamplesTracer .fixed o ys with
        | error _ => rfl
        | ok b' =>
          obtain ⟨h3, h4⟩ := fromSamplesTracer_ok.mp hf
          rw [h2] at h3; cases h3; rw [← check_eqv o he, hc] at h4; cases h4
  · refine .inr ⟨?_, ?_⟩
    · cases hf : fromSamplesTracer .fixed o xs with
      | error _ => rfl
      | ok a' => rw [(fromSamplesTracer_ok.mp hf).1] at h1; cases h1
    · cases hf : fromSamplesTracer .fixed o ys with
      | error _ => rfl
      | ok b' => rw [(fromSamplesTracer_ok.mp hf).1] at h2; cases h2

/-- `absorb_idem`: a sample that has been absorbed is absorbed again without changing the tracer -/
theorem absorb_idem (o : Options) (hno : o.allow_to_string = false) {t t' : Tracer} (ht : Reachable o t) (x : SVal)
    (h : absorb .fixed o t x = .ok t') : OutEq' o (absorb .fixed o t' x) (.ok t') := by
  obtain ⟨b, hb, he⟩ := idem_any hno x t t' ht h
  have hw' := absorb_reachable o x ht h
  exact .inl ⟨b, t', hb, rfl, he, absorb_reachable o x hw' hb, hw'⟩

/-- tracing a list twice is tracing it once (same failure, equivalent tracers) -/
theorem absorbAll_repeat (o : Options) (hno : o.allow_to_string = false) {t : Tracer} (ht : Reachable o t)
    (xs : List SVal) : OutEq' o (absorbAll .fixed o t (xs ++ xs)) (absorbAll .fixed o t xs) := by
  cases h : absorbAll .fixed o t xs with
  | ok t' =>
    obtain ⟨b, hb, he⟩ := idem_list hno (fun x _ => idem_any hno x) ht h
    have hw' := absorbAll_wf o ht h
    exact .inl ⟨b, t', absorbAll_append_mk h hb, rfl, he, absorbAll_wf o hw' hb, hw'⟩
  | error e =>
    refine .inr ⟨?_, rfl⟩
    cases h2 : absorbAll .fixed o t (xs ++ xs) with
    | error _ => rfl
    | ok a =>
      obtain ⟨m, h3, _⟩ := absorbAll_append_ok h2
      rw [h] at h3; cases h3

/-- both succeed with schemas that are equal up to the order of the children of plain structs
(`Spec.schemaEquiv`), or both fail -/
abbrev SchemaOutEq' (r r' : R (List Field)) : Prop := SchemaOutEq r r'

/-- equivalent reachable tracers give equivalent schemas, or `to_schema` fails for both -/
theorem tracerEquiv_schema (o : Options) {a b : Tracer} (he : TracerEquiv a b) (ha : Reachable o a) (hb : Reachable o b) :
    SchemaOutEq' (a.to_schema o) (b.to_schema o) := schema_out he ha hb

/-- `C07_permutation` + `C07_success_order` for arbitrary nested samples: unless `allow_to_string`, tracing any
permutation of a sample collection fails iff tracing the collection fails, and otherwise gives an equivalent schema -/
theorem fromSamples_perm (o : Options) (hno : o.allow_to_string = false) {xs ys : List SVal} (hp : xs.Perm ys) :
    SchemaOutEq' (fromSamples .fixed o xs) (fromSamples .fixed o ys) :=
  schema_of_tracers (fromSamplesTracer_perm o hno hp)

theorem fromSamples_success_order (o : Options) (hno : o.allow_to_string = false) {xs ys : List SVal} (hp : xs.Perm ys) :
    (fromSamples .fixed o xs).isOk = (fromSamples .fixed o ys).isOk := by
  rcases fromSamples_perm o hno hp with ⟨s, s', h1, h2, _⟩ | ⟨h1, h2⟩
  · rw [h1, h2]; rfl
  · rw [h1, h2]

/-- `C07_repeat` for arbitrary nested samples: tracing a collection twice is tracing it once -/
theorem fromSamples_repeat (o : Options) (hno : o.allow_to_string = false) (xs : List SVal) :
    SchemaOutEq' (fromSamples .fixed o (xs ++ xs)) (fromSamples .fixed o xs) := by
  apply schema_of_tracers
  have hn := reachable_new o "$" "$"
  rcases absorbAll_repeat o hno hn xs with ⟨a, b, h1, h2, he, hwa, hwb⟩ | ⟨h1, h2⟩
  · cases hc : a.check o with
    | ok u =>
      refine .inl ⟨a, b, fromSamplesTracer_ok.mpr ⟨h1, hc⟩, fromSamplesTracer_ok.mpr ⟨h2, ?_⟩, he, hwa, hwb⟩
      rw [← check_eqv o he]; exact hc
    | error e =>
      refine .inr ⟨?_, ?_⟩
      · cases hf : fromSamplesTracer .fixed o (xs ++ xs) with
        | error _ => rfl
        | ok a' =>
          obtain ⟨h3, h4⟩ := fromSamplesTracer_ok.mp hf
          rw [h1] at h3; cases h3; rw [hc] at h4; cases h4
      · cases hf : fromSamplesTracer .fixed o xs with
        | error _ => rfl
        | ok b' =>
          obtain ⟨h3, h4⟩ := fromSamplesTracer_ok.mp hf
          rw [h2] at h3; cases h3; rw [← check_eqv o he, hc] at h4; cases h4
  · refine .inr ⟨?_, ?_⟩
    · cases hf : fromSamplesTracer .fixed o (xs ++ xs) with
      | error _ => rfl
      | ok a' => rw [(fromSamplesTracer_ok.mp hf).1] at h1; cases h1
    · cases hf : fromSamplesTracer .fixed o xs with
      | error _ => rfl
      | ok b' => rw [(fromSamplesTracer_ok.mp hf).1] at h2; cases h2

/-! ### the statements of DESIGN.md section 5 -/

/-- `C07_permutation_partial`: two permutations of a sample collection that both trace successfully give equivalent
schemas.  Partial: proved for `allow_to_string = false` (then success itself is order independent,
`C07_success_order`); MISSING: `allow_to_string = true` for nested samples (proved at leaf positions only:
`leaf_order_and_repetition`) -/
theorem C07_permutation_partial (o : Options) (hno : o.allow_to_string = false) {xs ys : List SVal} (hp : xs.Perm ys)
    {s₁ s₂ : List Field} (h1 : fromSamples .fixed o xs = .ok s₁) (h2 : fromSamples .fixed o ys = .ok s₂) :
    Spec.schemaEquiv s₁ s₂ = true := by
  rcases fromSamples_perm o hno hp with ⟨s, s', e1, e2, he⟩ | ⟨e1, _⟩
  · rw [h1] at e1; rw [h2] at e2; cases e1; cases e2; exact he
  · rw [h1] at e1; cases e1

/-- `C07_success_order`: unless `allow_to_string`, success does not depend on the order of the collection -/
theorem C07_success_order (o : Options) (hno : o.allow_to_string = false) {xs ys : List SVal} (hp : xs.Perm ys) :
    (fromSamples .fixed o xs).isOk = (fromSamples .fixed o ys).isOk := fromSamples_success_order o hno hp

/-- `C07_repeat_partial`: tracing a collection twice fails iff tracing it once fails and otherwise gives an equivalent
schema.  Partial: MISSING `allow_to_string = true` for nested samples (leaf positions: `leaf_repeat`) -/
theorem C07_repeat_partial (o : Options) (hno : o.allow_to_string = false) (xs : List SVal) :
    SchemaOutEq' (fromSamples .fixed o (xs ++ xs)) (fromSamples .fixed o xs) := fromSamples_repeat o hno xs

/-! ### the side condition is needed; non-vacuity -/

/-- with `allow_to_string` the swap law fails: at a position that has seen a `bool`, `"x"` then `1i64` is accepted
(both become strings), `1i64` then `"x"` is not -/
theorem allow_to_string_needed :
    let o : Options := { allow_to_string := true }
    let t : Tracer := .primitive "a" "$.a" false .boolean none
    Reachable o t ∧ (absorb2 .fixed o t (.str "x") (.int .i64 1)).isOk = true ∧
      (absorb2 .fixed o t (.int .i64 1) (.str "x")).isOk = false := by
  refine ⟨?_, by decide, by decide⟩
  show WF _ _
  rw [WF]
  exact ⟨rfl, mem_leafStates.mpr ⟨by simp [leafTypes], fun h => by cases h⟩⟩

/-! non-vacuity: nested samples (struct with different fields, list of optionals inside a struct) at the root tracer,
both orders succeed -/
example : (absorb2 .fixed {} (Tracer.new "$" "$") wRec wMap).isOk = true ∧
    (absorb2 .fixed {} (Tracer.new "$" "$") wMap wRec).isOk = true := by decide

/-- the equivalence is not equality: the two orders of `{a}` and `{b, a}` give different, equivalent tracers -/
example : ∃ a b, absorb2 .fixed {} (Tracer.new "$" "$") (zrec [("a", zi 1)]) (zrec [("b", .str "s"), ("a", zi 2)]) = .ok a ∧
    absorb2 .fixed {} (Tracer.new "$" "$") (zrec [("b", .str "s"), ("a", zi 2)]) (zrec [("a", zi 1)]) = .ok b ∧
    a ≠ b ∧ TracerEquiv a b := by
  have hne : absorb2 .fixed {} (Tracer.new "$" "$") (zrec [("a", zi 1)]) (zrec [("b", .str "s"), ("a", zi 2)]) ≠
      absorb2 .fixed {} (Tracer.new "$" "$") (zrec [("b", .str "s"), ("a", zi 2)]) (zrec [("a", zi 1)]) := by decide
  rcases absorb_comm {} rfl (reachable_new {} "$" "$") (zrec [("a", zi 1)]) (zrec [("b", .str "s"), ("a", zi 2)]) with
    ⟨a, b, h1, h2, he, _, _⟩ | ⟨h1, _⟩
  · exact ⟨a, b, h1, h2, fun e => hne (by rw [h1, h2, e]), he⟩
  · have : (absorb2 .fixed {} (Tracer.new "$" "$") (zrec [("a", zi 1)]) (zrec [("b", .str "s"), ("a", zi 2)])).isOk = true := by
      decide
    rw [this] at h1; cases h1

/-- `absorb_idem` / `absorbAll_repeat` are not vacuous: a nested sample is absorbed at the root -/
example : (absorb .fixed {} (Tracer.new "$" "$") (zrec [("a", zrec [("p", zseq [zi 1, .none])])])).isOk = true := by decide

/-- `fromSamples_perm` / `fromSamples_repeat` are not vacuous: the two orders of a struct and a map sample (different
field order) both trace successfully -/
example : (fromSamples .fixed {} (itemsOf [wRec, wMap])).isOk = true ∧ [wRec, wMap].Perm [wMap, wRec] :=
  ⟨C07_struct_map_mode.2, List.Perm.swap _ _ _⟩

end SaModel.Props.C07
