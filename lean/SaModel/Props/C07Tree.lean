import SaModel.Lemmas.C07TLift
/-
C07 at tree level — the traced tracer tree does not depend on sample order, for arbitrary nested samples.
Model: SaModel/Trace/{Tracer,FromSamples}.lean (repaired code, `Code.fixed`).  Lemmas: SaModel/Lemmas/C07T*.lean.

* `TracerEquiv` (`≃`): the equivalence the property allows on tracer trees — struct fields are compared as a finite
  map by name (any order), `last_seen_in_sample` is ignored, `seen_samples` is compared only as zero / non-zero;
  everything else (names, paths, nullable flags, leaf types, struct mode, tuple positions, variant slots) is equal.
* `Reachable o t`: the invariant every tracer built by `from_samples` satisfies (leaf states of the alphabet, distinct
  field names, `last_seen_in_sample < seen_samples`).
* `absorb_congr`, `absorb_reachable`, `absorb_comm`, `absorbAll_perm`, `fromSamplesTracer_perm`.
-/
namespace SaModel.Props.C07
open SaModel SaModel.Trace SaModel.Lemmas.C07

/-- the schema equivalence on tracer trees -/
abbrev TracerEquiv (a b : Tracer) : Prop := Eqv a b

/-- the reachability invariant -/
abbrev Reachable (o : Options) (t : Tracer) : Prop := WF o t

/-- both succeed with equivalent reachable tracers, or both fail -/
abbrev OutEq' (o : Options) (r r' : R Tracer) : Prop := OutEqv o r r'

theorem reachable_new (o : Options) (name path : String) : Reachable o (Tracer.new name path) := by
  unfold Reachable Tracer.new; rw [WF]; trivial

theorem TracerEquiv.refl {o : Options} {t : Tracer} (h : Reachable o t) : TracerEquiv t t := Eqv.refl h
theorem TracerEquiv.symm {a b : Tracer} (h : TracerEquiv a b) : TracerEquiv b a := Eqv.symm h
theorem TracerEquiv.trans {a b c : Tracer} (h : TracerEquiv a b) (h' : TracerEquiv b c) : TracerEquiv a c :=
  Eqv.trans h h'

/-- absorbing any sample preserves the invariant -/
theorem absorb_reachable (o : Options) {t a : Tracer} (x : SVal) (ht : Reachable o t)
    (h : absorb .fixed o t x = .ok a) : Reachable o a := (cong_any o x).wf ht h

/-- `absorb_congr`: absorbing any (nested) sample respects the equivalence — every option setting -/
theorem absorb_congr (o : Options) {t t' : Tracer} (ht : Reachable o t) (ht' : Reachable o t') (he : TracerEquiv t t')
    (x : SVal) : OutEq' o (absorb .fixed o t x) (absorb .fixed o t' x) := cong_out o ht ht' he x

/-- `absorb_comm`: any two nested samples `x`, `y` can be swapped at any reachable tracer: both orders fail, or both
succeed with equivalent tracers (unless `allow_to_string`) -/
theorem absorb_comm (o : Options) (hno : o.allow_to_string = false) {t : Tracer} (ht : Reachable o t) (x y : SVal) :
    OutEq' o (absorb2 .fixed o t x y) (absorb2 .fixed o t y x) := swap_out hno ht x y

/-- every permutation of a list of nested samples, from equivalent reachable tracers -/
theorem absorbAll_perm (o : Options) (hno : o.allow_to_string = false) {xs ys : List SVal} (hp : xs.Perm ys)
    {t t' : Tracer} (ht : Reachable o t) (ht' : Reachable o t') (he : TracerEquiv t t') :
    OutEq' o (absorbAll .fixed o t xs) (absorbAll .fixed o t' ys) := perm_out hno hp ht ht' he

/-- `Tracer::from_samples` (including `check`) succeeds for a permutation iff it succeeds for the original, with
equivalent tracers -/
theorem fromSamplesTracer_perm (o : Options) (hno : o.allow_to_string = false) {xs ys : List SVal} (hp : xs.Perm ys) :
    OutEq' o (fromSamplesTracer .fixed o xs) (fromSamplesTracer .fixed o ys) := by
  have hn := reachable_new o "$" "$"
  rcases perm_out hno hp hn hn (Eqv.refl hn) with ⟨a, b, h1, h2, he, hwa, hwb⟩ | ⟨h1, h2⟩
  · cases hc : a.check o with
    | ok u =>
      refine .inl ⟨a, b, fromSamplesTracer_ok.mpr ⟨h1, hc⟩, fromSamplesTracer_ok.mpr ⟨h2, ?_⟩, he, hwa, hwb⟩
      rw [← check_eqv o he]; exact hc
    | error e =>
      refine .inr ⟨?_, ?_⟩
      · cases hf : fromSamplesTracer .fixed o xs with
        | error _ => rfl
        | ok a' =>
          obtain ⟨h3, h4⟩ := fromSamplesTracer_ok.mp hf
          rw [h1] at h3; cases h3; rw [hc] at h4; cases h4
      · cases hf : fromSamplesTracer .fixed o ys with
        | error _ => rfl
        | ok b' =>
          obtain ⟨h3, h4⟩ := fromSamplesTracer_ok.mp hf
          rw [h2] at h3; cases h3; rw [← check_eqv o he, hc] at h4; cases h4
  · refine .inr ⟨?_, ?_⟩
    · cases hf : fromSamplesTracer .fixed o xs with
      | error _ => rfl
      | ok a' => rw [(fromSamplesTracer_ok.mp hf).1] at h1; cases h1
    · cases hf : fromSamplesTracer .fixed o ys with
      | error _ => rfl
      | ok b' => rw [(fromSamplesTracer_ok.mp hf).1] at h2; cases h2

/-! non-vacuity: nested samples (struct with different fields, list of optionals inside a struct) at the root tracer,
both orders succeed -/
example : (absorb2 .fixed {} (Tracer.new "$" "$") wRec wMap).isOk = true ∧
    (absorb2 .fixed {} (Tracer.new "$" "$") wMap wRec).isOk = true := by decide

end SaModel.Props.C07
