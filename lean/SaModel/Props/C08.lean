import SaModel.Lemmas.C08ZooA
import SaModel.Lemmas.C08ZooB
import SaModel.Lemmas.C08ZooC
import SaModel.Lemmas.C08ZooD
import SaModel.Lemmas.C08ZooE
import SaModel.Lemmas.C08Explore
import SaModel.Lemmas.C08Loop
import SaModel.Lemmas.C08NotWalkable
import SaModel.Lemmas.C08SAgree
import SaModel.Lemmas.C08GConv
import SaModel.Lemmas.C08Class
import SaModel.Lemmas.C08Local
/-
C08 — tracing yields the documented mapping; from_type and from_samples agree.
Model: SaModel/Trace/{Tracer,FromSamples,FromType}.lean.  Documented mapping: SaModel/Trace/Mapping.lean (`Spec.mapping`,
`Spec.fromTypeSpec`).  `Agree a b`: both succeed with the same value, or both fail with a Rust error.

Proved for ALL inputs:
* the overwrite rule on the tracer (`C08_overwrite_replaces`, `C08_overwrite_name_mismatch`, `C08_overwrite_unknown_path`)
  and on the documented mapping (`C08_mapping_overwrite`); locality: `C08_overwrite_local` (a subtree without a node at
  the path keeps its field), `C08_overwrite_at` (the node at the path becomes the overwrite), `C08_mapping_lookups`; `C08_mapping_name`; `C08_options_local_*`;
* `explore_complete_spec`: one pass over any enum-free type from a fresh node is complete and its field is the
  documented mapping (error iff the type cannot be walked);
* `C08_pass_invariant`, `C08_complete_iff`, `C08_loop`: the multi-pass loop for enums (after `k` passes the tracer is
  `after k ty`; complete iff `passes ty ≤ k`; the loop succeeds iff `passes ty ≤ budget`);
* `C08_from_type`: `Agree (fromType c o ty) (Spec.fromTypeSpec o ty)` for every type and every option record;
  `C08_from_type_budget`, `C08_from_type_not_walkable`, `C08_from_type_recursive` (depth limit);
* `C08_agree`: `fromSamples c o (covering ty) = fromType c o ty` for every walkable type with unique field names
  (`uniqueNames`), at most 2^20 variants per enum (`smallEnums`: the allocation bound of the model of `ensure_variant`)
  and whose passes fit the budget (enums included).
* `C08_agree_all`: `fromSamples c o xs = fromType c o ty` for EVERY covering collection `xs` (`Covers o ty xs`,
  SaModel/Lemmas/C08Covers.lean: values of the type in any order, with any repetitions and any extra values, that
  together exercise every variant, a `Some` of every `Option`, an element of every sequence / map) — same hypotheses as
  `C08_agree`; `C08_sample_invariant` (the tracer after ANY values `xs` of the type is `sstate ty xs`);
  `C08_covers_iff_complete` (`covers` ⇔ the tracer is the complete tracer), `C08_covering_covers` (the canonical list is
  covering);
  `C08_agree_map_as_struct_false`, `C08_agree_guess_dates_needed`: the two documented exclusions are real.
* `C08_from_type_class`, `C08_agree_all_class`: for types that can be walked the agreement includes the error CLASS
  (`AgreeC`, table `SameClass`, SaModel/Lemmas/C08Class.lean: budget, unknown overwrite path, wrong overwrite name,
  null-only field, enum without data, more than 128 variants, nullable root, root not a struct);
  `C08_not_walkable_budget_first`: for types that cannot be walked the class is NOT fixed (the budget error can come first).
Kept as a kernel-evaluated sanity table: `C08_from_type_and_agree_on_zoo` (16 type descriptions × 10 option settings).
-/
namespace SaModel.Props.C08
open SaModel SaModel.Trace SaModel.Trace.Spec SaModel.Lemmas.C08

/-! ### overwrites: replace exactly the field at their path, or fail -/

/-- an overwrite registered for the path of ANY tracer node replaces that node's field wholesale when the names agree,
and is an error otherwise — the subtree below is not consulted -/
theorem C08_overwrite (o : Options) (t : Tracer) (f : Field) (h : o.get_overwrite t.path = some f) :
    t.to_field o = if f.name != t.name then fail "Invalid name for overwritten field" else .ok f := by
  cases t <;> simp only [Tracer.path] at h <;> simp only [Tracer.to_field, withOverwrite, h, Tracer.name] <;> rfl

theorem C08_overwrite_replaces (o : Options) (t : Tracer) (f : Field) (h : o.get_overwrite t.path = some f)
    (hn : f.name = t.name) : t.to_field o = .ok f := by
  rw [C08_overwrite o t f h]; simp [hn]

theorem C08_overwrite_name_mismatch (o : Options) (t : Tracer) (f : Field) (h : o.get_overwrite t.path = some f)
    (hn : f.name ≠ t.name) : (t.to_field o).isErr = true := by
  rw [C08_overwrite o t f h]; simp [hn, fail, R.isErr]

/-- an overwrite whose path is not a path of the traced tree makes tracing fail (`check_overwrites`) -/
theorem C08_overwrite_unknown_path (o : Options) (t : Tracer) (key : String) (f : Field)
    (hk : (key, f) ∈ o.overwrites) (hp : key ∉ t.collect_paths) : (t.check_overwrites o).isErr = true := by
  unfold Tracer.check_overwrites
  have : (o.overwrites.all fun kv => t.collect_paths.contains kv.1) = false := by
    rw [Bool.eq_false_iff]
    intro hall
    have := List.all_eq_true.mp hall _ hk
    simp at this
    exact hp this
  show R.isErr (if (o.overwrites.all fun kv => t.collect_paths.contains kv.1) = true then (Except.ok () : R Unit)
    else fail "Overwritten fields could not be found") = true
  rw [this]; rfl

/-- no overwrite at a node: its own `to_field` decides (the overwrite table is consulted by path only) -/
theorem C08_no_overwrite_unknown (o : Options) (n p : String) (nl : Bool) (h : o.get_overwrite p = none) :
    (Tracer.unknown n p nl).to_field o =
      if !o.allow_null_fields then fail "Encountered null only field" else .ok (.mk n .null true []) := by
  simp only [Tracer.to_field, withOverwrite, h]

/-! ### the documented mapping: general facts -/

theorem overwritten_name (o : Options) (name path : String) (k : Unit → R Field) (f : Field)
    (hk : ∀ g, k () = .ok g → g.name = name) (h : overwritten o name path k = .ok f) : f.name = name := by
  unfold overwritten at h
  split at h
  · split at h
    · cases h; assumption
    · cases h
  · exact hk f h

/-- the field traced for a value called `name` is called `name` — also when it was overwritten (the name check) -/
theorem C08_mapping_name (o : Options) : ∀ (ty : Ty) (name path : String) (nl : Bool) (f : Field),
    mapping o name path nl ty = .ok f → f.name = name
  | .option t, name, path, _, f, h => by
    simp only [mapping] at h; exact C08_mapping_name o t name path true f h
  | .newtypeStruct _ t, name, path, nl, f, h => by
    simp only [mapping] at h; exact C08_mapping_name o t name path nl f h
  | .unit, name, path, _, f, h => by
    simp only [mapping] at h
    refine overwritten_name o name path _ f ?_ h
    intro g hg; unfold nullField at hg; split at hg <;> cases hg; rfl
  | .unitStruct _, name, path, _, f, h => by
    simp only [mapping] at h
    refine overwritten_name o name path _ f ?_ h
    intro g hg; unfold nullField at hg; split at hg <;> cases hg; rfl
  | .bool, name, path, _, f, h => by
    simp only [mapping] at h
    exact overwritten_name o name path _ f (by intro g hg; cases hg; rfl) h
  | .int _, name, path, _, f, h => by
    simp only [mapping] at h
    exact overwritten_name o name path _ f (by intro g hg; cases hg; rfl) h
  | .f32, name, path, _, f, h => by
    simp only [mapping] at h
    exact overwritten_name o name path _ f (by intro g hg; cases hg; rfl) h
  | .f64, name, path, _, f, h => by
    simp only [mapping] at h
    exact overwritten_name o name path _ f (by intro g hg; cases hg; rfl) h
  | .char, name, path, _, f, h => by
    simp only [mapping] at h
    exact overwritten_name o name path _ f (by intro g hg; cases hg; rfl) h
  | .bytes, name, path, _, f, h => by
    simp only [mapping] at h
    exact overwritten_name o name path _ f (by intro g hg; cases hg; rfl) h
  | .string, name, path, _, f, h => by
    simp only [mapping] at h
    refine overwritten_name o name path _ f ?_ h
    intro g hg; cases hg; unfold stringField; split <;> rfl
  | .vec t, name, path, _, f, h => by
    simp only [mapping] at h
    refine overwritten_name o name path _ f ?_ h
    intro g hg
    cases hi : mapping o "element" (childPath path "element") false t with
    | ok item => simp only [hi, bind, Except.bind] at hg; cases hg; rfl
    | error e => simp only [hi, bind, Except.bind] at hg; cases hg
  | .tuple ts, name, path, _, f, h => by
    simp only [mapping] at h
    refine overwritten_name o name path _ f ?_ h
    intro g hg
    cases hi : mappingTys o path 0 ts with
    | ok item => simp only [hi, bind, Except.bind] at hg; cases hg; rfl
    | error e => simp only [hi, bind, Except.bind] at hg; cases hg
  | .tupleStruct _ ts, name, path, _, f, h => by
    simp only [mapping] at h
    refine overwritten_name o name path _ f ?_ h
    intro g hg
    cases hi : mappingTys o path 0 ts with
    | ok item => simp only [hi, bind, Except.bind] at hg; cases hg; rfl
    | error e => simp only [hi, bind, Except.bind] at hg; cases hg
  | .struct _ fs, name, path, _, f, h => by
    simp only [mapping] at h
    refine overwritten_name o name path _ f ?_ h
    intro g hg
    cases hi : mappingFields o path fs with
    | ok item => simp only [hi, bind, Except.bind] at hg; cases hg; rfl
    | error e => simp only [hi, bind, Except.bind] at hg; cases hg
  | .map k v, name, path, _, f, h => by
    simp only [mapping] at h
    refine overwritten_name o name path _ f ?_ h
    intro g hg
    cases hk : mapping o "key" (childPath path "key") false k with
    | ok kf =>
      cases hv : mapping o "value" (childPath path "value") false v with
      | ok vf => simp only [hk, hv, bind, Except.bind] at hg; cases hg; rfl
      | error e => simp only [hk, hv, bind, Except.bind] at hg; cases hg
    | error e => simp only [hk, bind, Except.bind] at hg; cases hg
  | .enum _ vs, name, path, _, f, h => by
    simp only [mapping] at h
    refine overwritten_name o name path _ f ?_ h
    intro g hg
    split at hg
    · cases hg; rfl
    · split at hg
      · cases hg
      · cases hi : mappingVariants o path 0 vs with
        | ok item => simp only [hi, bind, Except.bind] at hg; cases hg; rfl
        | error e => simp only [hi, bind, Except.bind] at hg; cases hg

/-- an overwrite at the path of a (non-transparent) type replaces its field: the documented rule -/
theorem C08_mapping_overwrite (o : Options) : ∀ (ty : Ty) (name path : String) (nl : Bool) (key : String) (f : Field),
    o.overwrites.find? (fun kv => kv.1 = path) = some (key, f) →
    mapping o name path nl ty = if f.name = name then .ok f else fail "overwrite with a different name"
  | .option t, name, path, _, key, f, h => by
    simp only [mapping]; exact C08_mapping_overwrite o t name path true key f h
  | .newtypeStruct _ t, name, path, nl, key, f, h => by
    simp only [mapping]; exact C08_mapping_overwrite o t name path nl key f h
  | .unit, _, _, _, _, _, h | .unitStruct _, _, _, _, _, _, h | .bool, _, _, _, _, _, h | .int _, _, _, _, _, _, h
  | .f32, _, _, _, _, _, h | .f64, _, _, _, _, _, h | .char, _, _, _, _, _, h | .string, _, _, _, _, _, h
  | .bytes, _, _, _, _, _, h | .vec _, _, _, _, _, _, h | .tuple _, _, _, _, _, _, h | .tupleStruct _ _, _, _, _, _, _, h
  | .map _ _, _, _, _, _, _, h | .struct _ _, _, _, _, _, _, h | .enum _ _, _, _, _, _, _, h => by
    simp only [mapping, overwritten, h]

/-- `C08_overwrite_local`: an overwrite replaces EXACTLY the field at its path.  Registering `overwrite(pth, f)` does not
change the documented field of any subtree that has no node at that path (`"$." ++ pth ∉ tyPaths path ty`: siblings,
cousins, everything that is not an ancestor of the node) — for every type, position and option record … -/
theorem C08_overwrite_local (o : Options) (pth : String) (f : Field) (ty : Ty) (name path : String) (nl : Bool)
    (hk : "$." ++ pth ∉ tyPaths path ty) :
    mapping (o.overwrite pth f) name path nl ty = mapping o name path nl ty :=
  mapping_overwrite_foreign o pth f ty name path nl hk

/-- … while the node AT that path becomes the overwrite field as given (or the name error), whatever was registered
before (`TracingOptions::overwrite` replaces an earlier entry for the same path); an ancestor is rebuilt from its
children, of which only the one on the way to the path changes -/
theorem C08_overwrite_at (o : Options) (pth : String) (f : Field) (ty : Ty) (name : String) (nl : Bool) :
    mapping (o.overwrite pth f) name ("$." ++ pth) nl ty =
      if f.name = name then .ok f else fail "overwrite with a different name" :=
  C08_mapping_overwrite (o.overwrite pth f) ty name ("$." ++ pth) nl ("$." ++ pth) f (by
    rw [overwrite_find]; simp only [if_true])

/-- the mapping of a type reads the overwrite table only at the paths of its own tree -/
theorem C08_mapping_lookups (o : Options) (ows' : List (String × Field)) (ty : Ty) (name path : String) (nl : Bool)
    (h : ∀ q ∈ tyPaths path ty, ows'.find? (fun kv => kv.1 = q) = o.overwrites.find? (fun kv => kv.1 = q)) :
    mapping { o with overwrites := ows' } name path nl ty = mapping o name path nl ty :=
  mapping_lookups o ows' ty name path nl h

/-- non-vacuity: in `struct S { a: Vec<String>, e: enum E { A(i32), B { x: bool } } }` the path `$.e.B.x` is not a path
of the subtree `a` nor of the variant `A`, and it is a path of `e` -/
example :
    let e : Ty := .enum "E" (.newtype "A" (.int .i32) (.struct "B" (.cons "x" .bool .nil) .nil))
    "$." ++ "e.B.x" ∉ tyPaths "$.a" (.vec .string) ∧ "$." ++ "e.B.x" ∉ tyPaths "$.e.A" (.int .i32) ∧
      "$." ++ "e.B.x" ∈ tyPaths "$.e" e := by decide

/-! ### every option changes precisely its aspect -/

/-- `Option<T>` is `T`, nullable -/
theorem C08_option_nullable (o : Options) (t : Ty) (name path : String) (nl : Bool) :
    mapping o name path nl (.option t) = mapping o name path true t := by simp only [mapping]

/-- the options that steer the mapping of a TYPE; `coerce_numbers`, `allow_to_string`, `guess_dates` are not among them -/
def Options.typeView (o : Options) : Options :=
  { o with coerce_numbers := false, allow_to_string := false, guess_dates := false }

mutual
theorem mapping_typeView (o : Options) : ∀ (ty : Ty) (name path : String) (nl : Bool),
    mapping o name path nl ty = mapping (Options.typeView o) name path nl ty
  | .option t, name, path, _ => by simp only [mapping]; exact mapping_typeView o t name path true
  | .newtypeStruct _ t, name, path, nl => by simp only [mapping]; exact mapping_typeView o t name path nl
  | .unit, _, _, _ | .unitStruct _, _, _, _ | .bool, _, _, _ | .int _, _, _, _ | .f32, _, _, _ | .f64, _, _, _
  | .char, _, _, _ | .string, _, _, _ | .bytes, _, _, _ => by
    simp only [mapping]; rfl
  | .vec t, name, path, nl => by
    simp only [mapping, mapping_typeView o t "element"]; rfl
  | .tuple ts, name, path, nl => by
    simp only [mapping, mappingTys_typeView o ts]; rfl
  | .tupleStruct _ ts, name, path, nl => by
    simp only [mapping, mappingTys_typeView o ts]; rfl
  | .map k v, name, path, nl => by
    simp only [mapping, mapping_typeView o k "key", mapping_typeView o v "value"]; rfl
  | .struct _ fs, name, path, nl => by
    simp only [mapping, mappingFields_typeView o fs]; rfl
  | .enum _ vs, name, path, nl => by
    simp only [mapping, mappingVariants_typeView o vs]; rfl
theorem mappingTys_typeView (o : Options) : ∀ (ts : Tys) (path : String) (i : Nat),
    mappingTys o path i ts = mappingTys (Options.typeView o) path i ts
  | .nil, _, _ => by simp only [mappingTys]
  | .cons t r, path, i => by
    simp only [mappingTys, mapping_typeView o t (toString i), mappingTys_typeView o r]
theorem mappingFields_typeView (o : Options) : ∀ (fs : TyFields) (path : String),
    mappingFields o path fs = mappingFields (Options.typeView o) path fs
  | .nil, _ => by simp only [mappingFields]
  | .cons n t r, path => by
    simp only [mappingFields, mapping_typeView o t n, mappingFields_typeView o r]
theorem mappingVariants_typeView (o : Options) : ∀ (vs : TyVariants) (path : String) (i : Nat),
    mappingVariants o path i vs = mappingVariants (Options.typeView o) path i vs
  | .nil, _, _ => by simp only [mappingVariants]
  | .unit n r, path, i => by
    simp only [mappingVariants, mappingVariants_typeView o r]; rfl
  | .newtype n t r, path, i => by
    simp only [mappingVariants, mapping_typeView o t n, mappingVariants_typeView o r]
  | .tuple n ts r, path, i => by
    simp only [mappingVariants, mappingTys_typeView o ts, mappingVariants_typeView o r]; rfl
  | .struct n fs r, path, i => by
    simp only [mappingVariants, mappingFields_typeView o fs, mappingVariants_typeView o r]; rfl
end

/-- `coerce_numbers` does not change what a type is traced to -/
theorem C08_options_local_coerce_numbers (o : Options) (b : Bool) (ty : Ty) (name path : String) (nl : Bool) :
    mapping { o with coerce_numbers := b } name path nl ty = mapping o name path nl ty := by
  rw [mapping_typeView, mapping_typeView o]; rfl

/-- `allow_to_string` does not change what a type is traced to -/
theorem C08_options_local_allow_to_string (o : Options) (b : Bool) (ty : Ty) (name path : String) (nl : Bool) :
    mapping { o with allow_to_string := b } name path nl ty = mapping o name path nl ty := by
  rw [mapping_typeView, mapping_typeView o]; rfl

/-- `guess_dates` does not change what a type is traced to -/
theorem C08_options_local_guess_dates (o : Options) (b : Bool) (ty : Ty) (name path : String) (nl : Bool) :
    mapping { o with guess_dates := b } name path nl ty = mapping o name path nl ty := by
  rw [mapping_typeView, mapping_typeView o]; rfl

/-- `strings_as_large_utf8` / `string_dictionary_encoding` decide the type of a string field and nothing else about it -/
theorem C08_options_local_string_leaf (o : Options) (name path : String) (nl : Bool)
    (h : o.overwrites.find? (fun kv => kv.1 = path) = none) :
    mapping o name path nl .string = .ok (.mk name
      (if o.string_dictionary_encoding then .dictionary .uint32 (if o.string_as_large_utf8 then .largeUtf8 else .utf8)
       else if o.string_as_large_utf8 then .largeUtf8 else .utf8) nl []) := by
  simp only [mapping, overwritten, h, stringField, Options.string_type]
  split <;> rfl

/-- `sequence_as_large_list` decides between `LargeList` and `List` and nothing else about a sequence field -/
theorem C08_options_local_sequence (o : Options) (t : Ty) (name path : String) (nl : Bool) (item : Field)
    (h : o.overwrites.find? (fun kv => kv.1 = path) = none)
    (hi : mapping o "element" (childPath path "element") false t = .ok item) :
    mapping o name path nl (.vec t) =
      .ok (.mk name (if o.sequence_as_large_list then .largeList item else .list item) nl []) := by
  simp only [mapping, overwritten, h, hi, bind, Except.bind]

/-- `allow_null_fields` decides whether a data-less field is an error or a nullable `Null` field -/
theorem C08_options_local_null_leaf (o : Options) (name path : String) (nl : Bool)
    (h : o.overwrites.find? (fun kv => kv.1 = path) = none) :
    mapping o name path nl .unit = if o.allow_null_fields then .ok (.mk name .null true []) else fail "null field" := by
  simp only [mapping, overwritten, h, nullField]

/-- `map_as_struct`: a map cannot be traced from the type when set; `Map(entries{key, value})` otherwise -/
theorem C08_options_local_map (o : Options) (k v : Ty) (h : o.map_as_struct = true) :
    walkable o "$" (.struct "S" (.cons "m" (.map k v) .nil)) = false := by
  simp [walkable, walkableFields, h]

/-- `enums_without_data_as_strings`: a data-less enum is a dictionary of strings when set -/
theorem C08_options_local_enum_strings (o : Options) (n : String) (vs : TyVariants) (name path : String) (nl : Bool)
    (h : o.overwrites.find? (fun kv => kv.1 = path) = none) (hd : withoutData vs = true)
    (hs : o.enums_without_data_as_strings = true) :
    mapping o name path nl (.enum n vs) = .ok (.mk name (.dictionary .uint32 o.string_type) nl []) := by
  simp only [mapping, overwritten, h, hd, hs, Bool.and_self, if_true]

/-- `from_type_budget`: fewer passes than the type needs is the documented error -/
theorem C08_options_local_budget (o : Options) (ty : Ty) (h : o.from_type_budget < passes ty) :
    (fromTypeSpec o ty).isErr = true := by
  unfold fromTypeSpec
  split
  · rfl
  · have : passes ty > o.from_type_budget := h
    simp [this, fail, R.isErr]

/-! ### one exploration pass over an enum-free type is the documented mapping -/

/-- `explore_complete_spec`: for every enum-free type description `ty` (leaves, `Option`, `Vec`, tuples / arrays, structs
incl. newtype / tuple / unit structs, maps) at ANY position (name, path, nullable flag) and under ANY options
(overwrites included): when the type can be walked (no container beyond the depth limit, no map under `map_as_struct`),
one pass of the derived `Deserialize` from a fresh node leaves a COMPLETE tracer whose field is the documented mapping
(both succeed with the same field, or both are the documented error) and whose paths are the documented paths; when it
cannot be walked the pass is a (Rust) error. -/
theorem explore_complete_spec (c : Code) (o : Options) (ty : Ty) (hf : enumFree ty = true) (name path : String)
    (nl : Bool) :
    (walkable o path ty = true →
      ∃ t, explore c o (.unknown name path nl) ty = .ok t ∧ t.is_complete = true ∧
        Agree (t.to_field o) (mapping o name path nl ty) ∧ t.collect_paths = tyPaths path ty) ∧
    (walkable o path ty = false → ∃ m, explore c o (.unknown name path nl) ty = .error (.err m)) := by
  have h := explore_done c o ty name path nl hf
  exact ⟨fun hw => ⟨_, h.1 hw, done_complete o ty name path nl, done_to_field o ty name path nl,
    done_paths o ty name path nl⟩, h.2⟩

/-- non-vacuity: an enum-free type with every container kind that is walkable under the default options (and one that
is not: a map under `map_as_struct`) -/
example :
    let ty : Ty := .struct "S" (.cons "a" (.option (.vec .string)) (.cons "t" (.tuple (.cons (.int .u8) (.cons .bool .nil)))
      (.cons "n" (.newtypeStruct "N" (.tupleStruct "T" (.cons .f32 .nil))) (.cons "u" (.unitStruct "U") .nil))))
    enumFree ty = true ∧ walkable {} "$" ty = true ∧
    enumFree (.map .string ty) = true ∧ walkable {} "$" (.map .string ty) = false ∧
    walkable { map_as_struct := false } "$" (.map .string ty) = true := by decide

/-! ### enums: the multi-pass loop -/

/-- `C08_pass_invariant`: the loop invariant of `Tracer::from_type`.  `after o n p nl k ty` (SaModel/Lemmas/C08After.lean)
is the tracer after `k` passes, written down from the type: a fresh node for `k = 0`; for an enum node that has spent `b`
passes the first variants are complete, one variant is partially explored with what is left of `b`, the rest is fresh
(variant `i` is handed `b - Σ_{j<i} passes(payload j)` passes).  For EVERY type that can be walked (enums with all four
variant kinds, nested enums included), at every position, a pass over the tracer of `k` passes is the tracer of `k + 1`
passes: the pass explores the first incomplete variant of every enum node it meets, variant 0 again when all are
complete (which changes nothing). -/
theorem C08_pass_invariant (c : Code) (o : Options) (ty : Ty) (n p : String) (nl : Bool) (k : Nat)
    (hw : walkable o p ty = true) :
    explore c o (after o n p nl k ty) ty = .ok (after o n p nl (k + 1) ty) :=
  explore_step c o ty n p nl k hw

/-- the tracer is complete exactly from pass `passes ty` on (one pass per enum variant, sums over nested enums, maximum
over siblings), and then it is the complete tracer `done` whose field is the documented mapping -/
theorem C08_complete_iff (o : Options) (ty : Ty) (n p : String) (nl : Bool) (k : Nat) (hw : walkable o p ty = true) :
    (after o n p nl k ty).is_complete = decide (passes ty ≤ k) ∧
    (passes ty ≤ k → after o n p nl k ty = done o n p nl ty ∧
      Agree ((after o n p nl k ty).to_field o) (mapping o n p nl ty)) := by
  refine ⟨after_complete_iff o ty n p nl k hw, fun h => ?_⟩
  have hpos := passes_pos o ty p hw
  obtain ⟨k', rfl⟩ : ∃ k', k = k' + 1 := ⟨k - 1, by omega⟩
  rw [after_done o ty n p nl k' hw h]
  exact ⟨rfl, done_to_field o ty n p nl⟩

/-- the loop with `b` passes left after `k` passes: the complete tracer when the budget suffices, the documented budget
error otherwise -/
theorem C08_loop (c : Code) (o : Options) (ty : Ty) (hw : walkable o "$" ty = true) (b k : Nat) :
    fromTypeLoop c o ty b (after o "$" "$" false k ty) =
      if passes ty ≤ k + b then .ok (done o "$" "$" false ty)
      else fail "Could not determine schema from the type after {budget} iterations" :=
  loop_after c o ty "$" "$" false hw b k

/-- `C08_from_type`: for EVERY type description and ALL options (budget, overwrites, every flag), `from_type` is the
documented result `Spec.fromTypeSpec`: the same fields, or a (Rust) error on both sides — the type cannot be walked
(a container beyond the depth limit, a map under `map_as_struct`, an enum without variants), budget too small, unknown
overwrite path, overwrite with a wrong name, null-only field, root not a non-nullable struct, more than 128 variants.
The model never panics on this entry point. -/
theorem C08_from_type (c : Code) (o : Options) (ty : Ty) : Agree (fromType c o ty) (fromTypeSpec o ty) :=
  fromType_spec c o ty

/-- a type that cannot be walked: `from_type` is an error whatever the budget (the passes before the failing one leave
an incomplete tracer; `Conf`, SaModel/Lemmas/C08Conf.lean, is the invariant) -/
theorem C08_from_type_not_walkable (c : Code) (o : Options) (ty : Ty) (hw : walkable o "$" ty = false) :
    ∃ m, fromType c o ty = .error (.err m) :=
  fromType_not_walkable c o ty hw

/-- recursive types hit the depth limit.  The model represents a recursive definition `T = F T` by its unrollings
`unroll F n base`; when `F` puts its argument at least one path level down (below a struct field, sequence element,
tuple element, map entry or variant payload: `Descends`), every unrolling deeper than `MAX_TYPE_DEPTH` = 20 is an
error — and `from_type` of the Rust type behaves like these unrollings, since a pass never looks below the first
container that is too deep. -/
theorem C08_from_type_recursive (c : Code) (o : Options) (F : Ty → Ty) (hF : Descends o F) (base : Ty) (n : Nat)
    (hn : MAX_TYPE_DEPTH < n) : ∃ m, fromType c o (unroll F n base) = .error (.err m) :=
  fromType_not_walkable c o _ (unroll_not_walkable o F hF base n hn)

/-- non-vacuity: `struct Node { value: i32, next: Option<Box<Node>> }` and
`enum Tree { Leaf, Node(Box<Tree>, Box<Tree>) }` descend -/
example (o : Options) :
    Descends o (fun t => .struct "Node" (.cons "value" (.int .i32) (.cons "next" (.option t) .nil))) ∧
    Descends o (fun t => .enum "Tree" (.unit "Leaf" (.tuple "Node" (.cons t (.cons t .nil)) .nil))) := by
  constructor
  · intro t p h
    simp only [walkable, walkableFields, Bool.and_eq_true, Bool.not_eq_true', Bool.and_true] at h
    exact ⟨h.1, childPath p "next", by rw [countDots_child]; omega, h.2.2⟩
  · intro t p h
    simp only [walkable, walkableVariants, walkableTys, Bool.and_eq_true, Bool.not_eq_true', Bool.and_true] at h
    exact ⟨h.1.1, childPath (childPath p "Node") (toString 0), by rw [countDots_child, countDots_child]; omega,
      h.2.2.1⟩

/-- fewer passes allowed than the type needs: exactly the budget error of the loop -/
theorem C08_from_type_budget (c : Code) (o : Options) (ty : Ty) (hw : walkable o "$" ty = true)
    (hb : o.from_type_budget < passes ty) :
    fromType c o ty = fail "Could not determine schema from the type after {budget} iterations" := by
  unfold fromType
  rw [fromTypeTracer_walkable c o ty hw]
  have : ¬ passes ty ≤ o.from_type_budget := by omega
  simp only [this, if_false]; rfl

/-- non-vacuity: a walkable type with nested enums that needs 10 passes; it succeeds with budget 10 and not with 9 -/
example :
    let o : Options := { allow_null_fields := true, from_type_budget := 10 }
    let ty : Ty := .struct "S" (.cons "deep" tDeep .nil)
    walkable o "$" ty = true ∧ passes ty = 10 ∧ (fromType .fixed o ty).isOk = true ∧
    (fromType .fixed { o with from_type_budget := 9 } ty).isOk = false := by decide +kernel

/-! ### `from_samples` on covering samples = `from_type` -/

/-- `C08_agree`: for EVERY type description (enums with all four variant kinds and nested enums included) that can be
walked, with unique field names, and all options whose budget covers the passes the type needs: `from_samples` on the
covering samples of the type (`covering`, SaModel/Trace/FromType.lean: every variant with every covering sample of its
payload, `Some`, one element per collection, one entry per map) gives exactly what `from_type` gives — the same fields
or the same error (null-only field, overwrite errors, root not a struct, more than 128 variants).
The invariant (`absorb_step`, SaModel/Lemmas/C08SStep.lean): absorbing covering sample `m` into `safter m ty` gives
`safter (m+1) ty`, where after `m = q·L + r` samples an enum node with `L` variants has given `q + 1` payload samples to
its variants `< r` and `q` to the others; from `width ty` samples on the tracer is `done ty` up to the sample counters
of struct nodes, which `to_field` does not read.
The hypotheses are needed: unique names (`from_samples` finds a field by name, a derive by position); walkable (under
`map_as_struct` `from_type` refuses maps while `from_samples` traces them as structs — the two tracers differ there, as
documented); the budget (`from_samples` has none); `smallEnums`: at most 2^20 variants per enum, the allocation bound of
the executable model of `ensure_variant` (finding #29) — Arrow allows 128. -/
theorem C08_agree (c : Code) (o : Options) (ty : Ty) (hw : walkable o "$" ty = true) (hu : uniqueNames ty = true)
    (hs : smallEnums ty = true) (hb : passes ty ≤ o.from_type_budget) :
    fromSamples c o (covering ty) = fromType c o ty :=
  agree_all c o ty hw hu hs hb

/-- non-vacuity: a struct with every container kind and nested enums with the four variant kinds (10 passes, 18
covering samples); both tracers succeed on it -/
example :
    let o : Options := { map_as_struct := false, allow_null_fields := true }
    let ty : Ty := .struct "S" (.cons "a" (.option (.vec .string)) (.cons "t" (.tuple (.cons (.int .u8) (.cons .bool .nil)))
      (.cons "m" (.map .string (.struct "I" (.cons "x" .f32 .nil))) (.cons "deep" tDeep .nil))))
    walkable o "$" ty = true ∧ uniqueNames ty = true ∧ smallEnums ty = true ∧ passes ty = 10 ∧ width ty = 18 ∧
      (fromType .fixed o ty).isOk = true := by
  decide +kernel

/-! ### `from_samples` on ANY covering collection = `from_type` -/

/-- `C08_sample_invariant`: the state of `from_samples` after ANY values of the type.  `sstate o n p nl ty xs`
(SaModel/Lemmas/C08GState.lean) is written down from the type and the values found at each position (the payloads of the
`Some`s, all elements of all sequences, the i-th components, the values of field `f`, the payloads of the samples of
variant `i`): a position that has seen no value is `unknown`, an `Option` position is nullable as soon as it has seen a
value, a union node has a slot for every variant up to the last one that occurred.  Absorbing any value `x` of the type
(`hasTy o x ty`) into the tracer of `xs` gives the tracer of `xs ++ [x]` — no condition on `xs`. -/
theorem C08_sample_invariant (c : Code) (o : Options) (ty : Ty) (n p : String) (nl : Bool) (xs : List SVal) (x : SVal)
    (hw : walkable o p ty = true) (hu : uniqueNames ty = true) (hs : smallEnums ty = true) (hx : hasTy o x ty = true) :
    absorb c o (sstate o n p nl ty xs) x = .ok (sstate o n p nl ty (xs ++ [x])) :=
  absorb_gen c o ty n p nl xs x hw hu hs hx

/-- `C08_agree_all`: for EVERY type description that can be walked, with unique field names (enums with all four variant
kinds and nested enums included), all options whose budget covers the passes the type needs, and EVERY covering sample
collection `xs` — `Covers o ty xs` (SaModel/Lemmas/C08Covers.lean): every sample is a value of the type (`hasTy`: the
serde calls a derived `Serialize` makes, struct fields in declaration order, variant index and name of the declaration,
`None` and `Some`, sequences and maps of any length; strings that `guess_dates` would read as dates are not samples of
`String`), and together they cover it (`covers`, recursive over the type: a value at every leaf; the `Some` payloads cover
`T` of `Option<T>`; all elements together cover `T` of `Vec<T>`; all keys / values cover `K` / `V`; every tuple position
and struct field is covered by the values found there; EVERY variant of an enum occurs and its payloads cover its
payload type) — in ANY order, with ANY repetitions and ANY extra values of the type (`None`, empty collections, further
variants): `from_samples` gives exactly what `from_type` gives — the same fields or the same error (null-only field,
overwrite errors, root not a struct, more than 128 variants).  Both code versions.
Hypotheses that remain, all necessary: `walkable` (depth limit; a map under `map_as_struct`, the default:
`C08_agree_map_as_struct_false`; empty enum), `uniqueNames` (`from_samples` finds a field by name, a derive by position),
`smallEnums` (≤ 2^20 variants, the allocation bound of the model of `ensure_variant`, finding #29), the budget
(`from_samples` has none), and inside `Covers` the `guess_dates` clause (`C08_agree_guess_dates_needed`). -/
theorem C08_agree_all (c : Code) (o : Options) (ty : Ty) (xs : List SVal) (hw : walkable o "$" ty = true)
    (hu : uniqueNames ty = true) (hs : smallEnums ty = true) (hb : passes ty ≤ o.from_type_budget)
    (hc : Covers o ty xs) : fromSamples c o xs = fromType c o ty :=
  agree_covers c o ty xs hw hu hs hb hc

/-- `covers` is EXACTLY what the tracer needs to see the whole type: the tracer of the values `xs` is, up to the sample
counters of struct nodes, the complete tracer `done` of `from_type` if and only if `covers ty xs` — a collection that
misses a variant, a `Some`, an element, … leaves an `unknown` node or an `absent` variant slot behind -/
theorem C08_covers_iff_complete (o : Options) (ty : Ty) (n p : String) (nl : Bool) (xs : List SVal) :
    covers ty xs = true ↔ erase (sstate o n p nl ty xs) = done o n p nl ty :=
  covers_iff_done o ty n p nl xs

/-- the canonical list `covering ty` of `C08_agree` is a covering collection, for every type the theorems are about:
`Covers` is satisfiable for all of them and `C08_agree` is the instance `xs := covering ty` of `C08_agree_all` -/
theorem C08_covering_covers (c : Code) (o : Options) (ty : Ty) (hw : walkable o "$" ty = true)
    (hu : uniqueNames ty = true) (hs : smallEnums ty = true) : Covers o ty (covering ty) :=
  covering_Covers c o ty hw hu hs

/-- a record type with an `Option<Vec<String>>`, a tuple, a map (traced as a map) and an enum with the four variant kinds
whose newtype variant holds another `Option` -/
def tCov : Ty :=
  .struct "S" (.cons "a" (.option (.vec .string)) (.cons "t" (.tuple (.cons (.int .u8) (.cons .bool .nil)))
    (.cons "m" (.map .string (.int .i32))
      (.cons "e" (.enum "E" (.unit "U" (.newtype "N" (.option .f32) (.tuple "T" (.cons .bool .nil)
        (.struct "R" (.cons "x" (.option (.int .i64)) .nil) .nil))))) .nil))))

def tCovSample (a m e : SVal) : SVal :=
  .record "S" (.cons "a" 0 a (.cons "t" 0 (.tuple (.cons (.int .u8 7) (.cons (.bool false) .nil)))
    (.cons "m" 0 m (.cons "e" 0 e .nil))))

/-- six samples, not in declaration order of the variants, with a `None`, an empty sequence, an empty map, a map with two
entries, a repeated variant, and `Some` / elements / entries spread over different samples -/
def tCovSamples : List SVal :=
  [ tCovSample .none (.map .nil) (.structVariant "E" 3 "R" (.cons "x" 0 .none .nil)),
    tCovSample (.some (.seq .nil)) (.map (.cons (.str "k") (.int .i32 1) (.cons (.str "l") (.int .i32 2) .nil)))
      (.newtypeVariant "E" 1 "N" .none),
    tCovSample (.some (.seq (.cons (.str "v") (.cons (.str "w") .nil)))) (.map .nil) (.unitVariant "E" 0 "U"),
    tCovSample .none (.map .nil) (.newtypeVariant "E" 1 "N" (.some (.f32 0))),
    tCovSample .none (.map .nil) (.structVariant "E" 3 "R" (.cons "x" 0 (.some (.int .i64 (-5))) .nil)),
    tCovSample .none (.map .nil) (.tupleVariant "E" 2 "T" (.cons (.bool true) .nil)) ]

/-- non-vacuity of `C08_agree_all`: the hypotheses hold for `tCovSamples` — which is neither the canonical list nor a
permutation of it — both tracers succeed, and dropping the last sample (the only one of variant `T`) loses coverage -/
example :
    let o : Options := { map_as_struct := false, allow_null_fields := true }
    walkable o "$" tCov = true ∧ uniqueNames tCov = true ∧ smallEnums tCov = true ∧ passes tCov ≤ o.from_type_budget ∧
      Covers o tCov tCovSamples ∧ tCovSamples ≠ covering tCov ∧ (fromType .fixed o tCov).isOk = true ∧
      ¬ Covers o tCov tCovSamples.dropLast := by
  decide +kernel

/-- the exclusion of maps under `map_as_struct` (the default) is real: `from_type` refuses the type, `from_samples` traces
the map as a struct whose fields are the KEYS of the samples — the two tracers do not agree there, as documented -/
theorem C08_agree_map_as_struct_false :
    let ty : Ty := .struct "S" (.cons "m" (.map .string (.int .i32)) .nil)
    let xs : List SVal := [.record "S" (.cons "m" 0 (.map (.cons (.str "k") (.int .i32 1) .nil)) .nil)]
    Covers {} ty xs ∧ (fromType .fixed {} ty).isOk = false ∧ (fromSamples .fixed {} xs).isOk = true := by
  decide +kernel

/-- the `guess_dates` clause of `hasTy` is needed: a string sample that looks like a date is traced as `Date32`, which
`from_type` cannot know -/
theorem C08_agree_guess_dates_needed :
    let o : Options := { guess_dates := true }
    let ty : Ty := .struct "S" (.cons "d" .string .nil)
    let xs : List SVal := [.record "S" (.cons "d" 0 (.str "2020-12-24") .nil)]
    covers ty xs = true ∧ ¬ Covers o ty xs ∧ Covers {} ty xs ∧ (fromSamples .fixed o xs).isOk = true ∧
      fromSamples .fixed o xs ≠ fromType .fixed o ty := by
  decide +kernel

/-! ### agreement including the error class -/

/-- `C08_from_type_class`: for EVERY type description that can be walked and ALL options, `from_type` is the documented
result INCLUDING the error class (`AgreeC`: the same fields, or the crate's message and the documented error are a row of
the table `SameClass`): budget too small ↔ "Could not determine schema from the type after … iterations"; unknown
overwrite path ↔ "Overwritten fields could not be found"; overwrite with a different name ↔ "Invalid name for overwritten
field"; null field ↔ "Encountered null only field"; enum without data ↔ "Encountered enums without data"; more than 128
variants ↔ the `i8` conversion error; nullable root ↔ "The root type cannot be nullable"; root not a struct ↔ "No
records found …" / "Schema tracing is not directly supported for the root data type".  The ORDER in which the
documented result checks (budget, overwrite paths, then the fields left to right, then the root) is the crate's. -/
theorem C08_from_type_class (c : Code) (o : Options) (ty : Ty) (hw : walkable o "$" ty = true) :
    AgreeC (fromType c o ty) (fromTypeSpec o ty) :=
  fromType_walkable_c c o ty hw

/-- `C08_agree_all_class`: on every covering collection `from_samples` is the documented result of `from_type`, error
class included (hypotheses as `C08_agree_all`) -/
theorem C08_agree_all_class (c : Code) (o : Options) (ty : Ty) (xs : List SVal) (hw : walkable o "$" ty = true)
    (hu : uniqueNames ty = true) (hs : smallEnums ty = true) (hb : passes ty ≤ o.from_type_budget)
    (hc : Covers o ty xs) : AgreeC (fromSamples c o xs) (fromTypeSpec o ty) := by
  rw [C08_agree_all c o ty xs hw hu hs hb hc]; exact C08_from_type_class c o ty hw

/-- non-vacuity: one type per error class of `to_field` / `to_schema` / the overwrite rule, each reached by `from_type`
with the crate's message -/
example :
    let sU : Ty := .struct "S" (.cons "u" .unit .nil)
    let sE : Ty := .struct "S" (.cons "e" (.enum "E" (.unit "A" (.unit "B" .nil))) .nil)
    let f : Field := .mk "x" .int8 false []
    walkable {} "$" sU = true ∧ fromType .fixed {} sU = fail "Encountered null only field" ∧
    fromType .fixed {} sE = fail "Encountered enums without data" ∧
    fromType .fixed {} (.option sU) = fail "Encountered null only field" ∧
    fromType .fixed { allow_null_fields := true } (.option sU) = fail "The root type cannot be nullable" ∧
    fromType .fixed {} (.int .i8) = fail "Schema tracing is not directly supported for the root data type" ∧
    fromType .fixed { allow_null_fields := true } .unit = fail "The root type cannot be nullable" ∧
    fromType .fixed { overwrites := [("$.u", f)] } sU = fail "Invalid name for overwritten field" ∧
    fromType .fixed { overwrites := [("$.v", f)] } sU = fail "Overwritten fields could not be found" ∧
    fromType .fixed { from_type_budget := 1, allow_null_fields := true } sE =
      fail "Could not determine schema from the type after {budget} iterations" := by
  decide +kernel

/-- for a type that CANNOT be walked the class of the error is not fixed: `enum E { A(i32), B(HashMap<..>) }` under
`map_as_struct` with a budget of one pass fails with the budget error (pass 1 explores `A`, the loop gives up before it
meets the map), with a larger budget with the map error; the documented result says "not traceable" for both.  This is
why `C08_from_type` compares only ok / error for such types -/
theorem C08_not_walkable_budget_first :
    let ty : Ty := .struct "S" (.cons "e" (.enum "E" (.newtype "A" (.int .i32) (.newtype "B" (.map .string .bool) .nil))) .nil)
    walkable {} "$" ty = false ∧
    fromType .fixed { from_type_budget := 1 } ty = fail "Could not determine schema from the type after {budget} iterations" ∧
    fromType .fixed { from_type_budget := 2 } ty = fail "Cannot trace maps as structs with `from_type`" ∧
    fromTypeSpec { from_type_budget := 1 } ty = fail "not traceable from the type" := by
  decide +kernel

/-! ### the zoo: `from_type` = documented mapping = `from_samples` on covering samples (kernel evaluation) -/

/-- `C08_from_type_on_zoo` and `C08_agree_on_zoo` in one table: for each of the 16 type descriptions and 10 option
settings of `SaModel/Lemmas/C08Zoo.lean`, the whole `from_type` pipeline (exploration passes, budget, depth limit,
`to_field`, overwrites, root check) gives exactly `Spec.fromTypeSpec` (same fields, or an error on both sides), and when it
succeeds `from_samples` on the covering samples gives the same fields -/
theorem C08_from_type_and_agree_on_zoo : ∀ o ∈ zooOptions, ∀ ty ∈ zooTypes, zooCheck o ty = true := by
  have e : zooOptions = ((zooOptions.drop 0).take 2) ++ (((zooOptions.drop 2).take 2) ++ (((zooOptions.drop 4).take 2) ++
      (((zooOptions.drop 6).take 2) ++ ((zooOptions.drop 8).take 2)))) := by rfl
  have hall : zooOptions.all (fun o => zooTypes.all fun ty => zooCheck o ty) = true := by
    rw [e, List.all_append, List.all_append, List.all_append, List.all_append, zoo_0, zoo_1, zoo_2, zoo_3, zoo_4]; rfl
  intro o ho ty hty
  exact List.all_eq_true.mp (List.all_eq_true.mp hall o ho) ty hty

/-- non-vacuity: the zoo contains types that trace successfully and types that need several passes -/
example : (fromType .fixed { allow_null_fields := true } (.struct "S" (.cons "d" tData .nil))).isOk = true ∧
    passes tDeep = 10 := by decide +kernel

end SaModel.Props.C08
