import SaModel.Lemmas.C09Field
import SaModel.Lemmas.C09Meta
/-
C09 — schemas survive every interchange form unchanged.

Model: `SaModel/Codec/Dsl.lean` (term language, data-type printer, `build_data_type`) and
`SaModel/Codec/SchemaJson.lean` (`PrettyField` / `CustomField` / `into_field` / `validate_field`, both top-level
forms, foreign field objects).  Domain: `SaModel/Spec/SchemaOK.lean`.

All round-trip theorems hold for every `esc : Char → Bool`, the table of characters `<str as Debug>` writes as
`\u{…}` (an external function of the Rust release).  They are about the *repaired* quoted-string scanner; the
pinned one (`…Pinned`) is refuted with concrete witnesses below.
-/
namespace SaModel.Props.C09
open SaModel SaModel.Dsl SaModel.SchemaJson

/-! ## the data-type mini language -/

/-- What `PrettyFieldDataType` writes, `build_data_type` reads back — for every data type whose parameters are in
range and which the form can express (`typeOK`), with the children the printer writes next to it. -/
theorem dsl_roundtrip (esc : Char → Bool) (dt : DataType) (h : typeOK dt = true) :
    readType (showType esc dt) (childList dt) = .ok dt :=
  buildDataType_showType esc dt h

/-- the data type of every field in `SchemaOK` is in the domain of `dsl_roundtrip` -/
theorem dsl_roundtrip_of_SchemaOK (esc : Char → Bool) (name : String) (dt : DataType) (nullable : Bool) (m : Metadata)
    (h : SchemaOK (.mk name dt nullable m)) : readType (showType esc dt) (childList dt) = .ok dt := by
  simp only [SchemaOK, schemaOK, validField, reprField, Bool.and_eq_true] at h
  exact dsl_roundtrip esc dt (typeOK_of_valid_repr m nullable dt h.1 h.2.2)

/-- the term level: `Term::from_str` inverts `Display for Term` on every well-formed term, for any context
that continues with nothing, a comma or a closing parenthesis -/
theorem dsl_term_roundtrip (esc : Char → Bool) (t : Term) (h : t.OK) (fuel : Nat) (hf : t.need ≤ fuel) :
    parseTerm false fuel (showTerm esc t) = .ok (t, []) := by
  have := parseTerm_show esc t h fuel [] hf (by intro c r h; cases h)
  simpa using this

/-- quoted strings: the repaired scanner undoes `{:?}` for every string and every escape table -/
theorem dsl_quoted_roundtrip (esc : Char → Bool) (s rest : Text) :
    scanQuoted .normal (escapeStr esc s ++ '"' :: rest) = .ok (s, rest) :=
  scanQuoted_escapeStr esc s rest

/-! ## the JSON form of a field -/

mutual
theorem field_rt (esc : Char → Bool) : (f : Field) → validField f = true → reprField f = true →
    parseField (printField esc f) = .ok f
  | .mk name dt nullable m, hv, hr => by
    have hv' : validType m dt = true := by simpa [validField] using hv
    have hr' : reprType nullable dt = true := by
      simp only [reprField, Bool.and_eq_true] at hr; exact hr.2
    exact field_core esc name dt nullable m hv hr (children_rt esc dt m nullable hv' hr')
theorem children_rt (esc : Char → Bool) : (dt : DataType) → (m : Metadata) → (nl : Bool) → validType m dt = true →
    reprType nl dt = true → parseChildrenOpt (printChildren esc dt) = .ok (childList dt)
  | .struct fs, m, nl, hv, hr => by
    simp only [validType, Bool.and_eq_true] at hv
    simp only [reprType] at hr
    simp only [printChildren, parseChildrenOpt, childList]
    exact fields_rt esc fs hv.2 hr
  | .list f, m, nl, hv, hr => by
    simp only [validType, Bool.and_eq_true] at hv
    simp only [reprType] at hr
    simp only [printChildren, parseChildrenOpt, childList, parseFieldListWith, bind, Except.bind, pure, Except.pure]
    have := field_rt esc f hv.2 hr
    simp only [parseField] at this
    rw [this]
  | .largeList f, m, nl, hv, hr => by
    simp only [validType, Bool.and_eq_true] at hv
    simp only [reprType] at hr
    simp only [printChildren, parseChildrenOpt, childList, parseFieldListWith, bind, Except.bind, pure, Except.pure]
    have := field_rt esc f hv.2 hr
    simp only [parseField] at this
    rw [this]
  | .fixedSizeList f n, m, nl, hv, hr => by
    simp only [validType, Bool.and_eq_true] at hv
    simp only [reprType] at hr
    simp only [printChildren, parseChildrenOpt, childList, parseFieldListWith, bind, Except.bind, pure, Except.pure]
    have := field_rt esc f hv.2 hr
    simp only [parseField] at this
    rw [this]
  | .map e sorted, m, nl, hv, hr => by
    simp only [validType, Bool.and_eq_true] at hv
    simp only [reprType, Bool.and_eq_true] at hr
    simp only [printChildren, parseChildrenOpt, childList, parseFieldListWith, bind, Except.bind, pure, Except.pure]
    have := field_rt esc e hv.2 hr.2
    simp only [parseField] at this
    rw [this]
  | .union us mode, m, nl, hv, hr => by
    simp only [validType, Bool.and_eq_true] at hv
    simp only [reprType, Bool.and_eq_true] at hr
    simp only [printChildren, parseChildrenOpt, childList]
    exact ufields_rt esc us hv.2 hr.2
  | .dictionary k v, m, nl, hv, hr => by
    simp only [validType, Bool.and_eq_true] at hv
    obtain ⟨⟨_, hk⟩, hvv⟩ := hv
    -- the two `DictionaryField`s are printed fields of childless types
    have key : parseField (printField esc (.mk "key" k false [])) = .ok (.mk "key" k false []) := by
      apply field_core esc "key" k false []
      · cases k <;> first | rfl | simp [isIntType] at hk
      · cases k <;> first | rfl | simp [isIntType] at hk
      · cases k <;> first | rfl | simp [isIntType] at hk
    have value : parseField (printField esc (.mk "value" v false [])) = .ok (.mk "value" v false []) := by
      apply field_core esc "value" v false []
      · cases v <;> first | rfl | simp [isDictValueType] at hvv
      · cases v <;> first | rfl | simp [isDictValueType] at hvv
      · cases v <;> first | rfl | simp [isDictValueType] at hvv
    have ek : printField esc (.mk "key" k false []) = dictField esc "key" k := by
      cases k <;> first | rfl | simp [isIntType] at hk
    have ev : printField esc (.mk "value" v false []) = dictField esc "value" v := by
      cases v <;> first | rfl | simp [isDictValueType] at hvv
    simp only [parseField] at key value
    simp only [printChildren, parseChildrenOpt, childList, parseFieldListWith, bind, Except.bind, pure, Except.pure,
      ← ek, ← ev, key, value]
  | .null, _, _, _, _ | .boolean, _, _, _, _ | .int8, _, _, _, _ | .int16, _, _, _, _ | .int32, _, _, _, _
  | .int64, _, _, _, _ | .uint8, _, _, _, _ | .uint16, _, _, _, _ | .uint32, _, _, _, _ | .uint64, _, _, _, _
  | .float16, _, _, _, _ | .float32, _, _, _, _ | .float64, _, _, _, _ | .utf8, _, _, _, _ | .largeUtf8, _, _, _, _
  | .utf8View, _, _, _, _ | .binary, _, _, _, _ | .largeBinary, _, _, _, _ | .binaryView, _, _, _, _
  | .fixedSizeBinary _, _, _, _, _ | .date32, _, _, _, _ | .date64, _, _, _, _ | .timestamp _ _, _, _, _, _
  | .time32 _, _, _, _, _ | .time64 _, _, _, _, _ | .duration _, _, _, _, _ | .interval _, _, _, _, _
  | .decimal128 _ _, _, _, _, _ | .runEndEncoded _ _, _, _, _, _ => rfl
theorem fields_rt (esc : Char → Bool) : (fs : Fields) → validFields fs = true → reprFields fs = true →
    parseFieldListWith false (printFields esc fs) = .ok fs.toList
  | .nil, _, _ => rfl
  | .cons f r, hv, hr => by
    simp only [validFields, Bool.and_eq_true] at hv
    simp only [reprFields, Bool.and_eq_true] at hr
    have h1 := field_rt esc f hv.1 hr.1
    have h2 := fields_rt esc r hv.2 hr.2
    simp only [parseField] at h1
    simp only [printFields, parseFieldListWith, h1, h2, Fields.toList, bind, Except.bind, pure, Except.pure]
theorem ufields_rt (esc : Char → Bool) : (us : UFields) → validUFields us = true → reprUFields us = true →
    parseFieldListWith false (printUFields esc us) = .ok (us.toList.map (·.2))
  | .nil, _, _ => rfl
  | .cons i f r, hv, hr => by
    simp only [validUFields, Bool.and_eq_true] at hv
    simp only [reprUFields, Bool.and_eq_true] at hr
    have h1 := field_rt esc f hv.1 hr.1
    have h2 := ufields_rt esc r hv.2 hr.2
    simp only [parseField] at h1
    simp only [printUFields, parseFieldListWith, h1, h2, UFields.toList, List.map_cons, bind, Except.bind, pure, Except.pure]
end

/-- **C09, JSON form.**  Every field in `SchemaOK` — any name, any data type with all parameters and children at
any nesting depth, nullability, strategy and other metadata — is read back unchanged from what is written for it. -/
theorem C09_json_roundtrip (esc : Char → Bool) (f : Field) (h : SchemaOK f) :
    parseField (printField esc f) = .ok f := by
  simp only [SchemaOK, schemaOK, Bool.and_eq_true] at h
  exact field_rt esc f h.1 h.2

theorem printable_of_valid : (f : Field) → validField f = true → printableField f = true := by
  intro f h
  -- validity excludes Interval / RunEndEncoded everywhere the printer looks
  exact go f h
where
  go : (f : Field) → validField f = true → printableField f = true
    | .mk _ dt _ m, h => by
      simp only [validField] at h
      simp only [printableField]
      exact goT m dt h
  goT (m : Metadata) : (dt : DataType) → validType m dt = true → printableType dt = true
    | .struct fs, h => by
      simp only [validType, Bool.and_eq_true] at h
      simp only [printableType]; exact goFs fs h.2
    | .list f, h => by simp only [validType, Bool.and_eq_true] at h; simp only [printableType]; exact go f h.2
    | .largeList f, h => by simp only [validType, Bool.and_eq_true] at h; simp only [printableType]; exact go f h.2
    | .fixedSizeList f _, h => by simp only [validType, Bool.and_eq_true] at h; simp only [printableType]; exact go f h.2
    | .map e _, h => by simp only [validType, Bool.and_eq_true] at h; simp only [printableType]; exact go e h.2
    | .union us _, h => by simp only [validType, Bool.and_eq_true] at h; simp only [printableType]; exact goUs us h.2
    | .dictionary k v, h => by
      simp only [validType, Bool.and_eq_true] at h
      obtain ⟨⟨_, hk⟩, hv⟩ := h
      have h1 : printable k = true := by cases k <;> first | rfl | simp [isIntType] at hk
      have h2 : printable v = true := by cases v <;> first | rfl | simp [isDictValueType] at hv
      simp [printableType, h1, h2]
    | .interval _, h => by simp [validType] at h
    | .runEndEncoded _ _, h => by simp [validType] at h
    | .null, _ | .boolean, _ | .int8, _ | .int16, _ | .int32, _ | .int64, _ | .uint8, _ | .uint16, _ | .uint32, _
    | .uint64, _ | .float16, _ | .float32, _ | .float64, _ | .utf8, _ | .largeUtf8, _ | .utf8View, _ | .binary, _
    | .largeBinary, _ | .binaryView, _ | .fixedSizeBinary _, _ | .date32, _ | .date64, _ | .timestamp _ _, _
    | .time32 _, _ | .time64 _, _ | .duration _, _ | .decimal128 _ _, _ => rfl
  goFs : (fs : Fields) → validFields fs = true → printableFields fs = true
    | .nil, _ => rfl
    | .cons f r, h => by
      simp only [validFields, Bool.and_eq_true] at h
      simp [printableFields, go f h.1, goFs r h.2]
  goUs : (us : UFields) → validUFields us = true → printableUFields us = true
    | .nil, _ => rfl
    | .cons _ f r, h => by
      simp only [validUFields, Bool.and_eq_true] at h
      simp [printableUFields, go f h.1, goUs r h.2]

theorem parseFieldList_map (esc : Char → Bool) : (fs : List Field) → (∀ f ∈ fs, SchemaOK f) →
    parseFieldListWith false (JVals.ofList (fs.map (printField esc))) = .ok fs
  | [], _ => rfl
  | f :: r, h => by
    have h1 := C09_json_roundtrip esc f (h f (by simp))
    have h2 := parseFieldList_map esc r (fun g hg => h g (by simp [hg]))
    simp only [parseField] at h1
    simp only [List.map_cons, JVals.ofList, parseFieldListWith, h1, h2, bind, Except.bind, pure, Except.pure]

/-- **C09, whole schema.**  `serde_json::to_value(&schema)` followed by `from_value` is the identity on every list
of fields in `SchemaOK` (serialisation succeeds, the value is the object form, reading it gives the same fields). -/
theorem C09_schema_roundtrip (esc : Char → Bool) (fs : List Field) (h : ∀ f ∈ fs, SchemaOK f) :
    (printSchema esc fs >>= parseSchema) = .ok fs := by
  have hp : fs.all printableField = true := by
    simp only [List.all_eq_true]
    intro f hf
    have := h f hf
    simp only [SchemaOK, schemaOK, Bool.and_eq_true] at this
    exact printable_of_valid f this.1
  have := parseFieldList_map esc fs h
  simp only [printSchema, hp, ↓reduceIte, bind, Except.bind, pure, Except.pure, parseSchema, parseSchemaWith,
    parseFieldsKeyWith, this]
  rfl

/-- the metadata clause of `SchemaOK` in explicit form: every metadata list with strictly increasing keys (a Rust
`HashMap` on the wire), with or without a strategy entry, is in the normal form `metaOK` asks for -/
theorem C09_metadata_domain (m : Metadata) (h : sortedMeta m = true) : metaOK m = true :=
  metaOK_of_sorted m h

/-! ## both top-level forms -/

/-- **C09, top-level forms.**  A list of field values and the object with that list under `fields` denote the same
schema (same fields or both rejected), also next to other keys. -/
theorem C09_toplevel (vs : JVals) : parseSchema (.obj (.cons "fields" (.arr vs) .nil)) = parseSchema (.arr vs) := by
  simp only [parseSchema, parseSchemaWith, parseFieldsKeyWith, ↓reduceIte, bind, Except.bind, pure, Except.pure]
  cases parseFieldListWith false vs <;> rfl

theorem C09_toplevel_extra_keys (vs : JVals) (k1 k2 : String) (v1 v2 : JVal) (h1 : k1 ≠ "fields") (h2 : k2 ≠ "fields") :
    parseSchema (.obj (.cons k1 v1 (.cons "fields" (.arr vs) (.cons k2 v2 .nil)))) = parseSchema (.arr vs) := by
  simp only [parseSchema, parseSchemaWith, parseFieldsKeyWith, h1, h2, ↓reduceIte, bind, Except.bind, pure, Except.pure]
  cases parseFieldListWith false vs <;> rfl

/-! ## both spellings of every type name -/

/-- the twelve names with two accepted spellings -/
def spellings : List (String × String × DataType) :=
  [("Bool", "Boolean", .boolean), ("I8", "Int8", .int8), ("I16", "Int16", .int16), ("I32", "Int32", .int32),
   ("I64", "Int64", .int64), ("U8", "UInt8", .uint8), ("U16", "UInt16", .uint16), ("U32", "UInt32", .uint32),
   ("U64", "UInt64", .uint64), ("F16", "Float16", .float16), ("F32", "Float32", .float32), ("F64", "Float64", .float64)]

/-- **C09, spellings.**  The short and the long spelling of a type name read as the same data type (and the printer
writes the short one). -/
theorem C09_spellings : ∀ e ∈ spellings,
    readType e.1.toList [] = .ok e.2.2 ∧ readType e.2.1.toList [] = .ok e.2.2 ∧
      showType (fun _ => false) e.2.2 = e.1.toList := by
  decide +kernel

/-- every other type name has one spelling, the one the printer writes (parameters: see `dsl_roundtrip`) -/
theorem C09_single_spellings : ∀ dt ∈ [DataType.null, .utf8, .largeUtf8, .utf8View, .date32, .date64, .binary,
    .largeBinary, .binaryView], readType (showType (fun _ => false) dt) [] = .ok dt := by
  decide +kernel

/-! ## invalid schema values are rejected with an error -/

def leafJ (ty : String) : JVal := .obj (.cons "name" (.str "x") (.cons "data_type" (.str ty) .nil))
def withChildren (ty : String) (cs : JVals) : JVal :=
  .obj (.cons "name" (.str "x") (.cons "data_type" (.str ty) (.cons "children" (.arr cs) .nil)))

/-- wrong child arity: `List`, `LargeList`, `Map`, `FixedSizeList(n)` need exactly one child, `Dictionary` two —
for *every* list of children of another length -/
theorem C09_rejects_arity (children : List Field) :
    (children.length ≠ 1 → (readType "List".toList children).isErr = true ∧
        (readType "LargeList".toList children).isErr = true ∧ (readType "Map".toList children).isErr = true ∧
        (readType "FixedSizeList(2)".toList children).isErr = true) ∧
    (children.length ≠ 2 → (readType "Dictionary".toList children).isErr = true) := by
  have e1 : Term.fromStrWith false "List".toList = .ok (identT "List".toList) := by decide +kernel
  have e2 : Term.fromStrWith false "LargeList".toList = .ok (identT "LargeList".toList) := by decide +kernel
  have e3 : Term.fromStrWith false "Map".toList = .ok (identT "Map".toList) := by decide +kernel
  have e4 : Term.fromStrWith false "FixedSizeList(2)".toList =
      .ok (callT "FixedSizeList".toList (.cons (identT "2".toList) .nil)) := by decide +kernel
  have e5 : Term.fromStrWith false "Dictionary".toList = .ok (identT "Dictionary".toList) := by decide +kernel
  constructor
  · intro h
    match children, h with
    | [], _ => simp only [readType, buildDataType, buildDataTypeWith, e1, e2, e3, e4, bind, Except.bind]; decide +kernel
    | _ :: _ :: _, _ =>
      simp only [readType, buildDataType, buildDataTypeWith, e1, e2, e3, e4, bind, Except.bind]
      refine ⟨rfl, rfl, rfl, rfl⟩
  · intro h
    match children, h with
    | [], _ => simp only [readType, buildDataType, buildDataTypeWith, e5, bind, Except.bind]; decide +kernel
    | [_], _ => simp only [readType, buildDataType, buildDataTypeWith, e5, bind, Except.bind]; rfl
    | _ :: _ :: _ :: _, _ => simp only [readType, buildDataType, buildDataTypeWith, e5, bind, Except.bind]; rfl

/-- `Time32` accepts seconds and milliseconds only, `Time64` microseconds and nanoseconds only — whatever the name,
nullability and metadata of the field -/
theorem C09_rejects_time_unit (name : String) (nullable : Bool) (m : Metadata) (u : TimeUnit) :
    ((u = .microsecond ∨ u = .nanosecond) → (validateField (.mk name (.time32 u) nullable m)).isOk = false) ∧
    ((u = .second ∨ u = .millisecond) → (validateField (.mk name (.time64 u) nullable m)).isOk = false) := by
  constructor <;> intro h <;> rcases h with rfl | rfl <;>
    (simp only [validateField, validateDataType, bind, Except.bind]; cases noStrategy m <;> rfl)

/-- a strategy on a field whose type admits none (here: every childless type except `Null`, and lists) is rejected,
as is an unknown strategy name on any of them -/
theorem C09_rejects_strategy (m : Metadata) (h : stratClass m ≠ .absent) :
    (noStrategy m).isOk = false := by
  unfold noStrategy getStrategyFromMetadata
  cases hg : Metadata.get? m STRATEGY_KEY with
  | none => simp [stratClass, hg] at h
  | some s =>
    simp only [bind, Except.bind, pure, Except.pure]
    cases Strategy.parse s <;> rfl

/-- negative sizes are rejected whatever else the field says -/
theorem C09_rejects_negative_size (name : String) (nullable : Bool) (m : Metadata) (n : Int) (f : Field) (h : n < 0) :
    (validateField (.mk name (.fixedSizeBinary n) nullable m)).isOk = false ∧
    (validateField (.mk name (.fixedSizeList f n) nullable m)).isOk = false := by
  simp [validateField, validateDataType, h, fail, R.isOk]

/-- a field given with both a `strategy` entry and the strategy key inside `metadata` is rejected -/
theorem C09_rejects_duplicate_strategy (metadata : Metadata) (s : Strategy) (h : hasKey metadata STRATEGY_KEY = true) :
    (mergeStrategyWithMetadata metadata (some s)).isErr = true := by
  simp [mergeStrategyWithMetadata, h, fail, R.isErr]

/-- concrete malformed values: each is an error of the model (never accepted, never a panic).  Unknown names, wrong
case, missing or extra arguments, bad units, out-of-range and malformed numbers, wrong term kinds, unbalanced
text, bad escapes; missing keys, wrong value kinds, junk at the top. -/
theorem C09_rejects_strings : ∀ s ∈ ["Int", "int8", "I128", "String", "Timestamp", "Timestamp(Second)",
    "Timestamp(Seconds, None)", "Time32(Foo)", "Time32(Nanosecond)", "Time64(Second)", "Decimal128(5)", "Decimal128(300, 2)",
    "Decimal128(5, 200)", "Decimal128(-5, 2)", "FixedSizeBinary(99999999999)", "FixedSizeBinary(-1)", "Interval(YearMonth)",
    "\"I8\"", "I8 I8", "I8,", "(I8)", "", " ", "I8()", "I8(1)", "Struct(1)", "Map(sorted)", "Union(Sparse)", "RunEndEncoded",
    "Timestamp(Second, Some(UTC))", "Timestamp(Second, \"UTC\")", "Timestamp(Second, None())",
    "Timestamp(Second, Some(\"\\u{110000}\"))", "Timestamp(Second, Some(\"\\u{d800}\"))", "Timestamp(Second, Some(\"\\u{}\"))",
    "Timestamp(Second, Some(\"\\x41\"))", "Timestamp(Second, Some(\"unterminated))", "Timestamp(Second, None", "List", "Dictionary"],
    (parseField (leafJ s)).isErr = true := by
  decide +kernel

theorem C09_rejects_values : ∀ v ∈ [
    JVal.null, .num 3, .str "I8", .bool true, .obj .nil, .obj (.cons "Fields" (.arr .nil) .nil),
    .obj (.cons "fields" (.num 1) .nil), .obj (.cons "fields" .null .nil),
    .arr (.cons (.num 1) .nil), .arr (.cons (.obj .nil) .nil),
    .arr (.cons (.obj (.cons "name" (.str "x") .nil)) .nil),
    .arr (.cons (.obj (.cons "data_type" (.str "I8") .nil)) .nil),
    .arr (.cons (.obj (.cons "name" (.num 1) (.cons "data_type" (.str "I8") .nil))) .nil),
    .arr (.cons (.obj (.cons "name" (.str "x") (.cons "data_type" (.num 8) .nil))) .nil),
    .arr (.cons (.obj (.cons "name" (.str "x") (.cons "data_type" (.str "I8") (.cons "nullable" .null .nil)))) .nil),
    .arr (.cons (.obj (.cons "name" (.str "x") (.cons "data_type" (.str "I8") (.cons "nullable" (.str "true") .nil)))) .nil),
    .arr (.cons (.obj (.cons "name" (.str "x") (.cons "data_type" (.str "I8") (.cons "strategy" (.str "Foo") .nil)))) .nil),
    .arr (.cons (.obj (.cons "name" (.str "x") (.cons "data_type" (.str "I8") (.cons "strategy" (.str "MapAsStruct") .nil)))) .nil),
    .arr (.cons (.obj (.cons "name" (.str "x") (.cons "data_type" (.str "I8") (.cons "children" .null .nil)))) .nil),
    .arr (.cons (.obj (.cons "name" (.str "x") (.cons "data_type" (.str "I8") (.cons "metadata" (.arr .nil) .nil)))) .nil),
    .arr (.cons (.obj (.cons "name" (.str "x") (.cons "data_type" (.str "I8")
      (.cons "metadata" (.obj (.cons "k" (.num 1) .nil)) .nil)))) .nil),
    .arr (.cons (.obj (.cons "name" (.str "x") (.cons "data_type" (.str "Struct") (.cons "strategy" (.str "MapAsStruct")
      (.cons "metadata" (.obj (.cons "SERDE_ARROW:strategy" (.str "MapAsStruct") .nil)) .nil))))) .nil),
    .arr (.cons (withChildren "List" .nil) .nil),
    .arr (.cons (withChildren "List" (.cons (leafJ "I8") (.cons (leafJ "I8") .nil))) .nil),
    .arr (.cons (withChildren "Map" (.cons (leafJ "I8") .nil)) .nil),
    .arr (.cons (withChildren "Dictionary" (.cons (leafJ "Utf8") (.cons (leafJ "Utf8") .nil))) .nil),
    .arr (.cons (withChildren "Dictionary" (.cons (leafJ "I8") (.cons (leafJ "I32") .nil))) .nil),
    .arr (.cons (withChildren "I8" (.cons (leafJ "Foo") .nil)) .nil)],
    (parseSchema v).isErr = true := by
  decide +kernel

/-! ## foreign field objects -/

/-- **C09, foreign field objects.**  A valid field passed where a schema value is accepted (marrow / arrow `Field`s
given to `from_value`) is accepted unchanged — including sorted maps and sparse unions, which only the JSON form
cannot express; `Null` fields are made nullable. -/
theorem C09_foreign (f : Field) (hv : validField f = true) (hn : ∀ n nl m, f = .mk n .null nl m → nl = true) :
    acceptForeign f = .ok f := by
  match f, hv, hn with
  | .mk name dt nullable m, hv, hn =>
    have hnull : normNullable dt nullable = nullable := by
      cases dt <;> first | rfl | (have := hn name nullable m rfl; simp [normNullable, this])
    have := validateField_of_valid _ hv
    simp only [acceptForeign, hnull, this, bind, Except.bind, pure, Except.pure]

/-! ## the domain is not empty, and what lies outside it -/

def esc0 : Char → Bool := fun c => c.toNat < 32

/-- an ordinary nested schema: struct with strategy and metadata, list, map, union, dictionary, decimals with
negative scale, zero sizes, empty and non-ASCII names, a hostile time zone -/
def exampleField : Field :=
  .mk "" (.struct (.cons (.mk "名前" (.timestamp .millisecond (some "a\"b\\c\nd")) true [("k", "v")])
    (.cons (.mk "l" (.largeList (.mk "element" (.decimal128 38 (-3)) true [])) false [])
    (.cons (.mk "m" (.map (.mk "entries" (.struct (.cons (.mk "key" .utf8 false []) (.cons (.mk "value" (.fixedSizeBinary 0) true []) .nil)))
        false []) false) true [])
    (.cons (.mk "u" (.union (.cons 0 (.mk "A" .null true [(STRATEGY_KEY, "UnknownVariant")])
        (.cons 1 (.mk "B" (.fixedSizeList (.mk "element" .float16 false []) 0) false []) .nil)) .dense) false [])
    (.cons (.mk "d" (.dictionary .uint16 .largeUtf8) true [])
    (.cons (.mk "t" (.time64 .nanosecond) false []) .nil)))))))
    false [("ARROW:extension:name", "x"), (STRATEGY_KEY, "MapAsStruct"), ("a", "")]

example : SchemaOK exampleField := by decide +kernel
example : parseField (printField esc0 exampleField) = .ok exampleField := C09_json_roundtrip esc0 exampleField (by decide +kernel)
example : SchemaOK (.mk "a" .int32 false []) := by decide +kernel
example : SchemaOK (.mk "a" (.timestamp .second (some "UTC")) true []) := by decide +kernel
example : typeOK (.timestamp .nanosecond (some "\\\"")) = true := by decide +kernel

/-- Defect (repaired by the `fix:` commit): the pinned scanner stops at the first backslash, so a time zone with a
quote, backslash or control character does not survive — the field is in `SchemaOK`, the pinned reader fails. -/
def tzWitness : Field := .mk "t" (.timestamp .second (some "a\"b\\c")) false []

theorem pinned_tz_defect : SchemaOK tzWitness ∧ (parseFieldPinned (printField esc0 tzWitness)).isErr = true ∧
    parseField (printField esc0 tzWitness) = .ok tzWitness := by
  decide +kernel

/-- Known finding: the JSON form has no place for `Map(_, sorted = true)`; it reads back unsorted, without an error. -/
def sortedMapWitness : Field :=
  .mk "m" (.map (.mk "entries" (.struct (.cons (.mk "key" .utf8 false []) (.cons (.mk "value" .int32 true []) .nil))) false []) true) false []

theorem sorted_map_outside : validField sortedMapWitness = true ∧ ¬ SchemaOK sortedMapWitness ∧
    parseField (printField esc0 sortedMapWitness) =
      .ok (.mk "m" (.map (.mk "entries" (.struct (.cons (.mk "key" .utf8 false []) (.cons (.mk "value" .int32 true []) .nil))) false []) false) false []) := by
  decide +kernel

/-- Known finding: union mode and type ids are not written; a sparse union or one with other ids than 0,1,2,…
reads back dense with consecutive ids, without an error. -/
def sparseUnionWitness : Field := .mk "u" (.union (.cons 0 (.mk "A" .int8 false []) .nil) .sparse) false []
def unionIdsWitness : Field := .mk "u" (.union (.cons 5 (.mk "A" .int8 false []) (.cons 3 (.mk "B" .utf8 true []) .nil)) .dense) false []

theorem union_outside :
    validField sparseUnionWitness = true ∧ ¬ SchemaOK sparseUnionWitness ∧
    parseField (printField esc0 sparseUnionWitness) = .ok (.mk "u" (.union (.cons 0 (.mk "A" .int8 false []) .nil) .dense) false []) ∧
    validField unionIdsWitness = true ∧ ¬ SchemaOK unionIdsWitness ∧
    parseField (printField esc0 unionIdsWitness) =
      .ok (.mk "u" (.union (.cons 0 (.mk "A" .int8 false []) (.cons 1 (.mk "B" .utf8 true []) .nil)) .dense) false []) := by
  decide +kernel

/-- by design: a `Null` field is always nullable after reading -/
theorem null_normalised : ¬ SchemaOK (.mk "n" .null false []) ∧
    parseField (printField esc0 (.mk "n" .null false [])) = .ok (.mk "n" .null true []) := by
  decide +kernel

/-- outside the domain because they are not valid schemas: written without complaint, rejected when read -/
theorem invalid_rejected : ∀ f ∈ [
    Field.mk "t" (.time32 .microsecond) false [], .mk "t" (.time64 .second) false [],
    .mk "b" (.fixedSizeBinary (-1)) false [], .mk "l" (.fixedSizeList (.mk "element" .int8 false []) (-2)) false [],
    .mk "i" .int32 false [(STRATEGY_KEY, "MapAsStruct")], .mk "i" .int32 false [(STRATEGY_KEY, "junk")],
    .mk "s" (.struct .nil) false [(STRATEGY_KEY, "UnknownVariant")],
    .mk "d" (.dictionary .utf8 .utf8) false [], .mk "d" (.dictionary .int8 .int32) false [],
    .mk "m" (.map (.mk "entries" .int8 false []) false) false []],
    ¬ SchemaOK f ∧ (parseField (printField esc0 f)).isErr = true := by
  decide +kernel

/-- types the form cannot write at all: serialisation itself is an error -/
theorem unprintable_rejected :
    (printSchema esc0 [.mk "i" (.interval .dayTime) false []]).isErr = true ∧
    (printSchema esc0 [.mk "r" (.runEndEncoded (.mk "run_ends" .int32 false []) (.mk "values" .utf8 true [])) false []]).isErr = true := by
  decide +kernel

end SaModel.Props.C09
