import SaModel.Props.C09Nec
import SaModel.Codec.SchemaMarrow
/-
C09, "converted to … marrow fields and back": the marrow-field ↔ `SerdeArrowSchema` conversions of the crate
(model: `SaModel/Codec/SchemaMarrow.lean`; the schema IS a vector of marrow fields, the strategy lives in the metadata entry
`SERDE_ARROW:strategy` of the marrow field — there is no second field type to convert to).

  C09_marrow_roundtrip        schema → marrow fields → `from_value(&fields)` gives back the schema, for every valid schema
                              whose top-level `Null` fields are nullable (every schema `from_value` / the tracer builds)
  C09_marrow_roundtrip_domain the same for every schema in `SchemaOK`
  C09_marrow_accepted         marrow fields → schema → marrow fields: what `from_value(&fields)` ACCEPTS comes back as the
                              given fields with top-level `Null` made nullable (`normField`): name, data type with all
                              parameters and children, metadata — strategy entry included — untouched; unchanged
                              (`C09_marrow_accepted_id`) when no top-level `Null` field is marked non-nullable
  C09_marrow_idempotent       an accepted schema is a fixed point: converting it to marrow fields and back gives itself
  C09_marrow_strategy         the strategy read from the metadata (`get_strategy_from_metadata`) of every field survives
  C09_marrow_unchecked        `ArrayBuilder::from_marrow` wraps the fields as they are
arrow / arrow2 fields: the crate maps marrow's own `TryFrom` impls over the list (third-party; validated by the suite).
-/
namespace SaModel.Props.C09
open SaModel SaModel.Dsl SaModel.SchemaJson SaModel.Lemmas.C09

theorem nullTop_norm (f : Field) (h : nullTop f = true) : normField f = f := by
  obtain ⟨n, dt, nl, m⟩ := f
  cases dt <;> simp_all [normField, normNullable, nullTop]

theorem normField_idem (f : Field) : normField (normField f) = normField f := by
  obtain ⟨n, dt, nl, m⟩ := f
  cases dt <;> simp [normField, normNullable]

theorem acceptForeign_norm (f f' : Field) (h : acceptForeign f = .ok f') : f' = normField f := by
  have := acceptForeign_eq f f' h
  obtain ⟨n, dt, nl, m⟩ := f
  simpa [normField, Field.name, Field.dataType, Field.nullable, Field.metadata] using this

theorem acceptForeign_fixed (f f' : Field) (h : acceptForeign f = .ok f') : acceptForeign f' = .ok f' := by
  have e := acceptForeign_norm f f' h
  subst e
  obtain ⟨n, dt, nl, m⟩ := f
  have hi := normField_idem (.mk n dt nl m)
  simp only [normField] at hi
  simp only [acceptForeign, normField] at h ⊢
  injection hi with _ _ hnl _
  rw [hnl]
  exact h

theorem acceptForeignList_valid : ∀ fs : List Field, (∀ f ∈ fs, validField f = true ∧ nullTop f = true) →
    acceptForeignList fs = .ok fs
  | [], _ => rfl
  | f :: r, h => by
    have hf := h f (by simp)
    have h1 : acceptForeign f = .ok f := C09_foreign f hf.1 (by
      intro n nl m e; subst e; simpa [nullTop] using hf.2)
    have h2 := acceptForeignList_valid r (fun g hg => h g (by simp [hg]))
    simp [acceptForeignList, h1, h2, bind, Except.bind, pure, Except.pure]

theorem acceptForeignList_norm : ∀ (fs fs' : List Field), acceptForeignList fs = .ok fs' → fs' = fs.map normField
  | [], fs', h => by simp [acceptForeignList, pure, Except.pure] at h; simp [h]
  | f :: r, fs', h => by
    simp only [acceptForeignList] at h
    obtain ⟨f', hf, h⟩ := bind_ok_inv h
    obtain ⟨r', hr, h⟩ := bind_ok_inv h
    cases h
    simp [acceptForeign_norm f f' hf, acceptForeignList_norm r r' hr]

theorem acceptForeignList_fixed : ∀ (fs fs' : List Field), acceptForeignList fs = .ok fs' → acceptForeignList fs' = .ok fs'
  | [], fs', h => by simp [acceptForeignList, pure, Except.pure] at h; subst h; rfl
  | f :: r, fs', h => by
    simp only [acceptForeignList] at h
    obtain ⟨f', hf, h⟩ := bind_ok_inv h
    obtain ⟨r', hr, h⟩ := bind_ok_inv h
    cases h
    simp [acceptForeignList, acceptForeign_fixed f f' hf, acceptForeignList_fixed r r' hr, bind, Except.bind, pure, Except.pure]

/-- **C09, marrow fields: schema → marrow fields → schema.**  For every schema whose fields are valid and whose top-level
`Null` fields are nullable, handing its marrow fields back where a schema value is accepted gives the same schema. -/
theorem C09_marrow_roundtrip (s : Schema) (h : ∀ f ∈ s.fields, validField f = true ∧ nullTop f = true) :
    fromMarrow (toMarrow s) = .ok s := by
  obtain ⟨fs⟩ := s
  simp [fromMarrow, toMarrow, acceptForeignList_valid fs h, bind, Except.bind, pure, Except.pure]

theorem nullTop_of_repr (f : Field) (h : reprField f = true) : nullTop f = true := by
  obtain ⟨n, dt, nl, m⟩ := f
  cases dt <;> simp_all [nullTop, reprField, reprType]

/-- … in particular for every schema of the round-trip domain of the JSON form -/
theorem C09_marrow_roundtrip_domain (s : Schema) (h : ∀ f ∈ s.fields, SchemaOK f) : fromMarrow (toMarrow s) = .ok s :=
  C09_marrow_roundtrip s fun f hf => by
    have := h f hf
    simp only [SchemaOK, schemaOK, Bool.and_eq_true] at this
    exact ⟨this.1, nullTop_of_repr f this.2⟩

/-- **C09, marrow fields: marrow fields → schema → marrow fields.**  Whatever field list `from_value(&fields)` accepts
comes back as the given list with top-level `Null` fields made nullable — nothing else is touched. -/
theorem C09_marrow_accepted (fs : List Field) (s : Schema) (h : fromMarrow fs = .ok s) :
    toMarrow s = fs.map normField := by
  simp only [fromMarrow] at h
  obtain ⟨fs', hfs, h⟩ := bind_ok_inv h
  cases h
  exact acceptForeignList_norm fs fs' hfs

/-- … and is the given list itself when no top-level `Null` field is marked non-nullable -/
theorem C09_marrow_accepted_id (fs : List Field) (s : Schema) (h : fromMarrow fs = .ok s)
    (hn : ∀ f ∈ fs, nullTop f = true) : toMarrow s = fs := by
  rw [C09_marrow_accepted fs s h]
  clear h
  induction fs with
  | nil => rfl
  | cons f r ih =>
    simp only [List.map_cons, nullTop_norm f (hn f (by simp)), ih (fun g hg => hn g (by simp [hg]))]

/-- an accepted schema is a fixed point of marrow fields → schema -/
theorem C09_marrow_idempotent (fs : List Field) (s : Schema) (h : fromMarrow fs = .ok s) :
    fromMarrow (toMarrow s) = .ok s := by
  simp only [fromMarrow] at h
  obtain ⟨fs', hfs, h⟩ := bind_ok_inv h
  cases h
  simp [fromMarrow, toMarrow, acceptForeignList_fixed fs fs' hfs, bind, Except.bind, pure, Except.pure]

/-- the strategy of every field (read from the metadata entry `SERDE_ARROW:strategy`), its name and its data type survive -/
theorem C09_marrow_strategy (fs : List Field) (s : Schema) (h : fromMarrow fs = .ok s) :
    (toMarrow s).map (fun f => (f.name, f.dataType, getStrategyFromMetadata f.metadata)) =
      fs.map (fun f => (f.name, f.dataType, getStrategyFromMetadata f.metadata)) := by
  rw [C09_marrow_accepted fs s h, List.map_map]
  apply List.map_congr_left
  intro f _
  obtain ⟨n, dt, nl, m⟩ := f
  rfl

/-- `ArrayBuilder::from_marrow` / `Deserializer::from_marrow` wrap the fields as they are -/
theorem C09_marrow_unchecked (fs : List Field) : toMarrow (fromMarrowUnchecked fs) = fs := rfl

/-! non-vacuity: the nested example schema of Props/C09.lean (strategy + metadata, sorted out types) and a schema OUTSIDE
the JSON domain (sorted map, sparse union with ids 5, 3) survive the marrow conversion; a non-nullable top-level `Null` is
normalised; an invalid field list is refused -/
example : fromMarrow (toMarrow ⟨[exampleField]⟩) = .ok ⟨[exampleField]⟩ :=
  C09_marrow_roundtrip_domain ⟨[exampleField]⟩ (by intro f hf; simp at hf; subst hf; decide +kernel)
example :
    let f : Field := .mk "m" (.map (.mk "entries" (.struct (.cons (.mk "key" .utf8 false []) (.cons (.mk "value"
      (.union (.cons 5 (.mk "a" .int8 false []) (.cons 3 (.mk "b" .utf8 true []) .nil)) .sparse) true []) .nil))) false []) true)
      false [(STRATEGY_KEY, "x")]
    schemaOK (.mk "m" f.dataType false []) = false ∧ fromMarrow [.mk "m" f.dataType false []] = .ok ⟨[.mk "m" f.dataType false []]⟩ ∧
      (fromMarrow [f]).isOk = false := by decide +kernel
example : fromMarrow [.mk "n" .null false []] = .ok ⟨[.mk "n" .null true []]⟩ := by decide +kernel

end SaModel.Props.C09
