import SaModel.Props.C09
import SaModel.Lemmas.C09SoundField
import SaModel.Lemmas.C09Entries
/-
C09, second part: `SchemaOK` is NECESSARY for the JSON round trip, and `validate_field` as a theorem.

* `C09_reader_sound` — whatever `from_value` accepts (any JSON value) is a list of fields in `SchemaOK`: the reader never
  returns an invalid schema, a sorted map, a sparse union, type ids other than 0,1,2,…, a non-nullable `Null` field or
  metadata outside HashMap normal form.
* `C09_json_roundtrip_iff` — `parseField (printField f) = ok f ↔ SchemaOK f`; `C09_necessity` and the clause-by-clause
  corollaries (`C09_map_sorted_never_survives`, `C09_union_sparse_never_survives`, `C09_union_ids_never_survive`,
  `C09_null_nonnullable_never_survives`, `C09_invalid_never_survives`) are the recorded findings C09-map-sorted and
  C09-union-mode-ids stated about EVERY such field, at any nesting depth (`C09_necessity` with `reprField`).
* `C09_map_sorted_read_as_unsorted`, `C09_union_read_as_dense` — what happens instead: the printer does not look at the
  flag / mode / ids, so the field reads back, without an error, as its unsorted / dense-renumbered twin whenever that
  twin is in `SchemaOK`.
* `C09_foreign_iff` — `validate_field` accepts a foreign field object exactly when it is `validField` (side condition
  `rangeField` of `Spec/SchemaSide.lean`: numeric parameters are values of their Rust types).
  `C09_foreign_entries_refused`: a foreign field with a map, at any depth, whose entries struct carries a strategy no struct
  admits is refused; `C09_foreign_entries_unchecked_pinned`: the pinned `acceptForeignPinned` (the code before repo fix
  cb2c848, `validate_map_field validates the entries field itself`) accepts such a field (witness); on the repaired code the
  entries clause is a conclusion (`entriesField_of_validate`), so `C09_foreign_iff` has the single side condition `rangeField`.
-/
namespace SaModel.Props.C09
open SaModel SaModel.Dsl SaModel.SchemaJson

/-! ## the reader returns only fields of the domain -/

/-- **C09, reader soundness (all JSON values).**  Every field `from_value` returns is in `SchemaOK`. -/
theorem C09_reader_sound_field (j : JVal) (f : Field) (h : parseField j = .ok f) : SchemaOK f :=
  parseField_sound false j f h

theorem C09_reader_sound (j : JVal) (fs : List Field) (h : parseSchema j = .ok fs) : ∀ f ∈ fs, SchemaOK f := by
  cases j with
  | arr vs => exact parseFieldList_sound false vs fs h
  | obj o =>
    simp only [parseSchema, parseSchemaWith] at h
    obtain ⟨r, hr, h⟩ := bind_ok_inv h
    cases r with
    | none => cases h
    | some fs' =>
      cases h
      exact go o (some fs) hr fs rfl
  | null => cases h
  | bool _ => cases h
  | num _ => cases h
  | str _ => cases h
where
  go : (o : JObj) → (r : Option (List Field)) → parseFieldsKeyWith false o = .ok r → ∀ fs, r = some fs →
      ∀ f ∈ fs, SchemaOK f
    | .nil, r, h, fs, hr => by cases h; cases hr
    | .cons k v rest, r, h, fs, hr => by
      unfold parseFieldsKeyWith at h
      split at h
      · match v, h with
        | .arr vs, h =>
          have h' : (parseFieldListWith false vs >>= fun fs1 => parseFieldsKeyWith false rest >>= fun later =>
              pure (some (later.getD fs1))) = .ok r := h
          obtain ⟨fs1, h1, h'⟩ := bind_ok_inv h'
          obtain ⟨later, h2, h'⟩ := bind_ok_inv h'
          cases h'
          cases hr
          cases later with
          | none => exact parseFieldList_sound false vs fs1 h1
          | some l => exact go rest (some l) h2 l rfl
        | .null, h | .bool _, h | .num _, h | .str _, h | .obj _, h => cases h
      · exact go rest r h fs hr

/-! ## necessity of `SchemaOK` -/

/-- **C09, the domain is exact.**  A field survives being written and read back if AND ONLY IF it is in `SchemaOK`. -/
theorem C09_json_roundtrip_iff (esc : Char → Bool) (f : Field) : parseField (printField esc f) = .ok f ↔ SchemaOK f :=
  ⟨C09_reader_sound_field _ f, C09_json_roundtrip esc f⟩

/-- a field outside `SchemaOK` never survives (it is rejected, or read back as another field) -/
theorem C09_necessity (esc : Char → Bool) (f : Field) (h : ¬ SchemaOK f) : parseField (printField esc f) ≠ .ok f :=
  fun hp => h ((C09_json_roundtrip_iff esc f).mp hp)

/-- not expressible, at any nesting depth: a sorted map, a sparse union, other type ids, a non-nullable `Null`, metadata
that is not a HashMap in normal form anywhere inside the field -/
theorem C09_inexpressible_never_survives (esc : Char → Bool) (f : Field) (h : reprField f = false) :
    parseField (printField esc f) ≠ .ok f :=
  C09_necessity esc f (by simp [SchemaOK, schemaOK, h])

/-- not a valid schema, at any nesting depth -/
theorem C09_invalid_never_survives (esc : Char → Bool) (f : Field) (h : validField f = false) :
    parseField (printField esc f) ≠ .ok f :=
  C09_necessity esc f (by simp [SchemaOK, schemaOK, h])

/-- **known finding C09-map-sorted, for every field**: a sorted map never survives -/
theorem C09_map_sorted_never_survives (esc : Char → Bool) (name : String) (e : Field) (nullable : Bool) (m : Metadata) :
    parseField (printField esc (.mk name (.map e true) nullable m)) ≠ .ok (.mk name (.map e true) nullable m) :=
  C09_inexpressible_never_survives esc _ (by simp [reprField, reprType])

/-- **known finding C09-union-mode-ids, for every field**: a sparse union never survives -/
theorem C09_union_sparse_never_survives (esc : Char → Bool) (name : String) (us : UFields) (nullable : Bool) (m : Metadata) :
    parseField (printField esc (.mk name (.union us .sparse) nullable m)) ≠ .ok (.mk name (.union us .sparse) nullable m) :=
  C09_inexpressible_never_survives esc _ (by simp [reprField, reprType])

/-- **known finding C09-union-mode-ids, for every field**: type ids other than 0,1,2,… never survive -/
theorem C09_union_ids_never_survive (esc : Char → Bool) (name : String) (us : UFields) (mode : UnionMode) (nullable : Bool)
    (m : Metadata) (h : idsFrom 0 us = false) :
    parseField (printField esc (.mk name (.union us mode) nullable m)) ≠ .ok (.mk name (.union us mode) nullable m) :=
  C09_inexpressible_never_survives esc _ (by simp [reprField, reprType, h])

/-- by design: a non-nullable `Null` field never survives (it is read back nullable) -/
theorem C09_null_nonnullable_never_survives (esc : Char → Bool) (name : String) (m : Metadata) :
    parseField (printField esc (.mk name .null false m)) ≠ .ok (.mk name .null false m) :=
  C09_inexpressible_never_survives esc _ (by simp [reprField, reprType])

/-! ## what happens instead: no error, another field -/

/-- the printer does not look at the `sorted` flag -/
theorem print_map_sorted (esc : Char → Bool) (name : String) (e : Field) (s : Bool) (nullable : Bool) (m : Metadata) :
    printField esc (.mk name (.map e s) nullable m) = printField esc (.mk name (.map e false) nullable m) := by
  simp [printField, printChildren, showType, showType?]

/-- **known finding C09-map-sorted, general form**: a sorted map whose unsorted twin is in `SchemaOK` is read back —
without an error — as the unsorted twin -/
theorem C09_map_sorted_read_as_unsorted (esc : Char → Bool) (name : String) (e : Field) (nullable : Bool) (m : Metadata)
    (h : SchemaOK (.mk name (.map e false) nullable m)) :
    parseField (printField esc (.mk name (.map e true) nullable m)) = .ok (.mk name (.map e false) nullable m) := by
  rw [print_map_sorted]; exact C09_json_roundtrip esc _ h

/-- union children renumbered idx, idx+1, … -/
def renumber : Nat → UFields → UFields
  | _, .nil => .nil
  | idx, .cons _ f r => .cons (Int.ofNat idx) f (renumber (idx + 1) r)

theorem printUFields_renumber (esc : Char → Bool) : (us : UFields) → (idx : Nat) →
    printUFields esc (renumber idx us) = printUFields esc us
  | .nil, _ => rfl
  | .cons _ f r, idx => by simp [renumber, printUFields, printUFields_renumber esc r (idx + 1)]

/-- the printer looks at neither the union mode nor the type ids -/
theorem print_union_mode_ids (esc : Char → Bool) (name : String) (us : UFields) (mode : UnionMode) (nullable : Bool)
    (m : Metadata) :
    printField esc (.mk name (.union us mode) nullable m) = printField esc (.mk name (.union (renumber 0 us) .dense) nullable m) := by
  simp [printField, printChildren, showType, showType?, printUFields_renumber]

/-- **known finding C09-union-mode-ids, general form**: a union of any mode with any type ids whose dense twin with ids
0,1,2,… is in `SchemaOK` is read back — without an error — as that twin -/
theorem C09_union_read_as_dense (esc : Char → Bool) (name : String) (us : UFields) (mode : UnionMode) (nullable : Bool)
    (m : Metadata) (h : SchemaOK (.mk name (.union (renumber 0 us) .dense) nullable m)) :
    parseField (printField esc (.mk name (.union us mode) nullable m)) =
      .ok (.mk name (.union (renumber 0 us) .dense) nullable m) := by
  rw [print_union_mode_ids]; exact C09_json_roundtrip esc _ h

/-! ## foreign field objects: `validate_field` as a theorem -/

/-- what `from_value` returns for a foreign field object is the object itself with `Null` made nullable -/
theorem acceptForeign_eq (f f' : Field) (h : acceptForeign f = .ok f') :
    f' = .mk f.name f.dataType (normNullable f.dataType f.nullable) f.metadata := by
  obtain ⟨n, dt, nl, m⟩ := f
  unfold acceptForeign at h
  obtain ⟨_, _, h⟩ := bind_ok_inv h
  cases h; rfl

/-- **C09, foreign field objects, exact.**  `validate_field` accepts a foreign field object if and only if it is a valid
schema (`validField`), given that its numeric parameters are values of their Rust types (`rangeField`: true of every Rust
value; a hypothesis only because the model's `Field` carries unbounded integers). -/
theorem C09_foreign_iff (f : Field) (hr : rangeField f = true) :
    (acceptForeign f).isOk = true ↔ validField f = true := by
  obtain ⟨n, dt, nl, m⟩ := f
  have e1 : rangeField (.mk n dt (normNullable dt nl) m) = true := by simpa [rangeField] using hr
  constructor
  · intro h
    cases hv : validateField (.mk n dt (normNullable dt nl) m) with
    | error e => simp [acceptForeign, hv, bind, Except.bind, R.isOk] at h
    | ok u =>
      have := validField_of_validate _ e1 hv
      simpa [validField] using this
  · intro h
    have hv : validField (.mk n dt (normNullable dt nl) m) = true := by simpa [validField] using h
    simp [acceptForeign, validateField_of_valid _ hv, bind, Except.bind, pure, Except.pure, R.isOk]

/-- the side condition follows from validity (and so does `entriesField`): on valid fields nothing is assumed -/
theorem C09_foreign_side (f : Field) (h : validField f = true) : rangeField f = true ∧ entriesField f = true :=
  side_of_valid f h

/-- **C09, foreign field objects: the entries field of a map is validated.**  A foreign field that contains, at any
depth, a map whose entries struct carries a strategy no struct admits (`InconsistentTypes`, `UnknownVariant`, an unknown
name: `entriesField f = false`) is refused by `from_value` — for every field, no side condition. -/
theorem C09_foreign_entries_refused (f : Field) (h : entriesField f = false) : (acceptForeign f).isOk = false := by
  obtain ⟨n, dt, nl, m⟩ := f
  cases hv : validateField (.mk n dt (normNullable dt nl) m) with
  | error e => simp [acceptForeign, hv, bind, Except.bind, R.isOk]
  | ok u =>
    have := entriesField_of_validate _ hv
    simp only [entriesField] at this h
    rw [this] at h; cases h

/-- the instance at the top: a map whose entries struct carries such a strategy, whatever else the field contains -/
theorem C09_foreign_entries_refused_top (name en : String) (fs : Fields) (enl sorted nullable : Bool) (em m : Metadata)
    (h : structStrat em = false) :
    (acceptForeign (.mk name (.map (.mk en (.struct fs) enl em) sorted) nullable m)).isOk = false :=
  C09_foreign_entries_refused _ (by simp [entriesField, entriesType, entryStrat, h])

/-- **the repair changes nothing else.**  On every field whose map entries structs carry a struct's strategy or none
(`entriesField`: in particular on every valid field, `C09_foreign_side`) `from_value` before and after the fix is the same
function of the foreign field object — same result, same error. -/
theorem C09_foreign_pinned_eq (f : Field) (h : entriesField f = true) : acceptForeignPinned f = acceptForeign f := by
  obtain ⟨n, dt, nl, m⟩ := f
  have e : entriesField (.mk n dt (normNullable dt nl) m) = true := by simpa [entriesField] using h
  simp only [acceptForeignPinned, acceptForeign, validateFieldPinned_eq _ e]

/-- whatever the repaired `from_value` accepts the pinned one accepted, with the same result: the fix only refuses -/
theorem C09_foreign_pinned_of_repaired (f f' : Field) (h : acceptForeign f = .ok f') : acceptForeignPinned f = .ok f' := by
  cases he : entriesField f with
  | true => rw [C09_foreign_pinned_eq f he]; exact h
  | false => have := C09_foreign_entries_refused f he; simp [h, R.isOk] at this

/-- The witness of the repaired defect: a foreign map whose entries struct is annotated with a strategy no struct may
carry (here an unknown name); `validField` rejects it, and so does `validate_field` applied to the entries field on its
own.  The JSON form cannot produce such a field (`C09_reader_sound`). -/
def foreignEntriesWitness : Field :=
  .mk "m" (.map (.mk "entries" (.struct (.cons (.mk "key" .utf8 false []) (.cons (.mk "value" .int32 true []) .nil)))
    false [(STRATEGY_KEY, "no such strategy")]) false) false []

/-- **pinned** (`validate_map_field` before the fix validated the two fields inside the entries struct, not the entries
field itself): the witness — not a valid schema, parameters in range — was accepted unchanged, although the same entries
field on its own was refused; the schema the crate then wrote was refused by its own reader (`C09_invalid_never_survives`). -/
theorem C09_foreign_entries_unchecked_pinned :
    validField foreignEntriesWitness = false ∧ rangeField foreignEntriesWitness = true ∧
    entriesField foreignEntriesWitness = false ∧
    acceptForeignPinned foreignEntriesWitness = .ok foreignEntriesWitness ∧
    (validateFieldPinned (.mk "entries" (.struct (.cons (.mk "key" .utf8 false []) (.cons (.mk "value" .int32 true []) .nil)))
      false [(STRATEGY_KEY, "no such strategy")])).isOk = false := by
  decide +kernel

/-- repaired: the witness is refused, with the error the entries field gets on its own -/
theorem C09_foreign_entries_witness_refused :
    acceptForeign foreignEntriesWitness = fail "Unknown strategy" ∧
    validateField (.mk "entries" (.struct (.cons (.mk "key" .utf8 false []) (.cons (.mk "value" .int32 true []) .nil)))
      false [(STRATEGY_KEY, "no such strategy")]) = fail "Unknown strategy" := by
  decide +kernel

/-! ## non-vacuity -/

example : ¬ SchemaOK sortedMapWitness := by decide +kernel
example : parseField (printField esc0 sortedMapWitness) ≠ .ok sortedMapWitness :=
  C09_map_sorted_never_survives esc0 _ _ _ _
example : parseField (printField esc0 sortedMapWitness) =
    .ok (.mk "m" (.map (.mk "entries" (.struct (.cons (.mk "key" .utf8 false []) (.cons (.mk "value" .int32 true []) .nil))) false []) false) false []) :=
  C09_map_sorted_read_as_unsorted esc0 _ _ _ _ (by decide +kernel)
example : parseField (printField esc0 unionIdsWitness) =
    .ok (.mk "u" (.union (.cons 0 (.mk "A" .int8 false []) (.cons 1 (.mk "B" .utf8 true []) .nil)) .dense) false []) :=
  C09_union_read_as_dense esc0 _ _ _ _ _ (by decide +kernel)
example : idsFrom 0 (.cons 5 (.mk "A" .int8 false []) .nil) = false := by decide +kernel
example : rangeField exampleField = true ∧ validField exampleField = true ∧ (acceptForeign exampleField).isOk = true := by
  decide +kernel
example : (acceptForeign foreignEntriesWitness).isOk = false :=
  C09_foreign_entries_refused _ C09_foreign_entries_unchecked_pinned.2.2.1
-- a struct-admitted strategy on the entries field is accepted (the repair refuses only what a struct field refuses)
example : (acceptForeign (.mk "m" (.map (.mk "entries" (.struct (.cons (.mk "key" .utf8 false []) (.cons (.mk "value" .int32 true []) .nil)))
    false [(STRATEGY_KEY, "MapAsStruct")]) false) false [])).isOk = true := by decide +kernel
-- a strategy that is known but not a struct's, deeper inside: refused by the repaired code, accepted by the pinned one
example : (acceptForeign (.mk "l" (.list (.mk "m" (.map (.mk "entries" (.struct (.cons (.mk "key" .utf8 false []) (.cons (.mk "value" .int32 true []) .nil)))
      false [(STRATEGY_KEY, "UnknownVariant")]) false) false [])) false [])).isOk = false ∧
    (acceptForeignPinned (.mk "l" (.list (.mk "m" (.map (.mk "entries" (.struct (.cons (.mk "key" .utf8 false []) (.cons (.mk "value" .int32 true []) .nil)))
      false [(STRATEGY_KEY, "UnknownVariant")]) false) false [])) false [])).isOk = true := by decide +kernel
example : (acceptForeign (.mk "t" (.time32 .nanosecond) false [])).isOk = false ∧
    validField (.mk "t" (.time32 .nanosecond) false []) = false := by decide +kernel

end SaModel.Props.C09
